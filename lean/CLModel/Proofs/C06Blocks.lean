/- C06 helper lemmas, part 3: `get_matching_blocks` / `get_opcodes` produce a valid edit script. -/
import CLModel.Checks.Difflib
import CLModel.Proofs.C06Flm
namespace Difflib
variable {α : Type} [DecidableEq α]

/-- `x` ends before `y` starts, in both sequences -/
def Before (x y : Block) : Prop := x.i + x.k ≤ y.i ∧ x.j + x.k ≤ y.j

def BoxOK (a b : List α) (q : Box) : Prop :=
  q.alo ≤ q.ahi ∧ q.ahi ≤ a.length ∧ q.blo ≤ q.bhi ∧ q.bhi ≤ b.length

/-- a list of non-empty, really matching blocks of the box, increasing in both sequences -/
structure GoodIn (a b : List α) (q : Box) (l : List Block) : Prop where
  chain : l.Pairwise Before
  each : ∀ x ∈ l, InBox q.alo q.ahi q.blo q.bhi x ∧ IsMatch a b x ∧ x.k ≠ 0

theorem mbLoop_nil (a b : List α) (b2j : List (α × List Nat)) (fuel : Nat) (acc : List Block) :
    mbLoop a b b2j fuel [] acc = some acc := by
  cases fuel <;> rfl

/-- Processing the box on top of the stack appends (a permutation of) a good chain of that box and
    leaves the rest of the stack untouched; `2 * (ahi - alo) + 1` units of fuel suffice. -/
theorem mbLoop_box (a b : List α) (b2j : List (α × List Nat)) (hsorted : B2jSorted b2j)
    (hsound : B2jSound b b2j) :
    ∀ n (q : Box), BoxOK a b q → q.ahi - q.alo ≤ n →
      ∀ (rest : List Box) (acc : List Block) (fuel r : Nat), fuel ≥ 2 * (q.ahi - q.alo) + 1 + r →
        ∃ T C fuel', fuel' ≥ r ∧ T.Perm C ∧ GoodIn a b q C ∧
          mbLoop a b b2j fuel (q :: rest) acc = mbLoop a b b2j fuel' rest (acc ++ T) := by
  intro n
  induction n with
  | zero =>
    intro q hq hn rest acc fuel r hf
    obtain ⟨f, rfl⟩ : ∃ f, fuel = f + 1 := ⟨fuel - 1, by omega⟩
    obtain ⟨x, hx, hbx, hmx⟩ := flm_valid a b b2j hsorted hsound q.alo q.ahi q.blo q.bhi hq.1 hq.2.1 hq.2.2.1 hq.2.2.2
    have hk : x.k = 0 := by have := hbx.h1; have := hbx.h2; omega
    refine ⟨[], [], f, by omega, List.Perm.refl _, ⟨by simp, by simp⟩, ?_⟩
    simp [mbLoop, hx, hk]
  | succ n ih =>
    intro q hq hn rest acc fuel r hf
    obtain ⟨f, rfl⟩ : ∃ f, fuel = f + 1 := ⟨fuel - 1, by omega⟩
    obtain ⟨x, hx, hbx, hmx⟩ := flm_valid a b b2j hsorted hsound q.alo q.ahi q.blo q.bhi hq.1 hq.2.1 hq.2.2.1 hq.2.2.2
    by_cases hk : x.k = 0
    · refine ⟨[], [], f, by omega, List.Perm.refl _, ⟨by simp, by simp⟩, ?_⟩
      simp [mbLoop, hx, hk]
    · -- conditional push of a sub-box
      have sub : ∀ (c : Prop) [Decidable c] (q' : Box), (c → BoxOK a b q' ∧ q'.ahi - q'.alo ≤ n) →
          ∀ (rest : List Box) (acc : List Block) (fuel r : Nat),
            fuel ≥ (if c then 2 * (q'.ahi - q'.alo) + 1 else 0) + r →
            ∃ T C fuel', fuel' ≥ r ∧ T.Perm C ∧ GoodIn a b q' C ∧
              mbLoop a b b2j fuel (if c then q' :: rest else rest) acc = mbLoop a b b2j fuel' rest (acc ++ T) := by
        intro c _ q' hc rest acc fuel r hf
        by_cases h : c
        · simp only [h, if_true] at hf ⊢
          exact ih q' (hc h).1 (hc h).2 rest acc fuel r hf
        · simp only [h, if_false] at hf ⊢
          exact ⟨[], [], fuel, by omega, List.Perm.refl _, ⟨by simp, by simp⟩, by simp⟩
      have h1 := hbx.h1; have h2 := hbx.h2; have h3 := hbx.h3; have h4 := hbx.h4
      have hqa := hq.1; have hqb := hq.2.1; have hqc := hq.2.2.1; have hqd := hq.2.2.2
      -- right box first (it is on top of the stack), then the left one
      let R : Box := ⟨x.i + x.k, q.ahi, x.j + x.k, q.bhi⟩
      let L : Box := ⟨q.alo, x.i, q.blo, x.j⟩
      have hmb : mbLoop a b b2j (f + 1) (q :: rest) acc =
          mbLoop a b b2j f (if x.i + x.k < q.ahi ∧ x.j + x.k < q.bhi then
              R :: (if q.alo < x.i ∧ q.blo < x.j then L :: rest else rest)
            else (if q.alo < x.i ∧ q.blo < x.j then L :: rest else rest)) (acc ++ [x]) := by
        simp only [mbLoop, hx, ne_eq, hk, not_false_eq_true, if_true]
        rfl
      obtain ⟨TR, CR, f1, hf1, pR, gR, eR⟩ := sub (x.i + x.k < q.ahi ∧ x.j + x.k < q.bhi) R
        (by intro hc; exact ⟨⟨by simp only [R]; omega, by simp only [R]; omega, by simp only [R]; omega, by simp only [R]; omega⟩, by simp only [R]; omega⟩)
        (if q.alo < x.i ∧ q.blo < x.j then L :: rest else rest) (acc ++ [x]) f
        ((if q.alo < x.i ∧ q.blo < x.j then 2 * (L.ahi - L.alo) + 1 else 0) + r)
        (by
          simp only [R, L]
          split <;> split <;> omega)
      obtain ⟨TL, CL, f2, hf2, pL, gL, eL⟩ := sub (q.alo < x.i ∧ q.blo < x.j) L
        (by intro hc; exact ⟨⟨by simp only [L]; omega, by simp only [L]; omega, by simp only [L]; omega, by simp only [L]; omega⟩, by simp only [L]; omega⟩)
        rest (acc ++ [x] ++ TR) f1 r hf1
      refine ⟨x :: (TR ++ TL), CL ++ x :: CR, f2, hf2, ?_, ?_, ?_⟩
      · -- permutation
        have : (x :: (TR ++ TL)).Perm (x :: (CR ++ CL)) := List.Perm.cons x (List.Perm.append pR pL)
        refine this.trans ?_
        have h1 : (x :: (CR ++ CL)).Perm ((x :: CR) ++ CL) := by simp
        exact h1.trans List.perm_append_comm
      · constructor
        · rw [List.pairwise_append]
          refine ⟨gL.chain, ?_, ?_⟩
          · rw [List.pairwise_cons]
            refine ⟨?_, gR.chain⟩
            intro z hz
            have := (gR.each z hz).1
            exact ⟨by have := this.h1; simp only [R] at this; omega, by have := this.h3; simp only [R] at this; omega⟩
          · intro y hy z hz
            have hy' := (gL.each y hy).1
            have y2 := hy'.h2; have y4 := hy'.h4
            simp only [L] at y2 y4
            rcases List.mem_cons.mp hz with rfl | hz
            · exact ⟨y2, y4⟩
            · have hz' := (gR.each z hz).1
              have z1 := hz'.h1; have z3 := hz'.h3
              simp only [R] at z1 z3
              exact ⟨by omega, by omega⟩
        · intro y hy
          rcases List.mem_append.mp hy with hy | hy
          · obtain ⟨hb, hm, hk'⟩ := gL.each y hy
            have y1 := hb.h1; have y2 := hb.h2; have y3 := hb.h3; have y4 := hb.h4
            simp only [L] at y1 y2 y3 y4
            exact ⟨⟨y1, by omega, y3, by omega⟩, hm, hk'⟩
          · rcases List.mem_cons.mp hy with rfl | hy
            · exact ⟨hbx, hmx, hk⟩
            · obtain ⟨hb, hm, hk'⟩ := gR.each y hy
              have y1 := hb.h1; have y2 := hb.h2; have y3 := hb.h3; have y4 := hb.h4
              simp only [R] at y1 y2 y3 y4
              exact ⟨⟨by omega, y2, by omega, y4⟩, hm, hk'⟩
      · rw [hmb, eR, eL]
        congr 1
        simp

/-! ### sorting -/

theorem Block.le_trans (x y z : Block) (h1 : Block.le x y = true) (h2 : Block.le y z = true) :
    Block.le x z = true := by
  simp only [Block.le, Bool.or_eq_true, Bool.and_eq_true, decide_eq_true_eq, beq_iff_eq] at *
  omega

theorem Block.le_total (x y : Block) : (Block.le x y || Block.le y x) = true := by
  simp only [Block.le, Bool.or_eq_true, Bool.and_eq_true, decide_eq_true_eq, beq_iff_eq]
  omega

theorem Block.le_antisymm (x y : Block) (h1 : Block.le x y = true) (h2 : Block.le y x = true) : x = y := by
  simp only [Block.le, Bool.or_eq_true, Bool.and_eq_true, decide_eq_true_eq, beq_iff_eq] at *
  cases x; cases y
  simp only [Block.mk.injEq] at *
  omega

theorem sort_eq_chain (T C : List Block) (hp : T.Perm C) (hc : C.Pairwise Before)
    (hk : ∀ x ∈ C, x.k ≠ 0) : T.mergeSort Block.le = C := by
  apply List.Perm.eq_of_pairwise (le := fun x y => Block.le x y = true)
  · intro x y _ _ h1 h2; exact Block.le_antisymm x y h1 h2
  · exact List.pairwise_mergeSort (le := Block.le) Block.le_trans Block.le_total T
  · refine List.Pairwise.imp_of_mem ?_ hc
    intro x y hx _ hxy
    have := hk x hx
    simp only [Block.le, Bool.or_eq_true, Bool.and_eq_true, decide_eq_true_eq, beq_iff_eq]
    have := hxy.1
    omega
  · exact (List.mergeSort_perm T Block.le).trans hp

end Difflib

namespace Difflib
variable {α : Type} [DecidableEq α]

theorem chainB_sorted (b : List α) : B2jSorted (chainB b) := by
  intro x
  rw [chainB_get]
  split
  · simp
  · exact idxFrom_sorted x b 0

theorem chainB_sound (b : List α) : B2jSound b (chainB b) := by
  intro x j hj
  rw [chainB_get] at hj
  split at hj
  · simp at hj
  · simpa using (mem_idxFrom.mp hj).2

/-! ### collapsing adjacent blocks -/

/-- a really matching block inside `a` and `b` (possibly empty) -/
def Good1 (a b : List α) (x : Block) : Prop :=
  x.i + x.k ≤ a.length ∧ x.j + x.k ≤ b.length ∧ IsMatch a b x

theorem collapse_spec (a b : List α) :
    ∀ (l : List Block) (i1 j1 k1 : Nat),
      (⟨i1, j1, k1⟩ :: l).Pairwise Before → (∀ x ∈ (⟨i1, j1, k1⟩ : Block) :: l, Good1 a b x) →
      (collapse i1 j1 k1 l).Pairwise Before ∧
      (∀ x ∈ collapse i1 j1 k1 l, Good1 a b x) ∧
      (∀ x ∈ collapse i1 j1 k1 l, i1 ≤ x.i ∧ j1 ≤ x.j) := by
  intro l
  induction l with
  | nil =>
    intro i1 j1 k1 _ hg
    simp only [collapse]
    split
    · refine ⟨by simp, ?_, ?_⟩
      · intro x hx; simp at hx; subst hx; exact hg _ (by simp)
      · intro x hx; simp at hx; subst hx; simp
    · simp
  | cons x rest ih =>
    intro i1 j1 k1 hc hg
    have hc1 := (List.pairwise_cons.mp hc).1
    have hc2 := (List.pairwise_cons.mp hc).2
    have hx1 := (List.pairwise_cons.mp hc2).1
    have hx2 := (List.pairwise_cons.mp hc2).2
    have g0 := hg ⟨i1, j1, k1⟩ (by simp)
    have gx := hg x (by simp)
    simp only [collapse]
    split
    · rename_i hadj
      -- merged block
      have := ih i1 j1 (k1 + x.k) (by
          rw [List.pairwise_cons]
          refine ⟨?_, hx2⟩
          intro y hy
          have := hx1 y hy
          simp only [Before] at this ⊢
          omega) (by
          intro y hy
          rcases List.mem_cons.mp hy with rfl | hy
          · refine ⟨by have := gx.1; simp only; omega, by have := gx.2.1; simp only; omega, ?_⟩
            intro t ht
            simp only at ht ⊢
            by_cases htk : t < k1
            · exact g0.2.2 t htk
            · obtain ⟨v, hv1, hv2⟩ := gx.2.2 (t - k1) (by omega)
              refine ⟨v, ?_, ?_⟩
              · rw [← hv1]; congr 1; omega
              · rw [← hv2]; congr 1; omega
          · exact hg y (by simp [hy]))
      exact this
    · rename_i hadj
      obtain ⟨r1, r2, r3⟩ := ih x.i x.j x.k hc2 (by intro y hy; exact hg y (List.mem_cons_of_mem _ hy))
      have hbx := hc1 x (by simp)
      simp only [Before] at hbx
      split
      · rename_i hk1
        refine ⟨?_, ?_, ?_⟩
        · simp only [List.singleton_append, List.pairwise_cons]
          refine ⟨?_, r1⟩
          intro y hy
          have := r3 y hy
          simp only [Before]
          omega
        · intro y hy
          simp only [List.singleton_append, List.mem_cons] at hy
          rcases hy with rfl | hy
          · exact g0
          · exact r2 y hy
        · intro y hy
          simp only [List.singleton_append, List.mem_cons] at hy
          rcases hy with rfl | hy
          · simp
          · have := r3 y hy; omega
      · refine ⟨by simpa using r1, by simpa using r2, ?_⟩
        intro y hy
        have := r3 y (by simpa using hy)
        omega

/-! ### opcodes -/

/-- the edit script `ops` turns `a[i:]` into `b[j:]`: the ranges are contiguous, end at the ends
    of both sequences, and every `equal` range really is equal -/
def ValidFrom (a b : List α) : Nat → Nat → List Opcode → Prop
  | i, j, [] => i = a.length ∧ j = b.length
  | i, j, op :: rest =>
    op.i1 = i ∧ op.j1 = j ∧ op.i1 ≤ op.i2 ∧ op.i2 ≤ a.length ∧ op.j1 ≤ op.j2 ∧ op.j2 ≤ b.length ∧
    (match op.tag with
     | .equal => op.i1 < op.i2 ∧ op.i2 - op.i1 = op.j2 - op.j1 ∧
                  ∀ t, t < op.i2 - op.i1 → a[op.i1 + t]? = b[op.j1 + t]?
     | .delete => op.i1 < op.i2 ∧ op.j1 = op.j2
     | .insert => op.i1 = op.i2 ∧ op.j1 < op.j2
     | .replace => op.i1 < op.i2 ∧ op.j1 < op.j2) ∧
    ValidFrom a b op.i2 op.j2 rest

theorem validFrom_cons (a b : List α) (i j : Nat) (op : Opcode) (rest : List Opcode) :
    ValidFrom a b i j (op :: rest) =
    (op.i1 = i ∧ op.j1 = j ∧ op.i1 ≤ op.i2 ∧ op.i2 ≤ a.length ∧ op.j1 ≤ op.j2 ∧ op.j2 ≤ b.length ∧
    (match op.tag with
     | .equal => op.i1 < op.i2 ∧ op.i2 - op.i1 = op.j2 - op.j1 ∧
                  ∀ t, t < op.i2 - op.i1 → a[op.i1 + t]? = b[op.j1 + t]?
     | .delete => op.i1 < op.i2 ∧ op.j1 = op.j2
     | .insert => op.i1 = op.i2 ∧ op.j1 < op.j2
     | .replace => op.i1 < op.i2 ∧ op.j1 < op.j2) ∧
    ValidFrom a b op.i2 op.j2 rest) := rfl

/-- contract of `SequenceMatcher.get_opcodes()` -/
def ValidOpcodes (a b : List α) (ops : List Opcode) : Prop := ValidFrom a b 0 0 ops

theorem opcodesGo_valid (a b : List α) :
    ∀ (l : List Block) (i j : Nat), l.Pairwise Before → (∀ x ∈ l, Good1 a b x) →
      (∀ x ∈ l, i ≤ x.i ∧ j ≤ x.j) → l.getLast? = some ⟨a.length, b.length, 0⟩ →
      ValidFrom a b i j (opcodesGo i j l) := by
  intro l
  induction l with
  | nil => intro i j _ _ _ h; simp at h
  | cons x rest ih =>
    intro i j hc hg hlb hlast
    have gx := hg x (by simp)
    have lbx := hlb x (by simp)
    have hrest : ValidFrom a b (x.i + x.k) (x.j + x.k) (opcodesGo (x.i + x.k) (x.j + x.k) rest) := by
      cases rest with
      | nil =>
        simp at hlast
        subst hlast
        simp [opcodesGo, ValidFrom]
      | cons y rest' =>
        apply ih
        · exact (List.pairwise_cons.mp hc).2
        · intro z hz; exact hg z (by simp [hz])
        · intro z hz
          have := (List.pairwise_cons.mp hc).1 z hz
          simp only [Before] at this
          omega
        · simpa [List.getLast?_cons_cons] using hlast
    have hequal : ValidFrom a b x.i x.j
        ((if x.k ≠ 0 then [(⟨.equal, x.i, x.i + x.k, x.j, x.j + x.k⟩ : Opcode)] else []) ++
          opcodesGo (x.i + x.k) (x.j + x.k) rest) := by
      by_cases hk : x.k = 0
      · simp only [hk, ne_eq, not_true_eq_false, if_false, List.nil_append, Nat.add_zero] at hrest ⊢
        exact hrest
      · simp only [ne_eq, hk, not_false_eq_true, if_true, List.singleton_append]
        rw [validFrom_cons]
        refine ⟨rfl, rfl, by simp only; omega, gx.1, by simp only; omega, gx.2.1, ⟨by simp only; omega, by simp only; omega, ?_⟩, hrest⟩
        simp only
        intro t ht
        obtain ⟨v, hv1, hv2⟩ := gx.2.2 t (by omega)
        rw [hv1, hv2]
    simp only [opcodesGo]
    have hxa : x.i ≤ a.length := by have := gx.1; omega
    have hxb : x.j ≤ b.length := by have := gx.2.1; omega
    by_cases h1 : i < x.i ∧ j < x.j
    · simp only [h1, and_self, if_true, List.append_assoc, List.cons_append, List.nil_append]
      rw [validFrom_cons]
      exact ⟨rfl, rfl, by simp only; omega, hxa, by simp only; omega, hxb, ⟨h1.1, h1.2⟩, hequal⟩
    · simp only [h1, if_false]
      by_cases h2 : i < x.i
      · simp only [h2, if_true, List.append_assoc, List.cons_append, List.nil_append]
        have : j = x.j := by omega
        rw [validFrom_cons]
        exact ⟨rfl, rfl, by simp only; omega, hxa, by simp only; omega, hxb, ⟨h2, this⟩, hequal⟩
      · simp only [h2, if_false]
        by_cases h3 : j < x.j
        · simp only [h3, if_true, List.append_assoc, List.cons_append, List.nil_append]
          have : i = x.i := by omega
          rw [validFrom_cons]
          exact ⟨rfl, rfl, by simp only; omega, hxa, by simp only; omega, hxb, ⟨this, h3⟩, hequal⟩
        · simp only [h3, if_false, List.nil_append, List.append_assoc]
          have e1 : i = x.i := by omega
          have e2 : j = x.j := by omega
          rw [e1, e2]
          exact hequal

/-- **The port of `get_opcodes` is total and returns a valid edit script.** -/
theorem opcodes_valid (a b : List α) : ∃ ops, opcodes a b = some ops ∧ ValidOpcodes a b ops := by
  obtain ⟨T, C, f', _, hp, hg, he⟩ := mbLoop_box a b (chainB b) (chainB_sorted b) (chainB_sound b)
    a.length ⟨0, a.length, 0, b.length⟩ ⟨by simp, by simp, by simp, by simp⟩ (by simp) [] []
    (2 * a.length + 2) 1 (by simp)
  rw [mbLoop_nil] at he
  simp only [List.nil_append] at he
  have hsort := sort_eq_chain T C hp hg.chain (fun x hx => (hg.each x hx).2.2)
  have hgood : ∀ x ∈ C, Good1 a b x := by
    intro x hx
    obtain ⟨hb, hm, _⟩ := hg.each x hx
    exact ⟨hb.h2, hb.h4, hm⟩
  obtain ⟨c1, c2, c3⟩ := collapse_spec a b C 0 0 0
    (by
      rw [List.pairwise_cons]
      exact ⟨by intro y _; simp [Before], hg.chain⟩)
    (by
      intro x hx
      rcases List.mem_cons.mp hx with rfl | hx
      · exact ⟨by simp, by simp, by intro t ht; simp at ht⟩
      · exact hgood x hx)
  refine ⟨opcodesGo 0 0 (collapse 0 0 0 C ++ [⟨a.length, b.length, 0⟩]), ?_, ?_⟩
  · simp [opcodes, matchingBlocks, he, hsort]
  · apply opcodesGo_valid
    · rw [List.pairwise_append]
      refine ⟨c1, by simp, ?_⟩
      intro x hx y hy
      simp at hy; subst hy
      have := c2 x hx
      exact ⟨this.1, this.2.1⟩
    · intro x hx
      rcases List.mem_append.mp hx with hx | hx
      · exact c2 x hx
      · simp at hx; subst hx
        exact ⟨by simp, by simp, by intro t ht; simp at ht⟩
    · intro x _; simp
    · simp

end Difflib

/-
C16G, part 5: when does the output start with a blank line?
  `lead_of_old_ws`      the sanitized old dict starts with a white-space entry                 ⇒ yes   (ALL entry lists)
  `no_lead_of_head`     template starts with key `k`, old dict empty / starts with a template key, `k` is emitted ⇒ no
  `lead_of_not_chosen`  template starts with key `k`, `k` is NOT emitted (shape `Alt`, entries ws/entity/placeholder) ⇒ yes
-/
import CLModel.Proofs.C16GHead
namespace C16G
open AR Ser C16L C16R
open P (PRec)

/-! ### general facts -/

theorem ws1_not_d0 (ref : List Ent) (j : Nat) : MKey.ws 1 j ∉ dkeys (d0Of ref) := by
  intro h
  have := parseResource_ws_src 0 _ _ h 1 j rfl
  omega

theorem ws0_not_d1 (ref old : List Ent) (nd : NewData) (j : Nat) : MKey.ws 0 j ∉ dkeys (d1Of ref old nd) := by
  intro h
  have := parseResource_ws_src 1 _ _ h 0 j rfl
  omega

theorem contains_false_of_not_mem {k : MKey} {l : List MKey} (h : k ∉ l) : l.contains k = false := by
  cases hc : l.contains k with
  | false => rfl
  | true => exact absurd (by simpa using hc) h

/-- no new value is filed under a key that is not a template key -/
theorem d2_none_of_not_d0 (ref : List Ent) (nd : NewData) (k : MKey) (hk : k ∉ dkeys (d0Of ref)) :
    dget (d2Of ref nd) k = none := by
  cases hg : dget (d2Of ref nd) k with
  | none => rfl
  | some l =>
    obtain ⟨_, hkk, hkn⟩ := d2_some hg
    rw [hkk] at hk
    exact absurd (known_mem_d0 hkn) hk

theorem dget_head {β : Type} (k : MKey) (v : β) (d : List (MKey × β)) : dget ((k, v) :: d) k = some v := by
  simp [dget]

theorem isWs_not_sticky {e : Ent} (h : e.isWs = true) : e.isSticky = false := by
  cases e with | mk kind key val all pre post => cases kind <;> simp_all [Ent.isWs, Ent.isSticky]

theorem isPh_not_sticky {e : Ent} (h : e.isPlaceholder = true) : e.isSticky = false := by
  cases e with | mk kind key val all pre post => cases kind <;> simp_all [Ent.isPlaceholder, Ent.isSticky]

/-- the first pair of `olderPairs` when the key diff starts with `k` and `get_older_entity` finds `e` -/
theorem olderPairs_of_keys (N O : Dict) (k : MKey) (K : List MKey) (e : Ent)
    (hK : (addRemove (dkeys N) (dkeys O)).map (·.2) = k :: K) (hg : getOlder N O k = some e) :
    olderPairs N O = (k, e) :: K.filterMap (fun k => (getOlder N O k).map (fun e => (k, e))) := by
  unfold olderPairs
  rw [hK, List.filterMap_cons, hg]
  rfl

/-- the pair `olderPairs` holds for a key of the diff -/
def opF (ref old : List Ent) (nd : NewData) (k : MKey) : Option (MKey × Ent) :=
  (getOlder (d0Of ref) (d1Of ref old nd) k).map (fun e => (k, e))

theorem olderPairs_opF (ref old : List Ent) (nd : NewData) :
    olderPairs (d0Of ref) (d1Of ref old nd)
      = ((addRemove (dkeys (d0Of ref)) (dkeys (d1Of ref old nd))).map (·.2)).filterMap (opF ref old nd) := rfl

/-! ### the old file starts with white space ⇒ so does the output -/

theorem lead_of_old_ws (ref old : List Ent) (nd : NewData) (j : Nat) (W : Ent) (D : Dict)
    (h1 : d1Of ref old nd = (MKey.ws 1 j, W) :: D) (hW : W.isWs = true) :
    hw Ent.isWs (serializeEnts ref old nd) = true := by
  have hD0 := d0_nodup ref
  have hD1 := d1_nodup ref old nd
  rw [hw_out]
  have hr : dkeys (d1Of ref old nd) = MKey.ws 1 j :: dkeys D := by rw [h1]; rfl
  obtain ⟨K, hK⟩ := diff_keys_add_head (dkeys (d0Of ref)) (MKey.ws 1 j) (dkeys D) hD0 (by rw [← hr]; exact hD1)
    (contains_false_of_not_mem (ws1_not_d0 ref j))
  rw [← hr] at hK
  have hg : getOlder (d0Of ref) (d1Of ref old nd) (MKey.ws 1 j) = some W := by
    unfold getOlder
    rw [h1, dget_head]
    simp [isWs_not_sticky hW]
  rw [olderPairs_of_keys _ _ _ K W hK hg,
    List.filter_cons_of_pos (q2_of_ws ref nd (MKey.ws 1 j, W) hW)]
  exact hW

/-! ### the first template key is emitted ⇒ no blank line -/

theorem no_lead_of_head (ref old : List Ent) (nd : NewData) (k : List Nat) (P0 : Ent) (d0' : Dict) (E : Ent)
    (h0 : d0Of ref = (MKey.str k, P0) :: d0')
    (h1 : ∀ x, (dkeys (d1Of ref old nd)).head? = some x → x ∈ dkeys (d0Of ref))
    (hg : gOf ref old nd (MKey.str k) = some E) :
    hw Ent.isWs (serializeEnts ref old nd) = false := by
  have hD0 := d0_nodup ref
  have hD1 := d1_nodup ref old nd
  rw [hw_out]
  have hd : dkeys (d0Of ref) = MKey.str k :: dkeys d0' := by rw [h0]; rfl
  obtain ⟨K, hK⟩ : ∃ K, (addRemove (dkeys (d0Of ref)) (dkeys (d1Of ref old nd))).map (·.2) = MKey.str k :: K := by
    rw [hd]
    apply addRemove_head _ _ _ (by rw [← hd]; exact hD0) hD1
    intro x hx
    have := h1 x hx
    rw [hd] at this
    simpa using this
  obtain ⟨e0, he0⟩ := getOlder_of_left (N := d0Of ref) (O := d1Of ref old nd) (k := MKey.str k) (by rw [hd]; simp)
  have hop := olderPairs_of_keys _ _ _ K e0 hK he0
  have hreal : (pick (d2Of ref nd) (MKey.str k) e0).isReal = true := by
    unfold gOf at hg
    rw [he0] at hg
    simp only [Option.bind_some] at hg
    split at hg
    · assumption
    · simp at hg
  have hq : q2 (d2Of ref nd) (MKey.str k, e0) = true := by
    unfold q2
    simp [isReal_not_ph hreal]
  have hnw : pIsWs (MKey.str k, e0) = false := by
    have hok := olderPairs01_keyOK ref old nd (MKey.str k, e0) (by rw [hop]; simp)
    cases hw : e0.isWs with
    | false => exact hw
    | true => have := keyOK_ws hok hw; simp [strOf] at this
  rw [hop, List.filter_cons_of_pos hq]
  exact hnw

/-! ### the first template key is not emitted ⇒ blank line -/

/-- every entry is white space, a real entity or a placeholder (printed files: no comments, sections, sticky entries) -/
def Tri (e : Ent) : Prop := e.isWs = true ∨ e.isReal = true ∨ e.isPlaceholder = true

theorem tri_not_sticky {e : Ent} (h : Tri e) : e.isSticky = false := by
  rcases h with h | h | h
  · exact isWs_not_sticky h
  · exact isReal_not_sticky h
  · exact isPh_not_sticky h

/-- a pair of the old dict under a key that is not a template key: white space, or dropped as a placeholder -/
theorem addOnly_q2 (ref old : List Ent) (nd : NewData) (x : MKey) (e : Ent)
    (hx : x ∉ dkeys (d0Of ref)) (hm : (x, e) ∈ d1Of ref old nd) (ht : Tri e) :
    pIsWs (x, e) = true ∨ q2 (d2Of ref nd) (x, e) = false := by
  rcases ht with h | h | h
  · exact .inl h
  · exfalso
    have hos := parseResource_mem hm
    have hkn := os_real hos h
    have hok := d1_keyOK ref old nd _ hm
    have := keyOK_str hok (isReal_strKeyed h)
    rw [this] at hx
    exact hx (known_mem_d0 hkn)
  · right
    unfold q2 pick
    rw [d2_none_of_not_d0 ref nd x hx]
    simp [h]

theorem lead_of_not_chosen (ref old : List Ent) (nd : NewData) (k : List Nat) (P0 : Ent) (d0' : Dict)
    (h0 : d0Of ref = (MKey.str k, P0) :: d0')
    (ha0 : Alt wsKey (dkeys (d0Of ref))) (ha1 : Alt wsKey (dkeys (d1Of ref old nd)))
    (ht0 : ∀ p ∈ d0Of ref, Tri p.2) (ht1 : ∀ p ∈ d1Of ref old nd, Tri p.2)
    (hg : gOf ref old nd (MKey.str k) = none) :
    hw Ent.isWs (serializeEnts ref old nd) = true := by
  have hD0 := d0_nodup ref
  have hD1 := d1_nodup ref old nd
  -- the template: `k`, then a white-space entry
  obtain ⟨y0, W0, d0'', hd0', hy0⟩ : ∃ y0 W0 d0'', d0' = (y0, W0) :: d0'' ∧ wsKey y0 = true := by
    rw [h0] at ha0
    have : hw wsKey (dkeys d0') = true := by
      rcases ha0.1 with h | h
      · simp [wsKey] at h
      · exact h
    cases d0' with
    | nil => simp [dkeys, hw] at this
    | cons p t => exact ⟨p.1, p.2, t, rfl, by simpa [dkeys, hw] using this⟩
  have hW0 : W0.isWs = true := by
    have hok := d0_keyOK ref (y0, W0) (by rw [h0, hd0']; simp)
    rw [← keyOK_wsKey hok]; exact hy0
  have hd : dkeys (d0Of ref) = MKey.str k :: y0 :: dkeys d0'' := by rw [h0, hd0']; rfl
  -- `get_older_entity` for `k`: a placeholder that no new value replaces
  obtain ⟨e0, he0⟩ := getOlder_of_left (N := d0Of ref) (O := d1Of ref old nd) (k := MKey.str k) (by rw [hd]; simp)
  have hq0 : q2 (d2Of ref nd) (MKey.str k, e0) = false := by
    have hnr : (pick (d2Of ref nd) (MKey.str k) e0).isReal = false := by
      unfold gOf at hg
      rw [he0] at hg
      simp only [Option.bind_some] at hg
      split at hg
      · simp at hg
      · rename_i h; simpa using h
    have hte : Tri e0 := by
      rcases getOlder_mem he0 with h | h
      · exact ht0 _ h
      · exact ht1 _ h
    have hnw : e0.isWs = false := by
      have hok : keyOK (MKey.str k, e0) = true := by
        rcases getOlder_mem he0 with h | h
        · exact d0_keyOK ref _ h
        · exact d1_keyOK ref old nd _ h
      cases hw : e0.isWs with
      | false => rfl
      | true => have := keyOK_ws hok hw; simp [strOf] at this
    unfold q2
    unfold pick at hnr ⊢
    cases hd2 : dget (d2Of ref nd) (MKey.str k) with
    | none =>
      rw [hd2] at hnr
      simp only at hnr ⊢
      rcases hte with h | h | h
      · rw [hnw] at h; simp at h
      · rw [hnr] at h; simp at h
      · simp [h]
    | some l =>
      rw [hd2] at hnr
      simp only at hnr ⊢
      have hl := (d2_some hd2).1
      rw [if_neg (by simp [isReal_not_sticky hl]), hl] at hnr
      simp at hnr
  -- the white-space entry of the template after `k`
  have hfy0 : opF ref old nd y0 = some (y0, W0) := by
    obtain ⟨a, b, rfl⟩ : ∃ a b, y0 = MKey.ws a b := by
      cases y0 with
      | ws a b => exact ⟨a, b, rfl⟩
      | str s => simp [wsKey] at hy0
      | cmt v n => simp [wsKey] at hy0
    have ha : a = 0 := parseResource_ws_src 0 (plOf ref) (MKey.ws a b)
      (show MKey.ws a b ∈ dkeys (d0Of ref) by rw [hd]; simp) a b rfl
    subst ha
    have hn1 : dget (d1Of ref old nd) (MKey.ws 0 b) = none := dget_none_of_not_mem (ws0_not_d1 ref old nd b)
    have hn0 : dget (d0Of ref) (MKey.ws 0 b) = some W0 :=
      dget_of_mem_nodup hD0 (by rw [h0, hd0']; simp)
    unfold opF getOlder
    rw [hn1, hn0]
    rfl
  have hf0 : opF ref old nd (MKey.str k) = some (MKey.str k, e0) := by unfold opF; rw [he0]; rfl
  have hfm : ∀ g : MKey → List MKey,
      (dkeys (d0Of ref)).flatMap g = g (MKey.str k) ++ (g y0 ++ (dkeys d0'').flatMap g) := by
    intro g; rw [hd]; simp [List.flatMap_cons]
  rw [hw_out]
  by_cases hh : ∀ x, (dkeys (d1Of ref old nd)).head? = some x → (dkeys (d0Of ref)).contains x = true
  · -- the old dict is empty or starts with a template key
    have hkeys := diff_keys_shared_head _ _ hD0 hD1 hh
    have hop : olderPairs (d0Of ref) (d1Of ref old nd)
        = (MKey.str k, e0) :: ((addsOf (dkeys (d0Of ref)) (dkeys (d1Of ref old nd)) none (some (MKey.str k))).filterMap (opF ref old nd)
            ++ (y0, W0) :: ((addsOf (dkeys (d0Of ref)) (dkeys (d1Of ref old nd)) none (some y0)
                ++ (dkeys d0'').flatMap (fun k => k :: addsOf (dkeys (d0Of ref)) (dkeys (d1Of ref old nd)) none (some k))).filterMap (opF ref old nd))) := by
      rw [olderPairs_opF, hkeys, hfm]
      simp only [List.cons_append, List.filterMap_cons, List.filterMap_append, hf0, hfy0]
    rw [hop, List.filter_cons_of_neg (by simp [hq0])]
    apply hw_skip pIsWs _ (q2_of_ws ref nd) _ (y0, W0) _ _ (show pIsWs (y0, W0) = true from hW0)
    intro p hp
    rw [List.mem_filterMap] at hp
    obtain ⟨x, hx, hfx⟩ := hp
    obtain ⟨hxl, _⟩ := mem_addsOf _ _ _ _ x hx
    have hxn : x ∉ dkeys (d0Of ref) := by
      intro hm
      have : (dkeys (d0Of ref)).contains x = true := by simpa using hm
      rw [this] at hxl
      cases hxl
    cases hgx : getOlder (d0Of ref) (d1Of ref old nd) x with
    | none => simp [opF, hgx] at hfx
    | some e =>
      have : p = (x, e) := by simp [opF, hgx] at hfx; exact hfx.symm
      subst this
      rcases getOlder_mem hgx with h | h
      · exact absurd (List.mem_map.2 ⟨_, h, rfl⟩) hxn
      · exact addOnly_q2 ref old nd x e hxn h (ht1 _ h)
  · -- the old dict starts with a key that is not a template key
    obtain ⟨x, e, D, h1, hxn⟩ : ∃ x e D, d1Of ref old nd = (x, e) :: D ∧ x ∉ dkeys (d0Of ref) := by
      cases hd1 : d1Of ref old nd with
      | nil =>
        exfalso
        apply hh
        intro x hx
        rw [hd1] at hx
        simp [dkeys] at hx
      | cons p t =>
        refine ⟨p.1, p.2, t, rfl, ?_⟩
        intro hm
        apply hh
        intro x hx
        rw [hd1] at hx
        simp only [dkeys, List.map_cons, List.head?_cons, Option.some.injEq] at hx
        subst hx
        simpa using hm
    have hte : Tri e := ht1 (x, e) (by rw [h1]; simp)
    have hgx : getOlder (d0Of ref) (d1Of ref old nd) x = some e := by
      unfold getOlder
      rw [h1, dget_head]
      simp [tri_not_sticky hte]
    by_cases hwx : wsKey x = true
    · -- a white-space entry first
      have hr : dkeys (d1Of ref old nd) = x :: dkeys D := by rw [h1]; rfl
      obtain ⟨K, hK⟩ := diff_keys_add_head (dkeys (d0Of ref)) x (dkeys D) hD0 (by rw [← hr]; exact hD1)
        (contains_false_of_not_mem hxn)
      rw [← hr] at hK
      have hew : e.isWs = true := by
        have hok := d1_keyOK ref old nd (x, e) (by rw [h1]; simp)
        rw [← keyOK_wsKey hok]; exact hwx
      rw [olderPairs_of_keys _ _ _ K e hK hgx, List.filter_cons_of_pos (q2_of_ws ref nd (x, e) hew)]
      exact hew
    · -- an obsolete entity first: its white-space entry follows
      obtain ⟨y, e', D', hD, hy⟩ : ∃ y e' D', D = (y, e') :: D' ∧ wsKey y = true := by
        rw [h1] at ha1
        have : hw wsKey (dkeys D) = true := by
          rcases ha1.1 with h | h
          · exact absurd h hwx
          · exact h
        cases D with
        | nil => simp [dkeys, hw] at this
        | cons p t => exact ⟨p.1, p.2, t, rfl, by simpa [dkeys, hw] using this⟩
      have hew : e'.isWs = true := by
        have hok := d1_keyOK ref old nd (y, e') (by rw [h1, hD]; simp)
        rw [← keyOK_wsKey hok]; exact hy
      have hyn : y ∉ dkeys (d0Of ref) := by
        obtain ⟨a, b, rfl⟩ : ∃ a b, y = MKey.ws a b := by
          cases y with
          | ws a b => exact ⟨a, b, rfl⟩
          | str s => simp [wsKey] at hy
          | cmt v n => simp [wsKey] at hy
        have ha : a = 1 := parseResource_ws_src 1 (osOf ref old nd) (MKey.ws a b)
          (show MKey.ws a b ∈ dkeys (d1Of ref old nd) by rw [h1, hD]; simp [dkeys]) a b rfl
        subst ha
        exact ws1_not_d0 ref b
      have hr : dkeys (d1Of ref old nd) = x :: y :: dkeys D' := by rw [h1, hD]; rfl
      obtain ⟨K, hK⟩ := diff_keys_add_head2 (dkeys (d0Of ref)) x y (dkeys D') hD0 (by rw [← hr]; exact hD1)
        (contains_false_of_not_mem hxn) (contains_false_of_not_mem hyn)
      rw [← hr] at hK
      have hgy : getOlder (d0Of ref) (d1Of ref old nd) y = some e' := by
        have hn1 : dget (d1Of ref old nd) y = some e' := dget_of_mem_nodup hD1 (by rw [h1, hD]; simp)
        unfold getOlder
        rw [hn1]
        simp [isWs_not_sticky hew]
      have hqx : q2 (d2Of ref nd) (x, e) = false := by
        rcases addOnly_q2 ref old nd x e hxn (by rw [h1]; simp) hte with h | h
        · have hok := d1_keyOK ref old nd (x, e) (by rw [h1]; simp)
          have := keyOK_wsKey hok
          rw [show pIsWs (x, e) = e.isWs from rfl] at h
          rw [← this] at h
          exact absurd h hwx
        · exact h
      rw [olderPairs_of_keys _ _ _ (y :: K) e hK hgx, List.filter_cons_of_neg (by simp [hqx]),
        List.filterMap_cons, hgy]
      simp only [Option.map_some]
      rw [List.filter_cons_of_pos (q2_of_ws ref nd (y, e') hew)]
      exact hew

end C16G

/-
C03 round 4 — helper lemmas for the job sequences of CLModel/Compare/Session.lean.

Every job of a session is, as far as the observers are concerned, a history of events (`ObsM.Ev`) on the job's own
files: `Tr l l' evs` says that the events `evs` lead from the observers `l` to `l'`.  The per-locale counters after a
history are given by `ObsM.coreRun_spec` (C10): every event adds to the counters of ITS file's locale only.
-/
import CLModel.Compare.Session
import CLModel.Proofs.C10Obs
namespace C03S
open ObsM Sess

/-- the events `evs` lead from `l` to `l'` -/
def Tr (l l' : ObsList) (evs : List Ev) : Prop := l.run evs = .ok l'

theorem Tr.refl (l : ObsList) : Tr l l [] := rfl

theorem run_append (l : ObsList) : ∀ (h1 h2 : List Ev) (l1 : ObsList), l.run h1 = .ok l1 → l.run (h1 ++ h2) = l1.run h2 := by
  intro h1
  induction h1 generalizing l with
  | nil =>
    intro h2 l1 h
    simp only [ObsList.run, pure, Except.pure, Except.ok.injEq] at h
    subst h; rfl
  | cons ev rest ih =>
    intro h2 l1 h
    simp only [ObsList.run, List.cons_append, bind, Except.bind] at h ⊢
    cases hs : l.step ev with
    | error e => rw [hs] at h; cases h
    | ok l' =>
      rw [hs] at h
      simp only at h ⊢
      exact ih l' h2 l1 h

theorem Tr.trans {a b c : ObsList} {e1 e2 : List Ev} (h1 : Tr a b e1) (h2 : Tr b c e2) : Tr a c (e1 ++ e2) := by
  unfold Tr at *
  rw [run_append a e1 e2 b h1]; exact h2

/-- `self.observers.notify(category, file, data)` that returns is one `notify` event -/
theorem tell_tr {l l' : ObsList} {c : Cat} {f : File} {d : Data} {rv : Ret} (h : tell l c f d = .ok (l', rv)) :
    Tr l l' [.notify c f d] ∧ l.notify c f d = .ok (l', rv) := by
  unfold tell at h
  cases hn : l.notify c f d with
  | error e => rw [hn] at h; cases h
  | ok r =>
    rw [hn] at h
    simp only [Except.ok.injEq] at h
    subst h
    exact ⟨by simp [Tr, ObsList.run, ObsList.step, hn, bind, Except.bind, pure, Except.pure], rfl⟩

/-- `self.observers.updateStats(file, stats)` is one `stats` event -/
theorem push_tr (l : ObsList) (f : File) (st : List (StatKey × Nat)) : Tr l (l.updateStats f st) [.stats f st] := by
  simp [Tr, ObsList.run, ObsList.step, bind, Except.bind, pure, Except.pure]

/-- all events are notifications about `file` -/
def NotifyOn (file : File) (evs : List Ev) : Prop := ∀ ev ∈ evs, ∃ c d, ev = .notify c file d

theorem NotifyOn.nil (file : File) : NotifyOn file [] := by intro ev h; cases h

theorem NotifyOn.single (file : File) (c : Cat) (d : Data) : NotifyOn file [.notify c file d] := by
  intro ev h
  simp only [List.mem_singleton] at h
  exact ⟨c, d, h⟩

theorem NotifyOn.append {file : File} {a b : List Ev} (ha : NotifyOn file a) (hb : NotifyOn file b) : NotifyOn file (a ++ b) := by
  intro ev h
  rcases List.mem_append.1 h with h | h
  · exact ha ev h
  · exact hb ev h

/-! ### the comparison on entity lists -/

theorem checkLoop_tr (file : File) : ∀ (cs : List (Bool × Text)) (l l' : ObsList), checkLoop file cs l = .ok l' →
    ∃ evs, Tr l l' evs ∧ NotifyOn file evs
  | [], l, l', h => by
    simp only [checkLoop, Except.ok.injEq] at h
    subst h
    exact ⟨[], Tr.refl _, NotifyOn.nil _⟩
  | (isErr, t) :: rest, l, l', h => by
    simp only [checkLoop] at h
    cases ht : tell l (if isErr then Cat.error else Cat.warning) file (Data.str t) with
    | error e => rw [ht] at h; cases h
    | ok r =>
      obtain ⟨l1, rv⟩ := r
      rw [ht] at h
      simp only at h
      obtain ⟨evs, h1, h2⟩ := checkLoop_tr file rest l1 l' h
      exact ⟨_ :: evs, (tell_tr ht).1.trans h1, (NotifyOn.single file _ _).append h2⟩

theorem notifyDups_tr (file : File) (cat : Cat) : ∀ (ds : List (Cmp.Key × Nat)) (l l' : ObsList),
    notifyDups file cat ds l = .ok l' → ∃ evs, Tr l l' evs ∧ NotifyOn file evs
  | [], l, l', h => by
    simp only [notifyDups, Except.ok.injEq] at h
    subst h
    exact ⟨[], Tr.refl _, NotifyOn.nil _⟩
  | (k, n) :: rest, l, l', h => by
    simp only [notifyDups] at h
    cases ht : tell l cat file (Data.str (Pipe.dupMsg k n)) with
    | error e => rw [ht] at h; cases h
    | ok r =>
      obtain ⟨l1, rv⟩ := r
      rw [ht] at h
      simp only at h
      obtain ⟨evs, h1, h2⟩ := notifyDups_tr file cat rest l1 l' h
      exact ⟨_ :: evs, (tell_tr ht).1.trans h1, (NotifyOn.single file _ _).append h2⟩

theorem stepEnt_tr (file : File) (j : EntJob) (l : ObsList) (s : Cmp.Stats) (p : AR.Label × Cmp.Key) (l' : ObsList) (s' : Cmp.Stats)
    (h : stepEnt file j (l, s) p = .ok (l', s')) : ∃ evs, Tr l l' evs ∧ NotifyOn file evs := by
  obtain ⟨a, k⟩ := p
  cases a with
  | delete =>
    simp only [stepEnt] at h
    cases hr : lookup j.ref k with
    | error e => rw [hr] at h; cases h
    | ok refent =>
      rw [hr] at h
      simp only at h
      split at h
      · cases ht : tell l Cat.warning file (Data.str Gen.Tables.cmpRefJunkMsg) with
        | error e => rw [ht] at h; cases h
        | ok r =>
          obtain ⟨l1, rv⟩ := r
          rw [ht] at h
          simp only [Except.ok.injEq, Prod.mk.injEq] at h
          obtain ⟨rfl, _⟩ := h
          exact ⟨_, (tell_tr ht).1, NotifyOn.single file _ _⟩
      · cases ht : tell l Cat.missingEntity file (Pipe.keyData k) with
        | error e => rw [ht] at h; cases h
        | ok r =>
          obtain ⟨l1, rv⟩ := r
          rw [ht] at h
          have hl : l1 = l' := by
            cases rv <;> simp only [Except.ok.injEq, Prod.mk.injEq] at h <;> exact h.1
          subst hl
          exact ⟨_, (tell_tr ht).1, NotifyOn.single file _ _⟩
  | add =>
    simp only [stepEnt] at h
    cases hr : lookup j.l10n k with
    | error e => rw [hr] at h; cases h
    | ok l10nent =>
      rw [hr] at h
      simp only at h
      split at h
      · cases hm : j.msgs[l10nent.msg]? with
        | none => rw [hm] at h; cases h
        | some msg =>
          rw [hm] at h
          simp only at h
          cases ht : tell l Cat.error file (Data.str msg) with
          | error e => rw [ht] at h; cases h
          | ok r =>
            obtain ⟨l1, rv⟩ := r
            rw [ht] at h
            simp only [Except.ok.injEq, Prod.mk.injEq] at h
            obtain ⟨rfl, _⟩ := h
            exact ⟨_, (tell_tr ht).1, NotifyOn.single file _ _⟩
      · cases ht : tell l Cat.obsoleteEntity file (Pipe.keyData k) with
        | error e => rw [ht] at h; cases h
        | ok r =>
          obtain ⟨l1, rv⟩ := r
          rw [ht] at h
          have hl : l1 = l' := by
            simp only at h
            split at h <;> simp only [Except.ok.injEq, Prod.mk.injEq] at h <;> exact h.1
          subst hl
          exact ⟨_, (tell_tr ht).1, NotifyOn.single file _ _⟩
  | equal =>
    simp only [stepEnt] at h
    cases hr : lookup j.ref k with
    | error e => rw [hr] at h; cases h
    | ok refent =>
      cases hl : lookup j.l10n k with
      | error e => rw [hr, hl] at h; cases h
      | ok l10nent =>
        rw [hr, hl] at h
        simp only at h
        split at h
        · cases h
        · cases hc : checkLoop file (checksOf j k) l with
          | error e => rw [hc] at h; cases h
          | ok l1 =>
            rw [hc] at h
            simp only [Except.ok.injEq, Prod.mk.injEq] at h
            obtain ⟨rfl, _⟩ := h
            exact checkLoop_tr file _ l l1 hc

theorem foldE_tr (file : File) (j : EntJob) : ∀ (ar : List (AR.Label × Cmp.Key)) (st st' : ObsList × Cmp.Stats),
    Pipe.foldE (stepEnt file j) ar st = .ok st' → ∃ evs, Tr st.1 st'.1 evs ∧ NotifyOn file evs
  | [], st, st', h => by
    simp only [Pipe.foldE, Except.ok.injEq] at h
    subst h
    exact ⟨[], Tr.refl _, NotifyOn.nil _⟩
  | p :: rest, st, st', h => by
    simp only [Pipe.foldE] at h
    cases hs : stepEnt file j st p with
    | error e => rw [hs] at h; cases h
    | ok st1 =>
      rw [hs] at h
      simp only at h
      obtain ⟨e1, t1, n1⟩ := stepEnt_tr file j st.1 st.2 p st1.1 st1.2 hs
      obtain ⟨e2, t2, n2⟩ := foldE_tr file j rest st1 st' h
      exact ⟨e1 ++ e2, t1.trans t2, n1.append n2⟩

/-- a comparison that returns is: notifications about the localized file, then ONE stats event for it -/
theorem compareEnts_tr (file : File) (j : EntJob) (l l' : ObsList) (h : compareEnts file j l = .ok l') :
    ∃ evs s, Tr l l' (evs ++ [.stats file (Pipe.statsList s)]) ∧ NotifyOn file evs := by
  simp only [compareEnts] at h
  cases h1 : notifyDups file .warning (Hist.findDuplicates (j.ref.map (·.key))) l with
  | error e => rw [h1] at h; cases h
  | ok l1 =>
    rw [h1] at h
    simp only at h
    cases h2 : notifyDups file .error (Hist.findDuplicates (j.l10n.map (·.key))) l1 with
    | error e => rw [h2] at h; cases h
    | ok l2 =>
      rw [h2] at h
      simp only at h
      cases h3 : Pipe.foldE (stepEnt file j) (AR.addRemove (j.ref.map (·.key)) (j.l10n.map (·.key))) (l2, {}) with
      | error e => rw [h3] at h; cases h
      | ok st =>
        rw [h3] at h
        simp only [Except.ok.injEq] at h
        subst h
        obtain ⟨e1, t1, n1⟩ := notifyDups_tr file _ _ l l1 h1
        obtain ⟨e2, t2, n2⟩ := notifyDups_tr file _ _ l1 l2 h2
        obtain ⟨e3, t3, n3⟩ := foldE_tr file j _ _ st h3
        refine ⟨e1 ++ e2 ++ e3, st.2, ?_, (n1.append n2).append n3⟩
        exact ((t1.trans t2).trans t3).trans (push_tr _ _ _)

/-! ### the comparison on texts (Compare/Pipeline.lean): the same shape -/

theorem pipe_notify_eq (env : Pipe.Env) (l : ObsList) (c : Cat) (d : Data) : Pipe.notify env l c d = tell l c env.file d := rfl

theorem pipe_checkLoop_tr (env : Pipe.Env) (refent l10nent : Pipe.PEnt) : ∀ (cs : List Pipe.CheckRes) (st st' : ObsList × List Pipe.PEnt),
    Pipe.checkLoop env refent l10nent cs st = .ok st' → ∃ evs, Tr st.1 st'.1 evs ∧ NotifyOn env.file evs
  | [], st, st', h => by
    simp only [Pipe.checkLoop, Except.ok.injEq] at h
    subst h
    exact ⟨[], Tr.refl _, NotifyOn.nil _⟩
  | c :: cs, (obs, skips), st', h => by
    simp only [Pipe.checkLoop] at h
    cases hp : Pipe.resolvePos env.l10nText env.cls l10nent c.pos with
    | none => rw [hp] at h; cases h
    | some lc =>
      obtain ⟨line, col⟩ := lc
      rw [hp] at h
      simp only [pipe_notify_eq] at h
      cases ht : tell obs (Pipe.sevCat c.sev) env.file (Data.str (Pipe.checkMsg c.msg line col refent.key)) with
      | error e => rw [ht] at h; cases h
      | ok r =>
        obtain ⟨l1, rv⟩ := r
        rw [ht] at h
        simp only at h
        obtain ⟨evs, h1, h2⟩ := pipe_checkLoop_tr env refent l10nent cs _ st' h
        exact ⟨_ :: evs, (tell_tr ht).1.trans h1, (NotifyOn.single env.file _ _).append h2⟩

theorem pipe_notifyDups_tr (env : Pipe.Env) (cat : Cat) : ∀ (ds : List (Cmp.Key × Nat)) (l l' : ObsList),
    Pipe.notifyDups env cat ds l = .ok l' → ∃ evs, Tr l l' evs ∧ NotifyOn env.file evs
  | [], l, l', h => by
    simp only [Pipe.notifyDups, Except.ok.injEq] at h
    subst h
    exact ⟨[], Tr.refl _, NotifyOn.nil _⟩
  | (k, n) :: rest, l, l', h => by
    simp only [Pipe.notifyDups, pipe_notify_eq] at h
    cases ht : tell l cat env.file (Data.str (Pipe.dupMsg k n)) with
    | error e => rw [ht] at h; cases h
    | ok r =>
      obtain ⟨l1, rv⟩ := r
      rw [ht] at h
      simp only at h
      obtain ⟨evs, h1, h2⟩ := pipe_notifyDups_tr env cat rest l1 l' h
      exact ⟨_ :: evs, (tell_tr ht).1.trans h1, (NotifyOn.single env.file _ _).append h2⟩

theorem pipe_step_tr (env : Pipe.Env) (ref l10n : List Pipe.PEnt) (st st' : Pipe.LoopSt) (p : AR.Label × Cmp.Key)
    (h : Pipe.step env ref l10n st p = .ok st') : ∃ evs, Tr st.obs st'.obs evs ∧ NotifyOn env.file evs := by
  obtain ⟨a, k⟩ := p
  cases a with
  | delete =>
    simp only [Pipe.step, pipe_notify_eq] at h
    cases hr : Pipe.lookup ref k with
    | error e => rw [hr] at h; cases h
    | ok refent =>
      rw [hr] at h
      simp only at h
      split at h
      · cases ht : tell st.obs Cat.warning env.file (Data.str Gen.Tables.cmpRefJunkMsg) with
        | error e => rw [ht] at h; cases h
        | ok r =>
          obtain ⟨l1, rv⟩ := r
          rw [ht] at h
          simp only [Except.ok.injEq] at h
          subst h
          exact ⟨_, (tell_tr ht).1, NotifyOn.single env.file _ _⟩
      · cases ht : tell st.obs Cat.missingEntity env.file (Pipe.keyData k) with
        | error e => rw [ht] at h; cases h
        | ok r =>
          obtain ⟨l1, rv⟩ := r
          rw [ht] at h
          have hl : st'.obs = l1 := by
            cases rv <;> simp only [Except.ok.injEq] at h <;> subst h <;> rfl
          rw [hl]
          exact ⟨_, (tell_tr ht).1, NotifyOn.single env.file _ _⟩
  | add =>
    simp only [Pipe.step, pipe_notify_eq] at h
    cases hr : Pipe.lookup l10n k with
    | error e => rw [hr] at h; cases h
    | ok l10nent =>
      rw [hr] at h
      simp only at h
      split at h
      · cases hm : Pipe.junkMessage env.l10nText env.cls l10nent with
        | error e => rw [hm] at h; cases h
        | ok msg =>
          rw [hm] at h
          simp only at h
          cases ht : tell st.obs Cat.error env.file (Data.str msg) with
          | error e => rw [ht] at h; cases h
          | ok r =>
            obtain ⟨l1, rv⟩ := r
            rw [ht] at h
            simp only [Except.ok.injEq] at h
            subst h
            exact ⟨_, (tell_tr ht).1, NotifyOn.single env.file _ _⟩
      · cases ht : tell st.obs Cat.obsoleteEntity env.file (Pipe.keyData k) with
        | error e => rw [ht] at h; cases h
        | ok r =>
          obtain ⟨l1, rv⟩ := r
          rw [ht] at h
          have hl : st'.obs = l1 := by
            simp only at h
            split at h <;> simp only [Except.ok.injEq] at h <;> subst h <;> rfl
          rw [hl]
          exact ⟨_, (tell_tr ht).1, NotifyOn.single env.file _ _⟩
  | equal =>
    simp only [Pipe.step] at h
    cases hr : Pipe.lookup ref k with
    | error e => rw [hr] at h; cases h
    | ok refent =>
      cases hl : Pipe.lookup l10n k with
      | error e => rw [hr, hl] at h; cases h
      | ok l10nent =>
        rw [hr, hl] at h
        simp only at h
        split at h
        · cases h
        · cases hck : Pipe.runChecker env.ck refent l10nent with
          | error e => rw [hck] at h; cases h
          | ok results =>
            rw [hck] at h
            simp only at h
            cases hc : Pipe.checkLoop env refent l10nent results (st.obs, st.skips) with
            | error e => rw [hc] at h; cases h
            | ok r =>
              rw [hc] at h
              simp only [Except.ok.injEq] at h
              subst h
              exact pipe_checkLoop_tr env refent l10nent results _ r hc

theorem pipe_foldE_tr (env : Pipe.Env) (ref l10n : List Pipe.PEnt) : ∀ (ar : List (AR.Label × Cmp.Key)) (st st' : Pipe.LoopSt),
    Pipe.foldE (Pipe.step env ref l10n) ar st = .ok st' → ∃ evs, Tr st.obs st'.obs evs ∧ NotifyOn env.file evs
  | [], st, st', h => by
    simp only [Pipe.foldE, Except.ok.injEq] at h
    subst h
    exact ⟨[], Tr.refl _, NotifyOn.nil _⟩
  | p :: rest, st, st', h => by
    simp only [Pipe.foldE] at h
    cases hs : Pipe.step env ref l10n st p with
    | error e => rw [hs] at h; cases h
    | ok st1 =>
      rw [hs] at h
      simp only at h
      obtain ⟨e1, t1, n1⟩ := pipe_step_tr env ref l10n st st1 p hs
      obtain ⟨e2, t2, n2⟩ := pipe_foldE_tr env ref l10n rest st1 st' h
      exact ⟨e1 ++ e2, t1.trans t2, n1.append n2⟩

theorem pipe_compareParsed_tr (env : Pipe.Env) (ref l10n : List Pipe.PEnt) (l l' : ObsList) (o : Merge.Outcome)
    (h : Pipe.compareParsed env ref l10n l = .ok (l', o)) :
    ∃ evs s, Tr l l' (evs ++ [.stats env.file (Pipe.statsList s)]) ∧ NotifyOn env.file evs := by
  simp only [Pipe.compareParsed] at h
  cases h1 : Pipe.notifyDups env .warning (Hist.findDuplicates (ref.map (·.key))) l with
  | error e => rw [h1] at h; cases h
  | ok l1 =>
    rw [h1] at h
    simp only at h
    cases h2 : Pipe.notifyDups env .error (Hist.findDuplicates (l10n.map (·.key))) l1 with
    | error e => rw [h2] at h; cases h
    | ok l2 =>
      rw [h2] at h
      simp only at h
      cases h3 : Pipe.foldE (Pipe.step env ref l10n) (AR.addRemove (ref.map (·.key)) (l10n.map (·.key))) { obs := l2 } with
      | error e => rw [h3] at h; cases h
      | ok st =>
        rw [h3] at h
        simp only at h
        cases h4 : Pipe.doMerge env ref st.missings st.skips with
        | error e => rw [h4] at h; cases h
        | ok outcome =>
          rw [h4] at h
          simp only [Except.ok.injEq, Prod.mk.injEq] at h
          obtain ⟨rfl, _⟩ := h
          obtain ⟨e1, t1, n1⟩ := pipe_notifyDups_tr env _ _ l l1 h1
          obtain ⟨e2, t2, n2⟩ := pipe_notifyDups_tr env _ _ l1 l2 h2
          obtain ⟨e3, t3, n3⟩ := pipe_foldE_tr env ref l10n _ _ st h3
          refine ⟨e1 ++ e2 ++ e3, st.stats, ?_, (n1.append n2).append n3⟩
          exact ((t1.trans t2).trans t3).trans (push_tr _ _ _)

/-! ### jobs -/

/-- the files a job reports about -/
def jobFiles : Job → List File
  | .compare ref l10n _ _ => [ref, l10n]
  | .add orig missing _ _ => [orig, missing]
  | .remove _ l10n _ => [l10n]

/-- all events are about one of these files -/
def On (fs : List File) (evs : List Ev) : Prop := ∀ ev ∈ evs, ev.file ∈ fs

theorem NotifyOn.on {file : File} {evs : List Ev} {fs : List File} (h : NotifyOn file evs) (hf : file ∈ fs) : On fs evs := by
  intro ev hev
  obtain ⟨c, d, rfl⟩ := h ev hev
  exact hf

theorem On.append {fs : List File} {a b : List Ev} (ha : On fs a) (hb : On fs b) : On fs (a ++ b) := by
  intro ev h
  rcases List.mem_append.1 h with h | h
  · exact ha ev h
  · exact hb ev h

theorem On.single {fs : List File} {ev : Ev} (h : ev.file ∈ fs) : On fs [ev] := by
  intro e he
  simp only [List.mem_singleton] at he
  subst he; exact h

theorem On.nil (fs : List File) : On fs [] := by intro ev h; cases h

theorem runCompare_tr (ext : Pipe.Ext) (l l' : ObsList) (ref l10n : File) (m : Bool) (body : CmpBody) (o : Merge.Outcome)
    (h : runCompare ext l ref l10n m body = .ok (l', o)) : ∃ evs, Tr l l' evs ∧ On [ref, l10n] evs := by
  cases body with
  | noParser =>
    simp only [runCompare, Except.ok.injEq, Prod.mk.injEq] at h
    obtain ⟨rfl, _⟩ := h
    exact ⟨[], Tr.refl _, On.nil _⟩
  | refReadError msg =>
    simp only [runCompare] at h
    cases ht : tell l Cat.error ref (Data.str msg) with
    | error e => rw [ht] at h; cases h
    | ok r =>
      obtain ⟨l1, rv⟩ := r
      rw [ht] at h
      simp only [Except.ok.injEq, Prod.mk.injEq] at h
      obtain ⟨rfl, _⟩ := h
      exact ⟨_, (tell_tr ht).1, On.single (by simp [Ev.file])⟩
  | l10nReadError msg =>
    simp only [runCompare] at h
    cases ht : tell l Cat.error l10n (Data.str msg) with
    | error e => rw [ht] at h; cases h
    | ok r =>
      obtain ⟨l1, rv⟩ := r
      rw [ht] at h
      simp only [Except.ok.injEq, Prod.mk.injEq] at h
      obtain ⟨rfl, _⟩ := h
      exact ⟨_, (tell_tr ht).1, On.single (by simp [Ev.file])⟩
  | ents j =>
    simp only [runCompare] at h
    split at h
    · cases h
    · cases hc : compareEnts l10n j l with
      | error e => rw [hc] at h; cases h
      | ok l1 =>
        rw [hc] at h
        simp only [Except.ok.injEq, Prod.mk.injEq] at h
        obtain ⟨rfl, _⟩ := h
        obtain ⟨evs, s, t, n⟩ := compareEnts_tr l10n j l l1 hc
        exact ⟨_, t, (n.on (by simp)).append (On.single (by simp [Ev.file]))⟩
  | text fmt refText l10nText =>
    simp only [runCompare] at h
    cases hk : Pipe.plainFmt fmt with
    | false => rw [hk] at h; cases h
    | true =>
      rw [hk] at h
      simp only at h
      cases hp1 : Pipe.parseFile ext fmt refText 0 with
      | error e => rw [hp1] at h; cases h
      | ok r1 =>
        obtain ⟨r, n1⟩ := r1
        rw [hp1] at h
        simp only at h
        cases hp2 : Pipe.parseFile ext fmt l10nText n1 with
        | error e => rw [hp2] at h; cases h
        | ok r2 =>
          obtain ⟨lo, n2⟩ := r2
          rw [hp2] at h
          simp only at h
          obtain ⟨evs, s, t, n⟩ := pipe_compareParsed_tr _ r lo l l' o h
          exact ⟨_, t, (n.on (by simp [Pipe.envOf])).append (On.single (by simp [Ev.file, Pipe.envOf]))⟩

theorem pushMissing_tr (l : ObsList) (f : File) (n w : Nat) :
    Tr l (pushMissing l f n w) [.stats f [(.missing, n)], .stats f [(.missing_w, w)]] :=
  (push_tr l f _).trans (push_tr _ f _)

theorem runAdd_tr (ext : Pipe.Ext) (l l' : ObsList) (orig missing : File) (m : Bool) (body : AddBody) (o : Merge.Outcome)
    (h : runAdd ext l orig missing m body = .ok (l', o)) : ∃ evs, Tr l l' evs ∧ On [orig, missing] evs := by
  simp only [runAdd] at h
  cases ht : tell l Cat.missingFile missing Data.none with
  | error e => rw [ht] at h; cases h
  | ok r =>
    obtain ⟨l1, rv⟩ := r
    rw [ht] at h
    simp only at h
    have t1 := (tell_tr ht).1
    have o1 : On [orig, missing] [Ev.notify Cat.missingFile missing Data.none] := On.single (by simp [Ev.file])
    split at h
    · simp only [Except.ok.injEq, Prod.mk.injEq] at h
      obtain ⟨rfl, _⟩ := h
      exact ⟨_, t1, o1⟩
    · cases body with
      | noParser =>
        simp only [Except.ok.injEq, Prod.mk.injEq] at h
        obtain ⟨rfl, _⟩ := h
        exact ⟨_, t1, o1⟩
      | readError caps msg =>
        simp only at h
        cases ht2 : tell l1 Cat.error orig (Data.str msg) with
        | error e => rw [ht2] at h; cases h
        | ok r2 =>
          obtain ⟨l2, rv2⟩ := r2
          rw [ht2] at h
          simp only [Except.ok.injEq, Prod.mk.injEq] at h
          obtain ⟨rfl, _⟩ := h
          exact ⟨_, t1.trans (tell_tr ht2).1, o1.append (On.single (by simp [Ev.file]))⟩
      | ents caps ref =>
        simp only [Except.ok.injEq, Prod.mk.injEq] at h
        obtain ⟨rfl, _⟩ := h
        refine ⟨_, t1.trans (pushMissing_tr _ _ _ _), o1.append ?_⟩
        intro ev hev
        simp only [List.mem_cons, List.not_mem_nil, or_false] at hev
        rcases hev with rfl | rfl <;> simp [Ev.file]
      | text fmt refText =>
        simp only at h
        cases hp : Pipe.parseFile ext fmt refText 0 with
        | error e => rw [hp] at h; cases h
        | ok r2 =>
          obtain ⟨ents, n2⟩ := r2
          rw [hp] at h
          simp only [Except.ok.injEq, Prod.mk.injEq] at h
          obtain ⟨rfl, _⟩ := h
          refine ⟨_, t1.trans (pushMissing_tr _ _ _ _), o1.append ?_⟩
          intro ev hev
          simp only [List.mem_cons, List.not_mem_nil, or_false] at hev
          rcases hev with rfl | rfl <;> simp [Ev.file]

theorem runRemove_tr (l l' : ObsList) (l10n : File) (m : Bool) (o : Merge.Outcome)
    (h : runRemove l l10n m = .ok (l', o)) : Tr l l' [.notify .obsoleteFile l10n .none] := by
  simp only [runRemove] at h
  cases ht : tell l Cat.obsoleteFile l10n Data.none with
  | error e => rw [ht] at h; cases h
  | ok r =>
    obtain ⟨l1, rv⟩ := r
    rw [ht] at h
    simp only [Except.ok.injEq, Prod.mk.injEq] at h
    obtain ⟨rfl, _⟩ := h
    exact (tell_tr ht).1

/-- a job that returns is a history of events about the job's own files -/
theorem runJob_tr (ext : Pipe.Ext) (l l' : ObsList) (j : Job) (o : Merge.Outcome) (h : runJob ext l j = .ok (l', o)) :
    ∃ evs, Tr l l' evs ∧ On (jobFiles j) evs := by
  cases j with
  | compare ref l10n m body => exact runCompare_tr ext l l' ref l10n m body o h
  | add orig missing m body => exact runAdd_tr ext l l' orig missing m body o h
  | remove ref l10n m => exact ⟨_, runRemove_tr l l' l10n m o h, On.single (by simp [jobFiles, Ev.file])⟩

/-! ### what a history adds to the counters of a locale -/

theorem contrib_other_locale (ign : Ev → Bool) (L : Option Text) (key : StatKey) (ev : Ev) (h : ev.file.locale ≠ L) :
    contrib ign L key ev = 0 := by
  unfold contrib
  split
  · rfl
  · cases ev with
    | notify c f d => simp only [Ev.file] at h; simp [h]
    | stats f st => simp only [Ev.file] at h; simp [h]

/-- a history none of whose files has locale `L` adds nothing to the counters of `L` -/
theorem countSpec_other_locale (ign : Ev → Bool) (L : Option Text) (key : StatKey) (evs : List Ev)
    (h : ∀ ev ∈ evs, ev.file.locale ≠ L) : countSpec ign L key evs = 0 := by
  unfold countSpec
  induction evs with
  | nil => rfl
  | cons ev rest ih =>
    simp only [List.map_cons, List.sum_cons]
    rw [contrib_other_locale ign L key ev (h ev (by simp)), ih (fun e he => h e (by simp [he]))]

theorem countSpec_append (ign : Ev → Bool) (L : Option Text) (key : StatKey) (a b : List Ev) :
    countSpec ign L key (a ++ b) = countSpec ign L key a + countSpec ign L key b := by
  simp [countSpec]

/-- the list's own counters after a history: every event counts for the locale of its file -/
theorem tr_own {l l' : ObsList} {evs : List Ev} (ht : Tr l l' evs) (hown : l.own.filter = none) :
    (∀ L key, getCount l'.own.summary L key = getCount l.own.summary L key + countSpec (ignList l.filters) L key evs) ∧
      l'.own.filter = none ∧ l'.filters = l.filters := by
  have hc := list_run_core ht hown
  obtain ⟨r1, _, r3⟩ := list_run_spec evs l l' ht hown
  refine ⟨?_, ?_, r3⟩
  · intro L key
    have := (coreRun_spec (ignList l.filters) evs l.own.core).1 L key
    have h1 : l'.own.summary = (coreRun (ignList l.filters) l.own.core evs).1 := by
      have := congrArg Prod.fst hc; simpa [Obs.core] using this
    rw [h1, this]; rfl
  · have := (Obs.run_core _ _ _ r1).2.1
    rw [this, hown]

/-- the counters of every project observer after a history -/
theorem tr_observers {l l' : ObsList} {evs : List Ev} (ht : Tr l l' evs) (hown : l.own.filter = none) :
    All₂ (fun o o' => (∀ L key, getCount o'.summary L key = getCount o.summary L key + countSpec (ignObs o.filter) L key evs) ∧
      o'.filter = o.filter) l.observers l'.observers := by
  obtain ⟨_, r2, _⟩ := list_run_spec evs l l' ht hown
  refine All₂.imp ?_ r2
  intro o o' hr
  obtain ⟨c1, c2, _⟩ := Obs.run_core evs o o' hr
  refine ⟨?_, c2⟩
  intro L key
  have := (coreRun_spec (ignObs o.filter) evs o.core).1 L key
  have h1 : o'.summary = (coreRun (ignObs o.filter) o.core evs).1 := by
    have := congrArg Prod.fst c1; simpa [Obs.core] using this
  rw [h1, this]; rfl

/-! ### sessions -/

/-- the job sequence as one history: one block of events per job, each about that job's own files -/
theorem run_tr (ext : Pipe.Ext) : ∀ (jobs : List Job) (l l' : ObsList) (os : List Merge.Outcome),
    Sess.run ext l jobs = .ok (l', os) →
    ∃ trs : List (List Ev), All₂ (fun j evs => On (jobFiles j) evs) jobs trs ∧ Tr l l' trs.flatten
  | [], l, l', os, h => by
    simp only [Sess.run, Except.ok.injEq, Prod.mk.injEq] at h
    obtain ⟨rfl, _⟩ := h
    exact ⟨[], All₂.nil, Tr.refl _⟩
  | j :: rest, l, l', os, h => by
    simp only [Sess.run] at h
    cases hj : runJob ext l j with
    | error e => rw [hj] at h; cases h
    | ok r =>
      obtain ⟨l1, o⟩ := r
      rw [hj] at h
      simp only at h
      cases hr : Sess.run ext l1 rest with
      | error e => rw [hr] at h; cases h
      | ok r2 =>
        obtain ⟨l2, os2⟩ := r2
        rw [hr] at h
        simp only [Except.ok.injEq, Prod.mk.injEq] at h
        obtain ⟨rfl, _⟩ := h
        obtain ⟨e1, t1, o1⟩ := runJob_tr ext l l1 j o hj
        obtain ⟨trs, f2, t2⟩ := run_tr ext rest l1 l2 os2 hr
        exact ⟨e1 :: trs, All₂.cons o1 f2, by simpa using t1.trans t2⟩

/-- does the job report about a file of locale `L`? -/
def touches (L : Option Text) (j : Job) : Bool := (jobFiles j).any (fun f => f.locale == L)

theorem on_not_touching {L : Option Text} {j : Job} {evs : List Ev} (ho : On (jobFiles j) evs) (hn : touches L j = false) :
    ∀ ev ∈ evs, ev.file.locale ≠ L := by
  intro ev hev hl
  have hm := ho ev hev
  have : touches L j = true := by
    simp only [touches, List.any_eq_true, beq_iff_eq]
    exact ⟨ev.file, hm, hl⟩
  rw [hn] at this; cases this

theorem sum_flatten (ign : Ev → Bool) (L : Option Text) (key : StatKey) (trs : List (List Ev)) :
    countSpec ign L key trs.flatten = (trs.map (countSpec ign L key)).sum := by
  induction trs with
  | nil => rfl
  | cons a rest ih => simp only [List.flatten_cons, countSpec_append, ih, List.map_cons, List.sum_cons]

/-- the blocks of the jobs that do not touch `L` add nothing -/
theorem sum_touching (ign : Ev → Bool) (L : Option Text) (key : StatKey) : ∀ (jobs : List Job) (trs : List (List Ev)),
    All₂ (fun j evs => On (jobFiles j) evs) jobs trs →
    (trs.map (countSpec ign L key)).sum
      = (((jobs.zip trs).filter (fun p => touches L p.1)).map (fun p => countSpec ign L key p.2)).sum
  | [], [], _ => rfl
  | [], _ :: _, h => by cases h
  | _ :: _, [], h => by cases h
  | j :: jobs, evs :: trs, h => by
    cases h with
    | cons h1 h2 =>
      have ih := sum_touching ign L key jobs trs h2
      simp only [List.map_cons, List.sum_cons, List.zip_cons_cons, List.filter_cons]
      cases ht : touches L j
      · rw [countSpec_other_locale ign L key evs (on_not_touching h1 ht), ih]; simp
      · simp [ih]

end C03S

/-
C06, exact characterisation of the lexer of `getPrintfSpecs` (round 4).

`Lex p v ts` is an INDEPENDENT inductive grammar of printf text: the value `v` (standing at offset `p`)
is a sequence of
  * characters other than `%`                                   (no token),
  * tokens `Tokn`: `%%`, or `%[n$][width][.prec]c` with `n = [1-9][0-9]*`, width `\*|[0-9]+`,
    precision `\.(\*|[0-9]+)?`, `c` one of `duxXosScpfg`,
  * a lone `%` — only where NO token starts (`¬ HasTok`).
No regular expression and no part of the model occurs in the grammar.

Main results (all texts, no hypothesis):
  `atoks_of_lex`   Lex 0 v ts → atoks v = some ts          (the lexer finds every token of the grammar: completeness)
  `lex_total`      every text has a tokenisation
  `lex_of_atoks`   atoks v = some ts → Lex 0 v ts          (the lexer finds only tokens of the grammar: soundness)
  `lex_unique`     the tokenisation is unique

Proof idea for the new case (a `%` where no token starts): the matcher returns SOME state (the group is
optional); if the group alternative had succeeded, the relational semantics `Rx.Sem` (sound for the matcher,
Proofs/C06Rx) would give a derivation for `%`- or argument-shaped text at that offset, i.e. a token.
-/
import CLModel.Proofs.C06RLex
import CLModel.Proofs.C06RxPrintf
namespace C06G
open Rx PropCk
open C06R (At Tail IsDig IsSpec WShape PShape valOf reDig reC19 reNumG reNum reWidth rePrec reSpec reArg specItems
  at_cons at_append tail_append tail_head)

abbrev Text := List Nat

/-! ### the grammar -/

/-- the optional argument number `[1-9][0-9]*\$`; its value is the Horner value of the digits -/
inductive NumPart : Text → Option Nat → Prop
  | none : NumPart [] none
  | some (d : Nat) (ds : Text) : 49 ≤ d ∧ d ≤ 57 → (∀ x ∈ ds, IsDig x) →
      NumPart (d :: ds ++ [36]) (some (valOf (d :: ds) 0))

/-- the text of one two-or-more-character token and what it stands for -/
inductive Tokn : Text → ATok → Prop
  | pct : Tokn [37, 37] .pct
  | arg {N W P : Text} {c : Nat} {num : Option Nat} : NumPart N num → WShape W → PShape P → IsSpec c →
      Tokn (37 :: (N ++ (W ++ (P ++ [c])))) (.arg num [c])

/-- some token starts the text -/
def HasTok (v : Text) : Prop := ∃ w a r, Tokn w a ∧ v = w ++ r

/-- `Lex p v ts`: the text `v`, standing at offset `p`, has the tokens `ts` (with their offsets) -/
inductive Lex : Nat → Text → List (Nat × ATok) → Prop
  | nil (p : Nat) : Lex p [] []
  | char {p c : Nat} {v : Text} {ts : List (Nat × ATok)} : c ≠ 37 → Lex (p + 1) v ts → Lex p (c :: v) ts
  | tok {p : Nat} {w : Text} {a : ATok} {v : Text} {ts : List (Nat × ATok)} :
      Tokn w a → Lex (p + w.length) v ts → Lex p (w ++ v) ((p, a) :: ts)
  | lone {p : Nat} {v : Text} {ts : List (Nat × ATok)} :
      ¬ HasTok (37 :: v) → Lex (p + 1) v ts → Lex p (37 :: v) ((p, .lone) :: ts)

theorem tokn_len {w : Text} {a : ATok} (h : Tokn w a) : w.length ≥ 2 := by
  cases h with
  | pct => simp
  | arg _ _ _ _ => simp; omega

theorem tokn_head {w : Text} {a : ATok} (h : Tokn w a) : ∃ w', w = 37 :: w' := by
  cases h with
  | pct => exact ⟨_, rfl⟩
  | arg _ _ _ _ => exact ⟨_, rfl⟩

theorem lex_len {p : Nat} {v : Text} {ts : List (Nat × ATok)} (h : Lex p v ts) : ts.length ≤ v.length := by
  induction h with
  | nil => simp
  | char _ _ ih => simp; omega
  | tok ht _ ih => have := tokn_len ht; simp; omega
  | lone _ _ ih => simp; omega

/-! ### text at an offset -/

theorem tail_cons {s : Array Nat} {p c : Nat} {v : Text} (h : Tail s p (c :: v)) :
    s[p]? = some c ∧ Tail s (p + 1) v := by
  obtain ⟨h1, h2⟩ := h
  obtain ⟨h3, h4⟩ := at_cons.mp h1
  refine ⟨h3, h4, ?_⟩
  simp only [List.length_cons] at h2
  omega

/-- a text standing at the start of a tail is a prefix of it -/
theorem at_tail_prefix {s : Array Nat} : ∀ (w : Text) (p : Nat) (v : Text), Tail s p v → At s p w → ∃ r, v = w ++ r := by
  intro w
  induction w with
  | nil => intro p v _ _; exact ⟨v, rfl⟩
  | cons c w ih =>
    intro p v htl hat
    obtain ⟨h0, hat'⟩ := at_cons.mp hat
    cases v with
    | nil =>
      have := tail_head htl
      rw [h0] at this
      cases this
    | cons c' v' =>
      obtain ⟨h0', htl'⟩ := tail_cons htl
      rw [h0] at h0'
      cases h0'
      obtain ⟨r, hr⟩ := ih (p + 1) v' htl' hat'
      exact ⟨r, by rw [hr]; rfl⟩

/-- a stretch of positions whose characters satisfy `Q` is a text of such characters -/
theorem run_to_text {s : Array Nat} (Q : Nat → Prop) : ∀ (n a : Nat),
    (∀ p, a ≤ p → p < a + n → ∃ c, s[p]? = some c ∧ Q c) →
    ∃ t : Text, At s a t ∧ t.length = n ∧ ∀ c ∈ t, Q c := by
  intro n
  induction n with
  | zero => intro a _; exact ⟨[], At.nil _ _, rfl, by simp⟩
  | succ n ih =>
    intro a h
    obtain ⟨c, hc, hq⟩ := h a (by omega) (by omega)
    obtain ⟨t, hat, hlen, hall⟩ := ih (a + 1) (fun p h1 h2 => h p (by omega) (by omega))
    refine ⟨c :: t, at_cons.mpr ⟨hc, hat⟩, by simp [hlen], ?_⟩
    intro x hx
    rcases List.mem_cons.mp hx with rfl | hx
    · exact hq
    · exact hall x hx
where At.nil := C06R.At.nil

/-! ### reading the shapes off a derivation of the relational semantics -/

theorem inC_dig' (c : Nat) : inC false [.range 48 57] c = true ↔ IsDig c := C06R.inC_dig c

/-- `[0-9]{mn,}` -/
theorem sem_digits {s : Array Nat} {mn : Nat} {st st' : St} (h : Sem s (.rep mn none true reDig) st st') :
    ∃ ds : Text, At s st.pos ds ∧ st'.pos = st.pos + ds.length ∧ mn ≤ ds.length ∧ ∀ d ∈ ds, IsDig d := by
  obtain ⟨_, h2, h3⟩ := sem_rep_cls h mn none true rfl
  obtain ⟨t, hat, hlen, hall⟩ := run_to_text (s := s) (fun c => inC false [.range 48 57] c = true)
    (st'.pos - st.pos) st.pos (fun p h1 h2' => h3 p h1 (by omega))
  exact ⟨t, hat, by omega, by omega, fun d hd => (inC_dig' d).mp (hall d hd)⟩

theorem sem_width {s : Array Nat} {st st' : St} (h : Sem s reWidth st st') :
    ∃ W : Text, WShape W ∧ At s st.pos W ∧ st'.pos = st.pos + W.length := by
  unfold reWidth at h
  rcases sem_alt_inv h with h | h
  · obtain ⟨st2, h2, rfl⟩ := sem_group_inv h
    rcases sem_alt_inv h2 with h3 | h3
    · obtain ⟨hc, rfl⟩ := sem_lit_inv h3
      exact ⟨[42], Or.inr (Or.inl rfl), at_cons.mpr ⟨hc, C06R.At.nil _ _⟩, rfl⟩
    · obtain ⟨ds, hat, hpos, hmn, hd⟩ := sem_digits h3
      refine ⟨ds, Or.inr (Or.inr ⟨?_, hd⟩), hat, hpos⟩
      intro h0; rw [h0] at hmn; simp at hmn
  · have := sem_eps_inv h
    subst this
    exact ⟨[], Or.inl rfl, C06R.At.nil _ _, rfl⟩

theorem sem_prec {s : Array Nat} {st st' : St} (h : Sem s rePrec st st') :
    ∃ P : Text, PShape P ∧ At s st.pos P ∧ st'.pos = st.pos + P.length := by
  unfold rePrec at h
  rcases sem_alt_inv h with h | h
  · obtain ⟨st2, h2, rfl⟩ := sem_group_inv h
    obtain ⟨st3, h3, h4⟩ := sem_seq_inv h2
    obtain ⟨hdot, rfl⟩ := sem_lit_inv h3
    rcases sem_alt_inv h4 with h5 | h5
    · rcases sem_alt_inv h5 with h6 | h6
      · obtain ⟨hc, rfl⟩ := sem_lit_inv h6
        exact ⟨[46, 42], Or.inr (Or.inr (Or.inl rfl)),
          at_cons.mpr ⟨hdot, at_cons.mpr ⟨hc, C06R.At.nil _ _⟩⟩, rfl⟩
      · obtain ⟨ds, hat, hpos, hmn, hd⟩ := sem_digits h6
        refine ⟨46 :: ds, Or.inr (Or.inr (Or.inr ⟨ds, ?_, hd, rfl⟩)), at_cons.mpr ⟨hdot, hat⟩, ?_⟩
        · intro h0; rw [h0] at hmn; simp at hmn
        · simp only [List.length_cons] at hpos ⊢; omega
    · have := sem_eps_inv h5
      subst this
      exact ⟨[46], Or.inr (Or.inl rfl), at_cons.mpr ⟨hdot, C06R.At.nil _ _⟩, rfl⟩
  · have := sem_eps_inv h
    subst this
    exact ⟨[], Or.inl rfl, C06R.At.nil _ _, rfl⟩

theorem sem_num {s : Array Nat} {st st' : St} (h : Sem s reNum st st') :
    ∃ (N : Text) (num : Option Nat), NumPart N num ∧ At s st.pos N ∧ st'.pos = st.pos + N.length := by
  unfold reNum at h
  rcases sem_alt_inv h with h | h
  · unfold reNumG at h
    obtain ⟨st1, hg, hl⟩ := sem_seq_inv h
    obtain ⟨hdollar, rfl⟩ := sem_lit_inv hl
    obtain ⟨st2, hbody, rfl⟩ := sem_group_inv hg
    obtain ⟨st3, hd1, hdr⟩ := sem_seq_inv hbody
    unfold reC19 at hd1
    obtain ⟨d, hd, hin, rfl⟩ := sem_cls_inv hd1
    obtain ⟨ds, hat, hpos, _, hds⟩ := sem_digits hdr
    simp only at hat hpos hdollar
    refine ⟨d :: ds ++ [36], _, NumPart.some d ds (inC_range.mp hin) hds, ?_, ?_⟩
    · rw [List.cons_append]
      refine at_cons.mpr ⟨hd, at_append.mpr ⟨hat, at_cons.mpr ⟨?_, C06R.At.nil _ _⟩⟩⟩
      rw [← hpos]; exact hdollar
    · simp only [List.length_append, List.length_cons, List.length_nil]; omega
  · have := sem_eps_inv h
    subst this
    exact ⟨[], none, NumPart.none, C06R.At.nil _ _, rfl⟩

theorem sem_spec {s : Array Nat} {st st' : St} (h : Sem s reSpec st st') :
    ∃ c, IsSpec c ∧ s[st.pos]? = some c ∧ st'.pos = st.pos + 1 := by
  unfold reSpec at h
  obtain ⟨st2, h2, rfl⟩ := sem_group_inv h
  obtain ⟨c, hc, hin, rfl⟩ := sem_cls_inv h2
  exact ⟨c, hin, hc, rfl⟩

/-- a derivation for the argument part of the regex at `q` means: an argument body stands at `q` -/
theorem sem_arg {s : Array Nat} {st st' : St} (h : Sem s reArg st st') :
    ∃ (N W P : Text) (c : Nat) (num : Option Nat), NumPart N num ∧ WShape W ∧ PShape P ∧ IsSpec c ∧
      At s st.pos (N ++ (W ++ (P ++ [c]))) := by
  unfold reArg at h
  obtain ⟨s1, hn, h1⟩ := sem_seq_inv h
  obtain ⟨s2, hw, h2⟩ := sem_seq_inv h1
  obtain ⟨s3, hp, hs⟩ := sem_seq_inv h2
  obtain ⟨N, num, hN, hatN, hposN⟩ := sem_num hn
  obtain ⟨W, hW, hatW, hposW⟩ := sem_width hw
  obtain ⟨P, hP, hatP, hposP⟩ := sem_prec hp
  obtain ⟨c, hc, hatc, _⟩ := sem_spec hs
  refine ⟨N, W, P, c, num, hN, hW, hP, hc, at_append.mpr ⟨hatN, at_append.mpr ⟨?_, at_append.mpr ⟨?_, ?_⟩⟩⟩⟩
  · rw [← hposN]; exact hatW
  · rw [← hposN, ← hposW]; exact hatP
  · rw [← hposN, ← hposW, ← hposP]; exact at_cons.mpr ⟨hatc, C06R.At.nil _ _⟩

/-! ### the regex at a `%` where no token starts -/

/-- **a `%` at which no token of the grammar starts is matched as a lone `%`** (exact: the weakest hypothesis) -/
theorem printf_lone_exact {s : Array Nat} {q : Nat} (h0 : s[q]? = some 37)
    (hno : ∀ w a, Tokn w a → ¬ At s q w) :
    matchAt s Gen.Pat.PropertiesChecker_printf q = some ⟨q + 1, []⟩ := by
  rw [C06R.printf_eq]
  unfold matchAt
  rw [C06R.m_seq, C06R.lit_ok h0, C06R.m_alt, C06R.m_eps]
  cases hX : m s (.group 1 (.alt (.lit 37) reArg)) ⟨q + 1, []⟩ some with
  | none => rfl
  | some r =>
    exfalso
    obtain ⟨st', hsem, _⟩ := m_sound s _ _ _ _ hX
    obtain ⟨st2, h2, _⟩ := sem_group_inv hsem
    rcases sem_alt_inv h2 with h3 | h3
    · obtain ⟨hc, _⟩ := sem_lit_inv h3
      exact hno _ _ Tokn.pct (at_cons.mpr ⟨h0, at_cons.mpr ⟨hc, C06R.At.nil _ _⟩⟩)
    · obtain ⟨N, W, P, c, num, hN, hW, hP, hc, hat⟩ := sem_arg h3
      exact hno _ _ (Tokn.arg hN hW hP hc) (at_cons.mpr ⟨h0, hat⟩)

/-! ### the regex at a token -/

theorem intOf_num {d : Nat} {ds : Text} (hd : 49 ≤ d ∧ d ≤ 57) (hds : ∀ x ∈ ds, IsDig x) :
    intOf (d :: ds) = some (valOf (d :: ds) 0) ∧ valOf (d :: ds) 0 ≥ 1 := by
  have h1 : intOf (d :: ds) = some (valOf (d :: ds) 0) :=
    C06R.intOf_val (by simp) (by
      intro c hc
      rcases List.mem_cons.mp hc with rfl | hc
      · unfold IsDig; omega
      · exact hds c hc)
  obtain ⟨n, hn, hn1⟩ := intOf_digits hd (cs := ds) (fun x hx => hds x hx)
  rw [h1] at hn
  cases hn
  exact ⟨h1, hn1⟩

/-- **the `printf` regex matches exactly the token of the grammar standing at the offset** -/
theorem tokn_match {s : Array Nat} {p : Nat} {w : Text} {a : ATok} (R : Text) (ht : Tokn w a)
    (h : Tail s p (w ++ R)) :
    ∃ st, matchAt s Gen.Pat.PropertiesChecker_printf p = some st ∧ st.pos = p + w.length ∧
      atokOf s (p, st) = some a := by
  obtain ⟨hat, _⟩ := tail_append h
  cases ht with
  | pct =>
    refine ⟨_, C06R.printf_pct hat, rfl, ?_⟩
    have h1 : s[p + 1]? = some 37 := (at_cons.mp (at_cons.mp hat).2).1
    have hsl : slice s (p + 1, p + 2) = [37] := slice_single h1
    simp [atokOf, groupText, St.group, Gen.Pat.PropertiesChecker_printf_g_good, capOf_cons, hsl]
  | @arg N W P c num hN hW hP hs =>
    obtain ⟨_, h37, _, _, _⟩ := C06R.spec_facts hs
    cases hN with
    | none =>
      have hat' : At s p (37 :: (W ++ (P ++ [c]))) := by simpa using hat
      refine ⟨_, C06R.printf_unordered hW hP hs hat', by simp; omega, ?_⟩
      have hbody : At s (p + 1) ((W ++ P) ++ [c]) := by
        simpa [List.append_assoc] using (at_cons.mp hat').2
      exact C06R.atokOf_arg hbody (by simp; omega) h37 none
        (by rw [C06R.capOf_prec _ _ _ _ (by omega), C06R.capOf_width _ _ _ _ (by omega)]; rfl)
    | some d ds hd hds =>
      obtain ⟨hint, hn1⟩ := intOf_num hd hds
      have hat' : At s p (37 :: ((d :: ds ++ [36]) ++ (W ++ (P ++ [c])))) := hat
      refine ⟨_, C06R.printf_ordered hd hds hW hP hs hat', by simp; omega, ?_⟩
      have hbody : At s (p + 1) (((d :: ds ++ [36]) ++ (W ++ P)) ++ [c]) := by
        simpa [List.append_assoc] using (at_cons.mp hat').2
      have hdn : At s (p + 1) (d :: ds) := by
        have := (at_append.mp (at_append.mp hbody).1).1
        rw [List.cons_append] at this
        exact (at_append.mp (by simpa using this)).1
      have hsl : slice s (p + 1, p + 1 + ds.length + 1) = d :: ds := by
        have := C06R.slice_of_at hdn
        rw [show p + 1 + (d :: ds).length = p + 1 + ds.length + 1 by simp; omega] at this
        exact this
      exact C06R.atokOf_arg hbody (by simp; omega) h37 (some (valOf (d :: ds) 0))
        ⟨p + 1, p + 1 + ds.length + 1,
          by rw [C06R.capOf_prec _ _ _ _ (by omega), C06R.capOf_width _ _ _ _ (by omega)]; simp [capOf_cons],
          by rw [hsl]; exact hint, hn1⟩

/-! ### the walk of `finditer` along a tokenisation -/

theorem lex_walk {p : Nat} {v : Text} {ts : List (Nat × ATok)} (hl : Lex p v ts) :
    ∀ (s : Array Nat) (fuel : Nat), Tail s p v → ts.length < fuel →
    mapOpt (fun m => (atokOf s m).map (fun t => (m.1, t)))
      (finditerAux s Gen.Pat.PropertiesChecker_printf fuel p false) = some ts := by
  induction hl with
  | nil p =>
    intro s fuel htl hf
    obtain ⟨f, rfl⟩ : ∃ f, fuel = f + 1 := ⟨fuel - 1, by omega⟩
    have hp : p = s.size := by have := htl.2; simpa using this
    subst hp
    rw [C06R.fi_end f (C06R.printf_nomatch (by simp))]
    rfl
  | @char p c v ts hc _ ih =>
    intro s fuel htl hf
    obtain ⟨f, rfl⟩ : ∃ f, fuel = f + 1 := ⟨fuel - 1, by omega⟩
    obtain ⟨h0, htl'⟩ := tail_cons htl
    have hlt : p < s.size := getElem?_some_lt h0
    rw [C06R.fi_miss f hlt (C06R.printf_nomatch (by rw [h0]; simpa using hc))]
    exact ih s (f + 1) htl' hf
  | @tok p w a v ts ht _ ih =>
    intro s fuel htl hf
    obtain ⟨f, rfl⟩ : ∃ f, fuel = f + 1 := ⟨fuel - 1, by omega⟩
    obtain ⟨st, hm, hpos, hatok⟩ := tokn_match v ht htl
    have hlen := tokn_len ht
    have hple : p ≤ s.size := by have := htl.2; omega
    rw [C06R.fi_hit f hple hm]
    have hb : (st.pos == p) = false := by simp; omega
    rw [hb, hpos]
    have ih' := ih s f (tail_append htl).2 (by simp only [List.length_cons] at hf; omega)
    simp only [mapOpt, hatok, Option.map_some, ih']
  | @lone p v ts hno _ ih =>
    intro s fuel htl hf
    obtain ⟨f, rfl⟩ : ∃ f, fuel = f + 1 := ⟨fuel - 1, by omega⟩
    obtain ⟨h0, htl'⟩ := tail_cons htl
    have hm := printf_lone_exact h0 (fun w a hw hat => by
      obtain ⟨r, hr⟩ := at_tail_prefix w p (37 :: v) htl hat
      exact hno ⟨w, a, r, hw, hr⟩)
    have hple : p ≤ s.size := by have := htl.2; omega
    rw [C06R.fi_hit f hple hm]
    have hb : ((⟨p + 1, []⟩ : St).pos == p) = false := by simp
    rw [hb]
    have ih' := ih s f htl' (by simp only [List.length_cons] at hf; omega)
    have hatok : atokOf s (p, ⟨p + 1, []⟩) = some ATok.lone := by
      simp [atokOf, groupText, St.group, Gen.Pat.PropertiesChecker_printf_g_good, capOf]
    simp only [mapOpt, hatok, Option.map_some, ih']

/-- **completeness of the lexer**: every tokenisation by the grammar is what `finditer(printf)` finds -/
theorem atoks_of_lex {v : Text} {ts : List (Nat × ATok)} (h : Lex 0 v ts) : atoks v = some ts := by
  unfold atoks finditer
  have := lex_len h
  exact lex_walk h v.toArray _ (C06R.tail_toArray v) (by simp; omega)

/-! ### totality and uniqueness of the grammar -/

theorem lex_total : ∀ (n : Nat) (v : Text), v.length ≤ n → ∀ p, ∃ ts, Lex p v ts := by
  intro n
  induction n with
  | zero =>
    intro v hv p
    have : v = [] := List.eq_nil_of_length_eq_zero (by omega)
    subst this
    exact ⟨[], Lex.nil p⟩
  | succ n ih =>
    intro v hv p
    cases v with
    | nil => exact ⟨[], Lex.nil p⟩
    | cons c v' =>
      by_cases hc : c = 37
      · subst hc
        by_cases ht : HasTok (37 :: v')
        · obtain ⟨w, a, r, hw, hr⟩ := ht
          have hlen := tokn_len hw
          have hrl : r.length ≤ n := by
            have := congrArg List.length hr
            simp only [List.length_cons, List.length_append] at this hv
            omega
          obtain ⟨ts, hts⟩ := ih r hrl (p + w.length)
          exact ⟨(p, a) :: ts, by rw [hr]; exact Lex.tok hw hts⟩
        · obtain ⟨ts, hts⟩ := ih v' (by simp only [List.length_cons] at hv; omega) (p + 1)
          exact ⟨(p, .lone) :: ts, Lex.lone ht hts⟩
      · obtain ⟨ts, hts⟩ := ih v' (by simp only [List.length_cons] at hv; omega) (p + 1)
        exact ⟨ts, Lex.char hc hts⟩

/-- **soundness of the lexer**: what `finditer(printf)` finds is a tokenisation by the grammar -/
theorem lex_of_atoks {v : Text} {ts : List (Nat × ATok)} (h : atoks v = some ts) : Lex 0 v ts := by
  obtain ⟨ts', hts'⟩ := lex_total v.length v (Nat.le_refl _) 0
  have := atoks_of_lex hts'
  rw [h] at this
  cases this
  exact hts'

/-- the tokenisation of a text is unique -/
theorem lex_unique {v : Text} {ts ts' : List (Nat × ATok)} (h : Lex 0 v ts) (h' : Lex 0 v ts') : ts = ts' := by
  have h1 := atoks_of_lex h
  have h2 := atoks_of_lex h'
  rw [h1] at h2
  cases h2
  rfl

/-- every token offset of a tokenisation points at a `%` of the text -/
theorem lex_pos {p : Nat} {v : Text} {ts : List (Nat × ATok)} (h : Lex p v ts) :
    ∀ x ∈ ts, p ≤ x.1 ∧ x.1 < p + v.length ∧ v[x.1 - p]? = some 37 := by
  induction h with
  | nil => intro x hx; simp at hx
  | @char p c v ts _ _ ih =>
    intro x hx
    obtain ⟨h1, h2, h3⟩ := ih x hx
    refine ⟨by omega, by simp only [List.length_cons]; omega, ?_⟩
    rw [show x.1 - p = (x.1 - (p + 1)) + 1 by omega, List.getElem?_cons_succ]
    exact h3
  | @tok p w a v ts ht _ ih =>
    intro x hx
    have hlen := tokn_len ht
    obtain ⟨w', rfl⟩ := tokn_head ht
    rcases List.mem_cons.mp hx with rfl | hx
    · exact ⟨by simp, by simp, by simp⟩
    · obtain ⟨h1, h2, h3⟩ := ih x hx
      refine ⟨by omega, by simp only [List.length_append] at h2 ⊢; omega, ?_⟩
      rw [List.getElem?_append_right (by omega)]
      rw [show x.1 - p - (37 :: w').length = x.1 - (p + (37 :: w').length) by omega]
      exact h3
  | @lone p v ts _ _ ih =>
    intro x hx
    rcases List.mem_cons.mp hx with rfl | hx
    · exact ⟨by simp, by simp, by simp⟩
    · obtain ⟨h1, h2, h3⟩ := ih x hx
      refine ⟨by omega, by simp only [List.length_cons]; omega, ?_⟩
      rw [show x.1 - p = (x.1 - (p + 1)) + 1 by omega, List.getElem?_cons_succ]
      exact h3

end C06G

/-
C15W, part 2: the hypotheses "the walk terminates", "the walk is lossless" (C01) and "the entries can be handed to the
merge" of `merge_single` / `merge_identical` are theorems about the parser models: every text of every regex format
walks to entries `es` whose texts concatenate to the input (DTD: after a byte-order mark), and `toEnts` succeeds on them
(PO: `PoEntity.key` re-evaluates the very `createEntity` that produced the entity).  Core Lean only.
-/
import CLModel.Proofs.C15Walk
import CLModel.Props.C01
namespace C15W
open Rx P Gen.Pat Merge

/-- an Entity of the base `getNext` comes from a successful `createEntity` at its own start -/
theorem getNext_entity (c : BaseCfg) (s : Array Nat) (off : Nat) (h : (getNext c s off).kind = .entity) :
    ∃ km r, c.create s (getNext c s off).s km = some r := by
  generalize hg : getNext c s off = g at h ⊢
  simp only [getNext] at hg
  rcases hcm : matchAt s c.reComment off with _ | cst
  · simp only [hcm, Option.isSome_none, Option.isNone_none, Bool.false_and] at hg
    rcases hws : matchAt s c.reWhitespace off with _ | w
    · simp only [hws] at hg
      rcases hk : matchAt s c.reKey off with _ | km
      · simp only [hk] at hg
        subst hg; simp [getJunk_kind] at h
      · simp only [hk] at hg
        rcases hcr : c.create s off km with _ | ⟨e, k, v⟩
        · simp only [hcr, Option.map_none] at hg
          subst hg; simp [getJunk_kind] at h
        · simp only [hcr, Option.map_some] at hg
          subst hg
          exact ⟨km, _, hcr⟩
    · simp [hws] at hg
      subst hg; simp at h
  · simp only [hcm, Option.isSome_some, Option.isNone_some] at hg
    split at hg
    · rename_i e he
      split at he
      · cases he; subst hg; simp at h
      · cases he
    · rcases hws : matchAt s c.reWhitespace cst.pos with _ | w
      · simp only [hws] at hg
        rcases hk : matchAt s c.reKey cst.pos with _ | km
        · simp only [hk] at hg
          subst hg; simp at h
        · simp only [hk] at hg
          rcases hcr : c.create s cst.pos km with _ | ⟨e, k, v⟩
          · simp only [hcr, Option.map_none] at hg
            subst hg; simp at h
          · simp only [hcr, Option.map_some] at hg
            subst hg
            exact ⟨km, _, hcr⟩
      · simp only [hws] at hg
        split at hg
        · rename_i e he
          split at he
          · cases he; subst hg; simp at h
          · simp at he
        · rcases hk : matchAt s c.reKey w.pos with _ | km
          · simp only [hk] at hg
            subst hg; simp at h
          · simp only [hk] at hg
            rcases hcr : c.create s w.pos km with _ | ⟨e, k, v⟩
            · simp only [hcr, Option.map_none] at hg
              subst hg; simp at h
            · simp only [hcr, Option.map_some] at hg
              subst hg
              exact ⟨km, _, hcr⟩

theorem po_entity_created (s : Array Nat) (es : List Entry) (h : walk .po s = .done es) :
    ∀ e ∈ es, e.kind = .entity → (poCreate s e.s).isSome := by
  simp only [walk] at h
  apply walkFrom_all _ _ (fun e => e.kind = .entity → (poCreate s e.s).isSome) _ _ _ _ _ h
  intro _ off _ hk
  obtain ⟨km, r, hr⟩ := getNext_entity poCfg s off hk
  have hc : poCfg.create s (getNext poCfg s off).s km =
      (poCreate s (getNext poCfg s off).s).map
        (fun p => (p.e, ((p.idS : Int), (p.idE : Int)), ((p.valS : Int), (p.e : Int)))) := rfl
  rw [hc] at hr
  simp only [poGetNext]
  cases hp : poCreate s (getNext poCfg s off).s with
  | none => rw [hp] at hr; simp at hr
  | some p => rfl

theorem toEnt_ok (f : Fmt) (s : Array Nat) (v i : Nat) (e : Entry)
    (hpo : f = .po → e.kind = .entity → (poCreate s e.s).isSome) : ∃ x, toEnt f s v i e = .ok x := by
  have hkey : ∃ k, ekeyOf f s v i e = .ok k := by
    unfold ekeyOf
    by_cases hk : e.kind = .entity
    · by_cases hf : f = .po
      · subst hf
        cases hc : poCreate s e.s with
        | none => have := hpo rfl hk; rw [hc] at this; cases this
        | some p => simp [hk]
      · have : (f == Fmt.po) = false := by cases f <;> simp_all
        simp [hk, this]
    · cases hk' : e.kind <;> simp_all
  obtain ⟨k, hk⟩ := hkey
  unfold toEnt
  rw [hk]
  exact ⟨_, rfl⟩

theorem toEnts_ok (f : Fmt) (s : Array Nat) (v : Nat) : ∀ (l : List (Entry × Nat)),
    (∀ p ∈ l, f = .po → p.1.kind = .entity → (poCreate s p.1.s).isSome) → ∃ ents, toEnts f s v l = .ok ents
  | [], _ => ⟨[], rfl⟩
  | (e, i) :: rest, h => by
    obtain ⟨x, hx⟩ := toEnt_ok f s v i e (h (e, i) (by simp))
    obtain ⟨xs, hxs⟩ := toEnts_ok f s v rest (fun p hp => h p (List.mem_cons_of_mem _ hp))
    exact ⟨x :: xs, by rw [toEnts, hx, hxs]⟩

/-- EVERY text of a regex format walks to entries the merge accepts, whose texts concatenate to the input
    (DTD: provided the text does not start with a byte-order mark, which the DTD walk drops) -/
theorem walk_total (f : Fmt) (s : Array Nat) (v : Nat) :
    ∃ es ents, walk f s = .done es ∧ toEnts f s v es.zipIdx = .ok ents ∧
      ((f = .dtd → s[0]? ≠ some 0xFEFF) → (es.map (Entry.all s)).flatten = s.toList) := by
  have hw : ∃ es, walk f s = .done es ∧
      ((f = .dtd → s[0]? ≠ some 0xFEFF) → (es.map (Entry.all s)).flatten = s.toList) := by
    cases f
    · obtain ⟨es, h1, _, h3⟩ := C01.walk_lossless_properties s; exact ⟨es, h1, fun _ => h3⟩
    · obtain ⟨es, h1, _, h3⟩ := C01.walk_lossless_dtd s
      refine ⟨es, h1, fun hb => ?_⟩
      have : C01.bomSkip s = 0 := by simp [C01.bomSkip, hb rfl]
      rw [this, List.drop_zero] at h3
      exact h3
    · obtain ⟨es, h1, _, h3⟩ := C01.walk_lossless_ini s; exact ⟨es, h1, fun _ => h3⟩
    · obtain ⟨es, h1, _, h3⟩ := C01.walk_lossless_inc s; exact ⟨es, h1, fun _ => h3⟩
    · obtain ⟨es, h1, _, h3⟩ := C01.walk_lossless_po s; exact ⟨es, h1, fun _ => h3⟩
  obtain ⟨es, h1, h3⟩ := hw
  obtain ⟨ents, h2⟩ := toEnts_ok f s v es.zipIdx (by
    intro p hp hf hk
    subst hf
    have : p.1 ∈ es := by
      have := List.mem_map_of_mem (f := Prod.fst) hp
      rwa [List.zipIdx_map_fst] at this
    exact po_entity_created s es h1 p.1 this hk)
  exact ⟨es, ents, h1, h2, h3⟩

end C15W

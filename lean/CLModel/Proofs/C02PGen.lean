/- C02 (round 4): the generic "document with garbage lines" theorem.  A format supplies its blocks (print, entries, views,
   goodness), its notion of an inert garbage line and three facts (a good block is walked to its entries; a garbage line in
   front of a good block or of the end of the text is ONE junk entry; what a block's entries evaluate to); the theorem
   yields, for every list of blocks each optionally preceded by one garbage line, plus an optional final garbage line:
   the walk, the entity views, and the junk = exactly the garbage lines. -/
import CLModel.Proofs.C02PGarbage
namespace C02P
open Rx P Gen.Pat C02X

/-- a block, optionally preceded by ONE garbage line (line, white-space after it) -/
structure GB (β : Type) where
  junk : Option (List Nat × List Nat)
  b : β

/-- what a format supplies -/
structure GSpec (σ β : Type) where
  f : Fmt
  next : Array Nat → σ → Nat → Entry × σ
  c0 : σ
  pr : β → List Nat
  en : Nat → σ → β → List Entry
  tr : σ → β → σ
  vw : β → List (Option EntView)
  /-- well-formedness of a block (may depend on the parser context: blank lines in `.inc` need `#filter emptyLines`) -/
  Good' : σ → β → Prop
  /-- side condition at an offset (the License rule does not fire on an attached comment) -/
  Lic : Nat → β → Prop
  /-- inert garbage line + the white-space after it -/
  Garb : σ → List Nat → List Nat → Prop
  /-- the block may be preceded by a garbage line (its start is recognised by one of the end-of-junk expressions) -/
  JOk : β → Prop
  Follow : List Nat → Prop
  /-- invariant about the text before an offset (line start) -/
  Inv : Array Nat → Nat → Prop

structure GSpec.Laws {σ β : Type} (S : GSpec σ β) : Prop where
  walk_def : ∀ s, walk S.f s = walkFrom (S.next s) s.size (s.size + 1) S.c0 0
  inv0 : ∀ s, S.Inv s 0
  follow_nil : S.Follow []
  block_walk : ∀ s b c off rest, S.Good' c b → S.Lic off b → At s off (S.pr b ++ rest) → S.Follow rest → S.Inv s off →
    Walks (S.next s) s.size c off (S.en off c b) (S.tr c b) (off + (S.pr b).length) ∧ S.Inv s (off + (S.pr b).length)
  block_follow : ∀ c b rest, S.Good' c b → S.Follow (S.pr b ++ rest)
  block_views : ∀ s b c off rest, S.Good' c b → At s off (S.pr b ++ rest) → S.Follow rest →
    entitiesOf S.f s (S.en off c b) = S.vw b ∧ junkOf s (S.en off c b) = []
  junk_at : ∀ s c p g gap rest, S.Garb c g gap → At s p (g ++ (gap ++ rest)) → S.Inv s p →
    (rest = [] ∨ ∃ b rest', rest = S.pr b ++ rest' ∧ S.Good' c b ∧ S.JOk b ∧ S.Follow rest') →
    S.next s c p = (junkEntry p (p + g.length + gap.length), c) ∧ S.Inv s (p + g.length + gap.length)
  garb_follow : ∀ c g gap rest, S.Garb c g gap → S.Follow (g ++ (gap ++ rest))
  garb_pos : ∀ c g gap, S.Garb c g gap → 0 < g.length
  lic_after_garb : ∀ c g gap off b, S.Garb c g gap → S.Lic (off + g.length + gap.length) b

section
variable {σ β : Type} (S : GSpec σ β)

def GB.jtext (x : GB β) : List Nat := tailText x.junk

def GSpec.gpr (x : GB β) : List Nat := x.jtext ++ S.pr x.b

def GSpec.gen (off : Nat) (c : σ) (x : GB β) : List Entry :=
  (match x.junk with
   | none => []
   | some (g, gap) => [junkEntry off (off + g.length + gap.length)]) ++ S.en (off + x.jtext.length) c x.b

def GSpec.gtr (c : σ) (x : GB β) : σ := S.tr c x.b

def GB.junks (x : GB β) : List (List Nat) :=
  match x.junk with
  | none => []
  | some (g, gap) => [g ++ gap]

def GSpec.GGood (off : Nat) (c : σ) (x : GB β) : Prop :=
  S.Good' c x.b ∧ (x.junk = none → S.Lic off x.b) ∧ ∀ g gap, x.junk = some (g, gap) → S.Garb c g gap ∧ S.JOk x.b

def GSpec.gprint (xs : List (GB β)) (tail : Option (List Nat × List Nat)) : List Nat :=
  printBlocks S.gpr xs ++ tailText tail

/-- the junk entry of a final garbage line printed at `p` -/
def tailEntries (p : Nat) : Option (List Nat × List Nat) → List Entry
  | none => []
  | some (g, gap) => [junkEntry p (p + g.length + gap.length)]

/-- the entries of a document printed at offset `o` -/
def GSpec.gentriesAt (o : Nat) (xs : List (GB β)) (tail : Option (List Nat × List Nat)) : List Entry :=
  blockEntries S.gpr S.gen S.gtr o S.c0 xs ++ tailEntries (o + (printBlocks S.gpr xs).length) tail

def GSpec.gentries (xs : List (GB β)) (tail : Option (List Nat × List Nat)) : List Entry := S.gentriesAt 0 xs tail

def GSpec.gviews (xs : List (GB β)) : List (Option EntView) := (xs.map (fun x => S.vw x.b)).flatten

def gbJunk {β : Type} (xs : List (GB β)) (tail : Option (List Nat × List Nat)) : List (List Nat) :=
  (xs.map GB.junks).flatten ++ (match tail with | none => [] | some (g, gap) => [g ++ gap])

theorem gb_walk (L : S.Laws) (s : Array Nat) (x : GB β) (c : σ) (off : Nat) (rest : List Nat) (hg : S.GGood off c x)
    (h : At s off (S.gpr x ++ rest)) (hfo : S.Follow rest) (hi : S.Inv s off) :
    Walks (S.next s) s.size c off (S.gen off c x) (S.gtr c x) (off + (S.gpr x).length) ∧ S.Inv s (off + (S.gpr x).length) := by
  obtain ⟨hb, hl, hj⟩ := hg
  cases hjk : x.junk with
  | none =>
    have hp : S.gpr x = S.pr x.b := by simp [GSpec.gpr, GB.jtext, tailText, hjk]
    have he : S.gen off c x = S.en off c x.b := by simp [GSpec.gen, GB.jtext, tailText, hjk]
    rw [hp, he]
    rw [hp] at h
    exact L.block_walk s x.b c off rest hb (hl hjk) h hfo hi
  | some gg =>
    obtain ⟨g, gap⟩ := gg
    obtain ⟨hgb, hjo⟩ := hj g gap hjk
    have hgl := L.garb_pos c g gap hgb
    have hjt : x.jtext = g ++ gap := by simp [GB.jtext, tailText, hjk]
    have h1 : At s off (g ++ (gap ++ (S.pr x.b ++ rest))) := by simpa [At, GSpec.gpr, hjt] using h
    have h2 : At s (off + g.length + gap.length) (S.pr x.b ++ rest) := h1.app.app
    obtain ⟨e1, i1⟩ := L.junk_at s c off g gap _ hgb h1 hi (Or.inr ⟨x.b, rest, rfl, hb, hjo, hfo⟩)
    obtain ⟨w2, i2⟩ := L.block_walk s x.b c _ rest hb (L.lic_after_garb c g gap off x.b hgb) h2 hfo i1
    have hp1 := h1.pos_lt (by intro hh; simp at hh; rw [hh.1] at hgl; simp at hgl)
    have w1 : Walks (S.next s) s.size c off [junkEntry off (off + g.length + gap.length)] c (off + g.length + gap.length) :=
      Walks.one hp1 (by simp [junkEntry]; omega) (by rw [e1])
    have := w1.append w2
    refine ⟨?_, ?_⟩
    · simp only [GSpec.gen, hjk, hjt, GSpec.gpr, List.length_append, GSpec.gtr]
      rw [show off + (g.length + gap.length + (S.pr x.b).length) = off + g.length + gap.length + (S.pr x.b).length by omega,
        show off + (g.length + gap.length) = off + g.length + gap.length by omega]
      exact this
    · simp only [GSpec.gpr, hjt, List.length_append]
      rw [show off + (g.length + gap.length + (S.pr x.b).length) = off + g.length + gap.length + (S.pr x.b).length by omega]
      exact i2

theorem gb_follow (L : S.Laws) (x : GB β) (c : σ) (off : Nat) (hg : S.GGood off c x) (l : List Nat) :
    S.Follow (S.gpr x ++ l) := by
  obtain ⟨hb, hl, hj⟩ := hg
  cases hjk : x.junk with
  | none =>
    have hp : S.gpr x = S.pr x.b := by simp [GSpec.gpr, GB.jtext, tailText, hjk]
    rw [hp]; exact L.block_follow c x.b l hb
  | some gg =>
    obtain ⟨g, gap⟩ := gg
    have := L.garb_follow c g gap (S.pr x.b ++ l) (hj g gap hjk).1
    simpa [GSpec.gpr, GB.jtext, tailText, hjk] using this

theorem gb_views (L : S.Laws) (s : Array Nat) (x : GB β) (c : σ) (off : Nat) (rest : List Nat) (hg : S.GGood off c x)
    (h : At s off (S.gpr x ++ rest)) (hfo : S.Follow rest) :
    entitiesOf S.f s (S.gen off c x) = S.vw x.b ∧ junkOf s (S.gen off c x) = x.junks := by
  obtain ⟨hb, hl, hj⟩ := hg
  cases hjk : x.junk with
  | none =>
    have hp : S.gpr x = S.pr x.b := by simp [GSpec.gpr, GB.jtext, tailText, hjk]
    rw [hp] at h
    have := L.block_views s x.b c off rest hb h hfo
    simpa [GSpec.gen, GB.jtext, tailText, GB.junks, hjk] using this
  | some gg =>
    obtain ⟨g, gap⟩ := gg
    have hjt : x.jtext = g ++ gap := by simp [GB.jtext, tailText, hjk]
    have h1 : At s off ((g ++ gap) ++ (S.pr x.b ++ rest)) := by simpa [At, GSpec.gpr, hjt] using h
    have h2 := h1.app
    obtain ⟨v1, v2⟩ := L.block_views s x.b c _ rest hb h2 hfo
    have hsl : slice s off (off + g.length + gap.length) = g ++ gap := by
      have := h1.slice
      simpa [Nat.add_assoc] using this
    simp only [GSpec.gen, hjk, hjt, GB.junks, List.singleton_append]
    rw [entitiesOf_cons_other _ _ _ _ (by simp [junkEntry]), junkOf_cons_junk _ _ _ (by simp [junkEntry]), v1, v2]
    simp [junkEntry, hsl]

theorem Walks.cast_end {σ : Type} {next : σ → Nat → Entry × σ} {size : Nat} {c c' : σ} {off off' off'' : Nat}
    {es : List Entry} (h : Walks next size c off es c' off') (e : off' = off'') : Walks next size c off es c' off'' := by
  subst e; exact h

theorem Walks.len_le' {σ : Type} {next : σ → Nat → Entry × σ} {size : Nat} {c c' : σ} {off off' : Nat}
    {es : List Entry} (h : Walks next size c off es c' off') : off + es.length ≤ off' := h.length_le.1

/-- hypotheses in list form, for formats whose block goodness does not depend on the context: every block (and garbage
    line) is good, blocks have at least two characters and the License condition holds at every offset ≥ 2: then only the
    FIRST block needs the License condition -/
theorem gGoodAll (hlen : ∀ c b, S.Good' c b → 2 ≤ (S.pr b).length) (hlic2 : ∀ off b, 2 ≤ off → S.Lic off b)
    (xs : List (GB β)) (hg : ∀ x ∈ xs, ∀ c, S.Good' c x.b ∧ ∀ g gap, x.junk = some (g, gap) → S.Garb c g gap ∧ S.JOk x.b) :
    ∀ off c, (∀ x, xs.head? = some x → x.junk = none → S.Lic off x.b) → GoodAll S.gpr S.gtr S.GGood off c xs := by
  induction xs with
  | nil => intro off c _; trivial
  | cons x xs ih =>
    intro off c hl
    refine ⟨⟨(hg x (by simp) c).1, hl x rfl, (hg x (by simp) c).2⟩, ih (fun y hy => hg y (by simp [hy])) _ _ ?_⟩
    intro y _ _
    apply hlic2
    have := hlen c x.b (hg x (by simp) c).1
    simp only [GSpec.gpr, List.length_append]
    omega

/-- the document printed after a prefix `pre` of the text (e.g. a byte-order mark): the stretch of the walk that starts right
    after the prefix, the views and the junk -/
theorem gdoc_from (L : S.Laws) (pre : List Nat) (xs : List (GB β)) (tail : Option (List Nat × List Nat))
    (s : Array Nat) (hs : s = (pre ++ S.gprint xs tail).toArray) (hi0 : S.Inv s pre.length)
    (hall : GoodAll S.gpr S.gtr S.GGood pre.length S.c0 xs)
    (htail : ∀ g gap, tail = some (g, gap) → S.Garb (blockCtx S.gtr S.c0 xs) g gap) :
    (∃ c', Walks (S.next s) s.size S.c0 pre.length (S.gentriesAt pre.length xs tail) c' s.size) ∧
      entitiesOf S.f s (S.gentriesAt pre.length xs tail) = S.gviews xs ∧
      junkOf s (S.gentriesAt pre.length xs tail) = gbJunk xs tail := by
  generalize htt' : tailText tail = tt
  have hat0 : At s 0 (pre ++ (printBlocks S.gpr xs ++ tt)) := by rw [hs, ← htt']; simp [At, GSpec.gprint]
  have hat : At s pre.length (printBlocks S.gpr xs ++ tt) := by simpa using hat0.app
  have hfo : S.Follow tt := by
    cases htl : tail with
    | none => rw [← htt', htl]; exact L.follow_nil
    | some gg =>
      obtain ⟨g, gap⟩ := gg
      have := L.garb_follow _ g gap [] (htail g gap htl)
      rw [← htt', htl]
      simpa [tailText] using this
  obtain ⟨hw, _, hinv⟩ := walks_blocks_inv (S.next s) s S.gpr S.gen S.gtr S.GGood S.Follow (S.Inv s)
      (fun x c off rest g h f i => gb_walk S L s x c off rest g h f i)
      (fun x c off rest g _ => gb_follow S L x c off g rest) xs S.c0 pre.length tt hall hat hfo hi0
  have hv := (views_blocks S.f s S.gpr S.gen S.gtr S.GGood S.Follow (fun x => S.vw x.b) GB.junks
      (fun x c off rest g h f => gb_views S L s x c off rest g h f)
      (fun x c off rest g _ => gb_follow S L x c off g rest) xs S.c0 pre.length tt hall hat hfo).1
  have hlen : s.size = pre.length + (printBlocks S.gpr xs).length + tt.length := by
    rw [hs, ← htt']; simp [GSpec.gprint]; omega
  cases htl : tail with
  | none =>
    have htt : tt = [] := by rw [← htt', htl]; rfl
    rw [htt] at hlen
    simp only [List.length_nil, Nat.add_zero] at hlen
    have hes : S.gentriesAt pre.length xs none = blockEntries S.gpr S.gen S.gtr pre.length S.c0 xs := by
      simp [GSpec.gentriesAt, tailEntries]
    refine ⟨⟨_, by rw [hes]; exact hw.cast_end hlen.symm⟩, ?_, ?_⟩
    · rw [hes]; simpa [GSpec.gviews] using hv.1
    · rw [hes]; simpa [gbJunk] using hv.2
  | some gg =>
    obtain ⟨g, gap⟩ := gg
    have hgb := htail g gap htl
    have hgl := L.garb_pos _ g gap hgb
    have htt : tt = g ++ gap := by rw [← htt', htl]; rfl
    rw [htt] at hlen hat
    have h2 : At s (pre.length + (printBlocks S.gpr xs).length) (g ++ (gap ++ [])) := by simpa using hat.app
    obtain ⟨e1, _⟩ := L.junk_at s _ _ g gap [] hgb h2 hinv (Or.inl rfl)
    have w1 : Walks (S.next s) s.size (blockCtx S.gtr S.c0 xs) (pre.length + (printBlocks S.gpr xs).length)
        [junkEntry (pre.length + (printBlocks S.gpr xs).length) (pre.length + (printBlocks S.gpr xs).length + g.length + gap.length)]
        (blockCtx S.gtr S.c0 xs) (pre.length + (printBlocks S.gpr xs).length + g.length + gap.length) :=
      Walks.one (by simp at hlen; omega) (by simp [junkEntry]; omega) (by rw [e1])
    have hwa := hw.append w1
    have hsl : slice s (pre.length + (printBlocks S.gpr xs).length)
        (pre.length + (printBlocks S.gpr xs).length + g.length + gap.length) = g ++ gap := by
      have : At s (pre.length + (printBlocks S.gpr xs).length) ((g ++ gap) ++ []) := by simpa using h2
      have := this.slice
      simpa [Nat.add_assoc] using this
    have hes : S.gentriesAt pre.length xs (some (g, gap)) = blockEntries S.gpr S.gen S.gtr pre.length S.c0 xs ++
        [junkEntry (pre.length + (printBlocks S.gpr xs).length) (pre.length + (printBlocks S.gpr xs).length + g.length + gap.length)] := by
      simp [GSpec.gentriesAt, tailEntries]
    have hend : pre.length + (printBlocks S.gpr xs).length + g.length + gap.length = s.size := by simp at hlen; omega
    refine ⟨⟨_, by rw [hes]; exact hwa.cast_end hend⟩, ?_, ?_⟩
    · rw [hes]
      simp only [entitiesOf_append, hv.1, GSpec.gviews]
      rw [entitiesOf_cons_other _ _ _ _ (by simp [junkEntry])]; simp
    · rw [hes]
      simp only [junkOf_append, hv.2, gbJunk]
      rw [junkOf_cons_junk _ _ _ (by simp [junkEntry])]; simp [junkEntry, hsl]

/-- THE GENERIC DOCUMENT THEOREM -/
theorem gdoc (L : S.Laws) (xs : List (GB β)) (tail : Option (List Nat × List Nat))
    (hall : GoodAll S.gpr S.gtr S.GGood 0 S.c0 xs)
    (htail : ∀ g gap, tail = some (g, gap) → S.Garb (blockCtx S.gtr S.c0 xs) g gap) :
    walk S.f (S.gprint xs tail).toArray = .done (S.gentries xs tail) ∧
      entitiesOf S.f (S.gprint xs tail).toArray (S.gentries xs tail) = S.gviews xs ∧
      junkOf (S.gprint xs tail).toArray (S.gentries xs tail) = gbJunk xs tail := by
  have := gdoc_from S L [] xs tail (S.gprint xs tail).toArray (by simp) (L.inv0 _) hall htail
  simp only [List.length_nil] at this
  obtain ⟨⟨c', hw⟩, hv1, hv2⟩ := this
  refine ⟨?_, ?_, ?_⟩
  · rw [L.walk_def]
    exact hw.done (Nat.le_refl _) _ (by have := hw.len_le'; omega)
  · exact hv1
  · exact hv2

end

end C02P

import CLModel.Proofs.C09WalkLoop
namespace C09P
open AndroidP

def Step.mapOut (g : List Entry → List Entry) : Step → Step
  | .stop o => .stop (g o)
  | .cont o r => .cont (g o) r

theorem extras_true (cc ws : Option Lit) : extras true cc ws = [] := rfl

theorem stepElem_ol (cc ws : Option Lit) (n : DNode) (r : List DNode) :
    stepElem true cc ws n r = (stepElem false cc ws n r).map (Step.mapOut (List.filter isLoc)) := by
  unfold stepElem
  by_cases he : n.isElement = true
  · simp only [he, if_true]
    cases n <;> simp [DNode.isElement] at he
    rw [handleElement_eq]
    split
    · simp [Step.mapOut, isLoc_elemEntry]
    · simp
  · simp [he, Step.mapOut, extras_noLoc, extras_true]

theorem stepWhiteBody_ol (cc : Option Lit) (n : DNode) (d : List Nat) (r : List DNode) :
    stepWhiteBody true cc n d r = (stepWhiteBody false cc n d r).map (Step.mapOut (List.filter isLoc)) := by
  unfold stepWhiteBody
  cases n.toxml? with
  | none => simp
  | some wx =>
    cases cc with
    | none => simp [Step.mapOut, extras_noLoc, extras_true]
    | some c =>
      simp only
      split
      · simp [Step.mapOut, extras_noLoc, extras_true]
      · cases r with
        | nil => simp [Step.mapOut, extras_noLoc, extras_true]
        | cons n2 r2 => simp [stepElem_ol]

theorem stepWhite_ol (cc : Option Lit) (n : DNode) (r : List DNode) :
    stepWhite true cc n r = (stepWhite false cc n r).map (Step.mapOut (List.filter isLoc)) := by
  cases n <;> simp [stepWhite, stepWhiteBody_ol, stepElem_ol]

theorem walkStep_ol (n : DNode) (r : List DNode) :
    walkStep true n r = (walkStep false n r).map (Step.mapOut (List.filter isLoc)) := by
  cases n <;> simp [walkStep, stepWhite_ol]
  rename_i c
  cases handleComment c r with
  | none => simp
  | some p =>
    obtain ⟨cc, rem⟩ := p
    cases rem with
    | nil => simp [Step.mapOut, extras_noLoc, extras_true]
    | cons n1 r1 => simp [stepWhite_ol]

theorem mapOut_rest (g : List Entry → List Entry) (s : Step) : (Step.mapOut g s).rest = s.rest := by
  cases s <;> rfl
theorem mapOut_out (g : List Entry → List Entry) (s : Step) : (Step.mapOut g s).out = g s.out := by
  cases s <;> rfl

theorem walkLoop_ol : ∀ f cs, cs.length < f →
    walkLoop true f cs = (walkLoop false f cs).map (List.filter isLoc) := by
  intro f
  induction f with
  | zero => intro cs h; omega
  | succ f ih =>
    intro cs hlen
    cases cs with
    | nil => simp [walkLoop]
    | cons n r =>
      simp at hlen
      rw [walkLoop_succ true n r (by omega), walkLoop_succ false n r (by omega), walkStep_ol]
      cases hs : walkStep false n r with
      | none => simp
      | some s =>
        have := walkStep_rest_length hs
        simp [mapOut_rest, mapOut_out, ih s.rest (by omega)]
        cases walkLoop false f s.rest <;> simp

end C09P

/- Helper lemmas for C14: the transliterated `_filter`/`filter` equals the reference interpreter. -/
import CLModel.Paths.Filter
import CLModel.Paths.FilterSpec
namespace Filt
open Filt.Spec

/-! ### locales -/

theorem contains_optLocales (o : Option (List Text)) (l : Text) :
    (optLocales o).contains l = names o l := by
  cases o <;> simp [optLocales, names]

theorem contains_ownLocales (locales : Option (List Text)) (paths : List PathEntry) (l : Text) :
    (ownLocales locales paths).contains l =
      (names locales l || paths.any (fun p => names p.locales l)) := by
  rw [Bool.eq_iff_iff]
  simp only [ownLocales, List.contains_eq_mem, List.mem_append, List.mem_flatMap, Bool.or_eq_true,
    decide_eq_true_eq, List.any_eq_true, ← contains_optLocales]

mutual
theorem allLocales_contains : ∀ (c : Config) (l : Text), (allLocales c).contains l = hasLocale c l
  | .mk locales paths rules children excludes, l => by
    have ih := allLocalesList_contains children l
    rw [allLocales, hasLocale, ← ih, ← contains_ownLocales]
    rw [Bool.eq_iff_iff]; simp
theorem allLocalesList_contains : ∀ (cs : List Config) (l : Text),
    (allLocalesList cs).contains l = hasLocaleAny cs l
  | [], l => by simp [allLocalesList, hasLocaleAny]
  | c :: cs, l => by
    have h1 := allLocales_contains c l
    have h2 := allLocalesList_contains cs l
    rw [allLocalesList, hasLocaleAny, ← h1, ← h2]
    rw [Bool.eq_iff_iff]; simp
end

/-! ### the final severity tests -/

theorem pick_eq_mostSevere (l : List (Option Action)) : pick l = mostSevere l := by
  induction l with
  | nil => simp [pick, mostSevere]
  | cons a l ih =>
    have : mostSevere (a :: l) = worse a (mostSevere l) := rfl
    rw [this, ← ih]
    rcases a with _ | _ | _ | _ <;> simp [pick, worse, sev] <;> (repeat' split) <;> simp_all

theorem pick_congr {l1 l2 : List (Option Action)} (h : ∀ x, x ∈ l1 ↔ x ∈ l2) : pick l1 = pick l2 := by
  simp [pick, List.contains_eq_mem, h]

theorem pick_append_single (l : List (Option Action)) (a : Option Action) : pick (l ++ [a]) = pick (a :: l) :=
  pick_congr (by intro x; simp [or_comm])

theorem pick_none_cons (l : List (Option Action)) : pick (none :: l) = pick l := by
  simp [pick]

theorem pick_of_error {l : List (Option Action)} (h : l.contains (some Action.error) = true) :
    pick l = some .error := by
  simp only [List.contains_eq_mem, decide_eq_true_eq] at h
  simp [pick, h]

theorem pick_cons_of_error {l : List (Option Action)} (a : Option Action)
    (h : l.contains (some Action.error) = true) : pick (a :: l) = some .error := by
  apply pick_of_error
  simp only [List.contains_eq_mem, decide_eq_true_eq] at h
  simp [h]

/-! ### the reverse scan -/

def bindRule (loc : Text) (r : Rule) : CachedRule := ⟨r.path.withLocale loc, r.key, r.action⟩

theorem scanRules_cons (file : File) (ent : Option Text) (r : Rule) (rest : List CachedRule) :
    scanRules file.fullpath ent (bindRule file.locale r :: rest) =
      if applies r file ent then r.action else scanRules file.fullpath ent rest := by
  rcases hk : r.key with _ | k <;> rcases ent with _ | e <;>
    simp [scanRules, bindRule, PathM.withLocale, applies, hk] <;>
    split <;> simp_all <;> (cases k.matches e <;> simp)

theorem scanRules_head (file : File) (ent : Option Text) (rules : List Rule) :
    scanRules file.fullpath ent (rules.map (bindRule file.locale)) =
      (match (rules.filter (fun r => applies r file ent)).head? with
       | some r => r.action
       | none => Action.error) := by
  induction rules with
  | nil => simp [scanRules]
  | cons r rest ih =>
    rw [List.map_cons, scanRules_cons, List.filter_cons]
    split <;> simp [ih]

theorem scanRules_last (paths : List PathEntry) (file : File) (ent : Option Text) (rules : List Rule) :
    scanRules file.fullpath ent (buildCache paths rules file.locale).rules.reverse =
      (match (rules.filter (fun r => applies r file ent)).getLast? with
       | some r => r.action
       | none => Action.error) := by
  have := scanRules_head file ent rules.reverse
  rw [List.filter_reverse, List.head?_reverse] at this
  rw [← this]
  simp only [buildCache, List.map_reverse]
  rfl

theorem covered_cache (paths : List PathEntry) (rules : List Rule) (file : File) :
    (buildCache paths rules file.locale).l10nPaths.any (fun p => p.matchPath file.fullpath) = covered paths file := by
  simp only [buildCache, covered, List.any_map, List.any_filter]
  congr 1
  funext p
  simp only [PathEntry.enabledFor, allows, PathM.withLocale, Function.comp]
  cases p.locales <;> simp

/-- the part of `_filter` after the children's actions are known -/
theorem own_step (paths : List PathEntry) (rules : List Rule) (file : File) (ent : Option Text)
    (acts : List (Option Action)) :
    (if acts.contains (some Action.error) then some Action.error else
      pick (if (buildCache paths rules file.locale).l10nPaths.any (fun p => p.matchPath file.fullpath) then
          acts ++ [some (scanRules file.fullpath ent (buildCache paths rules file.locale).rules.reverse)]
        else acts)) = mostSevere (own paths rules file ent :: acts) := by
  rw [← pick_eq_mostSevere, covered_cache, scanRules_last]
  by_cases he : acts.contains (some Action.error) = true
  · rw [if_pos he, pick_cons_of_error _ he]
  · rw [if_neg he]
    unfold own
    by_cases hc : covered paths file = true
    · rw [if_pos hc, if_pos hc, pick_append_single]
      cases (rules.filter (fun r => applies r file ent)).getLast? <;> rfl
    · rw [if_neg hc, if_neg hc, pick_none_cons]

/-! ### the recursion -/

mutual
theorem filterInner_eq : ∀ (c : Config) (file : File) (ent : Option Text),
    filterInner c file ent = inner c file ent
  | .mk locales paths rules children excludes, file, ent => by
    have h1 := childActions_eq children file ent
    have h2 := anyExcludeError_eq excludes file
    rw [filterInner, inner, h1, h2]
    split
    · rfl
    · exact own_step paths rules file ent _
theorem childActions_eq : ∀ (cs : List Config) (file : File) (ent : Option Text),
    childActions cs file ent = innerAll cs file ent
  | [], _, _ => by simp [childActions, innerAll]
  | c :: cs, file, ent => by
    rw [childActions, innerAll, filterInner_eq c file ent, childActions_eq cs file ent]
theorem anyExcludeError_eq : ∀ (exs : List Config) (file : File),
    anyExcludeError exs file = excluded exs file
  | [], _ => by simp [anyExcludeError, excluded]
  | ex :: rest, file => by
    rw [anyExcludeError, excluded, filterInner_eq ex file none, anyExcludeError_eq rest file,
      allLocales_contains]
    congr 1
    cases hasLocale ex file.locale <;> cases inner ex file none <;> simp
end

theorem filter_eq_verdict (cfg : Config) (file : File) (ent : Option Text) :
    filter cfg file ent = verdict cfg file ent := by
  rw [filter, verdict, allLocales_contains, filterInner_eq]
  cases hasLocale cfg file.locale <;> simp
  cases inner cfg file ent <;> rfl

/-- the inlined body in `anyExcludeError` is `filter ex file none == error` -/
theorem anyExcludeError_eq_any (exs : List Config) (file : File) :
    anyExcludeError exs file = exs.any (fun ex => filter ex file none == Action.error) := by
  induction exs with
  | nil => simp [anyExcludeError]
  | cons ex rest ih =>
    rw [anyExcludeError, ih, List.any_cons, filter]
    congr 1
    cases (allLocales ex).contains file.locale <;> simp
    cases filterInner ex file none <;> simp

/-! ### severity order and last applicable rule -/

theorem sev_worse (a b : Option Action) : sev (worse a b) = max (sev a) (sev b) := by
  unfold worse; split <;> omega

theorem sev_le_mostSevere {l : List (Option Action)} {a : Option Action} (h : a ∈ l) :
    sev a ≤ sev (mostSevere l) := by
  induction l with
  | nil => cases h
  | cons b l ih =>
    have : mostSevere (b :: l) = worse b (mostSevere l) := rfl
    rw [this, sev_worse]
    rcases List.mem_cons.mp h with rfl | h'
    · omega
    · have := ih h'; omega

theorem mostSevere_mem (l : List (Option Action)) : mostSevere l = none ∨ mostSevere l ∈ l := by
  induction l with
  | nil => left; rfl
  | cons b l ih =>
    have : mostSevere (b :: l) = worse b (mostSevere l) := rfl
    rw [this]; unfold worse
    split
    · rcases ih with h | h
      · left; exact h
      · right; exact List.mem_cons_of_mem _ h
    · right; simp

theorem sev_injective {a b : Option Action} (h : sev a = sev b) : a = b := by
  rcases a with _ | _ | _ | _ <;> rcases b with _ | _ | _ | _ <;> simp [sev] at h <;> rfl

theorem filter_getLast_of_last {α} (p : α → Bool) (pre post : List α) (r : α)
    (hr : p r = true) (hpost : ∀ q ∈ post, p q = false) :
    ((pre ++ r :: post).filter p).getLast? = some r := by
  have : post.filter p = [] := by
    rw [List.filter_eq_nil_iff]; intro q hq; simp [hpost q hq]
  rw [List.filter_append, List.filter_cons, if_pos hr, this, List.getLast?_append]
  simp

end Filt

/-
C17 helper lemmas, part 8 (round 4): the checker models composed with the position resolution of
`ContentComparer.compare` / `EntityLinter.lint_value` on the entries of the parse stage:
what the (line, column) attached to a checker result points at.
-/
import CLModel.Proofs.C17Ents
namespace C17P
open Pos Pipe

/-- what the pair reported for a checker result denotes, for an entry `e` of the text `s`:
    * `ufffd`  — the offset `p` of a U+FFFD inside the entry (base `Checker.check`, entries without pre-comment);
    * `value`  — the offset `p = val_span[0] + n` inside the value span (properties): the value start, a backslash of
                 an unknown escape, or — when the raw value has no backslash, so that offsets into `val` and `raw_val`
                 coincide — a `%`;
    * `shifted` — KNOWN FINDING C17-entitypos-counts-from-precomment: the U+FFFD is at offset `a + k` (counted from the
                 start `a` of the attached pre-comment), the code reports the pair of `span[0] + k`. -/
inductive Target (s : Array Nat) (e : P.Entry) (lc : Int × Int) : Prop
  | ufffd (p : Nat) (h1 : e.s ≤ p) (h2 : p < e.e) (h3 : s[p]? = some 0xFFFD) (h4 : lc = castLC (cursor s p))
  | value (vs ve p : Nat) (hvs : e.vs = (vs : Int)) (hve : e.ve = (ve : Int)) (h0 : e.s ≤ vs) (h1 : vs ≤ p) (h2 : p ≤ ve)
      (h3 : ve ≤ e.e)
      (hch : p = vs ∨ s[p]? = some 92 ∨ ((∀ j, vs ≤ j → j < ve → s[j]? ≠ some 92) → s[p]? = some 37))
      (h4 : lc = castLC (cursor s p))
  | shifted (a b k : Nat) (hpc : e.pc = some (a, b)) (h1 : s[a + k]? = some 0xFFFD) (h2 : a + k < e.e) (h3 : a ≤ e.s)
      (h4 : lc = castLC (cursor s (e.s + k)))

theorem slice_get {s : Array Nat} {a b k c : Nat} (hb : b ≤ s.size) (h : (P.slice s a b)[k]? = some c) :
    s[a + k]? = some c ∧ a + k < b := by
  rw [P.slice_eq s a b hb] at h
  rw [List.getElem?_take] at h
  split at h
  · rename_i hk
    rw [List.getElem?_drop] at h
    exact ⟨by simpa using h, by omega⟩
  · cases h

theorem slice_length {s : Array Nat} {a b : Nat} (hb : b ≤ s.size) : (P.slice s a b).length = b - a := by
  rw [P.slice_eq s a b hb]
  simp
  omega

theorem slice_get_of {s : Array Nat} {a b k : Nat} (hb : b ≤ s.size) (hk : a + k < b) :
    (P.slice s a b)[k]? = s[a + k]? := by
  rw [P.slice_eq s a b hb, List.getElem?_take]
  have : k < b - a := by omega
  simp [this, List.getElem?_drop]

/-- `EntityPos(k)` at a U+FFFD of `all` -/
theorem entityPos_target (fmt : P.Fmt) (s : Array Nat) (l : PEnt) (hl : EntFacts fmt s l) (k : Nat)
    (hk : l.all[k]? = some 0xFFFD) (lc : Int × Int)
    (hres : resolveCheckPos s .plain l.entry (.entityPos (k : Int)) = some lc) : Target s l.entry lc := by
  have hlc : lc = castLC (cursor s (l.entry.s + k)) := by
    have : resolveCheckPos s .plain l.entry (.entityPos (k : Int)) = some (castLC (cursor s (l.entry.s + k))) := by
      show position s l.entry (k : Int) = _
      unfold position
      simp only [show ¬ ((k : Int) < 0) by omega, if_false]
      exact linecol_nat s (l.entry.s + k)
    rw [this] at hres
    exact (Option.some.inj hres).symm
  rw [hl.all_eq] at hk
  obtain ⟨hget, hlt⟩ := slice_get hl.e_le hk
  obtain ⟨hfs, hj, hent, hpc⟩ := hl.shape
  cases hpcv : l.entry.pc with
  | none =>
    have hsf : l.entry.s = l.entry.full := by
      rcases hl.kind with ⟨_, hkj⟩ | ⟨_, hke⟩
      · exact hj hkj
      · exact hent hke hpcv
    exact .ufffd (l.entry.s + k) (by omega) (by omega) (by rw [hsf]; exact hget) hlc
  | some ab =>
    obtain ⟨a, b⟩ := ab
    obtain ⟨ha, hb⟩ := hpc a b hpcv
    exact .shifted a b k hpcv (by rw [ha]; exact hget) (by omega) (by omega) hlc

/-- the position of one result of the checker of a covered format (ini / inc / po / properties), resolved on a parsed
    entry.  `ck` is ANY checker object of the class `getChecker` picks for the format: whatever its `locale`, its XML
    parser and its reference values (the last two are only read by `DTDChecker`). -/
theorem resolve_target (fmt : P.Fmt) (hfd : fmt ≠ .dtd) (ck : CkCtx) (hck : ck.kind = checkerOf fmt) (s : Array Nat)
    (r l : PEnt) (hl : EntFacts fmt s l) (rs : List CheckRes)
    (hrun : runChecker ck r l = .ok rs) (c : CheckRes) (hc : c ∈ rs) (lc : Int × Int)
    (hres : resolveCheckPos s .plain l.entry c.pos = some lc) :
    Target s l.entry lc ∧
    ((∃ n, c.pos = .offset n) → ∃ p, l.entry.s ≤ p ∧ p ≤ l.entry.e ∧ lc = castLC (cursor s p)) := by
  have hk : ck.kind = .base ∨ (ck.kind = .properties ∧ fmt = .properties) := by
    cases fmt <;> simp_all [checkerOf]
  rcases hk with hb | ⟨hp, hfmt⟩
  · simp only [runChecker, hb, Except.ok.injEq] at hrun
    subst hrun
    simp only [runBase, List.mem_map] at hc
    obtain ⟨x, hx, rfl⟩ := hc
    have := baseCheck_pos l.all.toArray x hx
    exact ⟨entityPos_target fmt s l hl x.pos (by simpa using this) lc hres, fun ⟨n, hn⟩ => by simp at hn⟩
  · subst hfmt
    simp only [runChecker, hp, runProps] at hrun
    split at hrun
    · cases hrun
    · split at hrun
      · rename_i rk lk hrk hlk
        split at hrun
        · cases hrun
        · rename_i fs hfs
          cases hrun
          simp only [List.mem_map] at hc
          obtain ⟨f, hf, rfl⟩ := hc
          obtain ⟨v, hv⟩ := Pipe.unescape_total l.raw
          have hpos := props_check_pos _ fs v hfs hv f hf
          have hbound := props_check_pos_bound _ fs hfs f hf
          unfold PropsPosOK at hpos
          cases hp : f.pos with
          | ent n =>
            simp only [hp] at hpos
            have hres' : resolveCheckPos s .plain l.entry (.entityPos (n : Int)) = some lc := by
              simpa [ofFinding, hp] using hres
            exact ⟨entityPos_target .properties s l hl n hpos lc hres', fun ⟨m, hm⟩ => by simp [ofFinding, hp] at hm⟩
          | val n =>
            simp only [hp] at hpos hbound
            have hres' : valuePosition s (valSpan false l.entry) (n : Int) = some lc := by
              simpa [ofFinding, hp, resolveCheckPos] using hres
            -- the entry is an Entity: a Junk has no value span
            have hkind : l.junk = false ∧ l.entry.kind = .entity := by
              rcases hl.kind with ⟨_, hkj⟩ | h
              · simp [valSpan, hkj, valuePosition] at hres'
              · exact h
            have hvin := hl.val_in hkind.1
            simp only [C01.ValInsideFor, C01.ValNormal] at hvin
            obtain ⟨vs, hvs⟩ := Int.eq_ofNat_of_zero_le (show 0 ≤ l.entry.vs by omega)
            obtain ⟨ve, hve⟩ := Int.eq_ofNat_of_zero_le (show 0 ≤ l.entry.ve by omega)
            have hle := hl.e_le
            have h1 : l.entry.s ≤ vs := by omega
            have h2 : vs ≤ ve := by omega
            have h3 : ve ≤ l.entry.e := by omega
            have hraw : l.raw = P.slice s vs ve := by
              rw [hl.raw_eq hkind.1, hvs, hve]
              exact P.pySlice_nat s vs ve (by omega) (by omega)
            have hrl : l.raw.length = ve - vs := by rw [hraw]; exact slice_length (by omega)
            have hn : vs + n ≤ ve := by omega
            have hlc : lc = castLC (cursor s (vs + n)) := by
              have : valuePosition s (valSpan false l.entry) (n : Int) = some (castLC (cursor s (vs + n))) := by
                simp only [valSpan, hkind.2, hvs, hve, Bool.false_and, Bool.false_eq_true, if_false, valuePosition,
                  show ¬ ((n : Int) < 0) by omega]
                have : ((vs : Int) + (n : Int)) = ((vs + n : Nat) : Int) := by omega
                rw [this]
                exact linecol_nat s (vs + n)
              rw [this] at hres'
              exact (Option.some.inj hres').symm
            refine ⟨.value vs ve (vs + n) hvs hve h1 (by omega) hn h3 ?_ hlc, fun _ => ⟨vs + n, by omega, by omega, hlc⟩⟩
            rcases hpos with h0 | ⟨_, h92⟩ | ⟨_, h37⟩
            · left; omega
            · right; left
              rw [hraw] at h92
              exact (slice_get (by omega) h92).1
            · right; right
              intro hno
              have hnb : ∀ ch ∈ l.raw, ch ≠ 92 := by
                intro ch hch
                obtain ⟨j, hj, hget⟩ := List.getElem_of_mem hch
                have hj' : j < ve - vs := by omega
                have h1 : l.raw[j]? = some ch := by rw [List.getElem?_eq_getElem hj, hget]
                rw [hraw] at h1
                have := (slice_get (by omega) h1).1
                intro h92
                subst h92
                exact hno (vs + j) (by omega) (by omega) this
              have hvr : v = l.raw := unescape_id _ _ hv hnb
              rw [hvr, hraw] at h37
              exact (slice_get (by omega) h37).1
      · cases hrun

/-- a `Target` other than the known finding lies inside the entry and so inside the text -/
theorem Target.inside {s : Array Nat} {e : P.Entry} {lc : Int × Int} (h : Target s e lc) (he : e.e ≤ s.size)
    (hno : e.pc = none) : ∃ p, e.s ≤ p ∧ p ≤ e.e ∧ p ≤ s.size ∧ lc = castLC (cursor s p) := by
  cases h with
  | ufffd p h1 h2 _ h4 => exact ⟨p, h1, by omega, by omega, h4⟩
  | value vs ve p _ _ h0 h1 h2 h3 _ h4 => exact ⟨p, by omega, by omega, by omega, h4⟩
  | shifted a b k hpc => rw [hno] at hpc; cases hpc

end C17P

/-
Helper lemmas for C15, part 5: merging a dict with a dict of the same shape (same entries
position by position, Whitespace objects distinct): the result has the shape again.  Core Lean only.
-/
import CLModel.Proofs.C15Append
import CLModel.Proofs.C15Fold
namespace Merge
open AR

abbrev Z := (Key × Ent) × (Key × Ent)

/-- same sort of entry, same key unless Whitespace, same text -/
def Align (x y : Key × Ent) : Prop :=
  x.2.isWs = y.2.isWs ∧ (x.2.isWs = false → x.1 = y.1) ∧ x.2.all = y.2.all

/-- the C20 closed form for two aligned dicts -/
def weave : List Z → List Key
  | [] => []
  | [p] => if p.1.2.isWs then [p.2.1, p.1.1] else [p.1.1]
  | p :: p2 :: rest2 =>
    if p.1.2.isWs then p.2.1 :: p.1.1 :: weave (p2 :: rest2)
    else if p2.1.2.isWs then p.1.1 :: p2.2.1 :: p2.1.1 :: weave rest2
    else p.1.1 :: weave (p2 :: rest2)

/-- result of the merge: Whitespace from the older dict, everything else from the newer -/
def mix (z : List Z) : List (Key × Ent) := z.map (fun p => if p.1.2.isWs then p.2 else p.1)

def NoAdjZ : List Z → Prop
  | a :: b :: rest => ¬ (a.1.2.isWs = true ∧ b.1.2.isWs = true) ∧ NoAdjZ (b :: rest)
  | _ => True

theorem specKeys_nil : specKeys ([] : List Key) [] = [] := by
  simp [specKeys, spec, anchors]

theorem specKeys_aligned : (z : List Z) → (z.map (·.1.1)).Nodup → (∀ p ∈ z, Align p.1 p.2) →
    (∀ p ∈ z, p.1.2.isWs = true → ¬ p.2.1 ∈ z.map (·.1.1)) → NoAdjZ z →
    specKeys (z.map (·.1.1)) (z.map (·.2.1)) = weave z
  | [], _, _, _, _ => specKeys_nil
  | [p], _, hal, hws, _ => by
    by_cases hw : p.1.2.isWs = true
    · have hne : p.1.1 ≠ p.2.1 := by
        intro e
        exact hws p (by simp) hw (by simp [e])
      simp only [weave, hw, if_true, List.map_cons, List.map_nil]
      exact specKeys_block1 _ _ hne
    · have hw' : p.1.2.isWs = false := by simpa using hw
      have he := (hal p (by simp)).2.1 hw'
      simp only [weave, hw, List.map_cons, List.map_nil, ← he]
      exact specKeys_block3 _
  | p :: p2 :: rest2, hnd, hal, hws, hadj => by
    have hnd' : ((p2 :: rest2).map (·.1.1)).Nodup := by
      rw [List.map_cons, List.nodup_cons] at hnd; exact hnd.2
    have hnd'' : (rest2.map (·.1.1)).Nodup := by
      rw [List.map_cons, List.nodup_cons] at hnd'; exact hnd'.2
    have hp_not : ¬ p.1.1 ∈ (p2 :: rest2).map (·.1.1) := by
      rw [List.map_cons, List.nodup_cons] at hnd; exact hnd.1
    have hp2_not : ¬ p2.1.1 ∈ rest2.map (·.1.1) := by
      rw [List.map_cons, List.nodup_cons] at hnd'; exact hnd'.1
    have hal' : ∀ q ∈ p2 :: rest2, Align q.1 q.2 := fun q hq => hal q (List.mem_cons_of_mem _ hq)
    have hal'' : ∀ q ∈ rest2, Align q.1 q.2 := fun q hq => hal' q (List.mem_cons_of_mem _ hq)
    have hws' : ∀ q ∈ p2 :: rest2, q.1.2.isWs = true → ¬ q.2.1 ∈ (p2 :: rest2).map (·.1.1) := by
      intro q hq hw hm
      exact hws q (List.mem_cons_of_mem _ hq) hw (by rw [List.map_cons]; exact List.mem_cons_of_mem _ hm)
    have hws'' : ∀ q ∈ rest2, q.1.2.isWs = true → ¬ q.2.1 ∈ rest2.map (·.1.1) := by
      intro q hq hw hm
      exact hws' q (List.mem_cons_of_mem _ hq) hw (by rw [List.map_cons]; exact List.mem_cons_of_mem _ hm)
    have hadj' : NoAdjZ (p2 :: rest2) := hadj.2
    have hadj'' : NoAdjZ rest2 := by
      cases rest2 with
      | nil => trivial
      | cons q r => exact hadj'.2
    -- keys of the older dict's tail are not among the first keys of the newer dict
    have tail_not : ∀ (pre : List Key) (t : List Z), (∀ q ∈ t, Align q.1 q.2) →
        (∀ q ∈ t, q.1.2.isWs = true → ∀ k ∈ pre, q.2.1 ≠ k) →
        (∀ q ∈ t, ∀ k ∈ pre, q.1.1 ≠ k) → ∀ x ∈ t.map (·.2.1), ¬ x ∈ pre := by
      intro pre t hA hW hN x hx hxp
      rw [List.mem_map] at hx
      obtain ⟨q, hq, rfl⟩ := hx
      by_cases hw : q.1.2.isWs = true
      · exact hW q hq hw _ hxp rfl
      · have hw' : q.1.2.isWs = false := by simpa using hw
        have := (hA q hq).2.1 hw'
        exact hN q hq _ hxp this
    by_cases hw : p.1.2.isWs = true
    · -- leading Whitespace: [w] / [w'] then the rest, which starts with a shared key
      have hw2 : p2.1.2.isWs = false := by
        cases h : p2.1.2.isWs
        · rfl
        · exact absurd ⟨hw, h⟩ hadj.1
      have hne : p.1.1 ≠ p.2.1 := by
        intro e
        exact hws p (by simp) hw (by simp [e])
      have e2 := (hal' p2 (by simp)).2.1 hw2
      simp only [weave, hw, if_true]
      have := specKeys_append [p.1.1] ((p2 :: rest2).map (·.1.1)) [p.2.1] ((p2 :: rest2).map (·.2.1))
        (by
          intro x hx hm
          simp only [List.mem_singleton] at hx
          subst hx
          exact hws p (by simp) hw (by rw [List.map_cons]; exact List.mem_cons_of_mem _ hm))
        (tail_not [p.1.1] (p2 :: rest2) hal'
          (by
            intro q hq hwq k hk
            simp only [List.mem_singleton] at hk
            subst hk
            intro e
            exact hws q (List.mem_cons_of_mem _ hq) hwq (by simp [e]))
          (by
            intro q hq k hk e
            simp only [List.mem_singleton] at hk
            subst hk
            exact hp_not (by rw [← e]; exact List.mem_map.2 ⟨q, hq, rfl⟩)))
        (by simp only [List.map_cons, HeadShared, ← e2]; simp)
      simp only [List.map_cons, List.cons_append, List.nil_append] at this ⊢
      rw [this, specKeys_block1 _ _ hne]
      have ih := specKeys_aligned (p2 :: rest2) hnd' hal' hws' hadj'
      simp only [List.map_cons] at ih
      rw [ih]; rfl
    · have hw' : p.1.2.isWs = false := by simpa using hw
      have e1 := (hal p (by simp)).2.1 hw'
      by_cases hw2 : p2.1.2.isWs = true
      · -- [x, w] / [x, w'] then the rest
        have hx_w : p.1.1 ≠ p2.1.1 := by
          intro e; exact hp_not (by simp [e])
        have hx_w' : p.1.1 ≠ p2.2.1 := by
          intro e
          exact hws p2 (by simp) hw2 (by simp [← e])
        have hw_w' : p2.1.1 ≠ p2.2.1 := by
          intro e
          exact hws p2 (by simp) hw2 (by simp [← e])
        have hhead : HeadShared (rest2.map (·.1.1)) (rest2.map (·.2.1)) := by
          cases rest2 with
          | nil => trivial
          | cons q r =>
            have hq : q.1.2.isWs = false := by
              cases h : q.1.2.isWs
              · rfl
              · exact absurd ⟨hw2, h⟩ hadj'.1
            have e3 := (hal'' q (by simp)).2.1 hq
            simp only [List.map_cons, HeadShared, ← e3]; simp
        simp only [weave, hw, hw2, if_true, Bool.false_eq_true, if_false]
        have := specKeys_append [p.1.1, p2.1.1] (rest2.map (·.1.1)) [p.1.1, p2.2.1] (rest2.map (·.2.1))
          (by
            intro x hx hm
            simp only [List.mem_cons, List.not_mem_nil, or_false] at hx
            rcases hx with rfl | rfl
            · exact hp_not (by rw [List.map_cons]; exact List.mem_cons_of_mem _ hm)
            · exact hws p2 (by simp) hw2 (by simp [hm]))
          (tail_not [p.1.1, p2.1.1] rest2 hal''
            (by
              intro q hq hwq k hk e
              simp only [List.mem_cons, List.not_mem_nil, or_false] at hk
              have hq' : q ∈ p :: p2 :: rest2 := by simp [hq]
              rcases hk with rfl | rfl
              · exact hws q hq' hwq (by simp [e])
              · exact hws q hq' hwq (by simp [e]))
            (by
              intro q hq k hk e
              simp only [List.mem_cons, List.not_mem_nil, or_false] at hk
              rcases hk with rfl | rfl
              · exact hp_not (by rw [← e, List.map_cons]; exact List.mem_cons_of_mem _ (List.mem_map.2 ⟨q, hq, rfl⟩))
              · exact hp2_not (by rw [← e]; exact List.mem_map.2 ⟨q, hq, rfl⟩)))
          hhead
        simp only [List.map_cons, ← e1] at this ⊢
        simp only [List.cons_append, List.nil_append] at this
        rw [this, specKeys_block2 _ _ _ hx_w hx_w' hw_w', specKeys_aligned rest2 hnd'' hal'' hws'' hadj'']
        rfl
      · -- [x] / [x] then the rest, which starts with a shared key
        have hw2' : p2.1.2.isWs = false := by simpa using hw2
        have e2 := (hal' p2 (by simp)).2.1 hw2'
        simp only [weave, hw, hw2, Bool.false_eq_true, if_false]
        have := specKeys_append [p.1.1] ((p2 :: rest2).map (·.1.1)) [p.1.1] ((p2 :: rest2).map (·.2.1))
          (by
            intro x hx hm
            simp only [List.mem_singleton] at hx
            subst hx
            exact hp_not hm)
          (tail_not [p.1.1] (p2 :: rest2) hal'
            (by
              intro q hq hwq k hk e
              simp only [List.mem_singleton] at hk
              subst hk
              exact hws q (List.mem_cons_of_mem _ hq) hwq (by simp [e]))
            (by
              intro q hq k hk e
              simp only [List.mem_singleton] at hk
              subst hk
              exact hp_not (by rw [← e]; exact List.mem_map.2 ⟨q, hq, rfl⟩)))
          (by simp only [List.map_cons, HeadShared, ← e2]; simp)
        simp only [List.map_cons, ← e1] at this ⊢
        simp only [List.cons_append, List.nil_append] at this
        rw [this, specKeys_block3]
        have ih := specKeys_aligned (p2 :: rest2) hnd' hal' hws' hadj'
        simp only [List.map_cons] at ih
        rw [ih]; rfl

/-! ### `prune` over the woven sequence -/

theorem prune_nonws (acc : List (Key × Ent)) (k : Key) (e : Ent) (he : e.isWs = false) :
    prune acc (k, some e) = (k, e) :: acc := by
  simp [prune, he]

/-- the accumulator is empty or ends with an entry that is not Whitespace -/
def HeadNonWs (acc : List (Key × Ent)) : Prop := match acc with
  | [] => True
  | q :: _ => q.2.isWs = false

theorem prune_ws_new (acc : List (Key × Ent)) (k : Key) (e : Ent) (h : HeadNonWs acc) :
    prune acc (k, some e) = (k, e) :: acc := by
  cases acc with
  | nil => cases hw : e.isWs <;> simp [prune, hw]
  | cons q t =>
    simp only [HeadNonWs] at h
    cases hw : e.isWs <;> simp [prune, hw, h]

theorem prune_ws_fold (q : Key × Ent) (t : List (Key × Ent)) (k : Key) (e : Ent) (he : e.isWs = true)
    (hq : q.2.isWs = true) (hl : e.all = q.2.all) : prune (q :: t) (k, some e) = q :: t := by
  simp [prune, he, hq, hl]

def StartOK (z : List Z) (acc : List (Key × Ent)) : Prop := match z with
  | [] => True
  | p :: _ => p.1.2.isWs = true → HeadNonWs acc

theorem mix_cons (p : Z) (z : List Z) : mix (p :: z) = (if p.1.2.isWs then p.2 else p.1) :: mix z := rfl

theorem fold_aligned (f : Key → Option Ent) : (z : List Z) → (acc : List (Key × Ent)) →
    (∀ p ∈ z, f p.1.1 = some p.1.2) → (∀ p ∈ z, p.1.2.isWs = true → f p.2.1 = some p.2.2) →
    (∀ p ∈ z, Align p.1 p.2) → NoAdjZ z → StartOK z acc →
    ((weave z).map (fun k => (k, f k))).foldl prune acc = (mix z).reverse ++ acc
  | [], acc, _, _, _, _, _ => by simp [weave, mix]
  | [p], acc, h1, h2, hal, _, hst => by
    have f1 := h1 p (by simp)
    have a := hal p (by simp)
    by_cases hw : p.1.2.isWs = true
    · have f2 := h2 p (by simp) hw
      have hw2 : p.2.2.isWs = true := by rw [← a.1]; exact hw
      simp only [weave, hw, if_true, List.map_cons, List.map_nil, List.foldl_cons, List.foldl_nil, f1, f2]
      rw [prune_ws_new acc p.2.1 p.2.2 (hst hw), prune_ws_fold (p.2.1, p.2.2) acc p.1.1 p.1.2 hw hw2 a.2.2,
        mix_cons, if_pos hw]
      simp [mix]
    · have hw' : p.1.2.isWs = false := by simpa using hw
      simp only [weave, hw', Bool.false_eq_true, if_false, List.map_cons, List.map_nil, List.foldl_cons,
        List.foldl_nil, f1]
      rw [prune_nonws acc p.1.1 p.1.2 hw', mix_cons, if_neg hw]
      simp [mix]
  | p :: p2 :: rest2, acc, h1, h2, hal, hadj, hst => by
    have f1 := h1 p (by simp)
    have a := hal p (by simp)
    have f12 := h1 p2 (by simp)
    have a2 := hal p2 (by simp)
    have h1' : ∀ q ∈ p2 :: rest2, f q.1.1 = some q.1.2 := fun q hq => h1 q (List.mem_cons_of_mem _ hq)
    have h2' : ∀ q ∈ p2 :: rest2, q.1.2.isWs = true → f q.2.1 = some q.2.2 :=
      fun q hq => h2 q (List.mem_cons_of_mem _ hq)
    have hal' : ∀ q ∈ p2 :: rest2, Align q.1 q.2 := fun q hq => hal q (List.mem_cons_of_mem _ hq)
    have hadj' : NoAdjZ (p2 :: rest2) := hadj.2
    have hadj'' : NoAdjZ rest2 := by
      cases rest2 with
      | nil => trivial
      | cons q r => exact hadj'.2
    by_cases hw : p.1.2.isWs = true
    · have f2 := h2 p (by simp) hw
      have hw2 : p.2.2.isWs = true := by rw [← a.1]; exact hw
      have hp2 : p2.1.2.isWs = false := by
        cases h : p2.1.2.isWs
        · rfl
        · exact absurd ⟨hw, h⟩ hadj.1
      simp only [weave, hw, if_true, List.map_cons, List.foldl_cons, f1, f2]
      rw [prune_ws_new acc p.2.1 p.2.2 (hst hw), prune_ws_fold (p.2.1, p.2.2) acc p.1.1 p.1.2 hw hw2 a.2.2]
      have ih := fold_aligned f (p2 :: rest2) ((p.2.1, p.2.2) :: acc) h1' h2' hal' hadj'
        (by intro h; rw [hp2] at h; exact absurd h (by simp))
      rw [ih, mix_cons p, if_pos hw, List.reverse_cons, List.append_assoc]
      rfl
    · have hw' : p.1.2.isWs = false := by simpa using hw
      by_cases hw2 : p2.1.2.isWs = true
      · have f22 := h2 p2 (by simp) hw2
        have hw22 : p2.2.2.isWs = true := by rw [← a2.1]; exact hw2
        simp only [weave, hw', hw2, if_true, Bool.false_eq_true, if_false, List.map_cons, List.foldl_cons,
          f1, f12, f22]
        rw [prune_nonws acc p.1.1 p.1.2 hw',
          prune_ws_new ((p.1.1, p.1.2) :: acc) p2.2.1 p2.2.2 (by simp only [HeadNonWs]; exact hw'),
          prune_ws_fold (p2.2.1, p2.2.2) ((p.1.1, p.1.2) :: acc) p2.1.1 p2.1.2 hw2 hw22 a2.2.2]
        have ih := fold_aligned f rest2 ((p2.2.1, p2.2.2) :: (p.1.1, p.1.2) :: acc)
          (fun q hq => h1' q (List.mem_cons_of_mem _ hq)) (fun q hq => h2' q (List.mem_cons_of_mem _ hq))
          (fun q hq => hal' q (List.mem_cons_of_mem _ hq)) hadj''
          (by
            cases rest2 with
            | nil => trivial
            | cons q r =>
              intro h
              exact absurd ⟨hw2, h⟩ hadj'.1)
        rw [ih, mix_cons p, mix_cons p2, if_neg hw, if_pos hw2, List.reverse_cons, List.reverse_cons,
          List.append_assoc, List.append_assoc]
        rfl
      · have hw2' : p2.1.2.isWs = false := by simpa using hw2
        simp only [weave, hw', hw2', Bool.false_eq_true, if_false, List.map_cons, List.foldl_cons, f1]
        rw [prune_nonws acc p.1.1 p.1.2 hw']
        have ih := fold_aligned f (p2 :: rest2) ((p.1.1, p.1.2) :: acc) h1' h2' hal' hadj'
          (by intro h; rw [hw2'] at h; exact absurd h (by simp))
        rw [ih, mix_cons p, if_neg hw, List.reverse_cons, List.append_assoc]
        rfl

end Merge

/-
Helper lemmas for C08: which references the two message visitors record per slot
(value / attribute name), and the `Missing … reference` loop of check_message.
-/
import CLModel.Proofs.C08
namespace Ftl
open Gen.Tables

/-- the patterns that belong to a slot: the value, or the values of ALL attributes with that name -/
def slotPatterns (value : Option Pattern) (attrs : List Attribute) : Slot → List Pattern
  | none => value.toList
  | some n => (attrs.filter (fun a => a.name == n)).map (·.value)

/-- the references (recorded text, kind) the message visitors meet in a slot, in traversal order -/
def slotRefs (value : Option Pattern) (attrs : List Attribute) (slot : Slot) : List (Str × RefType) :=
  (slotPatterns value attrs slot).flatMap (fun p => (evPattern false p).filterMap Ev.refKey)

def slotRefNames (value : Option Pattern) (attrs : List Attribute) (slot : Slot) : List Str :=
  (slotRefs value attrs slot).map (·.1)

/-! ### dict of one slot -/

theorem ddGet_dictSet {ν : Type} (d : List (Slot × List ν)) (s s' : Slot) (v : List ν) :
    ddGet (dictSet d s v) s' = if s == s' then v else ddGet d s' := by
  by_cases h : (s == s') = true <;> simp [ddGet, dictGet?_dictSet, h]

theorem mem_keys_foldl_refStep (evs : List Ev) (d : RefDict) (r : Str) :
    r ∈ dictKeys (evs.foldl refStep d) ↔ r ∈ dictKeys d ∨ r ∈ (evs.filterMap Ev.refKey).map (·.1) := by
  induction evs generalizing d with
  | nil => simp
  | cons e rest ih =>
    simp only [List.foldl_cons, ih, refStep]
    cases hk : e.refKey with
    | none => simp [hk]
    | some p =>
      obtain ⟨r', t⟩ := p
      simp only [dictKeys_dictSet, mem_setAdd, List.filterMap_cons, hk, List.map_cons, List.mem_cons]
      constructor
      · rintro ((h | h) | h)
        · exact Or.inl h
        · exact Or.inr (Or.inl h)
        · exact Or.inr (Or.inr h)
      · rintro (h | h | h)
        · exact Or.inl (Or.inl h)
        · exact Or.inl (Or.inr h)
        · exact Or.inr h

theorem mem_foldl_evRefs (evs : List Ev) (s : List Str) (r : Str) :
    r ∈ evs.foldl evRefs s ↔ r ∈ s ∨ r ∈ (evs.filterMap Ev.refKey).map (·.1) := by
  induction evs generalizing s with
  | nil => simp
  | cons e rest ih =>
    simp only [List.foldl_cons, ih, evRefs]
    cases hk : e.refKey with
    | none => simp [hk]
    | some p =>
      obtain ⟨r', t⟩ := p
      simp only [mem_setAdd, List.filterMap_cons, hk, List.map_cons, List.mem_cons]
      constructor
      · rintro ((h | h) | h)
        · exact Or.inl h
        · exact Or.inr (Or.inl h)
        · exact Or.inr (Or.inr h)
      · rintro (h | h | h)
        · exact Or.inl (Or.inl h)
        · exact Or.inl (Or.inr h)
        · exact Or.inr h

/-- every (text, kind) stored in the dict was stored by some visited reference -/
theorem mem_foldl_refStep (evs : List Ev) (d : RefDict) (p : Str × RefType) (h : p ∈ evs.foldl refStep d) :
    p ∈ d ∨ p ∈ evs.filterMap Ev.refKey := by
  induction evs generalizing d with
  | nil => exact Or.inl h
  | cons e rest ih =>
    simp only [List.foldl_cons] at h
    rcases ih _ h with h1 | h1
    · unfold refStep at h1
      cases hk : e.refKey with
      | none => rw [hk] at h1; exact Or.inl h1
      | some q =>
        rw [hk] at h1
        simp only at h1
        have : p ∈ d ∨ p = q := by
          clear ih h hk
          induction d with
          | nil => simp [dictSet] at h1; exact Or.inr h1
          | cons x xs ihd =>
            obtain ⟨k', v'⟩ := x
            simp only [dictSet] at h1
            split at h1
            · rename_i heq
              have hk' : k' = q.1 := by simpa using heq
              rcases List.mem_cons.mp h1 with h2 | h2
              · right; rw [h2, hk']
              · exact Or.inl (List.mem_cons_of_mem _ h2)
            · rcases List.mem_cons.mp h1 with h2 | h2
              · exact Or.inl (h2 ▸ List.mem_cons_self)
              · rcases ihd h2 with h3 | h3
                · exact Or.inl (List.mem_cons_of_mem _ h3)
                · exact Or.inr h3
        rcases this with h2 | h2
        · exact Or.inl h2
        · right; simp [hk, h2]
    · right
      cases hk : e.refKey <;> simp [hk, h1]

/-! ### the reference visitor's refs per slot -/

/-- the dict of an attribute slot after visiting the attributes -/
theorem ddGet_foldl_refVisitAttribute (attrs : List Attribute) (st : RefState) (slot : Slot) :
    ddGet (attrs.foldl refVisitAttribute st).entryRefs slot =
      match slot with
      | none => ddGet st.entryRefs none
      | some n => ((attrs.filter (fun a => a.name == n)).map (·.value)).foldl
          (fun d p => (evPattern false p).foldl refStep d) (ddGet st.entryRefs (some n)) := by
  induction attrs generalizing st with
  | nil => cases slot <;> simp
  | cons a r ih =>
    simp only [List.foldl_cons]
    rw [ih]
    have hER : (refVisitAttribute st a).entryRefs = dictSet st.entryRefs (some a.name)
        ((evPattern false a.value).foldl refStep (ddGet st.entryRefs (some a.name))) := by
      unfold refVisitAttribute
      simp only
      split <;> rfl
    cases slot with
    | none => simp [hER, ddGet_dictSet]
    | some n =>
      simp only [hER, ddGet_dictSet]
      by_cases hn : (a.name == n) = true
      · have : a.name = n := by simpa using hn
        subst this
        simp
      · have hne : ¬ a.name = n := by simpa using hn
        simp [hn]

theorem mem_keys_foldl_patterns (ps : List Pattern) (d : RefDict) (r : Str) :
    r ∈ dictKeys (ps.foldl (fun d p => (evPattern false p).foldl refStep d) d) ↔
      r ∈ dictKeys d ∨ r ∈ (ps.flatMap (fun p => (evPattern false p).filterMap Ev.refKey)).map (·.1) := by
  induction ps generalizing d with
  | nil => simp
  | cons p rest ih =>
    simp only [List.foldl_cons, ih, mem_keys_foldl_refStep, List.flatMap_cons, List.map_append, List.mem_append]
    constructor
    · rintro ((h | h) | h)
      · exact Or.inl h
      · exact Or.inr (Or.inl h)
      · exact Or.inr (Or.inr h)
    · rintro (h | h | h)
      · exact Or.inl (Or.inl h)
      · exact Or.inl (Or.inr h)
      · exact Or.inr h

theorem mem_foldl_patterns (ps : List Pattern) (d : RefDict) (q : Str × RefType)
    (h : q ∈ ps.foldl (fun d p => (evPattern false p).foldl refStep d) d) :
    q ∈ d ∨ q ∈ ps.flatMap (fun p => (evPattern false p).filterMap Ev.refKey) := by
  induction ps generalizing d with
  | nil => exact Or.inl h
  | cons p rest ih =>
    simp only [List.foldl_cons] at h
    rcases ih _ h with h1 | h1
    · rcases mem_foldl_refStep _ _ _ h1 with h2 | h2
      · exact Or.inl h2
      · right; simp [List.flatMap_cons, h2]
    · right; simp [List.flatMap_cons, h1]

/-- the reference's dict of a slot -/
def refSlotDict (ref : Message) (slot : Slot) : RefDict := ddGet (refVisitEntry (.message ref)).entryRefs slot

theorem refSlotDict_eq (ref : Message) (slot : Slot) :
    refSlotDict ref slot = (slotPatterns ref.value ref.attributes slot).foldl
      (fun d p => (evPattern false p).foldl refStep d) [] := by
  unfold refSlotDict refVisitEntry refVisit
  rw [ddGet_foldl_refVisitAttribute]
  cases slot with
  | none => cases hv : ref.value <;> simp [slotPatterns, refInit, ddGet, dictGet?, dictSet]
  | some n => cases hv : ref.value <;> simp [slotPatterns, refInit, ddGet, dictGet?, dictSet]

/-- the names the reference recorded for a slot = the references met in that slot -/
theorem mem_rrOf_ref (ref : Message) (slot : Slot) (r : Str) :
    r ∈ rrOf (refVisitEntry (.message ref)).entryRefs slot ↔ r ∈ slotRefNames ref.value ref.attributes slot := by
  have : rrOf (refVisitEntry (.message ref)).entryRefs slot = dictKeys (refSlotDict ref slot) := rfl
  rw [this, refSlotDict_eq, mem_keys_foldl_patterns]
  simp [slotRefNames, slotRefs, dictKeys]

theorem mem_refSlotDict (ref : Message) (slot : Slot) (q : Str × RefType) (h : q ∈ refSlotDict ref slot) :
    q ∈ slotRefs ref.value ref.attributes slot := by
  rw [refSlotDict_eq] at h
  rcases mem_foldl_patterns _ _ _ h with h1 | h1
  · simp at h1
  · exact h1

/-! ### the l10n visitor's refs per slot -/

theorem ddGet_attrsRefs (attrs : List Attribute) (er : List (Slot × List Str)) (slot : Slot) :
    ddGet (attrsRefs er attrs) slot =
      match slot with
      | none => ddGet er none
      | some n => ((attrs.filter (fun a => a.name == n)).map (·.value)).foldl
          (fun s p => (evPattern false p).foldl evRefs s) (ddGet er (some n)) := by
  induction attrs generalizing er with
  | nil => cases slot <;> simp [attrsRefs]
  | cons a r ih =>
    simp only [attrsRefs, List.foldl_cons] at ih ⊢
    rw [ih]
    cases slot with
    | none => simp [ddGet_dictSet]
    | some n =>
      simp only [ddGet_dictSet]
      by_cases hn : (a.name == n) = true
      · have : a.name = n := by simpa using hn
        subst this
        simp
      · have hne : ¬ a.name = n := by simpa using hn
        simp [hn]

theorem mem_foldl_patterns_evRefs (ps : List Pattern) (s : List Str) (r : Str) :
    r ∈ ps.foldl (fun s p => (evPattern false p).foldl evRefs s) s ↔
      r ∈ s ∨ r ∈ (ps.flatMap (fun p => (evPattern false p).filterMap Ev.refKey)).map (·.1) := by
  induction ps generalizing s with
  | nil => simp
  | cons p rest ih =>
    simp only [List.foldl_cons, ih, mem_foldl_evRefs, List.flatMap_cons, List.map_append, List.mem_append]
    constructor
    · rintro ((h | h) | h)
      · exact Or.inl h
      · exact Or.inr (Or.inl h)
      · exact Or.inr (Or.inr h)
    · rintro (h | h | h)
      · exact Or.inl (Or.inl h)
      · exact Or.inl (Or.inr h)
      · exact Or.inr h

theorem l10nVisitMessage_entryRefs (kp : Option (List Str)) (ref : RefState) (m : Message) :
    (l10nVisitMessage kp ref m).entryRefs =
      attrsRefs (match m.value with
        | some p => dictSet [(none, [])] none ((evPattern false p).foldl evRefs [])
        | none => [(none, [])]) m.attributes := by
  unfold l10nVisitMessage
  cases hv : m.value with
  | none =>
    simp only [l10nInit]
    exact (foldl_l10nVisitAttribute kp m.attributes _).2.2.2.1
  | some p =>
    simp only [l10nInit, l10nVisitPattern_eq]
    rw [(foldl_l10nVisitAttribute kp m.attributes _).2.2.2.1]
    simp [ddGet, dictGet?]

theorem l10nVisitMessage_refEntryRefs (kp : Option (List Str)) (ref : RefState) (m : Message) :
    ∃ slots, (l10nVisitMessage kp ref m).refEntryRefs = touch ref.entryRefs slots := by
  unfold l10nVisitMessage
  cases hv : m.value with
  | none =>
    simp only [l10nInit]
    exact ⟨_, (foldl_l10nVisitAttribute kp m.attributes _).2.2.2.2⟩
  | some p =>
    simp only [l10nInit, l10nVisitPattern_eq]
    rw [(foldl_l10nVisitAttribute kp m.attributes _).2.2.2.2]
    exact ⟨none :: m.attributes.map (fun a => some a.name), by simp [touch]⟩

/-- the l10n visitor's set of a slot -/
def l10nSlotSet (kp : Option (List Str)) (ref : RefState) (m : Message) (slot : Slot) : List Str :=
  ddGet (l10nVisitMessage kp ref m).entryRefs slot

theorem mem_l10nSlotSet (kp : Option (List Str)) (ref : RefState) (m : Message) (slot : Slot) (r : Str) :
    r ∈ l10nSlotSet kp ref m slot ↔ r ∈ slotRefNames m.value m.attributes slot := by
  unfold l10nSlotSet
  rw [l10nVisitMessage_entryRefs, ddGet_attrsRefs]
  cases slot with
  | none =>
    cases hv : m.value with
    | none => simp [slotRefNames, slotRefs, slotPatterns, ddGet, dictGet?]
    | some p =>
      simp only [ddGet_dictSet, BEq.rfl, if_true, mem_foldl_evRefs]
      simp [slotRefNames, slotRefs, slotPatterns]
  | some n =>
    have h0 : ddGet (match m.value with
        | some p => dictSet [(none, [])] none ((evPattern false p).foldl evRefs [])
        | none => [(none, [])]) (some n) = ([] : List Str) := by
      cases m.value <;> simp [ddGet, dictGet?, dictSet]
    simp only
    rw [h0, mem_foldl_patterns_evRefs]
    simp [slotRefNames, slotRefs, slotPatterns]

/-! ### the `Missing … reference` loop -/

theorem dictSet_self_cases {ν : Type} (d : List (Slot × List ν)) (s : Slot) :
    dictSet d s (ddGet d s) = d ∨ dictSet d s (ddGet d s) = d ++ [(s, [])] := by
  induction d with
  | nil => right; simp [dictSet, ddGet, dictGet?]
  | cons p r ih =>
    obtain ⟨k, v⟩ := p
    by_cases hk : (k == s) = true
    · left
      simp [dictSet, ddGet, dictGet?, hk]
    · have hd : ddGet ((k, v) :: r) s = ddGet r s := by simp [ddGet, dictGet?, hk]
      simp only [dictSet, hk, Bool.false_eq_true, if_false, hd]
      rcases ih with h | h
      · left; rw [h]
      · right; rw [h]; rfl

theorem missingRefs_append_empty (d : List (Slot × RefDict)) (s : Slot) (ler : List (Slot × List Str)) :
    missingRefs (d ++ [(s, [])]) ler = missingRefs d ler := by
  simp [missingRefs]

theorem missingRefs_touch (d : List (Slot × RefDict)) (slots : List Slot) (ler : List (Slot × List Str)) :
    missingRefs (touch d slots) ler = missingRefs d ler := by
  induction slots generalizing d with
  | nil => rfl
  | cons s r ih =>
    simp only [touch, List.foldl_cons] at ih ⊢
    rw [ih]
    rcases dictSet_self_cases d s with h | h
    · rw [h]
    · rw [h, missingRefs_append_empty]

/-- the text of a `Missing … reference` warning -/
def missingRefMsg (r : Str) (t : RefType) : Msg :=
  ⟨sevWarning, 0, match t with
    | .msg => fmt fluentMsg_missing_msg_ref [r]
    | .term => fmt fluentMsg_missing_term_ref [r]⟩

theorem mem_missingRefs (rer : List (Slot × RefDict)) (ler : List (Slot × List Str)) (m : Msg) :
    m ∈ missingRefs rer ler ↔
      ∃ slot refs r t, (slot, refs) ∈ rer ∧ (r, t) ∈ refs ∧ r ∉ ddGet ler slot ∧ m = missingRefMsg r t := by
  simp only [missingRefs, List.mem_flatMap, List.mem_map, List.mem_filter, missingRefMsg]
  constructor
  · rintro ⟨⟨slot, refs⟩, h1, ⟨r, t⟩, ⟨h2, h3⟩, rfl⟩
    exact ⟨slot, refs, r, t, h1, h2, by simpa using h3, rfl⟩
  · rintro ⟨slot, refs, r, t, h1, h2, h3, rfl⟩
    exact ⟨(slot, refs), h1, (r, t), ⟨h2, by simpa using h3⟩, rfl⟩

/-- keys of the reference's defaultdict are distinct -/
theorem nodup_keys_foldl_refVisitAttribute (attrs : List Attribute) (st : RefState)
    (h : (dictKeys st.entryRefs).Nodup) : (dictKeys (attrs.foldl refVisitAttribute st).entryRefs).Nodup := by
  induction attrs generalizing st with
  | nil => exact h
  | cons a r ih =>
    simp only [List.foldl_cons]
    apply ih
    have hER : (refVisitAttribute st a).entryRefs = dictSet st.entryRefs (some a.name)
        ((evPattern false a.value).foldl refStep (ddGet st.entryRefs (some a.name))) := by
      unfold refVisitAttribute
      simp only
      split <;> rfl
    rw [hER, dictKeys_dictSet]
    exact nodup_setAdd _ _ h

theorem nodup_keys_refVisitEntry (ref : Message) : (dictKeys (refVisitEntry (.message ref)).entryRefs).Nodup := by
  unfold refVisitEntry refVisit
  apply nodup_keys_foldl_refVisitAttribute
  cases ref.value with
  | none => simp [refInit, dictKeys]
  | some p =>
    simp only [refInit]
    rw [dictKeys_dictSet]
    exact nodup_setAdd _ _ (by simp [dictKeys])

theorem mem_entryRefs_iff (ref : Message) (slot : Slot) (refs : RefDict) (hne : refs ≠ []) :
    (slot, refs) ∈ (refVisitEntry (.message ref)).entryRefs ↔ refs = refSlotDict ref slot := by
  rw [mem_dict_iff _ (nodup_keys_refVisitEntry ref)]
  unfold refSlotDict ddGet
  cases h : dictGet? (refVisitEntry (Entry.message ref)).entryRefs slot with
  | none =>
    simp only
    constructor
    · intro h'; cases h'
    · intro h'; exact absurd h' hne
  | some v =>
    simp only [Option.some.injEq]
    exact ⟨fun h' => h'.symm, fun h' => h'.symm⟩

/-! ### structure of check_message / check_term -/

theorem checkMessage_structure (kp : Option (List Str)) (ref l10n : Message) :
    checkMessage kp (.message ref) l10n =
      checkDuplicateAttributes l10n.attributes
      ++ valueMsgs kp (rrOf (refVisitEntry (.message ref)).entryRefs) l10n.value
      ++ attrsMsgs kp (rrOf (refVisitEntry (.message ref)).entryRefs) (refVisitEntry (.message ref)).css l10n.attributes
      ++ valueErrs ref.value.isSome l10n.value
      ++ missingAttrErrs (dictKeys (attrsPos [] ref.attributes)) (dictKeys (attrsPos [] l10n.attributes))
      ++ obsoleteAttrErrs (dictKeys (attrsPos [] ref.attributes)) (attrsPos [] l10n.attributes)
      ++ missingRefs (refVisitEntry (.message ref)).entryRefs
          (l10nVisitMessage kp (refVisitEntry (.message ref)) l10n).entryRefs := by
  unfold checkMessage
  simp only
  obtain ⟨slots, hs⟩ := l10nVisitMessage_refEntryRefs kp (refVisitEntry (.message ref)) l10n
  rw [hs, missingRefs_touch, l10nVisitMessage_messages, refVisitEntry_message_hasValue, refVisitEntry_message_attrPos]

theorem nodup_keys_foldl_refStep (evs : List Ev) (d : RefDict) (h : (dictKeys d).Nodup) :
    (dictKeys (evs.foldl refStep d)).Nodup := by
  induction evs generalizing d with
  | nil => exact h
  | cons e r ih =>
    simp only [List.foldl_cons]
    apply ih
    unfold refStep
    split
    · rw [dictKeys_dictSet]; exact nodup_setAdd _ _ h
    · exact h

theorem nodup_keys_refSlotDict (ref : Message) (slot : Slot) : (dictKeys (refSlotDict ref slot)).Nodup := by
  rw [refSlotDict_eq]
  generalize slotPatterns ref.value ref.attributes slot = ps
  have : ∀ d : RefDict, (dictKeys d).Nodup →
      (dictKeys (ps.foldl (fun d p => (evPattern false p).foldl refStep d) d)).Nodup := by
    induction ps with
    | nil => intro d h; exact h
    | cons p r ih => intro d h; exact ih _ (nodup_keys_foldl_refStep _ _ h)
  exact this [] (by simp [dictKeys])

/-- what the TermVisitor appends when it visits a node -/
def termMsgs (kp : Option (List Str)) (e : Ev) : List Msg :=
  match e with
  | .select keys => checkVariants kp keys
  | _ => []

theorem foldl_termStep (kp : Option (List Str)) (evs : List Ev) (msgs : List Msg) :
    evs.foldl (termStep kp) msgs = msgs ++ evs.flatMap (termMsgs kp) := by
  induction evs generalizing msgs with
  | nil => simp
  | cons e r ih =>
    simp only [List.foldl_cons, List.flatMap_cons, ih]
    cases e <;> simp [termStep, termMsgs]

theorem checkTerm_structure (kp : Option (List Str)) (t : Term) :
    checkTerm kp t = checkDuplicateAttributes t.attributes
      ++ ((t.value :: t.attributes.map (·.value)).flatMap (evPattern true)).flatMap (termMsgs kp) := by
  unfold checkTerm
  simp only [foldl_termStep]
  have : ∀ (as : List Attribute) (m : List Msg),
      as.foldl (fun msgs a => msgs ++ (evPattern true a.value).flatMap (termMsgs kp)) m =
        m ++ ((as.map (·.value)).flatMap (evPattern true)).flatMap (termMsgs kp) := by
    intro as
    induction as with
    | nil => intro m; simp
    | cons a r ih => intro m; simp [ih, List.append_assoc]
  simp [this, List.append_assoc]

end Ftl

/-
Helper lemmas for C15, part 3: the left fold of `merge_two` over the versions.  Core Lean only.
-/
import CLModel.Proofs.C15Merge
namespace Merge
open AR

theorem versionDict_wf (i : Nat) (es : List Ent) : WF (versionDict i es) := parseResource_wf _

theorem versionDict_mem_keys (i : Nat) (es : List Ent) (k : Key) :
    k ∈ keysOf (versionDict i es) ↔ k ∈ (pairs (stamp i es) []).map (·.1) := parseResource_mem_keys _ k

/-- the dicts were parsed as versions j, j+1, … -/
def Stamped : Nat → List Dict → Prop
  | _, [] => True
  | j, d :: ds => WF d ∧ VerEq j d ∧ Stamped (j + 1) ds

theorem stamped_zipIdx (rs : List (List Ent)) (j : Nat) :
    Stamped j ((rs.zipIdx j).map (fun p => versionDict p.2 p.1)) := by
  induction rs generalizing j with
  | nil => trivial
  | cons es rs ih =>
    rw [List.zipIdx_cons, List.map_cons]
    exact ⟨parseResource_wf _, parseResource_verEq j es, ih (j + 1)⟩

theorem stamped_versionDicts (rs : List (List Ent)) : Stamped 0 (versionDicts rs) := stamped_zipIdx rs 0

theorem mergeResources_eq (rs : List (List Ent)) :
    mergeResources rs = match versionDicts rs with
      | [] => none
      | d :: ds => some (ds.foldl mergeTwo d) := rfl

theorem stamped_wf (j : Nat) (ds : List Dict) (h : Stamped j ds) : ∀ d ∈ ds, WF d := by
  induction ds generalizing j with
  | nil => simp
  | cons d ds ih =>
    intro d' hd'
    rw [List.mem_cons] at hd'
    rcases hd' with rfl | hd'
    · exact h.1
    · exact ih (j + 1) h.2.2 d' hd'

theorem verEq_lt (j : Nat) (d : Dict) (h : VerEq j d) : VerLt (j + 1) d := by
  intro p hp hw
  have := h p hp hw
  omega

/-- invariants of the fold -/
theorem fold_wf (ds : List Dict) (j : Nat) (acc : Dict) (hacc : WF acc) (hlt : VerLt j acc)
    (hs : Stamped j ds) : WF (ds.foldl mergeTwo acc) := by
  induction ds generalizing j acc with
  | nil => exact hacc
  | cons d ds ih =>
    rw [List.foldl_cons]
    exact ih (j + 1) _ (mergeTwo_wf acc d hacc hs.1) (mergeTwo_verLt j acc d hacc hs.1 hlt hs.2.1) hs.2.2

/-- key order of the merge on the entries that are not Whitespace -/
theorem fold_nwKeys (ds : List Dict) (j : Nat) (acc : Dict) (hacc : WF acc) (hlt : VerLt j acc)
    (hs : Stamped j ds) :
    nwKeys (ds.foldl mergeTwo acc) = ds.foldl (fun l d => specKeys l (nwKeys d)) (nwKeys acc) := by
  induction ds generalizing j acc with
  | nil => rfl
  | cons d ds ih =>
    rw [List.foldl_cons, List.foldl_cons,
      ih (j + 1) _ (mergeTwo_wf acc d hacc hs.1) (mergeTwo_verLt j acc d hacc hs.1 hlt hs.2.1) hs.2.2,
      mergeTwo_nwKeys acc d hacc hs.1 (verDisj j acc d hacc hs.1 hlt hs.2.1)]

/-- the entry under a key that is not a Whitespace object: first dict that has the key -/
theorem fold_dget (ds : List Dict) (j : Nat) (acc : Dict) (hacc : WF acc) (hlt : VerLt j acc)
    (hs : Stamped j ds) (k : Key) (hk : k.isObj = false) :
    dget (ds.foldl mergeTwo acc) k = (acc :: ds).findSome? (fun d => dget d k) := by
  induction ds generalizing j acc with
  | nil =>
    simp only [List.foldl_nil, List.findSome?_cons, List.findSome?_nil]
    cases dget acc k <;> rfl
  | cons d ds ih =>
    rw [List.foldl_cons,
      ih (j + 1) _ (mergeTwo_wf acc d hacc hs.1) (mergeTwo_verLt j acc d hacc hs.1 hlt hs.2.1) hs.2.2]
    simp only [List.findSome?_cons]
    rw [mergeTwo_dget acc d hacc hs.1 k hk]
    unfold getNewerEntity
    cases dget acc k with
    | some e => rfl
    | none => cases dget d k <;> rfl

theorem nwKeys_nodup (d : Dict) (hd : WF d) : (nwKeys d).Nodup := by
  rw [nwKeys_eq_filter d hd]
  exact hd.nodup.filter _

/-- membership in the folded closed form -/
theorem foldSpec_mem (ls : List (List Key)) (l : List Key) (hl : l.Nodup) (hls : ∀ r ∈ ls, r.Nodup) (k : Key) :
    (ls.foldl (fun l r => specKeys l r) l).Nodup ∧
    (k ∈ ls.foldl (fun l r => specKeys l r) l ↔ k ∈ l ∨ ∃ r ∈ ls, k ∈ r) := by
  induction ls generalizing l with
  | nil => simp [hl]
  | cons r ls ih =>
    have hr := hls r (by simp)
    have := ih (specKeys l r) (specKeys_nodup l r hl hr) (fun r' hr' => hls r' (by simp [hr']))
    rw [List.foldl_cons]
    refine ⟨this.1, ?_⟩
    rw [this.2, specKeys_mem l r hl hr]
    constructor
    · rintro ((h | h) | ⟨r', hr', h⟩)
      · exact .inl h
      · exact .inr ⟨r, by simp, h⟩
      · exact .inr ⟨r', by simp [hr'], h⟩
    · rintro (h | ⟨r', hr', h⟩)
      · exact .inl (.inl h)
      · rw [List.mem_cons] at hr'
        rcases hr' with rfl | hr'
        · exact .inl (.inr h)
        · exact .inr ⟨r', hr', h⟩

/-- the first sequence keeps its relative order through the folded closed form -/
theorem foldSpec_left (ls : List (List Key)) (l : List Key) :
    (ls.foldl (fun l r => specKeys l r) l).filter (fun k => l.contains k) = l := by
  induction ls generalizing l with
  | nil =>
    simp only [List.foldl_nil]
    rw [List.filter_eq_self]
    intro a ha; simpa using ha
  | cons r ls ih =>
    rw [List.foldl_cons]
    have h1 := ih (specKeys l r)
    have h2 := specKeys_left l r
    have hsub : ∀ k, l.contains k = true → (specKeys l r).contains k = true := by
      intro k hk
      have : k ∈ (specKeys l r).filter (fun k => l.contains k) := by
        rw [h2]; simpa using hk
      have := (List.mem_filter.1 this).1
      simpa using this
    calc (ls.foldl (fun l r => specKeys l r) (specKeys l r)).filter (fun k => l.contains k)
        = ((ls.foldl (fun l r => specKeys l r) (specKeys l r)).filter
            (fun k => (specKeys l r).contains k)).filter (fun k => l.contains k) := by
          rw [List.filter_filter]
          apply List.filter_congr
          intro k _
          cases hk : l.contains k
          · simp
          · have := hsub k hk
            simp only [List.contains_iff_mem] at this
            simp [this]
      _ = l := by rw [h1, h2]

theorem foldl_map_nwKeys (ds : List Dict) (l : List Key) :
    ds.foldl (fun l d => specKeys l (nwKeys d)) l = (ds.map nwKeys).foldl (fun l r => specKeys l r) l := by
  induction ds generalizing l with
  | nil => rfl
  | cons d ds ih => simp only [List.foldl_cons, List.map_cons, ih]

theorem mem_versionDicts (rs : List (List Ent)) (d : Dict) :
    d ∈ versionDicts rs ↔ ∃ i es, rs[i]? = some es ∧ d = versionDict i es := by
  simp only [versionDicts, List.mem_map]
  constructor
  · rintro ⟨p, hp, rfl⟩
    obtain ⟨es, i⟩ := p
    rw [List.mem_zipIdx_iff_getElem?] at hp
    exact ⟨i, es, hp, rfl⟩
  · rintro ⟨i, es, h, rfl⟩
    exact ⟨(es, i), by rw [List.mem_zipIdx_iff_getElem?]; exact h, rfl⟩

end Merge

/-
Helper lemmas for C19, round 4: one `lint()` run over a sequence of files (Lint/Run.lean).  Core Lean only.
-/
import CLModel.Lint.Run
import CLModel.Proofs.C19
namespace C19Run
open Lint

/-- one step of `lint`, phrased with what the file contributes -/
theorem lint_cons (f : FileIn) (rest : List FileIn) :
    lint (f :: rest) =
      (match fileResults f with
       | .error x => .error x
       | .ok a =>
         match lint rest with
         | .error x => .error x
         | .ok b => .ok (a ++ b)) := by
  unfold fileResults
  by_cases h : hasParser f.path = true
  · simp only [lint, h, Bool.not_true, Bool.false_eq_true, if_false]
    cases lintFile f <;> rfl
  · have h' : hasParser f.path = false := by simpa using h
    simp only [lint, h', Bool.not_false, if_true]
    cases lint rest <;> rfl

/-- `lint` over a concatenation of file lists -/
theorem lint_append (a b : List FileIn) :
    lint (a ++ b) =
      (match lint a with
       | .error x => .error x
       | .ok ra =>
         match lint b with
         | .error x => .error x
         | .ok rb => .ok (ra ++ rb)) := by
  induction a with
  | nil =>
    simp only [List.nil_append, lint]
    cases lint b <;> simp
  | cons f a ih =>
    rw [List.cons_append, lint_cons, lint_cons, ih]
    cases fileResults f with
    | error x => rfl
    | ok x =>
      cases lint a with
      | error y => rfl
      | ok y =>
        cases lint b with
        | error z => rfl
        | ok z => simp

/-- `lint` = concatenation, in list order, of the per-file results; it raises iff one file raises -/
theorem lint_spec (files : List FileIn) (rs : List PResult) :
    lint files = .ok rs ↔
      ∃ rss, All2 (fun f r => fileResults f = .ok r) files rss ∧ rs = rss.flatten := by
  induction files generalizing rs with
  | nil =>
    simp only [lint]
    constructor
    · intro h; cases h; exact ⟨[], trivial, rfl⟩
    · rintro ⟨rss, h, rfl⟩
      cases rss with
      | nil => rfl
      | cons _ _ => exact h.elim
  | cons f files ih =>
    rw [lint_cons]
    constructor
    · intro h
      cases hf : fileResults f with
      | error x => rw [hf] at h; cases h
      | ok a =>
        rw [hf] at h
        cases hr : lint files with
        | error x => rw [hr] at h; cases h
        | ok b =>
          rw [hr] at h
          cases h
          obtain ⟨rss, hrss, rfl⟩ := (ih b).1 hr
          exact ⟨a :: rss, ⟨hf, hrss⟩, by simp⟩
    · rintro ⟨rss, h, rfl⟩
      cases rss with
      | nil => exact h.elim
      | cons a rss =>
        rw [h.1]
        simp only
        rw [(ih _).2 ⟨_, h.2, rfl⟩]
        simp

/-- every result a file contributes carries the file's path -/
theorem fileResults_path {f : FileIn} {a : List PResult} (h : fileResults f = .ok a) : ∀ p ∈ a, p.1 = f.path := by
  unfold fileResults at h
  split at h
  · cases h; intro p hp; cases hp
  · split at h
    · cases h
    · cases h
      intro p hp
      obtain ⟨r, _, rfl⟩ := List.mem_map.1 hp
      rfl

/-- the paths of the results of a run are paths of listed files -/
theorem lint_paths {files : List FileIn} {rs : List PResult} (h : lint files = .ok rs) :
    ∀ p ∈ rs, p.1 ∈ files.map (·.path) := by
  induction files generalizing rs with
  | nil => simp only [lint] at h; cases h; intro p hp; cases hp
  | cons f files ih =>
    rw [lint_cons] at h
    cases hf : fileResults f with
    | error x => rw [hf] at h; cases h
    | ok a =>
      rw [hf] at h
      cases hr : lint files with
      | error x => rw [hr] at h; cases h
      | ok b =>
        rw [hr] at h
        cases h
        intro p hp
        rcases List.mem_append.1 hp with hp | hp
        · simp [fileResults_path hf p hp]
        · have := ih hr p hp
          simp only [List.map_cons, List.mem_cons]
          exact Or.inr this

theorem filter_eq_nil_of_forall {α : Type} (q : α → Bool) (l : List α) (h : ∀ x ∈ l, q x = false) : l.filter q = [] := by
  induction l with
  | nil => rfl
  | cons x xs ih =>
    have hx := h x List.mem_cons_self
    simp only [List.filter_cons, hx]
    exact ih (fun y hy => h y (List.mem_cons_of_mem _ hy))

theorem filter_eq_self_of_forall {α : Type} (q : α → Bool) (l : List α) (h : ∀ x ∈ l, q x = true) : l.filter q = l := by
  induction l with
  | nil => rfl
  | cons x xs ih =>
    have hx := h x List.mem_cons_self
    simp only [List.filter_cons, hx, if_true]
    rw [ih (fun y hy => h y (List.mem_cons_of_mem _ hy))]

/-- what a run reports for one path is what the file with that path yields on its own -/
theorem lint_filter_path {files : List FileIn} {rs : List PResult} (h : lint files = .ok rs)
    (hn : (files.map (·.path)).Nodup) {f : FileIn} (hf : f ∈ files) :
    fileResults f = .ok (rs.filter (fun p => p.1 == f.path)) := by
  induction files generalizing rs with
  | nil => cases hf
  | cons g files ih =>
    rw [lint_cons] at h
    cases hg : fileResults g with
    | error x => rw [hg] at h; cases h
    | ok a =>
      rw [hg] at h
      cases hr : lint files with
      | error x => rw [hr] at h; cases h
      | ok b =>
        rw [hr] at h
        cases h
        rw [List.map_cons, List.nodup_cons] at hn
        rw [List.filter_append]
        rcases List.mem_cons.1 hf with rfl | hf'
        · have h1 : a.filter (fun p => p.1 == f.path) = a :=
            filter_eq_self_of_forall _ _ (fun p hp => by simp [fileResults_path hg p hp])
          have h2 : b.filter (fun p => p.1 == f.path) = [] :=
            filter_eq_nil_of_forall _ _ (fun p hp => by
              have hm := lint_paths hr p hp
              have : p.1 ≠ f.path := fun e => hn.1 (e ▸ hm)
              simpa using this)
          rw [h1, h2, List.append_nil, hg]
        · have hne : g.path ≠ f.path := fun e => hn.1 (e ▸ List.mem_map_of_mem hf')
          have h1 : a.filter (fun p => p.1 == f.path) = [] :=
            filter_eq_nil_of_forall _ _ (fun p hp => by
              have := fileResults_path hg p hp
              rw [this]
              simpa using hne)
          rw [h1, List.nil_append]
          exact ih hr hn.2 hf'

/-- a run succeeds iff every file does -/
theorem lint_ok_iff (files : List FileIn) :
    (∃ rs, lint files = .ok rs) ↔ ∀ f ∈ files, ∃ a, fileResults f = .ok a := by
  induction files with
  | nil => simp [lint]
  | cons g files ih =>
    rw [lint_cons]
    constructor
    · rintro ⟨rs, h⟩
      cases hg : fileResults g with
      | error x => rw [hg] at h; cases h
      | ok a =>
        rw [hg] at h
        cases hr : lint files with
        | error x => rw [hr] at h; cases h
        | ok b =>
          intro f hf
          rcases List.mem_cons.1 hf with rfl | hf'
          · exact ⟨a, hg⟩
          · exact (ih.1 ⟨b, hr⟩) f hf'
    · intro h
      obtain ⟨a, ha⟩ := h g List.mem_cons_self
      obtain ⟨b, hb⟩ := ih.2 (fun f hf => h f (List.mem_cons_of_mem _ hf))
      exact ⟨a ++ b, by rw [ha, hb]⟩

/-- permuting the file list permutes the results -/
theorem lint_perm {l₁ l₂ : List FileIn} (hp : l₁.Perm l₂) :
    ∀ rs, lint l₁ = .ok rs → ∃ rs', lint l₂ = .ok rs' ∧ rs.Perm rs' := by
  induction hp with
  | nil => intro rs h; exact ⟨rs, h, List.Perm.refl _⟩
  | cons x _ ih =>
    intro rs h
    rw [lint_cons] at h ⊢
    cases hx : fileResults x with
    | error e => rw [hx] at h; cases h
    | ok a =>
      rw [hx] at h
      simp only
      rename_i l₁' l₂' _
      cases hr : lint l₁' with
      | error e => rw [hr] at h; cases h
      | ok b =>
        rw [hr] at h
        cases h
        obtain ⟨b', hb', hperm⟩ := ih b hr
        rw [hb']
        exact ⟨a ++ b', rfl, List.Perm.append_left a hperm⟩
  | swap x y l =>
    intro rs h
    rw [lint_cons, lint_cons] at h
    rw [lint_cons, lint_cons]
    cases hy : fileResults y with
    | error e => rw [hy] at h; cases h
    | ok a =>
      rw [hy] at h
      cases hx : fileResults x with
      | error e => rw [hx] at h; cases h
      | ok b =>
        rw [hx] at h
        cases hl : lint l with
        | error e => rw [hl] at h; cases h
        | ok c =>
          rw [hl] at h
          cases h
          refine ⟨b ++ (a ++ c), rfl, ?_⟩
          rw [← List.append_assoc, ← List.append_assoc]
          exact List.Perm.append_right c List.perm_append_comm
  | trans _ _ ih₁ ih₂ =>
    intro rs h
    obtain ⟨rs', h', p'⟩ := ih₁ rs h
    obtain ⟨rs'', h'', p''⟩ := ih₂ rs' h'
    exact ⟨rs'', h'', p'.trans p''⟩

/-! ### the loop with its state -/

theorem lintStep_eq (st : RunState) (f : FileIn) :
    lintStep st f =
      (match fileResults f with
       | .error x => .error x
       | .ok a => .ok { results := st.results ++ a,
                        asked := if hasParser f.path then st.asked ++ [f.path] else st.asked }) := by
  unfold lintStep fileResults
  by_cases h : hasParser f.path = true
  · simp only [h, Bool.not_true, Bool.false_eq_true, if_false, if_true]
    cases lintFile f <;> rfl
  · have h' : hasParser f.path = false := by simpa using h
    simp [h']

/-- the state after the loop: the results of `lint` appended to the results so far, and the paths with a parser
    appended, in order, to the list of questions put to `get_reference_and_tests` -/
theorem lintLoop_spec (st : RunState) (files : List FileIn) :
    lintLoop st files =
      (match lint files with
       | .error x => .error x
       | .ok rs => .ok { results := st.results ++ rs,
                         asked := st.asked ++ (files.filter (fun f => hasParser f.path)).map (·.path) }) := by
  induction files generalizing st with
  | nil => simp [lintLoop, lint]
  | cons f files ih =>
    rw [lintLoop, lintStep_eq, lint_cons]
    cases hf : fileResults f with
    | error x => rfl
    | ok a =>
      simp only
      rw [ih]
      cases hr : lint files with
      | error x => rfl
      | ok b =>
        simp only [List.append_assoc, List.filter_cons]
        by_cases hp : hasParser f.path = true
        · simp [hp]
        · have hp' : hasParser f.path = false := by simpa using hp
          simp [hp']

end C19Run

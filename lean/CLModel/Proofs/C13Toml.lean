/-
C13 helper lemmas for the TOML route (Paths/TomlConfig.lean): dictionaries with text keys (`dict.update`), what
`TOMLParser.parse` returns (every object of the graph is what one file says) and what it raises.
-/
import CLModel.Paths.TomlConfig
namespace C13T
open TC PF

/-! ### dictionaries with text keys -/

theorem lookup_map_set {β} (k' : Text) (v : β) (k : Text) : ∀ (d : List (Text × β)),
    (d.map (fun p => if p.1 == k' then (k', v) else p)).lookup k =
      if k' = k then (if d.any (·.1 == k') then some v else none) else d.lookup k
  | [] => by simp
  | x :: xs => by
    have ih := lookup_map_set k' v k xs
    simp only [List.map_cons, List.any_cons]
    by_cases hx : x.1 = k'
    · simp only [hx, beq_self_eq_true, if_true, Bool.true_or, List.lookup_cons]
      by_cases hk : k' = k
      · subst hk; simp
      · have : (k == k') = false := by simpa using fun e => hk e.symm
        simp only [this, hk, if_false]
        rw [ih, if_neg hk]
        obtain ⟨a, b⟩ := x
        simp only at hx
        subst hx
        simp [List.lookup_cons, this]
    · have hx' : (x.1 == k') = false := by simpa using hx
      simp only [hx', Bool.false_or]
      obtain ⟨a, b⟩ := x
      simp only [Bool.false_eq_true, if_false, List.lookup_cons]
      simp only at hx
      by_cases hk : k' = k
      · subst hk
        have : (k' == a) = false := by simpa using fun e => hx e.symm
        simp only [this, if_true]
        rw [ih, if_pos rfl]
      · simp only [hk, if_false]
        cases hka : k == a with
        | true => rfl
        | false => simp only; rw [ih, if_neg hk]

theorem lookup_append_single {β} (k' : Text) (v : β) (k : Text) : ∀ (d : List (Text × β)),
    (d ++ [(k', v)]).lookup k = (d.lookup k).or (if k' = k then some v else none)
  | [] => by
    simp only [List.nil_append, List.lookup_cons, List.lookup_nil, Option.none_or]
    by_cases hk : k' = k
    · subst hk; simp
    · have : (k == k') = false := by simpa using fun e => hk e.symm
      simp [this, hk]
  | (a, b) :: xs => by
    simp only [List.cons_append, List.lookup_cons]
    cases hka : k == a with
    | true => simp
    | false => simp only; exact lookup_append_single k' v k xs

theorem lookup_none_of_not_any {β} {k : Text} : ∀ {d : List (Text × β)}, (d.any (·.1 == k)) = false → d.lookup k = none
  | [], _ => rfl
  | (a, b) :: xs, h => by
    simp only [List.any_cons, Bool.or_eq_false_iff] at h
    have : (k == a) = false := by
      have := h.1
      simp only [beq_eq_false_iff_ne, ne_eq] at this ⊢
      exact fun e => this e.symm
    simp only [List.lookup_cons, this]
    exact lookup_none_of_not_any h.2

theorem lookup_dset {β} (d : List (Text × β)) (k' : Text) (v : β) (k : Text) :
    (PM.dset d k' v).lookup k = if k' = k then some v else d.lookup k := by
  unfold PM.dset
  by_cases hany : (d.any (·.1 == k')) = true
  · rw [if_pos hany, lookup_map_set, hany]
    simp
  · rw [if_neg hany, lookup_append_single]
    have hany' : (d.any (·.1 == k')) = false := Bool.eq_false_iff.2 hany
    by_cases hk : k' = k
    · subst hk
      rw [lookup_none_of_not_any hany']
      simp
    · simp [hk]

theorem lookup_dupdate {β} : ∀ (o d : List (Text × β)) (k : Text),
    (PM.dupdate d o).lookup k = (o.reverse.lookup k).or (d.lookup k)
  | [], d, k => by simp [PM.dupdate]
  | x :: xs, d, k => by
    have ih := lookup_dupdate xs (PM.dset d x.1 x.2) k
    simp only [PM.dupdate, List.foldl_cons] at ih ⊢
    rw [ih, lookup_dset]
    obtain ⟨a, b⟩ := x
    simp only [List.reverse_cons]
    rw [lookup_append_single]
    cases hf : xs.reverse.lookup k with
    | some y => simp
    | none =>
      by_cases hk : a = k
      · simp [hk]
      · simp [hk]

/-! ### the parsed graph -/

theorem nodes_mk (p r e ps rs l ch ex) :
    (PC.mk p r e ps rs l ch ex).nodes = PC.mk p r e ps rs l ch ex :: (nodesL ch ++ nodesL ex) := by
  simp [PC.nodes]

theorem mem_nodesL {c : PC} : ∀ {l : List PC}, c ∈ nodesL l ↔ ∃ x ∈ l, c ∈ x.nodes
  | [] => by simp [nodesL]
  | y :: ys => by
    simp only [nodesL, List.mem_append, List.mem_cons, exists_eq_or_imp]
    rw [mem_nodesL (l := ys)]

theorem self_mem_nodes (c : PC) : c ∈ c.nodes := by
  obtain ⟨p, r, e, ps, rs, l, ch, ex⟩ := c
  rw [nodes_mk]; exact List.mem_cons_self

theorem addPath_ok {cwd : Text} {root : Option Text} {environ : Env} {d : PathDoc} {p : PathD}
    (h : addPath cwd root environ d = .ok p) : d.toPathD? = some p := by
  unfold addPath at h
  split at h
  · cases h
  · rename_i l hl
    split at h
    · cases h
    · split at h
      · cases h
      · simp only [Except.ok.injEq] at h
        subst h
        simp [PathDoc.toPathD?, hl]

theorem addPaths_ok {cwd : Text} {root : Option Text} {environ : Env} : ∀ {ds : List PathDoc} {ps : List PathD},
    addPaths cwd root environ ds = .ok ps → ds.map PathDoc.toPathD? = ps.map some
  | [], ps, h => by
    simp only [addPaths, Except.ok.injEq] at h
    subst h; rfl
  | d :: ds, ps, h => by
    unfold addPaths at h
    split at h
    · cases h
    · rename_i p hp
      cases hr : addPaths cwd root environ ds with
      | error e => rw [hr] at h; cases h
      | ok rest =>
        rw [hr] at h
        simp only [Except.map, Except.ok.injEq] at h
        subst h
        simp only [List.map_cons, addPath_ok hp, addPaths_ok hr]

theorem processChildren_ok_mem {parseOne : Text → Except TC.Err PC} {ig : Bool} {cwd : Text} {root : Option Text} {environ : Env}
    {refused : PC → Bool} : ∀ {cs : List ChildDoc} {l : List PC},
    processChildren parseOne ig cwd root environ refused cs = .ok l → ∀ c ∈ l, (∃ p, parseOne p = .ok c) ∧ refused c = false
  | [], l, h => by
    simp only [processChildren, Except.ok.injEq] at h
    subst h
    intro c hc; cases hc
  | d :: ds, l, h => by
    unfold processChildren at h
    split at h
    · cases h
    · split at h
      · cases h
      · rename_i p _
        split at h
        · split at h
          · cases h
          · exact processChildren_ok_mem h
        · cases h
        · rename_i child hchild
          split at h
          · cases h
          · rename_i href
            cases hr : processChildren parseOne ig cwd root environ refused ds with
            | error e => rw [hr] at h; cases h
            | ok rest =>
              rw [hr] at h
              simp only [Except.map, Except.ok.injEq] at h
              subst h
              intro c hc
              rcases List.mem_cons.1 hc with rfl | hc
              · exact ⟨⟨p, hchild⟩, by simpa using href⟩
              · exact processChildren_ok_mem hr c hc

def FromFile (w : World) (env : Env) (c : PC) : Prop :=
  ∃ p doc, c.path = some p ∧ w.load p = .ok doc ∧
    c.root = setRoot w.cwd (some p) doc.base ∧
    c.environ = processEnv doc.env env ∧
    (optL doc.paths).map PathDoc.toPathD? = c.paths.map some ∧
    addFilters w.cwd c.root c.environ (optL doc.filters) = .ok c.rules ∧
    c.locales = doc.locales

theorem parseF_ok {w : World} {env : Env} {ig : Bool} {f : Nat} {path : Text} {pc : PC}
    (h : parseF w env ig (f + 1) path = .ok pc) :
    ∃ doc paths rules children excludes,
      w.load path = .ok doc ∧
      pc = .mk (some path) (setRoot w.cwd (some path) doc.base)
              (processEnv doc.env env) paths rules doc.locales children excludes ∧
      addPaths w.cwd (setRoot w.cwd (some path) doc.base)
        (processEnv doc.env env) (optL doc.paths) = .ok paths ∧
      addFilters w.cwd (setRoot w.cwd (some path) doc.base)
        (processEnv doc.env env) (optL doc.filters) = .ok rules ∧
      processChildren (parseF w env ig f) ig w.cwd (setRoot w.cwd (some path) doc.base)
        (processEnv doc.env env) includeRefused (optL doc.includes) = .ok children ∧
      processChildren (parseF w env ig f) ig w.cwd (setRoot w.cwd (some path) doc.base)
        (processEnv doc.env env) excludeRefused (optL doc.excludes) = .ok excludes := by
  unfold parseF at h
  split at h
  · cases h
  · rename_i doc hdoc
    simp only at h
    split at h
    · cases h
    · rename_i paths hpaths
      split at h
      · cases h
      · rename_i rules hrules
        split at h
        · cases h
        · rename_i children hch
          split at h
          · cases h
          · rename_i excludes hex
            simp only [Except.ok.injEq] at h
            exact ⟨doc, paths, rules, children, excludes, hdoc, h.symm, hpaths, hrules, hch, hex⟩

theorem parseF_nodes {w : World} {env : Env} {ig : Bool} : ∀ (f : Nat) (path : Text) (pc : PC),
    parseF w env ig f path = .ok pc → ∀ c ∈ pc.nodes, FromFile w env c
  | 0, _, _, h => by simp [parseF] at h
  | f + 1, path, pc, h => by
    obtain ⟨doc, paths, rules, children, excludes, hdoc, rfl, hpaths, hrules, hch, hex⟩ := parseF_ok h
    intro c hc
    rw [nodes_mk] at hc
    rcases List.mem_cons.1 hc with rfl | hc
    · exact ⟨path, doc, rfl, hdoc, rfl, rfl, addPaths_ok hpaths, hrules, rfl⟩
    · rcases List.mem_append.1 hc with hc | hc
      · obtain ⟨x, hx, hcx⟩ := mem_nodesL.1 hc
        obtain ⟨⟨p, hp⟩, _⟩ := processChildren_ok_mem hch x hx
        exact parseF_nodes f p x hp c hcx
      · obtain ⟨x, hx, hcx⟩ := mem_nodesL.1 hc
        obtain ⟨⟨p, hp⟩, _⟩ := processChildren_ok_mem hex x hx
        exact parseF_nodes f p x hp c hcx

/-! ### what `parse` raises -/

theorem checkMatcher_error {cwd : Text} {root : Option Text} {environ : Env} {t : Text} {e : TC.Err}
    (h : checkMatcher cwd root environ t = .error e) : ∃ pe, e = .matcher pe := by
  unfold checkMatcher at h
  split at h
  · rename_i pe _; simp only [Except.error.injEq] at h; exact ⟨pe, h.symm⟩
  · cases h

theorem addPath_error {cwd : Text} {root : Option Text} {environ : Env} {d : PathDoc} {e : TC.Err}
    (h : addPath cwd root environ d = .error e) : e = .keyError (T "l10n") ∨ ∃ pe, e = .matcher pe := by
  unfold addPath at h
  split at h
  · simp only [Except.error.injEq] at h; exact Or.inl h.symm
  · split at h
    · rename_i e' he'
      simp only [Except.error.injEq] at h
      subst h
      exact Or.inr (checkMatcher_error he')
    · split at h
      · rename_i e' he'
        simp only [Except.error.injEq] at h
        subst h
        split at he'
        · exact Or.inr (checkMatcher_error he')
        · cases he'
      · cases h

theorem addPaths_error {cwd : Text} {root : Option Text} {environ : Env} {e : TC.Err} : ∀ {ds : List PathDoc},
    addPaths cwd root environ ds = .error e → e = .keyError (T "l10n") ∨ ∃ pe, e = .matcher pe
  | [], h => by simp [addPaths] at h
  | d :: ds, h => by
    unfold addPaths at h
    split at h
    · rename_i e' he'
      simp only [Except.error.injEq] at h
      subst h
      exact addPath_error he'
    · cases hr : addPaths cwd root environ ds with
      | error e' =>
        rw [hr] at h
        simp only [Except.map, Except.error.injEq] at h
        subst h
        exact addPaths_error hr
      | ok rest => rw [hr] at h; simp [Except.map] at h

theorem compilePaths_error {cwd : Text} {root : Option Text} {environ : Env} {action : Text} {key : Option OneOrMany}
    {e : TC.Err} : ∀ {ps : List Text}, compilePaths cwd root environ action key ps = .error e → ∃ pe, e = .matcher pe
  | [], h => by simp [compilePaths] at h
  | p :: ps, h => by
    unfold compilePaths at h
    split at h
    · rename_i e' he'
      simp only [Except.error.injEq] at h
      subst h
      exact checkMatcher_error he'
    · cases hr : compilePaths cwd root environ action key ps with
      | error e' =>
        rw [hr] at h
        simp only [Except.map, Except.error.injEq] at h
        subst h
        exact compilePaths_error hr
      | ok rest => rw [hr] at h; simp [Except.map] at h

theorem addFilter_error {cwd : Text} {root : Option Text} {environ : Env} {d : FilterDoc} {e : TC.Err}
    (h : addFilter cwd root environ d = .error e) :
    e = .keyError (T "path") ∨ e = .keyError (T "action") ∨ ∃ pe, e = .matcher pe := by
  unfold addFilter at h
  split at h
  · simp only [Except.error.injEq] at h; exact Or.inl h.symm
  · split at h
    · simp only [Except.error.injEq] at h; exact Or.inr (Or.inl h.symm)
    · exact Or.inr (Or.inr (compilePaths_error h))

theorem addFilters_error {cwd : Text} {root : Option Text} {environ : Env} {e : TC.Err} : ∀ {ds : List FilterDoc},
    addFilters cwd root environ ds = .error e →
      e = .keyError (T "path") ∨ e = .keyError (T "action") ∨ ∃ pe, e = .matcher pe
  | [], h => by simp [addFilters] at h
  | d :: ds, h => by
    unfold addFilters at h
    split at h
    · rename_i e' he'
      simp only [Except.error.injEq] at h
      subst h
      exact addFilter_error he'
    · cases hr : addFilters cwd root environ ds with
      | error e' =>
        rw [hr] at h
        simp only [Except.map, Except.error.injEq] at h
        subst h
        exact addFilters_error hr
      | ok rest => rw [hr] at h; simp [Except.map] at h

theorem childPath_error {cwd : Text} {root : Option Text} {environ : Env} {t : Text} {e : TC.Err}
    (h : childPath cwd root environ t = .error e) : ∃ pe, e = .matcher pe := by
  unfold childPath at h
  split at h
  · rename_i pe _; simp only [Except.error.injEq] at h; exact ⟨pe, h.symm⟩
  · split at h
    · rename_i pe _; simp only [Except.error.injEq] at h; exact ⟨pe, h.symm⟩
    · cases h

/-- an exception of `_processChild`: a missing `path` key, `expand(...)`, `ExcludeError`, or what the recursive `parse`
    raised — a `ConfigNotFound` of the child only when `ignore_missing_includes` is off -/
theorem processChildren_error {parseOne : Text → Except TC.Err PC} {ig : Bool} {cwd : Text} {root : Option Text}
    {environ : Env} {refused : PC → Bool} {e : TC.Err} : ∀ {cs : List ChildDoc},
    processChildren parseOne ig cwd root environ refused cs = .error e →
      e = .keyError (T "path") ∨ (∃ pe, e = .matcher pe) ∨ e = .excludeError ∨
      (∃ p, parseOne p = .error e ∧ ∀ q, e = .configNotFound q → ig = false)
  | [], h => by simp [processChildren] at h
  | d :: ds, h => by
    unfold processChildren at h
    split at h
    · simp only [Except.error.injEq] at h; exact Or.inl h.symm
    · split at h
      · rename_i e' he'
        simp only [Except.error.injEq] at h
        subst h
        exact Or.inr (Or.inl (childPath_error he'))
      · rename_i p _
        split at h
        · rename_i q hq
          split at h
          · rename_i hig
            simp only [Except.error.injEq] at h
            subst h
            exact Or.inr (Or.inr (Or.inr ⟨p, hq, fun _ _ => by simpa using hig⟩))
          · exact processChildren_error h
        · rename_i e' hne he'
          simp only [Except.error.injEq] at h
          subst h
          refine Or.inr (Or.inr (Or.inr ⟨p, he', fun q hq => ?_⟩))
          exact absurd hq (hne q)
        · split at h
          · simp only [Except.error.injEq] at h; exact Or.inr (Or.inr (Or.inl h.symm))
          · cases hr : processChildren parseOne ig cwd root environ refused ds with
            | error e' =>
              rw [hr] at h
              simp only [Except.map, Except.error.injEq] at h
              subst h
              exact processChildren_error hr
            | ok rest => rw [hr] at h; simp [Except.map] at h

theorem load_error {w : World} {p : Text} {e : TC.Err} (h : w.load p = .error e) :
    (e = .configNotFound p ∧ w.files.lookup (abspath w.cwd p) = none) ∨
    (e = .illTyped ∧ ∃ tv, w.files.lookup (abspath w.cwd p) = some tv ∧ decode tv = none) := by
  unfold World.load at h
  split at h
  · rename_i hl
    simp only [Except.error.injEq] at h
    exact Or.inl ⟨h.symm, hl⟩
  · rename_i tv hl
    split at h
    · rename_i hd
      simp only [Except.error.injEq] at h
      exact Or.inr ⟨h.symm, tv, hl, hd⟩
    · cases h

/-- why `TOMLParser.parse(top, …)` can raise -/
def ErrCause (w : World) (ig : Bool) (top : Text) : TC.Err → Prop
  | .configNotFound q => w.files.lookup (abspath w.cwd q) = none ∧ (ig = true → q = top)
  | .keyError k => k = T "l10n" ∨ k = T "path" ∨ k = T "action"
  | .illTyped => ∃ q tv, w.files.lookup q = some tv ∧ decode tv = none
  | _ => True

theorem errCause_child {w : World} {ig : Bool} {p top : Text} {e : TC.Err} (h : ErrCause w ig p e)
    (hig : ∀ q, e = .configNotFound q → ig = false) : ErrCause w ig top e := by
  cases e with
  | configNotFound q =>
    refine ⟨h.1, fun ht => ?_⟩
    have := hig q rfl
    rw [ht] at this
    cases this
  | keyError k => exact h
  | illTyped => exact h
  | excludeError => trivial
  | recursion => trivial
  | matcher pe => trivial

theorem parseF_error {w : World} {env : Env} {ig : Bool} : ∀ (f : Nat) (path : Text) (e : TC.Err),
    parseF w env ig f path = .error e → ErrCause w ig path e
  | 0, _, e, h => by
    simp only [parseF, Except.error.injEq] at h
    subst h; trivial
  | f + 1, path, e, h => by
    have hch : ∀ {root environ refused cs},
        processChildren (parseF w env ig f) ig w.cwd root environ refused cs = .error e → ErrCause w ig path e := by
      intro root environ refused cs hc
      rcases processChildren_error hc with rfl | ⟨pe, rfl⟩ | rfl | ⟨p, hp, hig⟩
      · exact Or.inr (Or.inl rfl)
      · trivial
      · trivial
      · exact errCause_child (parseF_error f p e hp) hig
    unfold parseF at h
    split at h
    · rename_i e' he'
      simp only [Except.error.injEq] at h
      subst h
      rcases load_error he' with ⟨rfl, hl⟩ | ⟨rfl, tv, hl, hd⟩
      · exact ⟨hl, fun _ => rfl⟩
      · exact ⟨_, tv, hl, hd⟩
    · simp only at h
      split at h
      · rename_i e' he'
        simp only [Except.error.injEq] at h
        subst h
        rcases addPaths_error he' with rfl | ⟨pe, rfl⟩
        · exact Or.inl rfl
        · trivial
      · split at h
        · rename_i e' he'
          simp only [Except.error.injEq] at h
          subst h
          rcases addFilters_error he' with rfl | rfl | ⟨pe, rfl⟩
          · exact Or.inr (Or.inl rfl)
          · exact Or.inr (Or.inr rfl)
          · trivial
        · split at h
          · rename_i e' he'
            simp only [Except.error.injEq] at h
            subst h
            exact hch he'
          · split at h
            · rename_i e' he'
              simp only [Except.error.injEq] at h
              subst h
              exact hch he'
            · cases h

/-! ### the fuel -/

theorem processChildren_congr {g h : Text → Except TC.Err PC} {ig : Bool} {cwd : Text} {root : Option Text}
    {environ : Env} {refused : PC → Bool}
    (hgh : ∀ p r, g p = r → r ≠ .error .recursion → h p = r) : ∀ (cs : List ChildDoc) (r : Except TC.Err (List PC)),
    processChildren g ig cwd root environ refused cs = r → r ≠ .error .recursion →
    processChildren h ig cwd root environ refused cs = r
  | [], r, hr, _ => by simpa [processChildren] using hr
  | d :: ds, r, hr, hne => by
    unfold processChildren at hr ⊢
    cases hp : d.path with
    | none => simpa [hp] using hr
    | some text =>
      simp only [hp] at hr ⊢
      cases hc : childPath cwd root environ text with
      | error e => simpa [hc] using hr
      | ok p =>
        simp only [hc] at hr ⊢
        cases hg : g p with
        | error e =>
          cases e with
          | recursion =>
            rw [hg] at hr
            simp only at hr
            exact absurd hr.symm hne
          | configNotFound q =>
            rw [hgh p _ hg (by simp)]
            rw [hg] at hr
            simp only at hr ⊢
            by_cases hig : (!ig) = true
            · simpa [hig] using hr
            · simp only [hig] at hr ⊢
              exact processChildren_congr hgh ds r hr hne
          | keyError k => rw [hgh p _ hg (by simp)]; rw [hg] at hr; exact hr
          | excludeError => rw [hgh p _ hg (by simp)]; rw [hg] at hr; exact hr
          | matcher pe => rw [hgh p _ hg (by simp)]; rw [hg] at hr; exact hr
          | illTyped => rw [hgh p _ hg (by simp)]; rw [hg] at hr; exact hr
        | ok child =>
          rw [hgh p _ hg (by simp)]
          rw [hg] at hr
          simp only at hr ⊢
          by_cases href : refused child = true
          · simpa [href] using hr
          · simp only [href] at hr ⊢
            cases hrest : processChildren g ig cwd root environ refused ds with
            | error e =>
              rw [hrest] at hr
              have : e ≠ .recursion := by
                rintro rfl
                simp only [Except.map] at hr
                exact hne hr.symm
              rw [processChildren_congr hgh ds _ hrest (by simpa using this)]
              exact hr
            | ok rest =>
              rw [hrest] at hr
              rw [processChildren_congr hgh ds _ hrest (by simp)]
              exact hr

/-- the bound on the nesting of includes plays no role once it suffices: a result other than the model's
    `RecursionError` is the same for every larger bound -/
theorem parseF_mono {w : World} {env : Env} {ig : Bool} : ∀ (f : Nat) (path : Text) (r : Except TC.Err PC),
    parseF w env ig f path = r → r ≠ .error .recursion → parseF w env ig (f + 1) path = r
  | 0, _, r, h, hne => by
    simp only [parseF] at h
    exact absurd h.symm hne
  | f + 1, path, r, h, hne => by
    have ih : ∀ p r, parseF w env ig f p = r → r ≠ .error .recursion → parseF w env ig (f + 1) p = r :=
      fun p r => parseF_mono f p r
    unfold parseF at h ⊢
    cases hl : w.load path with
    | error e => simpa [hl] using h
    | ok doc =>
      simp only [hl] at h ⊢
      cases hp : addPaths w.cwd (setRoot w.cwd (some path) doc.base)
          (processEnv doc.env env) (optL doc.paths) with
      | error e => simpa [hp] using h
      | ok paths =>
        simp only [hp] at h ⊢
        cases hf : addFilters w.cwd (setRoot w.cwd (some path) doc.base)
            (processEnv doc.env env) (optL doc.filters) with
        | error e => simpa [hf] using h
        | ok rules =>
          simp only [hf] at h ⊢
          cases hi : processChildren (parseF w env ig f) ig w.cwd
              (setRoot w.cwd (some path) doc.base)
              (processEnv doc.env env) includeRefused (optL doc.includes) with
          | error e =>
            rw [hi] at h
            simp only at h
            have : e ≠ .recursion := by rintro rfl; exact hne h.symm
            rw [processChildren_congr ih _ _ hi (by simpa using this)]
            exact h
          | ok children =>
            rw [hi] at h
            rw [processChildren_congr ih _ _ hi (by simp)]
            simp only at h ⊢
            cases hx : processChildren (parseF w env ig f) ig w.cwd
                (setRoot w.cwd (some path) doc.base)
                (processEnv doc.env env) excludeRefused (optL doc.excludes) with
            | error e =>
              rw [hx] at h
              simp only at h
              have : e ≠ .recursion := by rintro rfl; exact hne h.symm
              rw [processChildren_congr ih _ _ hx (by simpa using this)]
              exact h
            | ok excludes =>
              rw [hx] at h
              rw [processChildren_congr ih _ _ hx (by simp)]
              exact h

end C13T

/- The wildcard theorems with repeated variables: class `InClassB`, expand -> match (`match_fillB`) and sub (`sub_fillB`).
   A repeated variable compiles to a back-reference; by `C12B.sim` the engine treats it like the literal text. -/
import CLModel.Proofs.C12BEngine
import CLModel.Proofs.C11RNest
namespace C12B
open Rx PM C11R

/-- a node with what is put in its place; a REPEATED variable is the literal text of its expansion (the regex refers back
    to the group of the first occurrence) -/
def pieceOfB (vs : Nat → Text) (env : Env) : Node → Piece
  | .var name true => .lit (varText env (.var name true))
  | n => pieceOf vs env n

theorem pieceOfB_text (vs : Nat → Text) (env : Env) (n : Node) : (pieceOfB vs env n).text = (pieceOf vs env n).text := by
  cases n with
  | var name rep => cases rep <;> rfl
  | _ => rfl

/-- the filling is well separated (a repeated variable counts as a literal text) -/
def WellSepB (vs : Nat → Text) (env : Env) (ns : List Node) : Prop := PSep (ns.map (pieceOfB vs env))

theorem fillB_eq (vs : Nat → Text) (env : Env) (ns : List Node) :
    piecesText (ns.map (pieceOfB vs env)) = fillN vs env ns := by
  unfold fillN piecesText
  induction ns with
  | nil => rfl
  | cons c cs ih => simp only [List.map_cons, List.flatMap_cons, ih, pieceOfB_text]

theorem varText_rep (env : Env) (name : Text) (r r' : Bool) : varText env (.var name r) = varText env (.var name r') := rfl

/-- **the class with repeated variables**: as `InClassN`, and a variable may occur again once its first occurrence has
    been seen (`kn` = the variable names seen so far) -/
def InClassB (env : Env) : List Text → List Node → Prop
  | _, [] => True
  | kn, .lit _ :: r => InClassB env kn r
  | kn, .star _ :: r => InClassB env kn r
  | kn, .starstar _ sfx :: r => (sfx = [47] ∨ sfx = []) ∧ InClassB env kn r
  | kn, .var name false :: r =>
    (∃ t, expandNode (expandVal (fuelFor env)) (.var name false) env true = .ok t) ∧ InClassB env (name :: kn) r
  | kn, .var name true :: r => name ∈ kn ∧ InClassB env kn r
  | _, .android _ :: _ => False

/-- group name a node DEFINES (a repeated variable defines none) -/
def nameOfB : Node → List Text
  | .var _ true => []
  | n => nameOfN n

/-- the names seen so far are captured groups with the variable's expansion as text -/
def KnOK (env : Env) (kn : List Text) (Kn : List (Nat × Text)) : Prop :=
  ∀ name ∈ kn, (encName name, varText env (.var name false)) ∈ Kn

theorem brefOK_base_nongl {Kn : List (Nat × Text)} {tok : Tok} {r : List BTok}
    (h : ∀ i b t F, tok ≠ .gl i b t F) : BrefOK Kn (.base tok :: r) ↔ BrefOK Kn r := by
  cases tok with
  | gl i b t F => exact absurd rfl (h i b t F)
  | lit t => exact Iff.rfl
  | star i v => exact Iff.rfl
  | sstar i w => exact Iff.rfl
  | send i w => exact Iff.rfl

theorem piece_grp_gl {tok : Tok} {t : Text} (h : tok.piece = .grp t) : ∃ i b F, tok = .gl i b t F := by
  cases tok with
  | gl i b t' F => simp only [Tok.piece, Piece.grp.injEq] at h; subst h; exact ⟨i, b, F, rfl⟩
  | lit t' => simp [Tok.piece] at h
  | star i v => simp [Tok.piece] at h
  | sstar i w => simp [Tok.piece] at h
  | send i w => simp [Tok.piece] at h

theorem piece_nongrp {tok : Tok} (h : ∀ t, tok.piece ≠ .grp t) : ∀ i b t F, tok ≠ .gl i b t F := by
  intro i b t F e; subst e; exact h t rfl

/-- what `class_toksB` delivers for a node list -/
def ResB (vs : Nat → Text) (env : Env) (Kn : List (Nat × Text)) (ns : List Node) (citems : List Re) (names : List Text) : Prop :=
  ∃ ts : List BTok, citems = itemsB ts ∧ (ts.map BTok.plain).map Tok.piece = ns.map (pieceOfB vs env) ∧
      GlOK (ts.map BTok.plain) ∧ BrefOK Kn ts ∧
      ∀ n ∈ ns, ∀ nm ∈ nameOfB n, nm ∈ names ∧ ∃ tok ∈ ts.map BTok.plain, encName nm ∈ tok.idx ∧ tok.val = valOf vs env n

theorem class_toksB {vs : Nat → Text} {env : Env} (henv : EnvOK env) : ∀ {ns : List Node} {citems : List Re}
    {names : List Text} {kn : List Text} {Kn : List (Nat × Text)}, InClassB env kn ns → KnOK env kn Kn →
    rxChildren (rxVal (fuelFor env)) ns env = .ok (citems, names) →
    ResB vs env Kn ns citems names
  | [], citems, names, kn, Kn, _, _, hr => by
    simp only [rxChildren, pure, Except.pure, Except.ok.injEq, Prod.mk.injEq] at hr
    obtain ⟨rfl, rfl⟩ := hr
    unfold ResB
    refine ⟨[], rfl, rfl, ?_, trivial, ?_⟩
    · intro tok h; cases h
    · intro n h; cases h
  | c :: cs, citems, names, kn, Kn, hcls, hkn, hr => by
    obtain ⟨a, na, b, nb, h1, h2, rfl, rfl⟩ := rxChildren_cons hr
    -- assembling the result from the head token and the rest
    have glue : ∀ (bt : BTok) (kn' : List Text) (Kn' : List (Nat × Text)), InClassB env kn' cs → KnOK env kn' Kn' →
        a = bt.items → bt.plain.piece = pieceOfB vs env c → GlOK [bt.plain] →
        (∀ r : List BTok, BrefOK Kn' r → BrefOK Kn (bt :: r)) →
        (∀ nm ∈ nameOfB c, nm ∈ na ∧ encName nm ∈ bt.plain.idx ∧ bt.plain.val = valOf vs env c) →
        ResB vs env Kn (c :: cs) (a ++ b) (na ++ nb) := by
      intro bt kn' Kn' hc' hk' ha hp hg hbr hnc
      obtain ⟨ts, hb, hps, hgs, hbrs, hns⟩ := class_toksB (vs := vs) henv hc' hk' h2
      unfold ResB
      refine ⟨bt :: ts, by rw [itemsB_cons, ha, hb], by simp [hp, hps], ?_, hbr ts hbrs, ?_⟩
      · intro tok' ht
        simp only [List.map_cons, List.mem_cons] at ht
        rcases ht with rfl | ht
        · exact hg _ (by simp)
        · exact hgs _ ht
      · intro n hn nm hnm
        rcases List.mem_cons.mp hn with rfl | hn
        · obtain ⟨x1, x2, x3⟩ := hnc nm hnm
          exact ⟨List.mem_append.mpr (Or.inl x1), bt.plain, by simp, x2, x3⟩
        · obtain ⟨x1, tok', x2, x3, x4⟩ := hns n hn nm hnm
          exact ⟨List.mem_append.mpr (Or.inr x1), tok', by simp [x2], x3, x4⟩
    -- a node that is not a variable: one token, nothing new is known afterwards
    have simple : ∀ (hc : InClassN env c) (hrest : InClassB env kn cs) (hpb : pieceOfB vs env c = pieceOf vs env c)
        (hnb : nameOfB c = nameOfN c) (hng : ∀ t, pieceOf vs env c ≠ .grp t), ResB vs env Kn (c :: cs) (a ++ b) (na ++ nb) := by
      intro hc hrest hpb hnb hng
      obtain ⟨tok, ha, hp, hg, hnc⟩ := class_tok (vs := vs) henv hc h1
      have hnongl := piece_nongrp (tok := tok) (by rw [hp]; exact hng)
      exact glue (.base tok) kn Kn hrest hkn ha (by simpa [BTok.plain, hpb] using hp) hg
        (fun r hbr => (brefOK_base_nongl hnongl).mpr hbr) (by rw [hnb]; exact hnc)
    cases c with
    | lit t => exact simple trivial hcls rfl rfl (by intro t' h; cases h)
    | star k => exact simple trivial hcls rfl rfl (by intro t' h; cases h)
    | starstar k sfx =>
      exact simple hcls.1 hcls.2 rfl rfl (by intro t' h; simp only [pieceOf] at h; split at h <;> cases h)
    | android r => exact absurd hcls (by simp [InClassB])
    | var name rep =>
      cases rep with
      | false =>
        obtain ⟨⟨t, ht⟩, hrest⟩ := hcls
        obtain ⟨tok, ha, hp, hg, hnc⟩ := class_tok (vs := vs) henv (n := .var name false) ⟨rfl, t, ht⟩ h1
        obtain ⟨i, body, F, rfl⟩ := piece_grp_gl (t := varText env (.var name false)) (by rw [hp]; rfl)
        obtain ⟨_, hidx, _⟩ := hnc name (by simp [nameOfN])
        have hi : i = encName name := by
          simp only [Tok.idx, List.mem_singleton] at hidx; exact hidx.symm
        subst hi
        refine glue (.base (.gl (encName name) body _ F)) (name :: kn) ((encName name, varText env (.var name false)) :: Kn)
          hrest ?_ ha hp hg (fun r hbr => hbr) hnc
        intro nm hnm
        rcases List.mem_cons.mp hnm with rfl | hnm
        · simp
        · exact List.mem_cons_of_mem _ (hkn nm hnm)
      | true =>
        obtain ⟨hmem, hrest⟩ := hcls
        simp only [rxNode, if_true, pure, Except.pure, Except.ok.injEq, Prod.mk.injEq] at h1
        obtain ⟨rfl, rfl⟩ := h1
        refine glue (.bref (encName name) (varText env (.var name true))) kn Kn hrest hkn rfl rfl ?_
          (fun r hbr => ⟨hkn name hmem, hbr⟩) (by intro nm h; simp [nameOfB] at h)
        intro tok' ht i' body' t' F' he
        simp only [List.mem_singleton] at ht; subst ht
        simp [BTok.plain] at he

theorem itemsB_gidx : ∀ (ts : List BTok), (itemsB ts).flatMap gidx = toksAll (ts.map BTok.plain)
  | [] => rfl
  | t :: r => by
    rw [itemsB_cons, plain_map_cons, toksAll_cons, List.flatMap_append, itemsB_gidx r]
    cases t with
    | base tok => simp only [BTok.items, BTok.plain, tok_items_gidx]
    | bref i t => simp [BTok.items, BTok.plain, Tok.all, Tok.idx, Tok.inner, gidx, groups]

theorem first_occ {env : Env} {name : Text} : ∀ {ns : List Node} {kn : List Text}, InClassB env kn ns →
    Node.var name true ∈ ns → name ∈ kn ∨ Node.var name false ∈ ns
  | [], _, _, h => by cases h
  | c :: cs, kn, hc, h => by
    rcases List.mem_cons.mp h with he | hm
    · subst he; exact Or.inl hc.1
    · cases c with
      | lit t => exact (first_occ (ns := cs) hc hm).imp id (fun h' => List.mem_cons_of_mem _ h')
      | star k => exact (first_occ (ns := cs) hc hm).imp id (fun h' => List.mem_cons_of_mem _ h')
      | starstar k sfx => exact (first_occ (ns := cs) hc.2 hm).imp id (fun h' => List.mem_cons_of_mem _ h')
      | android r => exact absurd hc (by simp [InClassB])
      | var nm rep =>
        cases rep with
        | true => exact (first_occ (ns := cs) hc.2 hm).imp id (fun h' => List.mem_cons_of_mem _ h')
        | false =>
          rcases first_occ (ns := cs) hc.2 hm with h' | h'
          · rcases List.mem_cons.mp h' with e | h'
            · subst e; exact Or.inr (by simp)
            · exact Or.inl h'
          · exact Or.inr (List.mem_cons_of_mem _ h')

/-- **expand -> match with wildcards AND repeated variables** -/
theorem match_fillB {m : Matcher} {vs : Nat → Text} {re : Re} {names : List Text} {rt : Text}
    (henv : EnvOK m.env) (hcls : InClassB m.env [] m.pattern.nodes)
    (hre : m.regexOf = .ok (re, names)) (hna : androidName ∉ names)
    (hroot : rootOf (expandVal (fuelFor m.env)) m.pattern m.env = .ok rt)
    (hsep : WellSepB vs m.env m.pattern.nodes) :
    ∃ g : Text → Option Text,
      m.match (rt ++ fillN vs m.env m.pattern.nodes) = .ok (some (names.map (fun nm => (nm, g nm)))) ∧
      ∀ n ∈ m.pattern.nodes, ∀ nm ∈ nameOfN n, nm ∈ names ∧ g nm = valOf vs m.env n := by
  obtain ⟨items, hrx, hreq, hwf⟩ := regexOf_inv hre
  obtain ⟨root, citems, hroot', hch, hitems⟩ := rxPat_inv hrx
  rw [hroot] at hroot'
  simp only [Except.ok.injEq] at hroot'
  subst hroot'
  obtain ⟨ts, rfl, hps, hgl, hbr, hnm⟩ := class_toksB (vs := vs) (Kn := []) henv hcls (by intro nm h; cases h) hch
  have hsep' : Sep (ts.map BTok.plain) := sep_of_psep _ (by rw [hps]; exact hsep) hgl
  have htxt : fillN vs m.env m.pattern.nodes = toksText (ts.map BTok.plain) := by
    rw [← fillB_eq, ← hps, toksText_pieces]
  have hcount : ∀ i, (toksAll (ts.map BTok.plain)).count i ≤ 1 := by
    intro i
    have := wfRe_unique hwf i
    rw [hreq, gidx_seqOf, hitems] at this
    simp only [List.flatMap_append, List.count_append, itemsB_gidx] at this
    omega
  rw [htxt]
  have hrun : matchAt (rt ++ toksText (ts.map BTok.plain)).toArray re 0 =
      some ⟨(rt ++ toksText (ts.map BTok.plain)).toArray.size, capsAfter rt.length (ts.map BTok.plain) []⟩ := by
    unfold matchAt
    have hanchor : Gen.Pat.matcher_frag_anchor = Re.eos := rfl
    rw [hreq, hitems, List.append_assoc, hanchor,
      m_lits_ok (rt ++ toksText (ts.map BTok.plain)).toArray rt _ ⟨0, []⟩ some (textAt_toArray_zero _ _)]
    rw [sim _ ts [] _ [Re.eos] some hsep' (by intro e he; cases he) hbr (by simp) (by intro e he; cases he) hcount]
    have := run_toks (rt ++ toksText (ts.map BTok.plain)).toArray (ts.map BTok.plain) ⟨0 + rt.length, []⟩ hsep'
      (by simp only [Nat.zero_add]; exact textAt_toArray_right rt _)
      (by simp)
    simpa using this
  refine ⟨fun nm => groupText (rt ++ toksText (ts.map BTok.plain)).toArray
    ⟨(rt ++ toksText (ts.map BTok.plain)).toArray.size, capsAfter rt.length (ts.map BTok.plain) []⟩ (encName nm), ?_, ?_⟩
  · rw [match_of_matchAt hre hrun hna]; rfl
  · -- a node that defines its group
    have hdef : ∀ n ∈ m.pattern.nodes, ∀ nm ∈ nameOfB n, nm ∈ names ∧
        groupText (rt ++ toksText (ts.map BTok.plain)).toArray
          ⟨(rt ++ toksText (ts.map BTok.plain)).toArray.size, capsAfter rt.length (ts.map BTok.plain) []⟩ (encName nm) =
          valOf vs m.env n := by
      intro n hn nm hnmem
      obtain ⟨h1, tok, htok, hidx, hval⟩ := hnm n hn nm hnmem
      refine ⟨h1, ?_⟩
      rw [← hval]
      exact groupText_capsAfter _ _ (ts.map BTok.plain) rt.length [] hsep'
        (textAt_toArray_right rt _) hcount (fun i _ => by simp [capOf]) tok htok _ hidx
    intro n hn nm hnmem
    cases n with
    | var name rep =>
      cases rep with
      | false => exact hdef _ hn nm (by simpa [nameOfB] using hnmem)
      | true =>
        simp only [nameOfN, List.mem_singleton] at hnmem; subst hnmem
        rcases first_occ hcls hn with h | h
        · cases h
        · have := hdef _ h nm (by simp [nameOfB, nameOfN])
          exact this
    | lit t => exact hdef _ hn nm (by simpa [nameOfB] using hnmem)
    | star k => exact hdef _ hn nm (by simpa [nameOfB] using hnmem)
    | starstar k sfx => exact hdef _ hn nm (by simpa [nameOfB] using hnmem)
    | android r => exact hdef _ hn nm (by simpa [nameOfB] using hnmem)

/-! ### `sub` between two matchers of the class with repeated variables -/

/-- what the expansion side needs of a node: a variable (first or repeated occurrence) is fully bound -/
def ExpOK (env : Env) : Node → Prop
  | .lit _ => True
  | .star _ => True
  | .starstar _ _ => True
  | .var name rep => ∃ t, expandNode (expandVal (fuelFor env)) (.var name rep) env true = .ok t
  | .android _ => False

theorem inClassB_expOK {env : Env} : ∀ {ns : List Node} {kn : List Text}, InClassB env kn ns →
    (∀ name ∈ kn, ∃ t, expandNode (expandVal (fuelFor env)) (.var name false) env true = .ok t) →
    ∀ n ∈ ns, ExpOK env n
  | [], _, _, _, n, h => by cases h
  | c :: cs, kn, hc, hkn, n, h => by
    cases c with
    | lit t =>
      rcases List.mem_cons.mp h with e | hm
      · subst e; trivial
      · exact inClassB_expOK (ns := cs) hc hkn n hm
    | star k =>
      rcases List.mem_cons.mp h with e | hm
      · subst e; trivial
      · exact inClassB_expOK (ns := cs) hc hkn n hm
    | starstar k sfx =>
      rcases List.mem_cons.mp h with e | hm
      · subst e; trivial
      · exact inClassB_expOK (ns := cs) hc.2 hkn n hm
    | android r => exact absurd hc (by simp [InClassB])
    | var name rep =>
      cases rep with
      | true =>
        rcases List.mem_cons.mp h with e | hm
        · subst e; exact hkn name hc.1
        · exact inClassB_expOK (ns := cs) hc.2 hkn n hm
      | false =>
        rcases List.mem_cons.mp h with e | hm
        · subst e; exact hc.1
        · refine inClassB_expOK (ns := cs) hc.2 ?_ n hm
          intro nm hnm
          rcases List.mem_cons.mp hnm with e | hnm
          · subst e; exact hc.1
          · exact hkn nm hnm

/-- **`a.sub(b, ·)` on a filled path**, repeated variables allowed on both sides -/
theorem sub_fillB {a b : Matcher} {vs : Nat → Text} {rea : Re} {namesa : List Text} {rta rtb : Text}
    (henva : EnvOK a.env) (hca : InClassB a.env [] a.pattern.nodes)
    (hrea : a.regexOf = .ok (rea, namesa)) (hnaa : androidName ∉ namesa)
    (hroota : rootOf (expandVal (fuelFor a.env)) a.pattern a.env = .ok rta)
    (hsepa : WellSepB vs a.env a.pattern.nodes)
    (hcb : ∀ n ∈ b.pattern.nodes, ExpOK b.env n) (hgb : GoodEnv b.env)
    (hrootb : rootOf (expandVal (fuelFor b.env)) b.pattern b.env = .ok rtb)
    (hkb : KeysOnce b.env) (hwb : ∀ k, b.env.lookup (sname k) = none)
    (hsame : ∀ k, k ∈ b.pattern.nodes.filterMap wildNum → k ∈ a.pattern.nodes.filterMap wildNum) :
    a.sub b (rta ++ fillN vs a.env a.pattern.nodes) = .ok (some (rtb ++ fillN vs b.env b.pattern.nodes)) := by
  obtain ⟨g, hmatch, hg⟩ := match_fillB henva hca hrea hnaa hroota hsepa
  rw [PM.sub_of_match hmatch]
  have hlk := fun k => subEnv_lookup' (d := namesa.map (fun nm => (nm, g nm))) (env := b.env) hkb k
  have hext : Ext b.env (subEnv (namesa.map (fun nm => (nm, g nm))) b.env) := by
    intro k v hl; rw [hlk k, hl]
  have hsafe : AndroidSafe (subEnv (namesa.map (fun nm => (nm, g nm))) b.env) := by
    intro p hp
    rw [hlk localeName] at hp
    cases hl : b.env.lookup localeName with
    | some v =>
      simp only [hl, Option.some.injEq] at hp
      subst hp
      exact (hgb.lookup hl).2
    | none =>
      simp only [hl] at hp
      cases hd : (namesa.map (fun nm => (nm, g nm))).reverse.lookup localeName with
      | none => simp [hd] at hp
      | some x => simp [hd, capsVal] at hp
  have hwild : ∀ n ∈ b.pattern.nodes, ∀ k, wildNum n = some k →
      (subEnv (namesa.map (fun nm => (nm, g nm))) b.env).lookup (sname k) = some (.str (vs k)) := by
    intro n hn k hk
    have hkb' : k ∈ b.pattern.nodes.filterMap wildNum := List.mem_filterMap.mpr ⟨n, hn, hk⟩
    obtain ⟨n', hn', hk'⟩ := List.mem_filterMap.mp (hsame k hkb')
    obtain ⟨hmem, hval⟩ := hg n' hn' (sname k) (by rw [nameOfN_wild hk']; simp)
    rw [hlk (sname k), hwb k]
    simp only
    rw [← List.map_reverse, lookup_map_mem (fun nm => g nm) (sname k) namesa.reverse (by simpa using hmem)]
    simp only [Option.map_some, hval, capsVal_wildN hk']
  have hnode : ∀ n ∈ b.pattern.nodes,
      expandNode (expandVal (fuelFor (subEnv (namesa.map (fun nm => (nm, g nm))) b.env))) n
        (subEnv (namesa.map (fun nm => (nm, g nm))) b.env) true = .ok ((pieceOf vs b.env n).text) := by
    intro n hn
    have hc := hcb n hn
    cases n with
    | lit t => rfl
    | star k =>
      simp only [expandNode, hwild _ hn k rfl, pure, Except.pure]
      rw [pieceText_wild (n := .star k) rfl]
    | starstar k sfx =>
      simp only [expandNode, hwild _ hn k rfl, pure, Except.pure]
      rw [pieceText_wild (n := .starstar k sfx) rfl]
    | var name rep =>
      obtain ⟨t, ht⟩ := hc
      rw [var_expand_ext hext hgb hsafe ht true]
      simp only [pieceOf, Piece.text, varText, ht]
    | android r => exact absurd hc (by simp [ExpOK])
  have hroot' : rootOf (expandVal (fuelFor (subEnv (namesa.map (fun nm => (nm, g nm))) b.env))) b.pattern
      (subEnv (namesa.map (fun nm => (nm, g nm))) b.env) = .ok rtb := by
    cases hrt : b.pattern.root with
    | none =>
      rw [rootOf_none hrt] at hrootb ⊢
      exact hrootb
    | some r =>
      cases hns : b.pattern.nodes with
      | nil => simp [rootOf, hrt, hns] at hrootb
      | cons n0 tl =>
        have hc := hcb n0 (by simp [hns])
        simp only [rootOf, hrt, hns] at hrootb ⊢
        cases n0 with
        | lit t => exact hrootb
        | star k => simp [expandNode, hwb k] at hrootb
        | starstar k sfx => simp [expandNode, hwb k] at hrootb
        | var name rep =>
          obtain ⟨t, ht⟩ := hc
          have hsafeb : AndroidSafe b.env := fun p hp => (hgb.lookup hp).2
          rw [var_expand_ext (fun _ _ h => h) hgb hsafeb ht false] at hrootb
          rw [var_expand_ext hext hgb hsafe ht false]
          exact hrootb
        | android r => exact absurd hc (by simp [ExpOK])
  simp only [expandTop, expandPat, hroot', bind, Except.bind,
    expandChildren_of_nodes (pc := fun n => (pieceOf vs b.env n).text) b.pattern.nodes hnode,
    pure, Except.pure, Except.map, fillN_eq]
end C12B

/- C06 (rendered values), part 1: exact, priority-respecting engine lemmas used to evaluate the
   generated `printf` and `#([0-9]+)` regexes on texts assembled from tokens:
   * `At s p t`: the text `t` stands at offset `p` of the subject;
   * unfolding equations of the matcher for the AST nodes that occur;
   * greedy repeats over a stretch on which the body is a one-character step (hit / total failure);
   * `finditer` as a left-to-right scan: a hit at the current offset, a miss moves one character on,
     the end of the subject ends the scan.
   Self-contained (core + `Rx.Basic`, `RxStar`). -/
import CLModel.Rx.Basic
import CLModel.Proofs.RxLemmas
import CLModel.Proofs.RxStar
namespace C06R
open Rx

abbrev Text := List Nat

/-! ### texts at an offset -/

/-- the text `t` stands at offset `p` of `s` -/
def At (s : Array Nat) (p : Nat) (t : Text) : Prop := ∀ j, j < t.length → s[p + j]? = t[j]?

theorem At.nil (s : Array Nat) (p : Nat) : At s p [] := by intro j hj; simp at hj

theorem at_cons {s : Array Nat} {p c : Nat} {t : Text} :
    At s p (c :: t) ↔ s[p]? = some c ∧ At s (p + 1) t := by
  constructor
  · intro h
    refine ⟨by simpa using h 0 (by simp), ?_⟩
    intro j hj
    have := h (j + 1) (by simpa using hj)
    simp only [List.getElem?_cons_succ] at this
    rw [← this]; congr 1; omega
  · rintro ⟨h0, h1⟩ j hj
    cases j with
    | zero => simpa using h0
    | succ j =>
      have := h1 j (by simpa using hj)
      simp only [List.getElem?_cons_succ]
      rw [← this]; congr 1; omega

theorem at_append {s : Array Nat} {p : Nat} {a b : Text} :
    At s p (a ++ b) ↔ At s p a ∧ At s (p + a.length) b := by
  induction a generalizing p with
  | nil => simp [At.nil]
  | cons c a ih =>
    simp only [List.cons_append, at_cons, ih, List.length_cons]
    rw [show p + 1 + a.length = p + (a.length + 1) by omega]
    constructor
    · rintro ⟨h1, h2, h3⟩; exact ⟨⟨h1, h2⟩, h3⟩
    · rintro ⟨⟨h1, h2⟩, h3⟩; exact ⟨h1, h2, h3⟩

theorem at_get {s : Array Nat} {p : Nat} {t : Text} (h : At s p t) {j : Nat} (hj : j < t.length) :
    s[p + j]? = some t[j] := by
  rw [h j hj, List.getElem?_eq_getElem hj]

/-- the suffix of `s` from `p` on is exactly `t` -/
def Tail (s : Array Nat) (p : Nat) (t : Text) : Prop := At s p t ∧ p + t.length = s.size

theorem tail_toArray (t : Text) : Tail t.toArray 0 t := by
  refine ⟨?_, by simp⟩
  intro j _
  simp

theorem tail_append {s : Array Nat} {p : Nat} {a b : Text} (h : Tail s p (a ++ b)) :
    At s p a ∧ Tail s (p + a.length) b := by
  obtain ⟨h1, h2⟩ := h
  rw [at_append] at h1
  refine ⟨h1.1, h1.2, ?_⟩
  simp only [List.length_append] at h2
  omega

/-- the character after a prefix of a tail: the head of the rest (or the end of the subject) -/
theorem tail_head {s : Array Nat} {p : Nat} {t : Text} (h : Tail s p t) : s[p]? = t.head? := by
  cases t with
  | nil =>
    have : s.size ≤ p := by have := h.2; simp at this; omega
    simp [this]
  | cons c t => simpa using (at_cons.mp h.1).1

/-- `s[a:b]` when the text `t` stands at `a` -/
theorem slice_at {s : Array Nat} {p : Nat} {t : Text} (h : At s p t) :
    (s.extract p (p + t.length)).toList = t := by
  apply List.ext_getElem?
  intro j
  by_cases hj : j < t.length
  · have h1 := h j hj
    have hlt : p + j < s.size := by
      rw [List.getElem?_eq_getElem hj] at h1
      exact getElem?_some_lt h1
    rw [← h1]
    simp [hj, hlt]
  · have : t[j]? = none := by simp; omega
    rw [this]
    simp
    omega

/-! ### unfolding equations -/

theorem m_lit (s : Array Nat) (c : Nat) (st : St) (k : K) :
    m s (.lit c) st k = if s[st.pos]? == some c then k { st with pos := st.pos + 1 } else none := by rw [m]
theorem m_seq (s : Array Nat) (a b : Re) (st : St) (k : K) :
    m s (.seq a b) st k = m s a st (fun st' => m s b st' k) := by rw [m]
theorem m_alt (s : Array Nat) (a b : Re) (st : St) (k : K) :
    m s (.alt a b) st k = (m s a st k).orElse (fun _ => m s b st k) := by rw [m]
theorem m_group (s : Array Nat) (i : Nat) (r : Re) (st : St) (k : K) :
    m s (.group i r) st k = m s r st (fun st' => k { st' with caps := (i, st.pos, st'.pos) :: st'.caps }) := by
  rw [m]
theorem m_eps (s : Array Nat) (st : St) (k : K) : m s .eps st k = k st := by rw [m]
theorem m_rep (s : Array Nat) (mn : Nat) (mx : Option Nat) (g : Bool) (r : Re) (st : St) (k : K) :
    m s (.rep mn mx g r) st k = loop (m s r) g (s.size + 2 - st.pos) mn mx st k := by rw [m]

theorem lit_ok {s : Array Nat} {p c : Nat} (h : s[p]? = some c) (caps) (k : K) :
    m s (.lit c) ⟨p, caps⟩ k = k ⟨p + 1, caps⟩ := by
  rw [m_lit]; simp [h]

theorem lit_fail {s : Array Nat} {p c : Nat} (h : s[p]? ≠ some c) (caps) (k : K) :
    m s (.lit c) ⟨p, caps⟩ k = none := by
  rw [m_lit]; simp [h]

theorem cls_ok {s : Array Nat} {p c : Nat} {neg : Bool} {items : List ClsItem} (h : s[p]? = some c)
    (hin : inC neg items c = true) (caps) (k : K) :
    m s (.cls neg items) ⟨p, caps⟩ k = k ⟨p + 1, caps⟩ := by
  rw [m_cls_apply]; simp [h, hin]

/-- the class cannot match at `p`: end of the subject or a character outside the class -/
theorem cls_fail {s : Array Nat} {p : Nat} {neg : Bool} {items : List ClsItem}
    (h : ∀ c, s[p]? = some c → inC neg items c = false) (caps) (k : K) :
    m s (.cls neg items) ⟨p, caps⟩ k = none := by
  rw [m_cls_apply]
  cases hc : s[p]? with
  | none => simp
  | some c => simp [h c hc]

theorem orElse_none_left {α : Type} (f : Unit → Option α) : (none : Option α).orElse f = f () := rfl
theorem orElse_some_left {α : Type} (a : α) (f : Unit → Option α) : (some a).orElse f = some a := rfl

/-! ### greedy repeats over a stretch of one-character steps -/

theorem loop_body_fail (body : St → K → Option St) (g : Bool) (f : Nat) (mx : Option Nat) (st : St) (k : K)
    (h : ∀ k', body st k' = none) : loop body g (f + 1) 0 mx st k = k st := by
  rw [loop]
  simp only [h]
  cases g <;> cases hk : k st <;> simp

theorem loop_body_fail_min (body : St → K → Option St) (g : Bool) (f mn : Nat) (mx : Option Nat) (st : St)
    (k : K) (h : ∀ k', body st k' = none) (hmn : mn > 0) : loop body g f mn mx st k = none := by
  cases f with
  | zero => rw [loop]
  | succ f =>
    rw [loop]
    simp [h, hmn]

/-- greedy repeat: the body steps over `pos … pos+n-1`, cannot match at `pos+n`, and the continuation
    succeeds at `pos+n`: that is the result (the longest run is tried first) -/
theorem loop_greedy_hit (body : St → K → Option St) (caps) (k : K) (r : St) :
    ∀ n fuel pos mn, n < fuel → mn ≤ n →
      (∀ j, j < n → ∀ k', body ⟨pos + j, caps⟩ k' = k' ⟨pos + j + 1, caps⟩) →
      (∀ k', body ⟨pos + n, caps⟩ k' = none) →
      k ⟨pos + n, caps⟩ = some r →
      loop body true fuel mn none ⟨pos, caps⟩ k = some r := by
  intro n
  induction n with
  | zero =>
    intro fuel pos mn hf hmn _ hfail hk
    obtain ⟨f, rfl⟩ : ∃ f, fuel = f + 1 := ⟨fuel - 1, by omega⟩
    have : mn = 0 := by omega
    subst this
    rw [loop_body_fail body true f none ⟨pos, caps⟩ k (by simpa using hfail)]
    simpa using hk
  | succ n ih =>
    intro fuel pos mn hf hmn hstep hfail hk
    obtain ⟨f, rfl⟩ : ∃ f, fuel = f + 1 := ⟨fuel - 1, by omega⟩
    have h0 := hstep 0 (by omega)
    simp only [Nat.add_zero] at h0
    have ihh := ih f (pos + 1) (mn - 1) (by omega) (by omega)
      (fun j hj k' => by
        have := hstep (j + 1) (by omega) k'
        rw [show pos + (j + 1) = pos + 1 + j by omega] at this
        exact this)
      (fun k' => by
        have := hfail k'
        rw [show pos + (n + 1) = pos + 1 + n by omega] at this
        exact this)
      (by rw [show pos + 1 + n = pos + (n + 1) by omega]; exact hk)
    rw [loop]
    simp only [h0, show ¬ (pos + 1 ≤ pos) by omega, if_false, show ((none : Option Nat) == some 0) = false from rfl,
      Bool.false_eq_true, Option.map_none, ihh]
    split <;> simp

/-- greedy repeat: the continuation fails at every end position of the stretch: the repeat fails -/
theorem loop_greedy_none (body : St → K → Option St) (caps) (k : K) :
    ∀ n fuel pos,
      (∀ j, j < n → ∀ k', body ⟨pos + j, caps⟩ k' = k' ⟨pos + j + 1, caps⟩) →
      (∀ k', body ⟨pos + n, caps⟩ k' = none) →
      (∀ j, j ≤ n → k ⟨pos + j, caps⟩ = none) →
      loop body true fuel 0 none ⟨pos, caps⟩ k = none := by
  intro n
  induction n with
  | zero =>
    intro fuel pos _ hfail hk
    cases fuel with
    | zero => rw [loop]
    | succ f =>
      rw [loop_body_fail body true f none ⟨pos, caps⟩ k (by simpa using hfail)]
      simpa using hk 0 (by omega)
  | succ n ih =>
    intro fuel pos hstep hfail hk
    cases fuel with
    | zero => rw [loop]
    | succ f =>
      have h0 := hstep 0 (by omega)
      simp only [Nat.add_zero] at h0
      have ihh := ih f (pos + 1)
        (fun j hj k' => by
          have := hstep (j + 1) (by omega) k'
          rw [show pos + (j + 1) = pos + 1 + j by omega] at this
          exact this)
        (fun k' => by
          have := hfail k'
          rw [show pos + (n + 1) = pos + 1 + n by omega] at this
          exact this)
        (fun j hj => by
          have := hk (j + 1) (by omega)
          rw [show pos + (j + 1) = pos + 1 + j by omega] at this
          exact this)
      have hk0 := hk 0 (by omega)
      simp only [Nat.add_zero] at hk0
      rw [loop]
      simp only [h0, show ¬ (pos + 1 ≤ pos) by omega, if_false, show ((none : Option Nat) == some 0) = false from rfl,
        Bool.false_eq_true, Option.map_none, Nat.zero_sub, ihh, hk0]
      simp

/-! ### runs of ASCII digits -/

/-- `[0-9]` as generated -/
def reDig : Re := .cls false [.range 48 57]

def IsDig (c : Nat) : Prop := 48 ≤ c ∧ c ≤ 57

theorem inC_dig (c : Nat) : inC false [.range 48 57] c = true ↔ IsDig c := by
  simp [inC, ClsItem.has, IsDig]

theorem inC_dig_false {c : Nat} (h : ¬ IsDig c) : inC false [.range 48 57] c = false := by
  cases hc : inC false [.range 48 57] c with
  | false => rfl
  | true => exact absurd ((inC_dig c).mp hc) h

/-- no digit stands at `p` (end of the subject included) -/
def NoDigAt (s : Array Nat) (p : Nat) : Prop := ∀ c, s[p]? = some c → ¬ IsDig c

theorem dig_step {s : Array Nat} {p : Nat} {ds : Text} (hat : At s p ds) (hd : ∀ d ∈ ds, IsDig d) (caps) :
    ∀ j, j < ds.length → ∀ k', m s reDig ⟨p + j, caps⟩ k' = k' ⟨p + j + 1, caps⟩ := by
  intro j hj k'
  exact cls_ok (at_get hat hj) ((inC_dig _).mpr (hd _ (List.getElem_mem hj))) caps k'

theorem dig_stop {s : Array Nat} {p : Nat} (h : NoDigAt s p) (caps) : ∀ k', m s reDig ⟨p, caps⟩ k' = none :=
  fun k' => cls_fail (fun c hc => inC_dig_false (h c hc)) caps k'

/-- `[0-9]*` / `[0-9]+` (greedy) on a run `ds` of digits that ends at a non-digit, in front of a
    continuation that succeeds at the end of the run -/
theorem digits_hit {s : Array Nat} {p : Nat} {ds : Text} (hat : At s p ds) (hd : ∀ d ∈ ds, IsDig d)
    (hstop : NoDigAt s (p + ds.length)) (hp : p ≤ s.size) (mn : Nat) (hmn : mn ≤ ds.length) (caps) (k : K) (r : St)
    (hk : k ⟨p + ds.length, caps⟩ = some r) :
    m s (.rep mn none true reDig) ⟨p, caps⟩ k = some r := by
  rw [m_rep]
  have hlen : p + ds.length ≤ s.size := by
    cases hl : ds.length with
    | zero => omega
    | succ n =>
      have := getElem?_some_lt (at_get hat (show n < ds.length by omega))
      omega
  exact loop_greedy_hit (m s reDig) caps k r ds.length _ p mn (by simp only; omega) hmn
    (dig_step hat hd caps) (dig_stop hstop caps) hk

/-- `[0-9]+` where no digit stands -/
theorem plus_fail {s : Array Nat} {p : Nat} (h : NoDigAt s p) (caps) (k : K) :
    m s (.rep 1 none true reDig) ⟨p, caps⟩ k = none := by
  rw [m_rep]
  exact loop_body_fail_min _ _ _ _ _ _ _ (dig_stop h caps) (by omega)

/-- `[0-9]*` on a run of digits, when the continuation fails at every end position -/
theorem star_none {s : Array Nat} {p : Nat} {ds : Text} (hat : At s p ds) (hd : ∀ d ∈ ds, IsDig d)
    (hstop : NoDigAt s (p + ds.length)) (caps) (k : K)
    (hk : ∀ j, j ≤ ds.length → k ⟨p + j, caps⟩ = none) :
    m s (.rep 0 none true reDig) ⟨p, caps⟩ k = none := by
  rw [m_rep]
  exact loop_greedy_none (m s reDig) caps k ds.length _ p (dig_step hat hd caps) (dig_stop hstop caps) hk

/-! ### `finditer` as a scan -/

theorem search_hit {s : Array Nat} {r : Re} {p : Nat} {st : St} (hp : p ≤ s.size)
    (h : matchAt s r p = some st) : search s r p = some (p, st) := by
  unfold search
  rw [show s.size + 2 - p = (s.size + 1 - p) + 1 by omega, searchFrom]
  simp [show ¬ p > s.size by omega, h]

theorem search_miss {s : Array Nat} {r : Re} {p : Nat} (hp : p ≤ s.size)
    (h : matchAt s r p = none) : search s r p = search s r (p + 1) := by
  unfold search
  rw [show s.size + 2 - p = (s.size + 2 - (p + 1)) + 1 by omega, searchFrom]
  simp [show ¬ p > s.size by omega, h]

theorem search_past {s : Array Nat} {r : Re} {p : Nat} (hp : p > s.size) : search s r p = none := by
  unfold search
  cases h : s.size + 2 - p with
  | zero => rfl
  | succ f => rw [searchFrom]; simp [hp]

/-- a match at the current offset is reported and the scan goes on behind it -/
theorem fi_hit {s : Array Nat} {r : Re} {p : Nat} {st : St} (fuel : Nat) (hp : p ≤ s.size)
    (h : matchAt s r p = some st) :
    finditerAux s r (fuel + 1) p false = (p, st) :: finditerAux s r fuel st.pos (st.pos == p) := by
  rw [finditerAux]
  simp [show ¬ p > s.size by omega, h]

/-- no match at the current offset: the scan moves on by one character -/
theorem fi_miss {s : Array Nat} {r : Re} {p : Nat} (fuel : Nat) (hp : p < s.size)
    (h : matchAt s r p = none) :
    finditerAux s r (fuel + 1) p false = finditerAux s r (fuel + 1) (p + 1) false := by
  rw [finditerAux, finditerAux]
  simp only [show ¬ p > s.size by omega, show ¬ p + 1 > s.size by omega, if_false, Bool.false_eq_true, h]
  cases h1 : matchAt s r (p + 1) with
  | some st => simp only [search_hit (show p + 1 ≤ s.size by omega) h1]
  | none => simp only [search_miss (show p + 1 ≤ s.size by omega) h1]

/-- no match at the end of the subject: the scan ends -/
theorem fi_end {s : Array Nat} {r : Re} (fuel : Nat) (h : matchAt s r s.size = none) :
    finditerAux s r (fuel + 1) s.size false = [] := by
  rw [finditerAux]
  simp [h, search_past (show s.size + 1 > s.size by omega)]

/-- a stretch without any match is skipped -/
theorem fi_skip {s : Array Nat} {r : Re} (fuel : Nat) :
    ∀ (n p : Nat), p + n ≤ s.size → (∀ j, j < n → matchAt s r (p + j) = none) →
      finditerAux s r (fuel + 1) p false = finditerAux s r (fuel + 1) (p + n) false := by
  intro n
  induction n with
  | zero => intro p _ _; rfl
  | succ n ih =>
    intro p hp hnone
    have h0 := hnone 0 (by omega)
    simp only [Nat.add_zero] at h0
    rw [fi_miss fuel (by omega) h0, ih (p + 1) (by omega) (fun j hj => by
      have := hnone (j + 1) (by omega)
      rw [show p + (j + 1) = p + 1 + j by omega] at this
      exact this)]
    congr 1; omega

end C06R

/- expand -> match for patterns with wildcards, node level: top-level literals, `*`, `**/` (or a final `**`)
   and first occurrences of variables whose values are fully bound, wildcard-free patterns (nested variables
   allowed: `{l}` = "{l10n_base}/{locale}/").  Built on the engine theorem `run_toks`. -/
import CLModel.Proofs.C12RLit
import CLModel.Proofs.C11RExt
namespace C11R
open Rx PM

/-! ### shapes: kind and text of a filled item -/

inductive Piece where
  | lit (t : Text)
  | grp (t : Text)
  | star (v : Text)
  | sstar (w : Text)
  | send (w : Text)

def Piece.text : Piece → Text
  | .lit t => t
  | .grp t => t
  | .star v => v
  | .sstar w => w
  | .send w => w

def piecesText (ps : List Piece) : Text := ps.flatMap Piece.text

/-- the literal text a list of pieces begins with (`[]` if it begins with a wildcard or is empty) -/
def pieceHead : List Piece → Text
  | .lit t :: _ => t
  | .grp t :: _ => t
  | _ => []

/-- no double star among the pieces -/
def PPlain (ps : List Piece) : Prop := ∀ p ∈ ps, (∀ w, p ≠ Piece.sstar w) ∧ (∀ w, p ≠ Piece.send w)

/-- **well separated filling**: no `/` in a star value and the literal (or variable value) after the star does
    not occur again later in the `/`-free run that follows the value; a `**/` value is empty or whole
    newline-free directories and no further double star follows it; a final `**` value is newline-free and
    ends the path -/
def PSep : List Piece → Prop
  | [] => True
  | .lit _ :: r => PSep r
  | .grp _ :: r => PSep r
  | .star v :: r => 47 ∉ v ∧ NoLaterHit (pieceHead r) (piecesText r) ∧ PSep r
  | .sstar w :: r => DirsOK w ∧ PPlain r ∧ PSep r
  | .send w :: r => 10 ∉ w ∧ (∀ t ∈ r, t = Piece.lit []) ∧ PSep r

def Tok.piece : Tok → Piece
  | .lit t => .lit t
  | .gl _ _ t _ => .grp t
  | .star _ v => .star v
  | .sstar _ w => .sstar w
  | .send _ w => .send w

/-- the literal-like groups are what they claim to be -/
def GlOK (ts : List Tok) : Prop :=
  ∀ tok ∈ ts, ∀ i body t F, tok = Tok.gl i body t F → GlRun body t F ∧ GlIdx body F

theorem toksText_pieces : ∀ (ts : List Tok), piecesText (ts.map Tok.piece) = toksText ts
  | [] => rfl
  | t :: r => by
    have ih := toksText_pieces r
    simp only [piecesText, List.map_cons, List.flatMap_cons] at ih ⊢
    rw [toksText_cons, ih]
    cases t <;> rfl

theorem headText_pieces : ∀ (ts : List Tok), pieceHead (ts.map Tok.piece) = headText ts
  | [] => rfl
  | t :: r => by cases t <;> rfl

theorem sep_of_psep : ∀ (ts : List Tok), PSep (ts.map Tok.piece) → GlOK ts → Sep ts
  | [], _, _ => trivial
  | t :: r, hp, hg => by
    have hgr : GlOK r := fun tok ht => hg tok (List.mem_cons_of_mem _ ht)
    cases t with
    | lit t => exact sep_of_psep r hp hgr
    | gl i body t F =>
      obtain ⟨h1, h2⟩ := hg _ (by simp) i body t F rfl
      exact ⟨h1, h2, sep_of_psep r hp hgr⟩
    | star i v =>
      obtain ⟨a, b, c⟩ := hp
      rw [headText_pieces, toksText_pieces] at b
      exact ⟨a, b, sep_of_psep r c hgr⟩
    | sstar i w =>
      obtain ⟨a, b, c⟩ := hp
      refine ⟨a, ?_, sep_of_psep r c hgr⟩
      intro tok ht
      have := b tok.piece (List.mem_map.mpr ⟨tok, ht, rfl⟩)
      cases tok with
      | lit t => exact ⟨fun _ _ h => (by cases h), fun _ _ h => (by cases h)⟩
      | gl i body t F => exact ⟨fun _ _ h => (by cases h), fun _ _ h => (by cases h)⟩
      | star i v => exact ⟨fun _ _ h => (by cases h), fun _ _ h => (by cases h)⟩
      | sstar i w => exact absurd rfl (this.1 w)
      | send i w => exact absurd rfl (this.2 w)
    | send i w =>
      obtain ⟨a, b, c⟩ := hp
      refine ⟨a, ?_, sep_of_psep r c hgr⟩
      intro t ht
      have := b t.piece (List.mem_map.mpr ⟨t, ht, rfl⟩)
      cases t with
      | lit t => simp only [Tok.piece, Piece.lit.injEq] at this; subst this; rfl
      | gl i body t F => simp [Tok.piece] at this
      | star i v => simp [Tok.piece] at this
      | sstar i w => simp [Tok.piece] at this
      | send i w => simp [Tok.piece] at this

/-! ### nodes -/

/-- text a variable node stands for: `Variable.expand(env, raise_missing=True)` in the matcher's environment -/
def varText (env : Env) (n : Node) : Text :=
  match expandNode (expandVal (fuelFor env)) n env true with
  | .ok t => t
  | .error _ => []

/-- a node with what is put in its place: `vs k` for the wildcard numbered `k`, its expansion for a variable -/
def pieceOf (vs : Nat → Text) (env : Env) : Node → Piece
  | .lit t => .lit t
  | .star k => .star (vs k)
  | .starstar k sfx => if sfx = [] then .send (vs k) else .sstar (vs k)
  | .var name rep => .grp (varText env (.var name rep))
  | .android _ => .lit []

/-- the restricted class of top-level nodes: literal, `*`, `**/`, final `**`, first occurrence of a variable
    that is fully bound (its expansion with `raise_missing=True` exists) -/
def InClassN (env : Env) : Node → Prop
  | .lit _ => True
  | .star _ => True
  | .starstar _ sfx => sfx = [47] ∨ sfx = []
  | .var name rep => rep = false ∧ ∃ t, expandNode (expandVal (fuelFor env)) (.var name rep) env true = .ok t
  | .android _ => False

/-- the path text obtained by filling the wildcards with `vs` and the variables with their expansions -/
def fillN (vs : Nat → Text) (env : Env) (ns : List Node) : Text := piecesText (ns.map (pieceOf vs env))

/-- the filling is well separated (`PSep`) -/
def WellSepN (vs : Nat → Text) (env : Env) (ns : List Node) : Prop := PSep (ns.map (pieceOf vs env))

/-- group name a top-level node defines -/
def nameOfN : Node → List Text
  | .star n => [sname n]
  | .starstar n _ => [sname n]
  | .var name _ => [name]
  | _ => []

/-- what `match` is expected to report for the node's group -/
def valOf (vs : Nat → Text) (env : Env) : Node → Option Text
  | .star k => some (vs k)
  | .starstar k _ => if vs k = [] then none else some (vs k)
  | .var name rep => some (varText env (.var name rep))
  | _ => none

theorem class_tok {vs : Nat → Text} {env : Env} (henv : EnvOK env) {n : Node} (hc : InClassN env n)
    {a : List Re} {na : List Text} (hr : rxNode (rxVal (fuelFor env)) n env = .ok (a, na)) :
    ∃ tok, a = tok.items ∧ tok.piece = pieceOf vs env n ∧ GlOK [tok] ∧
      ∀ nm ∈ nameOfN n, nm ∈ na ∧ encName nm ∈ tok.idx ∧ tok.val = valOf vs env n := by
  have hnogl : ∀ {tok : Tok}, (∀ i body t F, tok ≠ Tok.gl i body t F) → GlOK [tok] := by
    intro tok h tok' ht i body t F he
    simp only [List.mem_singleton] at ht; subst ht
    exact absurd he (h i body t F)
  cases n with
  | lit t =>
    simp only [rxNode, pure, Except.pure, Except.ok.injEq, Prod.mk.injEq] at hr
    obtain ⟨rfl, rfl⟩ := hr
    exact ⟨.lit t, rfl, rfl, hnogl (by intro _ _ _ _ h; cases h), by intro nm h; simp [nameOfN] at h⟩
  | star k =>
    simp only [rxNode, pure, Except.pure, Except.ok.injEq, Prod.mk.injEq] at hr
    obtain ⟨rfl, rfl⟩ := hr
    refine ⟨.star (encName (sname k)) (vs k), rfl, rfl, hnogl (by intro _ _ _ _ h; cases h), ?_⟩
    intro nm h
    simp only [nameOfN, List.mem_singleton] at h; subst h
    exact ⟨by simp, by simp [Tok.idx], rfl⟩
  | starstar k sfx =>
    simp only [rxNode, pure, Except.pure, Except.ok.injEq, Prod.mk.injEq] at hr
    obtain ⟨rfl, rfl⟩ := hr
    rcases hc with rfl | rfl
    · refine ⟨.sstar (encName (sname k)) (vs k), rfl, rfl, hnogl (by intro _ _ _ _ h; cases h), ?_⟩
      intro nm h
      simp only [nameOfN, List.mem_singleton] at h; subst h
      exact ⟨by simp, by simp [Tok.idx], rfl⟩
    · refine ⟨.send (encName (sname k)) (vs k), rfl, rfl, hnogl (by intro _ _ _ _ h; cases h), ?_⟩
      intro nm h
      simp only [nameOfN, List.mem_singleton] at h; subst h
      exact ⟨by simp, by simp [Tok.idx], rfl⟩
  | var name rep =>
    obtain ⟨rfl, t, ht⟩ := hc
    have ht' := ht
    simp only [expandNode] at ht
    cases hl : env.lookup name with
    | none => simp [hl] at ht
    | some v =>
      simp only [hl] at ht
      simp only [rxNode, Bool.false_eq_true, if_false, hl, bind, Except.bind] at hr
      split at hr
      · cases hr
      · rename_i w hw
        obtain ⟨body, ns⟩ := w
        simp only [pure, Except.pure, Except.ok.injEq, Prod.mk.injEq] at hr
        obtain ⟨rfl, rfl⟩ := hr
        have hlit : LitLike body t :=
          litlike_val _ _ v _ t body ns (henv.lookup hl) (henv.derase name) ht hw
        obtain ⟨F, hrun, hidx⟩ := litlike_glok hlit
        refine ⟨.gl (encName name) body t F, rfl, ?_, ?_, ?_⟩
        · simp only [Tok.piece, pieceOf, varText, ht']
        · intro tok' htok i' body' t' F' he
          simp only [List.mem_singleton] at htok; subst htok
          cases he
          exact ⟨hrun, hidx⟩
        · intro nm h
          simp only [nameOfN, List.mem_singleton] at h; subst h
          exact ⟨by simp, by simp [Tok.idx], by simp only [Tok.val, valOf, varText, ht']⟩
  | android r => exact absurd hc (by simp [InClassN])

theorem class_toks {vs : Nat → Text} {env : Env} (henv : EnvOK env) : ∀ {ns : List Node} {citems : List Re}
    {names : List Text}, (∀ n ∈ ns, InClassN env n) →
    rxChildren (rxVal (fuelFor env)) ns env = .ok (citems, names) →
    ∃ ts, citems = toksItems ts ∧ ts.map Tok.piece = ns.map (pieceOf vs env) ∧ GlOK ts ∧
      ∀ n ∈ ns, ∀ nm ∈ nameOfN n, nm ∈ names ∧ ∃ tok ∈ ts, encName nm ∈ tok.idx ∧ tok.val = valOf vs env n
  | [], citems, names, _, hr => by
    simp only [rxChildren, pure, Except.pure, Except.ok.injEq, Prod.mk.injEq] at hr
    obtain ⟨rfl, rfl⟩ := hr
    refine ⟨[], rfl, rfl, ?_, ?_⟩
    · intro tok h; cases h
    · intro n h; cases h
  | c :: cs, citems, names, hcls, hr => by
    obtain ⟨a, na, b, nb, h1, h2, rfl, rfl⟩ := rxChildren_cons hr
    obtain ⟨tok, ha, hp, hg, hnc⟩ := class_tok (vs := vs) henv (hcls c (by simp)) h1
    obtain ⟨ts, hb, hps, hgs, hns⟩ := class_toks (vs := vs) henv (fun n hn => hcls n (by simp [hn])) h2
    refine ⟨tok :: ts, by rw [toksItems_cons, ha, hb], by simp [hp, hps], ?_, ?_⟩
    · intro tok' ht
      rcases List.mem_cons.mp ht with rfl | ht
      · exact hg _ (by simp)
      · exact hgs _ ht
    · intro n hn nm hnm
      rcases List.mem_cons.mp hn with rfl | hn
      · obtain ⟨x1, x2, x3⟩ := hnc nm hnm
        exact ⟨List.mem_append.mpr (Or.inl x1), tok, by simp, x2, x3⟩
      · obtain ⟨x1, tok', x2, x3, x4⟩ := hns n hn nm hnm
        exact ⟨List.mem_append.mpr (Or.inr x1), tok', List.mem_cons_of_mem _ x2, x3, x4⟩

theorem tok_items_gidx (tok : Tok) : tok.items.flatMap gidx = tok.all := by
  cases tok with
  | lit t => simpa [Tok.items, Tok.all, Tok.idx, Tok.inner] using flatMap_gidx_lits t
  | gl i body t F => simp [Tok.items, Tok.all, Tok.idx, Tok.inner, gidx_group, gidx_seqOf]
  | star i v => simp [Tok.items, Tok.all, Tok.idx, Tok.inner, gidx, groups, Gen.Pat.matcher_frag_star]
  | sstar i w => simp [Tok.items, Tok.all, Tok.idx, Tok.inner, gidx, groups, Gen.Pat.matcher_frag_starstar, seqOf]
  | send i w => simp [Tok.items, Tok.all, Tok.idx, Tok.inner, gidx, groups, Gen.Pat.matcher_frag_starstar, seqOf]

theorem toksItems_gidx : ∀ (ts : List Tok), (toksItems ts).flatMap gidx = toksAll ts
  | [] => rfl
  | t :: r => by
    rw [toksItems_cons, toksAll_cons, List.flatMap_append, tok_items_gidx, toksItems_gidx r]

/-- `Matcher.match` once the regular expression and the engine's final state are known -/
theorem match_of_matchAt {m : Matcher} {path : Text} {re : Re} {names : List Text} {st : St}
    (hre : m.regexOf = .ok (re, names)) (hst : matchAt path.toArray re 0 = some st)
    (hna : androidName ∉ names) :
    m.match path = .ok (some (groupDict path.toArray st names)) := by
  have hany : (groupDict path.toArray st names).any (fun x => x.1 == androidName) = false := by
    apply Bool.eq_false_iff.mpr
    intro hc
    obtain ⟨x, hx, hxe⟩ := List.any_eq_true.mp hc
    unfold groupDict at hx
    obtain ⟨nm, hnm, rfl⟩ := List.mem_map.mp hx
    have : nm = androidName := by simpa using hxe
    exact hna (this ▸ hnm)
  simp only [Matcher.match, hre, bind, Except.bind, hst, hany, Bool.false_and, Bool.false_eq_true, if_false,
    pure, Except.pure]

theorem textAt_toArray_zero (a b : Text) : TextAt (a ++ b).toArray 0 a := by
  intro j hj
  simp only [Nat.zero_add, List.getElem?_toArray]
  exact List.getElem?_append_left hj

theorem textAt_toArray_right (a b : Text) : TextAt (a ++ b).toArray a.length b := by
  intro j _
  simp only [List.getElem?_toArray]
  rw [List.getElem?_append_right (by omega)]
  congr 1; omega

/-- **expand -> match with wildcards**: a matcher of the class matches the filled path; the dictionary has the
    group names of the regular expression as keys, and reports the filled value for every wildcard and the
    expansion for every top-level variable. -/
theorem match_fillN {m : Matcher} {vs : Nat → Text} {re : Re} {names : List Text} {rt : Text}
    (henv : EnvOK m.env) (hcls : ∀ n ∈ m.pattern.nodes, InClassN m.env n)
    (hre : m.regexOf = .ok (re, names)) (hna : androidName ∉ names)
    (hroot : rootOf (expandVal (fuelFor m.env)) m.pattern m.env = .ok rt)
    (hsep : WellSepN vs m.env m.pattern.nodes) :
    ∃ g : Text → Option Text,
      m.match (rt ++ fillN vs m.env m.pattern.nodes) = .ok (some (names.map (fun nm => (nm, g nm)))) ∧
      ∀ n ∈ m.pattern.nodes, ∀ nm ∈ nameOfN n, nm ∈ names ∧ g nm = valOf vs m.env n := by
  obtain ⟨items, hrx, hreq, hwf⟩ := regexOf_inv hre
  obtain ⟨root, citems, hroot', hch, hitems⟩ := rxPat_inv hrx
  rw [hroot] at hroot'
  simp only [Except.ok.injEq] at hroot'
  subst hroot'
  obtain ⟨ts, rfl, hps, hgl, hnm⟩ := class_toks (vs := vs) henv hcls hch
  have hsep' : Sep ts := sep_of_psep ts (by rw [hps]; exact hsep) hgl
  have htxt : fillN vs m.env m.pattern.nodes = toksText ts := by
    unfold fillN; rw [← hps, toksText_pieces]
  have hcount : ∀ i, (toksAll ts).count i ≤ 1 := by
    intro i
    have := wfRe_unique hwf i
    rw [hreq, gidx_seqOf, hitems] at this
    simp only [List.flatMap_append, List.count_append, toksItems_gidx] at this
    omega
  rw [htxt]
  have hrun : matchAt (rt ++ toksText ts).toArray re 0 =
      some ⟨(rt ++ toksText ts).toArray.size, capsAfter rt.length ts []⟩ := by
    unfold matchAt
    have hanchor : Gen.Pat.matcher_frag_anchor = Re.eos := rfl
    rw [hreq, hitems, List.append_assoc, hanchor,
      m_lits_ok (rt ++ toksText ts).toArray rt _ ⟨0, []⟩ some (textAt_toArray_zero _ _)]
    have := run_toks (rt ++ toksText ts).toArray ts ⟨0 + rt.length, []⟩ hsep'
      (by simp only [Nat.zero_add]; exact textAt_toArray_right rt (toksText ts))
      (by simp)
    simpa using this
  refine ⟨fun nm => groupText (rt ++ toksText ts).toArray
    ⟨(rt ++ toksText ts).toArray.size, capsAfter rt.length ts []⟩ (encName nm), ?_, ?_⟩
  · rw [match_of_matchAt hre hrun hna]; rfl
  · intro n hn nm hnmem
    obtain ⟨h1, tok, htok, hidx, hval⟩ := hnm n hn nm hnmem
    refine ⟨h1, ?_⟩
    rw [← hval]
    exact groupText_capsAfter (rt ++ toksText ts).toArray _ ts rt.length [] hsep'
      (textAt_toArray_right rt (toksText ts)) hcount (fun i _ => by simp [capOf]) tok htok _ hidx

end C11R

/-
C16R, part 1 (generic): the shape "every entry that is not whitespace is directly followed by a whitespace entry"
(`Alt`) and its preservation by the operations the merge code applies to entry sequences:
`filterMap`/`map`/`filter` that keep whitespace, the whitespace-folding reduce (`genStep`), and the closed form of
`AddRemove` (`AR.spec`) when whitespace keys are never shared between the two sides.  Core Lean only.
-/
import CLModel.Compare.AddRemove
import CLModel.Proofs.AddRemove
import CLModel.Proofs.C16Dict
namespace C16R
open AR

section alt
variable {γ : Type}

/-- the list starts with a whitespace element -/
def hw (w : γ → Bool) : List γ → Bool
  | [] => false
  | b :: _ => w b

/-- every element that is not whitespace is directly followed by a whitespace element -/
def Alt (w : γ → Bool) : List γ → Prop
  | [] => True
  | a :: l => (w a = true ∨ hw w l = true) ∧ Alt w l

theorem hw_append_left {w : γ → Bool} {a b : List γ} (h : hw w a = true) : hw w (a ++ b) = true := by
  cases a with
  | nil => simp [hw] at h
  | cons x a => simpa [hw] using h

theorem alt_append {w : γ → Bool} {a b : List γ} (ha : Alt w a) (hb : Alt w b) : Alt w (a ++ b) := by
  induction a with
  | nil => simpa using hb
  | cons x a ih =>
    obtain ⟨h1, h2⟩ := ha
    show Alt w (x :: (a ++ b))
    refine ⟨?_, ih h2⟩
    rcases h1 with h1 | h1
    · exact .inl h1
    · exact .inr (hw_append_left h1)

theorem alt_tail {w : γ → Bool} {a : γ} {l : List γ} (h : Alt w (a :: l)) : Alt w l := h.2

theorem alt_cons_ws {w : γ → Bool} {a : γ} {l : List γ} (ha : w a = true) (h : Alt w l) : Alt w (a :: l) :=
  ⟨.inl ha, h⟩

/-- a partial map that keeps every whitespace element (as whitespace) keeps the shape -/
theorem alt_filterMap {δ : Type} {w : γ → Bool} {w' : δ → Bool} (f : γ → Option δ) (l : List γ)
    (hf : ∀ x ∈ l, w x = true → ∃ y, f x = some y ∧ w' y = true) (h : Alt w l) :
    Alt w' (l.filterMap f) := by
  induction l with
  | nil => trivial
  | cons a l ih =>
    obtain ⟨h1, h2⟩ := h
    have ih' := ih (fun x hx => hf x (List.mem_cons_of_mem _ hx)) h2
    rw [List.filterMap_cons]
    cases hfa : f a with
    | none => exact ih'
    | some y =>
      show Alt w' (y :: l.filterMap f)
      refine ⟨?_, ih'⟩
      rcases h1 with h1 | h1
      · obtain ⟨y', hy', hwy⟩ := hf a List.mem_cons_self h1
        rw [hfa] at hy'; cases hy'; exact .inl hwy
      · right
        cases l with
        | nil => simp [hw] at h1
        | cons b l =>
          simp only [hw] at h1
          obtain ⟨z, hz, hwz⟩ := hf b (by simp) h1
          rw [List.filterMap_cons, hz]
          exact hwz

theorem alt_map {δ : Type} {w : γ → Bool} {w' : δ → Bool} (f : γ → δ) (l : List γ)
    (hf : ∀ x ∈ l, w x = true → w' (f x) = true) (h : Alt w l) : Alt w' (l.map f) := by
  have := alt_filterMap (w' := w') (fun x => some (f x)) l (fun x hx hwx => ⟨f x, rfl, hf x hx hwx⟩) h
  rwa [List.filterMap_eq_map'] at this

theorem filterMap_ite (p : γ → Bool) (l : List γ) :
    l.filterMap (fun x => if p x then some x else none) = l.filter p := by
  induction l with
  | nil => rfl
  | cons a l ih =>
    rw [List.filterMap_cons, List.filter_cons]
    by_cases h : p a = true
    · simp only [h, if_true, ih]
    · simp only [h, Bool.false_eq_true, if_false, ih]

theorem alt_filter {w : γ → Bool} (p : γ → Bool) (l : List γ)
    (hp : ∀ x ∈ l, w x = true → p x = true) (h : Alt w l) : Alt w (l.filter p) := by
  have := alt_filterMap (w' := w) (fun x => if p x then some x else none) l
    (fun x hx hwx => ⟨x, by simp [hp x hx hwx], hwx⟩) h
  rwa [filterMap_ite] at this

/-- of two neighbouring whitespace elements the second may be dropped -/
theorem alt_drop_second {w : γ → Bool} (A : List γ) (p x : γ) (B : List γ) (hp : w p = true)
    (h : Alt w (A ++ p :: x :: B)) : Alt w (A ++ p :: B) := by
  induction A with
  | nil => exact alt_cons_ws hp h.2.2
  | cons a A ih =>
    obtain ⟨h1, h2⟩ := h
    show Alt w (a :: (A ++ p :: B))
    refine ⟨?_, ih h2⟩
    rcases h1 with h1 | h1
    · exact .inl h1
    · right
      cases A with
      | nil => simpa [hw] using hp
      | cons b A => simpa [hw] using h1

/-- two neighbouring elements, the second whitespace, may be replaced by one whitespace element -/
theorem alt_drop_first {w : γ → Bool} (A : List γ) (p x x' : γ) (B : List γ) (hx : w x' = true)
    (h : Alt w (A ++ p :: x :: B)) : Alt w (A ++ x' :: B) := by
  induction A with
  | nil => exact alt_cons_ws hx h.2.2
  | cons a A ih =>
    obtain ⟨h1, h2⟩ := h
    show Alt w (a :: (A ++ x' :: B))
    refine ⟨?_, ih h2⟩
    rcases h1 with h1 | h1
    · exact .inl h1
    · right
      cases A with
      | nil => simpa [hw] using hx
      | cons b A => simpa [hw] using h1

theorem alt_of_map {δ : Type} {w' : δ → Bool} (f : γ → δ) (l : List γ) (h : Alt w' (l.map f)) :
    Alt (fun x => w' (f x)) l := by
  induction l with
  | nil => trivial
  | cons a l ih =>
    obtain ⟨h1, h2⟩ := h
    refine ⟨?_, ih h2⟩
    rcases h1 with h1 | h1
    · exact .inl h1
    · right
      cases l with
      | nil => simp [hw] at h1
      | cons b l => simpa [hw] using h1

/-- the whitespace-folding reduce (`prune` of merge_two, `prune_whitespace`) keeps the shape -/
theorem alt_genFold {w : γ → Bool} (len : γ → Nat) (xs racc : List γ) (h : Alt w (racc.reverse ++ xs)) :
    Alt w ((xs.foldl (C16L.genStep w len) racc).reverse) := by
  induction xs generalizing racc with
  | nil => simpa using h
  | cons x xs ih =>
    rw [List.foldl_cons]
    apply ih
    cases racc with
    | nil => simpa [C16L.genStep] using h
    | cons prev rest =>
      have h' : Alt w (rest.reverse ++ prev :: x :: xs) := by simpa using h
      by_cases hb : (w x && w prev) = true
      · have hb' := hb
        rw [Bool.and_eq_true] at hb'
        by_cases hl : len x > len prev
        · have e : C16L.genStep w len (prev :: rest) x = x :: rest := by
            simp [C16L.genStep, hb'.1, hb'.2, hl]
          rw [e]
          simpa using alt_drop_first rest.reverse prev x x xs hb'.1 h'
        · have e : C16L.genStep w len (prev :: rest) x = prev :: rest := by
            simp [C16L.genStep, hb'.1, hb'.2, hl]
          rw [e]
          simpa using alt_drop_second rest.reverse prev x xs hb'.2 h'
      · have e : C16L.genStep w len (prev :: rest) x = x :: prev :: rest := by
          simp only [C16L.genStep, hb, Bool.false_eq_true, if_false]
        rw [e]
        simpa using h'

/-- the reduce never touches a first element that is not whitespace -/
theorem genFold_bottom {w : γ → Bool} (len : γ → Nat) (x : γ) (hx : w x = false) (xs : List γ) :
    ∀ (racc R : List γ), racc.reverse = x :: R → ∃ R', (xs.foldl (C16L.genStep w len) racc).reverse = x :: R' := by
  induction xs with
  | nil => intro racc R h; exact ⟨R, h⟩
  | cons y ys ih =>
    intro racc R h
    rw [List.foldl_cons]
    cases racc with
    | nil => simp at h
    | cons prev rest =>
      by_cases hb : (w y && w prev) = true
      · have hb' := hb
        rw [Bool.and_eq_true] at hb'
        by_cases hl : len y > len prev
        · have e : C16L.genStep w len (prev :: rest) y = y :: rest := by
            simp [C16L.genStep, hb'.1, hb'.2, hl]
          rw [e]
          rw [List.reverse_cons] at h
          cases hr : rest.reverse with
          | nil =>
            rw [hr] at h
            simp only [List.nil_append, List.cons.injEq] at h
            rw [h.1, hx] at hb'
            exact absurd hb'.2 (by simp)
          | cons a A =>
            rw [hr] at h
            simp only [List.cons_append, List.cons.injEq] at h
            exact ih (y :: rest) (A ++ [y]) (by rw [List.reverse_cons, hr, ← h.1]; rfl)
        · have e : C16L.genStep w len (prev :: rest) y = prev :: rest := by
            simp [C16L.genStep, hb'.1, hb'.2, hl]
          rw [e]
          exact ih _ R h
      · have e : C16L.genStep w len (prev :: rest) y = y :: prev :: rest := by
          simp only [C16L.genStep, hb, Bool.false_eq_true, if_false]
        rw [e]
        exact ih _ (R ++ [y]) (by rw [List.reverse_cons, h]; rfl)

theorem genFold_head {w : γ → Bool} (len : γ → Nat) (x : γ) (hx : w x = false) (xs : List γ) :
    ∃ R, ((x :: xs).foldl (C16L.genStep w len) []).reverse = x :: R := by
  rw [List.foldl_cons]
  exact genFold_bottom len x hx xs [x] [] rfl

end alt

/-! ### the closed form of `AddRemove` keeps the shape -/

section spec
variable {α : Type} [BEq α] [LawfulBEq α]

/-- the right-only keys anchored at `a` -/
def addsOf (l r : List α) (cur a : Option α) : List α :=
  ((anchors l r cur).filter (fun p => p.1 == a)).map (·.2)

omit [LawfulBEq α] in
theorem addsOf_nil (l : List α) (cur a : Option α) : addsOf l [] cur a = [] := rfl

omit [LawfulBEq α] in
theorem addsOf_cons_mem (l : List α) (x : α) (xs : List α) (cur a : Option α) (hx : l.contains x = true) :
    addsOf l (x :: xs) cur a = addsOf l xs (some x) a := by
  simp only [addsOf, anchors, hx, if_true]

omit [LawfulBEq α] in
theorem addsOf_cons_not (l : List α) (x : α) (xs : List α) (cur a : Option α) (hx : l.contains x = false) :
    addsOf l (x :: xs) cur a = if cur == a then x :: addsOf l xs cur a else addsOf l xs cur a := by
  simp only [addsOf, anchors, hx, Bool.false_eq_true, if_false, List.filter_cons]
  by_cases h : (cur == a) = true
  · simp [h]
  · simp [h]

theorem alt_addsOf (w : α → Bool) (l : List α) : ∀ (r : List α) (cur a : Option α),
    (∀ x ∈ r, l.contains x = true → w x = false) → Alt w r → Alt w (addsOf l r cur a) := by
  intro r
  induction r with
  | nil => intro _ _ _ _; trivial
  | cons x xs ih =>
    intro cur a hc h
    have hc' : ∀ y ∈ xs, l.contains y = true → w y = false := fun y hy => hc y (List.mem_cons_of_mem _ hy)
    by_cases hx : l.contains x = true
    · rw [addsOf_cons_mem l x xs cur a hx]
      exact ih _ _ hc' h.2
    · have hx' : l.contains x = false := by simpa using hx
      rw [addsOf_cons_not l x xs cur a hx']
      by_cases hca : (cur == a) = true
      · rw [if_pos hca]
        refine ⟨?_, ih _ _ hc' h.2⟩
        rcases h.1 with h1 | h1
        · exact .inl h1
        · right
          cases xs with
          | nil => simp [hw] at h1
          | cons b xs' =>
            simp only [hw] at h1
            have hb : l.contains b = false := by
              cases hbb : l.contains b
              · rfl
              · rw [hc b (by simp) hbb] at h1; exact absurd h1 (by simp)
            rw [addsOf_cons_not l b xs' cur a hb, if_pos hca]
            exact h1
      · rw [if_neg hca]
        exact ih _ _ hc' h.2

/-- a shared key (never whitespace) is followed, on the right side, by a whitespace key: its anchored keys start
    with whitespace -/
theorem hw_addsOf (w : α → Bool) (l : List α) (x : α) (hxl : l.contains x = true) : ∀ (r : List α) (cur : Option α),
    (∀ y ∈ r, l.contains y = true → w y = false) → Alt w r → x ∈ r → cur ≠ some x →
      hw w (addsOf l r cur (some x)) = true := by
  intro r
  induction r with
  | nil => intro _ _ _ hm; simp at hm
  | cons y ys ih =>
    intro cur hc h hm hcur
    have hc' : ∀ z ∈ ys, l.contains z = true → w z = false := fun z hz => hc z (List.mem_cons_of_mem _ hz)
    by_cases hy : l.contains y = true
    · rw [addsOf_cons_mem l y ys cur _ hy]
      by_cases hyx : y = x
      · subst hyx
        have hwy : w y = false := hc y (by simp) hy
        rcases h.1 with h1 | h1
        · rw [hwy] at h1; exact absurd h1 (by simp)
        · cases ys with
          | nil => simp [hw] at h1
          | cons b ys' =>
            simp only [hw] at h1
            have hb : l.contains b = false := by
              cases hbb : l.contains b
              · rfl
              · rw [hc b (by simp) hbb] at h1; exact absurd h1 (by simp)
            rw [addsOf_cons_not l b ys' _ _ hb, if_pos (by simp)]
            exact h1
      · have hm' : x ∈ ys := by
          rcases List.mem_cons.1 hm with e | e
          · exact absurd e.symm hyx
          · exact e
        exact ih _ hc' h.2 hm' (by intro e; exact hyx (Option.some.inj e))
    · have hy' : l.contains y = false := by simpa using hy
      have hyx : y ≠ x := by intro e; subst e; rw [hxl] at hy'; exact absurd hy' (by simp)
      have hm' : x ∈ ys := by
        rcases List.mem_cons.1 hm with e | e
        · exact absurd e.symm hyx
        · exact e
      rw [addsOf_cons_not l y ys cur _ hy', if_neg (by simpa using hcur)]
      exact ih _ hc' h.2 hm' hcur

/-- nothing is anchored at a key the right side does not have -/
theorem addsOf_not_mem (l : List α) (x : α) : ∀ (r : List α) (cur : Option α), x ∉ r → cur ≠ some x →
    addsOf l r cur (some x) = [] := by
  intro r
  induction r with
  | nil => intro _ _ _; rfl
  | cons y ys ih =>
    intro cur hm hcur
    have hyx : y ≠ x := by intro e; subst e; exact hm (by simp)
    have hm' : x ∉ ys := fun h => hm (List.mem_cons_of_mem _ h)
    by_cases hy : l.contains y = true
    · rw [addsOf_cons_mem l y ys cur _ hy]
      exact ih _ hm' (by intro e; exact hyx (Option.some.inj e))
    · have hy' : l.contains y = false := by simpa using hy
      rw [addsOf_cons_not l y ys cur _ hy', if_neg (by simpa using hcur)]
      exact ih _ hm' hcur

omit [LawfulBEq α] in
/-- once a shared key has been met, nothing more is anchored at the start -/
theorem addsOf_some_none (l : List α) : ∀ (r : List α) (c : α), addsOf l r (some c) none = [] := by
  intro r
  induction r with
  | nil => intro _; rfl
  | cons y ys ih =>
    intro c
    by_cases hy : l.contains y = true
    · rw [addsOf_cons_mem l y ys _ _ hy]; exact ih y
    · have hy' : l.contains y = false := by simpa using hy
      rw [addsOf_cons_not l y ys _ _ hy', if_neg (by simp)]
      exact ih c

omit [LawfulBEq α] in
/-- a right side that is empty or starts with a shared key has no unanchored keys -/
theorem addsOf_none_head (l r : List α) (h : ∀ x, r.head? = some x → l.contains x = true) :
    addsOf l r none none = [] := by
  cases r with
  | nil => rfl
  | cons y ys =>
    rw [addsOf_cons_mem l y ys _ _ (h y rfl)]
    exact addsOf_some_none l ys y

omit [LawfulBEq α] in
/-- … so the closed form starts with the first key of the left side -/
theorem spec_head (k : α) (l r : List α) (h : ∀ x, r.head? = some x → (k :: l).contains x = true) :
    ∃ K, (spec (k :: l) r).map (·.2) = k :: K := by
  rw [spec_keys]
  have := addsOf_none_head (k :: l) r h
  unfold addsOf at this
  rw [this, List.nil_append, List.flatMap_cons]
  exact ⟨_, rfl⟩

theorem addRemove_head (k : α) (l r : List α) (hln : (k :: l).Nodup) (hrn : r.Nodup)
    (h : ∀ x, r.head? = some x → (k :: l).contains x = true) :
    ∃ K, (addRemove (k :: l) r).map (·.2) = k :: K := by
  rw [addRemove_eq_spec _ r hln hrn]
  exact spec_head k l r h

theorem alt_flat (w : α → Bool) (l r : List α) (hc : ∀ y ∈ r, l.contains y = true → w y = false) (hr : Alt w r) :
    ∀ l1 : List α, (∀ k ∈ l1, l.contains k = true) → Alt w l1 →
      Alt w (l1.flatMap (fun k => k :: addsOf l r none (some k))) := by
  intro l1
  induction l1 with
  | nil => intro _ _; trivial
  | cons k l1 ih =>
    intro hsub h
    have ih' := ih (fun k' hk' => hsub k' (List.mem_cons_of_mem _ hk')) h.2
    rw [List.flatMap_cons]
    show Alt w (k :: (addsOf l r none (some k) ++ l1.flatMap (fun k => k :: addsOf l r none (some k))))
    refine ⟨?_, alt_append (alt_addsOf w l r none (some k) hc hr) ih'⟩
    rcases h.1 with h1 | h1
    · exact .inl h1
    · right
      by_cases hkr : k ∈ r
      · exact hw_append_left (hw_addsOf w l k (hsub k (by simp)) r none hc hr hkr (by simp))
      · rw [addsOf_not_mem l k r none hkr (by simp), List.nil_append]
        cases l1 with
        | nil => simp [hw] at h1
        | cons b l1' =>
          simp only [hw] at h1
          rw [List.flatMap_cons]
          exact h1

/-- the key sequence of the closed form: if both sides have the shape and no whitespace key is shared, the diff has
    the shape -/
theorem alt_spec (w : α → Bool) (l r : List α) (hc : ∀ y ∈ r, y ∈ l → w y = false) (hl : Alt w l) (hr : Alt w r) :
    Alt w ((spec l r).map (·.2)) := by
  have hc' : ∀ y ∈ r, l.contains y = true → w y = false := fun y hy h => hc y hy (by simpa using h)
  rw [spec_keys]
  exact alt_append (alt_addsOf w l r none none hc' hr)
    (alt_flat w l r hc' hr l (fun k hk => by simpa using hk) hl)

theorem alt_addRemove (w : α → Bool) (l r : List α) (hln : l.Nodup) (hrn : r.Nodup)
    (hc : ∀ y ∈ r, y ∈ l → w y = false) (hl : Alt w l) (hr : Alt w r) :
    Alt w ((addRemove l r).map (·.2)) := by
  rw [addRemove_eq_spec l r hln hrn]
  exact alt_spec w l r hc hl hr

end spec

end C16R

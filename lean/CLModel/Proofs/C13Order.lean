/-
C13 helper lemmas: Python's string order on paths, `sorted(known.items())`.
-/
import CLModel.Paths.ProjectFiles
namespace PF

theorem pathLt_irrefl : ∀ a : Path, pathLt a a = false
  | [] => rfl
  | x :: xs => by simp [pathLt, pathLt_irrefl xs]

theorem pathLt_trans : ∀ {a b c : Path}, pathLt a b = true → pathLt b c = true → pathLt a c = true
  | [], [], _, h, _ => by simp [pathLt] at h
  | [], _ :: _, [], _, h => by simp [pathLt] at h
  | [], _ :: _, _ :: _, _, _ => by simp [pathLt]
  | _ :: _, [], _, h, _ => by simp [pathLt] at h
  | _ :: _, _ :: _, [], _, h => by simp [pathLt] at h
  | x :: xs, y :: ys, z :: zs, h1, h2 => by
    simp only [pathLt, Bool.or_eq_true, decide_eq_true_eq, Bool.and_eq_true, beq_iff_eq] at h1 h2 ⊢
    rcases h1 with h1 | ⟨e1, h1⟩
    · rcases h2 with h2 | ⟨e2, _⟩
      · left; omega
      · left; omega
    · rcases h2 with h2 | ⟨e2, h2⟩
      · left; omega
      · right; exact ⟨by omega, pathLt_trans h1 h2⟩

/-- trichotomy -/
theorem pathLt_connex : ∀ {a b : Path}, pathLt a b = false → a ≠ b → pathLt b a = true
  | [], [], _, h => absurd rfl h
  | [], _ :: _, h, _ => by simp [pathLt] at h
  | _ :: _, [], _, _ => by simp [pathLt]
  | x :: xs, y :: ys, h, hne => by
    simp only [pathLt, Bool.or_eq_false_iff, decide_eq_false_iff_not, Bool.and_eq_false_iff, beq_eq_false_iff_ne] at h
    simp only [pathLt, Bool.or_eq_true, decide_eq_true_eq, Bool.and_eq_true, beq_iff_eq]
    rcases h with ⟨h1, h2⟩
    by_cases e : x = y
    · subst e
      right
      refine ⟨rfl, ?_⟩
      rcases h2 with h2 | h2
      · exact absurd rfl h2
      · exact pathLt_connex h2 (fun e => hne (by rw [e]))
    · left; omega

theorem pathLt_asymm {a b : Path} (h : pathLt a b = true) : pathLt b a = false := by
  cases hb : pathLt b a
  · rfl
  · have := pathLt_trans h hb
    rw [pathLt_irrefl] at this
    exact absurd this (by decide)

/-- `pathLt` is `<` of core's lexicographic order on `List Nat` -/
theorem pathLt_iff_lt : ∀ (a b : Path), pathLt a b = true ↔ a < b
  | [], [] => by simp [pathLt]
  | [], _ :: _ => by simp [pathLt]
  | _ :: _, [] => by simp [pathLt]
  | x :: xs, y :: ys => by
    simp only [pathLt, Bool.or_eq_true, decide_eq_true_eq, Bool.and_eq_true, beq_iff_eq, List.cons_lt_cons_iff]
    rw [pathLt_iff_lt xs ys]

/-! ### insertion sort -/

theorem mem_insertSorted {x z : Path × Entry} : ∀ {l : Known}, z ∈ insertSorted x l ↔ z = x ∨ z ∈ l
  | [] => by simp [insertSorted]
  | y :: ys => by
    simp only [insertSorted]
    split
    · simp only [List.mem_cons, mem_insertSorted (l := ys)]
      constructor
      · rintro (h | h | h) <;> simp [h]
      · rintro (h | h | h) <;> simp [h]
    · simp [List.mem_cons]

theorem mem_sortKnown {z : Path × Entry} : ∀ {l : Known}, z ∈ sortKnown l ↔ z ∈ l
  | [] => by simp [sortKnown]
  | y :: ys => by
    have ih := mem_sortKnown (z := z) (l := ys)
    simp only [sortKnown, List.foldr_cons] at ih ⊢
    rw [mem_insertSorted, ih, List.mem_cons]

def StrictSorted (l : Known) : Prop := l.Pairwise (fun a b => pathLt a.1 b.1 = true)

theorem insertSorted_sorted {x : Path × Entry} : ∀ {l : Known}, StrictSorted l → (∀ y ∈ l, y.1 ≠ x.1) →
    StrictSorted (insertSorted x l)
  | [], _, _ => by simp [insertSorted, StrictSorted]
  | y :: ys, hs, hne => by
    unfold StrictSorted at hs ⊢
    rw [List.pairwise_cons] at hs
    simp only [insertSorted]
    split
    · rename_i hlt
      rw [List.pairwise_cons]
      refine ⟨?_, insertSorted_sorted hs.2 (fun z hz => hne z (List.mem_cons_of_mem _ hz))⟩
      intro z hz
      rcases mem_insertSorted.1 hz with rfl | hz
      · exact hlt
      · exact hs.1 z hz
    · rename_i hlt
      have hxy : pathLt x.1 y.1 = true :=
        pathLt_connex (by simpa using hlt) (hne y List.mem_cons_self)
      rw [List.pairwise_cons]
      refine ⟨?_, List.pairwise_cons.2 hs⟩
      intro z hz
      rcases List.mem_cons.1 hz with rfl | hz
      · exact hxy
      · exact pathLt_trans hxy (hs.1 z hz)

theorem sortKnown_sorted : ∀ {l : Known}, (l.map (·.1)).Nodup → StrictSorted (sortKnown l)
  | [], _ => by simp [sortKnown, StrictSorted]
  | y :: ys, h => by
    rw [List.map_cons, List.nodup_cons] at h
    have ih := sortKnown_sorted h.2
    simp only [sortKnown, List.foldr_cons] at ih ⊢
    refine insertSorted_sorted ih ?_
    intro z hz e
    have : z ∈ ys := mem_sortKnown.1 hz
    exact h.1 (e ▸ List.mem_map_of_mem this)

end PF

/-
Helper lemmas for C07 about the model of DTDChecker.check: sets as sorted lists, the
declared names, the sections of the result list.
-/
import CLModel.Checks.Dtd
namespace Dtd

/-! ### sets -/

theorem mem_insSorted {x y : Text} {l : List Text} : y ∈ insSorted x l ↔ y = x ∨ y ∈ l := by
  induction l with
  | nil => simp [insSorted]
  | cons a as ih =>
    simp only [insSorted]
    split
    · simp
    · simp [ih]; grind

theorem mem_sadd {x y : Text} {s : List Text} : y ∈ sadd x s ↔ y = x ∨ y ∈ s := by
  unfold sadd
  split
  · rename_i h
    have : x ∈ s := by simpa using h
    constructor
    · exact Or.inr
    · rintro (rfl | h) <;> assumption
  · exact mem_insSorted

theorem nodup_insSorted {x : Text} {l : List Text} (hx : x ∉ l) (hl : l.Nodup) : (insSorted x l).Nodup := by
  induction l with
  | nil => simp [insSorted]
  | cons a as ih =>
    simp only [insSorted]
    split
    · exact List.nodup_cons.mpr ⟨hx, hl⟩
    · have hx' : x ∉ as := fun h => hx (List.mem_cons_of_mem _ h)
      have hxa : x ≠ a := fun h => hx (by simp [h])
      rw [List.nodup_cons] at hl ⊢
      refine ⟨?_, ih hx' hl.2⟩
      rw [mem_insSorted]
      rintro (h | h)
      · exact hxa h.symm
      · exact hl.1 h

theorem nodup_sadd {x : Text} {s : List Text} (hs : s.Nodup) : (sadd x s).Nodup := by
  unfold sadd
  split
  · exact hs
  · rename_i h
    exact nodup_insSorted (by simpa using h) hs

theorem mem_foldl_sadd {y : Text} (l : List Text) (s : List Text) :
    y ∈ l.foldl (fun s x => sadd x s) s ↔ y ∈ l ∨ y ∈ s := by
  induction l generalizing s with
  | nil => simp
  | cons a as ih => simp only [List.foldl_cons, ih, mem_sadd, List.mem_cons]; grind

theorem nodup_foldl_sadd (l : List Text) (s : List Text) (hs : s.Nodup) :
    (l.foldl (fun s x => sadd x s) s).Nodup := by
  induction l generalizing s with
  | nil => simpa
  | cons a as ih => exact ih _ (nodup_sadd hs)

theorem mem_sOfList {y : Text} {l : List Text} : y ∈ sOfList l ↔ y ∈ l := by
  simp [sOfList, mem_foldl_sadd]

theorem nodup_sOfList (l : List Text) : (sOfList l).Nodup := nodup_foldl_sadd l [] List.nodup_nil

theorem mem_sunion {y : Text} {a b : List Text} : y ∈ sunion a b ↔ y ∈ a ∨ y ∈ b := by
  simp [sunion, mem_foldl_sadd]; grind

theorem mem_sdiff {y : Text} {a b : List Text} : y ∈ sdiff a b ↔ y ∈ a ∧ y ∉ b := by
  simp [sdiff]

theorem nodup_sdiff {a b : List Text} (h : a.Nodup) : (sdiff a b).Nodup := h.filter _

/-! ### names -/

theorem mem_entitiesForValue {n v : Text} :
    n ∈ entitiesForValue v ↔ n ∈ erefNames v ∧ n ∉ Gen.Tables.xmllist := by
  simp [entitiesForValue, mem_sdiff, mem_sOfList]

theorem nodup_entitiesForValue (v : Text) : (entitiesForValue v).Nodup := nodup_sdiff (nodup_sOfList _)

theorem mem_foldl_sunion {n : Text} (vals : List Text) (acc : List Text) :
    n ∈ vals.foldl (fun acc v => sunion acc (entitiesForValue v)) acc ↔
      n ∈ acc ∨ ∃ v ∈ vals, n ∈ entitiesForValue v := by
  induction vals generalizing acc with
  | nil => simp
  | cons a as ih =>
    simp only [List.foldl_cons, ih, mem_sunion, List.mem_cons, exists_eq_or_imp]; grind

/-- the reference values whose entity references are "known": all of the reference file if a
    reference is set (`needs_reference`), otherwise just the reference entity's value -/
def refValsOf (i : Inp) : List Text :=
  match i.reference with
  | some vals => vals
  | none => [i.ref.val]

/-- the known entities: referenced by some of those values and not an XML built-in -/
theorem mem_knownEntities {n : Text} {i : Inp} :
    n ∈ knownEntities i ↔ ∃ v ∈ refValsOf i, n ∈ erefNames v ∧ n ∉ Gen.Tables.xmllist := by
  unfold knownEntities refValsOf
  cases i.reference with
  | none => simp [mem_entitiesForValue]
  | some vals => simp [mem_foldl_sunion, mem_entitiesForValue]

theorem mem_missingOf {n : Text} {i : Inp} :
    n ∈ missingOf i ↔ n ∈ erefNames i.l10n.val ∧ n ∉ Gen.Tables.xmllist ∧ n ∉ knownEntities i := by
  simp [missingOf, mem_sdiff, l10nlistOf, reflistOf, mem_entitiesForValue, and_assoc]

theorem nodup_missingOf (i : Inp) : (missingOf i).Nodup := nodup_sdiff (nodup_entitiesForValue _)

theorem entityDecls_append (a b : List Text) : entityDecls (a ++ b) = entityDecls a ++ entityDecls b := by
  simp [entityDecls]

theorem l10nDecls_eq (i : Inp) : l10nDecls i = entityDecls (declaredNames i) := by
  simp [l10nDecls, declaredNames, refDecls, entityDecls_append]

theorem andThen_ok {a : Out} {f : Unit → Out} (h : (a.andThen f).exc = none) :
    a.exc = none ∧ (f ()).exc = none ∧ (a.andThen f).results = a.results ++ (f ()).results := by
  unfold Out.andThen at h ⊢
  cases ha : a.exc with
  | some e => simp [ha] at h
  | none => simp [ha] at h ⊢; exact h

/-- the fixed part of the result list after the two parses -/
def staticSections (i : Inp) : List Result :=
  unknownSection i ++ mismatchSection i ++ numberSection i.ref.val i.l10n.val ++
    lengthSection i.ref.val i.l10n.val ++ maybeStyle i.ref.val i.l10n.val

def androidResults (xmlParse : Bytes → ParseRes) (i : Inp) : List Result :=
  if i.android then (androidSection (l10nSection xmlParse i).2).results else []

/-- without an exception, the results are the concatenation of the sections in program order -/
theorem check_results (xmlParse : Bytes → ParseRes) (i : Inp) (h : (check xmlParse i).exc = none) :
    (check xmlParse i).results =
      baseCheck i.l10n ++ (refSection xmlParse i).results ++ (l10nSection xmlParse i).1.results ++
        staticSections i ++ androidResults xmlParse i := by
  unfold check at h ⊢
  obtain ⟨_, h1, e1⟩ := andThen_ok h
  obtain ⟨_, h2, e2⟩ := andThen_ok h1
  obtain ⟨_, h3, e3⟩ := andThen_ok h2
  obtain ⟨_, h4, e4⟩ := andThen_ok h3
  rw [e1, e2, e3, e4]
  simp only [Out.ok, staticSections, androidResults, List.append_assoc]
  congr 4
  split <;> rfl

theorem cat_baseCheck (l : Ent) : ∀ r ∈ baseCheck l, r.cat = .encodings := by
  intro r hr
  simp only [baseCheck, List.mem_map] at hr
  obtain ⟨_, _, rfl⟩ := hr
  rfl

theorem refSection_results (xmlParse : Bytes → ParseRes) (i : Inp) :
    ∀ r ∈ (refSection xmlParse i).results, r = ⟨.warning, .lc 0 0, msgCantParse, .xmlparse⟩ := by
  intro r hr
  unfold refSection at hr
  split at hr
  · simp at hr
  · split at hr
    · simpa [Out.ok] using hr
    · split at hr
      · simp at hr
      · split at hr
        · simpa [Out.ok] using hr
        · simp [Out.ok] at hr

theorem errorPos_isSome (v : Text) (line col : Nat) : (errorPos v line col).isSome = true := by
  unfold errorPos
  simp only
  split
  · split
    · rfl
    · rename_i hne
      have hlen : 0 < (splitLines v).length := by
        cases h : splitLines v with
        | nil => simp [h] at hne
        | cons a as => simp
      have : pyGet (splitLines v) ((splitLines v).length - 1 : Int) = (splitLines v)[(splitLines v).length - 1]? := by
        unfold pyGet
        have h1 : ¬ (((splitLines v).length : Int) - 1 < 0) := by omega
        simp only [h1, if_false]
        congr 1
        omega
      rw [this]
      have : (splitLines v)[(splitLines v).length - 1]? = some ((splitLines v)[(splitLines v).length - 1]'(by omega)) :=
        List.getElem?_eq_getElem (by omega)
      rw [this]
      rfl
  · split
    · rfl
    · split <;> rfl

/-- expat's verdict on the localized value: the first error among the two documents, in program order -/
def l10nVerdict (xmlParse : Bytes → ParseRes) (i : Inp) : Option (Nat × Nat × Text) :=
  match docValue (l10nDecls i) i.l10n.val with
  | none => none
  | some d3 =>
    match (xmlParse d3).err with
    | some e => some e
    | none =>
      match docDecl (l10nDecls i) i.l10n with
      | none => none
      | some d4 => (xmlParse d4).err

/-- the result an expat error is turned into -/
def xmlErrorResult (l10nVal : Text) (e : Nat × Nat × Text) : List Result :=
  match errorPos l10nVal e.1 e.2.1 with
  | some p => [⟨.error, .lc p.1 p.2, e.2.2, .xmlparse⟩]
  | none => []

/-- no error, no result; an error, its one result -/
def verdictResults (l10nVal : Text) : Option (Nat × Nat × Text) → List Result
  | some e => xmlErrorResult l10nVal e
  | none => []

theorem xmlError_eq (v : Text) (e : Nat × Nat × Text) :
    xmlError v e = .ok (xmlErrorResult v e) ∧ (xmlErrorResult v e).length = 1 := by
  have h := errorPos_isSome v e.1 e.2.1
  unfold xmlError xmlErrorResult
  cases hp : errorPos v e.1 e.2.1 with
  | none => simp [hp] at h
  | some p => simp

theorem l10nSection_results (xmlParse : Bytes → ParseRes) (i : Inp)
    (h : (l10nSection xmlParse i).1.exc = none) :
    (l10nSection xmlParse i).1.results = verdictResults i.l10n.val (l10nVerdict xmlParse i) := by
  unfold l10nSection at h ⊢
  unfold l10nVerdict verdictResults
  cases h3 : docValue (l10nDecls i) i.l10n.val with
  | none => simp [h3] at h
  | some d3 =>
    simp only [h3] at h ⊢
    cases e3 : (xmlParse d3).err with
    | some e => simp only [(xmlError_eq i.l10n.val e).1, Out.ok]
    | none =>
      simp only [e3] at h ⊢
      cases h4 : docDecl (l10nDecls i) i.l10n with
      | none => simp [h4] at h
      | some d4 =>
        simp only [h4] at h ⊢
        cases e4 : (xmlParse d4).err with
        | some e => simp only [(xmlError_eq i.l10n.val e).1, Out.ok]
        | none => simp [Out.ok]

def isXmlError (r : Result) : Bool := r.level == .error && r.cat == .xmlparse

theorem xmlErrorResult_all (v : Text) (e : Nat × Nat × Text) : ∀ r ∈ xmlErrorResult v e, isXmlError r = true := by
  intro r hr
  unfold xmlErrorResult at hr
  split at hr
  · simp at hr; subst hr; rfl
  · simp at hr

theorem level_unknownSection (i : Inp) : ∀ r ∈ unknownSection i, r.level = .warning ∧ r.cat = .xmlparse := by
  intro r hr
  simp only [unknownSection, List.mem_map] at hr
  obtain ⟨_, _, rfl⟩ := hr
  exact ⟨rfl, rfl⟩

theorem level_mismatchSection (i : Inp) : ∀ r ∈ mismatchSection i, r.level = .warning ∧ r.cat = .xmlparse ∧
    ∃ t, r.msg = 69 :: t := by
  intro r hr
  unfold mismatchSection at hr
  simp only at hr
  split at hr
  · simp only [List.mem_map] at hr
    obtain ⟨_, _, rfl⟩ := hr
    exact ⟨rfl, rfl, _, rfl⟩
  · simp at hr

theorem cat_numberSection (a b : Text) : ∀ r ∈ numberSection a b, r.cat = .number := by
  intro r hr
  unfold numberSection at hr
  split at hr
  · simp at hr; subst hr; rfl
  · simp at hr

theorem cat_lengthSection (a b : Text) : ∀ r ∈ lengthSection a b, r.cat = .css := by
  intro r hr
  unfold lengthSection at hr
  split at hr
  · simp at hr; subst hr; rfl
  · simp at hr

theorem cat_checkStyle (rm : List (Text × Text)) (lm : Option (List (Text × Text))) (er : Option (List CssErr)) :
    ∀ r ∈ checkStyle rm lm er, r.cat = .css := by
  intro r hr
  unfold checkStyle at hr
  split at hr
  · simp at hr; subst hr; rfl
  · simp at hr; subst hr; rfl
  · split at hr
    · simp at hr; subst hr; rfl
    · simp only at hr
      split at hr
      · simp at hr; subst hr; rfl
      · simp at hr

theorem cat_maybeStyle (a b : Text) : ∀ r ∈ maybeStyle a b, r.cat = .css := by
  intro r hr
  unfold maybeStyle at hr
  split at hr
  · simp at hr
  · simp at hr
  · exact cat_checkStyle _ _ _ r hr

theorem cat_androidSection (v : Text) : ∀ r ∈ (androidSection v).results, r.cat = .android := by
  intro r hr
  unfold androidSection at hr
  simp only at hr
  have key : ∀ (a : Out) (f : Unit → Out), (∀ r ∈ a.results, r.cat = .android) → (∀ r ∈ (f ()).results, r.cat = .android) →
      ∀ r ∈ (a.andThen f).results, r.cat = .android := by
    intro a f ha hf r hr
    unfold Out.andThen at hr
    split at hr
    · exact ha r hr
    · simp only [List.mem_append] at hr
      rcases hr with h | h
      · exact ha r h
      · exact hf r h
  refine key _ _ ?_ ?_ r hr
  · intro r hr
    split at hr <;> simp [Out.ok] at hr
    subst hr; rfl
  · intro r hr
    simp only [Out.ok, List.mem_filterMap] at hr
    obtain ⟨x, _, hx⟩ := hr
    split at hx
    · split at hx
      · simp at hx; subst hx; rfl
      · simp at hx
    · simp at hx

theorem dget_dpop_ne (rm : List (Text × Text)) {p q : Text} (h : q ≠ p) : dget (dpop rm p) q = dget rm q := by
  induction rm with
  | nil => rfl
  | cons a as ih =>
    unfold dget dpop at ih ⊢
    by_cases hap : a.1 = p
    · have hq : (a.1 == q) = false := by simp [hap, Ne.symm h]
      simp only [List.filter_cons, hap, beq_self_eq_true, Bool.not_true, Bool.false_eq_true, if_false,
        List.find?_cons]
      rw [show (p == q) = false by simp [Ne.symm h]]
      simpa using ih
    · have : (!(a.1 == p)) = true := by simp [hap]
      simp only [List.filter_cons, this, if_true, List.find?_cons]
      cases hq : (a.1 == q) with
      | true => rfl
      | false => simpa using ih

theorem dget_none_iff (rm : List (Text × Text)) (p : Text) : dget rm p = none ↔ p ∉ rm.map Prod.fst := by
  induction rm with
  | nil => simp [dget]
  | cons a as ih =>
    unfold dget at ih ⊢
    simp only [List.find?_cons, List.map_cons, List.mem_cons, not_or]
    by_cases h : a.1 = p
    · simp [h]
    · have : (a.1 == p) = false := by simp [h]
      simp only [this]
      rw [ih]
      constructor
      · intro h2; exact ⟨fun e => h e.symm, h2⟩
      · intro h2; exact h2.2

theorem dpop_eq_filter (rm : List (Text × Text)) (p : Text) : dpop rm p = rm.filter (fun q => !(q.1 == p)) := rfl

theorem styleStep_msgs_mono (st : List (Text × Text) × List Text) (pu : Text × Text) :
    st.2 ≠ [] → (styleStep st pu).2 ≠ [] := by
  intro h
  unfold styleStep
  split
  · simp
  · split <;> simp [h]

theorem foldl_styleStep_mono (lm : List (Text × Text)) (st : List (Text × Text) × List Text) :
    st.2 ≠ [] → (lm.foldl styleStep st).2 ≠ [] := by
  induction lm generalizing st with
  | nil => exact id
  | cons a as ih => intro h; exact ih _ (styleStep_msgs_mono st a h)

/-- the remaining reference map after the loop: everything whose property the localization does not have -/
theorem foldl_styleStep_fst (lm : List (Text × Text)) (st : List (Text × Text) × List Text) :
    (lm.foldl styleStep st).1 = st.1.filter (fun q => !(lm.map Prod.fst).contains q.1) := by
  induction lm generalizing st with
  | nil =>
    simp only [List.foldl_nil, List.map_nil, List.contains_nil, Bool.not_false]
    exact (List.filter_eq_self.mpr (fun _ _ => rfl)).symm
  | cons a as ih =>
    rw [List.foldl_cons, ih]
    have : (styleStep st a).1 = st.1.filter (fun q => !(q.1 == a.1)) := by
      unfold styleStep
      split
      · rename_i hnone
        have := (dget_none_iff st.1 a.1).mp hnone
        simp only
        symm
        rw [List.filter_eq_self]
        intro q hq
        have : q.1 ≠ a.1 := by
          intro h; apply this; rw [← h]; exact List.mem_map_of_mem hq
        simp [this]
      · split <;> rfl
    rw [this, List.filter_filter]
    congr 1
    funext q
    simp only [List.map_cons, List.contains_cons, Bool.not_or, Bool.and_comm]

theorem foldl_styleStep_nil_iff (lm : List (Text × Text)) (hnd : (lm.map Prod.fst).Nodup)
    (st : List (Text × Text) × List Text) :
    (lm.foldl styleStep st).2 = [] ↔ st.2 = [] ∧ ∀ pu ∈ lm, dget st.1 pu.1 = some pu.2 := by
  induction lm generalizing st with
  | nil => simp
  | cons a as ih =>
    simp only [List.map_cons, List.nodup_cons] at hnd
    rw [List.foldl_cons]
    constructor
    · intro h
      have hst : st.2 = [] := by
        by_cases hst : st.2 = []
        · exact hst
        · exact absurd h (foldl_styleStep_mono as _ (styleStep_msgs_mono st a hst))
      have h' := (ih hnd.2 _).mp h
      unfold styleStep at h'
      cases hg : dget st.1 a.1 with
      | none => simp [hg] at h'
      | some ru =>
        simp only [hg] at h'
        by_cases hu : a.2 = ru
        · subst hu
          simp only [bne_self_eq_false, Bool.false_eq_true, if_false] at h'
          refine ⟨hst, ?_⟩
          intro pu hpu
          rcases List.mem_cons.mp hpu with rfl | hmem
          · exact hg
          · have hne : pu.1 ≠ a.1 := by
              intro he; apply hnd.1; rw [← he]; exact List.mem_map_of_mem hmem
            rw [← dget_dpop_ne st.1 hne]
            exact h'.2 pu hmem
        · have : (a.2 != ru) = true := by simp [hu]
          simp [this] at h'
    · rintro ⟨hst, hall⟩
      have ha := hall a (List.mem_cons_self ..)
      rw [ih hnd.2]
      unfold styleStep
      simp only [ha, bne_self_eq_false, Bool.false_eq_true, if_false]
      refine ⟨hst, ?_⟩
      intro pu hmem
      have hne : pu.1 ≠ a.1 := by
        intro he; apply hnd.1; rw [← he]; exact List.mem_map_of_mem hmem
      rw [dget_dpop_ne st.1 hne]
      exact hall pu (List.mem_cons_of_mem _ hmem)

theorem foldl_cons_ne_nil {α β : Type} (f : β → α) (l : List β) (acc : List α) (h : acc ≠ []) :
    l.foldl (fun msgs p => f p :: msgs) acc ≠ [] := by
  induction l generalizing acc with
  | nil => exact h
  | cons a as ih => exact ih _ (by simp)

/-- the CSS comparison is silent iff every localized property has the reference's unit and every
    reference property occurs in the localization -/
theorem styleMsgs_nil_iff (refMap lm : List (Text × Text)) (hnd : (lm.map Prod.fst).Nodup) :
    styleMsgs refMap lm = [] ↔
      (∀ pu ∈ lm, dget refMap pu.1 = some pu.2) ∧ (∀ q ∈ refMap, q.1 ∈ lm.map Prod.fst) := by
  unfold styleMsgs
  simp only
  have hfst := foldl_styleStep_fst lm (refMap, [])
  have hsnd := foldl_styleStep_nil_iff lm hnd (refMap, [])
  constructor
  · intro h
    have h1 : (lm.foldl styleStep (refMap, [])).1 = [] := by
      cases hrm : (lm.foldl styleStep (refMap, [])).1 with
      | nil => rfl
      | cons a as =>
        rw [hrm, List.foldl_cons] at h
        exact absurd h (foldl_cons_ne_nil _ as _ (by simp))
    rw [h1] at h
    simp only [List.foldl_nil] at h
    refine ⟨(hsnd.mp h).2, ?_⟩
    rw [hfst] at h1
    intro q hq
    have := List.filter_eq_nil_iff.mp h1 q hq
    simpa using this
  · rintro ⟨hall, hkeys⟩
    have h2 : (lm.foldl styleStep (refMap, [])).2 = [] := hsnd.mpr ⟨rfl, hall⟩
    have h1 : (lm.foldl styleStep (refMap, [])).1 = [] := by
      rw [hfst]
      apply List.filter_eq_nil_iff.mpr
      intro q hq
      simpa using hkeys q hq
    rw [h1, h2]; rfl

theorem dset_keys (d : List (Text × Text)) (k v : Text) :
    (dset d k v).map Prod.fst = if d.any (·.1 == k) then d.map Prod.fst else d.map Prod.fst ++ [k] := by
  unfold dset
  split
  · rw [List.map_map]
    apply List.map_congr_left
    intro p _
    simp only [Function.comp]
    split
    · rename_i h; simpa using (by simpa using h : p.1 = k).symm
    · rfl
  · simp

theorem dset_nodup (d : List (Text × Text)) (k v : Text) (h : (d.map Prod.fst).Nodup) :
    ((dset d k v).map Prod.fst).Nodup := by
  rw [dset_keys]
  split
  · exact h
  · rename_i hany
    rw [List.nodup_append]
    refine ⟨h, by simp, ?_⟩
    intro a ha b hb
    simp only [List.mem_singleton] at hb
    subst hb
    intro hab
    apply hany
    simp only [List.any_eq_true]
    obtain ⟨p, hp, rfl⟩ := List.mem_map.mp ha
    exact ⟨p, hp, by simp [hab]⟩

def mapNodup (m : Option (List (Text × Text))) : Prop :=
  match m with
  | some l => (l.map Prod.fst).Nodup
  | none => True

theorem cssStep_nodup (s : Array Nat) (stt stt' : CssState) (m : Nat × Rx.St)
    (h : cssStep s stt m = some stt') (hn : mapNodup stt.refMap) : mapNodup stt'.refMap := by
  unfold cssStep at h
  simp only at h
  split at h
  · simp at h
  · simp only [Option.some.injEq] at h
    subst h
    simp only
    split
    · split
      · apply dset_nodup
        cases hr : stt.refMap with
        | none => simp
        | some l => simpa [mapNodup, hr] using hn
      · exact hn
    · exact hn

theorem cssLoop_nodup (s : Array Nat) (ms : List (Nat × Rx.St)) (stt stt' : CssState)
    (h : cssLoop s ms stt = some stt') (hn : mapNodup stt.refMap) : mapNodup stt'.refMap := by
  induction ms generalizing stt with
  | nil => simp [cssLoop] at h; subst h; exact hn
  | cons m rest ih =>
    unfold cssLoop at h
    split at h
    · rename_i st1 hst
      exact ih st1 h (cssStep_nodup s stt st1 m hst hn)
    · simp at h

/-- the property map returned by `parse_css_spec` is a dict: its keys are pairwise distinct -/
theorem parseCssSpec_nodup (v : Text) (lm : List (Text × Text)) (h : (parseCssSpec v).1 = some lm) :
    (lm.map Prod.fst).Nodup := by
  unfold parseCssSpec at h
  simp only at h
  split at h
  · rename_i stt hstt
    have := cssLoop_nodup _ _ _ stt hstt (by simp [mapNodup])
    simp only at h
    rw [h] at this
    exact this
  · simp at h

end Dtd

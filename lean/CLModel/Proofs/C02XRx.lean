/- C02 (extension): generic repeat lemmas for bodies that behave like a one-character step on a known stretch
   of the text (greedy hit / greedy failure / lazy failure), the one-newline white-space match, and the generic
   "prefix of a walk" combinator used by the list theorems. -/
import CLModel.Proofs.C02Ini
namespace C02X
open Rx P Gen.Pat

/-! ### repeats over a stretch on which the body is a one-character step -/

/-- greedy repeat: the body steps over `pos … pos+n-1`, cannot match at `pos+n`, and the continuation succeeds
    at `pos+n`: that is the result (no backtracking happens) -/
theorem loop_greedy_hit (body : St → K → Option St) (caps) (k : K) (r : St) :
    ∀ n fuel pos mn, n < fuel → mn ≤ n →
      (∀ j, j < n → ∀ k', body ⟨pos + j, caps⟩ k' = k' ⟨pos + j + 1, caps⟩) →
      (∀ k', body ⟨pos + n, caps⟩ k' = none) →
      k ⟨pos + n, caps⟩ = some r →
      loop body true fuel mn none ⟨pos, caps⟩ k = some r := by
  intro n
  induction n with
  | zero =>
    intro fuel pos mn hf hmn _ hfail hk
    obtain ⟨f, rfl⟩ : ∃ f, fuel = f + 1 := ⟨fuel - 1, by omega⟩
    have : mn = 0 := by omega
    subst this
    rw [loop_body_fail body true f none ⟨pos, caps⟩ k (by simpa using hfail)]
    simpa using hk
  | succ n ih =>
    intro fuel pos mn hf hmn hstep hfail hk
    obtain ⟨f, rfl⟩ : ∃ f, fuel = f + 1 := ⟨fuel - 1, by omega⟩
    have h0 := hstep 0 (by omega)
    simp only [Nat.add_zero] at h0
    have ihh := ih f (pos + 1) (mn - 1) (by omega) (by omega)
      (fun j hj k' => by
        have := hstep (j + 1) (by omega) k'
        rw [show pos + (j + 1) = pos + 1 + j by omega] at this
        exact this)
      (fun k' => by
        have := hfail k'
        rw [show pos + (n + 1) = pos + 1 + n by omega] at this
        exact this)
      (by rw [show pos + 1 + n = pos + (n + 1) by omega]; exact hk)
    rw [loop]
    simp only [h0, show ¬ (pos + 1 ≤ pos) by omega, if_false, show ((none : Option Nat) == some 0) = false from rfl,
      Bool.false_eq_true, Option.map_none, ihh]
    split <;> simp

/-- greedy repeat: the continuation fails at every end position of the stretch: the repeat fails -/
theorem loop_greedy_none (body : St → K → Option St) (caps) (k : K) :
    ∀ n fuel pos,
      (∀ j, j < n → ∀ k', body ⟨pos + j, caps⟩ k' = k' ⟨pos + j + 1, caps⟩) →
      (∀ k', body ⟨pos + n, caps⟩ k' = none) →
      (∀ j, j ≤ n → k ⟨pos + j, caps⟩ = none) →
      loop body true fuel 0 none ⟨pos, caps⟩ k = none := by
  intro n
  induction n with
  | zero =>
    intro fuel pos _ hfail hk
    cases fuel with
    | zero => rw [loop]
    | succ f =>
      rw [loop_body_fail body true f none ⟨pos, caps⟩ k (by simpa using hfail)]
      simpa using hk 0 (by omega)
  | succ n ih =>
    intro fuel pos hstep hfail hk
    cases fuel with
    | zero => rw [loop]
    | succ f =>
      have h0 := hstep 0 (by omega)
      simp only [Nat.add_zero] at h0
      have ihh := ih f (pos + 1)
        (fun j hj k' => by
          have := hstep (j + 1) (by omega) k'
          rw [show pos + (j + 1) = pos + 1 + j by omega] at this
          exact this)
        (fun k' => by
          have := hfail k'
          rw [show pos + (n + 1) = pos + 1 + n by omega] at this
          exact this)
        (fun j hj => by
          have := hk (j + 1) (by omega)
          rw [show pos + (j + 1) = pos + 1 + j by omega] at this
          exact this)
      have hk0 := hk 0 (by omega)
      simp only [Nat.add_zero] at hk0
      rw [loop]
      simp only [h0, show ¬ (pos + 1 ≤ pos) by omega, if_false, show ((none : Option Nat) == some 0) = false from rfl,
        Bool.false_eq_true, Option.map_none, Nat.zero_sub, ihh, hk0]
      simp

/-- lazy repeat: the continuation fails at every end position of the stretch: the repeat fails -/
theorem loop_lazy_none (body : St → K → Option St) (caps) (k : K) :
    ∀ n fuel pos,
      (∀ j, j < n → ∀ k', body ⟨pos + j, caps⟩ k' = k' ⟨pos + j + 1, caps⟩) →
      (∀ k', body ⟨pos + n, caps⟩ k' = none) →
      (∀ j, j ≤ n → k ⟨pos + j, caps⟩ = none) →
      loop body false fuel 0 none ⟨pos, caps⟩ k = none := by
  intro n
  induction n with
  | zero =>
    intro fuel pos _ hfail hk
    cases fuel with
    | zero => rw [loop]
    | succ f =>
      rw [loop_body_fail body false f none ⟨pos, caps⟩ k (by simpa using hfail)]
      simpa using hk 0 (by omega)
  | succ n ih =>
    intro fuel pos hstep hfail hk
    cases fuel with
    | zero => rw [loop]
    | succ f =>
      have h0 := hstep 0 (by omega)
      simp only [Nat.add_zero] at h0
      have ihh := ih f (pos + 1)
        (fun j hj k' => by
          have := hstep (j + 1) (by omega) k'
          rw [show pos + (j + 1) = pos + 1 + j by omega] at this
          exact this)
        (fun k' => by
          have := hfail k'
          rw [show pos + (n + 1) = pos + 1 + n by omega] at this
          exact this)
        (fun j hj => by
          have := hk (j + 1) (by omega)
          rw [show pos + (j + 1) = pos + 1 + j by omega] at this
          exact this)
      have hk0 := hk 0 (by omega)
      simp only [Nat.add_zero] at hk0
      rw [loop]
      simp only [h0, show ¬ (pos + 1 ≤ pos) by omega, if_false, show ((none : Option Nat) == some 0) = false from rfl,
        Bool.false_eq_true, Option.map_none, Nat.zero_sub, ihh, hk0]
      simp

/-! ### one-character steps -/

theorem charStep_ok (s : Array Nat) (P : Nat → Bool) (p c : Nat) (caps) (h : s[p]? = some c) (hp : P c = true) (k' : K) :
    charStep s P ⟨p, caps⟩ k' = k' ⟨p + 1, caps⟩ := by
  simp [charStep, h, hp]

theorem charStep_fail (s : Array Nat) (P : Nat → Bool) (p : Nat) (caps)
    (h : s[p]? = none ∨ ∃ c, s[p]? = some c ∧ P c = false) (k' : K) :
    charStep s P ⟨p, caps⟩ k' = none := by
  rcases h with h | ⟨c, h, hp⟩
  · simp [charStep, h]
  · simp [charStep, h, hp]

theorem lit_ok (s : Array Nat) (p c : Nat) (caps) (h : s[p]? = some c) (k' : K) :
    m s (.lit c) ⟨p, caps⟩ k' = k' ⟨p + 1, caps⟩ := by
  rw [m_lit]; simp [h]

theorem lit_fail (s : Array Nat) (p c : Nat) (caps) (h : s[p]? ≠ some c) (k' : K) :
    m s (.lit c) ⟨p, caps⟩ k' = none := by
  rw [m_lit]; simp [h]

/-- greedy repeat of a one-character step: exact run of `n` characters, continuation succeeds at its end -/
theorem charLoop_hit (s : Array Nat) (P : Nat → Bool) (caps) (k : K) (r : St) (n fuel pos mn : Nat)
    (hf : n < fuel) (hmn : mn ≤ n)
    (hrun : ∀ j, j < n → ∃ c, s[pos + j]? = some c ∧ P c = true)
    (hstop : s[pos + n]? = none ∨ ∃ c, s[pos + n]? = some c ∧ P c = false)
    (hk : k ⟨pos + n, caps⟩ = some r) :
    loop (charStep s P) true fuel mn none ⟨pos, caps⟩ k = some r :=
  loop_greedy_hit (charStep s P) caps k r n fuel pos mn hf hmn
    (fun j hj k' => by obtain ⟨c, hc, hp⟩ := hrun j hj; exact charStep_ok s P _ c caps hc hp k')
    (fun k' => charStep_fail s P _ caps hstop k') hk

theorem charLoop_none (s : Array Nat) (P : Nat → Bool) (caps) (k : K) (n fuel pos : Nat)
    (hrun : ∀ j, j < n → ∃ c, s[pos + j]? = some c ∧ P c = true)
    (hstop : s[pos + n]? = none ∨ ∃ c, s[pos + n]? = some c ∧ P c = false)
    (hk : ∀ j, j ≤ n → k ⟨pos + j, caps⟩ = none) :
    loop (charStep s P) true fuel 0 none ⟨pos, caps⟩ k = none :=
  loop_greedy_none (charStep s P) caps k n fuel pos
    (fun j hj k' => by obtain ⟨c, hc, hp⟩ := hrun j hj; exact charStep_ok s P _ c caps hc hp k')
    (fun k' => charStep_fail s P _ caps hstop k') hk

theorem charLoop_lazy_none (s : Array Nat) (P : Nat → Bool) (caps) (k : K) (n fuel pos : Nat)
    (hrun : ∀ j, j < n → ∃ c, s[pos + j]? = some c ∧ P c = true)
    (hstop : s[pos + n]? = none ∨ ∃ c, s[pos + n]? = some c ∧ P c = false)
    (hk : ∀ j, j ≤ n → k ⟨pos + j, caps⟩ = none) :
    loop (charStep s P) false fuel 0 none ⟨pos, caps⟩ k = none :=
  loop_lazy_none (charStep s P) caps k n fuel pos
    (fun j hj k' => by obtain ⟨c, hc, hp⟩ := hrun j hj; exact charStep_ok s P _ c caps hc hp k')
    (fun k' => charStep_fail s P _ caps hstop k') hk

/-! ### the white-space match on a single newline -/

/-- `[ \t\r\n]+` at a newline that is followed by the end of the text or by a non-white-space character -/
theorem ws_match_one (s : Array Nat) (nl : Nat) (h0 : s[nl]? = some 10)
    (h1 : s[nl + 1]? = none ∨ ∃ c, s[nl + 1]? = some c ∧ c ≠ 32 ∧ c ≠ 9 ∧ c ≠ 13 ∧ c ≠ 10) :
    matchAt s Parser_reWhitespace nl = some ⟨nl + 1, []⟩ := by
  have hlt := getElem?_some_lt h0
  simp only [matchAt, Parser_reWhitespace, m_rep, m_cls_charStep]
  apply charLoop_hit s _ [] some _ 1 _ nl 1 (by omega) (by omega)
  · intro j hj
    have : j = 0 := by omega
    subst this
    exact ⟨10, h0, by decide⟩
  · rcases h1 with h1 | ⟨c, hc, a1, a2, a3, a4⟩
    · exact Or.inl h1
    · exact Or.inr ⟨c, hc, by simp [inC, ClsItem.has, a1, a2, a3, a4]⟩
  · rfl

/-- the base `getNext` on such a newline, when no comment starts there: the white-space entry -/
theorem base_ws_at (c : BaseCfg) (hws : c.reWhitespace = Parser_reWhitespace) (s : Array Nat) (nl : Nat)
    (hcm : matchAt s c.reComment nl = none) (h0 : s[nl]? = some 10)
    (h1 : s[nl + 1]? = none ∨ ∃ c, s[nl + 1]? = some c ∧ c ≠ 32 ∧ c ≠ 9 ∧ c ≠ 13 ∧ c ≠ 10) :
    getNext c s nl = wsEntry nl := by
  have hw := ws_match_one s nl h0 h1
  unfold getNext
  simp only [hcm, hws, hw]
  simp [wsEntry]

/-! ### walking a prefix -/

/-- prepend entries to the result of the rest of a walk -/
def prepend (es : List Entry) (w : WalkResult) : WalkResult := es.foldr WalkResult.cons w

theorem prepend_done (es es' : List Entry) : prepend es (.done es') = .done (es ++ es') := by
  induction es with
  | nil => rfl
  | cons e es ih => simp [prepend, WalkResult.cons] at ih ⊢; rw [ih]

/-- one step of the walk, when the entry is known -/
theorem walk_step {σ : Type} (next : σ → Nat → Entry × σ) (size fuel : Nat) (ctx ctx' : σ) (off : Nat) (e : Entry)
    (hoff : off < size) (hn : next ctx off = (e, ctx')) :
    walkFrom next size (fuel + 1) ctx off = (walkFrom next size fuel ctx' e.e).cons e := by
  rw [walkFrom]
  simp [show ¬ off ≥ size by omega, hn]

theorem walk_end {σ : Type} (next : σ → Nat → Entry × σ) (size fuel : Nat) (ctx : σ) (off : Nat) (hoff : off ≥ size) :
    walkFrom next size fuel ctx off = .done [] := by
  cases fuel <;> simp [walkFrom, hoff]

/-! ### list plumbing -/

theorem get_app_left (s : Array Nat) (off : Nat) (a b : List Nat) (h : s.toList.drop off = a ++ b) (i : Nat) (hi : i < a.length) :
    s[off + i]? = some a[i] := by
  rw [get_of_drop s off i _ h, List.getElem?_append_left hi]
  simp

theorem get_app_right (s : Array Nat) (off : Nat) (a b : List Nat) (h : s.toList.drop off = a ++ b) (i : Nat) :
    s[off + a.length + i]? = b[i]? := by
  rw [show off + a.length + i = off + (a.length + i) by omega, get_of_drop s off _ _ h,
    List.getElem?_append_right (by omega)]
  congr 1; omega

theorem drop_app (s : Array Nat) (off : Nat) (a b : List Nat) (h : s.toList.drop off = a ++ b) :
    s.toList.drop (off + a.length) = b := by
  have := congrArg (List.drop a.length) h
  rw [List.drop_drop, List.drop_left] at this
  exact this

theorem size_of_drop (s : Array Nat) (off : Nat) (l : List Nat) (h : s.toList.drop off = l) (hl : l ≠ []) :
    off + l.length = s.size := by
  have h1 : l.length = s.size - off := by rw [← h]; simp
  have h2 : 0 < l.length := List.length_pos_iff.mpr hl
  omega

theorem size_le_of_drop_nil (s : Array Nat) (off : Nat) (h : s.toList.drop off = []) : s.size ≤ off := by
  have := List.drop_eq_nil_iff.mp h
  simpa using this

end C02X

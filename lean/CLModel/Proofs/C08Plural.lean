/-
Helper lemmas for C08: the plural-category part of check_variants, and the duplicate loops.
-/
import CLModel.Proofs.C08
namespace Ftl
open Gen.Tables

/-! ### `str` order -/

theorem strLe_total (a b : Str) : strLe a b = true ∨ strLe b a = true := by
  induction a generalizing b with
  | nil => left; cases b <;> rfl
  | cons x xs ih =>
    cases b with
    | nil => right; rfl
    | cons y ys =>
      simp only [strLe]
      by_cases h1 : x < y
      · simp [h1]
      · by_cases h2 : y < x
        · simp [h2]
        · simp only [h1, h2, if_false]
          exact ih ys

theorem strLe_trans (a b c : Str) (h1 : strLe a b = true) (h2 : strLe b c = true) : strLe a c = true := by
  induction a generalizing b c with
  | nil => cases c <;> rfl
  | cons x xs ih =>
    cases b with
    | nil => simp [strLe] at h1
    | cons y ys =>
      cases c with
      | nil => simp [strLe] at h2
      | cons z zs =>
        simp only [strLe] at h1 h2 ⊢
        by_cases hxy : x < y
        · by_cases hyz : y < z
          · have : x < z := by omega
            simp [this]
          · by_cases hzy : z < y
            · simp [hyz, hzy] at h2
            · have : y = z := by omega
              subst this
              simp [hxy]
        · by_cases hyx : y < x
          · simp [hxy, hyx] at h1
          · have : x = y := by omega
            subst this
            simp only [hxy, if_false] at h1
            by_cases hyz : x < z
            · simp [hyz]
            · by_cases hzy : z < x
              · simp [hyz, hzy] at h2
              · simp only [hyz, hzy, if_false] at h2 ⊢
                exact ih ys zs h1 h2

/-! ### dedup -/

theorem mem_dedup {α : Type} [BEq α] [LawfulBEq α] (l : List α) (x : α) : x ∈ dedup l ↔ x ∈ l := by
  induction l with
  | nil => simp [dedup]
  | cons y r ih =>
    simp only [dedup, List.mem_cons, List.mem_filter, ih]
    constructor
    · rintro (h | ⟨h, _⟩)
      · exact Or.inl h
      · exact Or.inr h
    · rintro (h | h)
      · exact Or.inl h
      · by_cases hxy : x = y
        · exact Or.inl hxy
        · exact Or.inr ⟨h, by simpa using hxy⟩

theorem nodup_dedup {α : Type} [BEq α] [LawfulBEq α] (l : List α) : (dedup l).Nodup := by
  induction l with
  | nil => simp [dedup]
  | cons y r ih =>
    simp only [dedup, List.nodup_cons, List.mem_filter]
    refine ⟨?_, ih.filter _⟩
    rintro ⟨_, h⟩
    simp at h

/-! ### the plural part of check_variants -/

/-- the categories of the locale that no variant key names -/
def missingCats (cats : List Str) (keys : List VKey) : List Str :=
  sortBy strLe ((dedup cats).filter (fun c => !(keys.map VKey.str).contains c))

theorem mem_missingCats (cats : List Str) (keys : List VKey) (c : Str) :
    c ∈ missingCats cats keys ↔ c ∈ cats ∧ c ∉ keys.map VKey.str := by
  unfold missingCats
  rw [mem_sortBy, List.mem_filter, mem_dedup]
  simp

theorem missingCats_sorted (cats : List Str) (keys : List VKey) :
    (missingCats cats keys).Pairwise (fun a b => strLe a b = true ∧ a ≠ b) := by
  unfold missingCats
  have h1 := sortBy_pairwise strLe strLe_total strLe_trans ((dedup cats).filter (fun c => !(keys.map VKey.str).contains c))
  have h2 : (sortBy strLe ((dedup cats).filter (fun c => !(keys.map VKey.str).contains c))).Nodup :=
    (sortBy_perm _ _).nodup_iff.mpr ((nodup_dedup cats).filter _)
  exact h1.and h2

/-- some variant key names a category of the locale other than `other` -/
def usesCategory (cats : List Str) (keys : List VKey) : Prop :=
  ∃ k ∈ keys, k.str ∈ cats ∧ k.str ≠ sOther

theorem checkPlurals_none (keys : List VKey) : checkPlurals none keys = [] := rfl

theorem checkPlurals_some (cats : List Str) (hc : cats ≠ []) (keys : List VKey) :
    checkPlurals (some cats) keys =
      match keys with
      | [] => []
      | k0 :: _ =>
        if (keys.map VKey.str).any (fun g => ((dedup cats).filter (fun c => !(c == sOther))).contains g)
            && !(missingCats cats keys).isEmpty then
          [⟨sevWarning, k0.start, fmt fluentMsg_missing_plural [join [44, 32] (missingCats cats keys)]⟩]
        else [] := by
  unfold checkPlurals missingCats
  have : cats.isEmpty = false := by cases cats <;> simp_all
  simp only [this, Bool.false_eq_true, if_false]
  cases keys with
  | nil => simp
  | cons k0 r =>
    simp only
    split
    · rename_i hA
      split
      · rename_i hM
        simp only [hA, hM, Bool.not_true, Bool.and_false, Bool.false_eq_true, if_false]
      · rename_i hM
        simp only [hA, hM, Bool.true_and, Bool.not_eq_true', if_true]
    · rename_i hA
      simp only [hA, Bool.false_and, Bool.false_eq_true, if_false]

theorem any_check_iff (cats : List Str) (keys : List VKey) :
    (keys.map VKey.str).any (fun g => ((dedup cats).filter (fun c => !(c == sOther))).contains g) = true
      ↔ usesCategory cats keys := by
  simp only [List.any_eq_true, List.mem_map, usesCategory]
  constructor
  · rintro ⟨g, ⟨k, hk, rfl⟩, hg⟩
    have : k.str ∈ (dedup cats).filter (fun c => !(c == sOther)) := by simpa using hg
    rw [List.mem_filter, mem_dedup] at this
    exact ⟨k, hk, this.1, by simpa using this.2⟩
  · rintro ⟨k, hk, h1, h2⟩
    refine ⟨k.str, ⟨k, hk, rfl⟩, ?_⟩
    have : k.str ∈ (dedup cats).filter (fun c => !(c == sOther)) := by
      rw [List.mem_filter, mem_dedup]
      exact ⟨h1, by simpa using h2⟩
    simpa using this

/-! ### the duplicate loops -/

section dup
variable {α κ : Type} [BEq κ] [LawfulBEq κ]

theorem filter_split_perm (l : List α) (q p : α → Bool) :
    (l.filter p).Perm ((l.filter q).filter p ++ (l.filter (fun y => !q y)).filter p) := by
  have h := (List.filter_append_perm q l).symm
  have h2 := h.filter p
  rw [List.filter_append] at h2
  exact h2

/-- Closed form of the two nested loops for an equality given by a key function: what is emitted is,
    up to order, every element whose key occurs at least twice (and is not among the keys `ks` that
    were already handled). -/
theorem dupLoop_perm (f : α → κ) (ks xs : List α) :
    (dupLoop (fun a b => f a == f b) ks xs).Perm
      ((xs.filter (fun x => !(ks.map f).contains (f x))).filter (fun x => decide (2 ≤ (xs.map f).count (f x)))) := by
  induction xs generalizing ks with
  | nil => simp [dupLoop]
  | cons x rest ih =>
    simp only [dupLoop]
    have hany : (ks.any (fun k => f k == f x)) = (ks.map f).contains (f x) := by
      rw [Bool.eq_iff_iff]
      simp only [List.any_eq_true, List.contains_iff_mem, List.mem_map, beq_iff_eq]
    by_cases hin : (ks.map f).contains (f x) = true
    · -- `left in warned`
      simp only [hany, hin, if_true]
      refine (ih ks).trans ?_
      simp only [List.filter_cons, hin, Bool.not_true, Bool.false_eq_true, if_false]
      apply List.Perm.of_eq
      apply List.filter_congr
      intro y hy
      have hy' := (List.mem_filter.mp hy).2
      have hne : (f x == f y) = false := by
        rw [beq_eq_false_iff_ne]
        intro h
        have hmem : (ks.map f).contains (f y) = true := by rw [← h]; exact hin
        rw [hmem] at hy'
        simp at hy'
      simp [List.count_cons, hne]
    · have hin' : (ks.map f).contains (f x) = false := by simpa using hin
      simp only [hany, hin', Bool.false_eq_true, if_false]
      -- abbreviations
      have hms : ∀ y, y ∈ rest.filter (fun y => f x == f y) ↔ y ∈ rest ∧ f x = f y := by
        intro y; simp [List.mem_filter]
      have hcount : (List.filter (fun y => f x == f y) rest).isEmpty = true ↔ (rest.map f).count (f x) = 0 := by
        rw [List.isEmpty_iff, List.filter_eq_nil_iff, List.count_eq_zero]
        simp only [List.mem_map, not_exists, not_and, beq_iff_eq]
        constructor
        · intro h y hy hfy; exact h y hy hfy.symm
        · intro h y hy hfy; exact h y hy hfy.symm
      -- the target, with `x` taken out
      simp only [List.filter_cons, hin', Bool.not_false, if_true, List.map_cons, List.count_cons_self]
      have hsplit := filter_split_perm (rest.filter (fun y => !(ks.map f).contains (f y))) (fun y => f x == f y)
        (fun y => decide (2 ≤ (f x :: rest.map f).count (f y)))
      -- first part = the matching rights
      have h1 : ((rest.filter (fun y => !(ks.map f).contains (f y))).filter (fun y => f x == f y)).filter
          (fun y => decide (2 ≤ (f x :: rest.map f).count (f y))) = rest.filter (fun y => f x == f y) := by
        rw [List.filter_filter, List.filter_filter]
        apply List.filter_congr
        intro y hy
        by_cases hxy : (f x == f y) = true
        · have hxy' : f x = f y := by simpa using hxy
          have hc : 0 < (rest.map f).count (f y) := List.count_pos_iff.mpr (List.mem_map.mpr ⟨y, hy, rfl⟩)
          have hnotin : (ks.map f).contains (f y) = false := by rw [← hxy']; exact hin'
          have hcnt : (f x :: rest.map f).count (f y) = (rest.map f).count (f y) + 1 := by
            rw [List.count_cons]; simp [hxy]
          have hP : decide (2 ≤ (f x :: rest.map f).count (f y)) = true := by
            rw [hcnt]; exact decide_eq_true (by omega)
          simp [hxy, hP]
          simpa using hnotin
        · simp [hxy]
      -- second part = what the recursive call emits
      have h2 : ((rest.filter (fun y => !(ks.map f).contains (f y))).filter (fun y => !(f x == f y))).filter
          (fun y => decide (2 ≤ (f x :: rest.map f).count (f y))) =
          (rest.filter (fun y => !((ks ++ [x]).map f).contains (f y))).filter (fun y => decide (2 ≤ (rest.map f).count (f y))) := by
        rw [List.filter_filter, List.filter_filter, List.filter_filter]
        apply List.filter_congr
        intro y _
        by_cases hxy : (f x == f y) = true
        · have hxy' : f x = f y := by simpa using hxy
          simp [hxy']
        · have hxy' : (f x == f y) = false := by simpa using hxy
          have hne : ¬ f y = f x := by
            intro h; rw [h] at hxy'; simp at hxy'
          have hcnt : (f x :: rest.map f).count (f y) = (rest.map f).count (f y) := by
            rw [List.count_cons]; simp [hxy']
          have hmem : (f y ∈ List.map f ks ++ [f x]) ↔ f y ∈ List.map f ks := by
            simp [List.mem_append, hne]
          have hdm : decide (f y ∈ List.map f ks ++ [f x]) = decide (f y ∈ List.map f ks) := by
            rw [decide_eq_decide]; exact hmem
          simp [hxy', hcnt]
          rw [hdm]
      rw [h1, h2] at hsplit
      by_cases hempty : (List.filter (fun y => f x == f y) rest).isEmpty = true
      · have hz := hcount.mp hempty
        have hnil : List.filter (fun y => f x == f y) rest = [] := List.isEmpty_iff.mp hempty
        simp only [hempty, if_true, List.nil_append, hz]
        simp only [Nat.zero_add, Nat.reduceLeDiff, decide_false, Bool.false_eq_true, if_false]
        rw [hnil] at hsplit
        exact (ih (ks ++ [x])).trans (by simpa using hsplit.symm)
      · have hpos : 0 < (rest.map f).count (f x) := by
          rcases Nat.eq_zero_or_pos ((rest.map f).count (f x)) with h | h
          · exact absurd (hcount.mpr h) hempty
          · exact h
        have hdec : decide (2 ≤ (rest.map f).count (f x) + 1) = true := decide_eq_true (by omega)
        simp only [hempty, Bool.false_eq_true, if_false, hdec, if_true, List.cons_append]
        refine List.Perm.cons x ?_
        exact (List.Perm.append_left _ (ih (ks ++ [x]))).trans hsplit.symm

end dup

theorem dupLoop_nil_perm {α κ : Type} [BEq κ] [LawfulBEq κ] (f : α → κ) (xs : List α) :
    (dupLoop (fun a b => f a == f b) [] xs).Perm (xs.filter (fun x => decide (2 ≤ (xs.map f).count (f x)))) := by
  have := dupLoop_perm f [] xs
  simpa using this

/-- the key under which two variant keys are `equals`: node type and text -/
def VKey.tag : VKey → Bool × Str
  | .ident _ n => (true, n)
  | .num _ v => (false, v)

theorem VKey.equals_eq : VKey.equals = (fun a b => a.tag == b.tag) := by
  funext a b
  cases a <;> cases b <;> simp only [VKey.equals, VKey.tag] <;> rw [Bool.eq_iff_iff] <;> simp

end Ftl

/- `posixpath.normpath` as a fold over the components, and the law relpath(join(base, q), base) = normpath(q). -/
import CLModel.Proofs.C12MozPath
namespace C12MP
open MP

def normFold (i : Nat) (cs : List Text) (S : List Text) : List Text := cs.foldl (normStep i) S

theorem normFold_nil (i : Nat) (S : List Text) : normFold i [] S = S := rfl
theorem normFold_cons (i : Nat) (c : Text) (cs S : List Text) : normFold i (c :: cs) S = normFold i cs (normStep i S c) := rfl
theorem normFold_append (i : Nat) (a b S : List Text) : normFold i (a ++ b) S = normFold i b (normFold i a S) := by
  simp [normFold, List.foldl_append]

theorem normStep_skip (i : Nat) (S : List Text) {c : Text} (h : c = [] ∨ c = dot) : normStep i S c = S := by
  rcases h with rfl | rfl <;> simp [normStep, dot]

theorem normStep_push (i : Nat) (S : List Text) {c : Text} (h1 : c ≠ []) (h2 : c ≠ dot) (h3 : c ≠ dotdot) :
    normStep i S c = S ++ [c] := by
  simp [normStep, h1, h2, h3]

/-- elements of the result come from the start stack or are pushed components (never "" or ".") -/
theorem normFold_mem (P : Text → Prop) (i : Nat) : ∀ (cs S : List Text), (∀ c ∈ S, P c) →
    (∀ c ∈ cs, c ≠ [] → c ≠ dot → P c) → ∀ c ∈ normFold i cs S, P c
  | [], S, hS, _ => hS
  | x :: xs, S, hS, hcs => by
    rw [normFold_cons]
    apply normFold_mem P i xs _ _ (fun c hc => hcs c (by simp [hc]))
    intro c hc
    unfold normStep at hc
    split at hc
    · exact hS c hc
    · rename_i hx
      simp only [Bool.or_eq_true, beq_iff_eq, not_or] at hx
      split at hc
      · rcases List.mem_append.mp hc with h | h
        · exact hS c h
        · simp only [List.mem_singleton] at h; subst h
          exact hcs c (by simp) hx.1 hx.2
      · split at hc
        · exact hS c (List.dropLast_subset _ hc)
        · exact hS c hc

/-- a relative path that never climbs above its start: `d` = current depth -/
def depthOK : Nat → List Text → Bool
  | _, [] => true
  | d, c :: cs =>
    if c == [] || c == dot then depthOK d cs
    else if c == dotdot then d > 0 && depthOK (d - 1) cs
    else depthOK (d + 1) cs

def NoDD (S : List Text) : Prop := ∀ c ∈ S, c ≠ dotdot

/-- below a stack `S2` (no ".." in it) of the current depth, a non-climbing component list never looks at what is underneath -/
theorem normFold_frame (i : Nat) (S1 : List Text) : ∀ (cs S2 : List Text), NoDD S2 → depthOK S2.length cs = true →
    normFold i cs (S1 ++ S2) = S1 ++ normFold 0 cs S2
  | [], S2, _, _ => rfl
  | c :: cs, S2, hdd, hd => by
    rw [normFold_cons, normFold_cons]
    simp only [depthOK] at hd
    by_cases h1 : c = [] ∨ c = dot
    · have hb : (c == [] || c == dot) = true := by rcases h1 with rfl | rfl <;> simp [dot]
      rw [hb] at hd
      simp only [if_true] at hd
      rw [normStep_skip i _ h1, normStep_skip 0 _ h1]
      exact normFold_frame i S1 cs S2 hdd hd
    · have hb : (c == [] || c == dot) = false := by
        simp only [not_or] at h1
        simp [h1.1, h1.2]
      rw [hb] at hd
      simp only [Bool.false_eq_true, if_false] at hd
      simp only [not_or] at h1
      by_cases h2 : c = dotdot
      · subst h2
        simp only [beq_self_eq_true, if_true, Bool.and_eq_true, decide_eq_true_eq] at hd
        obtain ⟨hpos, hd'⟩ := hd
        -- S2 = S2' ++ [x]
        obtain ⟨S2', x, rfl⟩ : ∃ S2' x, S2 = S2' ++ [x] := by
          cases hr : S2.reverse with
          | nil => simp at hr; subst hr; simp at hpos
          | cons x r =>
            refine ⟨r.reverse, x, ?_⟩
            have := congrArg List.reverse hr
            simpa using this
        have hx : x ≠ [46, 46] := hdd x (by simp)
        have e1 : normStep i (S1 ++ (S2' ++ [x])) dotdot = S1 ++ S2' := by
          have hne : (S1 ++ (S2' ++ [x])).isEmpty = false := by simp
          have hl : (S1 ++ (S2' ++ [x])).getLast? = some x := by
            rw [← List.append_assoc]; simp
          simp only [normStep, hne, hl]
          simp [dotdot, dot, hx]
        have e2 : normStep 0 (S2' ++ [x]) dotdot = S2' := by
          have hne : (S2' ++ [x]).isEmpty = false := by simp
          have hl : (S2' ++ [x]).getLast? = some x := by simp
          simp only [normStep, hne, hl]
          simp [dotdot, dot, hx]
        rw [e1, e2]
        have hlen : (S2' ++ [x]).length - 1 = S2'.length := by simp
        rw [hlen] at hd'
        exact normFold_frame i S1 cs S2' (fun c hc => hdd c (by simp [hc])) hd'
      · have hb2 : (c == dotdot) = false := by simp [h2]
        rw [hb2] at hd
        simp only [Bool.false_eq_true, if_false] at hd
        rw [normStep_push i _ h1.1 h1.2 h2, normStep_push 0 _ h1.1 h1.2 h2, List.append_assoc]
        refine normFold_frame i S1 cs (S2 ++ [c]) ?_ (by simpa using hd)
        intro y hy
        rcases List.mem_append.mp hy with h | h
        · exact hdd y h
        · simp only [List.mem_singleton] at h; subst h; exact h2


/-- component: non-empty, no separator, not "." -/
def Comp (c : Text) : Prop := c ≠ [] ∧ 47 ∉ c

theorem normFold_comps (i : Nat) (p : Text) : ∀ c ∈ normFold i (split p) [], Comp c := by
  apply normFold_mem Comp i
  · intro c hc; cases hc
  · intro c hc h1 _
    exact ⟨h1, split_no_slash p c hc⟩

theorem joinSlash_ne_nil : ∀ {cs : List Text}, cs ≠ [] → (∀ c ∈ cs, Comp c) → joinSlash cs ≠ []
  | [], h, _ => absurd rfl h
  | [a], _, h => by simpa [joinSlash] using (h a (by simp)).1
  | a :: b :: r, _, h => by
    show a ++ 47 :: joinSlash (b :: r) ≠ []
    simp

theorem joinSlash_head {cs : List Text} (h : ∀ c ∈ cs, Comp c) : startsSlash (joinSlash cs) = false := by
  cases cs with
  | nil => rfl
  | cons a r =>
    obtain ⟨hne, hns⟩ := h a (by simp)
    cases a with
    | nil => exact absurd rfl hne
    | cons x xs =>
      have hx : x ≠ 47 := fun e => hns (by simp [e])
      cases r with
      | nil => simp [joinSlash, startsSlash, hx]
      | cons b r' => simp [joinSlash, startsSlash, hx]

/-- the components of the text `"/"*i ++ "/".join(comps)` (i = 1, 2) -/
theorem split_filter_abs (i : Nat) (hi : i = 1 ∨ i = 2) {cs : List Text} (h : ∀ c ∈ cs, Comp c) :
    (split (List.replicate i 47 ++ joinSlash cs)).filter (fun x => !x.isEmpty) = cs := by
  have hsp : (split (joinSlash cs)).filter (fun x => !x.isEmpty) = cs := by
    by_cases hn : cs = []
    · subst hn; simp [joinSlash, split]
    · rw [split_joinSlash cs hn (fun c hc => (h c hc).2)]
      apply List.filter_eq_self.mpr
      intro c hc
      have := (h c hc).1
      cases c <;> simp_all
  have h1 : ∀ t : Text, split (47 :: t) = [] :: split t := by intro t; simp [split]
  rcases hi with rfl | rfl
  · simp only [List.replicate, List.cons_append, List.nil_append, h1]
    simpa using hsp
  · simp only [List.replicate, List.cons_append, List.nil_append, h1]
    simpa using hsp

theorem initialSlashes_pos {p : Text} (h : startsSlash p = true) : initialSlashes p = 1 ∨ initialSlashes p = 2 := by
  cases p with
  | nil => simp [startsSlash] at h
  | cons x r =>
    have : x = 47 := by simpa [startsSlash] using h
    subst this
    unfold initialSlashes
    split
    · right; rfl
    · left; simp [List.isPrefixOf]

/-- the non-empty components of the normal form of an absolute path are the folded stack -/
theorem comps_normpath_abs {p : Text} (h : startsSlash p = true) :
    (split (normpath p)).filter (fun x => !x.isEmpty) = normFold (initialSlashes p) (split p) [] := by
  have hne : p.isEmpty = false := by cases p <;> simp_all [startsSlash]
  have hi := initialSlashes_pos h
  unfold normpath
  simp only [hne, Bool.false_eq_true, if_false]
  have hrep : (List.replicate (initialSlashes p) 47 ++ joinSlash (normFold (initialSlashes p) (split p) [])).isEmpty = false := by
    rcases hi with e | e <;> rw [e] <;> simp [List.replicate]
  show (split (if (List.replicate (initialSlashes p) 47 ++ joinSlash (normFold (initialSlashes p) (split p) [])).isEmpty = true
      then dot else _)).filter _ = _
  rw [hrep]
  simp only [Bool.false_eq_true, if_false]
  exact split_filter_abs _ hi (normFold_comps _ p)

theorem commonLen_append (a b : List Text) : commonLen a (a ++ b) = a.length := by
  induction a with
  | nil => cases b <;> simp [commonLen]
  | cons x xs ih => simp [commonLen, ih]

theorem endsSlash_noslash {c : Text} (h : 47 ∉ c) : endsSlash c = false := by
  unfold endsSlash
  cases hl : c.getLast? with
  | none => rfl
  | some z =>
    have hz : z ∈ c := List.mem_of_getLast? hl
    have : z ≠ 47 := fun e => h (e ▸ hz)
    simp [this]

theorem foldl_join2_comps : ∀ (cs : List Text) (a : Text), a ≠ [] → endsSlash a = false → (∀ c ∈ cs, Comp c) →
    cs.foldl join2 a = joinSlash (a :: cs)
  | [], a, _, _, _ => rfl
  | c :: cs, a, ha, he, h => by
    obtain ⟨hne, hns⟩ := h c (by simp)
    have hrel : startsSlash c = false := by
      cases c with
      | nil => rfl
      | cons x xs => simp [startsSlash]; intro e; exact hns (by simp [e])
    have hai : a.isEmpty = false := by cases a <;> simp_all
    have hj : join2 a c = a ++ 47 :: c := by simp [join2, hrel, hai, he]
    simp only [List.foldl_cons, hj]
    have hend : endsSlash (a ++ 47 :: c) = false := by
      have : a ++ 47 :: c = (a ++ [47]) ++ c := by simp
      rw [this, endsSlash_append hne]
      exact endsSlash_noslash hns
    rw [foldl_join2_comps cs _ (by simp) hend (fun c hc => h c (by simp [hc]))]
    cases cs with
    | nil => simp [joinSlash]
    | cons d ds => simp [joinSlash, List.append_assoc]

theorem join_comps {cs : List Text} (hne : cs ≠ []) (h : ∀ c ∈ cs, Comp c) : join cs = .ok (joinSlash cs) := by
  cases cs with
  | nil => exact absurd rfl hne
  | cons a r =>
    obtain ⟨ha, hs⟩ := h a (by simp)
    simp only [join, pure, Except.pure]
    rw [foldl_join2_comps r a ha (endsSlash_noslash hs) (fun c hc => h c (by simp [hc]))]

theorem initialSlashes_append {B q : Text} (hB : startsSlash B = true) (hq : startsSlash q = false) :
    initialSlashes (B ++ q) = initialSlashes B := by
  match B, hB with
  | [x], h =>
    have hx : x = 47 := by simpa [startsSlash] using h
    subst hx
    match q, hq with
    | [], _ => rfl
    | y :: r, hy =>
      have : ¬ 47 = y := by intro e; subst e; simp [startsSlash] at hy
      simp [initialSlashes, List.isPrefixOf, this]
  | [x, y], h =>
    have hx : x = 47 := by simpa [startsSlash] using h
    subst hx
    match q, hq with
    | [], _ => rfl
    | z :: r, hz =>
      have : ¬ 47 = z := by intro e; subst e; simp [startsSlash] at hz
      simp [initialSlashes, List.isPrefixOf, this]
  | x :: y :: z :: r, h =>
    simp [initialSlashes, List.isPrefixOf]

/-- the same when `B` does not end with a separator, whatever follows -/
theorem initialSlashes_append_noend {B t : Text} (hB : startsSlash B = true) (he : endsSlash B = false) :
    initialSlashes (B ++ t) = initialSlashes B := by
  match B, hB, he with
  | [x], h, he => simp [startsSlash] at h; subst h; simp [endsSlash] at he
  | [x, y], h, he =>
    have hx : x = 47 := by simpa [startsSlash] using h
    subst hx
    have : ¬ 47 = y := by intro e; subst e; simp [endsSlash] at he
    cases t <;> simp [initialSlashes, List.isPrefixOf, this]
  | x :: y :: z :: r, h, _ =>
    simp [initialSlashes, List.isPrefixOf]

theorem startsSlash_join2_left {a b : Text} (ha : startsSlash a = true) (hb : startsSlash b = false) :
    startsSlash (join2 a b) = true := by
  have hne : a ≠ [] := by intro e; subst e; simp [startsSlash] at ha
  rw [join2_rel hb, List.append_assoc, startsSlash_append hne]; exact ha

/-- the folded stack of `join2 B q` (B absolute, q relative) is the stack of `B` continued with the components of `q` -/
theorem normFold_join2 (i : Nat) {B q : Text} (hB : startsSlash B = true) (hq : startsSlash q = false) :
    normFold i (split (join2 B q)) [] = normFold i (split q) (normFold i (split B) []) := by
  rw [join2_rel hq]
  by_cases hs : (B.isEmpty || endsSlash B) = true
  · -- B ends with "/" : B = B' ++ "/"
    have hsep : sep B = [] := by simp only [sep, hs, if_true]
    have hne : B ≠ [] := by intro e; subst e; simp [startsSlash] at hB
    have hend : endsSlash B = true := by
      cases B with
      | nil => exact absurd rfl hne
      | cons x xs => simpa using hs
    obtain ⟨B', rfl⟩ : ∃ B', B = B' ++ [47] := by
      unfold endsSlash at hend
      have hl : B.getLast? = some 47 := by simpa using hend
      refine ⟨B.dropLast, ?_⟩
      have h1 := List.dropLast_concat_getLast (l := B) hne
      have h2 : B.getLast hne = 47 := by
        have := List.getLast?_eq_some_getLast hne
        rw [hl] at this; simpa using this.symm
      rw [h2] at h1; exact h1.symm
    rw [hsep, List.append_nil, List.append_assoc]
    simp only [List.singleton_append]
    rw [split_append, split_append B' [], normFold_append, normFold_append]
    congr 1
  · have hsep : sep B = [47] := by simp only [sep, hs]; rfl
    rw [hsep, List.append_assoc]
    simp only [List.singleton_append]
    rw [split_append, normFold_append]

/-- **relpath ∘ join = normpath**: for a relative path `q` that never climbs above its start (`depthOK 0`), a base
    directory `base` (absolute, or relative to the absolute working directory `cwd`), and a non-empty joined path,
    `mozpath.relpath(mozpath.join(base, q), base)` is the normal form of `q` ("" if that is "."). -/
theorem relpath_join (cwd base q : Text) (hcwd : startsSlash cwd = true) (hq : startsSlash q = false)
    (hne : join2 base q ≠ []) (hclimb : depthOK 0 (split q) = true) :
    relpath cwd (join2 base q) base = .ok (if normpath q = dot then [] else normpath q) := by
  -- the absolute, not yet normalised start directory
  obtain ⟨B, hBabs, hst, hpa⟩ : ∃ B, startsSlash B = true ∧ abspath cwd base = normpath B ∧
      abspath cwd (join2 base q) = normpath (join2 B q) := by
    cases hb : startsSlash base with
    | true =>
      refine ⟨base, hb, by simp [abspath, hb], ?_⟩
      simp [abspath, startsSlash_join2_left hb hq]
    | false =>
      refine ⟨join2 cwd base, startsSlash_join2_left hcwd hb, by simp [abspath, hb], ?_⟩
      have hrel : startsSlash (join2 base q) = false := by
        rw [join2_rel hq]
        by_cases hbe : base = []
        · subst hbe; simpa [sep] using hq
        · rw [List.append_assoc, startsSlash_append hbe]; exact hb
      simp [abspath, hrel, join2_assoc]
  have hjabs : startsSlash (join2 B q) = true := startsSlash_join2_left hBabs hq
  have hinit : initialSlashes (join2 B q) = initialSlashes B := by
    rw [join2_rel hq, List.append_assoc]
    by_cases hs : (B.isEmpty || endsSlash B) = true
    · apply initialSlashes_append hBabs
      simp only [sep, hs, if_true, List.nil_append]; exact hq
    · apply initialSlashes_append_noend hBabs
      cases he : endsSlash B with
      | false => rfl
      | true => simp [he] at hs
  have hS := comps_normpath_abs hBabs
  have hP := comps_normpath_abs hjabs
  rw [hinit, normFold_join2 _ hBabs hq] at hP
  have hframe := normFold_frame (initialSlashes B) (normFold (initialSlashes B) (split B) []) (split q) []
    (by intro c hc; cases hc) (by simpa using hclimb)
  simp only [List.append_nil] at hframe
  rw [hframe] at hP
  have hnei : (join2 base q).isEmpty = false := by cases h : join2 base q <;> simp_all
  have hR : ∀ c ∈ normFold 0 (split q) [], Comp c := normFold_comps 0 q
  -- the normal form of q
  have hinq : initialSlashes q = 0 := by
    match q, hq with
    | [], _ => rfl
    | x :: r, h =>
      have : ¬ 47 = x := by intro e; subst e; simp [startsSlash] at h
      simp [initialSlashes, List.isPrefixOf, this]
  have hnq : normpath q = if normFold 0 (split q) [] = [] then dot else joinSlash (normFold 0 (split q) []) := by
    unfold normpath
    by_cases hqe : q = []
    · subst hqe; simp [split, normFold, normStep]
    · have : q.isEmpty = false := by cases q <;> simp_all
      simp only [this, Bool.false_eq_true, if_false, hinq, List.replicate, List.nil_append]
      show (if (joinSlash (normFold 0 (split q) [])).isEmpty = true then dot else _) = _
      by_cases hr : normFold 0 (split q) [] = []
      · simp [hr, joinSlash]
      · have := joinSlash_ne_nil hr hR
        have hje : (joinSlash (normFold 0 (split q) [])).isEmpty = false := by
          cases hj : joinSlash (normFold 0 (split q) []) <;> simp_all
        simp only [hje, hr, Bool.false_eq_true, if_false]
        rfl
  unfold relpath osRelpath
  simp only [hnei, Bool.false_eq_true, if_false, hst, hpa, hS, hP, commonLen_append, Nat.sub_self, List.replicate,
    List.nil_append, List.drop_left']
  rw [hnq]
  by_cases hr : normFold 0 (split q) [] = []
  · simp [hr, bind, Except.bind, pure, Except.pure, dot]
  · have hjn := joinSlash_ne_nil hr hR
    have hdotne : joinSlash (normFold 0 (split q) []) ≠ dot := by
      intro e
      -- a single component "." is never on the stack
      have hall : ∀ c ∈ normFold 0 (split q) [], c ≠ dot := by
        apply normFold_mem (fun c => c ≠ dot) 0
        · intro c hc; cases hc
        · intro c _ _ h2; exact h2
      cases hcs : normFold 0 (split q) [] with
      | nil => exact hr hcs
      | cons a r =>
        rw [hcs] at e hall hR
        cases r with
        | nil => simp only [joinSlash] at e; exact hall a (by simp) e
        | cons b r' =>
          have : (a ++ 47 :: joinSlash (b :: r')).length = 1 := by
            have := congrArg List.length e
            simpa [joinSlash, dot] using this
          have ha := (hR a (by simp)).1
          cases a <;> simp_all
    cases hcs : normFold 0 (split q) [] with
    | nil => exact absurd hcs hr
    | cons a r =>
      rw [hcs] at hR hdotne hjn
      have hj := join_comps (cs := a :: r) (by simp) hR
      simp only [hj, bind, Except.bind, pure, Except.pure]
      simp [hdotne]


/-- result of a partial helper as a value with decidable equality (proof files only) -/
def res (r : Except Err Text) : Sum Err Text :=
  match r with
  | .ok t => .inr t
  | .error e => .inl e

end C12MP

/- C06 helper lemmas (round 4): the verdict of `checkPrintf` as ONE decision over the two specifier lists:
   `specsVerdict R L` (= the code after `l10nSpecs = self.getPrintfSpecs(l10nValue)`), an exact description in terms
   of the difflib opcodes (error ⇔ some replace / insert / non-trailing delete; warning ⇔ a delete that ends at
   `len(refSpecs)`), and the closed forms: equal → nothing, `L` proper prefix of `R` → one warning,
   `R` proper prefix of `L` → one "obsolete" error, error ⇔ `L` is not a prefix of `R`. -/
import CLModel.Proofs.C06Printf
import CLModel.Proofs.C06PrefixExt
namespace PropCk
open Difflib

def hasWarning (fs : List Finding) : Prop := ∃ f ∈ fs, f.sev = Sev.warning

/-- the part of `checkPrintf` that follows the (successful) computation of `l10nSpecs` -/
def specsVerdict (R L : List Spec) : Option (List Finding) :=
  if R ≠ L then
    match Difflib.opcodes R L with
    | none => none
    | some ops =>
      match opcodeFold R L ops ([], none) with
      | none => none
      | some (msgs, warn) =>
        some ((if !msgs.isEmpty then [⟨.error, .val 0, join sCommaSp msgs, .printf⟩] else []) ++
              (match warn with
               | some w => [⟨.warning, .val 0, w, .printf⟩]
               | none => []))
  else some []

theorem checkPrintf_ok (R L : List Spec) (val : Text) (h : getPrintfSpecs val = .ok L) :
    checkPrintf R val = specsVerdict R L := by
  unfold checkPrintf specsVerdict
  rw [h]
  rfl

/-- an opcode that makes `checkPrintf` set the warning: a delete that ends at the end of the reference list -/
def isWarn (R : List Spec) (op : Opcode) : Bool :=
  match op.tag with
  | .delete => decide (op.i2 = R.length)
  | _ => false

theorem opcodeStep_spec2 (R L : List Spec) (msgs : List Text) (warn : Option Text) (op : Opcode)
    (hok : OpOK R L op) :
    ∃ extra warn', opcodeStep R L (msgs, warn) op = some (msgs ++ extra, warn') ∧
      (extra ≠ [] ↔ isBad R op = true) ∧
      (warn'.isSome = true ↔ warn.isSome = true ∨ isWarn R op = true) := by
  obtain ⟨h1, h2, h3, h4, h5⟩ := hok
  unfold opcodeStep
  simp only
  cases htag : op.tag with
  | equal =>
    exact ⟨[], warn, by simp, by simp [isBad, htag], by simp [isWarn, htag]⟩
  | delete =>
    rw [htag] at h5
    simp only at h5
    by_cases hlast : op.i2 = R.length
    · simp only [hlast, if_true]
      obtain ⟨r, hr, _⟩ := mapOpt_total (missingMsg sTrailingArg R) (List.range' op.i1 (R.length - op.i1))
        (by
          intro i hi
          have := range'_mem_lt hi
          have : i < R.length := by omega
          simp [missingMsg, List.getElem?_eq_getElem this])
      rw [hr]
      exact ⟨[], some (join sCommaSp r), by simp, by simp [isBad, htag, hlast], by simp [isWarn, htag, hlast]⟩
    · simp only [hlast, if_false]
      obtain ⟨r, hr, hl⟩ := mapOpt_total (missingMsg sArgument R) (List.range' op.i1 (op.i2 - op.i1))
        (by
          intro i hi
          have := range'_mem_lt hi
          have : i < R.length := by omega
          simp [missingMsg, List.getElem?_eq_getElem this])
      rw [hr]
      refine ⟨r, warn, rfl, ?_, by simp [isWarn, htag, hlast]⟩
      have : r ≠ [] := by
        intro h; rw [h] at hl; simp at hl; omega
      simp [isBad, htag, hlast, this]
  | insert =>
    rw [htag] at h5
    simp only at h5
    obtain ⟨r, hr, hl⟩ := mapOpt_total (obsoleteMsg L) (List.range' op.j1 (op.j2 - op.j1))
      (by
        intro i hi
        have := range'_mem_lt hi
        have : i < L.length := by omega
        simp [obsoleteMsg, List.getElem?_eq_getElem this])
    rw [hr]
    refine ⟨r, warn, rfl, ?_, by simp [isWarn, htag]⟩
    have : r ≠ [] := by
      intro h; rw [h] at hl; simp at hl; omega
    simp [isBad, htag, this]
  | replace =>
    rw [htag] at h5
    simp only at h5
    obtain ⟨r, hr, hl⟩ := mapOpt_total (replaceMsg R L)
      ((List.range' op.i1 (op.i2 - op.i1)).zip (List.range' op.j1 (op.j2 - op.j1)))
      (by
        intro p hp
        have hp1 := range'_mem_lt (List.of_mem_zip hp).1
        have hp2 := range'_mem_lt (List.of_mem_zip hp).2
        have h1' : p.1 < R.length := by omega
        have h2' : p.2 < L.length := by omega
        simp [replaceMsg, List.getElem?_eq_getElem h1', List.getElem?_eq_getElem h2'])
    rw [hr]
    refine ⟨r, warn, rfl, ?_, by simp [isWarn, htag]⟩
    have : r ≠ [] := by
      intro h; rw [h] at hl; simp at hl; omega
    simp [isBad, htag, this]

theorem opcodeFold_spec2 (R L : List Spec) :
    ∀ (ops : List Opcode) (i j : Nat) (msgs : List Text) (warn : Option Text),
      ValidFrom R L i j ops →
      ∃ msgs' warn', opcodeFold R L ops (msgs, warn) = some (msgs', warn') ∧
        (msgs' ≠ [] ↔ msgs ≠ [] ∨ ∃ op ∈ ops, isBad R op = true) ∧
        (warn'.isSome = true ↔ warn.isSome = true ∨ ∃ op ∈ ops, isWarn R op = true) := by
  intro ops
  induction ops with
  | nil => intro i j msgs warn _; exact ⟨msgs, warn, rfl, by simp, by simp⟩
  | cons op rest ih =>
    intro i j msgs warn hv
    obtain ⟨hok, hrest⟩ := validFrom_opOK hv
    obtain ⟨extra, warn1, hs, hex, hw⟩ := opcodeStep_spec2 R L msgs warn op hok
    obtain ⟨m2, w2, hf, hm, hw2⟩ := ih op.i2 op.j2 (msgs ++ extra) warn1 hrest
    refine ⟨m2, w2, by simp [opcodeFold, hs, hf], ?_, ?_⟩
    · rw [hm]
      simp only [ne_eq, List.append_eq_nil_iff, not_and, List.mem_cons, exists_eq_or_imp]
      rw [← hex]
      constructor
      · rintro (h | h)
        · by_cases hm0 : msgs = []
          · right; left; exact h hm0
          · left; exact hm0
        · right; right; exact h
      · rintro (h | h | h)
        · left; intro h0; exact absurd h0 h
        · left; intro _; exact h
        · right; exact h
    · rw [hw2, hw]
      simp only [List.mem_cons, exists_eq_or_imp]
      constructor
      · rintro ((h | h) | h)
        · exact Or.inl h
        · exact Or.inr (Or.inl h)
        · exact Or.inr (Or.inr h)
      · rintro (h | h | h)
        · exact Or.inl (Or.inl h)
        · exact Or.inl (Or.inr h)
        · exact Or.inr h

/-- the last lines of `checkPrintf`: one error when there are messages, then the warning if set -/
def verdictOf (msgs : List Text) (warn : Option Text) : List Finding :=
  (if !msgs.isEmpty then [(⟨.error, .val 0, join sCommaSp msgs, .printf⟩ : Finding)] else []) ++
    (match warn with
     | some w => [⟨.warning, .val 0, w, .printf⟩]
     | none => [])

/-- the severities `checkPrintf` reports, as a function of the opcodes -/
def sevsOf (R L : List Spec) (ops : List Opcode) : List Sev :=
  if R ≠ L then
    (if ops.any (isBad R) then [Sev.error] else []) ++ (if ops.any (isWarn R) then [Sev.warning] else [])
  else []

/-- **the verdict in terms of the opcodes**: never raises; the reported severities are `sevsOf` (at most one error
    followed by at most one warning), everything at offset 0 in category `printf`; hence
    error ⇔ the lists differ and some opcode is a replace, an insert or a non-trailing delete;
    warning ⇔ the lists differ and some opcode is a delete ending at `len(refSpecs)`. -/
theorem specsVerdict_opcodes (R L : List Spec) :
    ∃ ops fs, Difflib.opcodes R L = some ops ∧ ValidOpcodes R L ops ∧ specsVerdict R L = some fs ∧
      fs.map (·.sev) = sevsOf R L ops ∧ (∀ f ∈ fs, f.pos = .val 0 ∧ f.cat = .printf) ∧
      (hasError fs ↔ R ≠ L ∧ ∃ op ∈ ops, isBad R op = true) ∧
      (hasWarning fs ↔ R ≠ L ∧ ∃ op ∈ ops, isWarn R op = true) := by
  obtain ⟨ops, ho, hv⟩ := opcodes_valid R L
  by_cases hne : R = L
  · refine ⟨ops, [], ho, hv, by simp [specsVerdict, hne], by simp [sevsOf, hne], by simp, ?_, ?_⟩
    · simp [hasError, hne]
    · simp [hasWarning, hne]
  · obtain ⟨msgs, warn, hf, hm, hw⟩ := opcodeFold_spec2 R L ops 0 0 [] none hv
    have hm' : msgs ≠ [] ↔ ∃ op ∈ ops, isBad R op = true := by simpa using hm
    have hw' : warn.isSome = true ↔ ∃ op ∈ ops, isWarn R op = true := by simpa using hw
    have hb : ops.any (isBad R) = !msgs.isEmpty := by
      rw [Bool.eq_iff_iff]
      simp only [List.any_eq_true, Bool.not_eq_true', List.isEmpty_eq_false_iff, ← hm']
    have hwb : ops.any (isWarn R) = warn.isSome := by
      rw [Bool.eq_iff_iff]
      simp only [List.any_eq_true, hw']
    refine ⟨ops, verdictOf msgs warn, ho, hv,
      by simp only [specsVerdict, ne_eq, hne, not_false_eq_true, if_true, ho, hf, verdictOf], ?_, ?_, ?_, ?_⟩
    · simp only [sevsOf, ne_eq, hne, not_false_eq_true, if_true, hb, hwb]
      cases msgs <;> cases warn <;> simp [verdictOf]
    · intro f hf'
      cases msgs <;> cases warn <;> simp [verdictOf] at hf' <;> (try rcases hf' with rfl | rfl) <;>
        (try subst hf') <;> simp
    · rw [← hm']
      cases msgs <;> cases warn <;> simp [hasError, hne, verdictOf]
    · rw [← hw']
      cases msgs <;> cases warn <;> simp [hasWarning, hne, verdictOf]

/-! ### closed forms -/

theorem specsVerdict_equal (R : List Spec) : specsVerdict R R = some [] := by
  simp [specsVerdict]

/-- `L` is a proper prefix of `R` (only trailing arguments dropped): exactly one warning naming them -/
theorem specsVerdict_trailing (L t : List Spec) (ht : t ≠ []) :
    specsVerdict (L ++ t) L = some [⟨.warning, .val 0, trailingMsg (L ++ t) L.length, .printf⟩] := by
  have hne : L ++ t ≠ L := by
    intro he
    have := congrArg List.length he
    simp at this
    exact ht this
  have hdel : opcodeStep (L ++ t) L ([], none) ⟨.delete, L.length, (L ++ t).length, L.length, L.length⟩ =
      some ([], some (trailingMsg (L ++ t) L.length)) := by
    simp only [opcodeStep, if_true]
    rw [mapOpt_eq_map (missingMsg sTrailingArg (L ++ t))
      (fun i => sTrailingArg ++ decimal (i + 1) ++ sSpBt ++ showSpec ((L ++ t)[i]?).join ++ sBtMissing)]
    · rfl
    · intro i hi
      have := range'_mem_lt hi
      have hlt : i < (L ++ t).length := by omega
      simp [missingMsg, List.getElem?_eq_getElem hlt]
  simp only [specsVerdict, ne_eq, hne, not_false_eq_true, if_true, opcodes_prefix L t ht]
  by_cases hb : L.length = 0
  · simp only [hb, ne_eq, not_true_eq_false, if_false, List.nil_append, opcodeFold]
    rw [hb] at hdel
    rw [hdel]
    simp [hb]
  · simp only [ne_eq, hb, not_false_eq_true, if_true, List.singleton_append, opcodeFold]
    have : opcodeStep (L ++ t) L ([], none) ⟨.equal, 0, L.length, 0, L.length⟩ = some ([], none) := by
      simp [opcodeStep]
    rw [this]
    simp only
    rw [hdel]
    simp

/-- the error text for arguments `n+1 … |L|` of the localization that the reference does not have -/
def obsoleteListMsg (L : List Spec) (n : Nat) : Text :=
  join sCommaSp ((List.range' n (L.length - n)).map (fun i =>
    sArgument ++ decimal (i + 1) ++ sSpBt ++ showSpec (L[i]?).join ++ sBtObsolete))

/-- `R` is a proper prefix of `L` (the localization has additional arguments): exactly one error that lists
    every additional argument as obsolete — in particular NOT silent -/
theorem specsVerdict_obsolete (R t : List Spec) (ht : t ≠ []) :
    specsVerdict R (R ++ t) = some [⟨.error, .val 0, obsoleteListMsg (R ++ t) R.length, .printf⟩] := by
  have hne : R ≠ R ++ t := by
    intro he
    have := congrArg List.length he
    simp at this
    exact ht this
  have hlenpos : 0 < t.length := List.length_pos_iff.mpr ht
  have hins : opcodeStep R (R ++ t) ([], none) ⟨.insert, R.length, R.length, R.length, (R ++ t).length⟩ =
      some ((List.range' R.length ((R ++ t).length - R.length)).map (fun i =>
        sArgument ++ decimal (i + 1) ++ sSpBt ++ showSpec ((R ++ t)[i]?).join ++ sBtObsolete), none) := by
    simp only [opcodeStep]
    rw [mapOpt_eq_map (obsoleteMsg (R ++ t))
      (fun i => sArgument ++ decimal (i + 1) ++ sSpBt ++ showSpec ((R ++ t)[i]?).join ++ sBtObsolete)]
    · rfl
    · intro i hi
      have := range'_mem_lt hi
      have hlt : i < (R ++ t).length := by omega
      simp [obsoleteMsg, List.getElem?_eq_getElem hlt]
  have hnonempty : ((List.range' R.length ((R ++ t).length - R.length)).map (fun i =>
        sArgument ++ decimal (i + 1) ++ sSpBt ++ showSpec ((R ++ t)[i]?).join ++ sBtObsolete)).isEmpty = false := by
    have : (R ++ t).length - R.length = t.length := by simp
    rw [this]
    cases hl : t.length with
    | zero => omega
    | succ n => simp [List.range'_succ]
  simp only [specsVerdict, ne_eq, hne, not_false_eq_true, if_true, opcodes_ext R t ht]
  by_cases hb : R.length = 0
  · simp only [hb, ne_eq, not_true_eq_false, if_false, List.nil_append, opcodeFold]
    rw [hb] at hins hnonempty
    rw [hins]
    simp only [hnonempty, obsoleteListMsg, hb]
    simp
  · simp only [ne_eq, hb, not_false_eq_true, if_true, List.singleton_append, opcodeFold]
    have : opcodeStep R (R ++ t) ([], none) ⟨.equal, 0, R.length, 0, R.length⟩ = some ([], none) := by
      simp [opcodeStep]
    rw [this]
    simp only
    rw [hins]
    simp only [hnonempty, obsoleteListMsg]
    simp

/-- **closed form of the error verdict**: an error is reported iff `L` is not a prefix of `R` -/
theorem specsVerdict_error_iff (R L : List Spec) :
    ∃ fs, specsVerdict R L = some fs ∧ (hasError fs ↔ ¬ L <+: R) := by
  by_cases hp : L <+: R
  · obtain ⟨t, rfl⟩ := hp
    by_cases ht : t = []
    · subst ht
      simp only [List.append_nil]
      refine ⟨[], specsVerdict_equal L, ?_⟩
      simp [hasError]
    · refine ⟨_, specsVerdict_trailing L t ht, ?_⟩
      simp [hasError]
  · obtain ⟨ops, fs, ho, hv, hs, _, _, hE, _⟩ := specsVerdict_opcodes R L
    refine ⟨fs, hs, ?_⟩
    have hne : R ≠ L := by
      intro he; apply hp; rw [he]; exact List.prefix_refl _
    have hbad : ∃ op ∈ ops, isBad R op = true := by
      apply Classical.byContradiction
      intro hno
      apply hp
      apply noBad_prefix R L ops 0 hv
      · intro op hop
        cases hb : isBad R op
        · rfl
        · exact absurd ⟨op, hop, hb⟩ hno
      · omega
      · omega
      · simp
    constructor
    · intro _; exact hp
    · intro _; exact hE.mpr ⟨hne, hbad⟩

end PropCk

/-
C07, round 4 — `processAndroidContent` (android-dtd extra test) without the regex engine.

* the three run-time `stray_quot` regexes `[\\]*(q)` iterated by `finditer` = a run-structured scanner:
  skip the maximal run of backslashes, look at the next character;
* the `unicode-escape` scan (`ueScan`): what it does on text without backslashes, on `\'`, `\"`, `\uXXXX`,
  truncated `\u…`, and on `\N{…}`.
-/
import CLModel.Checks.Dtd
import CLModel.Proofs.C07ERx
import CLModel.Checks.DtdNamed
namespace C07A
open Rx Dtd

abbrev T := List Nat

/-! ### `[\\]*` as a class star -/

theorem m_lit_eq_cls (s : Array Nat) (c : Nat) : m s (.lit c) = m s (.cls false [.ch c]) := by
  funext st k
  rw [m_lit, m_cls_apply]
  cases h : s[st.pos]? with
  | none => simp
  | some d =>
    by_cases hd : d = c
    · subst hd; simp [inC, ClsItem.has]
    · have : (some d == some c) = false := by simp [hd]
      simp [this, inC, ClsItem.has, hd]

theorem inC_bs (c : Nat) : inC false [.ch 92] c = (c == 92) := by
  simp [inC, ClsItem.has]

/-- number of leading backslashes -/
def bsRun (l : T) : Nat := (l.takeWhile (fun c => c == 92)).length

/-- `stray_quot.match(text, off)` on the suffix at `off`: the maximal run of backslashes, then a quote of the class -/
def strayAt (isQ : Nat → Bool) (off : Nat) (l : T) : Option St :=
  match l.drop (bsRun l) with
  | c :: _ => if isQ c then some ⟨off + bsRun l + 1, [(1, off + bsRun l, off + bsRun l + 1)]⟩ else none
  | [] => none

/-- the three regexes have the shape `[\\]*(Q)` with Q a class or a literal -/
theorem stray_local_cls (s : Array Nat) (items : List ClsItem) (p : Nat) (hp : p ≤ s.size)
    (hq : inC false items 92 = false) :
    matchAt s (.seq (.rep 0 none true (.lit 92)) (.group 1 (.cls false items))) p
      = strayAt (inC false items) p (s.toList.drop p) := by
  simp only [matchAt, m_seq, m_rep, m_group, m_lit_eq_cls]
  rw [C07E.star_cls_then s false [.ch 92] _ _ p hp]
  · have hfun : inC false [.ch 92] = (fun c => c == 92) := funext inC_bs
    simp only [hfun, m_cls_apply, strayAt, bsRun]
    have hget : s[p + ((s.toList.drop p).takeWhile (fun c => c == 92)).length]?
        = ((s.toList.drop p).drop ((s.toList.drop p).takeWhile (fun c => c == 92)).length).head? := by
      rw [List.head?_drop, List.getElem?_drop]; simp
    rw [hget]
    cases (s.toList.drop p).drop ((s.toList.drop p).takeWhile (fun c => c == 92)).length with
    | nil => simp
    | cons c t => simp
  · intro j c hc hin
    rw [inC_bs] at hin
    have : c = 92 := by simpa using hin
    subst this
    simp [m_cls_apply, hc, hq]

theorem stray_local_any (s : Array Nat) (p : Nat) (hp : p ≤ s.size) :
    matchAt s Gen.Pat.DTDChecker_stray_quot_any p = strayAt (fun c => c == 34 || c == 39) p (s.toList.drop p) := by
  have h := stray_local_cls s [.ch 34, .ch 39] p hp (by decide)
  have hf : inC false [.ch 34, .ch 39] = (fun c => c == 34 || c == 39) := by
    funext c; simp [inC, ClsItem.has]
  rw [hf] at h
  exact h

theorem stray_local_lit (s : Array Nat) (q : Nat) (hq92 : q ≠ 92) (p : Nat) (hp : p ≤ s.size) :
    matchAt s (.seq (.rep 0 none true (.lit 92)) (.group 1 (.lit q))) p = strayAt (fun c => c == q) p (s.toList.drop p) := by
  have h := stray_local_cls s [.ch q] p hp (by simp [inC, ClsItem.has]; exact fun h => hq92 h.symm)
  have hf : inC false [.ch q] = (fun c => c == q) := by
    funext c; simp [inC, ClsItem.has]
  rw [hf] at h
  rw [← h]
  simp only [matchAt, m_seq, m_group, m_lit_eq_cls]

theorem stray_local_dq (s : Array Nat) (p : Nat) (hp : p ≤ s.size) :
    matchAt s Gen.Pat.DTDChecker_stray_quot_dq p = strayAt (fun c => c == 34) p (s.toList.drop p) :=
  stray_local_lit s 34 (by decide) p hp

theorem stray_local_sq (s : Array Nat) (p : Nat) (hp : p ≤ s.size) :
    matchAt s Gen.Pat.DTDChecker_stray_quot_sq p = strayAt (fun c => c == 39) p (s.toList.drop p) :=
  stray_local_lit s 39 (by decide) p hp

/-! ### the regex-free scanner -/

/-- what `processAndroidContent` reports for the quotes of `l` (starting at offset `off`): skip the maximal run of
    `k` backslashes; if a quote of the class follows, it is unescaped iff `k` is even (match length `k + 1` odd) and is
    reported with the position AFTER the quote; go on after that character -/
def strayList (isQ : Nat → Bool) : Nat → Nat → T → List (Nat × Nat)
  | 0, _, _ => []
  | fuel + 1, off, l =>
    match l.drop (bsRun l) with
    | c :: rest =>
      if isQ c then
        (if bsRun l % 2 == 0 then [(off + bsRun l + 1, c)] else []) ++ strayList isQ fuel (off + bsRun l + 1) rest
      else strayList isQ fuel (off + bsRun l + 1) rest
    | [] => []

/-- the `for m in stray_quot.finditer(val)` loop body as a function of a match -/
def reportOf (t : Array Nat) (p : Nat × St) : Option (Nat × Nat) :=
  if (p.2.pos - p.1) % 2 == 1 then
    match p.2.group 1 with
    | some (a, _) => (t[a]?).map (fun c => (p.2.pos, c))
    | none => none
  else none

theorem bsRun_cons_bs (l : T) : bsRun (92 :: l) = bsRun l + 1 := by simp [bsRun]
theorem bsRun_cons_ne (c : Nat) (l : T) (h : c ≠ 92) : bsRun (c :: l) = 0 := by simp [bsRun, h]
theorem bsRun_nil : bsRun [] = 0 := rfl

theorem drop_bsRun_cons_bs (l : T) : (92 :: l).drop (bsRun (92 :: l)) = l.drop (bsRun l) := by
  rw [bsRun_cons_bs]; rfl

theorem strayAt_cons_bs (isQ : Nat → Bool) (off : Nat) (l : T) (h : strayAt isQ off (92 :: l) = none) :
    strayAt isQ (off + 1) l = none := by
  unfold strayAt at h ⊢
  rw [drop_bsRun_cons_bs] at h
  cases hd : l.drop (bsRun l) with
  | nil => rfl
  | cons c t =>
    rw [hd] at h
    simp only [] at h ⊢
    by_cases hq : isQ c = true
    · simp [hq] at h
    · simp [hq]

/-- scanning through a run of backslashes that is not followed by a quote yields what the scan yields after it -/
theorem scanL_skip (isQ : Nat → Bool) : ∀ (l : T) (fuel off : Nat), l.length < fuel →
    strayAt isQ off l = none →
    scanL (strayAt isQ) fuel off l =
      scanL (strayAt isQ) (fuel - (bsRun l + 1)) (off + bsRun l + 1) (l.drop (bsRun l + 1)) := by
  intro l
  induction l with
  | nil =>
    intro fuel off hf _
    cases fuel with
    | zero => simp at hf
    | succ f => simp [scanL, bsRun]; cases f <;> simp [scanL]
  | cons c t ih =>
    intro fuel off hf h
    cases fuel with
    | zero => simp at hf
    | succ f =>
      simp only [scanL, h]
      by_cases hc : c = 92
      · subst hc
        rw [bsRun_cons_bs]
        have := ih f (off + 1) (by simp at hf; omega) (strayAt_cons_bs isQ off t h)
        rw [this]
        have e1 : f + 1 - (bsRun t + 1 + 1) = f - (bsRun t + 1) := by omega
        have e2 : off + (bsRun t + 1) + 1 = off + 1 + bsRun t + 1 := by omega
        rw [e1, e2]
        rfl
      · rw [bsRun_cons_ne c t hc]
        simp

theorem length_drop_bsRun (l : T) : (l.drop (bsRun l)).length + bsRun l = l.length := by
  have : bsRun l ≤ l.length := by
    unfold bsRun
    exact (List.takeWhile_prefix _ (l := l)).length_le
  simp; omega

theorem strayList_fuel (isQ : Nat → Bool) : ∀ (n : Nat) (l : T) (f1 f2 off : Nat), l.length ≤ n → l.length < f1 → l.length < f2 →
    strayList isQ f1 off l = strayList isQ f2 off l := by
  intro n
  induction n with
  | zero =>
    intro l f1 f2 off hn h1 h2
    have : l = [] := List.eq_nil_of_length_eq_zero (by omega)
    subst this
    cases f1 with
    | zero => simp at h1
    | succ f1 => cases f2 with
      | zero => simp at h2
      | succ f2 => simp [strayList, bsRun]
  | succ n ih =>
    intro l f1 f2 off hn h1 h2
    cases f1 with
    | zero => omega
    | succ f1 =>
      cases f2 with
      | zero => omega
      | succ f2 =>
        simp only [strayList]
        have hrun := length_drop_bsRun l
        cases hd : l.drop (bsRun l) with
        | nil => rfl
        | cons c rest =>
          rw [hd] at hrun
          simp at hrun
          have := ih rest f1 f2 (off + bsRun l + 1) (by omega) (by omega) (by omega)
          simp only []
          rw [this]

/-- the scan of the regex matches, filtered by the loop body, is the run-structured scanner -/
theorem scan_stray (isQ : Nat → Bool) (t : Array Nat) : ∀ (fuel off : Nat), t.size - off < fuel → off ≤ t.size →
    (scanL (strayAt isQ) fuel off (t.toList.drop off)).filterMap (reportOf t)
      = strayList isQ fuel off (t.toList.drop off) := by
  intro fuel
  induction fuel using Nat.strongRecOn with
  | ind fuel ih =>
    intro off hf hle
    cases fuel with
    | zero => omega
    | succ f =>
      generalize hl : t.toList.drop off = l
      have hlen : l.length = t.size - off := by rw [← hl]; simp
      have hrun := length_drop_bsRun l
      simp only [strayList]
      cases hd : l.drop (bsRun l) with
      | nil =>
        -- the text ends inside / after a run of backslashes: no match anywhere
        have hnone : strayAt isQ off l = none := by simp [strayAt, hd]
        cases hl' : l with
        | nil => simp [scanL]
        | cons c rest =>
          rw [← hl', scanL_skip isQ l (f + 1) off (by omega) hnone]
          have : l.drop (bsRun l + 1) = [] := by
            rw [← List.drop_drop, hd]; rfl
          rw [this]
          cases f + 1 - (bsRun l + 1) <;> simp [scanL]
      | cons c rest =>
        have hk : bsRun l < l.length := by rw [hd] at hrun; simp at hrun; omega
        have hrest : t.toList.drop (off + bsRun l + 1) = rest := by
          have : (t.toList.drop off).drop (bsRun l + 1) = rest := by
            rw [hl, ← List.drop_drop, hd]; rfl
          rw [List.drop_drop] at this
          rw [← this]; congr 1
        have hget : t[off + bsRun l]? = some c := by
          have : (t.toList.drop off)[bsRun l]? = some c := by
            rw [hl]
            have := congrArg List.head? hd
            rw [List.head?_drop] at this
            simpa using this
          rw [List.getElem?_drop] at this
          simpa using this
        by_cases hq : isQ c = true
        · -- a match at `off` of length bsRun + 1
          have hm : strayAt isQ off l = some ⟨off + bsRun l + 1, [(1, off + bsRun l, off + bsRun l + 1)]⟩ := by
            simp [strayAt, hd, hq]
          cases hl' : l with
          | nil => rw [hl'] at hk; simp at hk
          | cons c0 r0 =>
            rw [← hl']
            have hs : scanL (strayAt isQ) (f + 1) off l
                = (off, ⟨off + bsRun l + 1, [(1, off + bsRun l, off + bsRun l + 1)]⟩) ::
                  scanL (strayAt isQ) f (off + bsRun l + 1) rest := by
              rw [hl']
              simp only [scanL]
              rw [← hl', hm]
              simp only []
              congr 2
              have : off + bsRun l + 1 - off = bsRun l + 1 := by omega
              rw [this, ← List.drop_drop, hd]; rfl
            rw [hs, List.filterMap_cons]
            have hrep : reportOf t (off, ⟨off + bsRun l + 1, [(1, off + bsRun l, off + bsRun l + 1)]⟩)
                = if bsRun l % 2 == 0 then some (off + bsRun l + 1, c) else none := by
              simp only [reportOf, St.group, capOf, List.find?, beq_self_eq_true, hget, Option.map_some]
              have : off + bsRun l + 1 - off = bsRun l + 1 := by omega
              rw [this]
              by_cases he : bsRun l % 2 = 0
              · have : (bsRun l + 1) % 2 = 1 := by omega
                simp [he, this]
              · have : (bsRun l + 1) % 2 = 0 := by omega
                simp [he, this]
            rw [hrep]
            simp only [hq, if_true]
            have ihr := ih f (by omega) (off + bsRun l + 1) (by omega) (by omega)
            rw [hrest] at ihr
            by_cases he : bsRun l % 2 = 0
            · simp [he, ihr]
            · simp [he, ihr]
        · -- no match at `off`: skip the run and the character
          have hnone : strayAt isQ off l = none := by simp [strayAt, hd, hq]
          rw [scanL_skip isQ l (f + 1) off (by omega) hnone]
          have hdrop : l.drop (bsRun l + 1) = rest := by rw [← List.drop_drop, hd]; rfl
          rw [hdrop]
          simp only [hq, Bool.false_eq_true, if_false]
          have e : f + 1 - (bsRun l + 1) = f - bsRun l := by omega
          rw [e]
          by_cases hz : bsRun l = 0
          · rw [hz]
            have ihr := ih f (by omega) (off + bsRun l + 1) (by omega) (by omega)
            rw [hrest, hz] at ihr
            simpa using ihr
          · -- less fuel on the scan side: both sides are fuel-independent once above the length
            have ih1 := ih (f - bsRun l) (by omega) (off + bsRun l + 1) (by omega) (by omega)
            rw [hrest] at ih1
            rw [ih1]
            exact (strayList_fuel isQ rest.length rest (f - bsRun l) f (off + bsRun l + 1) (Nat.le_refl _) (by rw [← hrest]; simp; omega)
              (by rw [← hrest]; simp; omega))

theorem minLen_any : 1 ≤ minLen Gen.Pat.DTDChecker_stray_quot_any := by decide
theorem minLen_dq : 1 ≤ minLen Gen.Pat.DTDChecker_stray_quot_dq := by decide
theorem minLen_sq : 1 ≤ minLen Gen.Pat.DTDChecker_stray_quot_sq := by decide

/-- `finditer` of a `stray_quot` regex, filtered by the loop body = the scanner -/
theorem finditer_stray (re : Re) (isQ : Nat → Bool) (hr : 1 ≤ minLen re)
    (hloc : ∀ (s : Array Nat) p, p ≤ s.size → matchAt s re p = strayAt isQ p (s.toList.drop p)) (inner : T) :
    (finditer inner.toArray re).filterMap (reportOf inner.toArray) = strayList isQ (inner.length + 1) 0 inner := by
  rw [finditer_eq_scanL inner.toArray re hr (strayAt isQ) (hloc inner.toArray)]
  have := scan_stray isQ inner.toArray (inner.toArray.size + 1) 0 (by omega) (by omega)
  simpa using this

/-! ### from the model's loop body to the scanner -/

/-- the result `processAndroidContent` yields for a reported quote (`offset` = 0 if the string is quoted, else -1) -/
def mkRes (offset : Int) (e : Nat × Nat) : Result :=
  ⟨.error, .num ((e.1 : Int) + offset), if e.2 == 34 then msgQuotes else msgApos, .android⟩

/-- the body of the `for m in stray_quot.finditer(val)` loop, as `Dtd.androidSection` has it -/
def modelBody (t : Array Nat) (offset : Int) (p : Nat × St) : Option Result :=
  if (p.2.pos - p.1) % 2 == 1 then
    match p.2.group 1 with
    | some (a, _) =>
      some ⟨.error, .num ((p.2.pos : Int) + offset), if t[a]? == some 34 then msgQuotes else msgApos, .android⟩
    | none => none
  else none

theorem modelBody_eq (t : Array Nat) (offset : Int) (p : Nat × St)
    (h : ∀ a b, p.2.group 1 = some (a, b) → a < t.size) :
    modelBody t offset p = (reportOf t p).map (mkRes offset) := by
  unfold modelBody reportOf
  split
  · cases hg : p.2.group 1 with
    | none => rfl
    | some ab =>
      obtain ⟨a, b⟩ := ab
      have hlt := h a b hg
      have : t[a]? = some t[a] := by simp [hlt]
      simp only [this, Option.map_some, mkRes]
      by_cases h34 : t[a] = 34 <;> simp [h34]
  · rfl

theorem Matches_all {s : Array Nat} {r : Re} : ∀ {pos ms}, Matches s r pos ms →
    ∀ p ∈ ms, matchAt s r p.1 = some p.2 ∧ p.1 ≤ s.size := by
  intro pos ms h
  induction h with
  | nil _ => intro p hp; cases hp
  | cons _ h2 _ h4 _ ih =>
    intro p hp
    rcases List.mem_cons.mp hp with rfl | hp
    · exact ⟨h4, h2⟩
    · exact ih p hp

theorem strayAt_group {isQ : Nat → Bool} {off : Nat} {l : T} {st : St} (h : strayAt isQ off l = some st) :
    ∃ k, st = ⟨off + k + 1, [(1, off + k, off + k + 1)]⟩ := by
  unfold strayAt at h
  split at h
  · split at h
    · exact ⟨bsRun l, by simpa using h.symm⟩
    · cases h
  · cases h

theorem filterMap_congr' {α β : Type} {f g : α → Option β} : ∀ {l : List α}, (∀ x ∈ l, f x = g x) → l.filterMap f = l.filterMap g
  | [], _ => rfl
  | x :: xs, h => by
    simp only [List.filterMap_cons, h x (by simp)]
    rw [filterMap_congr' (fun y hy => h y (List.mem_cons_of_mem _ hy))]

/-- the model's filtered loop = the scanner, for each of the three regexes -/
theorem model_stray (re : Re) (isQ : Nat → Bool) (hr : 1 ≤ minLen re)
    (hloc : ∀ (s : Array Nat) p, p ≤ s.size → matchAt s re p = strayAt isQ p (s.toList.drop p)) (inner : T)
    (offset : Int) :
    (finditer inner.toArray re).filterMap (modelBody inner.toArray offset)
      = (strayList isQ (inner.length + 1) 0 inner).map (mkRes offset) := by
  rw [← finditer_stray re isQ hr hloc inner, List.map_filterMap]
  apply filterMap_congr'
  intro p hp
  obtain ⟨hm, hle⟩ := Matches_all (finditer_matches inner.toArray re hr) p hp
  have hb : ∀ a b, p.2.group 1 = some (a, b) → a < inner.toArray.size := by
    intro a b hg
    rw [hloc inner.toArray p.1 hle] at hm
    obtain ⟨k, hk⟩ := strayAt_group hm
    have hsp := matchAt_span (by rw [hloc inner.toArray p.1 hle]; exact hm) hle
    rw [hk] at hg hsp
    simp only [St.group, capOf, List.find?, beq_self_eq_true, Option.some.injEq, Prod.mk.injEq] at hg
    simp only at hsp
    omega
  rw [modelBody_eq _ _ _ hb]

/-- which regex, offset and text the quote scan uses: `quoted.match(val)` decides (model of the `if m:` block) -/
def kind (val : T) : Re × Int × T :=
  let s := val.toArray
  match matchAt s Gen.Pat.DTDChecker_quoted 0 with
  | some m =>
    (match m.group Gen.Pat.DTDChecker_quoted_g_q with
     | some (a, _) =>
       let stripped := (val.drop 1).take (val.length - 2)
       if s[a]? == some 34 then (Gen.Pat.DTDChecker_stray_quot_dq, 0, stripped)
       else (Gen.Pat.DTDChecker_stray_quot_sq, 0, stripped)
     | none => (Gen.Pat.DTDChecker_stray_quot_any, -1, val))
  | none => (Gen.Pat.DTDChecker_stray_quot_any, -1, val)

/-- the first half of `processAndroidContent`: the unicode-escape check -/
def escOut (val : T) : Out :=
  match unicodeEscape val with
  | some .fine => .ok []
  | some (.error n reason) => .ok [⟨.error, .num n, reason, .android⟩]
  | some .unsupported => { results := [], exc := some .unsupported }
  | none => { results := [], exc := some .unsupported }

theorem androidSection_unfold (val : T) :
    androidSection val = (escOut val).andThen fun _ =>
      .ok ((finditer (kind val).2.2.toArray (kind val).1).filterMap (modelBody (kind val).2.2.toArray (kind val).2.1)) := by
  rfl

/-- which of the three scans runs -/
inductive QKind | any | dq | sq
  deriving DecidableEq, Repr

def QKind.re : QKind → Re
  | .any => Gen.Pat.DTDChecker_stray_quot_any | .dq => Gen.Pat.DTDChecker_stray_quot_dq | .sq => Gen.Pat.DTDChecker_stray_quot_sq
def QKind.offset : QKind → Int | .any => -1 | _ => 0
/-- the characters the scan looks for -/
def QKind.cls : QKind → Nat → Bool
  | .any => fun c => c == 34 || c == 39 | .dq => fun c => c == 34 | .sq => fun c => c == 39

/-- `quoted.match(val)`: not quoted (scan `val` for both characters, offset -1) or quoted with `"` / `'`
    (scan `val[1:-1]` for that character only, offset 0) -/
def qkind (val : T) : QKind × T :=
  let s := val.toArray
  match matchAt s Gen.Pat.DTDChecker_quoted 0 with
  | some m =>
    (match m.group Gen.Pat.DTDChecker_quoted_g_q with
     | some (a, _) =>
       if s[a]? == some 34 then (.dq, (val.drop 1).take (val.length - 2)) else (.sq, (val.drop 1).take (val.length - 2))
     | none => (.any, val))
  | none => (.any, val)

theorem kind_eq (val : T) : kind val = ((qkind val).1.re, (qkind val).1.offset, (qkind val).2) := by
  unfold kind qkind
  simp only []
  split
  · split
    · split <;> rfl
    · rfl
  · rfl

/-- **the quote half of `processAndroidContent` without regexes** -/
theorem androidSection_quotes (val : T) :
    androidSection val = (escOut val).andThen fun _ =>
      .ok ((strayList (qkind val).1.cls ((qkind val).2.length + 1) 0 (qkind val).2).map (mkRes (qkind val).1.offset)) := by
  rw [androidSection_unfold, kind_eq]
  congr 1
  funext _
  congr 1
  cases (qkind val).1 with
  | any => exact model_stray _ _ minLen_any stray_local_any _ _
  | dq => exact model_stray _ _ minLen_dq stray_local_dq _ _
  | sq => exact model_stray _ _ minLen_sq stray_local_sq _ _

/-! ### the scanner in plain words: a quote is reported iff an EVEN number of backslashes stands right before it -/

/-- number of consecutive backslashes immediately before index `j` -/
def bsBefore (l : T) (j : Nat) : Nat := ((l.take j).reverse.takeWhile (fun c => c == 92)).length

theorem bsRun_decomp : ∀ l : T, l = List.replicate (bsRun l) 92 ++ l.drop (bsRun l)
  | [] => rfl
  | c :: t => by
    by_cases hc : c = 92
    · subst hc
      rw [bsRun_cons_bs]
      simp only [List.replicate_succ, List.cons_append, List.drop_succ_cons]
      rw [← bsRun_decomp t]
    · rw [bsRun_cons_ne c t hc]; rfl

theorem head_drop_bsRun_ne (l : T) (c : Nat) (rest : T) (h : l.drop (bsRun l) = c :: rest) : c ≠ 92 := by
  induction l with
  | nil => simp [bsRun] at h
  | cons x t ih =>
    by_cases hx : x = 92
    · subst hx
      rw [drop_bsRun_cons_bs] at h
      exact ih h
    · rw [bsRun_cons_ne x t hx] at h
      simp only [List.drop_zero, List.cons.injEq] at h
      rw [← h.1]; exact hx

theorem takeWhile_append_stop' {p : Nat → Bool} (c : Nat) (hc : p c = false) : ∀ (a b : T),
    (a ++ c :: b).takeWhile p = a.takeWhile p
  | [], b => by simp [List.takeWhile, hc]
  | x :: a, b => by
    simp only [List.cons_append, List.takeWhile_cons]
    split
    · rw [takeWhile_append_stop' c hc a b]
    · rfl

theorem takeWhile_replicate_bs (k : Nat) : (List.replicate k 92).takeWhile (fun c => c == 92) = List.replicate k 92 := by
  induction k with
  | zero => rfl
  | succ k ih => simp [List.replicate_succ, List.takeWhile_cons, ih]

theorem bsBefore_at_run (k c : Nat) (rest : T) : bsBefore (List.replicate k 92 ++ c :: rest) k = k := by
  unfold bsBefore
  have : (List.replicate k 92 ++ c :: rest).take k = List.replicate k 92 := by
    rw [List.take_append_of_le_length (by simp)]
    simp
  rw [this, List.reverse_replicate, takeWhile_replicate_bs]
  simp

theorem bsBefore_after (k c : Nat) (rest : T) (hc : c ≠ 92) (j : Nat) :
    bsBefore (List.replicate k 92 ++ c :: rest) (k + 1 + j) = bsBefore rest j := by
  unfold bsBefore
  have : (List.replicate k 92 ++ c :: rest).take (k + 1 + j) = List.replicate k 92 ++ c :: rest.take j := by
    rw [List.take_append]
    simp only [List.length_replicate]
    have e1 : k + 1 + j - k = j + 1 := by omega
    rw [e1, List.take_succ_cons]
    rw [List.take_of_length_le (by simp; omega)]
  rw [this]
  simp only [List.reverse_append, List.reverse_cons, List.append_assoc, List.singleton_append]
  rw [takeWhile_append_stop' c (by simp [hc])]

theorem getElem?_replicate_append_lt (k c : Nat) (rest : T) (j : Nat) (h : j < k) :
    (List.replicate k 92 ++ c :: rest)[j]? = some 92 := by
  rw [List.getElem?_append_left (by simpa using h)]
  simp [h]

/-- **a quote character is reported iff the run of backslashes right before it has even length** (position: the
    index after the quote, plus `off`) -/
theorem mem_strayList (isQ : Nat → Bool) (hq : isQ 92 = false) : ∀ (n : Nat) (l : T) (fuel off : Nat),
    l.length ≤ n → l.length < fuel → ∀ e c,
    ((e, c) ∈ strayList isQ fuel off l ↔
      ∃ j, e = off + j + 1 ∧ l[j]? = some c ∧ isQ c = true ∧ bsBefore l j % 2 = 0) := by
  intro n
  induction n with
  | zero =>
    intro l fuel off hn hf e c
    have : l = [] := List.eq_nil_of_length_eq_zero (by omega)
    subst this
    cases fuel with
    | zero => simp at hf
    | succ f => simp [strayList, bsRun]
  | succ n ih =>
    intro l fuel off hn hf e c
    cases fuel with
    | zero => omega
    | succ f =>
      have hdec := bsRun_decomp l
      have hrun := length_drop_bsRun l
      simp only [strayList]
      cases hd : l.drop (bsRun l) with
      | nil =>
        simp only [List.not_mem_nil, false_iff]
        rintro ⟨j, _, hj, hqc, _⟩
        rw [hd, List.append_nil] at hdec
        rw [hdec] at hj
        have : c = 92 := by
          have := List.mem_of_getElem? hj
          simpa using (List.mem_replicate.mp this).2
        subst this
        rw [hq] at hqc; cases hqc
      | cons c0 rest =>
        have hc0 : c0 ≠ 92 := head_drop_bsRun_ne l c0 rest hd
        rw [hd] at hdec hrun
        simp only [List.length_cons] at hrun
        have hih := ih rest f (off + bsRun l + 1) (by omega) (by omega) e c
        generalize hk : bsRun l = k at *
        -- membership in the recursive part, re-indexed
        have hrec : (∃ j, e = off + k + 1 + j + 1 ∧ rest[j]? = some c ∧ isQ c = true ∧ bsBefore rest j % 2 = 0) ↔
            (∃ j, k < j ∧ e = off + j + 1 ∧ l[j]? = some c ∧ isQ c = true ∧ bsBefore l j % 2 = 0) := by
          constructor
          · rintro ⟨j, he, hj, h1, h2⟩
            refine ⟨k + 1 + j, by omega, by omega, ?_, h1, ?_⟩
            · rw [hdec, List.getElem?_append_right (by simp; omega)]
              simp only [List.length_replicate]
              have : k + 1 + j - k = j + 1 := by omega
              rw [this]; simpa using hj
            · rw [hdec, bsBefore_after k c0 rest hc0 j]; exact h2
          · rintro ⟨j, hlt, he, hj, h1, h2⟩
            obtain ⟨j', rfl⟩ : ∃ j', j = k + 1 + j' := ⟨j - k - 1, by omega⟩
            refine ⟨j', by omega, ?_, h1, ?_⟩
            · rw [hdec, List.getElem?_append_right (by simp; omega)] at hj
              simp only [List.length_replicate] at hj
              have : k + 1 + j' - k = j' + 1 := by omega
              rw [this] at hj; simpa using hj
            · rw [hdec, bsBefore_after k c0 rest hc0 j'] at h2; exact h2
        have hatk : l[k]? = some c0 := by
          rw [hdec, List.getElem?_append_right (by simp)]; simp
        have hbk : bsBefore l k = k := by rw [hdec]; exact bsBefore_at_run k c0 rest
        have hlow : ∀ j, j < k → l[j]? = some 92 := by
          intro j hj; rw [hdec]; exact getElem?_replicate_append_lt k c0 rest j hj
        simp only []
        by_cases hq0 : isQ c0 = true
        · simp only [hq0, if_true, List.mem_append]
          rw [hih, hrec]
          constructor
          · rintro (h | ⟨j, hlt, he, hj, h1, h2⟩)
            · by_cases hev : k % 2 = 0
              · simp only [hev, beq_self_eq_true, if_true, List.mem_singleton, Prod.mk.injEq] at h
                exact ⟨k, h.1, by rw [hatk, h.2], by rw [h.2]; exact hq0, by rw [hbk]; exact hev⟩
              · have : (k % 2 == 0) = false := by simp [hev]
                simp [this] at h
            · exact ⟨j, he, hj, h1, h2⟩
          · rintro ⟨j, he, hj, h1, h2⟩
            rcases Nat.lt_trichotomy j k with hlt | heq | hgt
            · rw [hlow j hlt] at hj
              cases hj
              rw [hq] at h1; cases h1
            · subst heq
              left
              rw [hatk] at hj
              cases hj
              rw [hbk] at h2
              simp [h2, he]
            · exact Or.inr ⟨j, hgt, he, hj, h1, h2⟩
        · simp only [hq0, Bool.false_eq_true, if_false]
          rw [hih, hrec]
          constructor
          · rintro ⟨j, _, he, hj, h1, h2⟩; exact ⟨j, he, hj, h1, h2⟩
          · rintro ⟨j, he, hj, h1, h2⟩
            rcases Nat.lt_trichotomy j k with hlt | heq | hgt
            · rw [hlow j hlt] at hj
              cases hj
              rw [hq] at h1; cases h1
            · subst heq
              rw [hatk] at hj
              cases hj
              exact absurd h1 hq0
            · exact ⟨j, hgt, he, hj, h1, h2⟩

/-! ### the unicode-escape half (`unicode_escape` = backslashreplace + CPython's unicode-escape decoder) -/

theorem ueHex_some {c : Nat} {s r : Bytes} (h : ueHex c s = some (some r)) : r = s.drop c := by
  unfold ueHex at h
  simp only [] at h
  split at h
  · split at h
    · cases h
    · simpa using h.symm
  · cases h

theorem ueScan_fuel : ∀ (k : Nat) (b : Bytes) (f1 f2 n : Nat), b.length ≤ k → b.length < f1 → b.length < f2 →
    ueScan f1 n b = ueScan f2 n b := by
  intro k
  induction k with
  | zero =>
    intro b f1 f2 n hk h1 h2
    have : b = [] := List.eq_nil_of_length_eq_zero (by omega)
    subst this
    cases f1 with
    | zero => simp at h1
    | succ f1 => cases f2 with
      | zero => simp at h2
      | succ f2 => simp [ueScan]
  | succ k ih =>
    intro b f1 f2 n hk h1 h2
    cases f1 with
    | zero => omega
    | succ f1 =>
      cases f2 with
      | zero => omega
      | succ f2 =>
        cases b with
        | nil => simp [ueScan]
        | cons c rest =>
          simp only [List.length_cons] at hk h1 h2
          simp only [ueScan]
          split
          · exact ih rest f1 f2 _ (by omega) (by omega) (by omega)
          · cases rest with
            | nil => rfl
            | cons e rest' =>
              simp only [List.length_cons] at hk h1 h2
              simp only []
              split
              · exact ih rest' f1 f2 _ (by omega) (by omega) (by omega)
              · split
                · exact ih rest' f1 f2 _ (by omega) (by omega) (by omega)
                · split
                  · apply ih
                    all_goals
                      (repeat' split) <;> (simp only [List.length_cons, List.length_nil] at *) <;> omega
                  · split
                    · split
                      · rename_i r hr
                        have := ueHex_some hr
                        have hl : r.length ≤ rest'.length := by rw [this]; simp
                        exact ih r f1 f2 _ (by omega) (by omega) (by omega)
                      · rfl
                      · rfl
                    · split
                      · split
                        · rename_i r hr
                          have := ueHex_some hr
                          have hl : r.length ≤ rest'.length := by rw [this]; simp
                          exact ih r f1 f2 _ (by omega) (by omega) (by omega)
                        · rfl
                        · rfl
                      · split
                        · split
                          · rename_i r hr
                            have := ueHex_some hr
                            have hl : r.length ≤ rest'.length := by rw [this]; simp
                            exact ih r f1 f2 _ (by omega) (by omega) (by omega)
                          · rfl
                          · rfl
                        · split
                          · rfl
                          · exact ih rest' f1 f2 _ (by omega) (by omega) (by omega)

theorem hexDigit_spec : ∀ i, i < 16 → ∃ d, hexDigits[i]? = some d ∧ hexVal d = some i := by decide

def hexFold (acc : Nat) (ds : Bytes) : Nat := ds.foldl (fun n c => match hexVal c with | some d => n * 16 + d | none => n) acc

theorem hexFold_acc : ∀ (ds : Bytes) (acc : Nat), (∀ d ∈ ds, (hexVal d).isSome = true) →
    hexFold acc ds = acc * 16 ^ ds.length + hexFold 0 ds := by
  intro ds
  induction ds with
  | nil => intro acc _; simp [hexFold]
  | cons d t ih =>
    intro acc h
    have hd := h d (by simp)
    have ht : ∀ x ∈ t, (hexVal x).isSome = true := fun x hx => h x (List.mem_cons_of_mem _ hx)
    cases hv : hexVal d with
    | none => rw [hv] at hd; cases hd
    | some v =>
      have e1 : hexFold acc (d :: t) = hexFold (acc * 16 + v) t := by simp [hexFold, hv]
      have e2 : hexFold 0 (d :: t) = hexFold v t := by simp [hexFold, hv]
      rw [e1, e2, ih (acc * 16 + v) ht, ih v ht]
      simp only [List.length_cons, Nat.pow_succ]
      rw [Nat.add_mul, Nat.mul_assoc, Nat.mul_comm 16 (16 ^ t.length)]
      omega

theorem hexN_spec : ∀ (w n : Nat), ∃ ds, hexN w n = some ds ∧ ds.length = w ∧
    (∀ d ∈ ds, (hexVal d).isSome = true) ∧ hexFold 0 ds = n % 16 ^ w := by
  intro w
  induction w with
  | zero => intro n; exact ⟨[], rfl, rfl, by simp, by simp [hexFold, Nat.mod_one]⟩
  | succ w ih =>
    intro n
    obtain ⟨ds, h1, h2, h3, h4⟩ := ih n
    obtain ⟨d, hd1, hd2⟩ := hexDigit_spec ((n / 16 ^ w) % 16) (Nat.mod_lt _ (by decide))
    refine ⟨d :: ds, ?_, by simp [h2], ?_, ?_⟩
    · unfold hexN at h1 ⊢
      rw [List.range_succ, List.reverse_append]
      simp only [List.reverse_cons, List.reverse_nil, List.nil_append, List.cons_append, List.mapM_cons]
      rw [hd1]
      simp only [Option.bind_eq_bind, Option.bind_some]
      rw [h1]
      rfl
    · intro x hx
      rcases List.mem_cons.mp hx with rfl | hx
      · rw [hd2]; rfl
      · exact h3 x hx
    · have e : hexFold 0 (d :: ds) = hexFold ((n / 16 ^ w) % 16) ds := by simp [hexFold, hd2]
      rw [e, hexFold_acc ds _ h3, h2, h4, Nat.mod_pow_succ]
      rw [Nat.mul_comm]; omega

theorem ueHex_digits (w : Nat) (ds tail : Bytes) (hl : ds.length = w) (hh : ∀ d ∈ ds, (hexVal d).isSome = true)
    (hv : hexFold 0 ds ≤ 0x10FFFF) : ueHex w (ds ++ tail) = some (some tail) := by
  unfold ueHex
  have ht : (ds ++ tail).take w = ds := by rw [← hl]; simp
  have hd : (ds ++ tail).drop w = tail := by rw [← hl]; simp
  simp only [ht, hd]
  have hall : ds.all (fun c => (hexVal c).isSome) = true := List.all_eq_true.mpr hh
  simp [hl, hall]
  exact hv

/-- what `backslashreplace` writes for one character -/
def escOf (c : Nat) : Option Bytes :=
  if c < 0x80 then some [c]
  else if c < 0x100 then (hexN 2 c).map ([92, 120] ++ ·)
  else if c < 0x10000 then (hexN 4 c).map ([92, 117] ++ ·)
  else (hexN 8 c).map ([92, 85] ++ ·)

theorem backslashReplace_cons (c : Nat) (cs : List Nat) :
    backslashReplace (c :: cs) = (match escOf c, backslashReplace cs with | some a, some b => some (a ++ b) | _, _ => none) := rfl

/-- one character of the original text that is not a backslash is one decoded character, whatever it is -/
theorem escOf_scan (c : Nat) (h92 : c ≠ 92) (hc : c < 0x110000) :
    ∃ b, escOf c = some b ∧ 1 ≤ b.length ∧ ∀ (f n : Nat) (tail : Bytes), ueScan (f + 1) n (b ++ tail) = ueScan f (n + 1) tail := by
  unfold escOf
  by_cases h1 : c < 0x80
  · refine ⟨[c], by simp [h1], by simp, ?_⟩
    intro f n tail
    simp [ueScan, h92]
  · by_cases h2 : c < 0x100
    · obtain ⟨ds, e1, e2, e3, e4⟩ := hexN_spec 2 c
      refine ⟨[92, 120] ++ ds, by simp [h1, h2, e1], by simp, ?_⟩
      intro f n tail
      have := ueHex_digits 2 ds tail e2 e3 (by rw [e4]; omega)
      simp [ueScan, isOct, this]
    · by_cases h3 : c < 0x10000
      · obtain ⟨ds, e1, e2, e3, e4⟩ := hexN_spec 4 c
        refine ⟨[92, 117] ++ ds, by simp [h1, h2, h3, e1], by simp, ?_⟩
        intro f n tail
        have := ueHex_digits 4 ds tail e2 e3 (by rw [e4]; omega)
        simp [ueScan, isOct, this]
      · obtain ⟨ds, e1, e2, e3, e4⟩ := hexN_spec 8 c
        refine ⟨[92, 85] ++ ds, by simp [h1, h2, h3, e1], by simp, ?_⟩
        intro f n tail
        have := ueHex_digits 8 ds tail e2 e3 (by rw [e4]; omega)
        simp [ueScan, isOct, this]

/-- a stretch of the original text without backslashes is skipped by the scan: one decoded character each -/
theorem plain_scan : ∀ (pre : List Nat), 92 ∉ pre → (∀ c ∈ pre, c < 0x110000) →
    ∃ b, backslashReplace pre = some b ∧ pre.length ≤ b.length ∧
      ∀ (f n : Nat) (tail : Bytes), ueScan (f + pre.length) n (b ++ tail) = ueScan f (n + pre.length) tail := by
  intro pre
  induction pre with
  | nil => intro _ _; exact ⟨[], rfl, by simp, by intro f n tail; rfl⟩
  | cons c cs ih =>
    intro h92 hlt
    obtain ⟨b2, e2, l2, s2⟩ := ih (fun h => h92 (List.mem_cons_of_mem _ h)) (fun x hx => hlt x (List.mem_cons_of_mem _ hx))
    obtain ⟨b1, e1, l1, s1⟩ := escOf_scan c (fun h => h92 (by simp [h])) (hlt c (by simp))
    refine ⟨b1 ++ b2, by rw [backslashReplace_cons, e1, e2], by simp; omega, ?_⟩
    intro f n tail
    have e : f + (c :: cs).length = (f + cs.length) + 1 := by simp; omega
    rw [e, List.append_assoc, s1, s2]
    simp; congr 1; omega

theorem backslashReplace_append : ∀ (a b : List Nat),
    backslashReplace (a ++ b) = (match backslashReplace a, backslashReplace b with | some x, some y => some (x ++ y) | _, _ => none)
  | [], b => by simp [backslashReplace]; cases backslashReplace b <;> rfl
  | c :: a, b => by
    rw [List.cons_append, backslashReplace_cons, backslashReplace_cons, backslashReplace_append a b]
    cases escOf c <;> cases backslashReplace a <;> cases backslashReplace b <;> simp

/-- **the scan of `pre ++ rest` is the scan of `rest` started at character `pre.length`** when `pre` has no backslash -/
theorem unicodeEscape_skip (pre rest : List Nat) (h92 : 92 ∉ pre) (hlt : ∀ c ∈ pre, c < 0x110000) :
    unicodeEscape (pre ++ rest) = (backslashReplace rest).map (fun b => ueScan (b.length + 1) pre.length b) := by
  obtain ⟨b1, e1, l1, s1⟩ := plain_scan pre h92 hlt
  unfold unicodeEscape
  rw [backslashReplace_append, e1]
  cases e2 : backslashReplace rest with
  | none => rfl
  | some b2 =>
    simp only [Option.map_some, Option.some.injEq]
    have hf : (b1 ++ b2).length + 1 = ((b1 ++ b2).length + 1 - pre.length) + pre.length := by simp; omega
    rw [hf, s1, Nat.zero_add]
    exact ueScan_fuel b2.length b2 _ _ _ (Nat.le_refl _) (by simp; omega) (by omega)

/-- text without backslashes never has an escape error: non-ASCII characters are protected by `backslashreplace` -/
theorem unicodeEscape_plain (val : List Nat) (h92 : 92 ∉ val) (hlt : ∀ c ∈ val, c < 0x110000) :
    unicodeEscape val = some .fine := by
  have := unicodeEscape_skip val [] h92 hlt
  simp only [List.append_nil] at this
  rw [this]
  simp [backslashReplace, ueScan]

theorem hexVal_lt {d v : Nat} (hv : hexVal d = some v) : v < 16 := by
  unfold hexVal at hv
  split at hv
  · rename_i h1; simp at h1 hv; omega
  · split at hv
    · rename_i h1; simp at h1 hv; omega
    · split at hv
      · rename_i h1; simp at h1 hv; omega
      · cases hv

theorem hexFold_lt : ∀ (ds : Bytes), (∀ d ∈ ds, (hexVal d).isSome = true) → hexFold 0 ds < 16 ^ ds.length := by
  intro ds
  induction ds with
  | nil => intro _; simp [hexFold]
  | cons d t ih =>
    intro h
    have ht : ∀ x ∈ t, (hexVal x).isSome = true := fun x hx => h x (List.mem_cons_of_mem _ hx)
    have hd := h d (by simp)
    have := ih ht
    cases hv : hexVal d with
    | none => rw [hv] at hd; cases hd
    | some v =>
      have hv16 := hexVal_lt hv
      have e : hexFold 0 (d :: t) = hexFold v t := by simp [hexFold, hv]
      rw [e, hexFold_acc t v ht]
      simp only [List.length_cons, Nat.pow_succ]
      have : v * 16 ^ t.length ≤ 15 * 16 ^ t.length := Nat.mul_le_mul_right _ (by omega)
      omega

theorem scan_escaped_simple (f n e : Nat) (tail : Bytes)
    (he : e = 92 ∨ e = 39 ∨ e = 34 ∨ e = 98 ∨ e = 102 ∨ e = 116 ∨ e = 110 ∨ e = 114 ∨ e = 118 ∨ e = 97) :
    ueScan (f + 1) n (92 :: e :: tail) = ueScan f (n + 1) tail := by
  rcases he with rfl | rfl | rfl | rfl | rfl | rfl | rfl | rfl | rfl | rfl <;> simp [ueScan]

theorem scan_u4_ok (f n : Nat) (ds tail : Bytes) (hl : ds.length = 4) (hh : ∀ d ∈ ds, (hexVal d).isSome = true) :
    ueScan (f + 1) n (92 :: 117 :: (ds ++ tail)) = ueScan f (n + 1) tail := by
  have hlt := hexFold_lt ds hh
  rw [hl] at hlt
  have := ueHex_digits 4 ds tail hl hh (by omega)
  simp [ueScan, isOct, this]

theorem scan_u4_trunc (f n : Nat) (bytes : Bytes) (h : ueHex 4 bytes = none) :
    ueScan (f + 1) n (92 :: 117 :: bytes) = .error n msgTruncU4 := by
  simp [ueScan, isOct, h]

/-- fewer than four hex digits, then the end or something that is no hex digit -/
theorem ueHex4_none (hs rest : Bytes) (hl : hs.length < 4) (hr : rest = [] ∨ ∃ c t, rest = c :: t ∧ hexVal c = none) :
    ueHex 4 (hs ++ rest) = none := by
  unfold ueHex
  simp only []
  rw [if_neg]
  intro hc
  simp only [Bool.and_eq_true, beq_iff_eq, List.all_eq_true] at hc
  obtain ⟨h1, h2⟩ := hc
  rcases hr with rfl | ⟨c, t, rfl, hcv⟩
  · simp at h1; omega
  · have hmem : c ∈ (hs ++ c :: t).take 4 := by
      rw [List.take_append]
      simp only [List.mem_append]
      right
      have : 4 - hs.length = (4 - hs.length - 1) + 1 := by omega
      rw [this, List.take_succ_cons]
      simp
    have := h2 c hmem
    rw [hcv] at this; cases this

theorem scan_named (f n : Nat) (name tail : Bytes) (hne : name ≠ []) (h125 : 125 ∉ name) :
    ueScan (f + 1) n (92 :: 78 :: 123 :: (name ++ 125 :: tail)) = .unsupported := by
  have htw : (name ++ 125 :: tail).takeWhile (· != 125) = name := by
    induction name with
    | nil => simp [List.takeWhile]
    | cons x xs ih =>
      have hx : x ≠ 125 := fun h => h125 (by simp [h])
      simp only [List.cons_append, List.takeWhile_cons]
      have : (x != 125) = true := by simp [hx]
      rw [this]
      simp only [if_true, List.cons.injEq, true_and]
      by_cases hxs : xs = []
      · subst hxs; simp [List.takeWhile]
      · exact ih hxs (fun h => h125 (List.mem_cons_of_mem _ h))
  simp only [ueScan, isOct]
  simp [htw, hne]

theorem scan_named_malformed (f n : Nat) (bytes : Bytes) (h : ∀ t, bytes ≠ 123 :: t) :
    ueScan (f + 1) n (92 :: 78 :: bytes) = .error n msgMalformedN := by
  simp only [ueScan, isOct]
  simp only [bne_self_eq_false, Bool.false_eq_true, if_false]
  split
  · rename_i heq; exact absurd heq (by simpa using h _)
  · simp


/-! ### silence -/

theorem strayList_nil_of_no_quote (isQ : Nat → Bool) (hq : isQ 92 = false) (l : T) (h : ∀ c ∈ l, isQ c = false) :
    strayList isQ (l.length + 1) 0 l = [] := by
  apply List.eq_nil_iff_forall_not_mem.mpr
  rintro ⟨e, c⟩ hm
  obtain ⟨j, _, hj, h1, _⟩ := (mem_strayList isQ hq l.length l (l.length + 1) 0 (Nat.le_refl _) (by omega) e c).mp hm
  rw [h c (List.mem_of_getElem? hj)] at h1
  cases h1

/-- a value that does not begin with a quote or an apostrophe is not "quoted" -/
theorem qkind_unquoted (val : T) (h : val.head? ≠ some 34 ∧ val.head? ≠ some 39) : qkind val = (.any, val) := by
  unfold qkind
  simp only []
  have : matchAt val.toArray Gen.Pat.DTDChecker_quoted 0 = none := by
    simp only [Gen.Pat.DTDChecker_quoted, matchAt, m_seq, m_group, m_cls_apply]
    cases val with
    | nil => simp
    | cons c t =>
      have h1 : c ≠ 34 := by intro hc; subst hc; simp at h
      have h2 : c ≠ 39 := by intro hc; subst hc; simp at h
      simp [inC, ClsItem.has, h1, h2]
  rw [this]

/-- **no backslash, no quote, no apostrophe: `processAndroidContent` reports nothing** -/
theorem androidSection_silent (val : T) (h92 : 92 ∉ val) (h34 : 34 ∉ val) (h39 : 39 ∉ val) (hlt : ∀ c ∈ val, c < 0x110000) :
    androidSection val = .ok [] := by
  rw [androidSection_quotes]
  have hk : qkind val = (.any, val) := by
    apply qkind_unquoted
    constructor
    · intro h; exact h34 (List.mem_of_mem_head? h)
    · intro h; exact h39 (List.mem_of_mem_head? h)
  have he : escOut val = .ok [] := by
    unfold escOut
    rw [unicodeEscape_plain val h92 hlt]
  rw [hk, he]
  simp only [QKind.cls, QKind.offset]
  rw [strayList_nil_of_no_quote _ (by decide) val]
  · rfl
  · intro c hc
    have h1 : c ≠ 34 := fun h => h34 (h ▸ hc)
    have h2 : c ≠ 39 := fun h => h39 (h ▸ hc)
    simp [h1, h2]

/-! ### `\N{name}` with the name database as a parameter (`DtdNamed.ueScanN`) -/

open DtdNamed in
set_option linter.unusedSimpArgs false in
/-- wherever `Dtd.ueScan` answers (no well-formed `\N{name}` is reached), the scan with a name database answers the same -/
theorem named_agrees (known : Bytes → Bool) : ∀ (f n : Nat) (b : Bytes), ueScan f n b ≠ .unsupported →
    ueScanN known f n b = ueScan f n b := by
  intro f
  induction f with
  | zero => intro n b _; simp [ueScan, ueScanN]
  | succ f ih =>
    intro n b h
    cases b with
    | nil => simp [ueScan, ueScanN]
    | cons c rest =>
      simp only [ueScan, ueScanN] at h ⊢
      by_cases hc : (c != 92) = true
      · simp only [hc, ↓reduceIte, Bool.false_eq_true] at h ⊢; exact ih _ _ h
      simp only [hc, ↓reduceIte, Bool.false_eq_true] at h ⊢
      cases rest with
      | nil => rfl
      | cons e rest' =>
        simp only [] at h ⊢
        by_cases h1 : (e == 10) = true
        · simp only [h1, ↓reduceIte, Bool.false_eq_true] at h ⊢; exact ih _ _ h
        simp only [h1, ↓reduceIte, Bool.false_eq_true] at h ⊢
        by_cases h2 : (e == 92 || e == 39 || e == 34 || e == 98 || e == 102 || e == 116 || e == 110 || e == 114 || e == 118 || e == 97) = true
        · simp only [h2, ↓reduceIte, Bool.false_eq_true] at h ⊢; exact ih _ _ h
        simp only [h2, ↓reduceIte, Bool.false_eq_true] at h ⊢
        by_cases h3 : isOct e = true
        · simp only [h3, ↓reduceIte, Bool.false_eq_true] at h ⊢; exact ih _ _ h
        simp only [h3, ↓reduceIte, Bool.false_eq_true] at h ⊢
        by_cases h4 : (e == 120) = true
        · simp only [h4, ↓reduceIte, Bool.false_eq_true] at h ⊢
          cases hh : ueHex 2 rest' with
          | none => rfl
          | some o => cases o with
            | none => rfl
            | some r => rw [hh] at h; exact ih _ _ h
        simp only [h4, ↓reduceIte, Bool.false_eq_true] at h ⊢
        by_cases h5 : (e == 117) = true
        · simp only [h5, ↓reduceIte, Bool.false_eq_true] at h ⊢
          cases hh : ueHex 4 rest' with
          | none => rfl
          | some o => cases o with
            | none => rfl
            | some r => rw [hh] at h; exact ih _ _ h
        simp only [h5, ↓reduceIte, Bool.false_eq_true] at h ⊢
        by_cases h6 : (e == 85) = true
        · simp only [h6, ↓reduceIte, Bool.false_eq_true] at h ⊢
          cases hh : ueHex 8 rest' with
          | none => rfl
          | some o => cases o with
            | none => rfl
            | some r => rw [hh] at h; exact ih _ _ h
        simp only [h6, ↓reduceIte, Bool.false_eq_true] at h ⊢
        by_cases h7 : (e == 78) = true
        · simp only [h7, ↓reduceIte, Bool.false_eq_true] at h ⊢
          cases rest' with
          | nil => rfl
          | cons x r =>
            by_cases hx : x = 123
            · subst hx
              simp only [] at h ⊢
              by_cases h8 : (decide ((List.takeWhile (fun x => x != 125) r).length < r.length) && !(List.takeWhile (fun x => x != 125) r).isEmpty) = true
              · simp only [h8, ↓reduceIte] at h; exact absurd rfl h
              · simp only [h8, ↓reduceIte, Bool.false_eq_true]
            · split
              · rename_i heq; simp only [List.cons.injEq] at heq; exact absurd heq.1 hx
              · split
                · rename_i heq; simp only [List.cons.injEq] at heq; exact absurd heq.1 hx
                · rfl
        simp only [h7, ↓reduceIte, Bool.false_eq_true] at h ⊢
        exact ih _ _ h

end C07A

/-
C15S, part 1 (entry level): the STRICT shape "entity, white-space, entity, white-space, …" of the merged dict.
Besides `C16R.Alt` (every entry that is not white-space is directly followed by a white-space entry, `C15R.merged_alt`):
  * `prune` never leaves two neighbouring white-space entries (`NoAdjD`), whatever it is fed with;
  * the merge starts with an entry that is not white-space when every version does (`HeadOK`).
Together: the merged dict alternates strictly (`Strict`), so the merged text of printed versions is itself a PRINTED file
and the C02 round trips apply to it.  Core Lean only.
-/
import CLModel.Proofs.C15RMerge
namespace C15S
open AR Merge C16R C15R

/-! ### `prune` never leaves two neighbouring white-space entries -/

/-- the last entry is white-space -/
def lastWs : List (Key × Ent) → Bool
  | [] => false
  | [a] => a.2.isWs
  | _ :: b :: r => lastWs (b :: r)

theorem noAdjD_snoc : ∀ (L : List (Key × Ent)) (x : Key × Ent),
    NoAdjD (L ++ [x]) ↔ NoAdjD L ∧ ¬ (lastWs L = true ∧ x.2.isWs = true)
  | [], x => by simp [NoAdjD, lastWs]
  | [a], x => by simp [NoAdjD, lastWs]
  | a :: b :: r, x => by
    have ih := noAdjD_snoc (b :: r) x
    simp only [List.cons_append, NoAdjD, lastWs] at ih ⊢
    rw [ih]
    constructor
    · rintro ⟨h1, h2, h3⟩; exact ⟨⟨h1, h2⟩, h3⟩
    · rintro ⟨⟨h1, h2⟩, h3⟩; exact ⟨h1, h2, h3⟩

theorem lastWs_snoc : ∀ (L : List (Key × Ent)) (x : Key × Ent), lastWs (L ++ [x]) = x.2.isWs
  | [], _ => rfl
  | [a], x => rfl
  | a :: b :: r, x => by
    have := lastWs_snoc (b :: r) x
    simpa [lastWs] using this

theorem noAdj_pruneFold (cs : List (Key × Option Ent)) (acc : List (Key × Ent)) (h : NoAdjD acc.reverse) :
    NoAdjD (cs.foldl prune acc).reverse := by
  induction cs generalizing acc with
  | nil => exact h
  | cons c cs ih =>
    rw [List.foldl_cons]
    apply ih
    obtain ⟨k, oe⟩ := c
    cases oe with
    | none => simpa [prune] using h
    | some e =>
      unfold prune
      simp only
      by_cases hw : e.isWs = true
      · rw [if_pos hw]
        cases acc with
        | nil => simp [NoAdjD]
        | cons p t =>
          obtain ⟨pk, prev⟩ := p
          simp only [List.head?_cons, List.tail_cons]
          rw [List.reverse_cons, noAdjD_snoc] at h
          by_cases hp : prev.isWs = true
          · rw [if_pos hp]
            split
            · rw [List.reverse_cons, noAdjD_snoc]
              exact ⟨h.1, fun hh => h.2 ⟨hh.1, hp⟩⟩
            · rw [List.reverse_cons, noAdjD_snoc]; exact h
          · rw [if_neg hp, List.reverse_cons, noAdjD_snoc, List.reverse_cons, noAdjD_snoc, lastWs_snoc]
            exact ⟨h, fun hh => hp hh.1⟩
      · rw [if_neg hw, List.reverse_cons, noAdjD_snoc]
        exact ⟨h, fun hh => hw hh.2⟩

theorem noAdj_mergeTwo (n o : Dict) (hn : WF n) (ho : WF o) : NoAdjD (mergeTwo n o) := by
  rw [mergeTwo_eq n o hn ho]
  exact noAdj_pruneFold _ [] (by simp [NoAdjD])

/-! ### the first entry -/

/-- the dict is empty or starts with an entry that is not white-space -/
def HeadOK (d : List (Key × Ent)) : Prop := ∀ p, d.head? = some p → p.2.isWs = false

section spec
variable {α : Type} [BEq α] [LawfulBEq α]

/-- the closed form of the diff starts with the first key of the left side, or — when the right side starts with a key
    the left side does not have — with that key -/
theorem specKeys_head (l r : List α) :
    (specKeys l r = [] ∧ l = []) ∨
    (∃ k K l', specKeys l r = k :: K ∧ l = k :: l') ∨
    (∃ k K r', specKeys l r = k :: K ∧ r = k :: r' ∧ l.contains k = false) := by
  cases r with
  | nil =>
    cases l with
    | nil => left; exact ⟨by simp [specKeys, spec, anchors], rfl⟩
    | cons k l' =>
      right; left
      obtain ⟨K, hK⟩ := spec_head k l' [] (by intro x hx; simp at hx)
      exact ⟨k, K, l', hK, rfl⟩
  | cons y ys =>
    by_cases hy : l.contains y = true
    · cases l with
      | nil => simp at hy
      | cons k l' =>
        right; left
        obtain ⟨K, hK⟩ := spec_head k l' (y :: ys) (by intro x hx; simp at hx; subst hx; exact hy)
        exact ⟨k, K, l', hK, rfl⟩
    · have hy' : l.contains y = false := by simpa using hy
      right; right
      have hsk : specKeys l (y :: ys) = y :: (((anchors l ys none).filter (fun p => p.1 == none)).map (·.2) ++
          l.flatMap (fun k => k :: ((anchors l (y :: ys) none).filter (fun p => p.1 == some k)).map (·.2))) := by
        unfold specKeys
        rw [spec_keys]
        have hm : y ∉ l := by simpa using hy'
        simp [anchors, hm]
      exact ⟨y, _, ys, hsk, rfl, hy'⟩

end spec

theorem dget_head (d : Dict) (k : Key) (S : Ent) (d' : Dict) (h : d = (k, S) :: d') : dget d k = some S := by
  subst h; simp [dget]

theorem headOK_mergeTwo (n o : Dict) (hn : WF n) (ho : WF o) (h1 : HeadOK n) (h2 : HeadOK o) :
    HeadOK (mergeTwo n o) := by
  rw [mergeTwo_eq n o hn ho]
  unfold contentsOf
  rcases specKeys_head (keysOf n) (keysOf o) with ⟨he, _⟩ | ⟨k, K, l', hK, hl⟩ | ⟨k, K, r', hK, hr, hc⟩
  · rw [he]
    intro p hp
    simp at hp
  · -- the first key of the newer dict
    cases n with
    | nil => simp [keysOf] at hl
    | cons p n' =>
      obtain ⟨pk, S⟩ := p
      have hpk : pk = k := by simp [keysOf] at hl; exact hl.1
      subst hpk
      have hw : S.isWs = false := h1 (pk, S) rfl
      have hget : getNewerEntity ((pk, S) :: n') o pk = some S := by simp [getNewerEntity, dget]
      rw [hK, List.map_cons, List.foldl_cons, hget]
      have : prune [] (pk, some S) = [(pk, S)] := by simp [prune, hw]
      rw [this]
      obtain ⟨R', hR'⟩ := pruneFold_bottom (pk, S) hw _ [(pk, S)] [] rfl
      rw [hR']
      intro p hp
      simp only [List.head?_cons, Option.some.injEq] at hp
      rw [← hp]; exact hw
  · -- the first key of the older dict, which the newer dict does not have
    cases o with
    | nil => simp [keysOf] at hr
    | cons p o' =>
      obtain ⟨pk, S⟩ := p
      have hpk : pk = k := by simp [keysOf] at hr; exact hr.1
      subst hpk
      have hw : S.isWs = false := h2 (pk, S) rfl
      have hnot : pk ∉ keysOf n := by
        intro hm
        have : (keysOf n).contains pk = true := by simpa using hm
        rw [this] at hc; cases hc
      have hget : getNewerEntity n ((pk, S) :: o') pk = some S := by
        rw [getNewer_right n _ pk hnot]
        simp [dget]
      rw [hK, List.map_cons, List.foldl_cons, hget]
      have : prune [] (pk, some S) = [(pk, S)] := by simp [prune, hw]
      rw [this]
      obtain ⟨R', hR'⟩ := pruneFold_bottom (pk, S) hw _ [(pk, S)] [] rfl
      rw [hR']
      intro p hp
      simp only [List.head?_cons, Option.some.injEq] at hp
      rw [← hp]; exact hw

/-! ### the strict shape -/

/-- entity, white-space, entity, white-space, … -/
def Strict : List (Key × Ent) → Prop
  | [] => True
  | [_] => False
  | p :: q :: r => p.2.isWs = false ∧ q.2.isWs = true ∧ Strict r

theorem strict_of : ∀ (d : List (Key × Ent)), Alt pws d → NoAdjD d → HeadOK d → Strict d
  | [], _, _, _ => trivial
  | [p], ha, _, hh => by
    have hp := hh p rfl
    rcases ha.1 with h | h
    · rw [show pws p = p.2.isWs from rfl, hp] at h; cases h
    · simp [hw] at h
  | p :: q :: r, ha, hn, hh => by
    have hp := hh p rfl
    have hq : q.2.isWs = true := by
      rcases ha.1 with h | h
      · rw [show pws p = p.2.isWs from rfl, hp] at h; cases h
      · exact h
    refine ⟨hp, hq, strict_of r ha.2.2 ?_ ?_⟩
    · cases r with
      | nil => trivial
      | cons x r' => exact hn.2.2
    · intro x hx
      cases r with
      | nil => simp at hx
      | cons y r' =>
        simp only [List.head?_cons, Option.some.injEq] at hx
        subst hx
        have := hn.2.1
        cases hy : y.2.isWs
        · rfl
        · exact absurd ⟨hq, hy⟩ this

theorem strict_parts : ∀ (d : List (Key × Ent)), Strict d → Alt pws d ∧ NoAdjD d ∧ HeadOK d
  | [], _ => ⟨trivial, trivial, fun p hp => by simp at hp⟩
  | [_], h => by simp [Strict] at h
  | p :: q :: r, h => by
    obtain ⟨hp, hq, hr⟩ := h
    obtain ⟨ih1, ih2, ih3⟩ := strict_parts r hr
    refine ⟨⟨.inr hq, .inl hq, ih1⟩, ?_, ?_⟩
    · refine ⟨fun hh => (by rw [hp] at hh; cases hh.1), ?_⟩
      cases r with
      | nil => trivial
      | cons x r' =>
        refine ⟨fun hh => ?_, ih2⟩
        have := ih3 x rfl
        rw [this] at hh
        cases hh.2
    · intro x hx
      simp only [List.head?_cons, Option.some.injEq] at hx
      rw [← hx]; exact hp

/-! ### the fold over the versions -/

theorem fold_strict_parts (ds : List Dict) (j : Nat) (acc : Dict) (hacc : WF acc) (hlt : VerLt j acc) (hs : Stamped j ds)
    (hn : NoAdjD acc) (hh : HeadOK acc) (hds : ∀ d ∈ ds, HeadOK d) :
    NoAdjD (ds.foldl mergeTwo acc) ∧ HeadOK (ds.foldl mergeTwo acc) := by
  induction ds generalizing j acc with
  | nil => exact ⟨hn, hh⟩
  | cons d ds ih =>
    rw [List.foldl_cons]
    exact ih (j + 1) _ (mergeTwo_wf acc d hacc hs.1) (mergeTwo_verLt j acc d hacc hs.1 hlt hs.2.1) hs.2.2
      (noAdj_mergeTwo acc d hacc hs.1) (headOK_mergeTwo acc d hacc hs.1 hh (hds d (by simp)))
      (fun d' hd' => hds d' (by simp [hd']))

/-- The merged dict alternates strictly when every version's dict does. -/
theorem merged_strict (rs : List (List Ent)) (d : Dict) (h : mergeResources rs = some d)
    (hall : ∀ dv ∈ versionDicts rs, Strict dv) : Strict d := by
  have halt := strict_parts
  obtain ⟨_, _, ha⟩ := merged_alt rs d h
  have hA : Alt pws d := ha (fun dv hdv => (halt dv (hall dv hdv)).1)
  rw [mergeResources_eq] at h
  have hst := stamped_versionDicts rs
  cases hvd : versionDicts rs with
  | nil => rw [hvd] at h; simp at h
  | cons d0 ds =>
    rw [hvd] at h hst hall
    simp only [Option.some.injEq] at h
    subst h
    obtain ⟨hN, hH⟩ := fold_strict_parts ds 1 d0 hst.1 (verEq_lt 0 d0 hst.2.1) hst.2.2
      (halt d0 (hall d0 (by simp))).2.1 (halt d0 (hall d0 (by simp))).2.2
      (fun d' hd' => (halt d' (hall d' (by simp [hd']))).2.2)
    exact strict_of _ hA hN hH

end C15S

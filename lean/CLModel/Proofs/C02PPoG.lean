/- C02 (round 4), PO: garbage locality — garbage lines in front of any block (also a comment whose text contains `msgid …`,
   e.g. the previous-source lines `#| msgid "old"`) and at the end of the file. -/
import CLModel.Proofs.C02PPo
import CLModel.Proofs.C02PGen
namespace C02P
open Rx P Gen.Pat C02X

theorem po_walks_block (s : Array Nat) (off : Nat) (b : PoBlock) (rest : List Nat) (hg : b.Good off) (hfo : PoFollow rest)
    (h : At s off (b.print ++ rest)) :
    Walks (poNext s) s.size () off (b.entries off) () (off + b.print.length) := by
  cases b with
  | record r => exact po_walks_rec s off r rest hg.1 hg.2 hfo h
  | free cs gap =>
    obtain ⟨g1, g2, g3, g4⟩ := hg
    have h' : At s off (printComment cs ++ (gap ++ rest)) := by simpa [At, PoBlock.print] using h
    have hgne : gap ≠ [] := by intro hh; rw [hh] at g4; simp at g4
    have hcpos := printComment_length_ge cs
    have hcs : 0 < cs.length := List.length_pos_iff.mpr g1
    have e1 := po_free_comment s off cs gap rest g1 g2 g3 g4 hfo h'
    have e2 := po_gap_entry s _ gap rest hgne g3 hfo h'.app
    have hp1 := h'.pos_lt (by simp [hgne])
    have hp2 := h'.app.pos_lt (by simp [hgne])
    have w1 : Walks (poNext s) s.size () off [commentEntry off (off + (printComment cs).length)] ()
        (off + (printComment cs).length) :=
      Walks.one hp1 (by simp [commentEntry]; omega) (by simp [poNext, e1, commentEntry])
    have w2 : Walks (poNext s) s.size () (off + (printComment cs).length)
        [wsEntryN (off + (printComment cs).length) gap.length] () (off + (printComment cs).length + gap.length) :=
      Walks.one hp2 (by have := List.length_pos_iff.mpr hgne; simp [wsEntryN]; omega) (by simp [poNext, e2, wsEntryN])
    have := w1.append w2
    simpa [PoBlock.entries, PoBlock.print, Nat.add_assoc] using this

theorem po_views_block (s : Array Nat) (off : Nat) (b : PoBlock) (rest : List Nat) (hg : b.Good') (hfo : PoFollow rest)
    (h : At s off (b.print ++ rest)) :
    entitiesOf .po s (b.entries off) = b.views ∧ junkOf s (b.entries off) = [] := by
  cases b with
  | record r =>
    have hv := po_view_rec s off r rest hg hfo h
    have k1 := r.entity_kind off
    have k2 := wsEntryN_kind (r.start off + r.body.length) r.gap.length
    constructor
    · simp only [PoBlock.entries, PoBlock.views, PoRec.entries]
      rw [entitiesOf_cons_entity _ _ _ _ k1, hv]
      split
      · rfl
      · rw [entitiesOf_cons_other _ _ _ _ (by rw [k2]; decide)]; rfl
    · simp only [PoBlock.entries, PoRec.entries]
      rw [junkOf_cons_other _ _ _ (by rw [k1]; decide)]
      split
      · rfl
      · rw [junkOf_cons_other _ _ _ (by rw [k2]; decide)]; rfl
  | free cs gap =>
    constructor
    · simp only [PoBlock.entries, PoBlock.views]
      rw [entitiesOf_cons_other _ _ _ _ (by simp [commentEntry]), entitiesOf_cons_other _ _ _ _ (by simp [wsEntryN])]; rfl
    · simp only [PoBlock.entries]
      rw [junkOf_cons_other _ _ _ (by simp [commentEntry]), junkOf_cons_other _ _ _ (by simp [wsEntryN])]; rfl

/-! ### garbage -/

/-- an inert garbage line and the white-space after it: the line is non-empty, without `m` (so that `msgid` / `msgctxt` start
    nowhere inside), without `#` and newline, not starting with white-space or a quote (a quoted text would continue the
    string list before it); non-empty white-space follows -/
structure PoGarbage (g gap : List Nat) : Prop where
  ne : g ≠ []
  chars : ∀ c ∈ g, c ≠ 109 ∧ c ≠ 35 ∧ c ≠ 10
  head : ∀ c, g.head? = some c → isWs c = false ∧ c ≠ 34
  gap_ne : gap ≠ []
  gap : ∀ c ∈ gap, isWs c = true

theorem po_key_none_at (s : Array Nat) (p : Nat) (l : List Nat) (h : At s p l) (hl : l.head? ≠ some 109) :
    matchAt s PoParser_reKey p = none := by
  simp only [matchAt, PoParser_reKey, m_seq]
  exact lit_at_fail h hl [] _

theorem po_start_match (s : Array Nat) (e : Nat) (b : PoBlock) (rest : List Nat) (hg : b.Good') (hfo : PoFollow rest)
    (h : At s e (b.print ++ rest)) : ∃ r ∈ poCfg.junkExps, (matchAt s r e).isSome := by
  cases b with
  | record r =>
    have hg' : r.Good := hg
    have h1 : At s e (printComment r.comment ++ (r.cgap ++ (r.body ++ (r.gap ++ rest)))) := by
      simpa [At, PoBlock.print, PoRec.print] using h
    by_cases hne : r.comment = []
    · have hcg := hg'.cgap_nil hne
      have h3 : At s e (r.body ++ (r.gap ++ rest)) := by simpa [At, hne, hcg] using h1
      obtain ⟨km, hkm⟩ := po_key_body s e r _ h3
      exact ⟨PoParser_reKey, by simp [poCfg], by rw [hkm]; rfl⟩
    · have hnc : (r.cgap ++ (r.body ++ (r.gap ++ rest))).head? ≠ some 35 := by
        cases hcg : r.cgap with
        | nil => simp only [List.nil_append, r.body_head]; simp
        | cons a t =>
          have := hg'.cgap a (by simp [hcg])
          simp only [List.cons_append, List.head?_cons, ne_eq, Option.some.injEq]
          intro ha; subst ha; exact absurd this (by decide)
      exact ⟨PoParser_reComment, by simp [poCfg], by rw [po_comment_at s e r.comment _ hne hg'.comment hnc h1]; rfl⟩
  | free cs gap =>
    obtain ⟨g1, g2, g3, g4⟩ := hg
    have hgne : gap ≠ [] := by intro hh; rw [hh] at g4; simp at g4
    have hnc : (gap ++ rest).head? ≠ some 35 := by
      cases hcg : gap with
      | nil => exact absurd hcg hgne
      | cons a t =>
        have := g3 a (by simp [hcg])
        simp only [List.cons_append, List.head?_cons, ne_eq, Option.some.injEq]
        intro ha; subst ha; exact absurd this (by decide)
    have h' : At s e (printComment cs ++ (gap ++ rest)) := by simpa [At, PoBlock.print] using h
    exact ⟨PoParser_reComment, by simp [poCfg], by rw [po_comment_at s e cs _ g1 g2 hnc h']; rfl⟩

theorem po_junk_at (s : Array Nat) (p : Nat) (g gap rest : List Nat) (hg : PoGarbage g gap)
    (hnext : rest = [] ∨ ∃ r ∈ poCfg.junkExps, (matchAt s r (p + g.length + gap.length)).isSome)
    (h : At s p (g ++ (gap ++ rest))) : poGetNext s p = junkEntry p (p + g.length + gap.length) := by
  have hgl : 0 < g.length := List.length_pos_iff.mpr hg.ne
  have hgapl : 0 < gap.length := List.length_pos_iff.mpr hg.gap_ne
  have hsz := h.size_ge (by simp [hg.ne])
  simp only [List.length_append] at hsz
  -- the head of the text from every position inside the line / the white-space
  have hhead : ∀ q, p ≤ q → q < p + g.length + gap.length → ∃ l c, At s q l ∧ l.head? = some c ∧ c ≠ 109 ∧ c ≠ 35 := by
    intro q h1 h2
    by_cases hq : q < p + g.length
    · have hat := h.drop_at (q - p) (by omega)
      rw [show p + (q - p) = q by omega] at hat
      have hne : g.drop (q - p) ≠ [] := by intro hh; have := congrArg List.length hh; simp at this; omega
      cases hd : g.drop (q - p) with
      | nil => exact absurd hd hne
      | cons a t =>
        have hm : a ∈ g := List.mem_of_mem_drop (by rw [hd]; simp)
        exact ⟨_, a, hat, by rw [hd]; rfl, (hg.chars a hm).1, (hg.chars a hm).2.1⟩
    · have hat := h.app.drop_at (q - (p + g.length)) (by omega)
      rw [show p + g.length + (q - (p + g.length)) = q by omega] at hat
      have hne : gap.drop (q - (p + g.length)) ≠ [] := by intro hh; have := congrArg List.length hh; simp at this; omega
      cases hd : gap.drop (q - (p + g.length)) with
      | nil => exact absurd hd hne
      | cons a t =>
        have hm : a ∈ gap := List.mem_of_mem_drop (by rw [hd]; simp)
        have hw := hg.gap a hm
        refine ⟨_, a, hat, by rw [hd]; rfl, ?_, ?_⟩ <;> (intro ha; subst ha; exact absurd hw (by decide))
  obtain ⟨l0, c0, hat0, hh0, hm0, hc0⟩ := hhead p (Nat.le_refl _) (by omega)
  have hcm := po_comment_none_at s p l0 (by rw [hh0]; simp [hc0]) hat0
  have hws := ws_none_at h (by
    intro c hc
    cases hgg : g with
    | nil => exact absurd hgg hg.ne
    | cons a t => rw [hgg] at hc; simp at hc; subst hc; exact (hg.head a (by rw [hgg]; rfl)).1)
  have hkm := po_key_none_at s p l0 hat0 (by rw [hh0]; simp [hm0])
  have hj := getJunk_at s p (p + g.length + gap.length) poCfg.junkExps (by omega)
    (by
      intro r hr q h1 h2
      obtain ⟨l, c, hat, hh, hm, hc⟩ := hhead q (by omega) h2
      simp only [poCfg, List.mem_cons, List.not_mem_nil, or_false] at hr
      rcases hr with rfl | rfl
      · exact po_key_none_at s q l hat (by rw [hh]; simp [hm])
      · exact po_comment_none_at s q l (by rw [hh]; simp [hc]) hat)
    (by
      rcases hnext with rfl | hm
      · right
        have he : p + g.length + gap.length = s.size := by
          have := h.le (by simp [hg.ne]); simp at this; omega
        have hend : At s (p + g.length + gap.length) [] := by simpa using h.app.app
        refine ⟨he, ?_⟩
        intro r hr
        simp only [poCfg, List.mem_cons, List.not_mem_nil, or_false] at hr
        rcases hr with rfl | rfl
        · exact po_key_none_at s _ [] hend (by simp)
        · exact po_comment_none_at s _ [] (by simp) hend
      · exact Or.inl hm)
    (by omega)
  unfold poGetNext getNext
  simp only [poCfg, hcm, hws, hkm] at hj ⊢
  simpa using hj

/-! ### the format package -/

def poSpec : GSpec Unit PoBlock where
  f := .po
  next := fun s _ off => (poGetNext s off, ())
  c0 := ()
  pr := PoBlock.print
  en := fun off _ b => b.entries off
  tr := fun c _ => c
  vw := PoBlock.views
  Good' := fun _ b => b.Good'
  Lic := fun off b => match b with | .record r => r.NoLicense off | .free _ _ => True
  Garb := fun _ g gap => PoGarbage g gap
  JOk := fun _ => True
  Follow := PoFollow
  Inv := fun _ _ => True

theorem poBlock_good (b : PoBlock) (off : Nat) (hg : b.Good') (hl : poSpec.Lic off b) : b.Good off := by
  cases b with
  | record r => exact ⟨hg, hl⟩
  | free cs gap => exact hg

theorem poSpec_laws : poSpec.Laws where
  walk_def := fun _ => rfl
  inv0 := fun _ => trivial
  follow_nil := by intro c hc; cases hc
  block_walk := fun s b _ off rest hg hl h hfo _ => ⟨po_walks_block s off b rest (poBlock_good b off hg hl) hfo h, trivial⟩
  block_follow := by
    intro _ b rest hg
    have : b.Good 2 := poBlock_good b 2 hg (by cases b with
      | record r => intro h; omega
      | free cs gap => trivial)
    exact poFollow_block b 2 this rest
  block_views := fun s b _ off rest hg h hfo => po_views_block s off b rest hg hfo h
  junk_at := by
    intro s _ p g gap rest hg h _ hnext
    refine ⟨?_, trivial⟩
    have : poGetNext s p = junkEntry p (p + g.length + gap.length) := by
      apply po_junk_at s p g gap rest hg _ h
      rcases hnext with rfl | ⟨b, rest', rfl, hb, _, hfo⟩
      · exact Or.inl rfl
      · exact Or.inr (po_start_match s _ b rest' hb hfo h.app.app)
    show (poGetNext s p, ()) = _
    rw [this]
  garb_follow := by
    intro _ g gap rest hg c hc
    cases hgg : g with
    | nil => exact absurd hgg hg.ne
    | cons a t =>
      rw [hgg] at hc; simp at hc; subst hc
      exact hg.head a (by rw [hgg]; rfl)
  garb_pos := fun _ g gap hg => List.length_pos_iff.mpr hg.ne
  lic_after_garb := by
    intro _ g gap off b hg
    have h1 : 0 < g.length := List.length_pos_iff.mpr hg.ne
    have h2 : 0 < gap.length := List.length_pos_iff.mpr hg.gap_ne
    cases b with
    | record r => intro hlt; omega
    | free cs gap' => trivial

/-- PO: the whole-file theorem with garbage lines -/
theorem walk_po_doc (xs : List (GB PoBlock)) (tail : Option (List Nat × List Nat))
    (hg : ∀ x ∈ xs, x.b.Good' ∧ ∀ g gap, x.junk = some (g, gap) → PoGarbage g gap)
    (htail : ∀ g gap, tail = some (g, gap) → PoGarbage g gap)
    (hlic : ∀ x r, xs.head? = some x → x.junk = none → x.b = .record r → r.NoLicense 0) :
    walk .po (poSpec.gprint xs tail).toArray = .done (poSpec.gentries xs tail) ∧
      entitiesOf .po (poSpec.gprint xs tail).toArray (poSpec.gentries xs tail) = poSpec.gviews xs ∧
      junkOf (poSpec.gprint xs tail).toArray (poSpec.gentries xs tail) = gbJunk xs tail := by
  apply gdoc poSpec poSpec_laws xs tail _ htail
  apply gGoodAll poSpec
    (fun _ b hb => PoBlock.print_len b 2 (poBlock_good b 2 hb (by cases b with
      | record r => intro h; omega
      | free cs gap => trivial)))
    (fun off b h2 => by cases b with
      | record r => intro h; omega
      | free cs gap => trivial)
    xs (fun x hx _ => ⟨(hg x hx).1, fun g gap h => ⟨(hg x hx).2 g gap h, trivial⟩⟩) 0 ()
  intro x hx hj
  cases hb : x.b with
  | record r => exact hlic x r hx hj hb
  | free cs gap => trivial

/-
Helper lemmas for C10: the radix tree `TreeM.Tree` (core Lean only).
-/
import CLModel.Compare.Tree
namespace TreeM

variable {V : Type}

/-! ### induction over the nested tree type -/

mutual
theorem Tree.ind_aux {P : Tree V → Prop} (h : ∀ br val, (∀ kv ∈ br, P kv.2) → P (.node br val)) :
    ∀ t, P t
  | .node br val => h br val (Tree.ind_auxBr h br)
theorem Tree.ind_auxBr {P : Tree V → Prop} (h : ∀ br val, (∀ kv ∈ br, P kv.2) → P (.node br val)) :
    ∀ br : List (Key × Tree V), ∀ kv ∈ br, P kv.2
  | [] => by intro kv hkv; cases hkv
  | (k, v) :: rest => by
    intro kv hkv
    cases hkv with
    | head => exact Tree.ind_aux h v
    | tail _ hm => exact Tree.ind_auxBr h rest kv hm
end

/-- induction principle: a property holds of a node if it holds of all its children -/
theorem Tree.induction {P : Tree V → Prop} (t : Tree V)
    (h : ∀ br val, (∀ kv ∈ br, P kv.2) → P (.node br val)) : P t := Tree.ind_aux h t

/-! ### the mutual definitions, read through `List` operations -/

theorem flattenBr_eq (br : List (Key × Tree V)) :
    flattenBr br = br.flatMap (fun kv => (flatten kv.2).map (fun pv => (kv.1 ++ pv.1, pv.2))) := by
  induction br with
  | nil => simp [flattenBr]
  | cons kv rest ih => obtain ⟨k, v⟩ := kv; simp [flattenBr, ih]

theorem InvBr_iff (br : List (Key × Tree V)) : InvBr br ↔ ∀ kv ∈ br, kv.1 ≠ [] ∧ Inv kv.2 := by
  induction br with
  | nil => simp [InvBr]
  | cons kv rest ih => obtain ⟨k, v⟩ := kv; simp [InvBr, ih, and_assoc]

theorem NoSlashBr_iff (br : List (Key × Tree V)) :
    NoSlashBr br ↔ ∀ kv ∈ br, (∀ p ∈ kv.1, 47 ∉ p) ∧ NoSlash kv.2 := by
  induction br with
  | nil => simp [NoSlashBr]
  | cons kv rest ih => obtain ⟨k, v⟩ := kv; simp [NoSlashBr, ih, and_assoc]

theorem Inv_node (br : List (Key × Tree V)) (val) :
    Inv (.node br val) ↔ (br.map (fun kv => headOf kv.1)).Nodup ∧ ∀ kv ∈ br, kv.1 ≠ [] ∧ Inv kv.2 := by
  simp [Inv, InvBr_iff]

theorem NoSlash_node (br : List (Key × Tree V)) (val) :
    NoSlash (.node br val) ↔ ∀ kv ∈ br, (∀ p ∈ kv.1, 47 ∉ p) ∧ NoSlash kv.2 := by
  simp [NoSlash, NoSlashBr_iff]

/-! ### `lcp` -/

theorem lcp_le_left : ∀ (k p : List Part), lcp k p ≤ k.length
  | [], _ => by simp [lcp]
  | _ :: _, [] => by simp [lcp]
  | a :: as, b :: bs => by
    simp only [lcp]; split
    · omega
    · have := lcp_le_left as bs; simp; omega

theorem lcp_le_right : ∀ (k p : List Part), lcp k p ≤ p.length
  | [], _ => by simp [lcp]
  | _ :: _, [] => by simp [lcp]
  | a :: as, b :: bs => by
    simp only [lcp]; split
    · omega
    · have := lcp_le_right as bs; simp; omega

theorem lcp_take : ∀ (k p : List Part), k.take (lcp k p) = p.take (lcp k p)
  | [], _ => by simp [lcp]
  | _ :: _, [] => by simp [lcp]
  | a :: as, b :: bs => by
    simp only [lcp]; split
    · simp
    · rename_i h
      have hab : a = b := by simpa using h
      simp [hab, lcp_take as bs]

/-- after the common prefix the next segments differ -/
theorem lcp_drop_head : ∀ (k p : List Part), (k.drop (lcp k p)) ≠ [] → (p.drop (lcp k p)) ≠ [] →
    (k.drop (lcp k p)).head? ≠ (p.drop (lcp k p)).head?
  | [], _ => by simp [lcp]
  | _ :: _, [] => by simp [lcp]
  | a :: as, b :: bs => by
    simp only [lcp]; split
    · rename_i h
      have : a ≠ b := by simpa using h
      simp [this]
    · simpa using lcp_drop_head as bs

theorem lcp_eq_zero_iff {k p : List Part} (hk : k ≠ []) (hp : p ≠ []) : lcp k p = 0 ↔ k.head? ≠ p.head? := by
  cases k with
  | nil => cases hk rfl
  | cons a as =>
    cases p with
    | nil => cases hp rfl
    | cons b bs =>
      simp only [lcp]
      by_cases h : a = b <;> simp [h]

theorem isPrefixOf_iff_lcp (k p : List Part) : k.isPrefixOf p = true ↔ lcp k p = k.length := by
  induction k generalizing p with
  | nil => simp [lcp]
  | cons a as ih =>
    cases p with
    | nil => simp [lcp]
    | cons b bs =>
      simp only [List.isPrefixOf, lcp, List.length_cons, Bool.and_eq_true, beq_iff_eq]
      by_cases h : a = b
      · simp [h, ih]
      · simp [h]

/-! ### selecting the branch that starts with a given segment -/

/-- the first branch whose key starts with the segment `h` -/
def sel (br : List (Key × Tree V)) (h : Option Part) : Option (Key × Tree V) :=
  br.find? (fun kv => kv.1.head? == h)

theorem sel_some {br : List (Key × Tree V)} {h kv} (hs : sel br h = some kv) : kv ∈ br ∧ kv.1.head? = h := by
  have h1 := List.find?_some hs
  have h2 := List.mem_of_find?_eq_some hs
  exact ⟨h2, by simpa using h1⟩

theorem sel_none {br : List (Key × Tree V)} {h} (hs : sel br h = none) : ∀ kv ∈ br, kv.1.head? ≠ h := by
  intro kv hkv
  have := List.find?_eq_none.1 hs kv hkv
  simpa using this

theorem findBranch_eq {parts : List Part} (hp : parts ≠ []) :
    ∀ (br : List (Key × Tree V)) (b : Bool), (∀ kv ∈ br, kv.1 ≠ []) →
      findBranch parts br b = .ok ((sel br parts.head?).map (fun kv => (kv.1, kv.2, lcp kv.1 parts)))
  | [], _, _ => by simp [findBranch, sel]
  | (k, v) :: rest, b, hk => by
    have hk0 : k ≠ [] := (hk (k, v) (by simp))
    have hrest : ∀ kv ∈ rest, kv.1 ≠ [] := fun kv h => hk kv (by simp [h])
    have e1 : k.isEmpty = false := by cases k <;> simp_all
    have e2 : parts.isEmpty = false := by cases parts <;> simp_all
    simp only [findBranch, e1, e2, Bool.or_self, Bool.false_and, Bool.false_eq_true, ↓reduceIte, sel, List.find?_cons]
    by_cases hh : k.head? = parts.head?
    · have : lcp k parts ≠ 0 := by
        intro h0; exact ((lcp_eq_zero_iff hk0 hp).1 h0) hh
      simp [hh, this]
    · have : lcp k parts = 0 := (lcp_eq_zero_iff hk0 hp).2 hh
      have hb : (k.head? == parts.head?) = false := by simpa using hh
      simp only [this, beq_self_eq_true, ↓reduceIte, hb]
      exact findBranch_eq hp rest false hrest

theorem findBr_eq_sel : ∀ (br : List (Key × Tree V)) (p : List Part),
    findBr br p = match sel br p.head? with
      | none => none
      | some kv => if kv.1.isPrefixOf p then find kv.2 (p.drop kv.1.length) else none
  | [], p => by simp [findBr, sel]
  | (k, v) :: rest, p => by
    simp only [findBr, sel, List.find?_cons]
    by_cases hh : (k.head? == p.head?) = true
    · simp [hh]
    · have hb : (k.head? == p.head?) = false := by simpa using hh
      simp only [hb, Bool.false_eq_true, ↓reduceIte]
      exact findBr_eq_sel rest p

/-- what the three dict updates of `__get` have in common: the branch for one first segment is
    replaced (or created), every other first segment keeps its branch -/
def Upd (br br' : List (Key × Tree V)) (hd : Option Part) (key' : Key) (sub' : Tree V) : Prop :=
  ∀ h, sel br' h = if hd = h then some (key', sub') else sel br h

theorem find_node_upd {br br' : List (Key × Tree V)} {hd key' sub'} (hu : Upd br br' hd key' sub')
    (val : Option (List V)) (p : List Part) :
    find (.node br' val) p =
      if p.isEmpty then val
      else if hd = p.head? then (if key'.isPrefixOf p then find sub' (p.drop key'.length) else none)
      else find (.node br val) p := by
  simp only [find]
  split
  · rfl
  · rw [findBr_eq_sel, findBr_eq_sel, hu]
    by_cases hh : hd = p.head?
    · simp [hh]
    · simp [hh]

/-- L3: a new key whose first segment is not in use is appended -/
theorem upd_append {br : List (Key × Tree V)} {parts : Key} (x : Tree V) (hs : sel br parts.head? = none) :
    dset br parts x = br ++ [(parts, x)] ∧ Upd br (br ++ [(parts, x)]) parts.head? parts x := by
  have hn := sel_none hs
  constructor
  · have : br.any (fun kv => kv.1 == parts) = false := by
      simp only [List.any_eq_false, beq_iff_eq]
      intro kv hkv he
      exact hn kv hkv (by rw [he])
    simp [dset, this]
  · intro h
    simp only [sel, List.find?_append, List.find?_cons, List.find?_nil]
    by_cases hh : parts.head? = h
    · subst hh
      have : List.find? (fun kv : Key × Tree V => kv.1.head? == parts.head?) br = none := hs
      simp [this]
    · have hb : (parts.head? == h) = false := by simpa using hh
      simp [hh, hb]

/-- L1: the value of an existing key is replaced in place -/
theorem upd_replace {br : List (Key × Tree V)} {k : Key} {v : Tree V} {hd} (x : Tree V)
    (hs : sel br hd = some (k, v)) :
    dset br k x = br.map (fun kv => if kv.1 == k then (k, x) else kv) ∧
      Upd br (br.map (fun kv => if kv.1 == k then (k, x) else kv)) hd k x := by
  obtain ⟨hmem, hhead⟩ := sel_some hs
  constructor
  · have : br.any (fun kv => kv.1 == k) = true := by
      simp only [List.any_eq_true, beq_iff_eq]
      exact ⟨(k, v), hmem, rfl⟩
    simp [dset, this]
  · intro h
    have hf : ((fun kv : Key × Tree V => kv.1.head? == h) ∘ fun kv => if (kv.1 == k) = true then (k, x) else kv)
        = (fun kv : Key × Tree V => kv.1.head? == h) := by
      funext kv
      simp only [Function.comp]
      split
      · rename_i he; simp at he; simp [he]
      · rfl
    simp only [sel, List.find?_map, hf]
    by_cases hh : hd = h
    · subst hh
      have : List.find? (fun kv : Key × Tree V => kv.1.head? == hd) br = some (k, v) := hs
      simp [this]
    · simp only [hh, ↓reduceIte]
      cases hf2 : List.find? (fun kv : Key × Tree V => kv.1.head? == h) br with
      | none => rfl
      | some kv =>
        have h1 : kv.1.head? = h := by simpa using List.find?_some hf2
        have : kv.1 ≠ k := by
          intro he; apply hh; rw [← hhead, ← h1, he]
        simp [this]

theorem erase_sel {hd : Option Part} {k : Key} {v : Tree V} :
    ∀ (br : List (Key × Tree V)), (br.map (fun kv => headOf kv.1)).Nodup → sel br hd = some (k, v) →
      (∀ kv ∈ br.eraseP (fun kv => kv.1 == k), kv.1.head? ≠ hd) ∧
      (∀ h, h ≠ hd → sel (br.eraseP (fun kv => kv.1 == k)) h = sel br h)
  | [], _, hs => by simp [sel] at hs
  | (k0, v0) :: rest, hnd, hs => by
    simp only [sel, List.find?_cons] at hs
    simp only [List.map_cons, List.nodup_cons] at hnd
    by_cases hh : k0.head? = hd
    · have hb : (k0.head? == hd) = true := by simpa using hh
      simp only [hb] at hs
      have hk : k0 = k := by injection hs with hs; exact congrArg Prod.fst hs
      subst hk
      simp only [List.eraseP_cons, beq_self_eq_true, cond_true]
      constructor
      · intro kv hkv hkh
        apply hnd.1
        simp only [List.mem_map]
        exact ⟨kv, hkv, by simp [headOf, hkh, hh]⟩
      · intro h hne
        have hb2 : (k0.head? == h) = false := by
          simp only [beq_eq_false_iff_ne, ne_eq]
          intro he; exact hne (by rw [← he, hh])
        simp [sel, hb2]
    · have hb : (k0.head? == hd) = false := by simpa using hh
      simp only [hb] at hs
      have hs' : sel rest hd = some (k, v) := hs
      have hk : (k0 == k) = false := by
        simp only [beq_eq_false_iff_ne, ne_eq]
        intro he; apply hh; rw [he]; exact (sel_some hs').2
      obtain ⟨ih1, ih2⟩ := erase_sel rest hnd.2 hs'
      simp only [List.eraseP_cons, hk, cond_false]
      constructor
      · intro kv hkv
        cases hkv with
        | head => exact hh
        | tail _ hm => exact ih1 kv hm
      · intro h hne
        simp only [sel, List.find?_cons]
        cases (k0.head? == h)
        · exact ih2 h hne
        · rfl

/-- L2: the key is popped and a key with the same first segment is appended -/
theorem upd_pop_append {br : List (Key × Tree V)} {k : Key} {v : Tree V} {hd} (c : Key) (x : Tree V)
    (hnd : (br.map (fun kv => headOf kv.1)).Nodup) (hs : sel br hd = some (k, v)) (hc : c.head? = hd) :
    dset (dpop br k) c x = dpop br k ++ [(c, x)] ∧ Upd br (dpop br k ++ [(c, x)]) hd c x ∧
      (∀ kv ∈ dpop br k, kv ∈ br) ∧ ((dpop br k ++ [(c, x)]).map (fun kv => headOf kv.1)).Nodup := by
  obtain ⟨h1, h2⟩ := erase_sel br hnd hs
  have hsub : (dpop br k).Sublist br := List.eraseP_sublist
  have hnone : sel (dpop br k) c.head? = none := by
    simp only [sel, List.find?_eq_none, beq_iff_eq]
    intro kv hkv
    rw [hc]; exact h1 kv hkv
  obtain ⟨e1, e2⟩ := upd_append x hnone
  refine ⟨e1, ?_, fun kv hkv => hsub.subset hkv, ?_⟩
  · intro h
    rw [e2 h, hc]
    by_cases hh : hd = h
    · simp [hh]
    · simp only [hh, ↓reduceIte]
      exact h2 h (fun e => hh e.symm)
  · simp only [List.map_append, List.map_cons, List.map_nil]
    rw [List.nodup_append]
    refine ⟨(hsub.map _).nodup hnd, by simp, ?_⟩
    intro a ha b hb
    simp only [List.mem_singleton] at hb
    simp only [List.mem_map] at ha
    obtain ⟨kv, hkv, rfl⟩ := ha
    subst hb
    simp only [headOf, hc]
    exact h1 kv hkv

/-! ### `touch` -/

theorem find_touch (t : Tree V) (f : List V → List V) (q : List Part) :
    find (touch t f) q = if q.isEmpty then some (f (t.value.getD [])) else find t q := by
  obtain ⟨br, val⟩ := t
  cases val <;> (simp only [touch, find, Tree.value]; split <;> simp)

theorem Inv_touch (t : Tree V) (f : List V → List V) : Inv (touch t f) ↔ Inv t := by
  obtain ⟨br, val⟩ := t
  cases val <;> simp [touch, Inv]

theorem NoSlash_touch (t : Tree V) (f : List V → List V) : NoSlash (touch t f) ↔ NoSlash t := by
  obtain ⟨br, val⟩ := t
  cases val <;> simp [touch, NoSlash]

theorem find_nil (t : Tree V) : find t [] = t.value := by
  obtain ⟨br, val⟩ := t
  simp [find, Tree.value]

/-! ### prefix facts -/

theorem isPrefixOf_append_iff (a b p : List Part) :
    (a ++ b).isPrefixOf p = true ↔ a.isPrefixOf p = true ∧ b.isPrefixOf (p.drop a.length) = true := by
  induction a generalizing p with
  | nil => simp
  | cons x xs ih =>
    cases p with
    | nil => simp
    | cons y ys =>
      simp only [List.cons_append, List.isPrefixOf, Bool.and_eq_true, beq_iff_eq, List.length_cons,
        List.drop_succ_cons]
      rw [ih]
      exact and_assoc.symm

theorem eq_append_drop_of_isPrefixOf {a p : List Part} (h : a.isPrefixOf p = true) : p = a ++ p.drop a.length := by
  have : a <+: p := List.isPrefixOf_iff_prefix.1 h
  obtain ⟨r, rfl⟩ := this
  simp

/-- the intermediate node created by a split behaves like the old branch -/
theorem find_split (old : Key) (v : Tree V) (hold : old ≠ []) (q : List Part) :
    find (.node [(old, v)] none) q = if old.isPrefixOf q then find v (q.drop old.length) else none := by
  simp only [find, findBr]
  cases q with
  | nil =>
    cases old with
    | nil => cases hold rfl
    | cons a as => simp
  | cons b bs =>
    cases old with
    | nil => cases hold rfl
    | cons a as =>
      simp only [List.isEmpty_cons, Bool.false_eq_true, ↓reduceIte, List.head?_cons, List.isPrefixOf]
      by_cases h : a = b <;> simp [h]

theorem find_spec_of_upd {br br' : List (Key × Tree V)} {parts key' : Key} {sub' : Tree V} {val : Option (List V)}
    {new : Option (List V)} (hp : parts ≠ []) (hu : Upd br br' parts.head? key' sub')
    (H : ∀ p, p ≠ [] → p.head? = parts.head? →
      (if key'.isPrefixOf p then find sub' (p.drop key'.length) else none)
        = if p = parts then new else find (.node br val) p) :
    ∀ p, find (.node br' val) p = if p = parts then new else find (.node br val) p := by
  intro p
  rw [find_node_upd hu]
  cases p with
  | nil =>
    have : ([] : List Part) ≠ parts := fun h => hp h.symm
    simp [this, find]
  | cons a as =>
    simp only [List.isEmpty_cons, Bool.false_eq_true, ↓reduceIte]
    by_cases hh : parts.head? = (a :: as).head?
    · simp only [hh, ↓reduceIte]
      exact H (a :: as) (by simp) hh.symm
    · have : a :: as ≠ parts := by intro he; apply hh; rw [he]
      rw [if_neg hh, if_neg this]

/-! ### `__get`: invariant and refinement -/

theorem heads_map_replace (br : List (Key × Tree V)) (k : Key) (x : Tree V) :
    (br.map (fun kv => if kv.1 == k then (k, x) else kv)).map (fun kv => headOf kv.1)
      = br.map (fun kv => headOf kv.1) := by
  simp only [List.map_map]
  apply List.map_congr_left
  intro kv _
  simp only [Function.comp]
  split
  · rename_i h; simp at h; simp [h]
  · rfl

theorem mem_map_replace {br : List (Key × Tree V)} {k : Key} {x : Tree V} {kv}
    (h : kv ∈ br.map (fun kv => if kv.1 == k then (k, x) else kv)) : kv ∈ br ∨ kv = (k, x) := by
  simp only [List.mem_map] at h
  obtain ⟨kv', hm, rfl⟩ := h
  split
  · right; rfl
  · left; exact hm

theorem find_split_drop {k common old : Key} (v : Tree V) (hk : common ++ old = k) (hold : old ≠ [])
    (p : List Part) (hpre : common.isPrefixOf p = true) :
    find (.node [(old, v)] none) (p.drop common.length)
      = if k.isPrefixOf p then find v (p.drop k.length) else none := by
  rw [find_split old v hold, ← hk, List.drop_drop]
  have := isPrefixOf_append_iff common old p
  by_cases h : old.isPrefixOf (List.drop common.length p) = true
  · have h2 : (common ++ old).isPrefixOf p = true := this.2 ⟨hpre, h⟩
    simp [h, h2]
  · have h2 : ¬ (common ++ old).isPrefixOf p = true := fun hh => h (this.1 hh).2
    simp [h, h2]

theorem not_isPrefixOf_of_take {k : Key} {i : Nat} {p : List Part} (h : ¬ (k.take i).isPrefixOf p = true) :
    ¬ k.isPrefixOf p = true := by
  intro hk
  apply h
  have : k.take i ++ k.drop i = k := List.take_append_drop i k
  rw [← this] at hk
  exact ((isPrefixOf_append_iff _ _ _).1 hk).1

theorem head?_take {k : Key} {i : Nat} (hi : i ≠ 0) : (k.take i).head? = k.head? := by
  cases k with
  | nil => simp
  | cons a as =>
    cases i with
    | zero => cases hi rfl
    | succ j => simp

theorem getMod_spec (f : List V → List V) : ∀ (n : Nat) (t : Tree V) (parts : List Part),
    parts.length ≤ n → Inv t → parts ≠ [] →
    ∃ t', getMod t parts f = .ok t' ∧ Inv t' ∧
      (NoSlash t → (∀ s ∈ parts, 47 ∉ s) → NoSlash t') ∧
      ∀ p, find t' p = if p = parts then some (f ((find t parts).getD [])) else find t p := by
  intro n
  induction n with
  | zero => intro t parts hl _ hp; cases parts <;> simp_all
  | succ n ih =>
    intro t parts hl hinv hp
    obtain ⟨br, val⟩ := t
    rw [Inv_node] at hinv
    obtain ⟨hnd, hbr⟩ := hinv
    have hk : ∀ kv ∈ br, kv.1 ≠ [] := fun kv h => (hbr kv h).1
    have hfb := findBranch_eq hp br true hk
    have hpe : parts.isEmpty = false := by cases parts <;> simp_all
    rw [getMod]
    split
    · rename_i e heq; rw [hfb] at heq; cases heq
    · -- no branch shares the first segment: a new leaf is appended
      rename_i heq
      rw [hfb] at heq
      have hs : sel br parts.head? = none := by
        cases h : sel br parts.head? with
        | none => rfl
        | some kv => rw [h] at heq; simp at heq
      obtain ⟨e1, e2⟩ := upd_append (touch (Tree.empty : Tree V) f) hs
      simp only [hpe, Bool.not_false, ↓reduceIte, e1]
      refine ⟨_, rfl, ?_, ?_, ?_⟩
      · rw [Inv_node]
        constructor
        · simp only [List.map_append, List.map_cons, List.map_nil]
          rw [List.nodup_append]
          refine ⟨hnd, by simp, ?_⟩
          intro a ha b hb
          simp only [List.mem_singleton] at hb
          simp only [List.mem_map] at ha
          obtain ⟨kv, hkv, rfl⟩ := ha
          subst hb
          exact sel_none hs kv hkv
        · intro kv hkv
          simp only [List.mem_append, List.mem_singleton] at hkv
          cases hkv with
          | inl h => exact hbr kv h
          | inr h => subst h; exact ⟨hp, by rw [Inv_touch]; simp [Tree.empty, Inv, InvBr]⟩
      · intro hns hps
        rw [NoSlash_node] at hns ⊢
        intro kv hkv
        simp only [List.mem_append, List.mem_singleton] at hkv
        cases hkv with
        | inl h => exact hns kv h
        | inr h => subst h; exact ⟨hps, by rw [NoSlash_touch]; simp [Tree.empty, NoSlash, NoSlashBr]⟩
      · apply find_spec_of_upd hp e2
        intro p hpne hph
        have hfp : find (.node br val) p = none := by
          have : p.isEmpty = false := by cases p <;> simp_all
          simp only [find, this, Bool.false_eq_true, ↓reduceIte]
          rw [findBr_eq_sel, hph, hs]
        have hfparts : find (.node br val) parts = none := by
          simp only [find, hpe, Bool.false_eq_true, ↓reduceIte]
          rw [findBr_eq_sel, hs]
        rw [hfp, hfparts, find_touch]
        by_cases hpre : parts.isPrefixOf p = true
        · have hpeq := eq_append_drop_of_isPrefixOf hpre
          simp only [hpre, ↓reduceIte]
          by_cases hd : (p.drop parts.length) = []
          · have : p = parts := by rw [hpeq, hd]; simp
            simp [this, Tree.empty, Tree.value]
          · have : p ≠ parts := by intro he; apply hd; rw [he]; simp
            have hd' : (List.drop parts.length p).isEmpty = false := by
              cases h : List.drop parts.length p with
              | nil => exact absurd h hd
              | cons _ _ => rfl
            simp [this, hd', Tree.empty, find, findBr]
        · have : p ≠ parts := by intro he; apply hpre; rw [he]; simp
          simp [hpre, this]
    · rename_i k v i heq
      rw [hfb] at heq
      obtain ⟨hs, hi⟩ : sel br parts.head? = some (k, v) ∧ lcp k parts = i := by
        cases h : sel br parts.head? with
        | none => rw [h] at heq; simp at heq
        | some kv =>
          rw [h] at heq
          simp only [Option.map_some, Except.ok.injEq, Option.some.injEq, Prod.mk.injEq] at heq
          obtain ⟨h1, h2, h3⟩ := heq
          exact ⟨by rw [← h1, ← h2], by rw [← h1]; exact h3⟩
      subst hi
      obtain ⟨hmem, hhead⟩ := sel_some hs
      have hk0 : k ≠ [] := (hbr _ hmem).1
      have hinvv : Inv v := (hbr _ hmem).2
      have hi0 : lcp k parts ≠ 0 := fun h0 => (lcp_eq_zero_iff hk0 hp).1 h0 hhead
      have hile1 := lcp_le_left k parts
      have hile2 := lcp_le_right k parts
      have htake := lcp_take k parts
      have hdiff := lcp_drop_head k parts
      have hpre := isPrefixOf_iff_lcp k parts
      generalize lcp k parts = i at *
      have hck : k.take i ++ k.drop i = k := List.take_append_drop i k
      have hcp : k.take i ++ parts.drop i = parts := by rw [htake]; exact List.take_append_drop i parts
      have hclen : (k.take i).length = i := by simp; omega
      have hchead : (k.take i).head? = parts.head? := by rw [head?_take hi0]; exact hhead
      have hcpre : (k.take i).isPrefixOf parts = true := by
        rw [List.isPrefixOf_iff_prefix]; exact ⟨_, hcp⟩
      have hF : ∀ p, p ≠ [] → p.head? = parts.head? →
          find (.node br val) p = if k.isPrefixOf p then find v (p.drop k.length) else none := by
        intro p hpne hph
        have : p.isEmpty = false := by cases p <;> simp_all
        simp only [find, this, Bool.false_eq_true, ↓reduceIte]
        rw [findBr_eq_sel, hph, hs]
      have hFparts := hF parts hp rfl
      cases hold : (k.drop i).isEmpty <;> cases hnew : (parts.drop i).isEmpty
      · -- split the key and descend into the new intermediate node
        have hold' : k.drop i ≠ [] := by intro h; rw [h] at hold; simp at hold
        have hnew' : parts.drop i ≠ [] := by intro h; rw [h] at hnew; simp at hnew
        have hinv1 : Inv (.node [(k.drop i, v)] none) := by
          rw [Inv_node]; simp [hold', hinvv]
        have hlen : (parts.drop i).length ≤ n := by simp; omega
        obtain ⟨t1', e, hinv1', hns1, hfind1⟩ := ih _ _ hlen hinv1 hnew'
        obtain ⟨e1, e2, e3, e4⟩ := upd_pop_append (k.take i) t1' hnd hs hchead
        simp only [hold, hnew, Bool.not_false, ↓reduceIte, e, bind, Except.bind, pure, Except.pure, e1]
        have hnotpre : ¬ k.isPrefixOf parts = true := by
          rw [hpre]; intro he; apply hold'; rw [he]; simp
        refine ⟨_, rfl, ?_, ?_, ?_⟩
        · rw [Inv_node]
          refine ⟨e4, ?_⟩
          intro kv hkv
          simp only [List.mem_append, List.mem_singleton] at hkv
          cases hkv with
          | inl h => exact hbr kv (e3 kv h)
          | inr h =>
            subst h
            have hne : k.take i ≠ [] := by
              intro h; have := hclen; rw [h] at this; simp at this; exact hi0 this.symm
            exact ⟨hne, hinv1'⟩
        · intro hns hps
          rw [NoSlash_node] at hns ⊢
          intro kv hkv
          simp only [List.mem_append, List.mem_singleton] at hkv
          cases hkv with
          | inl h => exact hns kv (e3 kv h)
          | inr h =>
            subst h
            have hkns := (hns _ hmem)
            refine ⟨fun s hs => hkns.1 s (List.mem_of_mem_take hs), hns1 ?_ ?_⟩
            · rw [NoSlash_node]
              intro kv hkv
              simp only [List.mem_singleton] at hkv
              subst hkv
              exact ⟨fun s hs => hkns.1 s (List.mem_of_mem_drop hs), hkns.2⟩
            · exact fun s hs => hps s (List.mem_of_mem_drop hs)
        · apply find_spec_of_upd hp e2
          intro p hpne hph
          rw [hF p hpne hph, hFparts, if_neg hnotpre, hclen]
          have hf1 : find (.node [(k.drop i, v)] none) (parts.drop i) = none := by
            rw [find_split _ _ hold']
            have : ¬ (k.drop i).isPrefixOf (parts.drop i) = true := by
              intro hh
              have hpr : k.drop i <+: parts.drop i := List.isPrefixOf_iff_prefix.1 hh
              obtain ⟨r, hr⟩ := hpr
              apply hdiff hold' hnew'
              rw [← hr]
              cases hkd : k.drop i with
              | nil => exact absurd hkd hold'
              | cons a as => simp
            simp [this]
          by_cases hcp' : (k.take i).isPrefixOf p = true
          · simp only [hcp', ↓reduceIte, hfind1, hf1]
            have hpeq := eq_append_drop_of_isPrefixOf hcp'
            rw [hclen] at hpeq
            by_cases hd : p.drop i = parts.drop i
            · have : p = parts := by rw [hpeq, hd, hcp]
              simp [this]
            · have : p ≠ parts := by intro he; apply hd; rw [he]
              simp only [hd, this, ↓reduceIte]
              have := find_split_drop v hck hold' p hcp'
              rw [hclen] at this
              exact this
          · have : p ≠ parts := by intro he; apply hcp'; rw [he]; exact hcpre
            have hkp := not_isPrefixOf_of_take hcp'
            simp [hcp', this, hkp]
      · -- the path ends inside the key: split, the intermediate node gets the value
        have hold' : k.drop i ≠ [] := by intro h; rw [h] at hold; simp at hold
        have hnew' : parts.drop i = [] := by
          cases h : parts.drop i with
          | nil => rfl
          | cons _ _ => rw [h] at hnew; simp at hnew
        have hparts : k.take i = parts := by rw [← hcp, hnew']; simp
        have hinv1 : Inv (.node [(k.drop i, v)] none) := by
          rw [Inv_node]; simp [hold', hinvv]
        obtain ⟨e1, e2, e3, e4⟩ :=
          upd_pop_append (k.take i) (touch (.node [(k.drop i, v)] none) f) hnd hs hchead
        simp only [hold, hnew, Bool.not_false, Bool.not_true, Bool.false_eq_true, ↓reduceIte, pure, Except.pure, e1]
        have hnotpre : ¬ k.isPrefixOf parts = true := by
          rw [hpre]; intro he; apply hold'; rw [he]; simp
        refine ⟨_, rfl, ?_, ?_, ?_⟩
        · rw [Inv_node]
          refine ⟨e4, ?_⟩
          intro kv hkv
          simp only [List.mem_append, List.mem_singleton] at hkv
          cases hkv with
          | inl h => exact hbr kv (e3 kv h)
          | inr h =>
            subst h
            exact ⟨by rw [hparts]; exact hp, by rw [Inv_touch]; exact hinv1⟩
        · intro hns hps
          rw [NoSlash_node] at hns ⊢
          intro kv hkv
          simp only [List.mem_append, List.mem_singleton] at hkv
          cases hkv with
          | inl h => exact hns kv (e3 kv h)
          | inr h =>
            subst h
            have hkns := (hns _ hmem)
            refine ⟨fun s hs => hkns.1 s (List.mem_of_mem_take hs), ?_⟩
            rw [NoSlash_touch, NoSlash_node]
            intro kv hkv
            simp only [List.mem_singleton] at hkv
            subst hkv
            exact ⟨fun s hs => hkns.1 s (List.mem_of_mem_drop hs), hkns.2⟩
        · apply find_spec_of_upd hp e2
          intro p hpne hph
          rw [hF p hpne hph, hFparts, if_neg hnotpre, hclen, find_touch]
          by_cases hcp' : (k.take i).isPrefixOf p = true
          · simp only [hcp', ↓reduceIte]
            have hpeq := eq_append_drop_of_isPrefixOf hcp'
            rw [hclen] at hpeq
            by_cases hd : p.drop i = []
            · have : p = parts := by rw [hpeq, hd, hparts]; simp
              simp [this, hnew', Tree.value]
            · have : p ≠ parts := by intro he; apply hd; rw [he]; exact hnew'
              have hd' : (List.drop i p).isEmpty = false := by
                cases h : List.drop i p with
                | nil => exact absurd h hd
                | cons _ _ => rfl
              simp only [hd', this, ↓reduceIte, Bool.false_eq_true]
              have := find_split_drop v hck hold' p hcp'
              rw [hclen] at this
              exact this
          · have : p ≠ parts := by intro he; apply hcp'; rw [he]; exact hcpre
            have hkp := not_isPrefixOf_of_take hcp'
            simp [hcp', this, hkp]
      · -- the key is a proper prefix of the path: descend into the existing branch
        have hold' : k.drop i = [] := by
          cases h : k.drop i with
          | nil => rfl
          | cons _ _ => rw [h] at hold; simp at hold
        have hnew' : parts.drop i ≠ [] := by intro h; rw [h] at hnew; simp at hnew
        have hik : i = k.length := by
          have := congrArg List.length hold'; simp at this; omega
        have htk : k.take i = k := by rw [hik]; simp
        have hkpre : k.isPrefixOf parts = true := hpre.2 hik
        have hlen : (parts.drop i).length ≤ n := by simp; omega
        obtain ⟨v', e, hinv', hns', hfind'⟩ := ih _ _ hlen hinvv hnew'
        obtain ⟨e1, e2⟩ := upd_replace v' hs
        simp only [hold, hnew, Bool.not_false, Bool.not_true, Bool.false_eq_true, ↓reduceIte, e, bind, Except.bind,
          pure, Except.pure, htk, e1]
        refine ⟨_, rfl, ?_, ?_, ?_⟩
        · rw [Inv_node, heads_map_replace]
          refine ⟨hnd, ?_⟩
          intro kv hkv
          cases mem_map_replace hkv with
          | inl h => exact hbr kv h
          | inr h => subst h; exact ⟨hk0, hinv'⟩
        · intro hns hps
          rw [NoSlash_node] at hns ⊢
          intro kv hkv
          cases mem_map_replace hkv with
          | inl h => exact hns kv h
          | inr h =>
            subst h
            exact ⟨(hns _ hmem).1, hns' (hns _ hmem).2 (fun s hs => hps s (List.mem_of_mem_drop hs))⟩
        · apply find_spec_of_upd hp e2
          intro p hpne hph
          rw [hF p hpne hph, hFparts, if_pos hkpre, ← hik]
          by_cases hkp : k.isPrefixOf p = true
          · simp only [hkp, ↓reduceIte, hfind']
            have hpeq := eq_append_drop_of_isPrefixOf hkp
            rw [← hik] at hpeq
            by_cases hd : p.drop i = parts.drop i
            · have : p = parts := by rw [hpeq, hd, ← htk, hcp]
              simp [this]
            · have : p ≠ parts := by intro he; apply hd; rw [he]
              simp [hd, this]
          · have : p ≠ parts := by intro he; apply hkp; rw [he]; exact hkpre
            simp [hkp, this]
      · -- the path is the key: the existing node gets (or keeps) its value
        have hold' : k.drop i = [] := by
          cases h : k.drop i with
          | nil => rfl
          | cons _ _ => rw [h] at hold; simp at hold
        have hnew' : parts.drop i = [] := by
          cases h : parts.drop i with
          | nil => rfl
          | cons _ _ => rw [h] at hnew; simp at hnew
        have hik : i = k.length := by
          have := congrArg List.length hold'; simp at this; omega
        have htk : k.take i = k := by rw [hik]; simp
        have hkparts : k = parts := by rw [← hcp, hnew', htk]; simp
        have hkpre : k.isPrefixOf parts = true := hpre.2 hik
        obtain ⟨e1, e2⟩ := upd_replace (touch v f) hs
        simp only [hold, hnew, Bool.not_true, Bool.false_eq_true, ↓reduceIte, pure, Except.pure, htk, e1]
        refine ⟨_, rfl, ?_, ?_, ?_⟩
        · rw [Inv_node, heads_map_replace]
          refine ⟨hnd, ?_⟩
          intro kv hkv
          cases mem_map_replace hkv with
          | inl h => exact hbr kv h
          | inr h => subst h; exact ⟨hk0, by rw [Inv_touch]; exact hinvv⟩
        · intro hns hps
          rw [NoSlash_node] at hns ⊢
          intro kv hkv
          cases mem_map_replace hkv with
          | inl h => exact hns kv h
          | inr h =>
            subst h
            exact ⟨(hns _ hmem).1, by rw [NoSlash_touch]; exact (hns _ hmem).2⟩
        · apply find_spec_of_upd hp e2
          intro p hpne hph
          rw [hF p hpne hph, hFparts, if_pos hkpre, find_touch]
          have hdp : List.drop k.length parts = [] := by rw [← hik]; exact hnew'
          rw [hdp, find_nil]
          by_cases hkp : k.isPrefixOf p = true
          · simp only [hkp, ↓reduceIte]
            have hpeq := eq_append_drop_of_isPrefixOf hkp
            by_cases hd : p.drop k.length = []
            · have : p = parts := by rw [hpeq, hd, hkparts]; simp
              simp [this, hdp]
            · have : p ≠ parts := by intro he; apply hd; rw [he]; exact hdp
              have hd' : (List.drop k.length p).isEmpty = false := by
                cases h : List.drop k.length p with
                | nil => exact absurd h hd
                | cons _ _ => rfl
              simp [hd', this]
          · have : p ≠ parts := by intro he; apply hkp; rw [he]; exact hkpre
            simp [hkp, this]

/-! ### the flattened view -/

theorem heads_inj : ∀ {br : List (Key × Tree V)}, (br.map (fun kv => headOf kv.1)).Nodup →
    ∀ {a b}, a ∈ br → b ∈ br → a.1.head? = b.1.head? → a = b
  | [], _, _, _, ha, _, _ => by cases ha
  | x :: rest, hnd, a, b, ha, hb, he => by
    simp only [List.map_cons, List.nodup_cons, List.mem_map, not_exists, not_and] at hnd
    cases ha with
    | head =>
      cases hb with
      | head => rfl
      | tail _ hb => exact absurd (by simp [headOf, he]) (hnd.1 b hb)
    | tail _ ha =>
      cases hb with
      | head => exact absurd (by simp [headOf, he]) (hnd.1 a ha)
      | tail _ hb => exact heads_inj hnd.2 ha hb he

theorem flatten_node (br : List (Key × Tree V)) (val : Option (List V)) :
    flatten (.node br val) = (match val with | some v => [([], v)] | none => []) ++
      br.flatMap (fun kv => (flatten kv.2).map (fun pv => (kv.1 ++ pv.1, pv.2))) := by
  cases val <;> simp [flatten, flattenBr_eq]

theorem head?_append_of_ne_nil {a b : List Part} (h : a ≠ []) : (a ++ b).head? = a.head? := by
  cases a with
  | nil => cases h rfl
  | cons _ _ => simp

/-- under the invariant the flattened tree contains `(p, l)` exactly if the lookup of `p` finds `l` -/
theorem mem_flatten_iff_find (t : Tree V) : Inv t → ∀ p l, (p, l) ∈ flatten t ↔ find t p = some l := by
  induction t using Tree.induction with
  | h br val ih =>
    intro hinv p l
    rw [Inv_node] at hinv
    obtain ⟨hnd, hbr⟩ := hinv
    rw [flatten_node]
    simp only [List.mem_append, List.mem_flatMap, List.mem_map]
    cases p with
    | nil =>
      simp only [find, List.isEmpty_nil, ↓reduceIte]
      constructor
      · intro h
        cases h with
        | inl h => cases val <;> simp_all
        | inr h =>
          obtain ⟨kv, hkv, pv, _, he⟩ := h
          have := (hbr kv hkv).1
          simp only [Prod.mk.injEq, List.append_eq_nil_iff] at he
          exact absurd he.1.1 this
      · intro h; left; subst h; simp
    | cons a as =>
      have hne : ¬ ((a :: as) = ([] : List Part)) := by simp
      simp only [find, List.isEmpty_cons, Bool.false_eq_true, ↓reduceIte]
      rw [findBr_eq_sel]
      constructor
      · intro h
        cases h with
        | inl h => cases val <;> simp_all
        | inr h =>
          obtain ⟨kv, hkv, pv, hpv, he⟩ := h
          simp only [Prod.mk.injEq] at he
          obtain ⟨he1, he2⟩ := he
          have hk0 := (hbr kv hkv).1
          have hh : kv.1.head? = (a :: as).head? := by rw [← he1, head?_append_of_ne_nil hk0]
          cases hs : sel br (a :: as).head? with
          | none => exact absurd hh (sel_none hs kv hkv)
          | some kv' =>
            obtain ⟨hm', hh'⟩ := sel_some hs
            have : kv' = kv := heads_inj hnd hm' hkv (by rw [hh', hh])
            subst this
            have hpre : kv'.1.isPrefixOf (a :: as) = true := by
              rw [List.isPrefixOf_iff_prefix]; exact ⟨pv.1, he1⟩
            have hdrop : List.drop kv'.1.length (a :: as) = pv.1 := by rw [← he1]; simp
            simp only [hpre, ↓reduceIte, hdrop]
            rw [← he2]
            exact (ih kv' hkv (hbr kv' hkv).2 pv.1 pv.2).1 hpv
      · intro h
        right
        cases hs : sel br (a :: as).head? with
        | none => rw [hs] at h; simp at h
        | some kv =>
          rw [hs] at h
          obtain ⟨hm, hh⟩ := sel_some hs
          by_cases hpre : kv.1.isPrefixOf (a :: as) = true
          · simp only [hpre, ↓reduceIte] at h
            refine ⟨kv, hm, (List.drop kv.1.length (a :: as), l), ?_, ?_⟩
            · exact (ih kv hm (hbr kv hm).2 _ _).2 h
            · simp only [Prod.mk.injEq, and_true]
              exact (eq_append_drop_of_isPrefixOf hpre).symm
          · simp [hpre] at h

/-- under the invariant every path occurs once in the flattened tree -/
theorem flatten_nodup (t : Tree V) : Inv t → ((flatten t).map (·.1)).Nodup := by
  induction t using Tree.induction with
  | h br val ih =>
    intro hinv
    rw [Inv_node] at hinv
    obtain ⟨hnd, hbr⟩ := hinv
    rw [flatten_node, List.map_append, List.nodup_append]
    refine ⟨by cases val <;> simp, ?_, ?_⟩
    · rw [List.map_flatMap]
      unfold List.Nodup
      rw [List.pairwise_flatMap]
      constructor
      · intro kv hkv
        have := ih kv hkv (hbr kv hkv).2
        simp only [List.map_map]
        unfold List.Nodup at this
        rw [List.pairwise_map] at this ⊢
        apply this.imp
        intro x y hxy
        simpa using hxy
      · have hnd' : List.Pairwise (fun a b : Key × Tree V => headOf a.1 ≠ headOf b.1) br := by
          unfold List.Nodup at hnd; rw [List.pairwise_map] at hnd; exact hnd
        apply List.Pairwise.imp_of_mem _ hnd'
        intro x y hx hy hxy p hp q hq hpq
        simp only [List.map_map, List.mem_map, Function.comp] at hp hq
        obtain ⟨pv, _, rfl⟩ := hp
        obtain ⟨qv, _, rfl⟩ := hq
        apply hxy
        have h1 := head?_append_of_ne_nil (b := pv.1) (hbr x hx).1
        have h2 := head?_append_of_ne_nil (b := qv.1) (hbr y hy).1
        simp only [headOf]
        rw [← h1, ← h2, hpq]
    · intro a ha b hb
      simp only [List.mem_map, List.mem_flatMap] at hb
      obtain ⟨pv, ⟨kv, hkv, pv', _, rfl⟩, rfl⟩ := hb
      have hk0 := (hbr kv hkv).1
      cases val with
      | none => simp at ha
      | some v =>
        simp only [List.map_cons, List.map_nil, List.mem_singleton] at ha
        subst ha
        intro he
        exact hk0 (List.append_eq_nil_iff.1 he.symm).1


/-! ### `toJSON` for prefix-free paths -/

theorem flatMap_congr' {α β : Type} {f g : α → List β} : ∀ {l : List α}, (∀ a ∈ l, f a = g a) →
    l.flatMap f = l.flatMap g
  | [], _ => rfl
  | a :: l, h => by
    simp only [List.flatMap_cons]
    rw [h a (by simp), flatMap_congr' (fun x hx => h x (by simp [hx]))]

mutual
/-- like `flatten`, but keeping the keys along the branch apart -/
def flattenK : Tree V → List (List Key × List V)
  | .node br val => (match val with | some v => [([], v)] | none => []) ++ flattenKBr br
def flattenKBr : List (Key × Tree V) → List (List Key × List V)
  | [] => []
  | (k, v) :: rest => (flattenK v).map (fun kv => (k :: kv.1, kv.2)) ++ flattenKBr rest
end

theorem flattenKBr_eq (br : List (Key × Tree V)) :
    flattenKBr br = br.flatMap (fun kv => (flattenK kv.2).map (fun ksv => (kv.1 :: ksv.1, ksv.2))) := by
  induction br with
  | nil => simp [flattenKBr]
  | cons kv rest ih => obtain ⟨k, v⟩ := kv; simp [flattenKBr, ih]

theorem flattenK_node (br : List (Key × Tree V)) (val : Option (List V)) :
    flattenK (.node br val) = (match val with | some v => [([], v)] | none => []) ++
      br.flatMap (fun kv => (flattenK kv.2).map (fun ksv => (kv.1 :: ksv.1, ksv.2))) := by
  cases val <;> simp [flattenK, flattenKBr_eq]

theorem flatten_eq_flattenK (t : Tree V) :
    flatten t = (flattenK t).map (fun ksv => (ksv.1.flatten, ksv.2)) := by
  induction t using Tree.induction with
  | h br val ih =>
    rw [flatten_node, flattenK_node, List.map_append, List.map_flatMap]
    congr 1
    · cases val <;> simp
    · apply flatMap_congr'
      intro kv hkv
      rw [ih kv hkv]
      simp [List.map_map, Function.comp]

theorem flattenK_keys_ne_nil (t : Tree V) : Inv t → ∀ ksv ∈ flattenK t, ∀ k ∈ ksv.1, k ≠ [] := by
  induction t using Tree.induction with
  | h br val ih =>
    intro hinv ksv hksv k hk
    rw [Inv_node] at hinv
    rw [flattenK_node] at hksv
    simp only [List.mem_append, List.mem_flatMap, List.mem_map] at hksv
    cases hksv with
    | inl h => cases val <;> simp_all
    | inr h =>
      obtain ⟨kv, hkv, ksv', hm, rfl⟩ := h
      simp only [List.mem_cons] at hk
      cases hk with
      | inl h => subst h; exact (hinv.2 kv hkv).1
      | inr h => exact ih kv hkv (hinv.2 kv hkv).2 ksv' hm k h

/-! ### `"/".join` -/

theorem joinSlash_cons_cons (p q : Part) (r : List Part) :
    joinSlash (p :: q :: r) = p ++ 47 :: joinSlash (q :: r) := by simp [joinSlash]

theorem joinSlash_append : ∀ {a b : List Part}, a ≠ [] → b ≠ [] →
    joinSlash (a ++ b) = joinSlash a ++ 47 :: joinSlash b
  | [], _, ha, _ => by cases ha rfl
  | [p], b, _, hb => by
    cases b with
    | nil => cases hb rfl
    | cons q r => simp [joinSlash]
  | p :: q :: r, b, _, hb => by
    have := joinSlash_append (a := q :: r) (b := b) (by simp) hb
    simp only [List.cons_append] at this ⊢
    rw [joinSlash_cons_cons, this, joinSlash_cons_cons]
    simp

/-- joining the joined keys is joining the whole path -/
theorem joinSlash_map_joinSlash : ∀ (ks : List Key), (∀ k ∈ ks, k ≠ []) →
    joinSlash (ks.map joinSlash) = joinSlash ks.flatten
  | [], _ => by simp [joinSlash]
  | [k], _ => by simp [joinSlash]
  | k :: k2 :: rest, h => by
    have ih := joinSlash_map_joinSlash (k2 :: rest) (fun x hx => h x (by simp [hx]))
    have hk : k ≠ [] := h k (by simp)
    have hk2 : k2 ≠ [] := h k2 (by simp)
    simp only [List.map_cons] at ih ⊢
    rw [joinSlash_cons_cons, ih]
    simp only [List.flatten_cons]
    rw [joinSlash_append hk (by simp [hk2])]

theorem takeWhile_append_sep (p rest : List Nat) (hp : 47 ∉ p) :
    (p ++ 47 :: rest).takeWhile (· != 47) = p := by
  induction p with
  | nil => simp
  | cons a as ih =>
    simp only [List.mem_cons, not_or] at hp
    have : (a != 47) = true := by simpa using fun h => hp.1 h.symm
    simp [this, ih hp.2]

theorem takeWhile_no_sep (p : List Nat) (hp : 47 ∉ p) : p.takeWhile (· != 47) = p := by
  induction p with
  | nil => simp
  | cons a as ih =>
    simp only [List.mem_cons, not_or] at hp
    have : (a != 47) = true := by simpa using fun h => hp.1 h.symm
    simp [this, ih hp.2]

/-- the first segment can be read off the joined key -/
theorem headOf_eq_of_joinSlash {k : Key} (hk : k ≠ []) (hns : ∀ s ∈ k, 47 ∉ s) :
    headOf k = some ((joinSlash k).takeWhile (· != 47)) := by
  cases k with
  | nil => cases hk rfl
  | cons p r =>
    have hp : 47 ∉ p := hns p (by simp)
    cases r with
    | nil => simp [headOf, joinSlash, takeWhile_no_sep p hp]
    | cons q r => simp [headOf, joinSlash_cons_cons, takeWhile_append_sep p _ hp]

/-! ### `toJSON` -/

theorem toJSONBr_eq : ∀ (br : List (Key × Tree V)) (acc : List (Text × J V)),
    (acc.map (·.1) ++ br.map (fun kv => joinSlash kv.1)).Nodup →
    toJSONBr br acc = acc ++ br.map (fun kv => (joinSlash kv.1, toJSON kv.2))
  | [], acc, _ => by simp [toJSONBr]
  | (k, v) :: rest, acc, h => by
    simp only [toJSONBr]
    have hnot : acc.any (fun e => e.1 == joinSlash k) = false := by
      simp only [List.any_eq_false, beq_iff_eq]
      intro e he heq
      rw [List.nodup_append] at h
      exact h.2.2 e.1 (List.mem_map.2 ⟨e, he, rfl⟩) (joinSlash k) (by simp) heq
    have hd : dset acc (joinSlash k) (toJSON v) = acc ++ [(joinSlash k, toJSON v)] := by simp [dset, hnot]
    rw [hd, toJSONBr_eq rest]
    · simp
    · simp only [List.map_append, List.map_cons, List.map_nil, List.append_assoc, List.singleton_append]
      simpa using h

theorem leavesL_eq (es : List (Text × J V)) :
    J.leaves.leavesL es = es.flatMap (fun kj => (J.leaves kj.2).map (fun kv => (kj.1 :: kv.1, kv.2))) := by
  induction es with
  | nil => simp [J.leaves.leavesL]
  | cons e rest ih => obtain ⟨k, j⟩ := e; simp [J.leaves.leavesL, ih]

/-- no path of the list is a proper prefix of another -/
def PrefixFree (l : List (List Part)) : Prop := ∀ a ∈ l, ∀ b ∈ l, a <+: b → a = b

theorem joined_nodup {br : List (Key × Tree V)} (hnd : (br.map (fun kv => headOf kv.1)).Nodup)
    (hk : ∀ kv ∈ br, kv.1 ≠ []) (hns : ∀ kv ∈ br, ∀ s ∈ kv.1, 47 ∉ s) :
    (br.map (fun kv => joinSlash kv.1)).Nodup := by
  unfold List.Nodup at hnd ⊢
  rw [List.pairwise_map] at hnd ⊢
  apply List.Pairwise.imp_of_mem _ hnd
  intro a b ha hb hab hj
  apply hab
  rw [headOf_eq_of_joinSlash (hk a ha) (hns a ha), headOf_eq_of_joinSlash (hk b hb) (hns b hb), hj]

/-- for prefix-free paths `toJSON` shows every stored list, under the joined keys of its branch -/
theorem toJSON_leaves (t : Tree V) : Inv t → NoSlash t → PrefixFree ((flatten t).map (·.1)) →
    (toJSON t).leaves = (flattenK t).map (fun ksv => (ksv.1.map joinSlash, ksv.2)) := by
  induction t using Tree.induction with
  | h br val ih =>
    intro hinv hns hpf
    rw [Inv_node] at hinv
    rw [NoSlash_node] at hns
    cases val with
    | some v =>
      -- every other path would have the empty path as a proper prefix
      have hfl : flatten (.node br (some v)) = [([], v)] := by
        rw [flatten_node]
        have : br.flatMap (fun kv => (flatten kv.2).map (fun pv => (kv.1 ++ pv.1, pv.2))) = [] := by
          cases hf : br.flatMap (fun kv => (flatten kv.2).map (fun pv => (kv.1 ++ pv.1, pv.2))) with
          | nil => rfl
          | cons x xs =>
            exfalso
            have hx : x ∈ br.flatMap (fun kv => (flatten kv.2).map (fun pv => (kv.1 ++ pv.1, pv.2))) := by
              rw [hf]; simp
            have hmem : x.1 ∈ (flatten (.node br (some v))).map (·.1) := by
              rw [flatten_node]; simp only [List.map_append, List.mem_append]; right
              exact List.mem_map.2 ⟨x, hx, rfl⟩
            have h0 : ([] : List Part) ∈ (flatten (.node br (some v))).map (·.1) := by
              rw [flatten_node]; simp
            have := hpf [] h0 x.1 hmem (List.nil_prefix)
            simp only [List.mem_flatMap, List.mem_map] at hx
            obtain ⟨kv, hkv, pv, _, rfl⟩ := hx
            exact (hinv.2 kv hkv).1 (List.append_eq_nil_iff.1 this.symm).1
        rw [this]; simp
      have hlen : (flattenK (.node br (some v))).length = 1 := by
        have := congrArg List.length (flatten_eq_flattenK (.node br (some v)))
        rw [hfl] at this; simpa using this.symm
      rw [flattenK_node] at hlen ⊢
      simp only [List.length_append, List.length_cons, List.length_nil] at hlen
      have : br.flatMap (fun kv => (flattenK kv.2).map (fun ksv => (kv.1 :: ksv.1, ksv.2))) = [] := by
        apply List.eq_nil_of_length_eq_zero; omega
      rw [this]
      simp [toJSON, J.leaves]
    | none =>
      have hj := joined_nodup hinv.1 (fun kv h => (hinv.2 kv h).1) (fun kv h => (hns kv h).1)
      have e := toJSONBr_eq br ([] : List (Text × J V)) (by simpa using hj)
      rw [flattenK_node]
      simp only [toJSON, J.leaves, e, List.nil_append, leavesL_eq, List.flatMap_map, List.map_flatMap]
      apply flatMap_congr'
      intro kv hkv
      have hpf' : PrefixFree ((flatten kv.2).map (·.1)) := by
        intro a ha b hb hab
        have hfa : kv.1 ++ a ∈ (flatten (.node br none)).map (·.1) := by
          rw [flatten_node]
          simp only [List.nil_append, List.mem_map, List.mem_flatMap]
          obtain ⟨pv, hpv, rfl⟩ := List.mem_map.1 ha
          exact ⟨(kv.1 ++ pv.1, pv.2), ⟨kv, hkv, pv, hpv, rfl⟩, rfl⟩
        have hfb : kv.1 ++ b ∈ (flatten (.node br none)).map (·.1) := by
          rw [flatten_node]
          simp only [List.nil_append, List.mem_map, List.mem_flatMap]
          obtain ⟨pv, hpv, rfl⟩ := List.mem_map.1 hb
          exact ⟨(kv.1 ++ pv.1, pv.2), ⟨kv, hkv, pv, hpv, rfl⟩, rfl⟩
        have := hpf _ hfa _ hfb ((List.prefix_append_right_inj kv.1).2 hab)
        exact List.append_cancel_left this
      rw [ih kv hkv (hinv.2 kv hkv).2 (hns kv hkv).2 hpf']
      simp [List.map_map, Function.comp]


end TreeM

/-
C13, TOML route: a small world of two configuration dictionaries (as `toml.load` returns them) for the non-vacuity examples
and negation witnesses of Props/C13.lean.

`/r/l10n.toml`:  locales = ["de"];  [env] v = "file", l = "{l10n_base}/{locale}/";
                 [[paths]] l10n = "{l}m/*.ftl", reference = "ref/m/*.ftl", test = ["android-dtd"];
                 [[filters]] path = ["{l}m/a.ftl"], key = "k.1", action = "ignore";
                 [[includes]] path = "cfg/a.toml";  [[excludes]] path = "cfg/gone.toml"   (no such file)
`/r/cfg/a.toml`: basepath = "..";  [env] v = "child", w = "kept";
                 [[paths]] l10n = "{l10n_base}/{locale}/c/{v}.ftl", locales = ["fr"]
command line:    l10n_base = "/l", v = "cmd"
-/
import CLModel.Paths.TomlConfig
namespace C13T
open TC PF

def s (x : String) : TV := .str (T x)

def exTop : TV := .tbl [
  (T "locales", .arr [s "de"]),
  (T "env", .tbl [(T "v", s "file"), (T "l", s "{l10n_base}/{locale}/")]),
  (T "paths", .arr [.tbl [(T "l10n", s "{l}m/*.ftl"), (T "reference", s "ref/m/*.ftl"), (T "test", .arr [s "android-dtd"])]]),
  (T "filters", .arr [.tbl [(T "path", .arr [s "{l}m/a.ftl"]), (T "key", s "k.1"), (T "action", s "ignore")]]),
  (T "includes", .arr [.tbl [(T "path", s "cfg/a.toml")]]),
  (T "excludes", .arr [.tbl [(T "path", s "cfg/gone.toml")]])]

def exChild : TV := .tbl [
  (T "basepath", s ".."),
  (T "env", .tbl [(T "v", s "child"), (T "w", s "kept")]),
  (T "paths", .arr [.tbl [(T "l10n", s "{l10n_base}/{locale}/c/{v}.ftl"), (T "locales", .arr [s "fr"])]])]

def exWorld : World := { files := [(T "/r/l10n.toml", exTop), (T "/r/cfg/a.toml", exChild)], cwd := T "/" }

def exEnv : Env := [(T "l10n_base", T "/l"), (T "v", T "cmd")]

/-- `TOMLParser().parse("/r/l10n.toml", env, ignore_missing_includes=True)` -/
def exParsed : Except TC.Err PC := parse exWorld exEnv true (T "/r/l10n.toml")

def okOf {ε α β} (r : Except ε α) (f : α → β) : Option β :=
  match r with
  | .ok a => some (f a)
  | .error _ => none

def errOf {ε α} (r : Except ε α) : Option ε :=
  match r with
  | .ok _ => none
  | .error e => some e

/-- a file whose `locales` is a string -/
def illWorld : World := { files := [(T "/r/l10n.toml", .tbl [(T "locales", s "de")])], cwd := T "/" }

/-- a file that includes itself -/
def selfWorld : World :=
  { files := [(T "/r/l10n.toml", .tbl [(T "includes", .arr [.tbl [(T "path", s "./l10n.toml")]])])], cwd := T "/" }

end C13T

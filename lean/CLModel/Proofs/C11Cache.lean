/- `Matcher._cached_re` as explicit state: the cache, when filled, is the regex of the CURRENT (pattern, env, root);
   every way of deriving a matcher starts with an empty cache; hence the stateful model and the stateless one
   (`Matcher.match`, which recompiles every time) report the same. -/
import CLModel.Paths.MatcherX
namespace C11C
open Rx PM

/-- the cache, when filled, holds what `_cache_regex` would compute now -/
def CacheOK (c : CMatcher) : Prop := ∀ rn, c.cache = some rn → c.m.regexOf = .ok rn

theorem match_eq_matchWith (m : Matcher) (path : Text) :
    m.match path = (m.regexOf).bind (fun rn => matchWith rn path) := by
  unfold Matcher.match matchWith
  cases m.regexOf with
  | error e => rfl
  | ok rn => obtain ⟨re, names⟩ := rn; rfl

/-- a freshly constructed matcher has nothing cached -/
theorem cacheOK_mk (m : Matcher) : CacheOK (CMatcher.mk' m) := by
  intro rn h; cases h

theorem cacheRegex_spec {c c' : CMatcher} {rn} (hc : CacheOK c) (h : c.cacheRegex = .ok (c', rn)) :
    c'.m = c.m ∧ c.m.regexOf = .ok rn ∧ c'.cache = some rn := by
  unfold CMatcher.cacheRegex at h
  cases hcache : c.cache with
  | some r =>
    simp only [hcache, pure, Except.pure, Except.ok.injEq, Prod.mk.injEq] at h
    obtain ⟨rfl, rfl⟩ := h
    exact ⟨rfl, hc _ hcache, hcache⟩
  | none =>
    simp only [hcache, bind, Except.bind] at h
    cases hr : c.m.regexOf with
    | error e => simp [hr] at h
    | ok r =>
      simp only [hr, pure, Except.pure, Except.ok.injEq, Prod.mk.injEq] at h
      obtain ⟨rfl, rfl⟩ := h
      exact ⟨rfl, rfl, rfl⟩

/-- **`match` on the object = `match` of the stateless model**, and the object stays consistent (same pattern, env, root;
    cache still the regex of exactly those) -/
theorem match_refines {c : CMatcher} (hc : CacheOK c) (path : Text) :
    (c.match path).1 = c.m.match path ∧ (c.match path).2.m = c.m ∧ CacheOK (c.match path).2 := by
  unfold CMatcher.match
  cases h : c.cacheRegex with
  | error e =>
    refine ⟨?_, rfl, hc⟩
    show Except.error e = c.m.match path
    -- the only way `_cache_regex` fails is that compiling fails
    unfold CMatcher.cacheRegex at h
    cases hcache : c.cache with
    | some r => simp [hcache, pure, Except.pure] at h
    | none =>
      simp only [hcache, bind, Except.bind] at h
      cases hr : c.m.regexOf with
      | error e' =>
        simp only [hr] at h
        cases h
        rw [match_eq_matchWith, hr]; rfl
      | ok r => simp [hr, pure, Except.pure] at h
  | ok p =>
    obtain ⟨c', rn⟩ := p
    obtain ⟨h1, h2, h3⟩ := cacheRegex_spec hc h
    simp only
    refine ⟨?_, h1, ?_⟩
    · rw [match_eq_matchWith, h2]; rfl
    · intro r hr
      rw [h3] at hr
      cases hr
      rw [h1]; exact h2

/-- the same for `sub` -/
theorem sub_refines {c : CMatcher} (hc : CacheOK c) (other : CMatcher) (path : Text) :
    (c.sub other path).1 = c.m.sub other.m path ∧ (c.sub other path).2.m = c.m ∧ CacheOK (c.sub other path).2 := by
  obtain ⟨h1, h2, h3⟩ := match_refines hc path
  unfold CMatcher.sub Matcher.sub
  cases hm : c.match path with
  | mk r c' =>
    rw [hm] at h1 h2 h3
    simp only at h1 h2 h3
    rw [← h1]
    cases r with
    | error e => exact ⟨rfl, h2, h3⟩
    | ok o =>
      cases o with
      | none => exact ⟨rfl, h2, h3⟩
      | some d =>
        refine ⟨?_, h2, h3⟩
        simp only [bind, Except.bind]
        cases expandTop other.m.pattern (subEnv d other.m.env) <;> rfl

/-- **derived matchers never inherit the cache**: `with_env`, `Matcher(m, env, root)` and `concat` return an object
    with an empty cache, whatever the source had cached; the source is not changed by deriving -/
theorem derived_cache_empty {c d : CMatcher} :
    (∀ env root, c.rebuild env root = .ok d → d.cache = none ∧ c.m.rebuild env root = .ok d.m) ∧
    (∀ o, c.concat o = .ok d → d.cache = none ∧ c.m.concat o = .ok d.m) := by
  refine ⟨?_, ?_⟩
  · intro env root h
    unfold CMatcher.rebuild at h
    simp only [bind, Except.bind] at h
    cases hm : c.m.rebuild env root with
    | error e => simp [hm] at h
    | ok m =>
      simp only [hm, pure, Except.pure, Except.ok.injEq] at h
      subst h
      exact ⟨rfl, rfl⟩
  · intro o h
    unfold CMatcher.concat at h
    simp only [bind, Except.bind] at h
    cases hm : c.m.concat o with
    | error e => simp [hm] at h
    | ok m =>
      simp only [hm, pure, Except.pure, Except.ok.injEq] at h
      subst h
      exact ⟨rfl, rfl⟩

/-- hence every derived matcher is consistent, and behaves like a matcher built afresh from its pattern, env, root -/
theorem derived_cacheOK {c d : CMatcher} :
    (∀ env root, c.rebuild env root = .ok d → CacheOK d) ∧ (∀ o, c.concat o = .ok d → CacheOK d) := by
  refine ⟨fun env root h => ?_, fun o h => ?_⟩
  · intro rn hr; rw [(derived_cache_empty.1 env root h).1] at hr; cases hr
  · intro rn hr; rw [(derived_cache_empty.2 o h).1] at hr; cases hr

end C11C

/- A relational (big-step) semantics of the regex AST that over-approximates the backtracking
   matcher: every state handed to the final continuation of a successful match is related to
   the start state.  Used to read off facts about capture groups. -/
import CLModel.Rx.Basic
import CLModel.Proofs.RxLemmas
import CLModel.Proofs.RxStar
namespace Rx

inductive Sem (s : Array Nat) : Re → St → St → Prop
  | eps (st : St) : Sem s .eps st st
  | lit (c : Nat) (st : St) : s[st.pos]? = some c → Sem s (.lit c) st { st with pos := st.pos + 1 }
  | notLit (c d : Nat) (st : St) : s[st.pos]? = some d → Sem s (.notLit c) st { st with pos := st.pos + 1 }
  | any (da : Bool) (d : Nat) (st : St) : s[st.pos]? = some d → Sem s (.any da) st { st with pos := st.pos + 1 }
  | cls (neg : Bool) (items : List ClsItem) (c : Nat) (st : St) :
      s[st.pos]? = some c → inC neg items c = true → Sem s (.cls neg items) st { st with pos := st.pos + 1 }
  | seq {a b : Re} {st st1 st2 : St} : Sem s a st st1 → Sem s b st1 st2 → Sem s (.seq a b) st st2
  | altL {a b : Re} {st st1 : St} : Sem s a st st1 → Sem s (.alt a b) st st1
  | altR {a b : Re} {st st1 : St} : Sem s b st st1 → Sem s (.alt a b) st st1
  | group {i : Nat} {r : Re} {st st1 : St} :
      Sem s r st st1 → Sem s (.group i r) st { st1 with caps := (i, st.pos, st1.pos) :: st1.caps }
  | repNil (mx : Option Nat) (g : Bool) (r : Re) (st : St) : Sem s (.rep 0 mx g r) st st
  | repCons {mn : Nat} {mx : Option Nat} {g : Bool} {r : Re} {st st1 st2 : St} :
      Sem s r st st1 → Sem s (.rep (mn - 1) (mx.map (· - 1)) g r) st1 st2 → Sem s (.rep mn mx g r) st st2
  | backref (i n : Nat) (st : St) : Sem s (.backref i) st { st with pos := st.pos + n }
  | bol (ml : Bool) (st : St) : Sem s (.bol ml) st st
  | eol (ml : Bool) (st : St) : Sem s (.eol ml) st st
  | eos (st : St) : Sem s .eos st st
  | lookPos {r : Re} {st st1 : St} : Sem s r st st1 → Sem s (.look true false r) st { st with caps := st1.caps }
  | lookSame (ah ng : Bool) (r : Re) (st : St) : Sem s (.look ah ng r) st st

def Sound (s : Array Nat) (r : Re) (f : St → K → Option St) : Prop :=
  ∀ st k res, f st k = some res → ∃ st', Sem s r st st' ∧ k st' = some res

theorem loop_sound (s : Array Nat) (r : Re) (g : Bool) (hb : Sound s r (m s r)) :
    ∀ fuel mn mx, Sound s (.rep mn mx g r) (fun st k => loop (m s r) g fuel mn mx st k) := by
  intro fuel
  induction fuel with
  | zero => intro mn mx st k res h; simp [loop] at h
  | succ fuel ih =>
    intro mn mx st k res h
    simp only [loop] at h
    generalize hmdef : (if mx == some 0 then none else
          m s r st (fun st' => if st'.pos ≤ st.pos then none else
            loop (m s r) g fuel (mn - 1) (mx.map (· - 1)) st' k)) = more at h
    have hmore : ∀ res, more = some res → ∃ st', Sem s (.rep mn mx g r) st st' ∧ k st' = some res := by
      intro res hm
      rw [← hmdef] at hm
      split at hm
      · cases hm
      · obtain ⟨st1, h1, h3⟩ := hb _ _ _ hm
        split at h3
        · cases h3
        · obtain ⟨st2, h4, h6⟩ := ih (mn - 1) (mx.map (· - 1)) st1 k res h3
          exact ⟨st2, Sem.repCons h1 h4, h6⟩
    split at h
    · exact hmore _ h
    · have hz : mn = 0 := by omega
      subst hz
      split at h
      · rcases orElse_some h with h' | ⟨_, h'⟩
        · exact hmore _ h'
        · exact ⟨st, Sem.repNil _ _ _ _, h'⟩
      · rcases orElse_some h with h' | ⟨_, h'⟩
        · exact ⟨st, Sem.repNil _ _ _ _, h'⟩
        · exact hmore _ h'

/-- the matcher only succeeds along derivations of the relational semantics -/
theorem m_sound (s : Array Nat) : ∀ r, Sound s r (m s r) := by
  intro r
  induction r with
  | eps => intro st k res h; exact ⟨st, Sem.eps st, by simpa [m] using h⟩
  | lit c =>
    intro st k res h
    simp only [m] at h
    split at h
    · rename_i hc
      exact ⟨_, Sem.lit c st (by simpa using hc), h⟩
    · cases h
  | notLit c =>
    intro st k res h
    simp only [m] at h
    split at h
    · rename_i d hd
      split at h
      · exact ⟨_, Sem.notLit c d st hd, h⟩
      · cases h
    · cases h
  | any da =>
    intro st k res h
    simp only [m] at h
    split at h
    · rename_i d hd
      split at h
      · exact ⟨_, Sem.any da d st hd, h⟩
      · cases h
    · cases h
  | cls neg items =>
    intro st k res h
    rw [m_cls_apply] at h
    split at h
    · rename_i c hc
      split at h
      · rename_i hin
        exact ⟨_, Sem.cls neg items c st hc hin, h⟩
      · cases h
    · cases h
  | seq a b iha ihb =>
    intro st k res h
    simp only [m] at h
    obtain ⟨st1, h1, h3⟩ := iha _ _ _ h
    obtain ⟨st2, h4, h6⟩ := ihb _ _ _ h3
    exact ⟨st2, Sem.seq h1 h4, h6⟩
  | alt a b iha ihb =>
    intro st k res h
    simp only [m] at h
    rcases orElse_some h with h' | ⟨_, h'⟩
    · obtain ⟨st1, h1, h3⟩ := iha _ _ _ h'
      exact ⟨st1, Sem.altL h1, h3⟩
    · obtain ⟨st1, h1, h3⟩ := ihb _ _ _ h'
      exact ⟨st1, Sem.altR h1, h3⟩
  | group i r ih =>
    intro st k res h
    simp only [m] at h
    obtain ⟨st1, h1, h3⟩ := ih _ _ _ h
    exact ⟨_, Sem.group h1, h3⟩
  | backref i =>
    intro st k res h
    simp only [m] at h
    split at h
    · rename_i a b _
      split at h
      · exact ⟨_, Sem.backref i (b - a) st, h⟩
      · cases h
    · cases h
  | bol ml => intro st k res h; simp only [m] at h; split at h
              · exact ⟨st, Sem.bol ml st, h⟩
              · cases h
  | eol ml => intro st k res h; simp only [m] at h; split at h
              · exact ⟨st, Sem.eol ml st, h⟩
              · cases h
  | eos => intro st k res h; simp only [m] at h; split at h
           · exact ⟨st, Sem.eos st, h⟩
           · cases h
  | look ahead neg r ih =>
    intro st k res h
    cases ahead with
    | true =>
      simp only [m] at h
      split at h
      · rename_i st' hm
        split at h
        · cases h
        · rename_i hneg
          have hneg' : neg = false := by simpa using hneg
          subst hneg'
          obtain ⟨st1, h1, h3⟩ := ih _ _ _ hm
          cases h3
          exact ⟨_, Sem.lookPos h1, h⟩
      · split at h
        · exact ⟨st, Sem.lookSame _ _ _ st, h⟩
        · cases h
    | false =>
      simp only [m] at h
      split at h
      · split at h
        · cases h
        · exact ⟨st, Sem.lookSame _ _ _ st, h⟩
      · split at h
        · exact ⟨st, Sem.lookSame _ _ _ st, h⟩
        · cases h
  | rep mn mx g r ih =>
    intro st k res h
    simp only [m] at h
    exact loop_sound s r g ih (s.size + 2 - st.pos) mn mx st k res h

/-- every match reported by `finditer` is the end state of a derivation started at its offset
    with no captures -/
theorem finditerAux_sem (s : Array Nat) (r : Re) :
    ∀ fuel pos ma, ∀ x ∈ finditerAux s r fuel pos ma, Sem s r ⟨x.1, []⟩ x.2 := by
  intro fuel
  induction fuel with
  | zero => intro pos ma x hx; simp [finditerAux] at hx
  | succ fuel ih =>
    intro pos ma x hx
    simp only [finditerAux] at hx
    split at hx
    · simp at hx
    · split at hx
      · rename_i st hhere
        rcases List.mem_cons.mp hx with rfl | hx
        · simp only
          split at hhere
          · unfold matchAtNE at hhere
            obtain ⟨st', h1, h2⟩ := m_sound s r _ _ _ hhere
            split at h2
            · cases h2
            · cases h2; exact h1
          · unfold matchAt at hhere
            obtain ⟨st', h1, h2⟩ := m_sound s r _ _ _ hhere
            cases h2; exact h1
        · exact ih _ _ x hx
      · split at hx
        · rename_i q st hsearch
          rcases List.mem_cons.mp hx with rfl | hx
          · simp only
            have := (search_spec hsearch).2.2.1
            unfold matchAt at this
            obtain ⟨st', h1, h2⟩ := m_sound s r _ _ _ this
            cases h2; exact h1
          · exact ih _ _ x hx
        · simp at hx

theorem finditer_sem (s : Array Nat) (r : Re) : ∀ x ∈ finditer s r, Sem s r ⟨x.1, []⟩ x.2 :=
  finditerAux_sem s r _ _ _

/-! ### captures -/

theorem capOf_cons (i a b : Nat) (caps : List (Nat × Nat × Nat)) (j : Nat) :
    capOf ((i, a, b) :: caps) j = if i = j then some (a, b) else capOf caps j := by
  by_cases h : i = j
  · subst h; simp [capOf]
  · have : (i == j) = false := by simp [h]
    simp [capOf, List.find?_cons, this, h]

/-- group indices occurring in a regex -/
def groupsOf : Re → List Nat
  | .seq a b => groupsOf a ++ groupsOf b
  | .alt a b => groupsOf a ++ groupsOf b
  | .rep _ _ _ r => groupsOf r
  | .group i r => i :: groupsOf r
  | .look _ _ r => groupsOf r
  | _ => []

/-- groups that do not occur in the regex keep their capture -/
theorem sem_capOf_other {s : Array Nat} {r : Re} {st st' : St} (h : Sem s r st st') :
    ∀ j, j ∉ groupsOf r → capOf st'.caps j = capOf st.caps j := by
  induction h with
  | eps => intros; rfl
  | lit => intros; rfl
  | notLit => intros; rfl
  | any => intros; rfl
  | cls => intros; rfl
  | seq _ _ ih1 ih2 =>
    intro j hj
    simp only [groupsOf, List.mem_append, not_or] at hj
    rw [ih2 j hj.2, ih1 j hj.1]
  | altL _ ih => intro j hj; simp only [groupsOf, List.mem_append, not_or] at hj; exact ih j hj.1
  | altR _ ih => intro j hj; simp only [groupsOf, List.mem_append, not_or] at hj; exact ih j hj.2
  | group _ ih =>
    intro j hj
    simp only [groupsOf, List.mem_cons, not_or] at hj
    rw [capOf_cons]
    have : ¬ _ = j := fun h => hj.1 h.symm
    simp only [this, if_false]
    exact ih j hj.2
  | repNil => intros; rfl
  | repCons _ _ ih1 ih2 =>
    intro j hj
    simp only [groupsOf] at hj ih2
    rw [ih2 j hj, ih1 j hj]
  | backref => intros; rfl
  | bol => intros; rfl
  | eol => intros; rfl
  | eos => intros; rfl
  | lookPos _ ih => intro j hj; simp only [groupsOf] at hj; exact ih j hj
  | lookSame => intros; rfl

/-- a repetition of a single character class: captures untouched, at least `mn` characters,
    all of the class -/
theorem sem_rep_cls {s : Array Nat} {neg : Bool} {items : List ClsItem} {r : Re} {st st' : St}
    (h : Sem s r st st') :
    ∀ mn mx g, r = .rep mn mx g (.cls neg items) →
      st'.caps = st.caps ∧ st.pos + mn ≤ st'.pos ∧
      ∀ p, st.pos ≤ p → p < st'.pos → ∃ c, s[p]? = some c ∧ inC neg items c = true := by
  induction h with
  | repNil mx g r st =>
    intro mn mx' g' hr
    cases hr
    exact ⟨rfl, by simp, by intro p h1 h2; omega⟩
  | @repCons mn0 mx0 g0 r0 st0 st1 st2 h1 _ _ ih2 =>
    intro mn' mx' g' hr
    cases hr
    cases h1 with
    | cls _ _ c _ hc hin =>
      obtain ⟨i1, i2, i3⟩ := ih2 _ _ _ rfl
      simp only at i1 i2 i3
      refine ⟨i1, by omega, ?_⟩
      intro p hp1 hp2
      by_cases hpe : p = st0.pos
      · exact ⟨c, by rw [hpe]; exact hc, hin⟩
      · exact i3 p (by omega) hp2
  | _ => intro mn mx g hr; cases hr

end Rx

/- Expansion of a fully bound, android-free value does not depend on anything the environment binds in
   addition (the captures `sub` adds below the other matcher's environment), nor on `raise_missing`, nor on
   the nesting bound. -/
import CLModel.Proofs.C11Sound
import CLModel.Proofs.C12Term
namespace C11R
open Rx PM

/-- `env'` binds everything `env` binds, to the same values -/
def Ext (env env' : Env) : Prop := ∀ k v, env.lookup k = some v → env'.lookup k = some v

theorem lookup_derase_ne {β} (k k' : Text) (hne : (k' == k) = false) : ∀ (l : List (Text × β)),
    (derase l k).lookup k' = l.lookup k'
  | [] => by simp [derase]
  | (a, b) :: l => by
    have ih := lookup_derase_ne k k' hne l
    cases ha : (a == k) with
    | true =>
      have e : a = k := by simpa using ha
      subst e
      have hf : derase ((a, b) :: l) a = derase l a := by simp [derase]
      rw [hf, ih]
      simp only [List.lookup_cons, hne]
    | false =>
      have hf : derase ((a, b) :: l) k = (a, b) :: derase l k := by simp [derase, ha]
      rw [hf]
      simp only [List.lookup_cons, ih]

theorem Ext.derase {env env' : Env} (h : Ext env env') (k : Text) : Ext (derase env k) (derase env' k) := by
  intro k' v hl
  cases hk : (k' == k) with
  | true =>
    have : k' = k := by simpa using hk
    subst this
    rw [lookup_derase_self] at hl
    cases hl
  | false =>
    rw [lookup_derase_ne k k' hk] at hl ⊢
    exact h k' v hl

/-- values whose expansion we transport: plain texts, or unrooted patterns without `{android_locale}` -/
def GoodVal : Val → Prop
  | .str _ => True
  | .pat p => p.root = none ∧ NoAndroid p

def GoodEnv (env : Env) : Prop := ∀ k v, (k, v) ∈ env → GoodVal v

theorem GoodEnv.derase {env : Env} (h : GoodEnv env) (k : Text) : GoodEnv (derase env k) :=
  fun k' v hm => h k' v (List.mem_filter.mp hm).1

theorem GoodEnv.lookup {env : Env} (h : GoodEnv env) {k : Text} {v : Val} (hl : env.lookup k = some v) : GoodVal v :=
  h k v (lookup_mem hl)

theorem expandVal_ext : ∀ (f : Nat) (v : Val) (env env' : Env) (t : Text) (rm' : Bool),
    Ext env env' → GoodEnv env → GoodVal v → expandVal f v env true = .ok t → expandVal f v env' rm' = .ok t
  | 0, v, env, env', t, rm', _, _, _, h => by
    cases v with
    | str s => simpa [expandVal] using h
    | pat p => simp [expandVal] at h
  | f + 1, v, env, env', t, rm', hext, hgood, hv, h => by
    cases v with
    | str s => simpa [expandVal] using h
    | pat p =>
      obtain ⟨hroot, hna⟩ := hv
      simp only [expandVal, expandPat, rootOf_none hroot, bind, Except.bind] at h ⊢
      have hch : ∀ (ns : List Node) (t : Text), (∀ n ∈ ns, ∀ r, n ≠ Node.android r) →
          expandChildren (expandVal f) ns env true = .ok t →
          expandChildren (expandVal f) ns env' rm' = .ok t := by
        intro ns
        induction ns with
        | nil => intro t _ h; simpa [expandChildren] using h
        | cons c cs ih =>
          intro t hnc h
          rcases expandChildren_cons_ok h with ⟨_, hrm, _⟩ | ⟨ta, tb, h3, h4, rfl⟩
          · cases hrm
          · have htl := ih tb (fun n hn => hnc n (by simp [hn])) h4
            have hnode : expandNode (expandVal f) c env' true = .ok ta := by
              cases c with
              | lit s => exact h3
              | var name rep =>
                simp only [expandNode] at h3 ⊢
                cases hl : env.lookup name with
                | none => simp [hl] at h3
                | some w =>
                  simp only [hl] at h3
                  simp only [hext name w hl]
                  exact expandVal_ext f w _ _ ta true (hext.derase name) (hgood.derase name) (hgood.lookup hl) h3
              | android r => exact absurd rfl (hnc _ (by simp) r)
              | star n =>
                simp only [expandNode] at h3 ⊢
                cases hl : env.lookup (sname n) with
                | none => simp [hl] at h3
                | some w => simpa [hl, hext _ w hl] using h3
              | starstar n sfx =>
                simp only [expandNode] at h3 ⊢
                cases hl : env.lookup (sname n) with
                | none => simp [hl] at h3
                | some w => simpa [hl, hext _ w hl] using h3
            simp only [expandChildren, hnode, htl, bind, Except.bind, pure, Except.pure]
      split at h
      · cases h
      · rename_i body hb
        rw [hch p.nodes body hna hb]
        exact h

/-- the nesting bound does not matter for a result that is not `RecursionError` -/
theorem expandVal_fuel {f f' : Nat} {v : Val} {env : Env} {rm : Bool} {t : Text}
    (h : expandVal f v env rm = .ok t) (hn : expandVal f' v env rm ≠ .error .recursion) :
    expandVal f' v env rm = .ok t := by
  rcases Nat.le_total f f' with hle | hle
  · exact expandVal_mono hle h (by intro hc; cases hc)
  · have := expandVal_mono hle (r := expandVal f' v env rm) rfl hn
    rw [← this]; exact h

/-- what `sub`'s environment answers (the other matcher's environment is a dict): its own binding if there is
    one, else the last captured text of that name -/
theorem subEnv_lookup' {d : GroupDict} {env : Env} (he : KeysOnce env) (k : Text) :
    (subEnv d env).lookup k = match env.lookup k with
      | some v => some v
      | none => (d.reverse.lookup k).map capsVal := by
  rw [subEnv_eq, lookup_dupdate, reverse_lookup env he]
  cases env.lookup k with
  | some v => rfl
  | none =>
    simp only
    rw [lookup_dupdate, ← List.map_reverse, lookup_map_val]
    cases d.reverse.lookup k <;> rfl

end C11R

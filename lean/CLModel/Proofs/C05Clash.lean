/-
C05 pipeline: when can the key of a `Junk` equal the key of an entry of the other file (`Pipe.NoJunkClash`)?

`Junk.key` is `"_junk_%d_%d-%d" % (junkid, span[0], span[1])`.  The counter values handed out while the reference is
parsed are in `(0, n1]`, those of the localization in `(n1, n2]`, and the format is injective, so two Junks of the two
files never share a key: a clash needs an ENTITY whose key text is exactly the key of a Junk of the other file.
Hence: (1) `clashFree` — a decidable, exact reformulation of the hypothesis on the two texts; (2) the syntactic
sufficient condition "no string id begins with `_junk_`" (`entityKeysOK`, decidable on the text alone, independent of
the external functions); (3) gettext files never clash (their keys are tuples).
Core Lean only.
-/
import CLModel.Proofs.C05Pipe
import CLModel.Proofs.C18Digits
namespace C05Clash
open Pipe

/-! ### the junk key -/

theorem digitsAux_eq : ∀ (fuel n : Nat) (acc : List Nat), Lint.digitsAux fuel n acc = Hist.digitsF fuel n ++ acc := by
  intro fuel
  induction fuel with
  | zero => intro n acc; simp [Lint.digitsAux, Hist.digitsF]
  | succ fuel ih =>
    intro n acc
    unfold Lint.digitsAux Hist.digitsF
    split
    · simp
    · rw [ih]; simp

theorem natText_eq (n : Nat) : natText n = Hist.digits n := by
  unfold natText Lint.showInt Hist.digits
  show Lint.digitsAux (n + 1) n [] = _
  rw [digitsAux_eq]; simp

/-- the generated pieces of `"_junk_%d_%d-%d"` are the ones the C18 lemmas speak about -/
theorem junkKeyText_eq (i s e : Nat) : junkKeyText i s e = Hist.junkKey i s e := by
  simp [junkKeyText, Lint.interleave, Gen.Tables.junkKeyParts, natText_eq, Hist.junkKey, Hist.junkPrefix]

theorem junkKeyText_inj {i s e i' s' e' : Nat} (h : junkKeyText i s e = junkKeyText i' s' e') : i = i' ∧ s = s' ∧ e = e' := by
  rw [junkKeyText_eq, junkKeyText_eq] at h
  exact Hist.junkKey_inj h

theorem junkKeyText_prefix (i s e : Nat) : Hist.junkPrefix.isPrefixOf (junkKeyText i s e) = true := by
  rw [junkKeyText_eq]
  simp [Hist.junkKey, Hist.junkPrefix]

/-! ### what `parse()` returns -/

/-- `_junk_` is a prefix of the key (only `str` keys can have one) -/
def junkLike : Cmp.Key → Bool
  | .str t => Hist.junkPrefix.isPrefixOf t
  | .tup _ _ => false

/-- the entries of one `parse()` that started with `Junk.junkid = n` and left it at `m`: a Junk carries a counter
    value from `(n, m]` in its key -/
def IdsIn (n m : Nat) (ents : List PEnt) : Prop :=
  ∀ e ∈ ents, e.junk = true → ∃ id, n < id ∧ id ≤ m ∧ e.key = .str (junkKeyText id e.entry.s e.entry.e)

theorem parseFile_ids (ext : Ext) (f : P.Fmt) (s : Array Nat) (n m : Nat) (ents : List PEnt)
    (h : parseFile ext f s n = .ok (ents, m)) : IdsIn n m ents := by
  unfold parseFile at h
  split at h
  · cases h
  · rename_i es hw
    simp only at h
    split at h
    · cases h
    · rename_i ents' hm
      simp only [Except.ok.injEq, Prod.mk.injEq] at h
      obtain ⟨rfl, rfl⟩ := h
      intro e he hj
      obtain ⟨hh, hmem, hmk⟩ := (mapE_mem hm).1 e he
      simp only [List.mem_filter] at hmem
      unfold mkEnt at hmk
      cases hjid : hh.jid with
      | some id =>
        simp only [hjid, Except.ok.injEq] at hmk
        subst hmk
        obtain ⟨_, hids, _⟩ := Hist.assign_ids f s 0 es n 0
        have := hids id (List.mem_filterMap.2 ⟨hh, hmem.1, hjid⟩)
        exact ⟨id, this.1, this.2, rfl⟩
      | none =>
        simp only [hjid] at hmk
        split at hmk
        · cases hmk
        · split at hmk
          · cases hmk
          · simp only [Except.ok.injEq] at hmk
            subst hmk
            cases hj

/-- **two Junks of the two files never share a key** -/
theorem junk_keys_differ {n1 n2 : Nat} {ref l10n : List PEnt} (hr : IdsIn 0 n1 ref) (hl : IdsIn n1 n2 l10n)
    (r l : PEnt) (hrm : r ∈ ref) (hlm : l ∈ l10n) (hrj : r.junk = true) (hlj : l.junk = true) : r.key ≠ l.key := by
  obtain ⟨i, _, hi2, hki⟩ := hr r hrm hrj
  obtain ⟨j, hj1, _, hkj⟩ := hl l hlm hlj
  intro h
  rw [hki, hkj] at h
  simp only [Cmp.Key.str.injEq] at h
  have := (junkKeyText_inj h).1
  omega

/-- no Entity has a key that begins with `_junk_` -/
def NoJunkLike (ents : List PEnt) : Prop := ∀ e ∈ ents, e.junk = false → junkLike e.key = false

/-- **sufficient, on the keys alone**: if no string id of either file begins with `_junk_`, no Junk shares its key
    with an entry of the other file -/
theorem noJunkClash_of_keys {n1 n2 : Nat} {ref l10n : List PEnt} (hr : IdsIn 0 n1 ref) (hl : IdsIn n1 n2 l10n)
    (hkr : NoJunkLike ref) (hkl : NoJunkLike l10n) (ck : CheckerKind) : NoJunkClash ck ref l10n := by
  have key : ∀ (a b : PEnt), a ∈ ref → b ∈ l10n → a.key = b.key → a.junk = false ∧ b.junk = false := by
    intro a b ha hb hab
    have hlike : ∀ (x : PEnt) (n m : Nat) (xs : List PEnt), IdsIn n m xs → x ∈ xs → x.junk = true → junkLike x.key = true := by
      intro x n m xs hx hxm hxj
      obtain ⟨id, _, _, hk⟩ := hx x hxm hxj
      rw [hk]; exact junkKeyText_prefix _ _ _
    cases haj : a.junk <;> cases hbj : b.junk
    · exact ⟨rfl, rfl⟩
    · have h1 := hlike b _ _ _ hl hb hbj
      have h2 := hkr a ha haj
      rw [hab, h1] at h2; cases h2
    · have h1 := hlike a _ _ _ hr ha haj
      have h2 := hkl b hb hbj
      rw [← hab, h1] at h2; cases h2
    · exact absurd hab (junk_keys_differ hr hl a b ha hb haj hbj)
  intro k hkr' hkl'
  obtain ⟨b, hb, hbk⟩ := List.mem_map.1 hkl'
  obtain ⟨a, ha, hak⟩ := List.mem_map.1 hkr'
  refine ⟨?_, fun _ => ?_⟩
  · intro r hlr
    obtain ⟨hrm, hrk, _⟩ := lookup_ok hlr
    exact (key r b hrm hb (by rw [hrk, hbk])).1
  · intro l hll
    obtain ⟨hlm, hlk, _⟩ := lookup_ok hll
    exact (key a l ha hlm (by rw [hak, hlk])).2

/-! ### the decidable, exact form of the hypothesis -/

/-- `NoJunkClash` decided on the two parsed files -/
def clashFreeB (ck : CheckerKind) (ref l10n : List PEnt) : Bool :=
  (ref.map (·.key)).all (fun k => !(l10n.map (·.key)).contains k ||
    ((match lookup ref k with | .ok r => !r.junk | .error _ => true) &&
     (ck == .base || (match lookup l10n k with | .ok l => !l.junk | .error _ => true))))

theorem clashFreeB_iff (ck : CheckerKind) (ref l10n : List PEnt) : clashFreeB ck ref l10n = true ↔ NoJunkClash ck ref l10n := by
  unfold clashFreeB NoJunkClash
  simp only [List.all_eq_true, Bool.or_eq_true, Bool.not_eq_true', Bool.and_eq_true, beq_iff_eq]
  constructor
  · intro h k hkr hkl
    have hc : (l10n.map (·.key)).contains k = true := by simpa using hkl
    rcases h k hkr with h | ⟨h1, h2⟩
    · rw [hc] at h; cases h
    · refine ⟨?_, ?_⟩
      · intro r hr; rw [hr] at h1; simpa using h1
      · intro hne l hl
        rcases h2 with h2 | h2
        · exact absurd h2 hne
        · rw [hl] at h2; simpa using h2
  · intro h k hkr
    by_cases hc : (l10n.map (·.key)).contains k = true
    · right
      obtain ⟨h1, h2⟩ := h k hkr (by simpa using hc)
      refine ⟨?_, ?_⟩
      · cases hl : lookup ref k with
        | error _ => rfl
        | ok r => simp [h1 r hl]
      · by_cases hb : ck = .base
        · exact Or.inl hb
        · right
          cases hl : lookup l10n k with
          | error _ => rfl
          | ok l => simp [h2 hb l hl]
    · left; simpa using hc

/-- **the hypothesis of the comparison theorems as a decidable condition on the two texts** (exact: `clashFree_iff`) -/
def clashFree (ext : Ext) (fmt : P.Fmt) (refText l10nText : Array Nat) : Bool :=
  match parseFile ext fmt refText 0 with
  | .error _ => true
  | .ok (ref, n1) =>
    match parseFile ext fmt l10nText n1 with
    | .error _ => true
    | .ok (l10n, _) => clashFreeB (checkerOf fmt) ref l10n

theorem clashFree_iff (ext : Ext) (fmt : P.Fmt) (refText l10nText : Array Nat) :
    clashFree ext fmt refText l10nText = true ↔ NoJunkClashT ext fmt refText l10nText := by
  unfold clashFree NoJunkClashT
  constructor
  · intro h ref n1 l10n n2 hp1 hp2
    simp only [hp1, hp2] at h
    exact (clashFreeB_iff _ _ _).1 h
  · intro h
    cases hp1 : parseFile ext fmt refText 0 with
    | error _ => rfl
    | ok p =>
      obtain ⟨ref, n1⟩ := p
      cases hp2 : parseFile ext fmt l10nText n1 with
      | error _ => simp only [hp2]
      | ok q =>
        obtain ⟨l10n, n2⟩ := q
        simp only [hp2]
        exact (clashFreeB_iff _ _ _).2 (h ref n1 l10n n2 hp1 hp2)

/-! ### on the text alone -/

/-- no Entity of the text has a key that begins with `_junk_` (gettext keys are tuples: nothing to check);
    decided on the walk, independent of the external functions -/
def entityKeysOK (fmt : P.Fmt) (s : Array Nat) : Bool :=
  match fmt with
  | .po => true
  | _ =>
    match P.walk fmt s with
    | .stuck _ _ => true
    | .done es => es.all (fun e => e.kind != .entity || !Hist.junkPrefix.isPrefixOf (P.pySlice s e.ks e.ke))

theorem entView_key (f : P.Fmt) (hf : f ≠ .po) (s : Array Nat) (e : P.Entry) (v : P.EntView) (h : P.entView f s e = some v) :
    v.key = P.pySlice s e.ks e.ke ∧ v.ctxt = none := by
  cases f with
  | po => exact absurd rfl hf
  | properties => simp only [P.entView, Option.some.injEq] at h; subst h; exact ⟨rfl, rfl⟩
  | dtd => simp only [P.entView, Option.some.injEq] at h; subst h; exact ⟨rfl, rfl⟩
  | ini => simp only [P.entView, Option.some.injEq] at h; subst h; exact ⟨rfl, rfl⟩
  | inc => simp only [P.entView, Option.some.injEq] at h; subst h; exact ⟨rfl, rfl⟩

theorem entView_po_ctxt (s : Array Nat) (e : P.Entry) (v : P.EntView) (h : P.entView .po s e = some v) : v.ctxt ≠ none := by
  simp only [P.entView] at h
  split at h
  · cases h
  · split at h
    · simp only [Option.some.injEq] at h; subst h; simp
    · cases h

theorem noJunkLike_of_text (ext : Ext) (fmt : P.Fmt) (s : Array Nat) (n m : Nat) (ents : List PEnt)
    (hk : entityKeysOK fmt s = true) (h : parseFile ext fmt s n = .ok (ents, m)) : NoJunkLike ents := by
  unfold parseFile at h
  split at h
  · cases h
  · rename_i es hw
    simp only at h
    split at h
    · cases h
    · rename_i ents' hm
      simp only [Except.ok.injEq, Prod.mk.injEq] at h
      obtain ⟨rfl, _⟩ := h
      intro e he hj
      obtain ⟨hh, hmem, hmk⟩ := (mapE_mem hm).1 e he
      simp only [List.mem_filter] at hmem
      have hentry : hh.entry ∈ es := assign_entry_mem fmt s 0 es n 0 hh hmem.1
      have hwf := Hist.assign_wf fmt s 0 es n 0 hh hmem.1
      unfold mkEnt at hmk
      cases hjid : hh.jid with
      | some id =>
        simp only [hjid, Except.ok.injEq] at hmk
        subst hmk
        simp [mkJunk] at hj
      | none =>
        have hkind : hh.entry.kind = .entity := by
          rw [hjid] at hwf
          have hloc := hmem.2
          simp only [P.Entry.localizable, Bool.or_eq_true, beq_iff_eq] at hloc
          rcases hloc with h1 | h1
          · exact h1
          · rw [h1] at hwf; simp at hwf
        simp only [hjid] at hmk
        cases hv : P.entView fmt s hh.entry with
        | none => simp [hv] at hmk
        | some v =>
          simp only [hv] at hmk
          split at hmk
          · cases hmk
          · simp only [Except.ok.injEq] at hmk
            subst hmk
            by_cases hpo : fmt = .po
            · subst hpo
              have := entView_po_ctxt s hh.entry v hv
              cases hc : v.ctxt with
              | none => exact absurd hc this
              | some c => simp [junkLike]
            · obtain ⟨hkey, hctx⟩ := entView_key fmt hpo s hh.entry v hv
              simp only [hctx, junkLike, hkey]
              have hall : (es.all (fun e => e.kind != .entity || !Hist.junkPrefix.isPrefixOf (P.pySlice s e.ks e.ke))) = true := by
                cases fmt <;> simp_all [entityKeysOK]
              have := List.all_eq_true.1 hall hh.entry hentry
              simpa [hkind] using this

/-- **`NoJunkClashT` from the texts alone**: no string id of either file begins with `_junk_` -/
theorem noJunkClashT_of_keys (ext : Ext) (fmt : P.Fmt) (refText l10nText : Array Nat)
    (h1 : entityKeysOK fmt refText = true) (h2 : entityKeysOK fmt l10nText = true) : NoJunkClashT ext fmt refText l10nText := by
  intro ref n1 l10n n2 hp1 hp2
  exact noJunkClash_of_keys (parseFile_ids ext fmt refText 0 n1 ref hp1) (parseFile_ids ext fmt l10nText n1 n2 l10n hp2)
    (noJunkLike_of_text ext fmt refText 0 n1 ref h1 hp1) (noJunkLike_of_text ext fmt l10nText n1 n2 l10n h2 hp2) _

/-- **gettext files never clash**: their keys are `(msgid, msgctxt)` tuples, a Junk key is a `str` -/
theorem noJunkClashT_po (ext : Ext) (refText l10nText : Array Nat) : NoJunkClashT ext .po refText l10nText :=
  noJunkClashT_of_keys ext .po refText l10nText rfl rfl

end C05Clash

import CLModel.Proofs.C09Pos
namespace C09P
open Rx Android Android.Spec

theorem checkParams_pos {rp : List (Nat × List Nat)} {count : Nat} {v : List Nat} {rs : List Result}
    (h : checkParams rp count v = some rs) : ∀ r ∈ rs, r.pos = 0 ∨ r.pos < v.length := by
  obtain ⟨st, hst, inv, _⟩ := getParams_str v
  unfold checkParams at h
  rw [hst] at h
  simp only [Option.some.injEq] at h
  subst h
  intro r hr
  simp only [List.mem_append, or_assoc] at hr
  rcases hr with hr | hr | hr | hr
  · simp only [List.mem_map] at hr
    obtain ⟨e, he, rfl⟩ := hr
    rw [inv.errors] at he
    exact Or.inr (conflictsOf_pos v e he)
  · simp only [List.mem_filterMap] at hr
    obtain ⟨p, _, hp⟩ := hr
    left
    split at hp
    · simp at hp; subst hp; rfl
    · split at hp
      · simp at hp; subst hp; rfl
      · cases hp
  · simp only [List.mem_filterMap] at hr
    obtain ⟨p, _, hp⟩ := hr
    left
    split at hp
    · simp at hp; subst hp; rfl
    · cases hp
  · left
    split at hr
    · simp at hr; subst hr; rfl
    · cases hr

theorem checkString_pos {ref : Node} {l10n : Entity} {rs : List Result}
    (h : checkString [ref] l10n = some rs) :
    ∀ r ∈ rs, r.pos = 0 ∨ r.pos < l10n.val.length ∨ r.pos < (textContent ref).length := by
  obtain ⟨st, hst, inv, _⟩ := getParams_node ref
  unfold checkString at h
  split at h
  · simp at h; subst h; intro r hr; simp at hr; subst hr; exact Or.inl rfl
  split at h
  · simp at h; subst h; intro r hr; simp at hr; subst hr; exact Or.inl rfl
  have hw : ∀ r ∈ (if noAtString [ref] then [warn 0 Msg.notTranslatable] else []), r.pos = 0 := by
    intro r hr
    by_cases hc : noAtString [ref] = true
    · simp [hc] at hr; subst hr; rfl
    · simp [hc] at hr
  simp only at h
  split at h
  · simp at h; subst h
    intro r hr
    rcases List.mem_append.mp hr with hr | hr
    · exact Or.inl (hw r hr)
    · simp at hr; subst hr; exact Or.inl rfl
  simp only [List.map_cons, List.map_nil, hst] at h
  cases hc : checkParams st.params st.count l10n.val with
  | none => simp [hc] at h
  | some c =>
    simp [hc] at h
    subst h
    intro r hr
    simp only [List.mem_append, or_assoc] at hr
    rcases hr with hr | hr | hr | hr
    · exact Or.inl (hw r (by simpa using hr))
    · exact Or.inr (Or.inl (checkApostrophes_pos _ r hr))
    · simp only [List.mem_map] at hr
      obtain ⟨e, he, rfl⟩ := hr
      rw [inv.errors] at he
      exact Or.inr (Or.inr (conflictsOf_pos _ e he))
    · rcases checkParams_pos hc r hr with h1 | h1
      · exact Or.inl h1
      · exact Or.inr (Or.inl h1)

theorem mochibake_match (all : Array Nat) (i : Nat) :
    (matchAt all Gen.Pat.checks_base_mochibake i).isSome ↔ all[i]? = some 0xFFFD := by
  simp [matchAt, m, Gen.Pat.checks_base_mochibake]

theorem baseCheck_pos (l10n : Entity) : ∀ r ∈ baseCheck l10n, r.msg = .mojibake ∧ l10n.all[r.pos]? = some 0xFFFD := by
  intro r hr
  unfold baseCheck at hr
  simp only [List.mem_map] at hr
  obtain ⟨p, hp, rfl⟩ := hr
  refine ⟨rfl, ?_⟩
  obtain ⟨_, hm⟩ := Rx.finditer_sound l10n.all.toArray _ p hp
  have : l10n.all.toArray[p.1]? = some 0xFFFD := by
    rcases hm with hm | hm
    · exact (mochibake_match _ p.1).mp (by simp [hm])
    · simp only [matchAtNE, m, Gen.Pat.checks_base_mochibake] at hm
      split at hm
      · rename_i h; simpa using h
      · cases hm
  simpa [warn] using this

/-- where the position of every result of `AndroidChecker.check` points -/
theorem check_pos {ref l10n : Entity} {rs : List Result} (h : check ref l10n = some rs) :
    ∀ r ∈ rs, (r.msg = .mojibake ∧ l10n.all[r.pos]? = some 0xFFFD) ∨
      r.pos = 0 ∨ r.pos < l10n.val.length ∨ r.pos < (textContent ref.node).length := by
  unfold check at h
  simp only at h
  split at h
  · simp at h; subst h
    intro r hr
    rcases List.mem_append.mp hr with hr | hr
    · exact Or.inl (baseCheck_pos l10n r hr)
    · simp at hr; subst hr; exact Or.inr (Or.inl rfl)
  split at h
  · simp at h; subst h
    intro r hr
    rcases List.mem_append.mp hr with hr | hr
    · exact Or.inl (baseCheck_pos l10n r hr)
    · simp at hr; subst hr; exact Or.inr (Or.inl rfl)
  cases hs : checkString [ref.node] l10n with
  | none => simp [hs] at h
  | some cs =>
    simp [hs] at h
    subst h
    intro r hr
    rcases List.mem_append.mp hr with hr | hr
    · exact Or.inl (baseCheck_pos l10n r hr)
    · exact Or.inr (checkString_pos hs r hr)

end C09P

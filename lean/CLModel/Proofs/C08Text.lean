/-
C08, round 4: text-blindness of the whole Fluent checker.

`mapMsg f g` replaces the value of EVERY TextElement by `f` of it and the value of every StringLiteral (also of named
arguments) by `g` of it — everywhere in a message: value, attributes, variants, selectors, call arguments — except in a
`style` attribute whose value is one single TextElement (there the text is the CSS spec that is checked).  Spans, identifiers,
numbers, variant keys, the element structure stay.  `check_message` / `check_term` / `check` give the same messages.
-/
import CLModel.Proofs.C08Refs
import CLModel.Checks.FluentExt
namespace C08T
open Ftl Gen.Tables

def mapNamed (g : Str → Str) (n : NamedArg) : NamedArg := if n.isNum then n else { n with value := g n.value }

mutual
  def mapP (f g : Str → Str) : Pattern → Pattern
    | .mk s els => .mk s (mapEls f g els)
  def mapEls (f g : Str → Str) : List Elem → List Elem
    | [] => []
    | e :: r => mapEl f g e :: mapEls f g r
  def mapEl (f g : Str → Str) : Elem → Elem
    | .text v => .text (f v)
    | .placeable e => .placeable (mapE f g e)
  def mapE (f g : Str → Str) : Expr → Expr
    | .strLit v => .strLit (g v)
    | .numLit v => .numLit v
    | .varRef i => .varRef i
    | .msgRef s i a => .msgRef s i a
    | .termRef s i a args => .termRef s i a (match args with | some c => some (mapArgs f g c) | none => none)
    | .funRef i args => .funRef i (mapArgs f g args)
    | .select sel vs => .select (mapE f g sel) (mapVs f g vs)
    | .placeable e => .placeable (mapE f g e)
  def mapVs (f g : Str → Str) : List Variant → List Variant
    | [] => []
    | v :: r => mapV f g v :: mapVs f g r
  def mapV (f g : Str → Str) : Variant → Variant
    | .mk k value d => .mk k (mapP f g value) d
  def mapArgs (f g : Str → Str) : CallArgs → CallArgs
    | .mk pos named => .mk (mapEs f g pos) (named.map (mapNamed g))
  def mapEs (f g : Str → Str) : List Expr → List Expr
    | [] => []
    | e :: r => mapE f g e :: mapEs f g r
end

theorem mapVs_keys (f g : Str → Str) (vs : List Variant) : (mapVs f g vs).map Variant.key = vs.map Variant.key := by
  induction vs with
  | nil => rfl
  | cons v r ih =>
    cases v with
    | mk k p d =>
      show Variant.key (mapV f g (.mk k p d)) :: (mapVs f g r).map Variant.key = _
      rw [ih]; rfl

mutual
  theorem ev_mapP (d : Bool) (f g : Str → Str) : ∀ p : Pattern, evPattern d (mapP f g p) = evPattern d p
    | .mk s els => by
      show evElems d (mapEls f g els) = evElems d els
      exact ev_mapEls d f g els
  theorem ev_mapEls (d : Bool) (f g : Str → Str) : ∀ els : List Elem, evElems d (mapEls f g els) = evElems d els
    | [] => rfl
    | e :: r => by
      show evElem d (mapEl f g e) ++ evElems d (mapEls f g r) = evElem d e ++ evElems d r
      rw [ev_mapEl d f g e, ev_mapEls d f g r]
  theorem ev_mapEl (d : Bool) (f g : Str → Str) : ∀ e : Elem, evElem d (mapEl f g e) = evElem d e
    | .text v => rfl
    | .placeable e => by
      show evExpr d (mapE f g e) = evExpr d e
      exact ev_mapE d f g e
  theorem ev_mapE (d : Bool) (f g : Str → Str) : ∀ e : Expr, evExpr d (mapE f g e) = evExpr d e
    | .strLit v => rfl
    | .numLit v => rfl
    | .varRef i => rfl
    | .msgRef s i a => rfl
    | .termRef s i a none => by cases d <;> rfl
    | .termRef s i a (some c) => by
      have h := ev_mapArgs d f g c
      cases d
      · rfl
      · show Ev.termRef s i a :: evArgs true (mapArgs f g c) = Ev.termRef s i a :: evArgs true c
        rw [h]
    | .funRef i args => by
      show evArgs d (mapArgs f g args) = evArgs d args
      exact ev_mapArgs d f g args
    | .select sel vs => by
      have h1 := ev_mapE d f g sel
      have h2 := ev_mapVs d f g vs
      have h3 := mapVs_keys f g vs
      cases d
      · show [] ++ evVariants false (mapVs f g vs) ++ [Ev.select ((mapVs f g vs).map Variant.key)] =
          [] ++ evVariants false vs ++ [Ev.select (vs.map Variant.key)]
        rw [h2, h3]
      · show evExpr true (mapE f g sel) ++ evVariants true (mapVs f g vs) ++ [Ev.select ((mapVs f g vs).map Variant.key)] =
          evExpr true sel ++ evVariants true vs ++ [Ev.select (vs.map Variant.key)]
        rw [h1, h2, h3]
    | .placeable e => by
      show evExpr d (mapE f g e) = evExpr d e
      exact ev_mapE d f g e
  theorem ev_mapVs (d : Bool) (f g : Str → Str) : ∀ vs : List Variant, evVariants d (mapVs f g vs) = evVariants d vs
    | [] => rfl
    | v :: r => by
      show evVariant d (mapV f g v) ++ evVariants d (mapVs f g r) = evVariant d v ++ evVariants d r
      rw [ev_mapV d f g v, ev_mapVs d f g r]
  theorem ev_mapV (d : Bool) (f g : Str → Str) : ∀ v : Variant, evVariant d (mapV f g v) = evVariant d v
    | .mk k value dflt => by
      show evPattern d (mapP f g value) = evPattern d value
      exact ev_mapP d f g value
  theorem ev_mapArgs (d : Bool) (f g : Str → Str) : ∀ c : CallArgs, evArgs d (mapArgs f g c) = evArgs d c
    | .mk pos named => by
      show evExprs d (mapEs f g pos) = evExprs d pos
      exact ev_mapEs d f g pos
  theorem ev_mapEs (d : Bool) (f g : Str → Str) : ∀ es : List Expr, evExprs d (mapEs f g es) = evExprs d es
    | [] => rfl
    | e :: r => by
      show evExpr d (mapE f g e) ++ evExprs d (mapEs f g r) = evExpr d e ++ evExprs d r
      rw [ev_mapE d f g e, ev_mapEs d f g r]
end

/-! ### attributes, messages, terms -/

theorem mapP_start (f g : Str → Str) (p : Pattern) : (mapP f g p).start = p.start := by
  cases p; rfl

theorem mapP_elements (f g : Str → Str) (p : Pattern) : (mapP f g p).elements = mapEls f g p.elements := by
  cases p; rfl

/-- the value of a `style` attribute that consists of exactly one TextElement: the CSS spec the checker parses -/
def isCssText (a : Attribute) : Bool :=
  a.name == sStyle && (match a.value.elements with | [Elem.text _] => true | _ => false)

def mapAttr (f g : Str → Str) (a : Attribute) : Attribute :=
  if isCssText a then a else { a with value := mapP f g a.value }

def mapMsg (f g : Str → Str) (m : Message) : Message :=
  { m with value := m.value.map (mapP f g), attributes := m.attributes.map (mapAttr f g) }

/-- a term is checked on its own and never for CSS: every text may change -/
def mapTerm (f g : Str → Str) (t : Term) : Term :=
  { t with value := mapP f g t.value, attributes := t.attributes.map (fun a => { a with value := mapP f g a.value }) }

/-- as a REFERENCE entry a term is visited like a message (style included) -/
def mapRefEntry (f g : Str → Str) : Entry → Entry
  | .message m => .message (mapMsg f g m)
  | .term t => .term { t with value := mapP f g t.value, attributes := t.attributes.map (mapAttr f g) }

def mapL10nEntry (f g : Str → Str) : Entry → Entry
  | .message m => .message (mapMsg f g m)
  | .term t => .term (mapTerm f g t)

theorem mapAttr_name (f g : Str → Str) (a : Attribute) : (mapAttr f g a).name = a.name := by
  unfold mapAttr; split <;> rfl

theorem mapAttr_start (f g : Str → Str) (a : Attribute) : (mapAttr f g a).start = a.start := by
  unfold mapAttr; split <;> rfl

theorem mapAttr_ev (d : Bool) (f g : Str → Str) (a : Attribute) :
    evPattern d (mapAttr f g a).value = evPattern d a.value := by
  unfold mapAttr; split
  · rfl
  · exact ev_mapP d f g a.value

/-- pattern_variants of a pattern that is not one single text stays empty -/
theorem patternVariants_mapP (f g : Str → Str) (p : Pattern)
    (h : (match p.elements with | [Elem.text _] => true | _ => false) = false) :
    patternVariants (mapP f g p) = [] ∧ patternVariants p = [] := by
  unfold patternVariants
  rw [mapP_elements]
  cases hp : p.elements with
  | nil => exact ⟨rfl, rfl⟩
  | cons e r =>
    rw [hp] at h
    cases e with
    | text v =>
      cases r with
      | nil => simp at h
      | cons e2 r2 => exact ⟨rfl, rfl⟩
    | placeable e =>
      cases r with
      | nil => exact ⟨rfl, rfl⟩
      | cons e2 r2 => exact ⟨rfl, rfl⟩

/-- the `style` part of visit_Attribute sees the same thing -/
theorem mapAttr_styleOf (f g : Str → Str) (a : Attribute) (h : a.name = sStyle) (x : CssVal × Option (List CssErr)) :
    styleOf (mapAttr f g a).value x = styleOf a.value x := by
  unfold mapAttr
  split
  · rfl
  · rename_i hc
    have hc' : (match a.value.elements with | [Elem.text _] => true | _ => false) = false := by
      simp only [isCssText, h, BEq.rfl, Bool.true_and] at hc
      simpa using hc
    obtain ⟨h1, h2⟩ := patternVariants_mapP f g a.value hc'
    obtain ⟨c, e⟩ := x
    simp only [styleOf, h1, h2]

theorem l10nVisitAttribute_map (kp : Option (List Str)) (f g : Str → Str) (st : L10nState) (a : Attribute) :
    l10nVisitAttribute kp st (mapAttr f g a) = l10nVisitAttribute kp st a := by
  unfold l10nVisitAttribute l10nVisitPattern
  simp only [mapAttr_name, mapAttr_start, mapAttr_ev]
  by_cases hn : (a.name != sStyle) = true
  · simp only [hn, if_true]
  · have hs : a.name = sStyle := by simpa using hn
    simp only [hn, Bool.false_eq_true, if_false]
    rw [mapAttr_styleOf f g a hs]

theorem refVisitAttribute_map (f g : Str → Str) (st : RefState) (a : Attribute) :
    refVisitAttribute st (mapAttr f g a) = refVisitAttribute st a := by
  unfold refVisitAttribute
  simp only [mapAttr_name, mapAttr_start, mapAttr_ev]
  by_cases hn : (a.name != sStyle) = true
  · simp only [hn, if_true]
  · have hs : a.name = sStyle := by simpa using hn
    simp only [hn, Bool.false_eq_true, if_false]
    rw [mapAttr_styleOf f g a hs]

theorem foldl_map_eq {α β : Type} (step : β → α → β) (h : α → α) (hh : ∀ s a, step s (h a) = step s a)
    (l : List α) (s : β) : (l.map h).foldl step s = l.foldl step s := by
  induction l generalizing s with
  | nil => rfl
  | cons a r ih => simp only [List.map_cons, List.foldl_cons, hh, ih]

/-- the two nested loops commute with a map that respects the comparison -/
theorem dupLoop_map {α : Type} (eq : α → α → Bool) (h : α → α) (hh : ∀ a b, eq (h a) (h b) = eq a b)
    (ks l : List α) : dupLoop eq (ks.map h) (l.map h) = (dupLoop eq ks l).map h := by
  induction l generalizing ks with
  | nil => rfl
  | cons x rest ih =>
    simp only [List.map_cons, dupLoop]
    have hany : (ks.map h).any (fun k => eq k (h x)) = ks.any (fun k => eq k x) := by
      simp [List.any_map, Function.comp_def, hh]
    rw [hany]
    split
    · exact ih ks
    · have hf : (rest.map h).filter (fun y => eq (h x) y) = (rest.filter (fun y => eq x y)).map h := by
        rw [List.filter_map]
        congr 1
        apply List.filter_congr
        intro y _
        simp [hh]
      rw [hf]
      have := ih (ks ++ [x])
      simp only [List.map_append, List.map_cons, List.map_nil] at this
      rw [this]
      cases hm : rest.filter (fun y => eq x y) <;> simp

theorem checkDuplicateAttributes_map (f g : Str → Str) (attrs : List Attribute) :
    checkDuplicateAttributes (attrs.map (mapAttr f g)) = checkDuplicateAttributes attrs := by
  unfold checkDuplicateAttributes
  have := dupLoop_map (fun a b : Attribute => a.name == b.name) (mapAttr f g)
    (by intro a b; simp [mapAttr_name]) [] attrs
  simp only [List.map_nil] at this
  rw [this, List.map_map]
  apply List.map_congr_left
  intro a _
  simp [mapAttr_name, mapAttr_start]

theorem attrsPos_map (f g : Str → Str) (attrs : List Attribute) (d : List (Str × Nat)) :
    attrsPos d (attrs.map (mapAttr f g)) = attrsPos d attrs := by
  unfold attrsPos
  exact foldl_map_eq _ _ (by intro s a; simp [mapAttr_name, mapAttr_start]) attrs d

/-- **L10nMessageVisitor is text-blind** -/
theorem l10nVisitMessage_map (kp : Option (List Str)) (f g : Str → Str) (ref : RefState) (m : Message) :
    l10nVisitMessage kp ref (mapMsg f g m) = l10nVisitMessage kp ref m := by
  unfold l10nVisitMessage
  simp only [mapMsg, checkDuplicateAttributes_map,
    foldl_map_eq (l10nVisitAttribute kp) (mapAttr f g) (l10nVisitAttribute_map kp f g)]
  cases hv : m.value with
  | none => simp
  | some p =>
    simp only [Option.map_some, Option.isSome_some]
    unfold l10nVisitPattern
    simp only [ev_mapP, mapP_start]

theorem refVisit_map (f g : Str → Str) (hv : Bool) (value : Option Pattern) (attrs : List Attribute) :
    refVisit hv (value.map (mapP f g)) (attrs.map (mapAttr f g)) = refVisit hv value attrs := by
  unfold refVisit
  simp only [foldl_map_eq refVisitAttribute (mapAttr f g) (refVisitAttribute_map f g)]
  cases value with
  | none => rfl
  | some p => simp only [Option.map_some, ev_mapP]

/-- **ReferenceMessageVisitor is text-blind** -/
theorem refVisitEntry_map (f g : Str → Str) (ref : Entry) : refVisitEntry (mapRefEntry f g ref) = refVisitEntry ref := by
  cases ref with
  | message m =>
    simp only [mapRefEntry, refVisitEntry, mapMsg]
    have := refVisit_map f g m.value.isSome m.value m.attributes
    simpa using this
  | term t =>
    simp only [mapRefEntry, refVisitEntry]
    exact refVisit_map f g false (some t.value) t.attributes

theorem checkMessage_map (kp : Option (List Str)) (f g f' g' : Str → Str) (ref : Entry) (m : Message) :
    checkMessage kp (mapRefEntry f' g' ref) (mapMsg f g m) = checkMessage kp ref m := by
  unfold checkMessage
  simp only [refVisitEntry_map, l10nVisitMessage_map]

theorem checkMessage_map_l10n (kp : Option (List Str)) (f g : Str → Str) (ref : Entry) (m : Message) :
    checkMessage kp ref (mapMsg f g m) = checkMessage kp ref m := by
  unfold checkMessage
  simp only [l10nVisitMessage_map]

theorem checkMessage_map_ref (kp : Option (List Str)) (f g : Str → Str) (ref : Entry) (m : Message) :
    checkMessage kp (mapRefEntry f g ref) m = checkMessage kp ref m := by
  unfold checkMessage
  simp only [refVisitEntry_map]

theorem checkTerm_map (kp : Option (List Str)) (f g : Str → Str) (t : Term) : checkTerm kp (mapTerm f g t) = checkTerm kp t := by
  unfold checkTerm
  have hd : checkDuplicateAttributes (t.attributes.map (fun a => ({ a with value := mapP f g a.value } : Attribute))) =
      checkDuplicateAttributes t.attributes := by
    unfold checkDuplicateAttributes
    have := dupLoop_map (fun a b : Attribute => a.name == b.name) (fun a => ({ a with value := mapP f g a.value } : Attribute))
      (by intro a b; rfl) [] t.attributes
    simp only [List.map_nil] at this
    rw [this, List.map_map]
    rfl
  simp only [mapTerm, hd, ev_mapP]
  exact foldl_map_eq (fun msgs (a : Attribute) => (evPattern true a.value).foldl (termStep kp) msgs)
    (fun a => ({ a with value := mapP f g a.value } : Attribute)) (by intro s a; simp only [ev_mapP]) t.attributes _

theorem hasSelect_map (f g : Str → Str) (l10n : Entry) : hasSelect (mapL10nEntry f g l10n) = hasSelect l10n := by
  cases l10n with
  | message m =>
    simp only [mapL10nEntry, hasSelect, mapMsg]
    congr 1
    · cases m.value <;> simp [ev_mapP]
    · simp [List.any_map, Function.comp_def, mapAttr_ev]
  | term t =>
    simp only [mapL10nEntry, hasSelect, mapTerm, ev_mapP]
    simp [List.any_map, Function.comp_def, ev_mapP]

theorem mapL10nEntry_start (f g : Str → Str) (l10n : Entry) : (mapL10nEntry f g l10n).start = l10n.start := by
  cases l10n <;> rfl

theorem entryMsgs_map (kp : Option (List Str)) (f g f' g' : Str → Str) (ref l10n : Entry) :
    entryMsgs kp (mapRefEntry f' g' ref) (mapL10nEntry f g l10n) = entryMsgs kp ref l10n := by
  cases l10n with
  | message m => exact checkMessage_map kp f g f' g' ref m
  | term t => exact checkTerm_map kp f g t

end C08T

/-
C05 pipeline, Fluent and Android: from the external parser's output on.

`fluent.syntax` and `xml.dom.minidom` are external; their output (body entries with spans + AST summary; the objects
of the walk over the DOM with the node summary) is the INPUT of `Pipe.compareFtl` / `Pipe.compareAndroid`.  Here: what
`parseFtl` / `parseAndroid` make of it (well-formedness of the entry list, junk ids), and that `FluentChecker.check`
(model of C08) / `AndroidChecker.check` (model of C09) answer for every pair of Entities the comparison hands to them,
starting with the results of the base check.
Core Lean only.
-/
import CLModel.Proofs.C05Pipe
import CLModel.Proofs.C05Clash
import CLModel.Props.C08
import CLModel.Props.C09
namespace C05Ext
open Pipe C05Clash

/-! ### Fluent -/

/-- input contract (what `fluent.syntax` returns): a Message / Term of `resource.body` comes with its AST -/
def FtlBodyOK (body : List FtlItem) : Prop :=
  ∀ it ∈ body, (it.fe.kind = .message ∨ it.fe.kind = .term) → it.ast.isSome

/-- an entry as `FluentParser.walk` makes it: a base `Junk`, or a `FluentEntity` with its AST, keyed by a `str` -/
structure FtlWf (e : PEnt) : Prop where
  kind : (e.junk = true ∧ e.entry.kind = .junk) ∨ (e.junk = false ∧ e.entry.kind = .entity ∧ e.ftl.isSome)
  key : ∃ t, e.key = .str t

theorem fluentEntry_kinds (s : Array Nat) (fe : P.FEntry) :
    ∀ e ∈ P.fluentEntry s true fe, e.kind = .junk ∨ (e.kind = .entity ∧ (fe.kind = .message ∨ fe.kind = .term)) := by
  intro e he
  unfold P.fluentEntry at he
  cases hk : fe.kind <;> simp only [hk] at he
  · simp only [List.mem_singleton] at he; subst he; exact Or.inr ⟨rfl, Or.inl rfl⟩
  · simp only [List.mem_singleton] at he; subst he; exact Or.inr ⟨rfl, Or.inr rfl⟩
  · split at he
    · simp only [List.mem_singleton] at he; subst he; exact Or.inl rfl
    · simp at he; subst he; exact Or.inl rfl
  · simp at he
  · simp at he

theorem ftlItemEnts_spec (s : Array Nat) (it : FtlItem) (hast : (it.fe.kind = .message ∨ it.fe.kind = .term) → it.ast.isSome) :
    ∀ (es : List P.Entry) (n : Nat),
      (∀ e ∈ es, e.kind = .junk ∨ (e.kind = .entity ∧ (it.fe.kind = .message ∨ it.fe.kind = .term))) →
      n ≤ (ftlItemEnts s it es n).2 ∧ (∀ e ∈ (ftlItemEnts s it es n).1, FtlWf e) ∧
      IdsIn n (ftlItemEnts s it es n).2 (ftlItemEnts s it es n).1 := by
  intro es
  induction es with
  | nil => intro n _; exact ⟨Nat.le_refl _, by simp [ftlItemEnts], by intro e he; simp [ftlItemEnts] at he⟩
  | cons x xs ih =>
    intro n hk
    have hx := hk x (by simp)
    have hxs : ∀ e ∈ xs, e.kind = .junk ∨ (e.kind = .entity ∧ (it.fe.kind = .message ∨ it.fe.kind = .term)) :=
      fun e he => hk e (by simp [he])
    by_cases hj : (x.kind == .junk) = true
    · obtain ⟨h1, h2, h3⟩ := ih (n + 1) hxs
      simp only [ftlItemEnts, hj, if_true]
      refine ⟨by omega, ?_, ?_⟩
      · intro e he
        simp only [List.mem_cons] at he
        rcases he with rfl | he
        · exact ⟨Or.inl ⟨rfl, by simpa [mkJunk] using hj⟩, ⟨_, rfl⟩⟩
        · exact h2 e he
      · intro e he hej
        simp only [List.mem_cons] at he
        rcases he with rfl | he
        · exact ⟨n + 1, by omega, h1, rfl⟩
        · obtain ⟨id, a, b, c⟩ := h3 e he hej
          exact ⟨id, by omega, b, c⟩
    · obtain ⟨h1, h2, h3⟩ := ih n hxs
      have hkx : x.kind = .entity ∧ (it.fe.kind = .message ∨ it.fe.kind = .term) := by
        rcases hx with h | h
        · rw [h] at hj; simp at hj
        · exact h
      simp only [ftlItemEnts, hj, Bool.false_eq_true, if_false]
      refine ⟨h1, ?_, ?_⟩
      · intro e he
        simp only [List.mem_cons] at he
        rcases he with rfl | he
        · refine ⟨Or.inr ⟨rfl, hkx.1, ?_⟩, ⟨_, rfl⟩⟩
          have := hast hkx.2
          cases ha : it.ast with
          | none => simp [ha] at this
          | some a => simp
        · exact h2 e he
      · intro e he hej
        simp only [List.mem_cons] at he
        rcases he with rfl | he
        · cases hej
        · exact h3 e he hej

theorem parseFtl_spec (s : Array Nat) : ∀ (body : List FtlItem) (n : Nat), FtlBodyOK body →
    n ≤ (parseFtl s body n).2 ∧ (∀ e ∈ (parseFtl s body n).1, FtlWf e) ∧ IdsIn n (parseFtl s body n).2 (parseFtl s body n).1 := by
  intro body
  induction body with
  | nil => intro n _; exact ⟨Nat.le_refl _, by simp [parseFtl], by intro e he; simp [parseFtl] at he⟩
  | cons it rest ih =>
    intro n hb
    obtain ⟨a1, a2, a3⟩ := ftlItemEnts_spec s it (hb it (by simp)) (P.fluentEntry s true it.fe) n (fluentEntry_kinds s it.fe)
    obtain ⟨b1, b2, b3⟩ := ih (ftlItemEnts s it (P.fluentEntry s true it.fe) n).2 (fun x hx => hb x (by simp [hx]))
    simp only [parseFtl]
    refine ⟨by omega, ?_, ?_⟩
    · intro e he
      rcases List.mem_append.1 he with h | h
      · exact a2 e h
      · exact b2 e h
    · intro e he hej
      rcases List.mem_append.1 he with h | h
      · obtain ⟨id, x, y, z⟩ := a3 e h hej
        exact ⟨id, x, by omega, z⟩
      · obtain ⟨id, x, y, z⟩ := b3 e h hej
        exact ⟨id, by omega, y, z⟩

theorem ftl_enc_prefix : Ftl.fmt Gen.Tables.baseCheckStr_1 [] = encPrefix := by decide
theorem ftl_enc_cat : Ftl.fmt Gen.Tables.baseCheckStr_2 [] = encCat := by decide
theorem ftl_enc_sev : ftlSev (Ftl.fmt Gen.Tables.baseCheckStr_0 []) = .warning := by decide

/-- `FluentChecker.check` on two FluentEntities: a result list (for every locale: C08.check_total), positions a
    FluentEntity resolves, beginning with the results of the base check -/
theorem runFluent_ok (locale : Option Text) (r l : PEnt) (hr : FtlWf r) (hl : FtlWf l) (hrj : r.junk = false) (hlj : l.junk = false) :
    ∃ rs, runFluent locale r l = .ok rs ∧ (∀ c ∈ rs, Resolvable .fluent l c.pos) ∧ ∀ b ∈ runBase l, b ∈ rs := by
  have hre : r.entry.kind = .entity ∧ r.ftl.isSome := by
    rcases hr.kind with ⟨h, _⟩ | ⟨_, h⟩
    · rw [hrj] at h; cases h
    · exact h
  have hle : l.entry.kind = .entity ∧ l.ftl.isSome := by
    rcases hl.kind with ⟨h, _⟩ | ⟨_, h⟩
    · rw [hlj] at h; cases h
    · exact h
  obtain ⟨ra, hra⟩ := Option.isSome_iff_exists.1 hre.2
  obtain ⟨la, hla⟩ := Option.isSome_iff_exists.1 hle.2
  obtain ⟨lk, hlk⟩ := hl.key
  obtain ⟨kp, _, hck⟩ := C08.check_total locale lk l.all ra.1 la.1
  refine ⟨ofFtlOuts (Ftl.checkEncoding lk l.all).length (Ftl.checkWith kp lk l.all ra.1 la.1),
    by simp only [runFluent, hra, hla, hlk, hck], ?_, ?_⟩
  · intro c hc
    simp only [ofFtlOuts, List.mem_append, List.mem_map] at hc
    rcases hc with ⟨o, _, rfl⟩ | ⟨o, _, rfl⟩
    · exact Or.inl ⟨_, rfl⟩
    · exact Or.inr (Or.inl ⟨⟨_, rfl⟩, Or.inr ⟨hlj, hle.1⟩⟩)
  · intro b hb
    simp only [runBase, Checks.baseCheck, List.mem_map] at hb
    obtain ⟨x, ⟨m, hm, rfl⟩, rfl⟩ := hb
    simp only [ofFtlOuts, List.mem_append, List.mem_map]
    left
    refine ⟨⟨Ftl.fmt Gen.Tables.baseCheckStr_0 [], (m.1 : Int), Ftl.fmt Gen.Tables.baseCheckStr_1 [] ++ lk, Ftl.fmt Gen.Tables.baseCheckStr_2 []⟩, ?_, ?_⟩
    · simp only [Ftl.checkWith, List.take_left']
      simp only [Ftl.checkEncoding, List.mem_map]
      exact ⟨m, hm, rfl⟩
    · simp [ftl_enc_prefix, ftl_enc_cat, ftl_enc_sev, hlk, keyText]

theorem checkerOK_ftl (file : ObsM.File) (mergeOn : Bool) (l10nText : Array Nat) (ref l10n : List PEnt)
    (hwr : ∀ e ∈ ref, FtlWf e) (hwl : ∀ e ∈ l10n, FtlWf e) : CheckerOK (ftlEnv file mergeOn l10nText) ref l10n := by
  intro r hr l hl hrj hlj
  have hlj := hlj (by simp [ftlEnv])
  obtain ⟨rs, h1, h2, _⟩ := runFluent_ok file.locale r l (hwr r hr) (hwl l hl) hrj hlj
  have hrf : r.ftl.isSome := by
    rcases (hwr r hr).kind with ⟨h, _⟩ | ⟨_, _, h⟩
    · rw [hrj] at h; cases h
    · exact h
  have hlf : l.ftl.isSome := by
    rcases (hwl l hl).kind with ⟨h, _⟩ | ⟨_, _, h⟩
    · rw [hlj] at h; cases h
    · exact h
  obtain ⟨ra, hra⟩ := Option.isSome_iff_exists.1 hrf
  obtain ⟨la, hla⟩ := Option.isSome_iff_exists.1 hlf
  exact ⟨⟨ra.2 == la.2, by simp only [entEquals, ftlEnv, hra, hla]⟩, rs, by simp only [runChecker, ftlEnv, h1], h2⟩

/-! ### Android -/

/-- an entry as `AndroidParser.walk` makes it: an `XMLJunk`, or an `AndroidEntity` with its node, keyed by a `str` -/
structure AWf (e : PEnt) : Prop where
  kind : (e.junk = true ∧ e.entry.kind = .junk) ∨ (e.junk = false ∧ e.entry.kind = .entity ∧ e.node.isSome)
  key : ∃ t, e.key = .str t

theorem parseAndroid_spec : ∀ (items : List AItem) (n : Nat),
    n ≤ (parseAndroid items n).2 ∧ (∀ e ∈ (parseAndroid items n).1, AWf e) ∧
      IdsIn n (parseAndroid items n).2 (parseAndroid items n).1 := by
  intro items
  induction items with
  | nil => intro n; exact ⟨Nat.le_refl _, by simp [parseAndroid], by intro e he; simp [parseAndroid] at he⟩
  | cons it rest ih =>
    intro n
    cases it with
    | junk all =>
      obtain ⟨h1, h2, h3⟩ := ih (n + 1)
      simp only [parseAndroid]
      refine ⟨by omega, ?_, ?_⟩
      · intro e he
        simp only [List.mem_cons] at he
        rcases he with rfl | he
        · exact ⟨Or.inl ⟨rfl, rfl⟩, ⟨_, rfl⟩⟩
        · exact h2 e he
      · intro e he hej
        simp only [List.mem_cons] at he
        rcases he with rfl | he
        · exact ⟨n + 1, by omega, h1, rfl⟩
        · obtain ⟨id, a, b, c⟩ := h3 e he hej
          exact ⟨id, by omega, b, c⟩
    | entity key pre node =>
      obtain ⟨h1, h2, h3⟩ := ih n
      simp only [parseAndroid]
      refine ⟨h1, ?_, ?_⟩
      · intro e he
        simp only [List.mem_cons] at he
        rcases he with rfl | he
        · exact ⟨Or.inr ⟨rfl, rfl, rfl⟩, ⟨_, rfl⟩⟩
        · exact h2 e he
      · intro e he hej
        simp only [List.mem_cons] at he
        rcases he with rfl | he
        · cases hej
        · exact h3 e he hej

/-- `AndroidChecker.check` on two AndroidEntities: a result list (C09.check_total), beginning with the base check -/
theorem runAndroid_ok (r l : PEnt) (hr : AWf r) (hl : AWf l) (hrj : r.junk = false) (hlj : l.junk = false) :
    ∃ rs, runAndroid r l = .ok rs ∧ (∀ c ∈ rs, Resolvable .node l c.pos) ∧ ∀ b ∈ runBase l, b ∈ rs := by
  have hrn : r.node.isSome := by
    rcases hr.kind with ⟨h, _⟩ | ⟨_, _, h⟩
    · rw [hrj] at h; cases h
    · exact h
  have hln : l.node.isSome := by
    rcases hl.kind with ⟨h, _⟩ | ⟨_, _, h⟩
    · rw [hlj] at h; cases h
    · exact h
  obtain ⟨rn, hrn⟩ := Option.isSome_iff_exists.1 hrn
  obtain ⟨ln, hln⟩ := Option.isSome_iff_exists.1 hln
  obtain ⟨rs, hrs⟩ := Option.isSome_iff_exists.1 (C09.check_total ⟨rn, r.val, r.all⟩ ⟨ln, l.val, l.all⟩)
  refine ⟨rs.map (ofAndroidResult (keyText l.key)), by simp only [runAndroid, hrn, hln, hrs], ?_, ?_⟩
  · intro c hc
    simp only [List.mem_map] at hc
    obtain ⟨x, _, rfl⟩ := hc
    by_cases hmj : x.msg = .mojibake
    · exact Or.inl ⟨(x.pos : Int), by simp [ofAndroidResult, hmj]⟩
    · refine Or.inr (Or.inl ⟨⟨(x.pos : Int), ?_⟩, Or.inl rfl⟩)
      cases hm : x.msg <;> simp_all [ofAndroidResult]
  · intro b hb
    simp only [runBase, Checks.baseCheck, List.mem_map] at hb
    obtain ⟨x, ⟨m, hm, rfl⟩, rfl⟩ := hb
    simp only [List.mem_map]
    refine ⟨Android.warn m.1 .mojibake, ?_, by simp [Android.warn, androidMsgText, ofAndroidResult]⟩
    -- every branch of `check` begins with `baseCheck l10n`
    have hmem : Android.warn m.1 .mojibake ∈ Android.baseCheck ⟨ln, l.val, l.all⟩ := by
      simp only [Android.baseCheck, List.mem_map]
      exact ⟨m, hm, rfl⟩
    unfold Android.check at hrs
    simp only at hrs
    split at hrs
    · simp only [Option.some.injEq] at hrs; subst hrs; exact List.mem_append_left _ hmem
    · split at hrs
      · simp only [Option.some.injEq] at hrs; subst hrs; exact List.mem_append_left _ hmem
      · cases hcs : Android.checkString [rn] ⟨ln, l.val, l.all⟩ with
        | none => simp [hcs] at hrs
        | some cs =>
          simp only [hcs, Option.map_some, Option.some.injEq] at hrs
          subst hrs
          exact List.mem_append_left _ hmem

theorem checkerOK_android (file : ObsM.File) (mergeOn : Bool) (l10nText : Array Nat) (ref l10n : List PEnt)
    (hwr : ∀ e ∈ ref, AWf e) (hwl : ∀ e ∈ l10n, AWf e) : CheckerOK (androidEnv file mergeOn l10nText) ref l10n := by
  intro r hr l hl hrj hlj
  have hlj := hlj (by simp [androidEnv])
  obtain ⟨rs, h1, h2, _⟩ := runAndroid_ok r l (hwr r hr) (hwl l hl) hrj hlj
  exact ⟨⟨_, rfl⟩, rs, by simp only [runChecker, androidEnv, h1], h2⟩

end C05Ext

/-
C15D: versions WITH a repeated key.  `OrderedDict(pairs)` collapses a repeated key before `AddRemove` ever sees the
key lists: closed form of the dict of one version for arbitrary entry lists (keys = first occurrences in order, value =
the LAST entry with the key), and the fact that every diff of the fold is computed on duplicate-free key lists.
Core Lean only.
-/
import CLModel.Proofs.C15Text
namespace C15D
open AR Merge

section dict
variable {α : Type} [BEq α] [LawfulBEq α] {β : Type}

/-- the first occurrences of the keys of a list, in order, skipping keys already `seen` -/
def firstOcc (seen : List α) : List α → List α
  | [] => []
  | a :: l => if seen.contains a then firstOcc seen l else a :: firstOcc (seen ++ [a]) l

/-- the value of the LAST pair with key `k` -/
def lastVal : List (α × β) → α → Option β
  | [], _ => none
  | p :: ps, k =>
    match lastVal ps k with
    | some v => some v
    | none => if p.1 == k then some p.2 else none

/-- keys of `OrderedDict(pairs)`: first occurrences, in order -/
theorem odFrom_keys (acc ps : List (α × β)) :
    (odFrom acc ps).map (·.1) = acc.map (·.1) ++ firstOcc (acc.map (·.1)) (ps.map (·.1)) := by
  induction ps generalizing acc with
  | nil => simp [odFrom, firstOcc]
  | cons p ps ih =>
    have := ih (dset acc p.1 p.2)
    simp only [odFrom, List.foldl_cons] at this ⊢
    rw [this, dset_keys]
    by_cases h : p.1 ∈ acc.map (·.1)
    · have hc : (acc.map (·.1)).contains p.1 = true := by simpa using h
      simp only [h, if_true, List.map_cons, firstOcc, hc]
    · have hc : (acc.map (·.1)).contains p.1 = false := by simpa using h
      simp only [h, if_false, List.map_cons, firstOcc, hc, Bool.false_eq_true, List.append_assoc,
        List.singleton_append]

/-- values of `OrderedDict(pairs)`: the last pair with the key wins -/
theorem odFrom_dget (acc ps : List (α × β)) (k : α) :
    dget (odFrom acc ps) k = match lastVal ps k with | some v => some v | none => dget acc k := by
  induction ps generalizing acc with
  | nil => simp [odFrom, lastVal]
  | cons p ps ih =>
    have := ih (dset acc p.1 p.2)
    simp only [odFrom, List.foldl_cons] at this ⊢
    rw [this, lastVal]
    cases lastVal ps k with
    | some v => rfl
    | none =>
      simp only
      rw [dget_dset]
      by_cases h : p.1 == k <;> simp [h]

end dict

/-- the last entry of a version that is stored under `entity.key = ek` -/
def lastEnt (ek : EKey) : List Ent → Option Ent
  | [] => none
  | e :: es =>
    match lastEnt ek es with
    | some x => some x
    | none => if e.keyed && e.ekey == ek then some e else none

theorem lastVal_pairs_ent (ek : EKey) : ∀ (es : List Ent) (c : List (List Nat × Nat)),
    lastVal (pairs es c) (Key.ent ek) = lastEnt ek es := by
  intro es
  induction es with
  | nil => intro _; rfl
  | cons e es ih =>
    intro c
    by_cases h1 : e.kind = .comment
    · simp only [pairs, getKeyValue_comment e c h1, lastVal, lastEnt, ih]
      cases lastEnt ek es with
      | some x => rfl
      | none => simp [Ent.keyed, h1]
    · by_cases h2 : e.kind = .whitespace
      · simp only [pairs, getKeyValue_ws e c h2, lastVal, lastEnt, ih]
        cases lastEnt ek es with
        | some x => rfl
        | none => simp [Ent.keyed, h2]
      · simp only [pairs, getKeyValue_ent e c h1 h2, lastVal, lastEnt, ih]
        cases lastEnt ek es with
        | some x => rfl
        | none =>
          have hk : e.keyed = true := by simp [Ent.keyed, h1, h2]
          by_cases he : e.ekey = ek
          · subst he; simp [hk]
          · have : (Key.ent e.ekey == Key.ent ek) = false := by
              simp only [beq_eq_false_iff_ne, ne_eq, Key.ent.injEq]; exact he
            simp [hk, he, this]

/-- CLOSED FORM of the dict `parse_resource` builds for ANY entry list (repeated keys allowed):
    the keys are the first occurrences of the `get_key_value` keys, in file order; under a key the LAST entry
    with that key is stored; in particular under an `entity.key` the last entry of the file that has it. -/
theorem versionDict_closed (v : Nat) (es : List Ent) :
    keysOf (versionDict v es) = firstOcc [] ((pairs (stamp v es) []).map (·.1)) ∧
    (∀ k, dget (versionDict v es) k = lastVal (pairs (stamp v es) []) k) ∧
    (∀ ek, dget (versionDict v es) (Key.ent ek) = lastEnt ek (stamp v es)) := by
  have hk : keysOf (versionDict v es) = firstOcc [] ((pairs (stamp v es) []).map (·.1)) := by
    unfold keysOf versionDict parseResource
    rw [orderedDict_eq, odFrom_keys]
    rfl
  have hv : ∀ k, dget (versionDict v es) k = lastVal (pairs (stamp v es) []) k := by
    intro k
    unfold versionDict parseResource
    rw [orderedDict_eq, odFrom_dget]
    cases lastVal (pairs (stamp v es) []) k <;> rfl
  exact ⟨hk, hv, fun ek => by rw [hv, lastVal_pairs_ent]⟩

/-! ### every diff of the fold sees duplicate-free key lists -/

theorem stamped_take : ∀ (ds : List Dict) (j n : Nat), Stamped j ds → Stamped j (ds.take n)
  | [], _, _, _ => by simp [Stamped]
  | d :: ds, j, 0, _ => by simp [Stamped]
  | d :: ds, j, n + 1, h => by
    rw [List.take_succ_cons]
    exact ⟨h.1, h.2.1, stamped_take ds (j + 1) n h.2.2⟩

/-- At EVERY step of `reduce(merge_two, …)` the two key lists handed to `AddRemove` are duplicate-free (a repeated key
    of a version was collapsed by `OrderedDict` when the version was parsed), so the diff is the duplicate-free closed
    form `AR.spec` (C20.addRemove_eq_spec): the misplacement `AddRemove` shows for repeated right-only keys
    (`C20.ar_eq_specD`) cannot occur inside `merge_channels`. -/
theorem diff_inputs_nodup (rs : List (List Ent)) (d0 : Dict) (ds : List Dict) (h : versionDicts rs = d0 :: ds)
    (n : Nat) (dv : Dict) (hn : ds[n]? = some dv) :
    (keysOf ((ds.take n).foldl mergeTwo d0)).Nodup ∧ (keysOf dv).Nodup ∧
    addRemove (keysOf ((ds.take n).foldl mergeTwo d0)) (keysOf dv)
      = spec (keysOf ((ds.take n).foldl mergeTwo d0)) (keysOf dv) := by
  have hst := stamped_versionDicts rs
  rw [h] at hst
  have h1 : WF ((ds.take n).foldl mergeTwo d0) :=
    fold_wf _ 1 d0 hst.1 (verEq_lt 0 d0 hst.2.1) (stamped_take ds 1 n hst.2.2)
  have h2 : WF dv := stamped_wf 1 ds hst.2.2 dv (List.mem_of_getElem? hn)
  exact ⟨h1.nodup, h2.nodup, addRemove_eq_spec _ _ h1.nodup h2.nodup⟩

end C15D

/- C02, properties round trip: a printed list of safe records parses back to exactly these records. -/
import CLModel.Proofs.C02Props
namespace P
open Rx Gen.Pat

/-- characters a "safe" properties key is made of: anything but `# ! = :` and white-space -/
def propsKeyChar (c : Nat) : Bool :=
  !(c == 35 || c == 33 || c == 32 || c == 9 || c == 13 || c == 10 || c == 61 || c == 58)

/-- at `off` the text reads key `=` value newline, key and value "safe" -/
structure RecAt (s : Array Nat) (off klen vlen : Nat) : Prop where
  klen_pos : 0 < klen
  key : ∀ j, j < klen → ∃ c, s[off + j]? = some c ∧ propsKeyChar c = true
  eq : s[off + klen]? = some 61
  val : ∀ j, j < vlen → ∃ c, s[off + klen + 1 + j]? = some c ∧ c ≠ 92 ∧ c ≠ 10
  val_head : 0 < vlen → ∃ c, s[off + klen + 1]? = some c ∧ c ≠ 32 ∧ c ≠ 9
  val_last : 0 < vlen → ∃ c, s[off + klen + vlen]? = some c ∧ c ≠ 32 ∧ c ≠ 9 ∧ c ≠ 13
  nl : s[off + klen + 1 + vlen]? = some 10

theorem keyChar_facts {c : Nat} (h : propsKeyChar c = true) :
    c ≠ 35 ∧ c ≠ 33 ∧ c ≠ 32 ∧ c ≠ 9 ∧ c ≠ 13 ∧ c ≠ 10 ∧ c ≠ 61 ∧ c ≠ 58 := by
  simp [propsKeyChar] at h
  omega

theorem comment_none (s : Array Nat) (off c : Nat) (h0 : s[off]? = some c) (h1 : c ≠ 35) (h2 : c ≠ 33) :
    matchAt s PropertiesParser_reComment off = none := by
  have hlt := getElem?_some_lt h0
  simp only [matchAt, PropertiesParser_reComment, m_seq, m_rep]
  obtain ⟨f, hf⟩ : ∃ f, s.size + 2 - off = f + 1 := ⟨s.size + 1 - off, by omega⟩
  simp only [hf]
  have hcls : ∀ k', m s (Re.cls false [ClsItem.ch 35, ClsItem.ch 33]) ⟨off, []⟩ k' = none := by
    intro k'
    rw [m_cls_apply]
    simp [h0, inC, ClsItem.has, h1, h2]
  rw [loop_body_fail]
  · exact hcls _
  · intro k'
    rw [m_seq]
    exact hcls _

theorem ws_none (s : Array Nat) (off c : Nat) (h0 : s[off]? = some c) (h1 : c ≠ 32) (h2 : c ≠ 9) (h3 : c ≠ 13) (h4 : c ≠ 10) :
    matchAt s Parser_reWhitespace off = none := by
  have hlt := getElem?_some_lt h0
  simp only [matchAt, Parser_reWhitespace, m_rep]
  obtain ⟨f, hf⟩ : ∃ f, s.size + 2 - off = f + 1 := ⟨s.size + 1 - off, by omega⟩
  simp only [hf]
  apply loop_body_fail_min
  · intro k'
    rw [m_cls_apply]
    simp [h0, inC, ClsItem.has, h1, h2, h3, h4]
  · omega

theorem blank_fail (s : Array Nat) (p c : Nat) (caps) (h0 : s[p]? = some c) (h1 : c ≠ 32) (h2 : c ≠ 9) :
    ∀ k', m s (Re.cls false [ClsItem.ch 32, ClsItem.ch 9]) ⟨p, caps⟩ k' = none := by
  intro k'
  rw [m_cls_apply]
  simp [h0, inC, ClsItem.has, h1, h2]

theorem key_match (s : Array Nat) (off klen vlen : Nat) (h : RecAt s off klen vlen) :
    matchAt s PropertiesParser_reKey off = some ⟨off + klen + 1, [(1, off, off + klen)]⟩ := by
  obtain ⟨c0, hc0, hk0⟩ := h.key 0 h.klen_pos
  have hkp := h.klen_pos
  simp only [Nat.add_zero] at hc0
  have f0 := keyChar_facts hk0
  have hsz : off + klen < s.size := getElem?_some_lt h.eq
  -- the character after `=`
  obtain ⟨cv, hcv, hcv1, hcv2⟩ : ∃ c, s[off + klen + 1]? = some c ∧ c ≠ 32 ∧ c ≠ 9 := by
    by_cases hv : 0 < vlen
    · exact h.val_head hv
    · have : vlen = 0 := by omega
      have hn := h.nl
      rw [this] at hn
      exact ⟨10, hn, by decide, by decide⟩
  have hsz2 : off + klen + 1 < s.size := getElem?_some_lt hcv
  simp only [matchAt, PropertiesParser_reKey, m_seq, m_group, m_rep]
  rw [m_cls_apply]
  simp only [hc0]
  have hin0 : inC true [ClsItem.ch 35, ClsItem.ch 33, ClsItem.ch 32, ClsItem.ch 9, ClsItem.ch 13, ClsItem.ch 10] c0 = true := by
    simp [inC, ClsItem.has, f0]
  simp only [hin0, if_true]
  -- the lazy star
  have hfuel : s.size + 2 - (off + 1) = (s.size - off - klen + 1 + 1) + (klen - 1) := by omega
  rw [hfuel, loop_lazy_skip s true _ [] _ (klen - 1) _ (off + 1)]
  · rw [show off + 1 + (klen - 1) = off + klen by omega]
    apply loop_lazy_stop
    -- the continuation at the `=`
    simp only []
    obtain ⟨f1, hf1⟩ : ∃ f, s.size + 2 - (off + klen) = f + 1 := ⟨s.size + 1 - (off + klen), by omega⟩
    rw [hf1, loop_body_fail _ _ _ _ _ _ (blank_fail s (off + klen) 61 _ h.eq (by decide) (by decide))]
    rw [m_cls_apply]
    simp only [h.eq]
    have : inC false [ClsItem.ch 58, ClsItem.ch 61] 61 = true := by decide
    simp only [this, if_true]
    obtain ⟨f2, hf2⟩ : ∃ f, s.size + 2 - (off + klen + 1) = f + 1 := ⟨s.size + 1 - (off + klen + 1), by omega⟩
    rw [hf2, loop_body_fail _ _ _ _ _ _ (blank_fail s (off + klen + 1) cv _ hcv hcv1 hcv2)]
  · intro j hj
    obtain ⟨c, hc, hkc⟩ := h.key (j + 1) (by omega)
    rw [show off + (j + 1) = off + 1 + j by omega] at hc
    have fc := keyChar_facts hkc
    refine ⟨⟨c, hc, by simp [inC, ClsItem.has, fc]⟩, ?_⟩
    simp only []
    have hlt := getElem?_some_lt hc
    obtain ⟨f1, hf1⟩ : ∃ f, s.size + 2 - (off + 1 + j) = f + 1 := ⟨s.size + 1 - (off + 1 + j), by omega⟩
    rw [hf1, loop_body_fail _ _ _ _ _ _ (blank_fail s (off + 1 + j) c _ hc fc.2.2.1 fc.2.2.2.1)]
    rw [m_cls_apply]
    simp [hc, inC, ClsItem.has, fc]

theorem extract_get_lt (s : Array Nat) (nl q : Nat) (h : q < nl) (h2 : nl ≤ s.size) : (s.extract 0 nl)[q]? = s[q]? := by
  rw [Array.getElem?_extract]
  have : q < min nl s.size - 0 := by omega
  rw [if_pos this]; simp

theorem extract_get_ge (s : Array Nat) (nl q : Nat) (h : nl ≤ q) : (s.extract 0 nl)[q]? = none := by
  rw [Array.getElem?_extract]
  have : ¬ q < min nl s.size - 0 := by omega
  rw [if_neg this]

theorem findNl_at (s : Array Nat) (p n : Nat) (h : ∀ j, j < n → ∃ c, s[p + j]? = some c ∧ c ≠ 10)
    (hn : s[p + n]? = some 10) : findNl s p = some (p + n) := by
  have hlt := getElem?_some_lt hn
  unfold findNl
  apply findSome_range _ _ (s.size - p) n (by omega)
  · intro i hi
    obtain ⟨c, hc, hne⟩ := h i hi
    simp [hc, hne]
  · simp [hn]

theorem escapedEnd_none (s : Array Nat) (p n : Nat) (h : ∀ j, j < n → ∃ c, s[p + j]? = some c ∧ c ≠ 92)
    (hle : p + n ≤ s.size) : search (s.extract 0 (p + n)) PropertiesParser__escapedEnd p = none := by
  apply search_none_c02
  intro q hq1 hq2
  have hsz : (s.extract 0 (p + n)).size = p + n := by simp; omega
  rw [hsz] at hq2
  simp only [matchAt, PropertiesParser__escapedEnd, m_seq, m_rep]
  obtain ⟨f, hf⟩ : ∃ f, (s.extract 0 (p + n)).size + 2 - q = f + 1 := ⟨p + n + 1 - q, by omega⟩
  rw [hf]
  apply loop_body_fail_min _ _ _ _ _ _ _ _ (by omega)
  intro k'
  rw [m_lit]
  by_cases hq : q < p + n
  · obtain ⟨c, hc, hne⟩ := h (q - p) (by omega)
    rw [show p + (q - p) = q by omega] at hc
    simp [extract_get_lt s (p + n) q hq hle, hc, hne]
  · simp [extract_get_ge s (p + n) q (by omega)]

theorem propsLines_simple (s : Array Nat) (p n : Nat)
    (h : ∀ j, j < n → ∃ c, s[p + j]? = some c ∧ c ≠ 92 ∧ c ≠ 10) (hn : s[p + n]? = some 10) :
    propsLines s (s.size + 1) p p = (p + n, p) := by
  have hlt := getElem?_some_lt hn
  rw [propsLines, findNl_at s p n (fun j hj => by obtain ⟨c, hc, _, h2⟩ := h j hj; exact ⟨c, hc, h2⟩) hn]
  simp only []
  rw [escapedEnd_none s p n (fun j hj => by obtain ⟨c, hc, h1, _⟩ := h j hj; exact ⟨c, hc, h1⟩) (by omega)]

theorem run_le_stop (s : Array Nat) (neg : Bool) (items : List ClsItem) :
    ∀ fuel q e, q ≤ e → (∃ c, s[e]? = some c ∧ inC neg items c = false) → q + run s neg items fuel q ≤ e := by
  intro fuel
  induction fuel with
  | zero => intro q e h _; simp [run]; exact h
  | succ f ih =>
    intro q e hqe hstop
    rw [run]
    cases hq : s[q]? with
    | none => simpa using hqe
    | some c =>
      simp only []
      by_cases hin : inC neg items c = true
      · simp only [hin, if_true]
        have hne : q ≠ e := by
          intro heq; subst heq
          obtain ⟨c', hc', hin'⟩ := hstop
          rw [hq] at hc'; cases hc'; rw [hin] at hin'; cases hin'
        have := ih (q + 1) e (by omega) hstop
        omega
      · simp [hin]; exact hqe

theorem run_le_size (s : Array Nat) (neg : Bool) (items : List ClsItem) :
    ∀ fuel q, run s neg items fuel q ≤ s.size - q := by
  intro fuel
  induction fuel with
  | zero => intro q; simp [run]
  | succ f ih =>
    intro q
    rw [run]
    cases hq : s[q]? with
    | none => simp
    | some c =>
      have hlt := getElem?_some_lt hq
      simp only []
      split
      · have := ih (q + 1); omega
      · omega

def ws4 : List ClsItem := [ClsItem.ch 32, ClsItem.ch 9, ClsItem.ch 13, ClsItem.ch 10]

theorem trailingWS_match (s : Array Nat) (q : Nat) (hq : q ≤ s.size) :
    matchAt s PropertiesParser__trailingWS q =
      firstSome (fun j => (m s (Re.lit 10) ⟨j, []⟩ some).orElse (fun _ => m s Re.eos ⟨j, []⟩ some))
        (downFrom q (run s false ws4 (s.size + 2 - q) q)) := by
  simp only [matchAt, PropertiesParser__trailingWS, m_seq, m_rep, m_alt]
  have hlt : run s false ws4 (s.size + 2 - q) q < s.size + 2 - q := by
    have := run_le_size s false ws4 (s.size + 2 - q) q
    omega
  exact star_greedy_cls s false ws4 [] _ (s.size + 2 - q) q hlt

theorem trailingWS_at (s : Array Nat) (p n : Nat)
    (hval : ∀ j, j < n → ∃ c, s[p + j]? = some c ∧ c ≠ 10)
    (hlast : 0 < n → ∃ c, s[p + n - 1]? = some c ∧ c ≠ 32 ∧ c ≠ 9 ∧ c ≠ 13 ∧ c ≠ 10)
    (hn : s[p + n]? = some 10) :
    ∃ st, search s PropertiesParser__trailingWS p = some (p + n, st) := by
  have hsz := getElem?_some_lt hn
  have hsome : (matchAt s PropertiesParser__trailingWS (p + n)).isSome := by
    rw [trailingWS_match s _ (by omega)]
    apply firstSome_isSome _ _ (p + n) ((mem_downFrom_c02 _ _ _).mpr ⟨Nat.le_refl _, by omega⟩)
    simp [m_lit, hn]
  obtain ⟨st, hst⟩ := Option.isSome_iff_exists.mp hsome
  refine ⟨st, search_first s _ st n p (by omega) ?_ hst⟩
  intro q hq1 hq2
  rw [trailingWS_match s _ (by omega)]
  apply firstSome_none
  intro j hj
  rw [mem_downFrom_c02] at hj
  obtain ⟨cl, hcl, h1, h2, h3, h4⟩ := hlast (by omega)
  have hstop : q + run s false ws4 (s.size + 2 - q) q ≤ p + n - 1 :=
    run_le_stop s false ws4 _ q (p + n - 1) (by omega) ⟨cl, hcl, by simp [inC, ws4, ClsItem.has, h1, h2, h3, h4]⟩
  obtain ⟨c, hc, hne⟩ := hval (j - p) (by omega)
  rw [show p + (j - p) = j by omega] at hc
  have hjs : j ≠ s.size := by omega
  simp [m_lit, m_eos, hc, hne, hjs]

/-- the entity the code must produce for a record at `off` -/
def propsEntity_c02 (off klen vlen : Nat) : Entry :=
  { kind := .entity, full := off, s := off, e := off + klen + 1 + vlen, ks := off, ke := (off + klen : Nat),
    vs := (off + klen + 1 : Nat), ve := (off + klen + 1 + vlen : Nat), pc := none }

theorem props_entity_at (s : Array Nat) (off klen vlen : Nat) (h : RecAt s off klen vlen) :
    propsGetNext s off = propsEntity_c02 off klen vlen := by
  obtain ⟨c0, hc0, hk0⟩ := h.key 0 h.klen_pos
  simp only [Nat.add_zero] at hc0
  have f0 := keyChar_facts hk0
  have hcm := comment_none s off c0 hc0 f0.1 f0.2.1
  have hws := ws_none s off c0 hc0 f0.2.2.1 f0.2.2.2.1 f0.2.2.2.2.1 f0.2.2.2.2.2.1
  have hkm := key_match s off klen vlen h
  have hlines := propsLines_simple s (off + klen + 1) vlen h.val h.nl
  obtain ⟨st, htw⟩ := trailingWS_at s (off + klen + 1) vlen
    (fun j hj => by obtain ⟨c, hc, _, h2⟩ := h.val j hj; exact ⟨c, hc, h2⟩)
    (fun hv => by
      obtain ⟨c, hc, h1, h2, h3⟩ := h.val_last hv
      obtain ⟨c', hc', _, h4⟩ := h.val (vlen - 1) (by omega)
      rw [show off + klen + 1 + (vlen - 1) = off + klen + vlen by omega, hc] at hc'
      cases hc'
      exact ⟨c, by rw [show off + klen + 1 + vlen - 1 = off + klen + vlen by omega]; exact hc, h1, h2, h3, h4⟩)
    h.nl
  unfold propsGetNext
  simp only [hcm, hws, hkm, hlines, htw]
  simp [propsEntity_c02, spanI, St.group, capOf, PropertiesParser_reKey_g_key]

/-! ### the white-space entry between two records -/

def wsEntry (nl : Nat) : Entry :=
  { kind := .whitespace, full := nl, s := nl, e := nl + 1, ks := (nl : Nat), ke := (nl + 1 : Nat),
    vs := (nl : Nat), ve := (nl + 1 : Nat) }

theorem props_ws_at (s : Array Nat) (nl : Nat) (h0 : s[nl]? = some 10)
    (h1 : s[nl + 1]? = none ∨ ∃ c, s[nl + 1]? = some c ∧ c ≠ 32 ∧ c ≠ 9 ∧ c ≠ 13 ∧ c ≠ 10) :
    propsGetNext s nl = wsEntry nl := by
  have hlt := getElem?_some_lt h0
  have hcm := comment_none s nl 10 h0 (by decide) (by decide)
  have hrun : runLen (inC false ws4) none (s.toList.drop nl) = 1 := by
    rcases drop_view s nl with ⟨hn, _, _⟩ | ⟨c, hc, _, hd⟩
    · rw [hn] at h0; cases h0
    · rw [h0] at hc; cases hc
      rw [hd]
      have e10 : inC false ws4 10 = true := by decide
      simp only [runLen, show ((none : Option Nat) == some 0) = false from rfl, Bool.false_eq_true, if_false, e10, if_true,
        Option.map_none]
      rcases drop_view s (nl + 1) with ⟨_, _, hd1⟩ | ⟨c1, hc1, _, hd1⟩
      · rw [hd1]; simp [runLen]
      · rw [hd1]
        rcases h1 with h1 | ⟨c, hc, a1, a2, a3, a4⟩
        · rw [h1] at hc1; cases hc1
        · rw [hc] at hc1; cases hc1
          have : inC false ws4 c1 = false := by simp [inC, ws4, ClsItem.has, a1, a2, a3, a4]
          simp [runLen, this]
  have hws : matchAt s Parser_reWhitespace nl = some ⟨nl + 1, []⟩ := by
    simp only [matchAt, Parser_reWhitespace, m_rep]
    have hf : runLen (inC false ws4) none (s.toList.drop nl) < s.size + 2 - nl := by rw [hrun]; omega
    have := loop_greedy_total s false ws4 [] some (by intro st; simp) (s.size + 2 - nl) 1 none nl hf
    rw [hrun] at this
    simpa [ws4] using this
  unfold propsGetNext
  simp only [hcm, hws]
  simp [wsEntry]

/-! ### a printed list of records -/

abbrev PRec := List Nat × List Nat

def printRec (r : PRec) : List Nat := r.1 ++ 61 :: (r.2 ++ [10])

def printProps (rs : List PRec) : List Nat := (rs.map printRec).flatten

/-- non-empty key of safe characters; value without backslash and newline that neither starts nor ends in a blank
    (nor ends in a carriage return) -/
structure SafeRec (r : PRec) : Prop where
  key_ne : r.1 ≠ []
  key : ∀ c ∈ r.1, propsKeyChar c = true
  val : ∀ c ∈ r.2, c ≠ 92 ∧ c ≠ 10
  val_head : ∀ c, r.2.head? = some c → c ≠ 32 ∧ c ≠ 9
  val_last : ∀ c, r.2.getLast? = some c → c ≠ 32 ∧ c ≠ 9 ∧ c ≠ 13

def expEntries : Nat → List PRec → List Entry
  | _, [] => []
  | off, r :: rs =>
    propsEntity_c02 off r.1.length r.2.length :: wsEntry (off + r.1.length + 1 + r.2.length) ::
      expEntries (off + r.1.length + 1 + r.2.length + 1) rs

theorem get_of_drop (s : Array Nat) (off i : Nat) (l : List Nat) (h : s.toList.drop off = l) :
    s[off + i]? = l[i]? := by
  rw [← h, List.getElem?_drop]
  simp

theorem recAt_of_drop (s : Array Nat) (off : Nat) (r : PRec) (rest : List Nat) (hs : SafeRec r)
    (h : s.toList.drop off = printRec r ++ rest) : RecAt s off r.1.length r.2.length := by
  have g := fun i => get_of_drop s off i _ h
  have hkl : 0 < r.1.length := List.length_pos_iff.mpr hs.key_ne
  unfold printRec at g
  refine ⟨hkl, ?_, ?_, ?_, ?_, ?_, ?_⟩
  · intro j hj
    refine ⟨r.1[j], ?_, hs.key _ (List.getElem_mem _)⟩
    rw [g j, List.append_assoc, List.getElem?_append_left hj]
    simp
  · rw [g r.1.length, List.append_assoc, List.getElem?_append_right (Nat.le_refl _)]
    simp
  · intro j hj
    have hm : r.2[j] ∈ r.2 := List.getElem_mem _
    refine ⟨r.2[j], ?_, hs.val _ hm⟩
    rw [show off + r.1.length + 1 + j = off + (r.1.length + 1 + j) by omega, g, List.append_assoc,
      List.getElem?_append_right (by omega), show r.1.length + 1 + j - r.1.length = j + 1 by omega]
    simp [List.getElem?_append_left hj]
  · intro hv
    have hh : r.2.head? = some r.2[0] := by
      rw [List.head?_eq_getElem?]
      simp [hv]
    refine ⟨r.2[0], ?_, hs.val_head _ hh⟩
    rw [show off + r.1.length + 1 = off + (r.1.length + 1) by omega, g, List.append_assoc,
      List.getElem?_append_right (by omega), show r.1.length + 1 - r.1.length = 0 + 1 by omega]
    simp [List.getElem?_append_left hv]
  · intro hv
    have hl : r.2.getLast? = some r.2[r.2.length - 1] := by
      rw [List.getLast?_eq_getElem?]
      simp [show r.2.length - 1 < r.2.length by omega]
    refine ⟨r.2[r.2.length - 1], ?_, hs.val_last _ hl⟩
    rw [show off + r.1.length + r.2.length = off + (r.1.length + r.2.length) by omega, g, List.append_assoc,
      List.getElem?_append_right (by omega),
      show r.1.length + r.2.length - r.1.length = (r.2.length - 1) + 1 by omega]
    simp [List.getElem?_append_left (show r.2.length - 1 < r.2.length by omega)]
  · rw [show off + r.1.length + 1 + r.2.length = off + (r.1.length + 1 + r.2.length) by omega, g, List.append_assoc,
      List.getElem?_append_right (by omega), show r.1.length + 1 + r.2.length - r.1.length = r.2.length + 1 by omega]
    simp

theorem printRec_length (r : PRec) : (printRec r).length = r.1.length + 1 + r.2.length + 1 := by
  simp [printRec]; omega

theorem walk_props_from (s : Array Nat) :
    ∀ (rs : List PRec) (off fuel : Nat), s.toList.drop off = printProps rs → (∀ r ∈ rs, SafeRec r) →
      2 * rs.length ≤ fuel →
      walkFrom (fun (_ : Unit) o => (propsGetNext s o, ())) s.size fuel () off = .done (expEntries off rs) := by
  intro rs
  induction rs with
  | nil =>
    intro off fuel h _ _
    have hge : off ≥ s.size := by
      have h' : s.toList.drop off = [] := by simpa [printProps] using h
      have := List.drop_eq_nil_iff.mp h'
      simpa using this
    cases fuel <;> simp [walkFrom, hge, expEntries]
  | cons r rs ih =>
    intro off fuel h hsafe hfuel
    have hpp : printProps (r :: rs) = printRec r ++ printProps rs := by simp [printProps]
    rw [hpp] at h
    have hrec := recAt_of_drop s off r _ (hsafe r (by simp)) h
    obtain ⟨f, rfl⟩ : ∃ f, fuel = f + 2 := ⟨fuel - 2, by simp at hfuel; omega⟩
    have hnl := hrec.nl
    have hnlt := getElem?_some_lt hnl
    have hdrop : s.toList.drop (off + r.1.length + 1 + r.2.length + 1) = printProps rs := by
      have := congrArg (List.drop (printRec r).length) h
      rw [List.drop_drop, List.drop_left, printRec_length] at this
      rw [← this]; congr 1; omega
    have hnext : s[off + r.1.length + 1 + r.2.length + 1]? = none ∨
        ∃ c, s[off + r.1.length + 1 + r.2.length + 1]? = some c ∧ c ≠ 32 ∧ c ≠ 9 ∧ c ≠ 13 ∧ c ≠ 10 := by
      have g := get_of_drop s (off + r.1.length + 1 + r.2.length + 1) 0 _ hdrop
      simp only [Nat.add_zero] at g
      cases rs with
      | nil => left; simpa [printProps] using g
      | cons r' rs' =>
        right
        have hs' := hsafe r' (by simp)
        have hkl : 0 < r'.1.length := List.length_pos_iff.mpr hs'.key_ne
        have f0 := keyChar_facts (hs'.key r'.1[0] (List.getElem_mem _))
        refine ⟨r'.1[0], ?_, f0.2.2.1, f0.2.2.2.1, f0.2.2.2.2.1, f0.2.2.2.2.2.1⟩
        rw [g]
        simp [printProps, printRec, List.getElem?_append_left hkl]
    have e1 : propsGetNext s off = propsEntity_c02 off r.1.length r.2.length := props_entity_at s off _ _ hrec
    have e2 := props_ws_at s (off + r.1.length + 1 + r.2.length) hnl hnext
    have hoff : ¬ off ≥ s.size := by omega
    have hoff2 : ¬ off + r.1.length + 1 + r.2.length ≥ s.size := by omega
    rw [walkFrom]
    simp only [hoff, if_false, e1]
    rw [show (propsEntity_c02 off r.1.length r.2.length).e = off + r.1.length + 1 + r.2.length from rfl, walkFrom]
    simp only [hoff2, if_false, e2]
    rw [show (wsEntry (off + r.1.length + 1 + r.2.length)).e = off + r.1.length + 1 + r.2.length + 1 from rfl,
      ih _ f hdrop (fun r' hr' => hsafe r' (by simp [hr'])) (by simp at hfuel; omega)]
    simp [WalkResult.cons, expEntries]

/-- the whole printed file -/
theorem walk_props_printed (rs : List PRec) (h : ∀ r ∈ rs, SafeRec r) :
    walk .properties (printProps rs).toArray = .done (expEntries 0 rs) := by
  unfold walk
  simp only []
  apply walk_props_from
  · simp
  · exact h
  · have : (printProps rs).length ≥ 2 * rs.length := by
      clear h
      induction rs with
      | nil => simp
      | cons r rs ih =>
        have : printProps (r :: rs) = printRec r ++ printProps rs := by simp [printProps]
        rw [this, List.length_append, printRec_length]
        simp; omega
    simp; omega

/-! ### what the entries evaluate to -/

/-- the views (key, raw value, value, attached comment) of the entities among the entries -/
def entitiesOf (f : Fmt) (s : Array Nat) (es : List Entry) : List (Option EntView) :=
  (es.filter (fun e => e.kind == .entity)).map (entView f s)

/-- the texts of the junk entries -/
def junkOf (s : Array Nat) (es : List Entry) : List (List Nat) :=
  (es.filter (fun e => e.kind == .junk)).map (fun e => slice s e.s e.e)

def expectedView (r : PRec) : Option EntView :=
  some { key := r.1, raw := r.2, val := some r.2, comment := none }

theorem spec_id : ∀ (l : List Nat), (∀ c ∈ l, c ≠ 92) → propsUnescapeSpec l = l := by
  intro l
  induction l with
  | nil => intro _; exact spec_nil
  | cons c t ih =>
    intro h
    rw [spec_cons_ne c t (h c (by simp)), ih (fun d hd => h d (by simp [hd]))]

theorem pySlice_nat (s : Array Nat) (a b : Nat) (ha : a ≤ s.size) (hb : b ≤ s.size) :
    pySlice s (a : Int) (b : Int) = slice s a b := by
  unfold pySlice pyIndex
  have h1 : ¬ ((a : Int) < 0) := by omega
  have h2 : ¬ ((b : Int) < 0) := by omega
  simp only [h1, h2, if_false, Int.toNat_natCast]
  rw [Nat.min_eq_left ha, Nat.min_eq_left hb]

theorem entView_propsEntity (s : Array Nat) (off : Nat) (r : PRec) (rest : List Nat) (hs : SafeRec r)
    (h : s.toList.drop off = printRec r ++ rest) :
    entView .properties s (propsEntity_c02 off r.1.length r.2.length) = expectedView r := by
  have hlen : (printRec r ++ rest).length = s.size - off := by rw [← h]; simp
  rw [List.length_append, printRec_length] at hlen
  have hk : slice s off (off + r.1.length) = r.1 := by
    rw [slice_take s off r.1.length _ h (by rw [List.length_append, printRec_length]; omega)]
    simp [printRec]
  have hd2 : s.toList.drop (off + r.1.length + 1) = r.2 ++ ([10] ++ rest) := by
    have := congrArg (List.drop (r.1.length + 1)) h
    rw [List.drop_drop] at this
    rw [show off + r.1.length + 1 = off + (r.1.length + 1) by omega, this]
    simp [printRec, List.drop_append]
  have hv : slice s (off + r.1.length + 1) (off + r.1.length + 1 + r.2.length) = r.2 := by
    rw [slice_take s _ r.2.length _ hd2 (by simp)]
    simp
  have hval : propsVal r.2 = some r.2 := by
    rw [propsVal_eq_spec, spec_id r.2 (fun c hc => (hs.val c hc).1)]
  simp only [entView, propsEntity_c02, expectedView]
  rw [show ((off + r.1.length : Nat) : Int) = ((off + r.1.length : Nat) : Int) from rfl]
  rw [pySlice_nat s off (off + r.1.length) (by omega) (by omega),
    pySlice_nat s (off + r.1.length + 1) (off + r.1.length + 1 + r.2.length) (by omega) (by omega), hk, hv, hval]
  rfl

theorem entitiesOf_expEntries (s : Array Nat) :
    ∀ (rs : List PRec) (off : Nat), s.toList.drop off = printProps rs → (∀ r ∈ rs, SafeRec r) →
      entitiesOf .properties s (expEntries off rs) = rs.map expectedView ∧ junkOf s (expEntries off rs) = [] := by
  intro rs
  induction rs with
  | nil => intro off _ _; simp [entitiesOf, junkOf, expEntries]
  | cons r rs ih =>
    intro off h hsafe
    have hpp : printProps (r :: rs) = printRec r ++ printProps rs := by simp [printProps]
    rw [hpp] at h
    have hdrop : s.toList.drop (off + r.1.length + 1 + r.2.length + 1) = printProps rs := by
      have := congrArg (List.drop (printRec r).length) h
      rw [List.drop_drop, List.drop_left, printRec_length] at this
      rw [← this]; congr 1; omega
    obtain ⟨ih1, ih2⟩ := ih _ hdrop (fun r' hr' => hsafe r' (by simp [hr']))
    have hv := entView_propsEntity s off r _ (hsafe r (by simp)) h
    constructor
    · simp only [entitiesOf] at ih1 ⊢
      simp only [expEntries, List.map_cons]
      rw [List.filter_cons_of_pos (by simp [propsEntity_c02]), List.filter_cons_of_neg (by simp [wsEntry]),
        List.map_cons, hv, ih1]
    · simp only [junkOf] at ih2 ⊢
      simp only [expEntries]
      rw [List.filter_cons_of_neg (by simp [propsEntity_c02]), List.filter_cons_of_neg (by simp [wsEntry]), ih2]
end P

/-
C13 helper lemmas: `mozpath.dirname` and the directory `_files` walks.
-/
import CLModel.Paths.ProjectFiles
namespace PF

theorem headOf_prefix : ∀ (p : Path), headOf p <+: p
  | [] => by simp [headOf]
  | c :: cs => by
    have ih := headOf_prefix cs
    simp only [headOf]
    split
    · split
      · exact ⟨cs, rfl⟩
      · exact List.nil_prefix
    · exact (List.prefix_cons_inj c).2 ih

theorem headOf_ne_nil : ∀ {p : Path}, 47 ∈ p → headOf p ≠ []
  | [], h => by simp at h
  | c :: cs, h => by
    simp only [headOf]
    split
    · rename_i he
      split
      · simp
      · rename_i hc
        rcases List.mem_cons.1 h with h | h
        · exact absurd (by simp [← h]) hc
        · have := headOf_ne_nil h
          simp only [List.isEmpty_iff] at he
          exact absurd he this
    · simp

theorem headOf_getLast : ∀ {p : Path}, headOf p ≠ [] → (headOf p).getLast? = some 47
  | [], h => by simp [headOf] at h
  | c :: cs, h => by
    simp only [headOf] at h ⊢
    split
    · rename_i he
      split
      · rename_i hc
        simp only [beq_iff_eq] at hc
        simp [hc]
      · rename_i hc
        simp [he, hc] at h
    · rename_i he
      have hne : headOf cs ≠ [] := by simpa [List.isEmpty_iff] using he
      rw [List.getLast?_cons_of_ne_nil hne]
      exact headOf_getLast hne

theorem rstripSlash_decomp : ∀ (h : Path), ∃ k, h = rstripSlash h ++ List.replicate k 47
  | [] => ⟨0, by simp [rstripSlash]⟩
  | c :: cs => by
    obtain ⟨k, hk⟩ := rstripSlash_decomp cs
    simp only [rstripSlash]
    split
    · rename_i he
      simp only [Bool.and_eq_true, List.isEmpty_iff, beq_iff_eq] at he
      refine ⟨k + 1, ?_⟩
      rw [he.1] at hk
      simp only [List.nil_append] at hk ⊢
      rw [hk, he.2, List.replicate_succ]
    · exact ⟨k, by rw [List.cons_append, ← hk]⟩

theorem rstripSlash_getLast : ∀ {h : Path}, (rstripSlash h).getLast? ≠ some 47
  | [] => by simp [rstripSlash]
  | c :: cs => by
    simp only [rstripSlash]
    split
    · simp
    · rename_i he
      by_cases ht : rstripSlash cs = []
      · simp only [ht, List.getLast?_singleton, ne_eq, Option.some.injEq]
        intro hc
        simp [ht, hc] at he
      · rw [List.getLast?_cons_of_ne_nil ht]
        exact rstripSlash_getLast

theorem rstripSlash_nil : ∀ {h : Path}, rstripSlash h = [] → h.all (· == 47) = true
  | [], _ => rfl
  | c :: cs, h => by
    simp only [rstripSlash] at h
    split at h
    · rename_i he
      simp only [Bool.and_eq_true, List.isEmpty_iff, beq_iff_eq] at he
      simp [he.2, rstripSlash_nil he.1]
    · simp at h

theorem dirname_ne_nil {p : Path} (h : 47 ∈ p) : dirname p ≠ [] := by
  unfold dirname
  simp only
  split
  · exact headOf_ne_nil h
  · rename_i hall
    intro hn
    exact hall (rstripSlash_nil hn)

/-- everything that starts with a rooted string lies under that string's dirname -/
theorem isUnder_dirname {pre p : Path} (hp : pre <+: p) (hs : 47 ∈ pre) : isUnder (dirname pre) p = true := by
  have hhead : headOf pre <+: p := (headOf_prefix pre).trans hp
  have hne := headOf_ne_nil hs
  have hlast := headOf_getLast hne
  unfold isUnder
  rw [List.isPrefixOf_iff_prefix]
  unfold dirname
  simp only
  split
  · unfold dirPrefix
    simp [hlast, hhead]
  · obtain ⟨k, hk⟩ := rstripSlash_decomp (headOf pre)
    unfold dirPrefix
    have hnl : ((rstripSlash (headOf pre)).getLast? == some 47) = false := by
      simpa using rstripSlash_getLast (h := headOf pre)
    simp only [hnl, Bool.false_eq_true, if_false]
    cases k with
    | zero =>
      simp only [List.replicate_zero, List.append_nil] at hk
      rw [← hk, hlast] at hnl
      simp at hnl
    | succ k =>
      refine List.IsPrefix.trans ⟨List.replicate k 47, ?_⟩ hhead
      rw [List.append_assoc, List.singleton_append, ← List.replicate_succ]
      exact hk.symm

/-- … and under the directory `_files` walks -/
theorem isUnder_walkBase {pre p : Path} (hp : pre <+: p) (hs : 47 ∈ pre) :
    walkBase pre ≠ [] ∧ isUnder (walkBase pre) p = true := by
  unfold walkBase
  split
  · rename_i hl
    simp only [beq_iff_eq] at hl
    refine ⟨?_, ?_⟩
    · intro hn; rw [hn] at hl; simp at hl
    · unfold isUnder dirPrefix
      simp [hl, List.isPrefixOf_iff_prefix, hp]
  · exact ⟨dirname_ne_nil hs, isUnder_dirname hp hs⟩

end PF

/-
C17 helper lemmas, part 9 (round 4): every result of the composed lint pipeline `Pipe.lintText`
(`L10nLinter.lint_file`, C05/C19 models) is explained: which entry of the parsed file it belongs to and which offset
of the text its (lineno, column) denotes.
-/
import CLModel.Proofs.C17Resolve
import CLModel.Proofs.C17Lint
import CLModel.Proofs.C05Lint
namespace C17P
open Pos Pipe

/-- the four numbers and the quoted text of `Junk.error_message()` for the span `[a, b)` of `s` -/
def junkText (s : Array Nat) (a b : Nat) : Text :=
  Lint.interleave Gen.Tables.junkMessageParts
    [P.slice s a b, Lint.showInt (cursor s a).1, Lint.showInt (cursor s a).2,
     Lint.showInt (cursor s b).1, Lint.showInt (cursor s b).2]

/-- why a lint result is where it is -/
inductive LintWhy (s : Array Nat) (pe : PEnt) (r : Lint.Result) : Prop
  /-- unparsed content: reported at the start of the junk; the message names start AND end of the junk span -/
  | junk (hj : pe.junk = true) (hpos : (r.lineno, r.column) = castLC (cursor s pe.entry.s))
      (hmsg : r.message = junkText s pe.entry.s pe.entry.e)
  /-- "Duplicate string with ID" / "Changes to string require a new ID": at the start of THIS occurrence -/
  | start (hj : pe.junk = false) (hpos : (r.lineno, r.column) = castLC (cursor s pe.entry.s))
      (hmsg : r.message = Gen.Tables.lintDupPrefix ++ keyText pe.key ∨
              r.message = Gen.Tables.lintChangedPrefix ++ keyText pe.key ++ Gen.Tables.lintChangedSuffix)
  /-- a checker finding -/
  | check (hj : pe.junk = false) (ht : Target s pe.entry (r.lineno, r.column))

theorem clsOf_plain {fmt : P.Fmt} (hf : fmt ≠ .dtd) : clsOf fmt = .plain := by
  cases fmt <;> first | rfl | exact absurd rfl hf

/-- the entity the linter model sees, for the base `Entity` / `Junk` classes (ini, inc, po, properties) -/
theorem toLintEnt_fields (ck : CkCtx) (vals : List Text) (pe : PEnt) (le : Lint.Ent)
    (h : toLintEnt ck .plain vals pe = .ok le) :
    le.s = pe.entry.s ∧ le.e = pe.entry.e ∧ le.mode = .ctx ∧ le.key = keyText pe.key ∧
    (pe.junk = true → le.kind = .junk) ∧
    (pe.junk = false → le.kind = .entity ∧ le.vs = valSpan false pe.entry ∧
      ∃ rs, runChecker ck pe pe = .ok rs ∧ le.checks = rs.map toLintCheck) := by
  unfold toLintEnt at h
  split at h
  · rename_i hj
    cases h
    exact ⟨rfl, rfl, rfl, rfl, fun _ => rfl, fun hh => by rw [hj] at hh; cases hh⟩
  · rename_i hj
    split at h
    · cases h
    · rename_i rs hrs
      cases h
      exact ⟨rfl, rfl, rfl, rfl, fun hh => absurd hh hj, fun _ => ⟨rfl, rfl, rs, hrs, rfl⟩⟩

/-- the position the linter computes for a check tuple is what `Pos.resolveCheckPos` gives on the parser entry -/
theorem checkResult_resolve (s : Array Nat) (le : Lint.Ent) (e : P.Entry) (hm : le.mode = .ctx)
    (hs : le.s = e.s) (he : le.e = e.e) (hvs : le.vs = valSpan false e) (cr : CheckRes) (x : Lint.Result)
    (h : Lint.checkResult (Lint.lineEnds s.toList) le (toLintCheck cr) = .ok x) :
    resolveCheckPos s .plain e cr.pos = some (x.lineno, x.column) := by
  unfold Lint.checkResult at h
  cases hp : cr.pos with
  | entityPos n =>
    simp only [toLintCheck, hp] at h
    cases h
    simp only [resolveCheckPos]
    exact (lint_position_eq s le e (by rw [hm]; decide) hs he n).symm
  | offset n =>
    simp only [toLintCheck, hp, Lint.valuePosition, hm, Lint.baseValuePosition] at h
    simp only [resolveCheckPos, valuePosition, ← hvs]
    cases hv : le.vs with
    | none => rw [hv] at h; cases h
    | some ab =>
      obtain ⟨a, b⟩ := ab
      rw [hv] at h
      simp only [Except.ok.injEq] at h
      cases h
      simp only
      exact (lint_linecol_eq s _).symm
  | tuple l c =>
    simp only [toLintCheck, hp, Lint.valuePosition, hm] at h
    cases h

theorem lintFile_explained (fmt : P.Fmt) (hfd : fmt ≠ .dtd) (ck : CkCtx) (hck : ck.kind = checkerOf fmt)
    (s : Array Nat) (cur : List PEnt) (hfacts : ∀ pe ∈ cur, EntFacts fmt s pe) (vals : List Text)
    (ents : List Lint.Ent) (hents : mapE (toLintEnt ck .plain vals) cur = .ok ents)
    (F : Lint.FileIn) (hFc : F.contents = s) (hFcur : F.cur = ents)
    (rs : List Lint.Result) (hlint : Lint.lintFile F = .ok rs) :
    ∀ r ∈ rs, ∃ pe ∈ cur, LintWhy s pe r := by
  intro r hr
  obtain ⟨rss, hall, rfl⟩ := (Lint.lintFile_spec _ rs).1 hlint
  obtain ⟨rl, hrl, hrin⟩ := List.mem_flatten.1 hr
  obtain ⟨le, hle, hres⟩ := hall.mem_right hrl
  rw [hFcur] at hle
  obtain ⟨pe, hpe, hto⟩ := (mapE_mem hents).1 le hle
  obtain ⟨hs, he, hm, hkey, hJ, hE⟩ := toLintEnt_fields ck _ pe le hto
  have hmode : le.mode ≠ .node := by rw [hm]; decide
  refine ⟨pe, hpe, ?_⟩
  simp only [Lint.FileIn.entityResults, Lint.FileIn.lines, hFc] at hres
  cases hj : pe.junk with
  | true =>
    have hk := hJ hj
    rw [Lint.lintEntity_junk _ _ _ _ le hk] at hres
    cases hres
    simp only [List.mem_singleton] at hrin
    subst hrin
    refine .junk hj ?_ ?_
    · simp only [Lint.junkResult]
      rw [lint_position_zero s le hmode, hs]
    · simp only [Lint.junkResult, Lint.errorMessage, junkText]
      rw [lint_position_zero s le hmode, lint_position_end s le hmode (-1) (by omega), hs, he]
      simp [Lint.junkVal, hm, P.slice, castLC, hs, he]
  | false =>
    obtain ⟨hk, hvs, crs, hrun, hchecks⟩ := hE hj
    obtain ⟨cs, hcs, rfl⟩ := (Lint.lintEntity_entity _ _ _ _ le hk rl).1 hres
    simp only [List.mem_append] at hrin
    rcases hrin with (hrin | hrin) | hrin
    · by_cases hcnt : Lint.keyCount F.cur le.key > 1
      · rw [if_pos hcnt] at hrin
        simp only [List.mem_singleton] at hrin
        subst hrin
        refine .start hj ?_ (Or.inl ?_)
        · simp only [Lint.dupResult]
          rw [lint_position_zero s le hmode, hs]
        · simp [Lint.dupResult, hkey]
      · rw [if_neg hcnt] at hrin; simp at hrin
    · cases hch : Lint.changed F.reference le with
      | true =>
        rw [hch] at hrin
        simp only [if_true, List.mem_singleton] at hrin
        subst hrin
        refine .start hj ?_ (Or.inr ?_)
        · simp only [Lint.changedResult]
          rw [lint_position_zero s le hmode, hs]
        · simp [Lint.changedResult, hkey]
      | false => rw [hch] at hrin; simp at hrin
    · have hgo := (Lint.lintValueGo_spec _ le le.checks cs).1 hcs
      obtain ⟨c, hc, hcr⟩ := hgo.mem_right hrin
      rw [hchecks] at hc
      obtain ⟨cr, hcrm, rfl⟩ := List.mem_map.1 hc
      have hres' := checkResult_resolve s le pe.entry hm hs he hvs cr r hcr
      exact .check hj (resolve_target fmt hfd ck hck s pe pe (hfacts pe hpe) crs hrun cr hcrm _ hres').1

/-- **every lint result is explained** (all texts of ini / inc / po / properties, with or without reference; whatever
    the external functions `ext` are) -/
theorem lintParsed_explained (ext : Ext) (fmt : P.Fmt) (hfd : fmt ≠ .dtd)
    (reference : Option (List PEnt)) (s : Array Nat) (cur : List PEnt) (hfacts : ∀ pe ∈ cur, EntFacts fmt s pe)
    (rs : List Lint.Result)
    (h : lintParsed ext (fileName fmt) (checkerOf fmt) (clsOf fmt) reference s cur = .ok rs) :
    ∀ r ∈ rs, ∃ pe ∈ cur, LintWhy s pe r := by
  rw [clsOf_plain hfd] at h
  unfold lintParsed at h
  have hnc : lintJunkClash .plain (refList reference) cur = false := by simp [lintJunkClash]
  simp only [hnc, Bool.false_eq_true, if_false] at h
  split at h
  · cases h
  · rename_i ents hents
    split at h
    · cases h
    · rename_i rs' hlint
      cases h
      exact lintFile_explained fmt hfd _ rfl s cur hfacts _ ents hents _ rfl rfl rs hlint

/-- the same for `lintText` (the texts as `Parser.readFile` decodes them) -/
theorem lintText_explained (ext : Ext) (fmt : P.Fmt) (hf : fmt ≠ .dtd)
    (refText : Option (Array Nat)) (s : Array Nat) (rs : List Lint.Result) (h : lintText ext fmt refText s = .ok rs) :
    ∃ cur n0 n1, parseFile ext fmt s n0 = .ok (cur, n1) ∧ (∀ pe ∈ cur, EntFacts fmt s pe) ∧
      ∀ r ∈ rs, ∃ pe ∈ cur, LintWhy s pe r := by
  unfold lintText at h
  cases refText with
  | none =>
    simp only at h
    split at h
    · cases h
    · rename_i cur n1 hp
      have hfacts := parseFile_facts ext fmt hf s 0 cur n1 hp
      exact ⟨cur, 0, n1, hp, hfacts, lintParsed_explained ext fmt hf none s cur hfacts rs h⟩
  | some t =>
    simp only at h
    split at h
    · cases h
    · rename_i ref n1 hp1
      split at h
      · cases h
      · rename_i cur n2 hp2
        have hfacts := parseFile_facts ext fmt hf s n1 cur n2 hp2
        exact ⟨cur, n1, n2, hp2, hfacts, lintParsed_explained ext fmt hf (some ref) s cur hfacts rs h⟩

end C17P

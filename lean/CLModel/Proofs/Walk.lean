/-
Generic C01 core: a `getNext` that makes progress turns `walk` into a total function whose
entries tile the text; tiling implies losslessness.  Format independent.
-/
import CLModel.Parser.Base
import CLModel.Proofs.RxLemmas
namespace P
open Rx

/-- the progress contract of a (stateful) `getNext`.  `b` is the offset at which the entry
    found at offset 0 starts (1 for a DTD with a byte-order mark, else 0). -/
def Progress {σ : Type} (next : σ → Nat → Entry × σ) (size b : Nat) : Prop :=
  ∀ c off, off < size →
    (next c off).1.full = (if off = 0 then b else off) ∧ (next c off).1.full ≤ (next c off).1.e ∧
    off < (next c off).1.e ∧ (next c off).1.e ≤ size

/-- entries tile `[off, size)` (the very first one may start at `b`) -/
inductive Tiles (size b : Nat) : Nat → List Entry → Prop
  | nil {off} : off ≥ size → Tiles size b off []
  | cons {off e es} : e.full = (if off = 0 then b else off) → e.full ≤ e.e → off < e.e → e.e ≤ size →
      Tiles size b e.e es → Tiles size b off (e :: es)

theorem walk_total_tiles {σ : Type} (next : σ → Nat → Entry × σ) (size b : Nat) (hp : Progress next size b) :
    ∀ fuel c off, size - off < fuel + 1 → off ≤ size →
      ∃ es, walkFrom next size fuel c off = .done es ∧ Tiles size b off es := by
  intro fuel
  induction fuel with
  | zero =>
    intro c off h hle
    have : off ≥ size := by omega
    exact ⟨[], by simp [walkFrom, this], .nil this⟩
  | succ fuel ih =>
    intro c off h hle
    by_cases hge : off ≥ size
    · exact ⟨[], by simp [walkFrom, hge], .nil hge⟩
    · have hlt : off < size := by omega
      obtain ⟨h1, h2, h3, h4⟩ := hp c off hlt
      obtain ⟨es, he, ht⟩ := ih (next c off).2 (next c off).1.e (by omega) h4
      refine ⟨(next c off).1 :: es, ?_, .cons h1 h2 h3 h4 ht⟩
      simp [walkFrom, hge, he, WalkResult.cons]

theorem drop_take_split (l : List Nat) (a b : Nat) (h1 : a ≤ b) :
    (l.drop a).take (b - a) ++ l.drop b = l.drop a := by
  have : l.drop b = (l.drop a).drop (b - a) := by
    rw [List.drop_drop]; congr 1; omega
  rw [this, List.take_append_drop]

theorem slice_eq (s : Array Nat) (a b : Nat) (hb : b ≤ s.size) :
    slice s a b = (s.toList.drop a).take (b - a) := by
  unfold slice
  rw [Array.toList_extract]

theorem tiles_lossless (s : Array Nat) (b : Nat) :
    ∀ es off, Tiles s.size b off es →
      (es.map (Entry.all s)).flatten = s.toList.drop (if off = 0 then b else off) := by
  intro es
  induction es with
  | nil =>
    intro off h
    cases h with
    | nil hge =>
      by_cases h0 : off = 0
      · subst h0
        have h0 : s.size = 0 := by omega
        have : s.toList = [] := List.eq_nil_of_length_eq_zero (by simpa using h0)
        simp [this]
      · have : s.toList.length ≤ off := by simpa using hge
        simp [h0, List.drop_eq_nil_of_le this]
  | cons e es ih =>
    intro off h
    cases h with
    | cons h1 h2 h3 h4 ht =>
      have hne : e.e ≠ 0 := by omega
      simp only [List.map_cons, List.flatten_cons, ih _ ht, hne, if_false]
      unfold Entry.all
      rw [slice_eq s _ _ h4, ← h1]
      exact drop_take_split _ _ _ h2

/-- C01 (generic form): a progressing `getNext` makes `walk` total, tiling and lossless. -/
theorem walk_lossless {σ : Type} (next : σ → Nat → Entry × σ) (s : Array Nat) (b : Nat) (c : σ)
    (hp : Progress next s.size b) :
    ∃ es, walkFrom next s.size (s.size + 1) c 0 = .done es ∧ Tiles s.size b 0 es ∧
      (es.map (Entry.all s)).flatten = s.toList.drop b := by
  obtain ⟨es, h1, h2⟩ := walk_total_tiles next s.size b hp (s.size + 1) c 0 (by omega) (by omega)
  exact ⟨es, h1, h2, by simpa using tiles_lossless s b es 0 h2⟩

/-- the new getJunk (search starts one past the offset) always makes progress -/
theorem getJunk_progress (s : Array Nat) (off : Nat) (exps : List Re) (hoff : off < s.size) :
    (getJunk s off exps).full = off ∧ (getJunk s off exps).s = off ∧ off < (getJunk s off exps).e ∧
      (getJunk s off exps).e ≤ s.size ∧ (getJunk s off exps).kind = .junk := by
  have inv : ∀ (l : List Re) (je : Option Nat),
      (∀ j, je = some j → off < j ∧ j ≤ s.size) →
      ∀ j, l.foldl (fun je exp =>
        match search s exp (off + 1) with
        | some (q, _) =>
            match je with
            | some j => if j != 0 then some (min j q) else some q
            | none => some q
        | none => je) je = some j → off < j ∧ j ≤ s.size := by
    intro l
    induction l with
    | nil => intro je h j hj; exact h j (by simpa using hj)
    | cons r rs ih =>
      intro je h j hj
      simp only [List.foldl_cons] at hj
      refine ih _ ?_ j hj
      intro j' hj'
      split at hj'
      · rename_i q st hs
        obtain ⟨h1, h2, _, _⟩ := search_spec hs
        split at hj'
        · rename_i j0
          have := h j0 rfl
          split at hj'
          · cases hj'; simp [Nat.lt_min]; omega
          · cases hj'; exact ⟨by omega, h2⟩
        · cases hj'; exact ⟨by omega, h2⟩
      · exact h j' hj'
  refine ⟨rfl, rfl, ?_, ?_, rfl⟩
  all_goals
    simp only [getJunk]
    split
    · rename_i j0 hj0
      have := inv exps none (by intro j h; cases h) j0 hj0
      split <;> omega
    · omega

end P

/-
C18 (round 4): the step-level and history-level theorems of the whole state machine `HistM`.

* `pureOut v op` — the reference semantics: what `op` returns as a function of its arguments and of the construction
  data `v` of the objects it names; no counter, no cache.
* `step_out_pure` — in every state whose memos are coherent the machine returns `pureOut` (junk ids shifted).
* `inv_step`, `reachable_inv` — coherence is an invariant of the reachable states.
* `view_step` — the construction data evolves independently of the memos.
* `run_out_indep` — whole histories.
-/
import CLModel.History.Machine
import CLModel.Proofs.C18State
import CLModel.Proofs.C18MLint
import CLModel.Proofs.C18MCache
namespace C18M
open Hist HistM P Rx

/-! ### the reference semantics -/

def unitOf {α : Type} : Except PM.PyErr α → Except PM.PyErr Unit
  | .ok _ => .ok ()
  | .error e => .error e

/-- the report of a compare in a fresh interpreter, over structured keys, rendered -/
def pureReport (f : Fmt) (ref l10n : Array Nat) : Except String (Acc Text) :=
  (compareG isKeyK (linecolOf (lineEnds l10n)) (refK f ref) (l10nK f ref l10n)).map (accMap Key.render)

def pureMerge (f : Fmt) (ref l10n : Array Nat) : Option (Except String Merge.Outcome) :=
  match pureReport f ref l10n with
  | .error _ => none
  | .ok _ =>
    match mergeInputs (refK f ref) (l10nK f ref l10n) (allsK ref (ents0 f ref)) with
    | .error x => some (.error x)
    | .ok inp => some (.ok (mergeOutcome f l10n inp))

def pureOut (v : View) : HistM.Op → HistM.Out
  | .base op => .base (Hist.step G.init op).2
  | .read _ _ => .unit (.ok ())
  | .rewalk _ => .noObject
  | .lint f (some rt) cur =>
    .lint ((lintG (linecolOf (lineEnds cur)) (refK f rt) (l10nK f rt cur)).map (List.map (LMsg.mapKey Key.render)))
  | .lint f none cur =>
    .lint ((lintG (linecolOf (lineEnds cur)) [] (refK f cur)).map (List.map (LMsg.mapKey Key.render)))
  | .merge f ref l10n => .merged (pureReport f ref l10n) (pureMerge f ref l10n)
  | .serialize f ref old nd => .bytes (Ser.serializeText f ref old nd)
  | .mergeChannels f texts => .chan (Merge.mergeTexts f texts)
  | .getParser path => .parser (getParser v.ep path)
  | .mozMatch path pattern => .bool (PM.mozMatch path pattern)
  | .mNew _ pattern env root => .unit (unitOf (PM.mkMatcher pattern env root))
  | .mWithEnv id _ env =>
    match v.matcher id with
    | none => .noObject
    | some m => .unit (unitOf (m.withEnv env))
  | .mMatch id path =>
    match v.matcher id with
    | none => .noObject
    | some m => .mres (m.match path)
  | .mSub id other path =>
    match v.matcher id, v.matcher other with
    | some m, some m2 => .sub (m.sub m2 path)
    | _, _ => .noObject
  | .cNew _ _ environ root paths rules =>
    match FiltM.buildPaths environ root paths with
    | .error e => .unit (.error e)
    | .ok _ => .unit (unitOf (FiltM.buildRules environ root rules))
  | .cSetLocales id _ =>
    match v.config id with
    | none => .noObject
    | some _ => .unit (.ok ())
  | .cAddRules id rules =>
    match v.config id with
    | none => .noObject
    | some c => .unit (errOut (buildRulesP c.environ c.root rules).2)
  | .cAddPaths id paths =>
    match v.config id with
    | none => .noObject
    | some c => .unit (errOut (buildPathsP c.environ c.root paths).2)
  | .cFilter id file entity =>
    match v.config id with
    | none => .noObject
    | some c => .action (FiltM.filterS (.mk c.locales c.paths c.rules [] []) file entity)
  | .cAllLocales id =>
    match v.config id with
    | none => .noObject
    | some c => .names (FiltM.ownLocalesS c.locales c.paths)
  | .dNew _ _ _ => .unit (.ok ())
  | .dKnown id refValue =>
    match v.checker id with
    | none => .noObject
    | some d => .names (knownPure d.2 refValue)
  | .dCheckText id _ chars =>
    match v.checker id with
    | none => .noObject
    | some d => .text (if d.1 then some (chars.foldl (· ++ ·) []) else none)

/-! ### small facts -/

theorem reportStr_indep (g : G) (f : Fmt) (ref l10n : Array Nat) (h : NoJunkLikeKeys f ref l10n) :
    reportStr f ref l10n (doParse g f ref).2.2 (doParse (doParse g f ref).1 f l10n).2.2 = pureReport f ref l10n := by
  have := report_indep g f ref l10n h
  simp only [Hist.step] at this
  injection this

theorem hout_shift_shift (d a d' a' : Nat) (o : Hist.Out) :
    (o.shift d a).shift d' a' = o.shift (d + d') (a + a') := by
  cases o with
  | parsed st ents =>
    simp only [Hist.Out.shift, List.map_map]
    congr 1
    apply List.map_congr_left
    intro e _
    simp only [Function.comp, Ent.shift_shift]
  | report r => rfl
  | obs o => rfl

theorem out_shift_shift (d a d' a' : Nat) (o : HistM.Out) :
    (o.shift d a).shift d' a' = o.shift (d + d') (a + a') := by
  cases o <;> simp only [HistM.Out.shift, hout_shift_shift]

theorem view_matcher (s : S) (id : Nat) : s.view.matcher id = (AR.dget s.matchers id).map (·.m) := rfl
theorem view_config (s : S) (id : Nat) : s.view.config id = (AR.dget s.configs id).map CObj.cspec := rfl
theorem view_checker (s : S) (id : Nat) :
    s.view.checker id = (AR.dget s.checkers id).map (fun d => (d.android, d.reference)) := rfl

theorem inv_matcher {s : S} (h : Inv s) {id : Nat} {o : MObj} (hg : AR.dget s.matchers id = some o) : o.Coh :=
  h.2.1 (id, o) (dget_some_mem _ _ _ hg)

theorem inv_config {s : S} (h : Inv s) {id : Nat} {c : CObj} (hg : AR.dget s.configs id = some c) : c.Coh :=
  h.2.2.1 (id, c) (dget_some_mem _ _ _ hg)

theorem inv_checker {s : S} (h : Inv s) {id : Nat} {d : DObj} (hg : AR.dget s.checkers id = some d) : d.Coh :=
  h.2.2.2 (id, d) (dget_some_mem _ _ _ hg)

/-! ### the machine returns the reference semantics -/

theorem step_out_pure (s : S) (h : Inv s) (op : HistM.Op) (hc : op.closed) :
    (HistM.step s op).2 = (pureOut s.view op).shift s.g.junkid s.g.heap.length := by
  cases op with
  | base bop =>
    simp only [HistM.step, pureOut, HistM.Out.shift]
    congr 1
    exact step_closed_out s.g G.init s.g.junkid s.g.heap.length bop hc (by simp [G.init]) (by simp [G.init])
  | read f t => rfl
  | rewalk f => exact absurd hc (by simp [HistM.Op.closed])
  | lint f ref cur =>
    cases ref with
    | some rt =>
      simp only [HistM.step, pureOut, HistM.Out.shift]
      rw [lint_ref_indep s.g f rt cur hc]
    | none =>
      simp only [HistM.step, pureOut, HistM.Out.shift]
      rw [lint_noref_indep s.g f cur hc]
  | merge f ref l10n =>
    simp only [HistM.step, pureOut, HistM.Out.shift, pureMerge]
    rw [reportStr_indep s.g f ref l10n hc, merge_indep s.g f ref l10n hc]
    cases pureReport f ref l10n with
    | error e => rfl
    | ok a => cases mergeInputs (refK f ref) (l10nK f ref l10n) (allsK ref (ents0 f ref)) <;> rfl
  | serialize f ref old nd => rfl
  | mergeChannels f texts => rfl
  | getParser path => rfl
  | mozMatch path pattern =>
    simp only [HistM.step, pureOut, HistM.Out.shift]
    rw [(mozMatchS_spec s.reCache h.1 path pattern).1]
  | mNew id pattern env root =>
    simp only [HistM.step, pureOut, HistM.Out.shift, buildM]
    cases PM.mkMatcher pattern env root <;> rfl
  | mWithEnv id newId env =>
    simp only [HistM.step, pureOut, HistM.Out.shift, view_matcher]
    cases hg : AR.dget s.matchers id with
    | none => rfl
    | some o =>
      simp only [Option.map_some]
      cases o.m.withEnv env <;> rfl
  | mMatch id path =>
    simp only [HistM.step, pureOut, HistM.Out.shift, view_matcher]
    cases hg : AR.dget s.matchers id with
    | none => rfl
    | some o =>
      simp only [Option.map_some]
      rw [(MObj.match_spec o (inv_matcher h hg) path).1]
  | mSub id other path =>
    simp only [HistM.step, pureOut, HistM.Out.shift, view_matcher]
    cases hg : AR.dget s.matchers id with
    | none => rfl
    | some o =>
      cases hg2 : AR.dget s.matchers other with
      | none => rfl
      | some o2 =>
        simp only [Option.map_some]
        rw [(MObj.sub_spec o (inv_matcher h hg) o2.m path).1]
  | cNew id locales environ root paths rules =>
    simp only [HistM.step, pureOut, HistM.Out.shift]
    cases FiltM.buildPaths environ root paths with
    | error e => rfl
    | ok ps => cases FiltM.buildRules environ root rules <;> rfl
  | cSetLocales id locales =>
    simp only [HistM.step, pureOut, HistM.Out.shift, view_config]
    cases hg : AR.dget s.configs id <;> rfl
  | cAddRules id rules =>
    simp only [HistM.step, pureOut, HistM.Out.shift, view_config]
    cases hg : AR.dget s.configs id <;> rfl
  | cAddPaths id paths =>
    simp only [HistM.step, pureOut, HistM.Out.shift, view_config]
    cases hg : AR.dget s.configs id <;> rfl
  | cFilter id file entity =>
    simp only [HistM.step, pureOut, HistM.Out.shift, view_config]
    cases hg : AR.dget s.configs id with
    | none => rfl
    | some c =>
      simp only [Option.map_some]
      rw [(CObj.filter_spec c (inv_config h hg) file entity).1]
      rfl
  | cAllLocales id =>
    simp only [HistM.step, pureOut, HistM.Out.shift, view_config]
    cases hg : AR.dget s.configs id with
    | none => rfl
    | some c =>
      simp only [Option.map_some]
      rw [(CObj.allLocales_spec c (inv_config h hg)).1]
      rfl
  | dNew id android reference => rfl
  | dKnown id refValue =>
    simp only [HistM.step, pureOut, HistM.Out.shift, view_checker]
    cases hg : AR.dget s.checkers id with
    | none => rfl
    | some d =>
      simp only [Option.map_some]
      rw [(DObj.known_spec d (inv_checker h hg) refValue).1]
  | dCheckText id refValue chars =>
    simp only [HistM.step, pureOut, HistM.Out.shift, view_checker]
    cases hg : AR.dget s.checkers id with
    | none => rfl
    | some d =>
      simp only [Option.map_some]
      rw [DObj.checkText_spec]

/-! ### coherence is an invariant -/

theorem all_dset {β : Type} (P : β → Prop) (d : List (Nat × β)) (k : Nat) (v : β) (hd : ∀ p ∈ d, P p.2) (hv : P v) :
    ∀ p ∈ AR.dset d k v, P p.2 := by
  intro p hp
  rcases mem_dset d k v p hp with hp | hp
  · subst hp; exact hv
  · exact hd p hp

theorem cobj_fresh_coh (locales : Option (List Text)) (environ : FiltM.Environ) (root : Option Text)
    (ps : List FiltM.PathEntryS) (rs : List FiltM.RuleS) :
    CObj.Coh { locales := locales, environ := environ, root := root, paths := ps, rules := rs } := by
  refine ⟨?_, ?_⟩ <;> intro x hx <;> simp at hx

theorem inv_step (s : S) (h : Inv s) (op : HistM.Op) (hs : op.safe s) : Inv (HistM.step s op).1 := by
  obtain ⟨hr, hm, hcf, hd⟩ := h
  have h : Inv s := ⟨hr, hm, hcf, hd⟩
  cases op with
  | base bop => exact ⟨hr, hm, hcf, hd⟩
  | read f t => exact ⟨hr, hm, hcf, hd⟩
  | rewalk f =>
    simp only [HistM.step, doRewalk]
    cases s.g.pctx f with
    | none => exact ⟨hr, hm, hcf, hd⟩
    | some addr =>
      simp only
      cases s.g.heap[addr]? <;> exact ⟨hr, hm, hcf, hd⟩
  | lint f ref cur => cases ref <;> exact ⟨hr, hm, hcf, hd⟩
  | merge f ref l10n => exact ⟨hr, hm, hcf, hd⟩
  | serialize f ref old nd => exact ⟨hr, hm, hcf, hd⟩
  | mergeChannels f texts => exact ⟨hr, hm, hcf, hd⟩
  | getParser path => exact ⟨hr, hm, hcf, hd⟩
  | mozMatch path pattern => exact ⟨(mozMatchS_spec s.reCache hr path pattern).2, hm, hcf, hd⟩
  | mNew id pattern env root =>
    simp only [HistM.step, buildM]
    cases PM.mkMatcher pattern env root with
    | error e => exact ⟨hr, hm, hcf, hd⟩
    | ok m => exact ⟨hr, all_dset MObj.Coh _ _ _ hm (MObj.fresh_coh m), hcf, hd⟩
  | mWithEnv id newId env =>
    simp only [HistM.step]
    cases hg : AR.dget s.matchers id with
    | none => exact ⟨hr, hm, hcf, hd⟩
    | some o =>
      simp only
      cases o.m.withEnv env with
      | error e => exact ⟨hr, hm, hcf, hd⟩
      | ok m => exact ⟨hr, all_dset MObj.Coh _ _ _ hm (MObj.fresh_coh m), hcf, hd⟩
  | mMatch id path =>
    simp only [HistM.step]
    cases hg : AR.dget s.matchers id with
    | none => exact ⟨hr, hm, hcf, hd⟩
    | some o => exact ⟨hr, all_dset MObj.Coh _ _ _ hm (MObj.match_spec o (inv_matcher h hg) path).2.2, hcf, hd⟩
  | mSub id other path =>
    simp only [HistM.step]
    cases hg : AR.dget s.matchers id with
    | none => exact ⟨hr, hm, hcf, hd⟩
    | some o =>
      cases hg2 : AR.dget s.matchers other with
      | none => exact ⟨hr, hm, hcf, hd⟩
      | some o2 =>
        exact ⟨hr, all_dset MObj.Coh _ _ _ hm (MObj.sub_spec o (inv_matcher h hg) o2.m path).2.2, hcf, hd⟩
  | cNew id locales environ root paths rules =>
    simp only [HistM.step]
    cases FiltM.buildPaths environ root paths with
    | error e => exact ⟨hr, hm, hcf, hd⟩
    | ok ps =>
      simp only
      cases FiltM.buildRules environ root rules with
      | error e => exact ⟨hr, hm, hcf, hd⟩
      | ok rs => exact ⟨hr, hm, all_dset CObj.Coh _ _ _ hcf (cobj_fresh_coh _ _ _ _ _), hd⟩
  | cSetLocales id locales =>
    simp only [HistM.step]
    cases hg : AR.dget s.configs id with
    | none => exact ⟨hr, hm, hcf, hd⟩
    | some c =>
      refine ⟨hr, hm, all_dset CObj.Coh _ _ _ hcf ?_, hd⟩
      have hc := inv_config h hg
      refine ⟨?_, hc.2⟩
      intro l hl; simp at hl
  | cAddRules id rules =>
    simp only [HistM.step]
    cases hg : AR.dget s.configs id with
    | none => exact ⟨hr, hm, hcf, hd⟩
    | some c =>
      refine ⟨hr, hm, all_dset CObj.Coh _ _ _ hcf ?_, hd⟩
      have hc := inv_config h hg
      have hnone : c.cache = none := hs c hg
      refine ⟨hc.1, ?_⟩
      intro fc hfc
      simp only [hnone] at hfc
      simp at hfc
  | cAddPaths id paths =>
    simp only [HistM.step]
    cases hg : AR.dget s.configs id with
    | none => exact ⟨hr, hm, hcf, hd⟩
    | some c =>
      refine ⟨hr, hm, all_dset CObj.Coh _ _ _ hcf ?_, hd⟩
      have hnone : c.cache = none := hs c hg
      refine ⟨?_, ?_⟩
      · intro l hl; simp at hl
      · intro fc hfc
        simp only [hnone] at hfc
        simp at hfc
  | cFilter id file entity =>
    simp only [HistM.step]
    cases hg : AR.dget s.configs id with
    | none => exact ⟨hr, hm, hcf, hd⟩
    | some c => exact ⟨hr, hm, all_dset CObj.Coh _ _ _ hcf (CObj.filter_spec c (inv_config h hg) file entity).2.2, hd⟩
  | cAllLocales id =>
    simp only [HistM.step]
    cases hg : AR.dget s.configs id with
    | none => exact ⟨hr, hm, hcf, hd⟩
    | some c => exact ⟨hr, hm, all_dset CObj.Coh _ _ _ hcf (CObj.allLocales_spec c (inv_config h hg)).2.2.1, hd⟩
  | dNew id android reference =>
    refine ⟨hr, hm, hcf, all_dset DObj.Coh _ _ _ hd ?_⟩
    intro k hk; simp at hk
  | dKnown id refValue =>
    simp only [HistM.step]
    cases hg : AR.dget s.checkers id with
    | none => exact ⟨hr, hm, hcf, hd⟩
    | some d => exact ⟨hr, hm, hcf, all_dset DObj.Coh _ _ _ hd (DObj.known_spec d (inv_checker h hg) refValue).2.2.2⟩
  | dCheckText id refValue chars =>
    simp only [HistM.step]
    cases hg : AR.dget s.checkers id with
    | none => exact ⟨hr, hm, hcf, hd⟩
    | some d => exact ⟨hr, hm, hcf, all_dset DObj.Coh _ _ _ hd (DObj.known_spec d (inv_checker h hg) refValue).2.2.2⟩

theorem inv_init (ep : EpEnv) : Inv { S.init with ep := ep } := by
  refine ⟨?_, ?_, ?_, ?_⟩ <;> intro p hp <;> simp [S.init] at hp

theorem reachable_inv (ep : EpEnv) (s : S) (h : Reachable ep s) : Inv s := by
  induction h with
  | init => exact inv_init ep
  | step s op _ hs ih => exact inv_step s ih op hs

/-! ### the construction data evolves independently of the memos -/

def upd {α : Type} (f : Nat → Option α) (k : Nat) (v : α) : Nat → Option α := fun i => if i == k then some v else f i

/-- how an operation changes WHAT the live objects are: only constructors and the three mutators do -/
def viewStep (v : View) : HistM.Op → View
  | .mNew id pattern env root =>
    match PM.mkMatcher pattern env root with
    | .error _ => v
    | .ok m => { v with matcher := upd v.matcher id m }
  | .mWithEnv id newId env =>
    match v.matcher id with
    | none => v
    | some m =>
      match m.withEnv env with
      | .error _ => v
      | .ok m' => { v with matcher := upd v.matcher newId m' }
  | .cNew id locales environ root paths rules =>
    match FiltM.buildPaths environ root paths with
    | .error _ => v
    | .ok ps =>
      match FiltM.buildRules environ root rules with
      | .error _ => v
      | .ok rs => { v with config := upd v.config id ⟨locales, environ, root, ps, rs⟩ }
  | .cSetLocales id locales =>
    match v.config id with
    | none => v
    | some c => { v with config := upd v.config id { c with locales := locales } }
  | .cAddRules id rules =>
    match v.config id with
    | none => v
    | some c => { v with config := upd v.config id { c with rules := c.rules ++ (buildRulesP c.environ c.root rules).1 } }
  | .cAddPaths id paths =>
    match v.config id with
    | none => v
    | some c => { v with config := upd v.config id { c with paths := c.paths ++ (buildPathsP c.environ c.root paths).1 } }
  | .dNew id android reference => { v with checker := upd v.checker id (android, reference) }
  | _ => v

theorem view_ext (v w : View) (h1 : v.ep = w.ep) (h2 : v.matcher = w.matcher) (h3 : v.config = w.config)
    (h4 : v.checker = w.checker) : v = w := by
  cases v; cases w; simp only at h1 h2 h3 h4; subst h1; subst h2; subst h3; subst h4; rfl

theorem map_dget_dset {β γ : Type} (d : List (Nat × β)) (k : Nat) (v : β) (f : β → γ) :
    (fun i => (AR.dget (AR.dset d k v) i).map f) = upd (fun i => (AR.dget d i).map f) k (f v) := by
  funext i
  rw [dget_dset]
  unfold upd
  split <;> rfl

/-- storing an object with the same construction data does not change the view -/
theorem map_dget_dset_same {β γ : Type} (d : List (Nat × β)) (k : Nat) (v v' : β) (f : β → γ)
    (hg : AR.dget d k = some v') (hf : f v = f v') :
    (fun i => (AR.dget (AR.dset d k v) i).map f) = (fun i => (AR.dget d i).map f) := by
  funext i
  rw [dget_dset]
  by_cases hi : (i == k) = true
  · have : i = k := by simpa using hi
    subst this
    simp [hg, hf]
  · simp [hi]

theorem MObj.match_m (o : MObj) (path : Text) : (o.match path).1.m = o.m := by
  unfold MObj.match
  cases o.cached with
  | some r => rfl
  | none => cases o.m.regexOf <;> rfl

theorem MObj.sub_m (o : MObj) (other : PM.Matcher) (path : Text) : (o.sub other path).1.m = o.m := by
  unfold MObj.sub
  cases (o.match path).2 with
  | error e => exact MObj.match_m o path
  | ok r =>
    cases r with
    | none => exact MObj.match_m o path
    | some d =>
      simp only
      cases PM.expandTop other.pattern (PM.subEnv d other.env) <;> exact MObj.match_m o path

theorem cspec_same {c c' : CObj} (h : CObj.Same c c') : c'.cspec = c.cspec := by
  obtain ⟨h1, h2, h3, h4, h5⟩ := h
  simp only [CObj.cspec, h1, h2, h3, h4, h5]

theorem DObj.known_view (d : DObj) (refValue : Text) :
    ((d.knownEntities refValue).1.android, (d.knownEntities refValue).1.reference) = (d.android, d.reference) := by
  unfold DObj.knownEntities
  cases d.known with
  | some k => rfl
  | none =>
    cases hr : d.reference with
    | none => simp [hr]
    | some vals => simp

theorem view_step (s : S) (h : Inv s) (op : HistM.Op) : (HistM.step s op).1.view = viewStep s.view op := by
  cases op with
  | base bop => rfl
  | read f t => rfl
  | rewalk f =>
    simp only [HistM.step, doRewalk, viewStep]
    cases s.g.pctx f with
    | none => rfl
    | some addr =>
      simp only
      cases s.g.heap[addr]? <;> rfl
  | lint f ref cur => cases ref <;> rfl
  | merge f ref l10n => rfl
  | serialize f ref old nd => rfl
  | mergeChannels f texts => rfl
  | getParser path => rfl
  | mozMatch path pattern => rfl
  | mNew id pattern env root =>
    simp only [HistM.step, buildM, viewStep]
    cases PM.mkMatcher pattern env root with
    | error e => rfl
    | ok m => exact view_ext _ _ rfl (map_dget_dset s.matchers id { m := m } (·.m)) rfl rfl
  | mWithEnv id newId env =>
    simp only [HistM.step, viewStep, view_matcher]
    cases hg : AR.dget s.matchers id with
    | none => rfl
    | some o =>
      simp only [Option.map_some]
      cases o.m.withEnv env with
      | error e => rfl
      | ok m => exact view_ext _ _ rfl (map_dget_dset s.matchers newId { m := m } (·.m)) rfl rfl
  | mMatch id path =>
    simp only [HistM.step, viewStep]
    cases hg : AR.dget s.matchers id with
    | none => rfl
    | some o =>
      exact view_ext _ _ rfl (map_dget_dset_same s.matchers id _ o (·.m) hg (MObj.match_m o path)) rfl rfl
  | mSub id other path =>
    simp only [HistM.step, viewStep]
    cases hg : AR.dget s.matchers id with
    | none => rfl
    | some o =>
      cases hg2 : AR.dget s.matchers other with
      | none => rfl
      | some o2 =>
        exact view_ext _ _ rfl (map_dget_dset_same s.matchers id _ o (·.m) hg (MObj.sub_m o o2.m path)) rfl rfl
  | cNew id locales environ root paths rules =>
    simp only [HistM.step, viewStep]
    cases FiltM.buildPaths environ root paths with
    | error e => rfl
    | ok ps =>
      simp only
      cases FiltM.buildRules environ root rules with
      | error e => rfl
      | ok rs => exact view_ext _ _ rfl rfl (map_dget_dset s.configs id _ CObj.cspec) rfl
  | cSetLocales id locales =>
    simp only [HistM.step, viewStep, view_config]
    cases hg : AR.dget s.configs id with
    | none => rfl
    | some c => exact view_ext _ _ rfl rfl (map_dget_dset s.configs id _ CObj.cspec) rfl
  | cAddRules id rules =>
    simp only [HistM.step, viewStep, view_config]
    cases hg : AR.dget s.configs id with
    | none => rfl
    | some c => exact view_ext _ _ rfl rfl (map_dget_dset s.configs id _ CObj.cspec) rfl
  | cAddPaths id paths =>
    simp only [HistM.step, viewStep, view_config]
    cases hg : AR.dget s.configs id with
    | none => rfl
    | some c => exact view_ext _ _ rfl rfl (map_dget_dset s.configs id _ CObj.cspec) rfl
  | cFilter id file entity =>
    simp only [HistM.step, viewStep]
    cases hg : AR.dget s.configs id with
    | none => rfl
    | some c =>
      exact view_ext _ _ rfl rfl (map_dget_dset_same s.configs id _ c CObj.cspec hg
        (cspec_same (CObj.filter_spec c (inv_config h hg) file entity).2.1)) rfl
  | cAllLocales id =>
    simp only [HistM.step, viewStep]
    cases hg : AR.dget s.configs id with
    | none => rfl
    | some c =>
      exact view_ext _ _ rfl rfl (map_dget_dset_same s.configs id _ c CObj.cspec hg
        (cspec_same (CObj.allLocales_spec c (inv_config h hg)).2.1)) rfl
  | dNew id android reference =>
    exact view_ext _ _ rfl rfl rfl (map_dget_dset s.checkers id _ (fun d => (d.android, d.reference)))
  | dKnown id refValue =>
    simp only [HistM.step, viewStep]
    cases hg : AR.dget s.checkers id with
    | none => rfl
    | some d =>
      exact view_ext _ _ rfl rfl rfl (map_dget_dset_same s.checkers id _ d (fun d => (d.android, d.reference)) hg
        (DObj.known_view d refValue))
  | dCheckText id refValue chars =>
    simp only [HistM.step, viewStep]
    cases hg : AR.dget s.checkers id with
    | none => rfl
    | some d =>
      exact view_ext _ _ rfl rfl rfl (map_dget_dset_same s.checkers id _ d (fun d => (d.android, d.reference)) hg
        (DObj.known_view d refValue))

/-! ### the counter and the heap move the same way from any state -/

theorem parseAll_g (f : Fmt) : ∀ (ts : List (Array Nat)) (g g0 : G) (d a : Nat),
    g.junkid = g0.junkid + d → g.heap.length = g0.heap.length + a →
    (parseAll f ts g).junkid = (parseAll f ts g0).junkid + d ∧
      (parseAll f ts g).heap.length = (parseAll f ts g0).heap.length + a := by
  intro ts
  induction ts with
  | nil => intro g g0 d a hj hh; exact ⟨hj, hh⟩
  | cons t rest ih =>
    intro g g0 d a hj hh
    simp only [parseAll]
    apply ih
    · rw [doParse_junkid, doParse_junkid]; omega
    · rw [doParse_heap, doParse_heap]; simp only [List.length_append, List.length_cons, List.length_nil]; omega

theorem step_g_shift (s s0 : S) (d a : Nat) (op : HistM.Op) (hc : op.closed)
    (hj : s.g.junkid = s0.g.junkid + d) (hh : s.g.heap.length = s0.g.heap.length + a) :
    (HistM.step s op).1.g.junkid = (HistM.step s0 op).1.g.junkid + d ∧
      (HistM.step s op).1.g.heap.length = (HistM.step s0 op).1.g.heap.length + a := by
  have two : ∀ (f : Fmt) (x y : Array Nat),
      (doParse (doParse s.g f x).1 f y).1.junkid = (doParse (doParse s0.g f x).1 f y).1.junkid + d ∧
      (doParse (doParse s.g f x).1 f y).1.heap.length = (doParse (doParse s0.g f x).1 f y).1.heap.length + a := by
    intro f x y
    rw [doParse_junkid, doParse_junkid, doParse_junkid, doParse_junkid,
      doParse_heap, doParse_heap, doParse_heap, doParse_heap]
    simp only [List.length_append, List.length_cons, List.length_nil]
    omega
  have one : ∀ (f : Fmt) (x : Array Nat),
      (doParse s.g f x).1.junkid = (doParse s0.g f x).1.junkid + d ∧
      (doParse s.g f x).1.heap.length = (doParse s0.g f x).1.heap.length + a := by
    intro f x
    rw [doParse_junkid, doParse_junkid, doParse_heap, doParse_heap]
    simp only [List.length_append, List.length_cons, List.length_nil]
    omega
  cases op with
  | base bop => exact step_closed_state s.g s0.g d a bop hc hj hh
  | read f t =>
    simp only [HistM.step, doRead, List.length_append, List.length_cons, List.length_nil]
    exact ⟨hj, by omega⟩
  | rewalk f => exact absurd hc (by simp [HistM.Op.closed])
  | lint f ref cur =>
    cases ref with
    | some rt => exact two f rt cur
    | none => exact one f cur
  | merge f ref l10n => exact two f ref l10n
  | serialize f ref old nd => exact two f ref old
  | mergeChannels f texts => exact parseAll_g f texts s.g s0.g d a hj hh
  | getParser path => exact ⟨hj, hh⟩
  | mozMatch path pattern => exact ⟨hj, hh⟩
  | mNew id pattern env root =>
    simp only [HistM.step]
    cases buildM pattern env root <;> exact ⟨hj, hh⟩
  | mWithEnv id newId env =>
    simp only [HistM.step]
    cases AR.dget s.matchers id with
    | none => cases AR.dget s0.matchers id with
      | none => exact ⟨hj, hh⟩
      | some o0 => simp only; cases o0.m.withEnv env <;> exact ⟨hj, hh⟩
    | some o =>
      simp only
      cases o.m.withEnv env <;> (cases AR.dget s0.matchers id with
        | none => exact ⟨hj, hh⟩
        | some o0 => simp only; cases o0.m.withEnv env <;> exact ⟨hj, hh⟩)
  | mMatch id path =>
    simp only [HistM.step]
    cases AR.dget s.matchers id <;> cases AR.dget s0.matchers id <;> exact ⟨hj, hh⟩
  | mSub id other path =>
    simp only [HistM.step]
    cases AR.dget s.matchers id <;> cases AR.dget s.matchers other <;> cases AR.dget s0.matchers id <;>
      cases AR.dget s0.matchers other <;> exact ⟨hj, hh⟩
  | cNew id locales environ root paths rules =>
    simp only [HistM.step]
    cases FiltM.buildPaths environ root paths with
    | error e => exact ⟨hj, hh⟩
    | ok ps => simp only; cases FiltM.buildRules environ root rules <;> exact ⟨hj, hh⟩
  | cSetLocales id locales =>
    simp only [HistM.step]
    cases AR.dget s.configs id <;> cases AR.dget s0.configs id <;> exact ⟨hj, hh⟩
  | cAddRules id rules =>
    simp only [HistM.step]
    cases AR.dget s.configs id <;> cases AR.dget s0.configs id <;> exact ⟨hj, hh⟩
  | cAddPaths id paths =>
    simp only [HistM.step]
    cases AR.dget s.configs id <;> cases AR.dget s0.configs id <;> exact ⟨hj, hh⟩
  | cFilter id file entity =>
    simp only [HistM.step]
    cases AR.dget s.configs id <;> cases AR.dget s0.configs id <;> exact ⟨hj, hh⟩
  | cAllLocales id =>
    simp only [HistM.step]
    cases AR.dget s.configs id <;> cases AR.dget s0.configs id <;> exact ⟨hj, hh⟩
  | dNew id android reference => exact ⟨hj, hh⟩
  | dKnown id refValue =>
    simp only [HistM.step]
    cases AR.dget s.checkers id <;> cases AR.dget s0.checkers id <;> exact ⟨hj, hh⟩
  | dCheckText id refValue chars =>
    simp only [HistM.step]
    cases AR.dget s.checkers id <;> cases AR.dget s0.checkers id <;> exact ⟨hj, hh⟩

theorem safe_of_frozen (s : S) (op : HistM.Op) (h : op.mutatesConfig = false) : op.safe s := by
  cases op <;> simp [HistM.Op.mutatesConfig] at h <;> simp [HistM.Op.safe]

/-- whole histories: two states in which the same objects are alive return the same results, whatever their
    counters and caches hold -/
theorem run_out_indep : ∀ (ops : List HistM.Op) (s s0 : S) (d a : Nat), Inv s → Inv s0 → s.view = s0.view →
    s.g.junkid = s0.g.junkid + d → s.g.heap.length = s0.g.heap.length + a →
    (∀ op ∈ ops, op.closed ∧ op.mutatesConfig = false) →
    (HistM.run s ops).2 = ((HistM.run s0 ops).2).map (HistM.Out.shift d a) := by
  intro ops
  induction ops with
  | nil => intro s s0 d a _ _ _ _ _ _; rfl
  | cons op t ih =>
    intro s s0 d a hi hi0 hv hj hh hc
    obtain ⟨hcl, hfr⟩ := hc op List.mem_cons_self
    obtain ⟨g1, g2⟩ := step_g_shift s s0 d a op hcl hj hh
    have hv' : (HistM.step s op).1.view = (HistM.step s0 op).1.view := by
      rw [view_step s hi op, view_step s0 hi0 op, hv]
    simp only [HistM.run, List.map_cons]
    rw [ih (HistM.step s op).1 (HistM.step s0 op).1 d a (inv_step s hi op (safe_of_frozen s op hfr))
      (inv_step s0 hi0 op (safe_of_frozen s0 op hfr)) hv' g1 g2 (fun o ho => hc o (List.mem_cons_of_mem _ ho))]
    congr 1
    rw [step_out_pure s hi op hcl, step_out_pure s0 hi0 op hcl, hv, out_shift_shift, hj, hh]

end C18M

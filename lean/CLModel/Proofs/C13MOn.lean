/- C13M helper lemmas: the C13 lemmas and theorems that use the `sub` round trip (`SubMatches`), re-proved from the weaker
   hypothesis that only speaks about the reference FILES of the tree (`SubMatchesOn`) — all `_files` ever feeds into `sub`.
   Any `MEnv`; nothing about the `Matcher` model yet. -/
import CLModel.Proofs.C13Iter
import CLModel.Proofs.C13Build
import CLModel.Proofs.C13Wins
namespace PF

/-- `Matcher.sub` round trip on the files of the tree: the l10n path computed from a reference FILE that the reference
    matcher matches is matched by the l10n matcher -/
def SubMatchesOn (env : MEnv) (fs : FS) (r : Rule) : Prop :=
  ∀ rm q g, r.reference = some rm → q ∈ fs.files → env.mtch rm q = some g →
    (env.mtch r.l10n (env.expand r.l10n g)).isSome = true

theorem SubMatches.on {env : MEnv} {fs : FS} {r : Rule} (h : SubMatches env r) : SubMatchesOn env fs r :=
  fun rm q g hr _ hm => h rm q g hr hm

theorem claims_find_none_on {env : MEnv} {fs : FS} {ex : Path → Bool} {r : Rule} {p : Path}
    (hm : env.mtch r.l10n p = none) (hrt : SubMatchesOn env fs r) :
    (claims env fs ex r).find? (·.1 == p) = none := by
  unfold claims
  rw [List.find?_append, claimsL_find_none, claimsR_find_none]
  · rfl
  · intro rm q g hr hq e
    have := hrt rm q g hr (mem_files hq).1 (mem_files hq).2.2
    rw [e, hm] at this
    exact absurd this (by decide)
  · intro g hg
    have := (mem_files hg).2.2
    rw [hm] at this
    exact absurd this (by simp)

theorem flatMap_claims_find_none_on {env : MEnv} {fs : FS} {ex : Path → Bool} {p : Path} {pre : List Rule}
    (hpre : ∀ x ∈ pre, env.mtch x.l10n p = none) (hrt : ∀ x ∈ pre, SubMatchesOn env fs x) :
    (pre.flatMap (claims env fs ex)).find? (·.1 == p) = none := by
  rw [List.find?_eq_none]
  intro y hy
  simp only [List.mem_flatMap] at hy
  obtain ⟨x, hx, hy⟩ := hy
  exact List.find?_eq_none.1 (claims_find_none_on (fs := fs) (ex := ex) (hpre x hx) (hrt x hx)) y hy

theorem first_rule_claims_on {env : MEnv} {fs : FS} {ex : Path → Bool} {pre post : List Rule} {r : Rule} {p : Path} {g : GId}
    (hpre : ∀ x ∈ pre, env.mtch x.l10n p = none) (hrt : ∀ x ∈ pre, SubMatchesOn env fs x)
    (hf : (p, g) ∈ files env fs ex r.l10n) :
    ((pre ++ r :: post).flatMap (claims env fs ex)).find? (·.1 == p) = some (p, entryL env r g) := by
  rw [List.flatMap_append, List.find?_append, flatMap_claims_find_none_on hpre hrt, List.flatMap_cons,
    List.find?_append, claims_find_some hf]
  rfl

theorem first_rule_wins_pf_on {env : MEnv} {fs : FS} {pf : PF} {pre post : List Rule} {r : Rule} {p : Path} {g : GId}
    (hms : pf.matchers = pre ++ r :: post)
    (hpre : ∀ x ∈ pre, env.mtch x.l10n p = none) (hrt : ∀ x ∈ pre, SubMatchesOn env fs x)
    (hf : (p, g) ∈ files env fs (excludedBy env pf.exclude) r.l10n) :
    toItem (p, entryL env r g) ∈ pf.iterLocale env fs := by
  rw [iterLocale_eq, mem_sorted_items, hms]
  exact ⟨entryL env r g, first_rule_claims_on hpre hrt hf, rfl⟩

theorem find_claims_eq_matchRules_on {env : MEnv} {fs : FS} {ex : Path → Bool} {p : Path}
    (hp : p ∈ fs.files) (hex : ex p = false) : ∀ {ms : List Rule},
    (∀ r ∈ ms, PrefixOK env r.l10n) → (∀ r ∈ ms, SubMatchesOn env fs r) →
    (∀ r ∈ ms, ∀ rm, r.reference = some rm → env.mtch rm p = none) →
    (ms.flatMap (claims env fs ex)).find? (·.1 == p) =
      (matchRules env true ex p ms).map fun it => (p, ({ reference := it.reference, merge := it.merge, test := it.test } : Entry))
  | [], _, _, _ => by simp [matchRules]
  | r :: ms, hdir, hrt, hnr => by
    have ih := find_claims_eq_matchRules_on hp hex (ms := ms)
      (fun r' hr' => hdir r' (List.mem_cons_of_mem _ hr')) (fun r' hr' => hrt r' (List.mem_cons_of_mem _ hr'))
      (fun r' hr' => hnr r' (List.mem_cons_of_mem _ hr'))
    rw [List.flatMap_cons, List.find?_append]
    unfold matchRules
    simp only [if_true]
    cases hm : env.mtch r.l10n p with
    | some g =>
      have hf : (p, g) ∈ files env fs ex r.l10n :=
        mem_files_of (hdir r List.mem_cons_self) hp hex hm
      rw [claims_find_some hf]
      simp [entryL]
    | none =>
      rw [claims_find_none_on hm (hrt r List.mem_cons_self)]
      simp only [Option.none_or]
      cases hrr : r.reference with
      | none => exact ih
      | some rm =>
        simp only
        rw [hnr r List.mem_cons_self rm hrr]
        exact ih

/-- `C13.iter_eq_match` from the round trip on the files of the tree only -/
theorem iter_eq_match_on {env : MEnv} {fs : FS} {pf : PF} {p : Path} {it : Item}
    (hloc : truthy pf.locale = true) (hp : p ∈ fs.files)
    (hdir : ∀ r ∈ pf.matchers, PrefixOK env r.l10n) (hrt : ∀ r ∈ pf.matchers, SubMatchesOn env fs r)
    (hnr : ∀ r ∈ pf.matchers, ∀ rm, r.reference = some rm → env.mtch rm p = none) :
    (it ∈ pf.iter env fs ∧ it.path = p) ↔ pf.matchPath env p = some it := by
  obtain ⟨locale, ms, exclude⟩ := pf
  have hsome : locale.isSome = true := by
    cases locale with
    | none => simp [truthy, PF.locale] at hloc
    | some l => rfl
  simp only [PF.matchers, PF.locale] at hdir hrt hnr hloc
  have hiter : (PF.mk locale ms exclude).iter env fs = (PF.mk locale ms exclude).iterLocale env fs := by
    unfold PF.iter; simp [PF.locale, hloc]
  rw [hiter, iterLocale_eq, mem_sorted_items]
  simp only [PF.matchers, PF.exclude]
  rw [matchPath_eq, hsome]
  cases hex : excludedBy env exclude p with
  | true =>
    simp only [Bool.and_self, if_true]
    constructor
    · rintro ⟨⟨e, hf, _⟩, hpath⟩
      rw [hpath, find_claims_excluded hex] at hf
      exact absurd hf (by simp)
    · intro h; exact absurd h (by simp)
  | false =>
    simp only [Bool.and_false, Bool.false_eq_true, if_false]
    have key := find_claims_eq_matchRules_on (env := env) (fs := fs) (ex := excludedBy env exclude) hp hex hdir hrt hnr
    constructor
    · rintro ⟨⟨e, hf, hit⟩, hpath⟩
      rw [hpath, key] at hf
      cases hmr : matchRules env true (excludedBy env exclude) p ms with
      | none => simp [hmr] at hf
      | some it' =>
        simp only [hmr, Option.map_some, Option.some.injEq, Prod.mk.injEq, true_and] at hf
        have hp' := matchRules_path hnr hmr
        rw [hit, hpath, ← hf]
        simp only [toItem]
        rw [← hp']
    · intro hmr
      have hp' := matchRules_path hnr hmr
      refine ⟨⟨{ reference := it.reference, merge := it.merge, test := it.test }, ?_, ?_⟩, hp'⟩
      · rw [hp', key, hmr]; rfl
      · simp [toItem]

/-- `C13.last_rule_wins_partial` from the round trip on the files of the tree only -/
theorem last_rule_wins_on {env : MEnv} {fs : FS} {fuel : Nat} {locale : Option Loc} {projects : List Config}
    {mb : Bool} {pf : PF} (hb : build env fuel locale projects mb = .ok pf) (hloc : truthy locale = true)
    {before after : List Rule} {r : Rule} {p : Path} {g : GId}
    (hrs : mkRules locale mb (gated locale (collect locale projects).1) = .ok (before ++ r :: after))
    (hlast : ∀ x ∈ after, env.mtch x.l10n p = none) (hm : env.mtch r.l10n p = some g)
    (hp : p ∈ fs.files) (hex : excludedBy env pf.exclude p = false)
    (hdir : PrefixOK env r.l10n) (hrt : ∀ x ∈ after, SubMatchesOn env fs x)
    (hdup : ∀ x ∈ after, sameKey env x r = true → (env.mtch x.l10n p).isSome = true) :
    ({ path := p, reference := r.reference.map (env.expand · g), merge := r.merge.map (env.expand · g),
       test := mergedTests env r before.reverse } : Item) ∈ pf.iter env fs ∧
    ∀ x ∈ r.test, x ∈ mergedTests env r before.reverse := by
  obtain ⟨f, rfl⟩ := build_fuel_pos hb
  obtain ⟨rs, hrs', hms, hl, _⟩ := build_ok hb
  rw [hrs] at hrs'
  simp only [Except.ok.injEq] at hrs'
  subst hrs'
  refine ⟨?_, fun x hx => by unfold mergedTests; exact mem_mergedFrom.2 (Or.inl hx)⟩
  have hkeys : ∀ x ∈ after.reverse, keyOf env x ≠ keyOf env r := by
    intro x hx e
    have hx' := List.mem_reverse.1 hx
    have := hdup x hx' (sameKey_iff.2 e)
    rw [hlast x hx'] at this
    exact absurd this (by decide)
  obtain ⟨pre', post', hsplit, hpre'⟩ := specGo_split (env := env) (r := r) (post := before.reverse) (K := [])
    hkeys (by simp)
  have hms' : pf.matchers = pre' ++ { r with test := mergedTests env r before.reverse } :: post' := by
    rw [hms, dedupSpec, List.reverse_append, List.reverse_cons, List.append_assoc, List.singleton_append]
    exact hsplit
  have h1 : ∀ x ∈ pre', env.mtch x.l10n p = none := by
    intro x hx
    obtain ⟨y, hy, e1, _⟩ := hpre' x hx
    rw [e1]
    exact hlast y (List.mem_reverse.1 hy)
  have h2 : ∀ x ∈ pre', SubMatchesOn env fs x := by
    intro x hx
    obtain ⟨y, hy, e1, e2⟩ := hpre' x hx
    intro rm q g' hr hq
    rw [e1]
    exact hrt y (List.mem_reverse.1 hy) rm q g' (e2 ▸ hr) hq
  have hf : (p, g) ∈ files env fs (excludedBy env pf.exclude) r.l10n :=
    mem_files_of hdir hp hex hm
  have := first_rule_wins_pf_on (pf := pf) (r := { r with test := mergedTests env r before.reverse }) hms' h1 h2 hf
  unfold PF.iter
  rw [hl, hloc]
  exact this

end PF

/- C04, bytes: the UTF-8 decoder/encoder of `CLModel/Compare/MergeBytes.lean`.
   decode ∘ encode = id on scalar values, the decoder only produces scalar values (so the encoder never raises on
   decoded text), universal newlines are the identity exactly on CR-free text. -/
import CLModel.Compare.MergeBytes
namespace C04B
open MergeB

/-- Unicode scalar value -/
def Scalar (c : Nat) : Prop := c < 55296 ∨ (57344 ≤ c ∧ c < 1114112)

instance (c : Nat) : Decidable (Scalar c) := by unfold Scalar; infer_instance

theorem encodeCp_isSome_iff (c : Nat) : (encodeCp c).isSome = true ↔ Scalar c := by
  unfold encodeCp Scalar
  by_cases h1 : c < 128
  · simp [h1]; omega
  · by_cases h2 : c < 2048
    · simp [h1, h2]; omega
    · by_cases h3 : c < 65536
      · by_cases h4 : 55296 ≤ c ∧ c ≤ 57343
        · simp [h1, h2, h3, h4]; omega
        · have h4' : ¬ (55296 ≤ c ∧ c ≤ 57343) := h4
          simp only [h1, h2, h3, if_false, if_true, Bool.and_eq_true, decide_eq_true_eq, h4']
          simp; omega
      · by_cases h5 : c < 1114112
        · simp [h1, h2, h3, h5]; omega
        · simp [h1, h2, h3, h5]; omega

/-! ### encoder: append -/

theorem encodeUtf8_append (a b : List Nat) :
    encodeUtf8 (a ++ b) =
      (match encodeUtf8 a, encodeUtf8 b with
       | some x, some y => some (x ++ y)
       | _, _ => none) := by
  induction a with
  | nil => cases h : encodeUtf8 b <;> simp [encodeUtf8, h]
  | cons c a ih =>
    simp only [List.cons_append, encodeUtf8, ih]
    cases encodeCp c <;> cases encodeUtf8 a <;> cases encodeUtf8 b <;> simp

theorem encodeUtf8_append_some {a b x y : List Nat} (ha : encodeUtf8 a = some x) (hb : encodeUtf8 b = some y) :
    encodeUtf8 (a ++ b) = some (x ++ y) := by
  rw [encodeUtf8_append, ha, hb]

/-! ### decoder on well-formed sequences -/

theorem dec1 (c : Nat) (rest : List Nat) (h : c < 128) :
    decodeFrom .fresh (c :: rest) = c :: decodeFrom .fresh rest := by
  simp [decodeFrom, step, start, DSt.fresh, h]

theorem dec2 (x y : Nat) (rest : List Nat) (hx : 2 ≤ x) (hx' : x < 32) (hy : y < 64) :
    decodeFrom .fresh ((192 + x) :: (128 + y) :: rest) = (x * 64 + y) :: decodeFrom .fresh rest := by
  have s1 : step .fresh (192 + x) = (⟨1, x, 128, 191⟩, []) := by
    have a : ¬ (192 + x < 128) := by omega
    have b : 194 ≤ 192 + x ∧ 192 + x ≤ 223 := by omega
    simp [step, start, DSt.fresh, a, b]
  have s2 : step ⟨1, x, 128, 191⟩ (128 + y) = (.fresh, [x * 64 + y]) := by
    have b : 128 ≤ 128 + y ∧ 128 + y ≤ 191 := by omega
    simp [step, b]
  simp [decodeFrom, s1, s2]

theorem dec3 (x y z : Nat) (rest : List Nat) (hx : x < 16) (hy : y < 64) (hz : z < 64)
    (h0 : x = 0 → 32 ≤ y) (h13 : x = 13 → y < 32) :
    decodeFrom .fresh ((224 + x) :: (128 + y) :: (128 + z) :: rest) =
      ((x * 64 + y) * 64 + z) :: decodeFrom .fresh rest := by
  have s1 : step .fresh (224 + x) =
      (⟨2, x, if x = 0 then 160 else 128, if x = 13 then 159 else 191⟩, []) := by
    have a : ¬ (224 + x < 128) := by omega
    have b : ¬ (194 ≤ 224 + x ∧ 224 + x ≤ 223) := by omega
    have c : 224 ≤ 224 + x ∧ 224 + x ≤ 239 := by omega
    have e1 : (224 + x == 224) = decide (x = 0) := by
      by_cases h : x = 0 <;> simp [h]
    have e2 : (224 + x == 237) = decide (x = 13) := by
      by_cases h : x = 13
      · simp [h]
      · have : ¬ (224 + x = 237) := by omega
        simp [h, this]
    simp [step, start, DSt.fresh, a, b, c, e1, e2]
  have s2 : step ⟨2, x, if x = 0 then 160 else 128, if x = 13 then 159 else 191⟩ (128 + y) =
      (⟨1, x * 64 + y, 128, 191⟩, []) := by
    have b : (if x = 0 then 160 else 128) ≤ 128 + y ∧ 128 + y ≤ (if x = 13 then 159 else 191) := by
      constructor
      · split
        · have := h0 (by assumption); omega
        · omega
      · split
        · have := h13 (by assumption); omega
        · omega
    simp [step, b]
  have s3 : step ⟨1, x * 64 + y, 128, 191⟩ (128 + z) = (.fresh, [(x * 64 + y) * 64 + z]) := by
    have b : 128 ≤ 128 + z ∧ 128 + z ≤ 191 := by omega
    simp [step, b]
  simp [decodeFrom, s1, s2, s3]

theorem dec4 (w x y z : Nat) (rest : List Nat) (hw : w < 5) (hx : x < 64) (hy : y < 64) (hz : z < 64)
    (h0 : w = 0 → 16 ≤ x) (h4 : w = 4 → x < 16) :
    decodeFrom .fresh ((240 + w) :: (128 + x) :: (128 + y) :: (128 + z) :: rest) =
      (((w * 64 + x) * 64 + y) * 64 + z) :: decodeFrom .fresh rest := by
  have s1 : step .fresh (240 + w) =
      (⟨3, w, if w = 0 then 144 else 128, if w = 4 then 143 else 191⟩, []) := by
    have a : ¬ (240 + w < 128) := by omega
    have b : ¬ (194 ≤ 240 + w ∧ 240 + w ≤ 223) := by omega
    have c : ¬ (224 ≤ 240 + w ∧ 240 + w ≤ 239) := by omega
    have d : 240 ≤ 240 + w ∧ 240 + w ≤ 244 := by omega
    have e1 : (240 + w == 240) = decide (w = 0) := by
      by_cases h : w = 0 <;> simp [h]
    have e2 : (240 + w == 244) = decide (w = 4) := by
      by_cases h : w = 4
      · simp [h]
      · have : ¬ (240 + w = 244) := by omega
        simp [h, this]
    simp [step, start, DSt.fresh, a, b, c, d, e1, e2]
  have s2 : step ⟨3, w, if w = 0 then 144 else 128, if w = 4 then 143 else 191⟩ (128 + x) =
      (⟨2, w * 64 + x, 128, 191⟩, []) := by
    have b : (if w = 0 then 144 else 128) ≤ 128 + x ∧ 128 + x ≤ (if w = 4 then 143 else 191) := by
      constructor
      · split
        · have := h0 (by assumption); omega
        · omega
      · split
        · have := h4 (by assumption); omega
        · omega
    simp [step, b]
  have s3 : step ⟨2, w * 64 + x, 128, 191⟩ (128 + y) = (⟨1, (w * 64 + x) * 64 + y, 128, 191⟩, []) := by
    have b : 128 ≤ 128 + y ∧ 128 + y ≤ 191 := by omega
    simp [step, b]
  have s4 : step ⟨1, (w * 64 + x) * 64 + y, 128, 191⟩ (128 + z) = (.fresh, [((w * 64 + x) * 64 + y) * 64 + z]) := by
    have b : 128 ≤ 128 + z ∧ 128 + z ≤ 191 := by omega
    simp [step, b]
  simp [decodeFrom, s1, s2, s3, s4]

/-- one encoded code point is decoded back -/
theorem decode_encodeCp (c : Nat) (bs rest : List Nat) (h : encodeCp c = some bs) :
    decodeFrom .fresh (bs ++ rest) = c :: decodeFrom .fresh rest := by
  unfold encodeCp at h
  by_cases h1 : c < 128
  · simp only [h1, if_true, Option.some.injEq] at h
    subst h
    exact dec1 c rest h1
  · by_cases h2 : c < 2048
    · simp only [h1, h2, if_false, if_true, Option.some.injEq] at h
      subst h
      have := dec2 (c / 64) (c % 64) rest (by omega) (by omega) (by omega)
      rw [show c / 64 * 64 + c % 64 = c by omega] at this
      simpa using this
    · by_cases h3 : c < 65536
      · by_cases h4 : 55296 ≤ c ∧ c ≤ 57343
        · simp [h1, h2, h3, h4] at h
        · simp only [h1, h2, h3, if_false, if_true, Bool.and_eq_true, decide_eq_true_eq, h4, Option.some.injEq] at h
          subst h
          have := dec3 (c / 4096) (c / 64 % 64) (c % 64) rest (by omega) (by omega) (by omega) (by omega) (by omega)
          rw [show (c / 4096 * 64 + c / 64 % 64) * 64 + c % 64 = c by omega] at this
          simpa using this
      · by_cases h5 : c < 1114112
        · simp only [h1, h2, h3, h5, if_false, if_true, Option.some.injEq] at h
          subst h
          have := dec4 (c / 262144) (c / 4096 % 64) (c / 64 % 64) (c % 64) rest (by omega) (by omega) (by omega) (by omega)
            (by omega) (by omega)
          rw [show ((c / 262144 * 64 + c / 4096 % 64) * 64 + c / 64 % 64) * 64 + c % 64 = c by omega] at this
          simpa using this
        · simp [h1, h2, h3, h5] at h

/-- decode ∘ encode = id -/
theorem decode_encode : ∀ (t b : List Nat), encodeUtf8 t = some b → decodeUtf8 b = t
  | [], b, h => by
    simp only [encodeUtf8, Option.some.injEq] at h
    subst h
    simp [decodeUtf8, decodeFrom, DSt.fresh]
  | c :: t, b, h => by
    simp only [encodeUtf8] at h
    cases hc : encodeCp c with
    | none => simp [hc] at h
    | some x =>
      cases ht : encodeUtf8 t with
      | none => simp [hc, ht] at h
      | some y =>
        simp only [hc, ht, Option.some.injEq] at h
        subst h
        have ih := decode_encode t y ht
        unfold decodeUtf8 at ih ⊢
        rw [decode_encodeCp c x y hc, ih]

/-! ### universal newlines -/

theorem univFrom_no13 : ∀ (t : List Nat) (p : Bool), 13 ∉ univFrom p t
  | [], p => by simp [univFrom]
  | c :: r, p => by
    unfold univFrom
    by_cases h : c = 13
    · subst h
      simp only [beq_self_eq_true, if_true, List.mem_cons, not_or]
      exact ⟨by decide, univFrom_no13 r true⟩
    · have hb : (c == 13) = false := by simp [h]
      simp only [hb, Bool.false_eq_true, if_false]
      split
      · exact univFrom_no13 r false
      · simp only [List.mem_cons, not_or]
        exact ⟨fun e => h e.symm, univFrom_no13 r false⟩

theorem univFrom_id : ∀ (t : List Nat), 13 ∉ t → univFrom false t = t
  | [], _ => by simp [univFrom]
  | c :: r, h => by
    have hc : c ≠ 13 := fun e => h (by simp [e])
    have hr : 13 ∉ r := fun e => h (by simp [e])
    have hb : (c == 13) = false := by simp [hc]
    unfold univFrom
    simp [hb, univFrom_id r hr]

theorem readFile_no13 (b : List Nat) : 13 ∉ readFile b := univFrom_no13 _ _

/-! ### the decoder only produces scalar values -/

def ok1 (cp : Nat) : Prop := cp * 64 + 63 < 55296 ∨ (57344 ≤ cp * 64 ∧ cp * 64 + 63 < 1114112)
def ok2 (cp lo hi : Nat) : Prop := ∀ b, lo ≤ b → b ≤ hi → ok1 (cp * 64 + (b - 128))
def ok3 (cp lo hi : Nat) : Prop := ∀ b, lo ≤ b → b ≤ hi → ok2 (cp * 64 + (b - 128)) 128 191

structure StOK (st : DSt) : Prop where
  n3 : st.n ≤ 3
  lo : 128 ≤ st.lo
  hi : st.hi ≤ 191
  c1 : st.n = 1 → ok1 st.cp
  c2 : st.n = 2 → ok2 st.cp st.lo st.hi
  c3 : st.n = 3 → ok3 st.cp st.lo st.hi

theorem fresh_ok : StOK .fresh := by
  constructor <;> simp [DSt.fresh]

theorem scalar_repl : Scalar REPL := by unfold Scalar REPL; omega

theorem start_ok (b : Nat) : StOK (start b).1 ∧ ∀ c ∈ (start b).2, Scalar c := by
  unfold start
  by_cases h1 : b < 128
  · simp only [h1, if_true]
    exact ⟨fresh_ok, by intro c hc; simp at hc; subst hc; unfold Scalar; omega⟩
  · by_cases h2 : 194 ≤ b ∧ b ≤ 223
    · simp only [h1, if_false, Bool.and_eq_true, decide_eq_true_eq, h2, and_self, if_true]
      refine ⟨⟨by simp, by simp, by simp, ?_, by simp, by simp⟩, by simp⟩
      intro _
      simp only [ok1]; omega
    · by_cases h3 : 224 ≤ b ∧ b ≤ 239
      · simp only [h1, if_false, Bool.and_eq_true, decide_eq_true_eq, h2, h3, and_self, if_true]
        refine ⟨⟨by simp, ?_, ?_, by simp, ?_, by simp⟩, by simp⟩
        · simp only; split <;> omega
        · simp only; split <;> omega
        · intro _ b1 hlo hhi
          simp only at hlo hhi
          simp only [ok1]
          by_cases e1 : b = 224
          · subst e1; simp at hlo hhi; omega
          · by_cases e2 : b = 237
            · subst e2; simp at hlo hhi; omega
            · have f1 : (b == 224) = false := by simp [e1]
              have f2 : (b == 237) = false := by simp [e2]
              simp only [f1, f2, Bool.false_eq_true, if_false] at hlo hhi
              omega
      · by_cases h4 : 240 ≤ b ∧ b ≤ 244
        · simp only [h1, if_false, Bool.and_eq_true, decide_eq_true_eq, h2, h3, h4, and_self, if_true]
          refine ⟨⟨by simp, ?_, ?_, by simp, by simp, ?_⟩, by simp⟩
          · simp only; split <;> omega
          · simp only; split <;> omega
          · intro _ b1 hlo hhi b2 hlo2 hhi2
            simp only at hlo hhi
            simp only [ok1]
            by_cases e1 : b = 240
            · subst e1; simp at hlo hhi; omega
            · by_cases e2 : b = 244
              · subst e2; simp at hlo hhi; omega
              · have f1 : (b == 240) = false := by simp [e1]
                have f2 : (b == 244) = false := by simp [e2]
                simp only [f1, f2, Bool.false_eq_true, if_false] at hlo hhi
                omega
        · simp only [h1, if_false, Bool.and_eq_true, decide_eq_true_eq, h2, h3, h4]
          exact ⟨fresh_ok, by intro c hc; simp at hc; subst hc; exact scalar_repl⟩

theorem step_ok (st : DSt) (b : Nat) (h : StOK st) : StOK (step st b).1 ∧ ∀ c ∈ (step st b).2, Scalar c := by
  unfold step
  by_cases h0 : st.n = 0
  · simp only [h0, beq_self_eq_true, if_true]
    exact start_ok b
  · have h0' : (st.n == 0) = false := by simp [h0]
    simp only [h0', Bool.false_eq_true, if_false]
    by_cases hr : st.lo ≤ b ∧ b ≤ st.hi
    · simp only [Bool.and_eq_true, decide_eq_true_eq, hr, and_self, if_true]
      by_cases h1 : st.n = 1
      · simp only [h1, beq_self_eq_true, if_true]
        refine ⟨fresh_ok, ?_⟩
        intro c hc
        have hc' : c = st.cp * 64 + (b - 128) := by simpa using hc
        have g1 := h.c1 h1
        have g2 := h.lo
        have g3 := h.hi
        have g4 := hr.1
        have g5 := hr.2
        unfold ok1 at g1
        unfold Scalar
        omega
      · have h1' : (st.n == 1) = false := by simp [h1]
        simp only [h1', Bool.false_eq_true, if_false]
        refine ⟨⟨?_, by simp, by simp, ?_, ?_, ?_⟩, by simp⟩
        · have := h.n3; simp only; omega
        · intro hn
          simp only at hn ⊢
          exact h.c2 (by omega) b hr.1 hr.2
        · intro hn
          simp only at hn ⊢
          exact h.c3 (by omega) b hr.1 hr.2
        · intro hn
          simp only at hn
          have := h.n3
          omega
    · simp only [Bool.and_eq_true, decide_eq_true_eq, hr, if_false]
      obtain ⟨a, c⟩ := start_ok b
      refine ⟨a, ?_⟩
      intro x hx
      rcases List.mem_cons.mp hx with e | e
      · subst e; exact scalar_repl
      · exact c x e

theorem decodeFrom_scalar : ∀ (bs : List Nat) (st : DSt), StOK st → ∀ c ∈ decodeFrom st bs, Scalar c
  | [], st, _ => by
    intro c hc
    unfold decodeFrom at hc
    split at hc
    · simp at hc
    · simp at hc; subst hc; exact scalar_repl
  | b :: bs, st, h => by
    intro c hc
    unfold decodeFrom at hc
    obtain ⟨a, e⟩ := step_ok st b h
    rcases List.mem_append.mp hc with m | m
    · exact e c m
    · exact decodeFrom_scalar bs _ a c m

theorem univFrom_scalar : ∀ (t : List Nat) (p : Bool), (∀ c ∈ t, Scalar c) → ∀ c ∈ univFrom p t, Scalar c
  | [], p, _ => by simp [univFrom]
  | x :: r, p, h => by
    intro c hc
    have hr : ∀ c ∈ r, Scalar c := fun c hc => h c (by simp [hc])
    unfold univFrom at hc
    split at hc
    · rcases List.mem_cons.mp hc with e | e
      · subst e; unfold Scalar; omega
      · exact univFrom_scalar r true hr c e
    · split at hc
      · exact univFrom_scalar r false hr c hc
      · rcases List.mem_cons.mp hc with e | e
        · subst e; exact h _ (by simp)
        · exact univFrom_scalar r false hr c e

theorem readFile_scalar (b : List Nat) : ∀ c ∈ readFile b, Scalar c :=
  univFrom_scalar _ _ (decodeFrom_scalar b _ fresh_ok)

theorem encodeUtf8_total : ∀ (t : List Nat), (∀ c ∈ t, Scalar c) → ∃ b, encodeUtf8 t = some b
  | [], _ => ⟨[], rfl⟩
  | c :: r, h => by
    obtain ⟨y, hy⟩ := encodeUtf8_total r (fun c hc => h c (by simp [hc]))
    have hs := (encodeCp_isSome_iff c).mpr (h c (by simp))
    obtain ⟨x, hx⟩ := Option.isSome_iff_exists.mp hs
    exact ⟨x ++ y, by simp [encodeUtf8, hx, hy]⟩

theorem encodeUtf8_sublist_total {t u : List Nat} (h : u.Sublist t) (ht : ∀ c ∈ t, Scalar c) :
    ∃ b, encodeUtf8 u = some b :=
  encodeUtf8_total u (fun c hc => ht c (h.subset hc))

end C04B

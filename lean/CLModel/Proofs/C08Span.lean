/-
C08, round 4: verdicts do not depend on spans.  Two localizations that `FluentEntity.equals` calls equal (same AST up to
spans and comments — e.g. a copy that differs in white space / comments only, or the verbatim copy of the reference)
get the same messages up to positions.
-/
import CLModel.Proofs.C08Refs
import CLModel.Proofs.C08Text
import CLModel.Checks.FluentExt
namespace C08E
open Ftl Gen.Tables

/-- a message without its position -/
def pf (m : Msg) : Str × Str := (m.sev, m.text)

def VKey.np : VKey → VKey
  | .ident _ n => .ident 0 n
  | .num _ v => .num 0 v

/-- a visited node without its positions -/
def Ev.np : Ev → Ev
  | .msgRef _ i a => .msgRef 0 i a
  | .termRef _ i a => .termRef 0 i a
  | .select keys => .select (keys.map VKey.np)

theorem vkey_eqv_np (a b : VKey) (h : VKey.eqv a b = true) : VKey.np a = VKey.np b := by
  cases a <;> cases b <;> simp [VKey.eqv, VKey.equals] at h <;> simp [VKey.np, h]

theorem optStrEq_eq (a b : Option Str) (h : optStrEq a b = true) : a = b := by
  cases a <;> cases b <;> simp [optStrEq] at h <;> simp [h]

/-! ### evExpr equations (by computation) -/

theorem evExpr_termRef_none (d : Bool) (s : Nat) (i : Str) (a : Option Str) :
    evExpr d (.termRef s i a none) = [Ev.termRef s i a] := by cases d <;> rfl
theorem evExpr_termRef_some (d : Bool) (s : Nat) (i : Str) (a : Option Str) (c : CallArgs) :
    evExpr d (.termRef s i a (some c)) = Ev.termRef s i a :: (if d then evArgs d c else []) := by cases d <;> rfl
theorem evExpr_select (d : Bool) (sel : Expr) (vs : List Variant) :
    evExpr d (.select sel vs) = (if d then evExpr d sel else []) ++ evVariants d vs ++ [Ev.select (vs.map Variant.key)] := by
  cases d <;> rfl

mutual
  theorem ev_eqv_P (d : Bool) : ∀ p q : Pattern, p.eqv q = true → (evPattern d p).map Ev.np = (evPattern d q).map Ev.np
    | .mk s1 e1, .mk s2 e2, h => by
      simp only [Pattern.eqv] at h
      show (evElems d e1).map Ev.np = (evElems d e2).map Ev.np
      exact ev_eqv_Els d e1 e2 h
  theorem ev_eqv_Els (d : Bool) : ∀ a b : List Elem, elemsEqv a b = true → (evElems d a).map Ev.np = (evElems d b).map Ev.np
    | [], b, h => by
      cases b with
      | nil => rfl
      | cons y s => simp [elemsEqv] at h
    | x :: r, b, h => by
      cases b with
      | nil => simp [elemsEqv] at h
      | cons y s =>
        simp only [elemsEqv, Bool.and_eq_true] at h
        show (evElem d x ++ evElems d r).map Ev.np = (evElem d y ++ evElems d s).map Ev.np
        rw [List.map_append, List.map_append, ev_eqv_El d x y h.1, ev_eqv_Els d r s h.2]
  theorem ev_eqv_El (d : Bool) : ∀ a b : Elem, a.eqv b = true → (evElem d a).map Ev.np = (evElem d b).map Ev.np
    | .text v, b, h => by
      cases b with
      | text w => rfl
      | placeable e => simp [Elem.eqv] at h
    | .placeable e, b, h => by
      cases b with
      | text w => simp [Elem.eqv] at h
      | placeable e2 =>
        simp only [Elem.eqv] at h
        show (evExpr d e).map Ev.np = (evExpr d e2).map Ev.np
        exact ev_eqv_E d e e2 h
  theorem ev_eqv_E (d : Bool) : ∀ a b : Expr, a.eqv b = true → (evExpr d a).map Ev.np = (evExpr d b).map Ev.np
    | .strLit v, b, h => by cases b <;> simp [Expr.eqv] at h <;> rfl
    | .numLit v, b, h => by cases b <;> simp [Expr.eqv] at h <;> rfl
    | .varRef v, b, h => by cases b <;> simp [Expr.eqv] at h <;> rfl
    | .msgRef s i a, b, h => by
      cases b with
      | msgRef s2 i2 a2 =>
        simp only [Expr.eqv, Bool.and_eq_true] at h
        have h1 : i = i2 := by simpa using h.1
        have h2 := optStrEq_eq a a2 h.2
        subst h1; subst h2
        rfl
      | _ => simp [Expr.eqv] at h
    | .termRef s i a none, b, h => by
      cases b with
      | termRef s2 i2 a2 x2 =>
        cases x2 with
        | none =>
          simp only [Expr.eqv, Bool.and_eq_true] at h
          have h1 : i = i2 := by simpa using h.1.1
          have h2 := optStrEq_eq a a2 h.1.2
          subst h1; subst h2
          rw [evExpr_termRef_none, evExpr_termRef_none]; rfl
        | some c2 => simp [Expr.eqv, optArgsEqv] at h
      | _ => simp [Expr.eqv] at h
    | .termRef s i a (some c), b, h => by
      cases b with
      | termRef s2 i2 a2 x2 =>
        cases x2 with
        | none => simp [Expr.eqv, optArgsEqv] at h
        | some c2 =>
          simp only [Expr.eqv, optArgsEqv, Bool.and_eq_true] at h
          have h1 : i = i2 := by simpa using h.1.1
          have h2 := optStrEq_eq a a2 h.1.2
          subst h1; subst h2
          have h3 := ev_eqv_Args d c c2 h.2
          rw [evExpr_termRef_some, evExpr_termRef_some]
          cases d
          · rfl
          · simp only [if_true, List.map_cons]
            rw [h3]; rfl
      | _ => simp [Expr.eqv] at h
    | .funRef i c, b, h => by
      cases b with
      | funRef i2 c2 =>
        simp only [Expr.eqv, Bool.and_eq_true] at h
        show (evArgs d c).map Ev.np = (evArgs d c2).map Ev.np
        exact ev_eqv_Args d c c2 h.2
      | _ => simp [Expr.eqv] at h
    | .select sel vs, b, h => by
      cases b with
      | select sel2 vs2 =>
        simp only [Expr.eqv, Bool.and_eq_true] at h
        have h1 := ev_eqv_E d sel sel2 h.1
        have h2 := ev_eqv_Vs d vs vs2 h.2
        rw [evExpr_select, evExpr_select]
        simp only [List.map_append, List.map_cons, List.map_nil]
        rw [h2.1]
        have hk : Ev.np (Ev.select (vs.map Variant.key)) = Ev.np (Ev.select (vs2.map Variant.key)) := by
          simp only [Ev.np]; rw [h2.2]
        rw [hk]
        cases d
        · rfl
        · simp only [if_true]; rw [h1]
      | _ => simp [Expr.eqv] at h
    | .placeable e, b, h => by
      cases b with
      | placeable e2 =>
        simp only [Expr.eqv] at h
        show (evExpr d e).map Ev.np = (evExpr d e2).map Ev.np
        exact ev_eqv_E d e e2 h
      | _ => simp [Expr.eqv] at h
  theorem ev_eqv_Vs (d : Bool) : ∀ a b : List Variant, variantsEqv a b = true →
      (evVariants d a).map Ev.np = (evVariants d b).map Ev.np ∧
      (a.map Variant.key).map VKey.np = (b.map Variant.key).map VKey.np
    | [], b, h => by
      cases b with
      | nil => exact ⟨rfl, rfl⟩
      | cons y s => simp [variantsEqv] at h
    | x :: r, b, h => by
      cases b with
      | nil => simp [variantsEqv] at h
      | cons y s =>
        simp only [variantsEqv, Bool.and_eq_true] at h
        have h1 := ev_eqv_V d x y h.1
        have h2 := ev_eqv_Vs d r s h.2
        constructor
        · show (evVariant d x ++ evVariants d r).map Ev.np = (evVariant d y ++ evVariants d s).map Ev.np
          rw [List.map_append, List.map_append, h1.1, h2.1]
        · simp only [List.map_cons]
          rw [h1.2, h2.2]
  theorem ev_eqv_V (d : Bool) : ∀ a b : Variant, a.eqv b = true →
      (evVariant d a).map Ev.np = (evVariant d b).map Ev.np ∧ VKey.np a.key = VKey.np b.key
    | .mk k1 p1 d1, .mk k2 p2 d2, h => by
      simp only [Variant.eqv, Bool.and_eq_true] at h
      refine ⟨?_, vkey_eqv_np k1 k2 h.1.1⟩
      show (evPattern d p1).map Ev.np = (evPattern d p2).map Ev.np
      exact ev_eqv_P d p1 p2 h.1.2
  theorem ev_eqv_Args (d : Bool) : ∀ a b : CallArgs, a.eqv b = true → (evArgs d a).map Ev.np = (evArgs d b).map Ev.np
    | .mk p1 n1, .mk p2 n2, h => by
      simp only [CallArgs.eqv, Bool.and_eq_true] at h
      show (evExprs d p1).map Ev.np = (evExprs d p2).map Ev.np
      exact ev_eqv_Es d p1 p2 h.1
  theorem ev_eqv_Es (d : Bool) : ∀ a b : List Expr, exprsEqv a b = true → (evExprs d a).map Ev.np = (evExprs d b).map Ev.np
    | [], b, h => by
      cases b with
      | nil => rfl
      | cons y s => simp [exprsEqv] at h
    | x :: r, b, h => by
      cases b with
      | nil => simp [exprsEqv] at h
      | cons y s =>
        simp only [exprsEqv, Bool.and_eq_true] at h
        show (evExpr d x ++ evExprs d r).map Ev.np = (evExpr d y ++ evExprs d s).map Ev.np
        rw [List.map_append, List.map_append, ev_eqv_E d x y h.1, ev_eqv_Es d r s h.2]
end

/-! ### what the visitors do with a node does not depend on its positions -/

theorem refKey_np (e : Ev) : (Ev.np e).refKey = e.refKey := by
  cases e <;> rfl

theorem evRefs_np (refs : List Str) (e : Ev) : evRefs refs (Ev.np e) = evRefs refs e := by
  simp only [evRefs, refKey_np]

theorem vkey_equals_np (a b : VKey) : VKey.equals (VKey.np a) (VKey.np b) = VKey.equals a b := by
  cases a <;> cases b <;> rfl

theorem vkey_str_np (k : VKey) : (VKey.np k).str = k.str := by cases k <;> rfl

theorem checkPlurals_pf (kp : Option (List Str)) (keys keys' : List VKey) (h : keys.map VKey.str = keys'.map VKey.str) :
    (checkPlurals kp keys).map pf = (checkPlurals kp keys').map pf := by
  cases kp with
  | none => rfl
  | some cats =>
    cases keys with
    | nil =>
      cases keys' with
      | nil => rfl
      | cons k r => simp at h
    | cons k0 r0 =>
      cases keys' with
      | nil => simp at h
      | cons k1 r1 =>
        simp only [checkPlurals, h]
        split
        · rfl
        · split
          · split
            · rfl
            · rfl
          · rfl

theorem dupLoop_proj {α β : Type} [BEq β] (n : α → β) (ks l : List α) :
    (dupLoop (fun a b => n a == n b) ks l).map n = dupLoop (fun a b : β => a == b) (ks.map n) (l.map n) := by
  induction l generalizing ks with
  | nil => rfl
  | cons x rest ih =>
    simp only [List.map_cons, dupLoop]
    have hany : (ks.map n).any (fun k => k == n x) = ks.any (fun k => n k == n x) := by
      simp [List.any_map, Function.comp_def]
    rw [hany]
    split
    · exact ih ks
    · have hf : (rest.map n).filter (fun y => n x == y) = (rest.filter (fun y => n x == n y)).map n := by
        rw [List.filter_map]; rfl
      rw [hf]
      have := ih (ks ++ [x])
      simp only [List.map_append, List.map_cons, List.map_nil] at this
      rw [← this]
      cases hm : rest.filter (fun y => n x == n y) <;> simp

theorem checkVariants_np (kp : Option (List Str)) (keys : List VKey) :
    (checkVariants kp (keys.map VKey.np)).map pf = (checkVariants kp keys).map pf := by
  unfold checkVariants
  rw [List.map_append, List.map_append]
  congr 1
  · have := C08T.dupLoop_map VKey.equals VKey.np vkey_equals_np [] keys
    simp only [List.map_nil] at this
    rw [this, List.map_map, List.map_map, List.map_map]
    apply List.map_congr_left
    intro k _
    simp [pf, vkey_str_np]
  · apply checkPlurals_pf
    rw [List.map_map]
    apply List.map_congr_left
    intro k _
    simp [vkey_str_np]

theorem evMsgs_np (kp : Option (List Str)) (rr : List Str) (e : Ev) :
    (evMsgs kp rr (Ev.np e)).map pf = (evMsgs kp rr e).map pf := by
  cases e with
  | select keys => exact checkVariants_np kp keys
  | msgRef s i a =>
    simp only [Ev.np, evMsgs, Ev.refKey]
    split <;> (split <;> rfl)
  | termRef s i a =>
    simp only [Ev.np, evMsgs, Ev.refKey]
    cases a with
    | none => simp only [Option.isSome_none]; split <;> (try split) <;> rfl
    | some x => rfl

theorem termMsgs_np (kp : Option (List Str)) (e : Ev) : (termMsgs kp (Ev.np e)).map pf = (termMsgs kp e).map pf := by
  cases e with
  | select keys => exact checkVariants_np kp keys
  | msgRef s i a => rfl
  | termRef s i a => rfl

theorem flatMap_pf_np (f : Ev → List Msg) (hf : ∀ e, (f (Ev.np e)).map pf = (f e).map pf) (evs evs' : List Ev)
    (h : evs.map Ev.np = evs'.map Ev.np) : (evs.flatMap f).map pf = (evs'.flatMap f).map pf := by
  have key : ∀ l : List Ev, (l.flatMap f).map pf = (l.map Ev.np).flatMap (fun e => (f e).map pf) := by
    intro l
    induction l with
    | nil => rfl
    | cons e r ih => simp only [List.flatMap_cons, List.map_append, List.map_cons, ih, hf]
  rw [key, key, h]

theorem foldl_evRefs_np (evs evs' : List Ev) (s : List Str) (h : evs.map Ev.np = evs'.map Ev.np) :
    evs.foldl evRefs s = evs'.foldl evRefs s := by
  have key : ∀ (l : List Ev) (s : List Str), l.foldl evRefs s = (l.map Ev.np).foldl evRefs s := by
    intro l
    induction l with
    | nil => intro s; rfl
    | cons e r ih => intro s; simp only [List.foldl_cons, List.map_cons, evRefs_np]; exact ih _
  rw [key, key evs', h]

/-! ### attributes -/

theorem patternVariants_eqv (p q : Pattern) (h : p.eqv q = true) : patternVariants p = patternVariants q := by
  cases p with
  | mk s1 e1 =>
    cases q with
    | mk s2 e2 =>
      simp only [Pattern.eqv] at h
      unfold patternVariants
      simp only [Pattern.elements]
      cases e1 with
      | nil =>
        cases e2 with
        | nil => rfl
        | cons y s => simp [elemsEqv] at h
      | cons x r =>
        cases e2 with
        | nil => simp [elemsEqv] at h
        | cons y s =>
          simp only [elemsEqv, Bool.and_eq_true] at h
          cases r with
          | nil =>
            cases s with
            | nil =>
              cases x with
              | text v =>
                cases y with
                | text w =>
                  have : v = w := by simpa [Elem.eqv] using h.1
                  subst this; rfl
                | placeable e => simp [Elem.eqv] at h
              | placeable e =>
                cases y with
                | text w => simp [Elem.eqv] at h
                | placeable e2 => rfl
            | cons y2 s2 => simp [elemsEqv] at h
          | cons x2 r2 =>
            cases s with
            | nil => simp [elemsEqv] at h
            | cons y2 s2 => cases x <;> cases y <;> rfl

theorem cssCheck_eqv (rc : CssVal) (a b : Attribute) (h : a.eqv b = true) : cssCheck rc a = cssCheck rc b := by
  simp only [Attribute.eqv, Bool.and_eq_true] at h
  have hn : a.name = b.name := by simpa using h.1
  unfold cssCheck
  rw [hn, patternVariants_eqv a.value b.value h.2]

theorem attrsMsgs_eqv (kp : Option (List Str)) (rr : Slot → List Str) (rc : CssVal) (a b : List Attribute)
    (h : attrsEqv a b = true) : (attrsMsgs kp rr rc a).map pf = (attrsMsgs kp rr rc b).map pf := by
  induction a generalizing b rc with
  | nil =>
    cases b with
    | nil => rfl
    | cons y s => simp [attrsEqv] at h
  | cons x r ih =>
    cases b with
    | nil => simp [attrsEqv] at h
    | cons y s =>
      simp only [attrsEqv, Bool.and_eq_true] at h
      have hxy := h.1
      simp only [Attribute.eqv, Bool.and_eq_true] at hxy
      have hn : x.name = y.name := by simpa using hxy.1
      simp only [attrsMsgs, List.map_append]
      rw [cssCheck_eqv rc x y h.1, ih _ s h.2, hn,
        flatMap_pf_np _ (evMsgs_np kp _) _ _ (ev_eqv_P false x.value y.value hxy.2)]

theorem names_eqv (a b : List Attribute) (h : attrsEqv a b = true) : a.map (·.name) = b.map (·.name) := by
  induction a generalizing b with
  | nil =>
    cases b with
    | nil => rfl
    | cons y s => simp [attrsEqv] at h
  | cons x r ih =>
    cases b with
    | nil => simp [attrsEqv] at h
    | cons y s =>
      simp only [attrsEqv, Bool.and_eq_true, Attribute.eqv] at h
      have hn : x.name = y.name := by simpa using h.1.1
      simp only [List.map_cons, hn, ih s h.2]

theorem attrsRefs_eqv (a b : List Attribute) (er : List (Slot × List Str)) (h : attrsEqv a b = true) :
    attrsRefs er a = attrsRefs er b := by
  induction a generalizing b er with
  | nil =>
    cases b with
    | nil => rfl
    | cons y s => simp [attrsEqv] at h
  | cons x r ih =>
    cases b with
    | nil => simp [attrsEqv] at h
    | cons y s =>
      simp only [attrsEqv, Bool.and_eq_true] at h
      have hxy := h.1
      simp only [Attribute.eqv, Bool.and_eq_true] at hxy
      have hn : x.name = y.name := by simpa using hxy.1
      simp only [attrsRefs, List.foldl_cons] at ih ⊢
      rw [hn, foldl_evRefs_np _ _ _ (ev_eqv_P false x.value y.value hxy.2)]
      exact ih s _ h.2

theorem keys_attrsPos (d : List (Str × Nat)) (attrs : List Attribute) :
    dictKeys (attrsPos d attrs) = (attrs.map (·.name)).foldl setAdd (dictKeys d) := by
  induction attrs generalizing d with
  | nil => rfl
  | cons a r ih =>
    simp only [attrsPos, List.foldl_cons, List.map_cons] at ih ⊢
    rw [ih, dictKeys_dictSet]

theorem checkDuplicateAttributes_pf (a b : List Attribute) (h : a.map (·.name) = b.map (·.name)) :
    (checkDuplicateAttributes a).map pf = (checkDuplicateAttributes b).map pf := by
  have key : ∀ l : List Attribute, (checkDuplicateAttributes l).map pf =
      (dupLoop (fun x y : Str => x == y) [] (l.map (·.name))).map (fun n => (sevWarning, fmt fluentMsg_duplicate_attribute [n])) := by
    intro l
    have := dupLoop_proj (fun x : Attribute => x.name) [] l
    simp only [List.map_nil] at this
    rw [← this]
    simp only [checkDuplicateAttributes, List.map_map]
    apply List.map_congr_left
    intro x _
    rfl
  rw [key, key, h]

theorem valueErrs_pf (rh : Bool) (v v' : Option Pattern) (h : v.isSome = v'.isSome) :
    (valueErrs rh v).map pf = (valueErrs rh v').map pf := by
  cases v <;> cases v' <;> simp at h <;> cases rh <;> simp [valueErrs, pf]

theorem obsoleteAttrErrs_pf (refAttrs : List Str) (d d' : List (Str × Nat)) (h : dictKeys d = dictKeys d') :
    (obsoleteAttrErrs refAttrs d).map pf = (obsoleteAttrErrs refAttrs d').map pf := by
  have key : ∀ l : List (Str × Nat), (obsoleteAttrErrs refAttrs l).map pf =
      ((dictKeys l).filter (fun n => !refAttrs.contains n)).map (fun n => (sevError, fmt fluentMsg_obsolete_attribute [n])) := by
    intro l
    simp only [obsoleteAttrErrs, dictKeys, List.map_map, List.filter_map]
    rfl
  rw [key, key, h]

/-- **same AST up to spans ⇒ same verdicts up to positions** (messages of check_message before the sort) -/
theorem checkMessage_eqv (kp : Option (List Str)) (ref l l' : Message)
    (hv : optPatternEqv l.value l'.value = true) (ha : attrsEqv l.attributes l'.attributes = true) :
    (checkMessage kp (.message ref) l).map pf = (checkMessage kp (.message ref) l').map pf := by
  have hnames := names_eqv _ _ ha
  have hkeys : dictKeys (attrsPos [] l.attributes) = dictKeys (attrsPos [] l'.attributes) := by
    rw [keys_attrsPos, keys_attrsPos, hnames]
  have hsome : l.value.isSome = l'.value.isSome := by
    cases h1 : l.value <;> cases h2 : l'.value <;> simp [h1, h2, optPatternEqv] at hv ⊢
  have hvm : ∀ rr, (valueMsgs kp rr l.value).map pf = (valueMsgs kp rr l'.value).map pf := by
    intro rr
    cases h1 : l.value with
    | none =>
      cases h2 : l'.value with
      | none => rfl
      | some q => simp [h1, h2, optPatternEqv] at hv
    | some p =>
      cases h2 : l'.value with
      | none => simp [h1, h2, optPatternEqv] at hv
      | some q =>
        rw [h1, h2] at hv
        simp only [optPatternEqv] at hv
        simp only [valueMsgs]
        exact flatMap_pf_np _ (evMsgs_np kp _) _ _ (ev_eqv_P false p q hv)
  have her : (l10nVisitMessage kp (refVisitEntry (.message ref)) l).entryRefs =
      (l10nVisitMessage kp (refVisitEntry (.message ref)) l').entryRefs := by
    rw [l10nVisitMessage_entryRefs, l10nVisitMessage_entryRefs]
    cases h1 : l.value with
    | none =>
      cases h2 : l'.value with
      | none => exact attrsRefs_eqv _ _ _ ha
      | some q => simp [h1, h2, optPatternEqv] at hv
    | some p =>
      cases h2 : l'.value with
      | none => simp [h1, h2, optPatternEqv] at hv
      | some q =>
        rw [h1, h2] at hv
        simp only [optPatternEqv] at hv
        simp only
        rw [foldl_evRefs_np _ _ _ (ev_eqv_P false p q hv)]
        exact attrsRefs_eqv _ _ _ ha
  rw [checkMessage_structure, checkMessage_structure]
  simp only [List.map_append]
  rw [checkDuplicateAttributes_pf _ _ hnames, hvm, attrsMsgs_eqv kp _ _ _ _ ha, valueErrs_pf _ _ _ hsome, hkeys,
    obsoleteAttrErrs_pf _ _ _ hkeys, her]

/-! ### terms -/

theorem attrValues_ev_eqv (a b : List Attribute) (h : attrsEqv a b = true) :
    ((a.map (·.value)).flatMap (evPattern true)).map Ev.np = ((b.map (·.value)).flatMap (evPattern true)).map Ev.np := by
  induction a generalizing b with
  | nil =>
    cases b with
    | nil => rfl
    | cons y s => simp [attrsEqv] at h
  | cons x r ih =>
    cases b with
    | nil => simp [attrsEqv] at h
    | cons y s =>
      simp only [attrsEqv, Bool.and_eq_true, Attribute.eqv] at h
      simp only [List.map_cons, List.flatMap_cons, List.map_append]
      rw [ev_eqv_P true x.value y.value h.1.2, ih s h.2]

theorem checkTerm_eqv (kp : Option (List Str)) (t t' : Term) (hv : t.value.eqv t'.value = true)
    (ha : attrsEqv t.attributes t'.attributes = true) : (checkTerm kp t).map pf = (checkTerm kp t').map pf := by
  rw [checkTerm_structure, checkTerm_structure]
  simp only [List.map_append, List.flatMap_cons]
  rw [checkDuplicateAttributes_pf _ _ (names_eqv _ _ ha)]
  congr 1
  apply flatMap_pf_np _ (termMsgs_np kp)
  simp only [List.map_append]
  rw [ev_eqv_P true _ _ hv, attrValues_ev_eqv _ _ ha]

/-! ### through `check`: the sort permutes, so the multiset of (severity, text) is what is invariant -/

def opf (o : Out) : Str × Str := (o.sev, o.text)

theorem finish_opf_perm (start : Nat) (msgs : List Msg) : ((finish start msgs).map opf).Perm (msgs.map pf) := by
  have h := (finish_perm start msgs).map opf
  have : (msgs.map (toOut start)).map opf = msgs.map pf := by
    rw [List.map_map]; rfl
  rw [this] at h
  exact h

end C08E

/- C02 (extension), properties: records that carry a preceding one-line `# comment`. -/
import CLModel.Proofs.C02XRx
namespace C02X
open Rx P Gen.Pat

/-! ### the comment regex on one `#` line that is followed by a record -/

/-- at `off`: `#`, then `clen - 1` further characters that are not newlines, then a newline, then a character that
    does not start a comment -/
structure CommentAt (s : Array Nat) (off clen : Nat) : Prop where
  clen_pos : 1 ≤ clen
  hash : s[off]? = some 35
  body : ∀ j, j < clen - 1 → ∃ c, s[off + 1 + j]? = some c ∧ c ≠ 10
  nl : s[off + clen]? = some 10
  next : ∃ c, s[off + clen + 1]? = some c ∧ c ≠ 35 ∧ c ≠ 33

/-- a repeat (minimum 0) whose first further iteration fails as a whole hands over to the continuation -/
theorem loop_more_none (body : St → K → Option St) (g : Bool) (f : Nat) (mx : Option Nat) (st : St) (k : K)
    (h : body st (fun st' => if st'.pos ≤ st.pos then none else loop body g f (0 - 1) (mx.map (· - 1)) st' k) = none) :
    loop body g (f + 1) 0 mx st k = k st := by
  rw [loop]
  simp only [h]
  cases g <;> cases k st <;> cases (mx == some 0) <;> simp

theorem props_comment_match (s : Array Nat) (off clen : Nat) (h : CommentAt s off clen) :
    matchAt s PropertiesParser_reComment off = some ⟨off + clen, []⟩ := by
  have hcl := h.clen_pos
  obtain ⟨cn, hcn, hcn1, hcn2⟩ := h.next
  have hsz := getElem?_some_lt hcn
  have hhash : inC false [ClsItem.ch 35, ClsItem.ch 33] 35 = true := by decide
  have hnextfail : ∀ k', charStep s (inC false [ClsItem.ch 35, ClsItem.ch 33]) ⟨off + clen + 1, []⟩ k' = none := by
    intro k'
    exact charStep_fail s _ _ [] (Or.inr ⟨cn, hcn, by simp [inC, ClsItem.has, hcn1, hcn2]⟩) k'
  simp only [matchAt, PropertiesParser_reComment, m_seq, m_rep]
  obtain ⟨f, hf⟩ : ∃ f, s.size + 2 - off = f + 1 := ⟨s.size + 1 - off, by omega⟩
  simp only [hf]
  rw [loop_more_none]
  · -- the final `[#!][^\n]*`
    simp only [m_cls_charStep, m_notLit_charStep]
    rw [charStep_ok s _ off 35 [] h.hash hhash]
    apply charLoop_hit s _ [] some _ (clen - 1) _ (off + 1) 0 (by simp only []; omega) (by omega)
    · intro j hj
      obtain ⟨c, hc, hne⟩ := h.body j hj
      exact ⟨c, hc, by simp [hne]⟩
    · right
      exact ⟨10, by rw [show off + 1 + (clen - 1) = off + clen by omega]; exact h.nl, by decide⟩
    · simp; omega
  · -- the first iteration of `(?:[#!][^\n]*\n)*` runs to the newline and then dies at the record
    simp only [m_seq, m_rep, m_cls_charStep, m_notLit_charStep]
    rw [charStep_ok s _ off 35 [] h.hash hhash]
    apply charLoop_none s _ [] _ (clen - 1) _ (off + 1)
    · intro j hj
      obtain ⟨c, hc, hne⟩ := h.body j hj
      exact ⟨c, hc, by simp [hne]⟩
    · right
      exact ⟨10, by rw [show off + 1 + (clen - 1) = off + clen by omega]; exact h.nl, by decide⟩
    · intro j hj
      by_cases hjn : j < clen - 1
      · obtain ⟨c, hc, hne⟩ := h.body j hjn
        apply lit_fail
        rw [hc]; simp [hne]
      · have : j = clen - 1 := by omega
        subst this
        rw [show off + 1 + (clen - 1) = off + clen by omega, lit_ok s _ 10 [] h.nl]
        simp only [show ¬ (off + clen + 1 ≤ off) by omega, if_false]
        obtain ⟨f', hf'⟩ : ∃ f', f = f' + 1 := ⟨f - 1, by omega⟩
        rw [hf', show (0 : Nat) - 1 = 0 from rfl, loop_body_fail]
        · exact hnextfail _
        · intro k'
          rw [m_seq, m_cls_charStep]
          exact hnextfail _

theorem slice_one (s : Array Nat) (a c : Nat) (h : s[a]? = some c) : slice s a (a + 1) = [c] := by
  have hlt := getElem?_some_lt h
  rcases drop_view s a with ⟨h0, _, _⟩ | ⟨c', hc', _, hd⟩
  · rw [h0] at h; cases h
  · rw [h] at hc'; cases hc'
    rw [slice_take s a 1 _ hd (by simp)]
    simp

/-- the entity for a record with an attached one-line comment of `clen` characters starting at `off`:
    `pre_comment` span = the comment line WITHOUT its newline; the entity proper starts after the newline -/
def propsCEntity (off clen klen vlen : Nat) : Entry :=
  { kind := .entity, full := off, s := off + clen + 1, e := off + clen + 1 + klen + 1 + vlen,
    ks := (off + clen + 1 : Nat), ke := (off + clen + 1 + klen : Nat),
    vs := (off + clen + 1 + klen + 1 : Nat), ve := (off + clen + 1 + klen + 1 + vlen : Nat), pc := some (off, off + clen) }

theorem props_centity_at (s : Array Nat) (off clen klen vlen : Nat) (hc : CommentAt s off clen)
    (h : RecAt s (off + clen + 1) klen vlen)
    (hlic : (off == 0 && isInfix licenseWord
      (commentVal (.offset Gen.Tables.offsetCommentDefault) (slice s off (off + clen)))) = false) :
    propsGetNext s off = propsCEntity off clen klen vlen := by
  obtain ⟨c0, hc0, hk0⟩ := h.key 0 h.klen_pos
  simp only [Nat.add_zero] at hc0
  have f0 := keyChar_facts hk0
  have hcm := props_comment_match s off clen hc
  have hws := ws_match_one s (off + clen) hc.nl (Or.inr ⟨c0, hc0, f0.2.2.1, f0.2.2.2.1, f0.2.2.2.2.1, f0.2.2.2.2.2.1⟩)
  have hcnt : countNl s (off + clen) (off + clen + 1) = 1 := by
    unfold countNl
    rw [slice_one s _ 10 hc.nl]
    rfl
  have hkm := key_match s (off + clen + 1) klen vlen h
  have hlines := propsLines_simple s (off + clen + 1 + klen + 1) vlen h.val h.nl
  obtain ⟨st, htw⟩ := trailingWS_at s (off + clen + 1 + klen + 1) vlen
    (fun j hj => by obtain ⟨c, hc, _, h2⟩ := h.val j hj; exact ⟨c, hc, h2⟩)
    (fun hv => by
      obtain ⟨c, hc, h1, h2, h3⟩ := h.val_last hv
      obtain ⟨c', hc', _, h4⟩ := h.val (vlen - 1) (by omega)
      rw [show off + clen + 1 + klen + 1 + (vlen - 1) = off + clen + 1 + klen + vlen by omega, hc] at hc'
      cases hc'
      exact ⟨c, by rw [show off + clen + 1 + klen + 1 + vlen - 1 = off + clen + 1 + klen + vlen by omega]; exact hc, h1, h2, h3, h4⟩)
    h.nl
  unfold propsGetNext
  simp only [hcm, hlic, hws, hcnt, hkm, hlines, htw]
  simp [propsCEntity, spanI, St.group, capOf, PropertiesParser_reKey_g_key]

/-! ### the value of the comment -/

theorem splitLinesGo_noBreak : ∀ (l cur : List Nat), (∀ c ∈ l, isLineBreak c = false) → (cur ≠ [] ∨ l ≠ []) →
    splitLinesGo cur l = [cur.reverse ++ l] := by
  intro l
  induction l with
  | nil =>
    intro cur _ h
    have : cur ≠ [] := by rcases h with h | h; exact h; exact absurd rfl h
    simp [splitLinesGo, this]
  | cons c t ih =>
    intro cur hb _
    have hc : isLineBreak c = false := hb c (by simp)
    have h13 : c ≠ 13 := by intro h; subst h; revert hc; decide
    have := ih (c :: cur) (fun d hd => hb d (by simp [hd])) (Or.inl (by simp))
    unfold splitLinesGo
    split
    · rename_i heq; cases heq
    · rename_i heq
      have : c = 13 := by injection heq
      exact absurd this h13
    · rename_i c' rest hne heq
      injection heq with h1 h2
      subst h1; subst h2
      simp only [hc, Bool.false_eq_true, if_false]
      rw [this]
      simp

/-- `OffsetComment.val` of a one-line comment: the line without its FIRST character (`comment_offset = 1`;
    the blank after `#` is kept) -/
theorem commentVal_oneLine (c : List Nat) (hb : ∀ ch ∈ c, isLineBreak ch = false) :
    commentVal (.offset Gen.Tables.offsetCommentDefault) (35 :: 32 :: c) = 32 :: c := by
  have hall : ∀ ch ∈ (35 :: 32 :: c), isLineBreak ch = false := by
    intro ch hch
    simp only [List.mem_cons] at hch
    rcases hch with h | h | h
    · subst h; decide
    · subst h; decide
    · exact hb ch h
  simp only [commentVal, offsetCommentVal, splitLinesKeep]
  rw [splitLinesGo_noBreak _ [] hall (Or.inr (by simp))]
  simp [Gen.Tables.offsetCommentDefault]

theorem isInfix_license_blank (c : List Nat) : isInfix licenseWord (32 :: c) = isInfix licenseWord c := by
  simp [isInfix, licenseWord, List.isPrefixOf]

/-! ### a printed list of records, each with an optional one-line comment -/

/-- (comment text, record) -/
abbrev CRec := Option (List Nat) × PRec

/-- `# comment⏎` (if any) then `key=value⏎` -/
def printCRec (r : CRec) : List Nat :=
  (match r.1 with | some c => 35 :: 32 :: (c ++ [10]) | none => []) ++ printRec r.2

def printCProps (rs : List CRec) : List Nat := (rs.map printCRec).flatten

/-- the record is safe; the comment text contains no line boundary (newline, CR, VT, FF, FS, GS, RS, NEL, LS, PS:
    `str.splitlines` would split there) -/
structure SafeCRec (r : CRec) : Prop where
  safe : SafeRec r.2
  com : ∀ c, r.1 = some c → ∀ ch ∈ c, isLineBreak ch = false

/-- length of the comment line without its newline (`# ` + text), or nothing -/
def comLen (r : CRec) : Nat := match r.1 with | some c => c.length + 2 + 1 | none => 0

def crecEntity (off : Nat) (r : CRec) : Entry :=
  match r.1 with
  | some c => propsCEntity off (c.length + 2) r.2.1.length r.2.2.length
  | none => propsEntity_c02 off r.2.1.length r.2.2.length

/-- offset of the newline that ends the record -/
def crecEnd (off : Nat) (r : CRec) : Nat := off + comLen r + r.2.1.length + 1 + r.2.2.length

theorem crecEntity_e (off : Nat) (r : CRec) : (crecEntity off r).e = crecEnd off r := by
  unfold crecEntity crecEnd comLen
  cases r.1 <;> simp [propsCEntity, propsEntity_c02]
  omega

def expCEntries : Nat → List CRec → List Entry
  | _, [] => []
  | off, r :: rs => crecEntity off r :: wsEntry (crecEnd off r) :: expCEntries (crecEnd off r + 1) rs

theorem printCRec_length (r : CRec) : (printCRec r).length = comLen r + r.2.1.length + 1 + r.2.2.length + 1 := by
  unfold printCRec comLen
  cases r.1 <;> simp [printRec_length] <;> omega

/-- first character of a printed record: `#` or a key character; in any case not white-space -/
theorem printCRec_head (r : CRec) (hs : SafeCRec r) (rest : List Nat) :
    ∃ c, (printCRec r ++ rest)[0]? = some c ∧ c ≠ 32 ∧ c ≠ 9 ∧ c ≠ 13 ∧ c ≠ 10 := by
  unfold printCRec
  cases hc : r.1 with
  | some c => exact ⟨35, by simp, by decide, by decide, by decide, by decide⟩
  | none =>
    have hkl : 0 < r.2.1.length := List.length_pos_iff.mpr hs.safe.key_ne
    have f0 := keyChar_facts (hs.safe.key r.2.1[0] (List.getElem_mem _))
    refine ⟨r.2.1[0], ?_, f0.2.2.1, f0.2.2.2.1, f0.2.2.2.2.1, f0.2.2.2.2.2.1⟩
    simp [printRec, List.getElem?_append_left hkl]

theorem commentAt_of_drop (s : Array Nat) (off : Nat) (c : List Nat) (r : PRec) (rest : List Nat)
    (hb : ∀ ch ∈ c, isLineBreak ch = false) (hs : SafeRec r)
    (h : s.toList.drop off = (35 :: 32 :: c) ++ (10 :: (printRec r ++ rest))) :
    CommentAt s off (c.length + 2) ∧ RecAt s (off + (c.length + 2) + 1) r.1.length r.2.length ∧
      slice s off (off + (c.length + 2)) = 35 :: 32 :: c := by
  have hd1 : s.toList.drop (off + (c.length + 2)) = 10 :: (printRec r ++ rest) := by
    have := drop_app s off _ _ h
    simpa using this
  have hd2 : s.toList.drop (off + (c.length + 2) + 1) = printRec r ++ rest := by
    have : s.toList.drop (off + (c.length + 2)) = [10] ++ (printRec r ++ rest) := by simpa using hd1
    exact drop_app s _ _ _ this
  have hrec := recAt_of_drop s _ r rest hs hd2
  refine ⟨⟨by omega, ?_, ?_, ?_, ?_⟩, hrec, ?_⟩
  · exact get_app_left s off _ _ h 0 (by simp)
  · intro j hj
    have hj' : 1 + j < (35 :: 32 :: c).length := by simp; omega
    have := get_app_left s off _ _ h (1 + j) hj'
    rw [show off + (1 + j) = off + 1 + j by omega] at this
    refine ⟨_, this, ?_⟩
    have hm : (35 :: 32 :: c)[1 + j] ∈ (32 :: c) := by
      rw [show (35 :: 32 :: c)[1 + j] = (32 :: c)[j]'(by simp; omega) by simp [Nat.add_comm 1 j]]
      exact List.getElem_mem _
    simp only [List.mem_cons] at hm
    rcases hm with hm | hm
    · rw [hm]; decide
    · intro h10
      have := hb _ hm
      rw [h10] at this
      revert this; decide
  · simpa using get_of_drop s _ 0 _ hd1
  · obtain ⟨c0, hc0, hk0⟩ := hrec.key 0 hrec.klen_pos
    simp only [Nat.add_zero] at hc0
    have f0 := keyChar_facts hk0
    exact ⟨c0, hc0, f0.1, f0.2.1⟩
  · rw [slice_take s off (c.length + 2) _ h (by simp)]
    simp

theorem walk_cprops_from (s : Array Nat) :
    ∀ (rs : List CRec) (off fuel : Nat), s.toList.drop off = printCProps rs → (∀ r ∈ rs, SafeCRec r) →
      (off = 0 → ∀ r c, rs.head? = some r → r.1 = some c → isInfix licenseWord c = false) →
      2 * rs.length ≤ fuel →
      walkFrom (fun (_ : Unit) o => (propsGetNext s o, ())) s.size fuel () off = .done (expCEntries off rs) := by
  intro rs
  induction rs with
  | nil =>
    intro off fuel h _ _ _
    exact walk_end _ _ _ _ _ (size_le_of_drop_nil s off (by simpa [printCProps] using h))
  | cons r rs ih =>
    intro off fuel h hsafe hlic hfuel
    have hpp : printCProps (r :: rs) = printCRec r ++ printCProps rs := by simp [printCProps]
    rw [hpp] at h
    have hsr := hsafe r (by simp)
    obtain ⟨f, rfl⟩ : ∃ f, fuel = f + 1 + 1 := ⟨fuel - 2, by simp at hfuel; omega⟩
    have hlen := printCRec_length r
    have hdrop : s.toList.drop (crecEnd off r + 1) = printCProps rs := by
      have := drop_app s off _ _ h
      rw [hlen] at this
      rw [← this]; congr 1; unfold crecEnd; omega
    -- the entity
    have e1 : propsGetNext s off = crecEntity off r ∧ s[crecEnd off r]? = some 10 := by
      unfold crecEntity crecEnd comLen
      cases hc : r.1 with
      | none =>
        have h' : s.toList.drop off = printRec r.2 ++ printCProps rs := by simpa [printCRec, hc] using h
        have hrec := recAt_of_drop s off r.2 _ hsr.safe h'
        refine ⟨props_entity_at s off _ _ hrec, ?_⟩
        simpa using hrec.nl
      | some c =>
        have h' : s.toList.drop off = (35 :: 32 :: c) ++ (10 :: (printRec r.2 ++ printCProps rs)) := by
          simpa [printCRec, hc] using h
        obtain ⟨hcom, hrec, hsl⟩ := commentAt_of_drop s off c r.2 _ (hsr.com c hc) hsr.safe h'
        refine ⟨props_centity_at s off _ _ _ hcom hrec ?_, ?_⟩
        · by_cases h0 : off = 0
          · have := hlic h0 r c (by simp) hc
            rw [hsl, commentVal_oneLine c (hsr.com c hc), isInfix_license_blank, this]
            simp
          · simp [h0]
        · have := hrec.nl
          rw [← this]; congr 1
    obtain ⟨e1, hnl⟩ := e1
    have hnlt := getElem?_some_lt hnl
    have hoffle : off ≤ crecEnd off r := by unfold crecEnd; omega
    have hnext : s[crecEnd off r + 1]? = none ∨
        ∃ c, s[crecEnd off r + 1]? = some c ∧ c ≠ 32 ∧ c ≠ 9 ∧ c ≠ 13 ∧ c ≠ 10 := by
      have g := get_of_drop s (crecEnd off r + 1) 0 _ hdrop
      simp only [Nat.add_zero] at g
      rw [g]
      cases rs with
      | nil => left; simp [printCProps]
      | cons r' rs' =>
        right
        have : printCProps (r' :: rs') = printCRec r' ++ printCProps rs' := by simp [printCProps]
        rw [this]
        exact printCRec_head r' (hsafe r' (by simp)) _
    have e2 := props_ws_at s (crecEnd off r) hnl hnext
    rw [walk_step _ _ _ () () off (crecEntity off r) (by omega) (by simp only [e1]), crecEntity_e,
      walk_step _ _ _ () () _ (wsEntry (crecEnd off r)) (by omega) (by simp only [e2]),
      show (wsEntry (crecEnd off r)).e = crecEnd off r + 1 from rfl,
      ih _ f hdrop (fun r' hr' => hsafe r' (by simp [hr'])) (fun h0 => by omega) (by simp at hfuel; omega)]
    simp [WalkResult.cons, expCEntries]

theorem printCProps_length_ge (rs : List CRec) : 2 * rs.length ≤ (printCProps rs).length := by
  induction rs with
  | nil => simp
  | cons r rs ih =>
    have : printCProps (r :: rs) = printCRec r ++ printCProps rs := by simp [printCProps]
    rw [this, List.length_append, printCRec_length]
    simp; omega

theorem walk_cprops_printed (rs : List CRec) (h : ∀ r ∈ rs, SafeCRec r)
    (hlic : ∀ r c, rs.head? = some r → r.1 = some c → isInfix licenseWord c = false) :
    walk .properties (printCProps rs).toArray = .done (expCEntries 0 rs) := by
  unfold walk
  simp only []
  apply walk_cprops_from
  · simp
  · exact h
  · intro _; exact hlic
  · have := printCProps_length_ge rs
    simp; omega

/-! ### views -/

/-- what the entity must evaluate to: key, raw value, value = raw value, and the comment's value = the comment line
    without its first character (` ` + text) -/
def expectedCView (r : CRec) : Option EntView :=
  some { key := r.2.1, raw := r.2.2, val := some r.2.2, comment := r.1.map (fun c => 32 :: c) }

theorem entView_crecEntity (s : Array Nat) (off : Nat) (r : CRec) (rest : List Nat) (hs : SafeCRec r)
    (h : s.toList.drop off = printCRec r ++ rest) :
    entView .properties s (crecEntity off r) = expectedCView r := by
  unfold crecEntity expectedCView
  cases hc : r.1 with
  | none =>
    have h' : s.toList.drop off = printRec r.2 ++ rest := by simpa [printCRec, hc] using h
    have := entView_propsEntity s off r.2 rest hs.safe h'
    simpa [expectedView] using this
  | some c =>
    have h' : s.toList.drop off = (35 :: 32 :: c) ++ (10 :: (printRec r.2 ++ rest)) := by
      simpa [printCRec, hc] using h
    obtain ⟨_, _, hsl⟩ := commentAt_of_drop s off c r.2 _ (hs.com c hc) hs.safe h'
    have hd2 : s.toList.drop (off + (c.length + 2) + 1) = printRec r.2 ++ rest := by
      have h1 : s.toList.drop (off + (c.length + 2)) = [10] ++ (printRec r.2 ++ rest) := by
        have := drop_app s off _ _ h'
        simpa using this
      exact drop_app s _ _ _ h1
    have hv := entView_propsEntity s _ r.2 rest hs.safe hd2
    simp only [entView, propsEntity_c02, expectedView] at hv
    simp only [entView, propsCEntity, Option.map_some, commentStyleOf]
    rw [hsl, commentVal_oneLine c (hs.com c hc)]
    simp only [Option.some.injEq, EntView.mk.injEq] at hv ⊢
    exact ⟨hv.1, hv.2.1, hv.2.2.1, hv.2.2.2.1, trivial⟩

theorem entitiesOf_expCEntries (s : Array Nat) :
    ∀ (rs : List CRec) (off : Nat), s.toList.drop off = printCProps rs → (∀ r ∈ rs, SafeCRec r) →
      entitiesOf .properties s (expCEntries off rs) = rs.map expectedCView ∧ junkOf s (expCEntries off rs) = [] := by
  intro rs
  induction rs with
  | nil => intro off _ _; simp [entitiesOf, junkOf, expCEntries]
  | cons r rs ih =>
    intro off h hsafe
    have hpp : printCProps (r :: rs) = printCRec r ++ printCProps rs := by simp [printCProps]
    rw [hpp] at h
    have hdrop : s.toList.drop (crecEnd off r + 1) = printCProps rs := by
      have := drop_app s off _ _ h
      rw [printCRec_length] at this
      rw [← this]; congr 1; unfold crecEnd; omega
    obtain ⟨ih1, ih2⟩ := ih _ hdrop (fun r' hr' => hsafe r' (by simp [hr']))
    have hv := entView_crecEntity s off r _ (hsafe r (by simp)) h
    have hkind : (crecEntity off r).kind = .entity := by
      unfold crecEntity; cases r.1 <;> rfl
    constructor
    · simp only [entitiesOf] at ih1 ⊢
      simp only [expCEntries, List.map_cons]
      rw [List.filter_cons_of_pos (by simp [hkind]), List.filter_cons_of_neg (by simp [wsEntry]),
        List.map_cons, hv, ih1]
    · simp only [junkOf] at ih2 ⊢
      simp only [expCEntries]
      rw [List.filter_cons_of_neg (by simp [hkind]), List.filter_cons_of_neg (by simp [wsEntry]), ih2]

end C02X

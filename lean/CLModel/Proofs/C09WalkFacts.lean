import CLModel.Proofs.C09Walk
namespace C09P
open AndroidP

theorem thresholds_agree : Gen.TablesAndroid.comment_nl = Gen.TablesAndroid.walk_nl ∧
    Gen.TablesAndroid.comment_nl_threshold = Gen.TablesAndroid.walk_nl_threshold := by decide

theorem shortW_iff_shortC (d : List Nat) : shortW d ↔ shortC d := by
  unfold shortW shortC
  rw [thresholds_agree.1, thresholds_agree.2]

theorem noAdjText_infix (a b : List DNode) (x y : List Nat) :
    noAdjText (a ++ .text x :: .text y :: b) = false := by
  induction a with
  | nil => simp [noAdjText]
  | cons h t ih =>
    cases t with
    | nil => cases h <;> simp_all [noAdjText]
    | cons h2 t2 =>
      cases h <;> cases h2 <;> simp_all [noAdjText]

theorem noAdjText_tail {n : DNode} {l : List DNode} (h : noAdjText (n :: l) = true) : noAdjText l = true := by
  cases l with
  | nil => simp [noAdjText]
  | cons h2 t2 => cases n <;> cases h2 <;> simp_all [noAdjText]

theorem noAdjText_suffix (a : List DNode) {b : List DNode} (h : noAdjText (a ++ b) = true) : noAdjText b = true := by
  induction a with
  | nil => simpa using h
  | cons x xs ih => exact ih (noAdjText_tail h)

theorem clean_suffix {a b : List DNode} (h : Clean (a ++ b)) : Clean b := by
  refine ⟨fun n hn => h.plain n (by simp [hn]), noAdjText_suffix a h.fused, ?_⟩
  rintro ⟨pre, c, d, rfl, hs⟩
  exact h.tail ⟨a ++ pre, c, d, by simp, hs⟩

theorem all_elemEntry_string (cc ws : Option Lit) {n : DNode} (h : isStringElem n = true) :
    (elemEntry cc ws n).all = optAll cc ++ optAll ws ++ n.toxml := by
  cases n <;> simp [isStringElem] at h
  unfold elemEntry
  simp [isStringElem, h, Entry.all]

theorem all_elemEntry_none {n : DNode} (h : n.isElement = true) :
    (elemEntry none none n).all = n.toxml := by
  cases n <;> simp [DNode.isElement] at h
  rename_i name attrs cs
  by_cases hs : isStringElem (.element name attrs cs) = true <;> simp [elemEntry, hs, Entry.all, optAll]

theorem core_elemEntry (cc ws : Option Lit) (n : DNode) : core (elemEntry cc ws n) = elemEntry none none n := by
  cases n <;> simp [elemEntry, core]
  rename_i name attrs cs
  by_cases hs : isStringElem (.element name attrs cs) = true <;> simp [hs]

theorem isLoc_elemEntry (cc ws : Option Lit) (n : DNode) : isLoc (elemEntry cc ws n) = true := by
  cases n <;> simp [elemEntry, isLoc, Entry.isEntity, Entry.isJunk]
  rename_i name attrs cs
  by_cases hs : isStringElem (.element name attrs cs) = true <;> simp [hs]

theorem extras_noLoc (ol : Bool) (cc ws : Option Lit) : (extras ol cc ws).filter isLoc = [] := by
  cases ol <;> cases cc <;> cases ws <;> simp [extras, optEntry, isLoc, Entry.isEntity, Entry.isJunk]

theorem allText_extras (cc ws : Option Lit) : allText (extras false cc ws) = optAll cc ++ optAll ws := by
  cases cc <;> cases ws <;> simp [extras, optEntry, allText, Entry.all, optAll]

theorem nil_or_snoc {α : Type} (l : List α) : l = [] ∨ ∃ L b, l = L ++ [b] := by
  rcases List.eq_nil_or_concat l with h | ⟨L, b, h⟩
  · exact Or.inl h
  · exact Or.inr ⟨L, b, by simpa [List.concat_eq_append] using h⟩

theorem comment_prefix {c : List Nat} {r : List DNode} {cc : Lit} {rem : List DNode}
    (h : handleComment c r = some (cc, rem)) :
    ∃ pc kc, r = pc ++ rem ∧ cc.all = toxmlList (.comment c :: kc) ∧ kc.Sublist pc ∧
      pc.filter DNode.isElement = [] ∧ (rem ≠ [] → kc = pc) ∧ (Clean (.comment c :: r) → kc = pc) ∧
      (∀ c' r', rem ≠ .comment c' :: r') ∧ (∀ d c' r', rem = .text d :: .comment c' :: r' → ¬ shortC d) := by
  obtain ⟨_, ⟨⟨pre, ks, h1, h2, h3, h4⟩, h5, h6⟩⟩ := handleComment_spec h
  refine ⟨pre, ks, h1, by simp [h2, toxmlList], ?_, ?_, ?_, ?_, h5, h6⟩
  · rcases h4 with rfl | ⟨_, d, _, rfl⟩
    · exact List.Sublist.refl _
    · exact List.sublist_append_left _ _
  · rw [List.filter_eq_nil_iff]
    intro n hn
    rcases h3 n hn with ⟨d, rfl, _⟩ | hc
    · simp [DNode.isElement]
    · cases n <;> simp [DNode.isComment] at hc; simp [DNode.isElement]
  · intro hne
    rcases h4 with rfl | ⟨rfl, _⟩
    · rfl
    · exact absurd rfl hne
  · intro hcl
    rcases h4 with rfl | ⟨rfl, d, hd, rfl⟩
    · rfl
    · exfalso
      simp only [List.append_nil] at h1
      subst h1
      rcases nil_or_snoc ks with rfl | ⟨ks', x, rfl⟩
      · exact hcl.tail ⟨[], c, d, by simp, hd⟩
      · have hx := h3 x (by simp)
        rcases hx with ⟨d', rfl, _⟩ | hc
        · have := noAdjText_infix (.comment c :: ks') [] d' d
          have h2 := hcl.fused
          simp only [List.append_assoc, List.cons_append, List.nil_append] at h2 this
          rw [this] at h2; cases h2
        · cases x <;> simp [DNode.isComment] at hc
          rename_i c''
          exact hcl.tail ⟨.comment c :: ks', c'', d, by simp, hd⟩

/-- what one iteration of the loop does with the nodes it consumes (`pre`) -/
structure StepFacts (ol : Bool) (n : DNode) (r : List DNode) (s : Step) : Prop where
  ex : ∃ pre, n :: r = pre ++ s.rest ∧ pre ≠ [] ∧
    (s.out.filter isLoc).map core = (pre.filter DNode.isElement).map (elemEntry none none) ∧
    (ol = false → ∃ ks, ks.Sublist pre ∧ allText s.out = toxmlList ks ∧ (Clean (n :: r) → ks = pre))

theorem plain_textlike {n : DNode} (hp : isPlain n = true) (ht : n.isTextLike = true) : ∃ d, n = .text d := by
  cases n <;> simp [isPlain, DNode.isTextLike] at hp ht
  exact ⟨_, rfl⟩

theorem filter_elem_single {n : DNode} (h : n.isElement = true) : [n].filter DNode.isElement = [n] := by simp [h]
theorem filter_elem_single_not {n : DNode} (h : n.isElement = false) : [n].filter DNode.isElement = [] := by simp [h]

theorem toxmlList_single (n : DNode) : toxmlList [n] = n.toxml := by simp [toxmlList]

theorem allText_single (e : Entry) : allText [e] = e.all := by simp [allText]

theorem isElement_comment (c : List Nat) : (DNode.comment c).isElement = false := rfl

theorem step_facts {ol : Bool} {n : DNode} {r : List DNode} {s : Step} (hc : StepCase ol n r s) :
    StepFacts ol n r s := by
  cases hc with
  | elem he hp =>
    refine ⟨[n], rfl, by simp, by simp [Step.out, he, isLoc_elemEntry, core_elemEntry], fun _ => ⟨[n], List.Sublist.refl _, ?_, fun _ => rfl⟩⟩
    simp [Step.out, allText_single, all_elemEntry_none he, toxmlList_single]
  | white ht hp =>
    refine ⟨[n], rfl, by simp, ?_, fun hol => ⟨[n], List.Sublist.refl _, ?_, fun _ => rfl⟩⟩
    · have : n.isElement = false := by cases n <;> simp_all [DNode.isTextLike, DNode.isElement]
      simp [Step.out, extras_noLoc, this]
    · subst hol
      simp [Step.out, allText_extras, optAll, whiteLit, toxmlList_single]
  | other he ht hcm =>
    refine ⟨[n], rfl, by simp, by simp [Step.out, extras_noLoc, he], fun hol => ⟨[], List.nil_sublist _, ?_, ?_⟩⟩
    · subst hol; simp [Step.out, allText_extras, optAll, toxmlList]
    · intro hcl
      have := hcl.plain n (by simp)
      cases n <;> simp_all [isPlain, DNode.isElement, DNode.isTextLike, DNode.isComment]
  | cEnd c cc hn hh =>
    subst hn
    obtain ⟨pc, kc, h1, h2, h3, h4, _, h6, _, _⟩ := comment_prefix hh
    simp only [List.append_nil] at h1
    subst h1
    refine ⟨.comment c :: r, by simp [Step.rest], by simp, ?_, fun hol => ⟨.comment c :: kc, h3.cons_cons _, ?_, ?_⟩⟩
    · simp [Step.out, extras_noLoc, isElement_comment, h4]
    · subst hol; simp [Step.out, allText_extras, optAll, h2]
    · intro hcl; rw [h6 hcl]
  | cLong c cc n1 r1 hn hh ht hp hl =>
    subst hn
    obtain ⟨pc, kc, h1, h2, h3, h4, h5, _, _, _⟩ := comment_prefix hh
    have hk := h5 (by simp); subst hk
    have hne : n1.isElement = false := by cases n1 <;> simp_all [DNode.isTextLike, DNode.isElement]
    refine ⟨.comment c :: kc ++ [n1], by simp [Step.rest, h1], by simp, ?_, fun hol => ⟨_, List.Sublist.refl _, ?_, fun _ => rfl⟩⟩
    · simp [Step.out, extras_noLoc, isElement_comment, h4, hne]
    · subst hol
      simp [Step.out, allText_extras, optAll, h2, whiteLit, toxmlList_append, toxmlList]
  | cShortEnd c cc n1 hn hh ht hp hs =>
    subst hn
    obtain ⟨pc, kc, h1, h2, h3, h4, h5, _, _, _⟩ := comment_prefix hh
    have hk := h5 (by simp); subst hk
    have hne : n1.isElement = false := by cases n1 <;> simp_all [DNode.isTextLike, DNode.isElement]
    refine ⟨.comment c :: kc ++ [n1], by simp [Step.rest, h1], by simp, ?_, fun hol => ⟨_, List.Sublist.refl _, ?_, fun _ => rfl⟩⟩
    · simp [Step.out, extras_noLoc, isElement_comment, h4, hne]
    · subst hol
      simp [Step.out, allText_extras, optAll, h2, whiteLit, toxmlList_append, toxmlList]
  | cShortElem c cc n1 n2 r2 hn hh ht hp hs he hp2 =>
    subst hn
    obtain ⟨pc, kc, h1, h2, h3, h4, h5, _, _, _⟩ := comment_prefix hh
    have hk := h5 (by simp); subst hk
    have hne : n1.isElement = false := by cases n1 <;> simp_all [DNode.isTextLike, DNode.isElement]
    refine ⟨.comment c :: kc ++ [n1, n2], by simp [Step.rest, h1], by simp, ?_, fun hol => ?_⟩
    · simp [Step.out, isLoc_elemEntry, core_elemEntry, isElement_comment, h4, hne, he]
    · by_cases hstr : isStringElem n2 = true
      · refine ⟨_, List.Sublist.refl _, ?_, fun _ => rfl⟩
        simp [Step.out, allText_single, all_elemEntry_string _ _ hstr, optAll, h2, whiteLit, toxmlList_append, toxmlList]
      · refine ⟨[n2], ?_, ?_, ?_⟩
        · simp
        · have : (elemEntry (some cc) (some (whiteLit n1)) n2).all = n2.toxml := by
            cases n2 <;> simp [DNode.isElement] at he
            simp [elemEntry, hstr, Entry.all]
          simp [Step.out, allText_single, this, toxmlList_single]
        · intro hcl
          have := hcl.plain n2 (by simp [h1])
          cases n2 <;> simp [DNode.isElement] at he
          simp [isPlain] at this
          exact absurd this hstr
  | cShortOther c cc n1 n2 r2 hn hh ht hp hs he =>
    subst hn
    obtain ⟨pc, kc, h1, h2, h3, h4, h5, _, h7, h8⟩ := comment_prefix hh
    have hk := h5 (by simp); subst hk
    have hne : n1.isElement = false := by cases n1 <;> simp_all [DNode.isTextLike, DNode.isElement]
    refine ⟨.comment c :: kc ++ [n1, n2], by simp [Step.rest, h1], by simp, ?_, fun hol => ⟨.comment c :: kc ++ [n1], ?_, ?_, ?_⟩⟩
    · simp [Step.out, extras_noLoc, isElement_comment, h4, hne, he]
    · simp
    · subst hol
      simp [Step.out, allText_extras, optAll, h2, whiteLit, toxmlList_append, toxmlList]
    · intro hcl
      exfalso
      obtain ⟨d, rfl⟩ := plain_textlike (hcl.plain n1 (by simp [h1])) ht
      have hp2 := hcl.plain n2 (by simp [h1])
      cases n2 <;> simp [isPlain, DNode.isElement] at hp2 he
      · -- text, text
        rename_i d2
        have := noAdjText_infix (.comment c :: kc) r2 d d2
        have hf := hcl.fused
        rw [h1] at hf
        simp only [List.cons_append] at this
        rw [this] at hf; cases hf
      · -- short text, comment: handleComment would have joined it
        rename_i c2
        exact h8 d c2 r2 rfl ((shortW_iff_shortC d).mp hs)
  | cElem c cc n1 r1 hn hh he hp =>
    subst hn
    obtain ⟨pc, kc, h1, h2, h3, h4, h5, _, _, _⟩ := comment_prefix hh
    have hk := h5 (by simp); subst hk
    refine ⟨.comment c :: kc ++ [n1], by simp [Step.rest, h1], by simp, ?_, fun hol => ?_⟩
    · simp [Step.out, isLoc_elemEntry, core_elemEntry, isElement_comment, h4, he]
    · by_cases hstr : isStringElem n1 = true
      · refine ⟨_, List.Sublist.refl _, ?_, fun _ => rfl⟩
        simp [Step.out, allText_single, all_elemEntry_string _ _ hstr, optAll, h2, toxmlList_append, toxmlList]
      · refine ⟨[n1], ?_, ?_, ?_⟩
        · simp
        · have : (elemEntry (some cc) none n1).all = n1.toxml := by
            cases n1 <;> simp [DNode.isElement] at he
            simp [elemEntry, hstr, Entry.all]
          simp [Step.out, allText_single, this, toxmlList_single]
        · intro hcl
          have := hcl.plain n1 (by simp [h1])
          cases n1 <;> simp [DNode.isElement] at he
          simp [isPlain] at this
          exact absurd this hstr
  | cOther c cc n1 r1 hn hh he ht =>
    subst hn
    obtain ⟨pc, kc, h1, h2, h3, h4, h5, _, h7, _⟩ := comment_prefix hh
    have hk := h5 (by simp); subst hk
    refine ⟨.comment c :: kc ++ [n1], by simp [Step.rest, h1], by simp, ?_, fun hol => ⟨.comment c :: kc, ?_, ?_, ?_⟩⟩
    · simp [Step.out, extras_noLoc, isElement_comment, h4, he]
    · simp
    · subst hol
      simp [Step.out, allText_extras, optAll, h2]
    · intro hcl
      exfalso
      have hp1 := hcl.plain n1 (by simp [h1])
      cases n1 <;> simp [isPlain, DNode.isElement, DNode.isTextLike] at hp1 he ht
      exact h7 _ r1 rfl
end C09P

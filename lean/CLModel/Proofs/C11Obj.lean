/- Round 5: matcher OBJECTS whose environment dict is mutable state (`Paths/MatcherObj.lean`).
   * the calls that only look (`prefix`, `str`, `pattern.expand(env, raise_missing=True)`, `repr`, `==`) answer the
     stateless function of the object's view and leave every object and every existing dict as it was - on the exception
     path as well;
   * `match` / `sub` do the same except that they fill the cache of the matcher they are called on (with the regex of its
     CURRENT pattern / env / root);
   * `Matcher(m, env, root)` (= `with_env`) and `concat` create an object whose env lives at a FRESH address: no later write
     to either environment can be seen through the other;
   * hence for every history of such calls the pattern, environment and root of every object are what they were, the
     caches stay valid, and a derived matcher is the one a fresh construction gives. -/
import CLModel.Proofs.C12Heap
import CLModel.Proofs.C11Cache
namespace C11O
open Rx PM C12H

/-- every object's `env` is a dict that exists -/
def WF (s : Store) : Prop := ∀ ob ∈ s.objs, ob.env < s.heap.length

/-- no two objects share their env dict -/
def NoAlias (s : Store) : Prop := s.objs.Pairwise (fun x y => x.env ≠ y.env)

/-- `s'` has the objects of `s` (unchanged) and the dicts of `s` (unchanged), possibly more dicts -/
def OnlyAllocates (s s' : Store) : Prop := s'.objs = s.objs ∧ ∃ ex, s'.heap = s.heap ++ ex

theorem view_eq {s : Store} {o : Nat} {ob : MObj} {env : Env} (ho : s.objs[o]? = some ob) (he : s.heap[ob.env]? = some env) :
    s.view o = some { m := { pattern := ob.pattern, env := env }, cache := ob.cache } := by
  simp [Store.view, ho, he]

theorem view_inv {s : Store} {o : Nat} {c : CMatcher} (h : s.view o = some c) :
    ∃ ob, s.objs[o]? = some ob ∧ s.heap[ob.env]? = some c.m.env ∧ c.m.pattern = ob.pattern ∧ c.cache = ob.cache := by
  unfold Store.view at h
  cases ho : s.objs[o]? with
  | none => simp [ho] at h
  | some ob =>
    simp only [ho] at h
    cases he : s.heap[ob.env]? with
    | none => simp [he] at h
    | some env =>
      simp only [he, Option.some.injEq] at h
      subst h
      exact ⟨ob, rfl, he, rfl, rfl⟩

theorem view_of_WF {s : Store} (hw : WF s) {o : Nat} (ho : o < s.objs.length) : ∃ c, s.view o = some c := by
  have hob : s.objs[o]? = some s.objs[o] := List.getElem?_eq_getElem ho
  have hlt := hw s.objs[o] (List.getElem_mem ho)
  exact ⟨_, view_eq hob (List.getElem?_eq_getElem hlt)⟩

/-- allocation does not change what any object looks like -/
theorem view_onlyAllocates {s s' : Store} (h : OnlyAllocates s s') {o : Nat} {c : CMatcher} (hv : s.view o = some c) :
    s'.view o = some c := by
  obtain ⟨ob, ho, he, hp, hc⟩ := view_inv hv
  obtain ⟨h1, ex, h2⟩ := h
  have : s'.view o = some { m := { pattern := ob.pattern, env := c.m.env }, cache := ob.cache } :=
    view_eq (by rw [h1]; exact ho) (by rw [h2]; exact read_ext ex he)
  rw [this]
  cases c with
  | mk m cache => cases m with
    | mk pat env => simp_all

theorem onlyAllocates_refl (s : Store) : OnlyAllocates s s := ⟨rfl, [], by simp⟩

theorem onlyAllocates_heap (s : Store) (ex : Heap) : OnlyAllocates s { s with heap := s.heap ++ ex } := ⟨rfl, ex, rfl⟩

/-! ### the calls that only look -/

/-- `pattern.expand(self.env, raise_missing)` on the matcher's OWN dict: the stateless answer; nothing but allocations -/
theorem expandOwn_spec (p : MObj → Pattern) (rm : Bool) {s : Store} {o : Nat} {ob : MObj} {env : Env}
    (ho : s.objs[o]? = some ob) (he : s.heap[ob.env]? = some env) :
    ∃ s', Store.expandOwn p rm o s = some (liftX (expandPat (expandVal (fuelFor env)) (p ob) env rm), s') ∧
      OnlyAllocates s s' := by
  obtain ⟨ex, hx⟩ := expandTopH_spec (p ob) rm he
  unfold Store.expandOwn
  simp only [ho, hx]
  refine ⟨{ s with heap := s.heap ++ ex }, ?_, onlyAllocates_heap s ex⟩
  cases expandPat (expandVal (fuelFor env)) (p ob) env rm <;> rfl

theorem prefix_spec {s : Store} {o : Nat} {c : CMatcher} (hv : s.view o = some c) :
    ∃ s', Store.prefix o s = some (liftX c.m.prefix, s') ∧ OnlyAllocates s s' := by
  obtain ⟨ob, ho, he, hp, _⟩ := view_inv hv
  obtain ⟨s', h1, h2⟩ := expandOwn_spec (fun ob => prefixPatternOf ob.pattern) false ho he
  refine ⟨s', ?_, h2⟩
  unfold Store.prefix
  rw [h1]
  simp [Matcher.prefix, expandTop, Matcher.prefixPattern, prefixPatternOf, hp]

theorem str_spec {s : Store} {o : Nat} {c : CMatcher} (hv : s.view o = some c) :
    ∃ s', Store.str o s = some (liftX c.m.str, s') ∧ OnlyAllocates s s' := by
  obtain ⟨ob, ho, he, hp, _⟩ := view_inv hv
  obtain ⟨s', h1, h2⟩ := expandOwn_spec (fun ob => ob.pattern) false ho he
  refine ⟨s', ?_, h2⟩
  unfold Store.str
  rw [h1]
  simp [Matcher.str, expandTop, hp]

theorem expandRaise_spec {s : Store} {o : Nat} {c : CMatcher} (hv : s.view o = some c) :
    ∃ s', Store.expandRaise o s =
        some (liftX (expandPat (expandVal (fuelFor c.m.env)) c.m.pattern c.m.env true), s') ∧ OnlyAllocates s s' := by
  obtain ⟨ob, ho, he, hp, _⟩ := view_inv hv
  obtain ⟨s', h1, h2⟩ := expandOwn_spec (fun ob => ob.pattern) true ho he
  refine ⟨s', ?_, h2⟩
  unfold Store.expandRaise
  rw [h1]
  simp [hp]

/-- the calls of the alphabet that only look at their operands -/
inductive Looks : Op → Prop
  | pre (o) : Looks (.prefix o)
  | str (o) : Looks (.str o)
  | raise (o) : Looks (.expandRaise o)
  | repr (o) : Looks (.repr o)
  | eq (a b) : Looks (.eq a b)

theorem mapOut_some {α} {f : α → Out} {x : Option (Except XErr α × Store)} {r : Except XErr Out} {s' : Store}
    (h : mapOut f x = some (r, s')) : ∃ r0, x = some (r0, s') := by
  cases x with
  | none => simp [mapOut] at h
  | some p =>
    obtain ⟨r0, s0⟩ := p
    cases r0 with
    | error e => simp only [mapOut, Option.some.injEq, Prod.mk.injEq] at h; exact ⟨_, by rw [h.2]⟩
    | ok a => simp only [mapOut, Option.some.injEq, Prod.mk.injEq] at h; exact ⟨_, by rw [h.2]⟩

theorem expandOwn_onlyAllocates {p : MObj → Pattern} {rm : Bool} {o : Nat} {s s' : Store} {r}
    (h : Store.expandOwn p rm o s = some (r, s')) : OnlyAllocates s s' := by
  unfold Store.expandOwn at h
  cases ho : s.objs[o]? with
  | none => simp [ho] at h
  | some ob =>
    simp only [ho] at h
    cases hr : s.heap[ob.env]? with
    | none => simp [expandTopH, hr] at h
    | some env =>
      obtain ⟨ex, hspec⟩ := expandTopH_spec (p ob) rm hr
      rw [hspec] at h
      cases hres : expandPat (expandVal (fuelFor env)) (p ob) env rm with
      | error e =>
        simp only [hres, Option.some.injEq, Prod.mk.injEq] at h; rw [← h.2]; exact onlyAllocates_heap s ex
      | ok t =>
        simp only [hres, Option.some.injEq, Prod.mk.injEq] at h; rw [← h.2]; exact onlyAllocates_heap s ex

/-- **every call that only looks leaves the store as it was** (all objects, all existing dicts), whatever it answers -
    a value or an exception -/
theorem looks_onlyAllocates {op : Op} (hq : Looks op) {s s' : Store} {r} (h : s.step op = some (r, s')) :
    OnlyAllocates s s' := by
  cases hq with
  | pre o =>
    obtain ⟨r0, h0⟩ := mapOut_some h
    exact expandOwn_onlyAllocates h0
  | str o =>
    obtain ⟨r0, h0⟩ := mapOut_some h
    exact expandOwn_onlyAllocates h0
  | raise o =>
    obtain ⟨r0, h0⟩ := mapOut_some h
    exact expandOwn_onlyAllocates h0
  | repr o =>
    obtain ⟨r0, h0⟩ := mapOut_some h
    unfold Store.repr at h0
    cases hv : s.view o with
    | none => simp [hv] at h0
    | some c =>
      simp only [hv, Option.some.injEq, Prod.mk.injEq] at h0
      rw [← h0.2]; exact onlyAllocates_refl s
  | eq a b =>
    obtain ⟨r0, h0⟩ := mapOut_some h
    unfold Store.eq at h0
    cases hva : s.view a with
    | none => simp [hva] at h0
    | some ca =>
      cases hvb : s.view b with
      | none => simp [hva, hvb] at h0
      | some cb =>
        simp only [hva, hvb, Option.some.injEq, Prod.mk.injEq] at h0
        rw [← h0.2]; exact onlyAllocates_refl s

/-! ### match and sub: only the cache of the matcher itself changes -/

theorem set_self {α} {l : List α} {i : Nat} {x : α} (h : l[i]? = some x) : l.set i x = l := by
  apply List.ext_getElem?
  intro j
  rw [List.getElem?_set]
  split
  · next hij => subst hij; split <;> simp_all
  · rfl

/-- what `s'` is after `match`/`sub` on object `o`: the dicts of `s` plus new ones, the objects of `s` with only the
    cache field of `o` possibly different -/
def OnlyCaches (s s' : Store) (o : Nat) (cache : Option (Re × List Text)) : Prop :=
  (∃ ex, s'.heap = s.heap ++ ex) ∧
  ∃ ob, s.objs[o]? = some ob ∧ s'.objs = s.objs.set o { ob with cache := cache }

theorem view_onlyCaches_self {s s' : Store} {o : Nat} {cache} (h : OnlyCaches s s' o cache) {c : CMatcher}
    (hv : s.view o = some c) : s'.view o = some { c with cache := cache } := by
  obtain ⟨⟨ex, hh⟩, ob, ho, hobjs⟩ := h
  obtain ⟨ob', ho', he, hp, hc⟩ := view_inv hv
  rw [ho] at ho'; cases ho'
  have hlt : o < s.objs.length := by
    rcases Nat.lt_or_ge o s.objs.length with h1 | h1
    · exact h1
    · rw [List.getElem?_eq_none h1] at ho; cases ho
  have h1 : s'.objs[o]? = some { ob with cache := cache } := by
    rw [hobjs, List.getElem?_set_self hlt]
  rw [view_eq h1 (by rw [hh]; exact read_ext ex he)]
  cases c with
  | mk m cc => cases m with
    | mk pat env => simp_all

theorem view_onlyCaches_other {s s' : Store} {o : Nat} {cache} (h : OnlyCaches s s' o cache) {o' : Nat} (hne : o' ≠ o)
    {c : CMatcher} (hv : s.view o' = some c) : s'.view o' = some c := by
  obtain ⟨⟨ex, hh⟩, ob, ho, hobjs⟩ := h
  obtain ⟨ob', ho', he, hp, hc⟩ := view_inv hv
  have h1 : s'.objs[o']? = some ob' := by
    rw [hobjs, List.getElem?_set_ne (Ne.symm hne)]; exact ho'
  rw [view_eq h1 (by rw [hh]; exact read_ext ex he)]
  cases c with
  | mk m cc => cases m with
    | mk pat env => simp_all

theorem cacheRegex_spec {s : Store} {o : Nat} {c : CMatcher} (hv : s.view o = some c) :
    ∃ s', Store.cacheRegex o s = some (liftX (c.cacheRegex.map (·.2)), s') ∧
      OnlyCaches s s' o (match c.cacheRegex with | .ok (c', _) => c'.cache | .error _ => c.cache) := by
  obtain ⟨ob, ho, he, hp, hc⟩ := view_inv hv
  unfold Store.cacheRegex CMatcher.cacheRegex
  simp only [ho]
  cases hcache : ob.cache with
  | some rn =>
    have : c.cache = some rn := by rw [hc, hcache]
    simp only [this]
    refine ⟨s, rfl, ⟨[], by simp⟩, ob, ho, ?_⟩
    simp only [pure, Except.pure]
    rw [this, ← hcache]
    exact (set_self ho).symm
  | none =>
    have hcn : c.cache = none := by rw [hc, hcache]
    simp only [hcn]
    obtain ⟨ex, hx⟩ := regexOfH_spec ob.pattern he
    simp only [hx]
    have hm : ({ pattern := ob.pattern, env := c.m.env } : Matcher) = c.m := by
      cases c with
      | mk m cc => cases m with
        | mk pat env => simp_all
    rw [hm]
    cases hr : c.m.regexOf with
    | error e =>
      refine ⟨{ s with heap := s.heap ++ ex }, rfl, ⟨ex, rfl⟩, ob, ho, ?_⟩
      simp only [bind, Except.bind]
      have hob : ({ ob with cache := none } : MObj) = ob := by cases ob; simp_all
      rw [hob]
      exact (set_self ho).symm
    | ok rn =>
      refine ⟨{ heap := s.heap ++ ex, objs := s.objs.set o { ob with cache := some rn } }, rfl, ⟨ex, rfl⟩, ob, ho, ?_⟩
      simp [bind, Except.bind, pure, Except.pure]

/-- `match` on the object = `CMatcher.match` on its view (so, with a valid cache, the stateless `Matcher.match`) -/
theorem match_spec {s : Store} {o : Nat} {c : CMatcher} (hv : s.view o = some c) (path : Text) :
    ∃ s', Store.match o path s = some (liftX (c.match path).1, s') ∧ OnlyCaches s s' o (c.match path).2.cache := by
  obtain ⟨s', h1, h2⟩ := cacheRegex_spec hv
  unfold Store.match CMatcher.match
  simp only [h1]
  cases hr : c.cacheRegex with
  | error e =>
    simp only [hr] at h2
    exact ⟨s', rfl, h2⟩
  | ok p =>
    obtain ⟨c', rn⟩ := p
    simp only [hr] at h2
    exact ⟨s', rfl, h2⟩


theorem sub_cache (c oc : CMatcher) (path : Text) : (c.sub oc path).2 = (c.match path).2 := by
  unfold CMatcher.sub
  cases hm : c.match path with
  | mk r c' =>
    cases r with
    | error e => rfl
    | ok o => cases o <;> rfl

/-- `sub` on the objects = `CMatcher.sub` on their views; only the cache of `self` may change (the dict `env = {}` it
    fills and expands against is a new one) -/
theorem sub_spec {s : Store} {o other : Nat} {c oc : CMatcher} (hv : s.view o = some c) (hvo : s.view other = some oc)
    (path : Text) :
    ∃ s', Store.sub o other path s = some (liftX (c.sub oc path).1, s') ∧ OnlyCaches s s' o (c.sub oc path).2.cache := by
  obtain ⟨s1, h1, h2⟩ := match_spec hv path
  rw [sub_cache]
  unfold Store.sub CMatcher.sub
  simp only [h1]
  cases hm : c.match path with
  | mk r c' =>
    simp only [hm] at h2
    cases r with
    | error e => exact ⟨s1, rfl, h2⟩
    | ok od =>
      cases od with
      | none => exact ⟨s1, rfl, h2⟩
      | some d =>
        simp only [liftX]
        -- the view of `other` after the match: the same matcher value (at most its cache differs, when other = o)
        have hov : ∃ ov, s1.view other = some ov ∧ ov.m = oc.m := by
          by_cases hoo : other = o
          · subst hoo
            rw [hv] at hvo; cases hvo
            exact ⟨_, view_onlyCaches_self h2 hv, rfl⟩
          · exact ⟨oc, view_onlyCaches_other h2 hoo hvo, rfl⟩
        obtain ⟨ov, hov1, hov2⟩ := hov
        simp only [hov1, hov2]
        obtain ⟨ex, hx⟩ := expandTopH_spec oc.m.pattern false (read_new s1.heap (subEnv d oc.m.env))
        simp only [hx]
        obtain ⟨⟨ex0, hh⟩, ob, ho, hobjs⟩ := h2
        refine ⟨{ s1 with heap := s1.heap ++ [subEnv d oc.m.env] ++ ex }, ?_, ⟨ex0 ++ [subEnv d oc.m.env] ++ ex, ?_⟩, ob, ho, hobjs⟩
        · unfold expandTop
          cases expandPat (expandVal (fuelFor (subEnv d oc.m.env))) oc.m.pattern (subEnv d oc.m.env) false <;> rfl
        · simp [hh, List.append_assoc]

/-! ### derivation: a new object with a NEW env dict -/

/-- `s'` = `s` plus ONE object whose env dict is new as well (nothing that existed is touched) -/
def Derives (s s' : Store) (nb : MObj) (nenv : Env) : Prop :=
  s'.objs = s.objs ++ [nb] ∧ nb.env = s.heap.length ∧ s'.heap = s.heap ++ [nenv]

theorem view_derives_old {s s' : Store} {nb : MObj} {nenv : Env} (h : Derives s s' nb nenv) {o : Nat} {c : CMatcher}
    (hv : s.view o = some c) : s'.view o = some c := by
  obtain ⟨ob, ho, he, hp, hc⟩ := view_inv hv
  obtain ⟨h1, _, h3⟩ := h
  have hlt : o < s.objs.length := by
    rcases Nat.lt_or_ge o s.objs.length with h1 | h1
    · exact h1
    · rw [List.getElem?_eq_none h1] at ho; cases ho
  have : s'.objs[o]? = some ob := by rw [h1, List.getElem?_append_left hlt]; exact ho
  rw [view_eq this (by rw [h3]; exact read_ext _ he)]
  cases c with
  | mk m cc => cases m with
    | mk pat env => simp_all

theorem view_derives_new {s s' : Store} {nb : MObj} {nenv : Env} (h : Derives s s' nb nenv) :
    s'.view s.objs.length = some { m := { pattern := nb.pattern, env := nenv }, cache := nb.cache } := by
  obtain ⟨h1, h2, h3⟩ := h
  exact view_eq (by rw [h1]; simp) (by rw [h3, h2]; exact read_new _ _)

theorem set_last {α} (h : List α) (x y : α) : (h ++ [y]).set h.length x = h ++ [x] := by
  induction h with
  | nil => rfl
  | cons a t ih => simp [ih]

/-- **`Matcher(m, env, root)` / `with_env` copy the environment**: the new object's env is a NEW dict (address = the old
    size of the heap), holding the source's entries updated by the given ones; the result is `CMatcher.rebuild` of the
    source's view (so: the matcher a fresh construction from the same pattern / variables / root gives, nothing cached) -/
theorem rebuild_spec {s : Store} {o : Nat} {c : CMatcher} (hv : s.view o = some c) (env : List (Text × Text))
    (root : Option Text) :
    (∀ e, realEnv env = .error e → Store.rebuild o env root s = some (.error (.py e), s)) ∧
    (∀ d, c.rebuild env root = .ok d →
      ∃ s' nb, Store.rebuild o env root s = some (.ok s.objs.length, s') ∧ Derives s s' nb d.m.env ∧
        nb.pattern = d.m.pattern ∧ nb.cache = none ∧ d.cache = none) := by
  obtain ⟨ob, ho, he, hp, hc⟩ := view_inv hv
  refine ⟨?_, ?_⟩
  · intro e hre
    simp [Store.rebuild, hre]
  · intro d hd
    unfold CMatcher.rebuild Matcher.rebuild at hd
    cases hre : realEnv env with
    | error e => simp [hre, bind, Except.bind] at hd
    | ok e =>
      simp only [hre, bind, Except.bind, pure, Except.pure, Except.ok.injEq] at hd
      subst hd
      unfold Store.rebuild
      simp only [hre, ho, he, set_last]
      refine ⟨_, _, rfl, ⟨rfl, rfl, rfl⟩, ?_, rfl, rfl⟩
      simp only [CMatcher.mk', hp]
      rfl

/-- `matcher.env[k] = parse(v)` writes at the object's own address and nowhere else -/
theorem envSet_spec {s : Store} {o : Nat} {ob : MObj} {env : Env} (ho : s.objs[o]? = some ob)
    (he : s.heap[ob.env]? = some env) (k v : Text) (p : Pattern) (hp : parsePattern v = .ok p) :
    Store.envSet o k v s = some (.ok (), { s with heap := s.heap.set ob.env (dset env k (.pat p)) }) := by
  simp [Store.envSet, hp, ho, he]

theorem pairwise_ne {s : Store} (hn : NoAlias s) {i j : Nat} {x y : MObj} (hi : s.objs[i]? = some x)
    (hj : s.objs[j]? = some y) (hij : i ≠ j) : x.env ≠ y.env := by
  have hil : i < s.objs.length := by
    rcases Nat.lt_or_ge i s.objs.length with h1 | h1
    · exact h1
    · rw [List.getElem?_eq_none h1] at hi; cases hi
  have hjl : j < s.objs.length := by
    rcases Nat.lt_or_ge j s.objs.length with h1 | h1
    · exact h1
    · rw [List.getElem?_eq_none h1] at hj; cases hj
  have hx : s.objs[i] = x := by rw [List.getElem?_eq_getElem hil] at hi; exact Option.some.inj hi
  have hy : s.objs[j] = y := by rw [List.getElem?_eq_getElem hjl] at hj; exact Option.some.inj hj
  have hp := List.pairwise_iff_getElem.mp hn
  rcases Nat.lt_or_gt_of_ne hij with h | h
  · have := hp i j hil hjl h; rw [hx, hy] at this; exact this
  · have := hp j i hjl hil h; rw [hx, hy] at this; exact fun e => this e.symm

/-- **a write to one matcher's environment is invisible through every other matcher** (objects do not share dicts) -/
theorem envSet_local {s : Store} (hn : NoAlias s) {o : Nat} {k v : Text} {s' : Store} {r}
    (h : Store.envSet o k v s = some (r, s')) {o' : Nat} (hne : o' ≠ o) {c : CMatcher} (hv : s.view o' = some c) :
    s'.view o' = some c := by
  unfold Store.envSet at h
  cases hp : parsePattern v with
  | error e => simp only [hp, Option.some.injEq, Prod.mk.injEq] at h; rw [← h.2]; exact hv
  | ok p =>
    simp only [hp] at h
    cases ho : s.objs[o]? with
    | none => simp [ho] at h
    | some ob =>
      simp only [ho] at h
      cases he : s.heap[ob.env]? with
      | none => simp [he] at h
      | some env =>
        simp only [he, Option.some.injEq, Prod.mk.injEq] at h
        obtain ⟨ob', ho', he', hp', hc'⟩ := view_inv hv
        have hne' : ob'.env ≠ ob.env := pairwise_ne hn ho' ho hne
        rw [← h.2]
        have : ({ s with heap := s.heap.set ob.env (dset env k (.pat p)) } : Store).view o' =
            some { m := { pattern := ob'.pattern, env := c.m.env }, cache := ob'.cache } :=
          view_eq ho' (by simp only; rw [List.getElem?_set_ne (Ne.symm hne')]; exact he')
        rw [this]
        cases c with
        | mk m cc => cases m with
          | mk pat env => simp_all

/-! ### invariants -/

theorem wf_onlyAllocates {s s' : Store} (hw : WF s) (h : OnlyAllocates s s') : WF s' := by
  obtain ⟨h1, ex, h2⟩ := h
  intro ob hob
  rw [h1] at hob
  have := hw ob hob
  rw [h2, List.length_append]; exact Nat.lt_of_lt_of_le this (Nat.le_add_right _ _)

theorem noAlias_onlyAllocates {s s' : Store} (hn : NoAlias s) (h : OnlyAllocates s s') : NoAlias s' := by
  unfold NoAlias; rw [h.1]; exact hn

theorem mem_set_cache {l : List MObj} {o : Nat} {ob x : MObj} {cache} (ho : l[o]? = some ob)
    (hx : x ∈ l.set o { ob with cache := cache }) : ∃ y ∈ l, y.env = x.env := by
  rw [List.mem_iff_getElem?] at hx
  obtain ⟨i, hi⟩ := hx
  rw [List.getElem?_set] at hi
  split at hi
  · next hio =>
    subst hio
    split at hi
    · cases hi; exact ⟨ob, List.mem_of_getElem? ho, rfl⟩
    · cases hi
  · exact ⟨x, List.mem_of_getElem? hi, rfl⟩

theorem wf_onlyCaches {s s' : Store} (hw : WF s) {o cache} (h : OnlyCaches s s' o cache) : WF s' := by
  obtain ⟨⟨ex, hh⟩, ob, ho, hobjs⟩ := h
  intro x hx
  rw [hobjs] at hx
  obtain ⟨y, hy, hye⟩ := mem_set_cache ho hx
  have := hw y hy
  rw [hh, List.length_append, ← hye]; exact Nat.lt_of_lt_of_le this (Nat.le_add_right _ _)

theorem noAlias_onlyCaches {s s' : Store} (hn : NoAlias s) {o cache} (h : OnlyCaches s s' o cache) : NoAlias s' := by
  obtain ⟨_, ob, ho, hobjs⟩ := h
  unfold NoAlias at *
  rw [hobjs, List.pairwise_iff_getElem]
  intro i j hi hj hij
  have hp := List.pairwise_iff_getElem.mp hn
  simp only [List.length_set] at hi hj
  have key : ∀ (k : Nat) (hk : k < s.objs.length),
      ((s.objs.set o { ob with cache := cache })[k]'(by simp [hk])).env = s.objs[k].env := by
    intro k hk
    rw [List.getElem_set]
    split
    · next hok =>
      subst hok
      have : s.objs[o] = ob := by
        rw [List.getElem?_eq_getElem hk] at ho; exact Option.some.inj ho
      rw [this]
    · rfl
  rw [key i hi, key j hj]
  exact hp i j hi hj hij

theorem wf_derives {s s' : Store} (hw : WF s) {nb nenv} (h : Derives s s' nb nenv) : WF s' := by
  obtain ⟨h1, h2, h3⟩ := h
  intro x hx
  rw [h1, List.mem_append] at hx
  rw [h3, List.length_append]
  rcases hx with hx | hx
  · exact Nat.lt_of_lt_of_le (hw x hx) (Nat.le_add_right _ _)
  · simp at hx; subst hx; rw [h2]; simp

theorem noAlias_derives {s s' : Store} (hw : WF s) (hn : NoAlias s) {nb nenv} (h : Derives s s' nb nenv) : NoAlias s' := by
  obtain ⟨h1, h2, _⟩ := h
  unfold NoAlias at *
  rw [h1, List.pairwise_append]
  refine ⟨hn, List.pairwise_singleton _ _, ?_⟩
  intro x hx y hy
  simp at hy; subst hy
  have := hw x hx
  rw [h2]; exact Nat.ne_of_lt this


/-- **`concat` copies the environment as well**: the result is a new object with a NEW env dict; it is `CMatcher.concat`
    of the views (ValueError for a rooted other, errors of parsing the text: nothing changes) -/
theorem concat_spec {s : Store} {o : Nat} {c : CMatcher} (hv : s.view o = some c) (other : ConcatObj) {arg : ConcatArg}
    (ha : s.argOf other = some arg) :
    (∀ e, c.concat arg = .error e → Store.concat o other s = some (.error e, s)) ∧
    (∀ d, c.concat arg = .ok d →
      ∃ s' nb, Store.concat o other s = some (.ok s.objs.length, s') ∧ Derives s s' nb d.m.env ∧
        nb.pattern = d.m.pattern ∧ nb.cache = none ∧ d.cache = none) := by
  obtain ⟨ob, ho, he, hp, hc⟩ := view_inv hv
  have hlt : o < s.objs.length := by
    rcases Nat.lt_or_ge o s.objs.length with h1 | h1
    · exact h1
    · rw [List.getElem?_eq_none h1] at ho; cases ho
  unfold Store.concat CMatcher.concat Matcher.concat
  simp only [ha]
  cases hm : arg.toMatcher with
  | error e =>
    refine ⟨?_, ?_⟩
    · intro e' h; simp [liftX, bind, Except.bind] at h; subst h; rfl
    · intro d h; simp [liftX, bind, Except.bind] at h
  | ok om =>
    simp only [liftX, bind, Except.bind]
    unfold Store.concatWith
    cases hroot : om.pattern.root.isSome with
    | true =>
      refine ⟨?_, ?_⟩
      · intro e' h; simp [throw, throwThe, MonadExceptOf.throw] at h; subst h; simp
      · intro d h; simp [throw, throwThe, MonadExceptOf.throw] at h
    | false =>
      refine ⟨?_, ?_⟩
      · intro e' h; simp [pure, Except.pure] at h
      · intro d h
        simp only [Bool.false_eq_true, if_false, pure, Except.pure, Except.ok.injEq] at h
        subst h
        have hre : realEnv [] = .ok [] := rfl
        simp only [Store.rebuild, hre, ho, he, set_last, Bool.false_eq_true, if_false]
        have h1 : (s.objs ++ [({ pattern := ob.pattern, env := s.heap.length, cache := none } : MObj)])[s.objs.length]? =
            some { pattern := ob.pattern, env := s.heap.length, cache := none } := by simp
        have h2 : (s.heap ++ [dupdate c.m.env []])[s.heap.length]? = some (dupdate c.m.env []) := read_new _ _
        simp only [h1, h2, set_last]
        refine ⟨_, _, rfl, ⟨rfl, rfl, ?_⟩, ?_, rfl, rfl⟩
        · simp [CMatcher.mk', dupdate]
        · simp [CMatcher.mk', hp]

/-! ### one call, any call -/

/-- what a call that does not write may do to the store -/
inductive Effect (s s' : Store) : Prop
  | looks (h : OnlyAllocates s s')
  | caches (o : Nat) (c : CMatcher) (hv : s.view o = some c) (path : Text) (h : OnlyCaches s s' o (c.match path).2.cache)
  | derives (nb : MObj) (nenv : Env) (h : Derives s s' nb nenv) (hc : nb.cache = none)

/-- the calls of the alphabet that do not write to an environment: all but `env[k] = v` -/
def Quiet : Op → Prop
  | .envSet _ _ _ => False
  | _ => True

theorem view_none_of_objs {s : Store} {o : Nat} (h : s.objs[o]? = none) : s.view o = none := by
  simp [Store.view, h]

theorem objs_of_lt {s : Store} {o : Nat} (h : o < s.objs.length) : ∃ ob, s.objs[o]? = some ob :=
  ⟨_, List.getElem?_eq_getElem h⟩

theorem match_stuck {s : Store} {o : Nat} (path : Text) (h : s.objs[o]? = none) : Store.match o path s = none := by
  simp [Store.match, Store.cacheRegex, h]

/-- **every call of the alphabet that does not write has one of three effects**: nothing but allocations; the cache of
    the matcher that `match`/`sub` was called on; one new object with a new env dict -/
theorem step_effect {s : Store} (hw : WF s) {op : Op} (hq : Quiet op) {r s'} (h : s.step op = some (r, s')) :
    Effect s s' := by
  cases op with
  | envSet o k v => exact absurd hq (by simp [Quiet])
  | «prefix» o => exact .looks (looks_onlyAllocates (.pre o) h)
  | str o => exact .looks (looks_onlyAllocates (.str o) h)
  | expandRaise o => exact .looks (looks_onlyAllocates (.raise o) h)
  | repr o => exact .looks (looks_onlyAllocates (.repr o) h)
  | eq a b => exact .looks (looks_onlyAllocates (.eq a b) h)
  | new cwd p env root =>
    obtain ⟨r0, h0⟩ := mapOut_some h
    unfold Store.new at h0
    cases hm : mkMatcherAt cwd p env root with
    | error e =>
      simp only [hm, Option.some.injEq, Prod.mk.injEq] at h0
      rw [← h0.2]; exact .looks (onlyAllocates_refl s)
    | ok m =>
      simp only [hm, Option.some.injEq, Prod.mk.injEq] at h0
      rw [← h0.2]
      exact .derives { pattern := m.pattern, env := s.heap.length, cache := none } m.env ⟨rfl, rfl, rfl⟩ rfl
  | matchP o path =>
    obtain ⟨r0, h0⟩ := mapOut_some h
    by_cases hlt : o < s.objs.length
    · obtain ⟨c, hv⟩ := view_of_WF hw hlt
      obtain ⟨s1, h1, h2⟩ := match_spec hv path
      rw [h1] at h0
      simp only [Option.some.injEq, Prod.mk.injEq] at h0
      rw [← h0.2]
      exact .caches o c hv path h2
    · rw [match_stuck path (List.getElem?_eq_none (Nat.le_of_not_lt hlt))] at h0; cases h0
  | sub o other path =>
    obtain ⟨r0, h0⟩ := mapOut_some h
    by_cases hlt : o < s.objs.length
    · obtain ⟨c, hv⟩ := view_of_WF hw hlt
      by_cases hlt2 : other < s.objs.length
      · obtain ⟨oc, hvo⟩ := view_of_WF hw hlt2
        obtain ⟨s1, h1, h2⟩ := sub_spec hv hvo path
        rw [h1] at h0
        simp only [Option.some.injEq, Prod.mk.injEq] at h0
        rw [← h0.2]
        rw [sub_cache] at h2
        exact .caches o c hv path h2
      · -- `other` does not exist: either the match decides (error / None) or the call is stuck
        obtain ⟨s1, h1, h2⟩ := match_spec hv path
        unfold Store.sub at h0
        rw [h1] at h0
        cases hm : (c.match path).1 with
        | error e =>
          simp only [hm, liftX, Option.some.injEq, Prod.mk.injEq] at h0
          rw [← h0.2]; exact .caches o c hv path h2
        | ok od =>
          cases od with
          | none =>
            simp only [hm, liftX, Option.some.injEq, Prod.mk.injEq] at h0
            rw [← h0.2]; exact .caches o c hv path h2
          | some d =>
            simp only [hm, liftX] at h0
            have : s1.view other = none := by
              apply view_none_of_objs
              obtain ⟨_, ob, ho, hobjs⟩ := h2
              rw [hobjs, List.getElem?_eq_none]
              simp only [List.length_set]; exact Nat.le_of_not_lt hlt2
            simp [this] at h0
    · unfold Store.sub at h0
      rw [match_stuck path (List.getElem?_eq_none (Nat.le_of_not_lt hlt))] at h0; cases h0
  | rebuild o env root =>
    obtain ⟨r0, h0⟩ := mapOut_some h
    by_cases hlt : o < s.objs.length
    · obtain ⟨c, hv⟩ := view_of_WF hw hlt
      obtain ⟨he1, he2⟩ := rebuild_spec hv env root
      cases hd : c.rebuild env root with
      | error e =>
        -- the only error of the copy constructor is that of parsing the values
        unfold CMatcher.rebuild Matcher.rebuild at hd
        cases hre : realEnv env with
        | error e' =>
          rw [he1 e' hre] at h0
          simp only [Option.some.injEq, Prod.mk.injEq] at h0
          rw [← h0.2]; exact .looks (onlyAllocates_refl s)
        | ok e' => simp [hre, bind, Except.bind, pure, Except.pure] at hd
      | ok d =>
        obtain ⟨s1, nb, h1, h2, _, h4, _⟩ := he2 d hd
        rw [h1] at h0
        simp only [Option.some.injEq, Prod.mk.injEq] at h0
        rw [← h0.2]; exact .derives nb _ h2 h4
    · unfold Store.rebuild at h0
      cases hre : realEnv env with
      | error e' =>
        simp only [hre, Option.some.injEq, Prod.mk.injEq] at h0
        rw [← h0.2]; exact .looks (onlyAllocates_refl s)
      | ok e' => simp [hre, List.getElem?_eq_none (Nat.le_of_not_lt hlt)] at h0
  | concat o other =>
    obtain ⟨r0, h0⟩ := mapOut_some h
    cases ha : s.argOf other with
    | none => simp [Store.concat, ha] at h0
    | some arg =>
      by_cases hlt : o < s.objs.length
      · obtain ⟨c, hv⟩ := view_of_WF hw hlt
        obtain ⟨he1, he2⟩ := concat_spec hv other ha
        cases hd : c.concat arg with
        | error e =>
          rw [he1 e hd] at h0
          simp only [Option.some.injEq, Prod.mk.injEq] at h0
          rw [← h0.2]; exact .looks (onlyAllocates_refl s)
        | ok d =>
          obtain ⟨s1, nb, h1, h2, _, h4, _⟩ := he2 d hd
          rw [h1] at h0
          simp only [Option.some.injEq, Prod.mk.injEq] at h0
          rw [← h0.2]; exact .derives nb _ h2 h4
      · unfold Store.concat at h0
        simp only [ha] at h0
        cases hm : arg.toMatcher with
        | error e =>
          simp only [hm, Option.some.injEq, Prod.mk.injEq] at h0
          rw [← h0.2]; exact .looks (onlyAllocates_refl s)
        | ok om =>
          simp only [hm, Store.concatWith] at h0
          cases hroot : om.pattern.root.isSome with
          | true =>
            simp only [hroot, if_true, Option.some.injEq, Prod.mk.injEq] at h0
            rw [← h0.2]; exact .looks (onlyAllocates_refl s)
          | false =>
            have hre : realEnv [] = .ok [] := rfl
            simp [hroot, Store.rebuild, hre, List.getElem?_eq_none (Nat.le_of_not_lt hlt)] at h0

/-- what every effect guarantees: the store stays well formed and alias free; every object that existed has the pattern,
    environment and root it had; caches that were valid stay valid, new caches are valid, new objects have none -/
theorem effect_keeps {s s' : Store} (hw : WF s) (hn : NoAlias s) (he : Effect s s') :
    WF s' ∧ NoAlias s' ∧
    (∀ o c, s.view o = some c → ∃ c', s'.view o = some c' ∧ c'.m = c.m ∧ (C11C.CacheOK c → C11C.CacheOK c')) ∧
    ((∀ o c, s.view o = some c → C11C.CacheOK c) → ∀ o c, s'.view o = some c → C11C.CacheOK c) := by
  cases he with
  | looks h =>
    refine ⟨wf_onlyAllocates hw h, noAlias_onlyAllocates hn h, fun o c hv => ⟨c, view_onlyAllocates h hv, rfl, id⟩, ?_⟩
    intro hall o c hv
    -- the objects are the same; so is every view
    obtain ⟨ob, ho, he', _, _⟩ := view_inv hv
    have hlt : o < s.objs.length := by
      rw [← h.1]
      rcases Nat.lt_or_ge o s'.objs.length with h1 | h1
      · exact h1
      · rw [List.getElem?_eq_none h1] at ho; cases ho
    obtain ⟨c0, hv0⟩ := view_of_WF hw hlt
    have := view_onlyAllocates h hv0
    rw [hv] at this; cases this
    exact hall o c hv0
  | caches o0 c0 hv0 path h =>
    have hrefl := fun hc => C11C.match_refines (c := c0) hc path
    refine ⟨wf_onlyCaches hw h, noAlias_onlyCaches hn h, ?_, ?_⟩
    · intro o c hv
      by_cases hoo : o = o0
      · subst hoo
        rw [hv0] at hv; cases hv
        refine ⟨_, view_onlyCaches_self h hv0, rfl, ?_⟩
        intro hc rn hrn
        have h3 := (hrefl hc).2.2
        have h2 := (hrefl hc).2.1
        have := h3 rn hrn
        rw [h2] at this; exact this
      · exact ⟨c, view_onlyCaches_other h hoo hv, rfl, id⟩
    · intro hall o c hv
      obtain ⟨ob, ho, _, _, _⟩ := view_inv hv
      have hlt : o < s.objs.length := by
        obtain ⟨_, ob0, _, hobjs⟩ := h
        rcases Nat.lt_or_ge o s'.objs.length with h1 | h1
        · rw [hobjs, List.length_set] at h1; exact h1
        · rw [List.getElem?_eq_none h1] at ho; cases ho
      obtain ⟨c1, hv1⟩ := view_of_WF hw hlt
      by_cases hoo : o = o0
      · subst hoo
        rw [hv0] at hv1; cases hv1
        have := view_onlyCaches_self h hv0
        rw [hv] at this; cases this
        intro rn hrn
        have hc := hall o c0 hv0
        have h3 := (hrefl hc).2.2
        have h2 := (hrefl hc).2.1
        have := h3 rn hrn
        rw [h2] at this; exact this
      · have := view_onlyCaches_other h hoo hv1
        rw [hv] at this; cases this
        exact hall o c hv1
  | derives nb nenv h hc =>
    refine ⟨wf_derives hw h, noAlias_derives hw hn h, fun o c hv => ⟨c, view_derives_old h hv, rfl, id⟩, ?_⟩
    intro hall o c hv
    obtain ⟨ob, ho, _, _, _⟩ := view_inv hv
    have hlen : s'.objs.length = s.objs.length + 1 := by rw [h.1]; simp
    have hlt : o < s.objs.length + 1 := by
      rw [← hlen]
      rcases Nat.lt_or_ge o s'.objs.length with h1 | h1
      · exact h1
      · rw [List.getElem?_eq_none h1] at ho; cases ho
    rcases Nat.lt_or_ge o s.objs.length with h1 | h1
    · obtain ⟨c1, hv1⟩ := view_of_WF hw h1
      have := view_derives_old h hv1
      rw [hv] at this; cases this
      exact hall o c hv1
    · have : o = s.objs.length := by omega
      subst this
      rw [view_derives_new h] at hv; cases hv
      intro rn hrn
      simp only [hc] at hrn; cases hrn

/-! ### histories -/

/-- **any history of calls that do not write**: the store stays well formed and alias free, every object keeps its
    pattern, environment and root, all caches are valid -/
theorem run_keeps : ∀ (ops : List Op) (s : Store), WF s → NoAlias s → (∀ o c, s.view o = some c → C11C.CacheOK c) →
    (∀ op ∈ ops, Quiet op) → ∀ outs s', s.run ops = some (outs, s') →
    WF s' ∧ NoAlias s' ∧ (∀ o c, s.view o = some c → ∃ c', s'.view o = some c' ∧ c'.m = c.m) ∧
      (∀ o c, s'.view o = some c → C11C.CacheOK c) := by
  intro ops
  induction ops with
  | nil =>
    intro s hw hn hc _ outs s' h
    simp only [Store.run, Option.some.injEq, Prod.mk.injEq] at h
    rw [← h.2]
    exact ⟨hw, hn, fun o c hv => ⟨c, hv, rfl⟩, hc⟩
  | cons op ops ih =>
    intro s hw hn hc hq outs s' h
    unfold Store.run at h
    cases hs : s.step op with
    | none => simp [hs] at h
    | some p =>
      obtain ⟨r, s1⟩ := p
      simp only [hs] at h
      cases hr : Store.run s1 ops with
      | none => simp [hr] at h
      | some q =>
        obtain ⟨rs, s2⟩ := q
        simp only [hr, Option.some.injEq, Prod.mk.injEq] at h
        rw [← h.2]
        obtain ⟨hw1, hn1, hv1, hc1⟩ := effect_keeps hw hn (step_effect hw (hq op (List.mem_cons_self ..)) hs)
        obtain ⟨hw2, hn2, hv2, hc2⟩ := ih s1 hw1 hn1 (hc1 hc) (fun op' h' => hq op' (List.mem_cons_of_mem _ h')) rs s2 hr
        refine ⟨hw2, hn2, ?_, hc2⟩
        intro o c hv
        obtain ⟨c1, hvc1, hm1, _⟩ := hv1 o c hv
        obtain ⟨c2, hvc2, hm2⟩ := hv2 o c1 hvc1
        exact ⟨c2, hvc2, by rw [hm2, hm1]⟩

theorem empty_ok : WF Store.empty ∧ NoAlias Store.empty ∧ (∀ o c, Store.empty.view o = some c → C11C.CacheOK c) := by
  refine ⟨?_, ?_, ?_⟩
  · intro ob h; cases h
  · exact List.Pairwise.nil
  · intro o c h; simp [Store.view, Store.empty] at h

end C11O

/- C02 (round 4), DTD: comments (attached / stand-alone), any white-space inside and between the declarations, single- and
   double-quoted values, parameter entities (`<!ENTITY % name SYSTEM "url"> %name;`), a leading byte-order mark, and inert
   garbage (garbage locality, also in front of a comment that contains a complete `<!ENTITY …>`). -/
import CLModel.Proofs.C02PGen
import CLModel.Proofs.C02XDtd
namespace C02P
open Rx P Gen.Pat C02X

theorem none_orElse_d {α} (f : Unit → Option α) : (none : Option α).orElse f = f () := rfl

/-! ### comments -/

/-- `CharMinusDash` of the parser -/
def dcChar (c : Nat) : Bool :=
  c == 9 || c == 10 || c == 13 || (32 ≤ c && c ≤ 44) || (46 ≤ c && c ≤ 55295) || (57344 ≤ c && c ≤ 65533)

def dcCls : List ClsItem := [.ch 9, .ch 10, .ch 13, .range 32 44, .range 46 55295, .range 57344 65533]

theorem inC_dc (c : Nat) : inC false dcCls c = dcChar c := by
  simp [inC, dcCls, ClsItem.has, dcChar, Bool.or_assoc]

/-- one unit of a comment text: an optional single dash and a character of `CharMinusDash` -/
structure DUnit where
  dash : Bool
  c : Nat

def DUnit.render (u : DUnit) : List Nat := if u.dash then [45, u.c] else [u.c]

def dcText (us : List DUnit) : List Nat := (us.map DUnit.render).flatten

@[simp] theorem dcText_nil : dcText [] = [] := rfl
@[simp] theorem dcText_cons (u : DUnit) (us : List DUnit) : dcText (u :: us) = u.render ++ dcText us := by
  simp [dcText]

/-- `<!--` text `-->` -/
def printDComment (us : List DUnit) : List Nat := [60, 33, 45, 45] ++ (dcText us ++ [45, 45, 62])

def dcUnit : Re := Re.group 1 (Re.seq (Re.alt (Re.lit 45) Re.eps) (Re.cls false dcCls))
def dcEnd : Re := Re.seq (Re.lit 45) (Re.seq (Re.lit 45) (Re.lit 62))

theorem dtdComment_eq :
    DTDParser_reComment = seqLits [60, 33, 45, 45] (Re.seq (Re.rep 0 none false dcUnit) dcEnd) := rfl

theorem dcChar_ne45 {c : Nat} (h : dcChar c = true) : c ≠ 45 := by
  intro h45; subst h45; revert h; decide

theorem dcUnit_step (s : Array Nat) (p : Nat) (u : DUnit) (l : List Nat) (caps) (h : At s p (u.render ++ l))
    (hg : dcChar u.c = true) (k' : K) :
    m s dcUnit ⟨p, caps⟩ k' = k' ⟨p + u.render.length, (1, p, p + u.render.length) :: caps⟩ := by
  unfold dcUnit
  rw [m_group, m_seq, m_alt]
  cases hd : u.dash with
  | false =>
    have h' : At s p (u.c :: l) := by simpa [DUnit.render, hd] using h
    rw [lit_at_fail h' (by simp [dcChar_ne45 hg])]
    simp only [none_orElse_d, m_eps]
    rw [m_cls_charStep, step_at _ h' (by rw [inC_dc]; exact hg)]
    simp [DUnit.render, hd]
  | true =>
    have h' : At s p (45 :: u.c :: l) := by simpa [DUnit.render, hd] using h
    rw [lit_at h', m_eps, m_cls_charStep, step_at _ h'.tail (by rw [inC_dc]; exact hg),
      step_at_fail _ h' (by intro c hc; simp at hc; subst hc; decide)]
    simp only [DUnit.render, hd, if_true, List.length_cons, List.length_nil]
    cases k' ⟨p + 1 + 1, (1, p, p + 1 + 1) :: caps⟩ <;> rfl

/-- `-->` does not start at a unit -/
theorem dcEnd_fail_unit (s : Array Nat) (p : Nat) (u : DUnit) (l : List Nat) (caps) (h : At s p (u.render ++ l))
    (hg : dcChar u.c = true) (k' : K) : m s dcEnd ⟨p, caps⟩ k' = none := by
  unfold dcEnd
  rw [m_seq]
  cases hd : u.dash with
  | false =>
    have h' : At s p (u.c :: l) := by simpa [DUnit.render, hd] using h
    exact lit_at_fail h' (by simp [dcChar_ne45 hg]) caps _
  | true =>
    have h' : At s p (45 :: u.c :: l) := by simpa [DUnit.render, hd] using h
    rw [lit_at h', m_seq]
    exact lit_at_fail h'.tail (by simp [dcChar_ne45 hg]) caps _

theorem dcEnd_ok (s : Array Nat) (p : Nat) (l : List Nat) (caps) (h : At s p (45 :: 45 :: 62 :: l)) :
    m s dcEnd ⟨p, caps⟩ some = some ⟨p + 3, caps⟩ := by
  unfold dcEnd
  rw [m_seq, lit_at h, m_seq, lit_at h.tail, lit_at h.tail.tail]

theorem DUnit.render_pos (u : DUnit) : 0 < u.render.length := by
  unfold DUnit.render; split <;> simp

/-- the lazy repeat over the units of a printed comment text stops exactly at the terminator -/
theorem dc_loop (s : Array Nat) : ∀ (us : List DUnit) (p fuel : Nat) (caps) (rest : List Nat),
    At s p (dcText us ++ 45 :: 45 :: 62 :: rest) → (∀ u ∈ us, dcChar u.c = true) → us.length < fuel →
    ∃ caps', loop (m s dcUnit) false fuel 0 none ⟨p, caps⟩ (fun st => m s dcEnd st some) =
      some ⟨p + (dcText us).length + 3, caps'⟩ := by
  intro us
  induction us with
  | nil =>
    intro p fuel caps rest h _ hf
    obtain ⟨f, rfl⟩ : ∃ f, fuel = f + 1 := ⟨fuel - 1, by simp at hf; omega⟩
    refine ⟨caps, ?_⟩
    rw [loop]
    have := dcEnd_ok s p rest caps (by simpa using h)
    simp [this]
  | cons u us ih =>
    intro p fuel caps rest h hg hf
    obtain ⟨f, rfl⟩ : ∃ f, fuel = f + 1 := ⟨fuel - 1, by simp at hf; omega⟩
    have h' : At s p (u.render ++ (dcText us ++ 45 :: 45 :: 62 :: rest)) := by simpa [At] using h
    have hu := hg u (by simp)
    have hpos := u.render_pos
    obtain ⟨caps', ihh⟩ := ih (p + u.render.length) f ((1, p, p + u.render.length) :: caps) rest h'.app
      (fun v hv => hg v (by simp [hv])) (by simp at hf; omega)
    refine ⟨caps', ?_⟩
    rw [loop]
    simp only [dcEnd_fail_unit s p u _ caps h' hu, dcUnit_step s p u _ caps h' hu,
      show ¬ (p + u.render.length ≤ p) by omega, if_false, show ((none : Option Nat) == some 0) = false from rfl,
      Bool.false_eq_true, Option.map_none, Nat.zero_sub, ihh, Nat.lt_irrefl]
    simp only [dcText_cons, List.length_append]
    simp [Nat.add_assoc]

theorem dcText_len (us : List DUnit) : us.length ≤ (dcText us).length := by
  induction us with
  | nil => simp
  | cons u us ih => have := u.render_pos; simp only [dcText_cons, List.length_cons, List.length_append]; omega

/-- a printed comment is matched exactly -/
theorem dtd_comment_at (s : Array Nat) (p : Nat) (us : List DUnit) (rest : List Nat) (hg : ∀ u ∈ us, dcChar u.c = true)
    (h : At s p (printDComment us ++ rest)) :
    ∃ st, matchAt s DTDParser_reComment p = some st ∧ st.pos = p + (printDComment us).length := by
  have h0 : At s p ([60, 33, 45, 45] ++ (dcText us ++ 45 :: 45 :: 62 :: rest)) := by simpa [At, printDComment] using h
  have hl := h0.app.len
  have := dcText_len us
  simp only [List.length_append, List.length_cons] at hl
  rw [dtdComment_eq]
  simp only [matchAt]
  rw [m_seqLits s _ [60, 33, 45, 45] p _ [] some h0, m_seq, m_rep]
  obtain ⟨caps', hc⟩ := dc_loop s us (p + 4) (s.size + 2 - (p + 4)) [] rest h0.app hg (by omega)
  exact ⟨_, hc, by simp [printDComment]; omega⟩

/-- `Comment.val` of the DTD parser: `all[4:-3]` -/
theorem dtd_comment_val (us : List DUnit) : commentVal .dtd (printDComment us) = dcText us := by
  simp [commentVal, printDComment]

/-! ### the key regex in general -/

/-- `<!ENTITY` -/
def kwEntity : List Nat := [60, 33, 69, 78, 84, 73, 84, 89]

/-- the parts of a printed entity declaration -/
structure DEnt where
  /-- white-space after `<!ENTITY` -/
  w1 : List Nat
  n0 : Nat
  nt : List Nat
  /-- white-space after the name -/
  w2 : List Nat
  /-- the quote character, `"` or `'` -/
  q : Nat
  value : List Nat
  /-- white-space before `>` -/
  w3 : List Nat

def DEnt.name (e : DEnt) : List Nat := e.n0 :: e.nt

def DEnt.print (e : DEnt) : List Nat :=
  kwEntity ++ (e.w1 ++ (e.n0 :: (e.nt ++ (e.w2 ++ (e.q :: (e.value ++ (e.q :: (e.w3 ++ [62]))))))))

structure DEnt.Good (e : DEnt) : Prop where
  w1_ne : e.w1 ≠ []
  w1 : ∀ c ∈ e.w1, isWs c = true
  n0 : asciiLetter e.n0 = true
  nt : ∀ c ∈ e.nt, dtdKeyChar c = true
  w2_ne : e.w2 ≠ []
  w2 : ∀ c ∈ e.w2, isWs c = true
  q : e.q = 34 ∨ e.q = 39
  value : ∀ c ∈ e.value, c ≠ e.q
  w3 : ∀ c ∈ e.w3, isWs c = true

theorem DEnt.print_length (e : DEnt) :
    e.print.length = 8 + e.w1.length + 1 + e.nt.length + e.w2.length + 1 + e.value.length + 1 + e.w3.length + 1 := by
  simp [DEnt.print, kwEntity]; omega

theorem dtd_reKey_shape2 : DTDParser_reKey = seqLits kwEntity
    (Re.seq (Re.rep 1 none true (Re.cls false dtdWs))
    (Re.seq (Re.group 1 (Re.seq (Re.cls false dtdNameStart) (Re.rep 0 none true (Re.cls false dtdNameChar))))
    (Re.seq (Re.rep 1 none true (Re.cls false dtdWs))
    (Re.seq (Re.group 2 (Re.alt (Re.seq (Re.lit 34) (Re.seq (Re.rep 0 none true (Re.notLit 34)) (Re.lit 34)))
                                (Re.seq (Re.lit 39) (Re.seq (Re.rep 0 none true (Re.notLit 39)) (Re.alt (Re.lit 39) Re.eps)))))
    (Re.seq (Re.rep 0 none true (Re.cls false dtdWs)) (Re.lit 62)))))) := dtd_reKey_shape

theorem inC_dtdWs (c : Nat) : inC false dtdWs c = isWs c := inC_ws c

theorem nameChar_ws {c : Nat} (h : isWs c = true) : inC false dtdNameChar c = false := by
  simp [isWs] at h
  rcases h with ((h | h) | h) | h <;> subst h <;> decide

theorem isWs_letter {c : Nat} (h : asciiLetter c = true) : isWs c = false := by
  rw [← inC_dtdWs]; exact ws_of_letter c h

theorem dtd_key_at (s : Array Nat) (p : Nat) (e : DEnt) (rest : List Nat) (hg : e.Good) (h : At s p (e.print ++ rest)) :
    matchAt s DTDParser_reKey p =
      some ⟨p + e.print.length,
        [(2, p + 8 + e.w1.length + 1 + e.nt.length + e.w2.length,
             p + 8 + e.w1.length + 1 + e.nt.length + e.w2.length + 1 + e.value.length + 1),
         (1, p + 8 + e.w1.length, p + 8 + e.w1.length + 1 + e.nt.length)]⟩ := by
  have h0 : At s p (kwEntity ++ (e.w1 ++ (e.n0 :: (e.nt ++ (e.w2 ++ (e.q :: (e.value ++ (e.q :: (e.w3 ++ (62 :: rest)))))))))) := by
    simpa [At, DEnt.print] using h
  have h1 : At s (p + 8) (e.w1 ++ (e.n0 :: (e.nt ++ (e.w2 ++ (e.q :: (e.value ++ (e.q :: (e.w3 ++ (62 :: rest))))))))) := h0.app
  have h2 := h1.app
  have h3 := h2.tail
  have h4 := h3.app
  have h5 := h4.app
  have h6 := h5.tail
  have h7 := h6.app
  have h8 := h7.tail
  have h9 := h8.app
  have hsz := h9.pos_lt (by simp)
  have hqws : isWs e.q = false := by rcases hg.q with hq | hq <;> rw [hq] <;> decide
  simp only [matchAt]
  rw [dtd_reKey_shape2, m_seqLits s _ kwEntity p _ [] some h0]
  simp only [show kwEntity.length = 8 from rfl, m_seq, m_rep, m_cls_charStep]
  apply greedy_at _ _ _ _ 1 h1 (fun c hc => by rw [inC_dtdWs]; exact hg.w1 c hc)
    (by intro c hc; simp at hc; subst hc; rw [inC_dtdWs]; exact isWs_letter hg.n0)
    (by have := List.length_pos_iff.mpr hg.w1_ne; omega) (by omega)
  simp only [m_group, m_seq, m_rep, m_cls_charStep]
  rw [step_at _ h2 (nameStart_of_letter e.n0 hg.n0)]
  apply greedy_at _ _ _ _ 0 h3 (fun c hc => nameChar_of_keyChar c (hg.nt c hc))
    (by
      intro c hc
      cases hw : e.w2 with
      | nil => exact absurd hw hg.w2_ne
      | cons a t => rw [hw] at hc; simp at hc; subst hc; exact nameChar_ws (hg.w2 a (by simp [hw])))
    (by omega) (by omega)
  simp only []
  apply greedy_at _ _ _ _ 1 h4 (fun c hc => by rw [inC_dtdWs]; exact hg.w2 c hc)
    (by intro c hc; simp at hc; subst hc; rw [inC_dtdWs]; exact hqws)
    (by have := List.length_pos_iff.mpr hg.w2_ne; omega) (by omega)
  simp only [m_alt, m_seq, m_rep, m_notLit_charStep, m_cls_charStep, m_eps]
  -- after the closing quote: `[ws]*>`
  have tailk : ∀ caps, loop (charStep s (inC false dtdWs)) true (s.size + 2 - (p + 8 + e.w1.length + 1 + e.nt.length + e.w2.length + 1 + e.value.length + 1)) 0 none
      ⟨p + 8 + e.w1.length + 1 + e.nt.length + e.w2.length + 1 + e.value.length + 1, caps⟩ (fun st' => m s (Re.lit 62) st' some) =
      some ⟨p + e.print.length, caps⟩ := by
    intro caps
    apply greedy_at _ _ _ _ 0 h8 (fun c hc => by rw [inC_dtdWs]; exact hg.w3 c hc)
      (by intro c hc; simp at hc; subst hc; decide) (by omega) (by omega)
    rw [lit_at h9]
    simp [DEnt.print_length]; omega
  rcases hg.q with hq | hq
  · -- double quotes
    have hval := hg.value
    rw [hq] at h5 h6 h7 hval
    apply orElse_of_some
    rw [lit_at h5]
    apply greedy_at _ _ _ _ 0 h6 (fun c hc => by simpa using hval c hc) (by intro c hc; simp at hc; subst hc; decide)
      (by omega) (by omega)
    rw [lit_at h7]
    simp only []
    rw [tailk]
  · -- single quotes
    have hval := hg.value
    rw [hq] at h5 h6 h7 hval
    rw [lit_at_fail h5 (by simp)]
    simp only [none_orElse_d]
    rw [lit_at h5]
    apply greedy_at _ _ _ _ 0 h6 (fun c hc => by simpa using hval c hc) (by intro c hc; simp at hc; subst hc; decide)
      (by omega) (by omega)
    apply orElse_of_some
    rw [lit_at h7]
    simp only []
    rw [tailk]

/-- where the text does not read `<!ENTITY` + white-space + a name start, the key regex does not match; two cases are
    needed: the head is not `<`, and `<!ENTITY` white-space `%` (a parameter entity) -/
theorem dtd_key_none_head (s : Array Nat) (p : Nat) (l : List Nat) (h : At s p l) (hl : l.head? ≠ some 60) :
    matchAt s DTDParser_reKey p = none := by
  rw [dtd_reKey_shape2]
  simp only [matchAt, kwEntity, seqLits, m_seq]
  exact lit_at_fail h hl [] _

theorem dtd_comment_none_head (s : Array Nat) (p : Nat) (l : List Nat) (h : At s p l) (hl : l.head? ≠ some 60) :
    matchAt s DTDParser_reComment p = none := by
  rw [dtdComment_eq]
  simp only [matchAt, seqLits, m_seq]
  exact lit_at_fail h hl [] _

/-- `<!E…` is not a comment -/
theorem dtd_comment_none_ent (s : Array Nat) (p : Nat) (l : List Nat) (h : At s p (kwEntity ++ l)) :
    matchAt s DTDParser_reComment p = none := by
  have h0 : At s p (60 :: 33 :: 69 :: 78 :: 84 :: 73 :: 84 :: 89 :: l) := h
  rw [dtdComment_eq]
  simp only [matchAt, seqLits, m_seq]
  rw [lit_at h0, lit_at h0.tail]
  exact lit_at_fail h0.tail.tail (by simp) [] _

/-- `<!-…` is not an entity declaration -/
theorem dtd_key_none_comment (s : Array Nat) (p : Nat) (l : List Nat) (h : At s p (60 :: 33 :: 45 :: l)) :
    matchAt s DTDParser_reKey p = none := by
  rw [dtd_reKey_shape2]
  simp only [matchAt, kwEntity, seqLits, m_seq]
  rw [lit_at h, lit_at h.tail]
  exact lit_at_fail h.tail.tail (by simp) [] _

/-! ### parameter entities -/

def kwSystem : List Nat := [83, 89, 83, 84, 69, 77]

/-- the comment group inside the tail of `rePE` -/
def peComment : Re :=
  Re.seq (Re.lit 60) (Re.seq (Re.lit 33) (Re.seq (Re.lit 45) (Re.seq (Re.lit 45)
    (Re.seq (Re.rep 0 none false (Re.seq (Re.alt (Re.lit 45) Re.eps) (Re.cls false dcCls)))
      (Re.seq (Re.lit 45) (Re.seq (Re.lit 45) (Re.seq (Re.lit 62) (Re.rep 0 none true (Re.cls false dtdWs)))))))))

theorem dtd_rePE_shape : DTDParser_rePE = seqLits kwEntity
    (Re.seq (Re.rep 1 none true (Re.cls false dtdWs)) (Re.seq (Re.lit 37) (Re.seq (Re.rep 1 none true (Re.cls false dtdWs))
    (Re.seq (Re.group 1 (Re.seq (Re.cls false dtdNameStart) (Re.rep 0 none true (Re.cls false dtdNameChar))))
    (Re.seq (Re.rep 1 none true (Re.cls false dtdWs)) (seqLits kwSystem
    (Re.seq (Re.rep 1 none true (Re.cls false dtdWs))
    (Re.seq (Re.group 2 (Re.alt (Re.seq (Re.lit 34) (Re.seq (Re.rep 0 none true (Re.notLit 34)) (Re.lit 34)))
                                (Re.seq (Re.lit 39) (Re.seq (Re.rep 0 none true (Re.notLit 39)) (Re.lit 39)))))
    (Re.seq (Re.rep 0 none true (Re.cls false dtdWs)) (Re.seq (Re.lit 62) (Re.seq (Re.rep 0 none true (Re.cls false dtdWs))
    (Re.seq (Re.lit 37) (Re.seq (Re.cls false dtdNameStart) (Re.seq (Re.rep 0 none true (Re.cls false dtdNameChar))
    (Re.seq (Re.lit 59)
      (Re.alt (Re.seq (Re.rep 0 none true (Re.cls false [.ch 32, .ch 9]))
                (Re.seq (Re.rep 0 none true peComment) (Re.alt (Re.lit 10) Re.eps))) Re.eps)))))))))))))))) := rfl

/-- a printed parameter entity with its reference: `<!ENTITY % name SYSTEM "url"> %ref;` + blanks + newline -/
structure DPE where
  w1 : List Nat
  w2 : List Nat
  n0 : Nat
  nt : List Nat
  w3 : List Nat
  w4 : List Nat
  q : Nat
  url : List Nat
  w5 : List Nat
  w6 : List Nat
  m0 : Nat
  mt : List Nat
  b : List Nat

def DPE.print (d : DPE) : List Nat :=
  kwEntity ++ (d.w1 ++ (37 :: (d.w2 ++ (d.n0 :: (d.nt ++ (d.w3 ++ (kwSystem ++ (d.w4 ++ (d.q :: (d.url ++ (d.q :: (d.w5 ++
    (62 :: (d.w6 ++ (37 :: (d.m0 :: (d.mt ++ (59 :: (d.b ++ [10])))))))))))))))))))

structure DPE.Good (d : DPE) : Prop where
  w1_ne : d.w1 ≠ []
  w1 : ∀ c ∈ d.w1, isWs c = true
  w2_ne : d.w2 ≠ []
  w2 : ∀ c ∈ d.w2, isWs c = true
  n0 : asciiLetter d.n0 = true
  nt : ∀ c ∈ d.nt, dtdKeyChar c = true
  w3_ne : d.w3 ≠ []
  w3 : ∀ c ∈ d.w3, isWs c = true
  w4_ne : d.w4 ≠ []
  w4 : ∀ c ∈ d.w4, isWs c = true
  q : d.q = 34 ∨ d.q = 39
  url : ∀ c ∈ d.url, c ≠ d.q
  w5 : ∀ c ∈ d.w5, isWs c = true
  w6 : ∀ c ∈ d.w6, isWs c = true
  m0 : asciiLetter d.m0 = true
  mt : ∀ c ∈ d.mt, dtdKeyChar c = true
  b : ∀ c ∈ d.b, isBlank c = true

def DPE.pre1 (d : DPE) : List Nat := kwEntity ++ (d.w1 ++ (37 :: d.w2))
def DPE.mid (d : DPE) : List Nat := d.w3 ++ (kwSystem ++ d.w4)
def DPE.post (d : DPE) : List Nat := d.w5 ++ (62 :: (d.w6 ++ (37 :: (d.m0 :: (d.mt ++ (59 :: (d.b ++ [10])))))))

def DPE.nameStart (p : Nat) (d : DPE) : Nat := p + 8 + d.w1.length + 1 + d.w2.length
def DPE.urlStart (p : Nat) (d : DPE) : Nat := d.nameStart p + 1 + d.nt.length + d.w3.length + 6 + d.w4.length

theorem DPE.print_length (d : DPE) : d.print.length =
    8 + d.w1.length + 1 + d.w2.length + 1 + d.nt.length + d.w3.length + 6 + d.w4.length + 1 + d.url.length + 1 + d.w5.length + 1 +
      d.w6.length + 1 + 1 + d.mt.length + 1 + d.b.length + 1 := by
  simp [DPE.print, kwEntity, kwSystem]; omega

theorem nameChar_59 : inC false dtdNameChar 59 = false := by decide
theorem nameStart_37 : inC false dtdNameStart 37 = false := by decide
theorem nameStart_ws {c : Nat} (h : isWs c = true) : inC false dtdNameStart c = false := by
  simp [isWs] at h
  rcases h with ((h | h) | h) | h <;> subst h <;> decide

theorem isBlank_ws' {c : Nat} (h : isBlank c = true) : isWs c = true := by
  simp [isBlank] at h; rcases h with h | h <;> subst h <;> decide


theorem dtd_pe_at (s : Array Nat) (p : Nat) (d : DPE) (rest : List Nat) (hg : d.Good) (h : At s p (d.print ++ rest)) :
    matchAt s DTDParser_rePE p =
      some ⟨p + d.print.length,
        [(2, d.urlStart p, d.urlStart p + 1 + d.url.length + 1), (1, d.nameStart p, d.nameStart p + 1 + d.nt.length)]⟩ := by
  have h0 : At s p (kwEntity ++ (d.w1 ++ (37 :: (d.w2 ++ (d.n0 :: (d.nt ++ (d.w3 ++ (kwSystem ++ (d.w4 ++ (d.q :: (d.url ++
      (d.q :: (d.w5 ++ (62 :: (d.w6 ++ (37 :: (d.m0 :: (d.mt ++ (59 :: (d.b ++ (10 :: rest))))))))))))))))))))) := by
    simpa [At, DPE.print] using h
  have a1 := h0.app          -- w1
  have a2 := a1.app          -- %
  have a3 := a2.tail         -- w2
  have a4 := a3.app          -- n0
  have a5 := a4.tail         -- nt
  have a6 := a5.app          -- w3
  have a7 := a6.app          -- SYSTEM
  have a8 := a7.app          -- w4
  have a9 := a8.app          -- q
  have a10 := a9.tail        -- url
  have a11 := a10.app        -- q
  have a12 := a11.tail       -- w5
  have a13 := a12.app        -- >
  have a14 := a13.tail       -- w6
  have a15 := a14.app        -- %
  have a16 := a15.tail       -- m0
  have a17 := a16.tail       -- mt
  have a18 := a17.app        -- ;
  have a19 := a18.tail       -- b
  have a20 := a19.app        -- newline
  have hsz := a20.pos_lt (by simp)
  have hqws : isWs d.q = false := by rcases hg.q with hq | hq <;> rw [hq] <;> decide
  simp only [show kwEntity.length = 8 from rfl, show kwSystem.length = 6 from rfl] at a1 a2 a3 a4 a5 a6 a7 a8 a9 a10 a11 a12 a13 a14 a15 a16 a17 a18 a19 a20 hsz
  simp only [matchAt]
  rw [dtd_rePE_shape, m_seqLits s _ kwEntity p _ [] some h0]
  simp only [show kwEntity.length = 8 from rfl, m_seq, m_rep, m_cls_charStep]
  apply greedy_at _ _ _ _ 1 a1 (fun c hc => by rw [inC_dtdWs]; exact hg.w1 c hc)
    (by intro c hc; simp at hc; subst hc; decide) (by have := List.length_pos_iff.mpr hg.w1_ne; omega) (by omega)
  rw [lit_at a2]
  apply greedy_at _ _ _ _ 1 a3 (fun c hc => by rw [inC_dtdWs]; exact hg.w2 c hc)
    (by intro c hc; simp at hc; subst hc; rw [inC_dtdWs]; exact isWs_letter hg.n0)
    (by have := List.length_pos_iff.mpr hg.w2_ne; omega) (by omega)
  simp only [m_group, m_seq, m_rep, m_cls_charStep]
  rw [step_at _ a4 (nameStart_of_letter d.n0 hg.n0)]
  apply greedy_at _ _ _ _ 0 a5 (fun c hc => nameChar_of_keyChar c (hg.nt c hc))
    (by
      intro c hc
      cases hw : d.w3 with
      | nil => exact absurd hw hg.w3_ne
      | cons a t => rw [hw] at hc; simp at hc; subst hc; exact nameChar_ws (hg.w3 a (by simp [hw])))
    (by omega) (by omega)
  simp only []
  apply greedy_at _ _ _ _ 1 a6 (fun c hc => by rw [inC_dtdWs]; exact hg.w3 c hc)
    (by intro c hc; simp [kwSystem] at hc; subst hc; decide) (by have := List.length_pos_iff.mpr hg.w3_ne; omega) (by omega)
  rw [m_seqLits s _ kwSystem _ _ _ _ a7]
  simp only [show kwSystem.length = 6 from rfl, m_seq, m_rep, m_cls_charStep]
  apply greedy_at _ _ _ _ 1 a8 (fun c hc => by rw [inC_dtdWs]; exact hg.w4 c hc)
    (by intro c hc; simp at hc; subst hc; rw [inC_dtdWs]; exact hqws) (by have := List.length_pos_iff.mpr hg.w4_ne; omega) (by omega)
  simp only [m_group, m_alt, m_seq, m_rep, m_notLit_charStep, m_eps]
  -- everything after the closing quote
  have tailk : ∀ caps, loop (charStep s (inC false dtdWs)) true
      (s.size + 2 - (p + 8 + d.w1.length + 1 + d.w2.length + 1 + d.nt.length + d.w3.length + 6 + d.w4.length + 1 + d.url.length + 1)) 0 none
      ⟨p + 8 + d.w1.length + 1 + d.w2.length + 1 + d.nt.length + d.w3.length + 6 + d.w4.length + 1 + d.url.length + 1, caps⟩
      (fun st' => m s (Re.lit 62) st' fun st' =>
        loop (m s (Re.cls false dtdWs)) true (s.size + 2 - st'.pos) 0 none st' fun st' =>
          m s (Re.lit 37) st' fun st' => m s (Re.cls false dtdNameStart) st' fun st' =>
            loop (m s (Re.cls false dtdNameChar)) true (s.size + 2 - st'.pos) 0 none st' fun st' =>
              m s (Re.lit 59) st' fun st' =>
                (loop (m s (Re.cls false [ClsItem.ch 32, ClsItem.ch 9])) true (s.size + 2 - st'.pos) 0 none st' fun st' =>
                    loop (m s peComment) true (s.size + 2 - st'.pos) 0 none st' fun st' =>
                      (m s (Re.lit 10) st' some).orElse fun _ => some st').orElse fun _ => some st') =
      some ⟨p + d.print.length, caps⟩ := by
    intro caps
    apply greedy_at _ _ _ _ 0 a12 (fun c hc => by rw [inC_dtdWs]; exact hg.w5 c hc)
      (by intro c hc; simp at hc; subst hc; decide) (by omega) (by omega)
    rw [lit_at a13]
    simp only [m_cls_charStep]
    apply greedy_at _ _ _ _ 0 a14 (fun c hc => by rw [inC_dtdWs]; exact hg.w6 c hc)
      (by intro c hc; simp at hc; subst hc; decide) (by omega) (by omega)
    rw [lit_at a15, step_at _ a16 (nameStart_of_letter d.m0 hg.m0)]
    apply greedy_at _ _ _ _ 0 a17 (fun c hc => nameChar_of_keyChar c (hg.mt c hc))
      (by intro c hc; simp at hc; subst hc; exact nameChar_59) (by omega) (by omega)
    rw [lit_at a18]
    apply orElse_of_some
    apply greedy_at _ _ _ _ 0 a19 (fun c hc => by rw [inC_blank]; exact hg.b c hc)
      (by intro c hc; simp at hc; subst hc; decide) (by omega) (by omega)
    simp only []
    rw [loop_body_fail' _ true _ _ _ _ (by omega)
      (fun k' => by unfold peComment; rw [m_seq]; exact lit_at_fail a20 (by simp) _ _)]
    rw [lit_at a20]
    simp [DPE.print_length]
    omega
  simp only [m_cls_charStep] at tailk
  rcases hg.q with hq | hq
  · have hval := hg.url
    rw [hq] at a9 a10 a11 hval
    apply orElse_of_some
    rw [lit_at a9]
    apply greedy_at _ _ _ _ 0 a10 (fun c hc => by simpa using hval c hc) (by intro c hc; simp at hc; subst hc; decide)
      (by omega) (by omega)
    rw [lit_at a11]
    simp only [m_cls_charStep]
    rw [tailk]
    simp [DPE.urlStart, DPE.nameStart]
  · have hval := hg.url
    rw [hq] at a9 a10 a11 hval
    rw [lit_at_fail a9 (by simp)]
    simp only [none_orElse_d]
    rw [lit_at a9]
    apply greedy_at _ _ _ _ 0 a10 (fun c hc => by simpa using hval c hc) (by intro c hc; simp at hc; subst hc; decide)
      (by omega) (by omega)
    rw [lit_at a11]
    simp only [m_cls_charStep]
    rw [tailk]
    simp [DPE.urlStart, DPE.nameStart]

/-- the key regex does not match a parameter entity (`%` is not a name start) -/
theorem dtd_key_none_pe (s : Array Nat) (p : Nat) (w1 l : List Nat) (hw : ∀ c ∈ w1, isWs c = true)
    (h : At s p (kwEntity ++ (w1 ++ 37 :: l))) : matchAt s DTDParser_reKey p = none := by
  simp only [matchAt]
  rw [dtd_reKey_shape2, m_seqLits s _ kwEntity p _ [] some h]
  simp only [m_seq, m_rep, m_cls_charStep, m_group]
  apply loop_min1_none
  apply greedy_at_none _ _ _ _ h.app (fun c hc => by rw [inC_dtdWs]; exact hw c hc)
    (by intro c hc; simp at hc; subst hc; decide)
  intro j hj
  by_cases hjl : j < w1.length
  · exact charStep_fail s _ _ _ (Or.inr ⟨_, h.app.left j hjl, nameStart_ws (hw _ (List.getElem_mem hjl))⟩) _
  · have : j = w1.length := by omega
    subst this
    exact step_at_fail _ h.app.app (by intro c hc; simp at hc; subst hc; exact nameStart_37) _ _

/-! ### `DTDParser.getNext` on the printed pieces -/

theorem dtd_noheader (s : Array Nat) (p : Nat) (l : List Nat) (h : At s p l) (hl : l.head? ≠ some 65279) :
    (if p == 0 && (matchAt s DTDParser_reHeader 0).isSome then p + 1 else p) = p := by
  by_cases h0 : p = 0
  · subst h0
    rw [dtd_header_none s (by rw [h.head]; exact hl)]
    simp
  · simp [h0]

theorem kwEntity_head (l : List Nat) : (kwEntity ++ l).head? = some 60 := rfl

/-- white-space stretch: one white-space entry -/
theorem dtd_ws_at_n (s : Array Nat) (p : Nat) (w rest : List Nat) (hne : w ≠ []) (hw : ∀ c ∈ w, isWs c = true)
    (hr : ∀ c, rest.head? = some c → isWs c = false) (h : At s p (w ++ rest)) : dtdGetNext s p = wsEntryN p w.length := by
  have hhead : ∃ a, (w ++ rest).head? = some a ∧ isWs a = true := by
    cases w with
    | nil => exact absurd rfl hne
    | cons a t => exact ⟨a, rfl, hw a (by simp)⟩
  obtain ⟨a, ha, haw⟩ := hhead
  have hoff := dtd_noheader s p _ h (by rw [ha]; intro hh; cases hh; revert haw; decide)
  have hcm := dtd_comment_none_head s p _ h (by rw [ha]; intro hh; cases hh; revert haw; decide)
  unfold dtdGetNext
  simp only [hoff]
  rw [base_ws_at_n dtdCfg rfl hcm h hne hw hr]
  simp [wsEntryN]

/-- an entity declaration, optionally with an attached comment -/
def dtdEntEntry (off clen cglen : Nat) (e : DEnt) (hasC : Bool) : Entry :=
  { kind := .entity, full := off, s := off + clen + cglen, e := off + clen + cglen + e.print.length,
    ks := (off + clen + cglen + 8 + e.w1.length : Nat), ke := (off + clen + cglen + 8 + e.w1.length + 1 + e.nt.length : Nat),
    vs := (off + clen + cglen + 8 + e.w1.length + 1 + e.nt.length + e.w2.length + 1 : Nat),
    ve := (off + clen + cglen + 8 + e.w1.length + 1 + e.nt.length + e.w2.length + 1 + e.value.length : Nat),
    pc := if hasC then some (off, off + clen) else none }

theorem dtd_entity_plain (s : Array Nat) (off : Nat) (e : DEnt) (rest : List Nat) (hg : e.Good)
    (h : At s off (e.print ++ rest)) : dtdGetNext s off = dtdEntEntry off 0 0 e false := by
  have h0 : At s off (kwEntity ++ (e.w1 ++ (e.n0 :: (e.nt ++ (e.w2 ++ (e.q :: (e.value ++ (e.q :: (e.w3 ++ (62 :: rest)))))))))) := by
    simpa [At, DEnt.print] using h
  have hoff := dtd_noheader s off _ h0 (by rw [kwEntity_head]; simp)
  have hcm := dtd_comment_none_ent s off _ h0
  have hws := ws_none_at h0 (by intro c hc; rw [kwEntity_head] at hc; cases hc; decide)
  have hkm := dtd_key_at s off e rest hg h
  unfold dtdGetNext
  simp only [hoff]
  unfold getNext
  simp only [dtdCfg, hcm, hws, hkm]
  simp [dtdEntEntry, spanI, St.group, capOf, DTDParser_reKey_g_key, DTDParser_reKey_g_val]

theorem printDComment_head (us : List DUnit) (l : List Nat) : (printDComment us ++ l).head? = some 60 := rfl

theorem printDComment_length (us : List DUnit) : (printDComment us).length = (dcText us).length + 7 := by
  simp [printDComment]

theorem dtd_entity_commented (s : Array Nat) (off : Nat) (us : List DUnit) (cgap : List Nat) (e : DEnt) (rest : List Nat)
    (hus : ∀ u ∈ us, dcChar u.c = true) (hcg : ∀ c ∈ cgap, isWs c = true) (hnl : (cgap.filter (· == 10)).length ≤ 1)
    (hg : e.Good) (hlic : off < 2 → isInfix licenseWord (dcText us) = false)
    (h : At s off (printDComment us ++ (cgap ++ (e.print ++ rest)))) :
    dtdGetNext s off = dtdEntEntry off (printDComment us).length cgap.length e true := by
  have hoff := dtd_noheader s off _ h (by rw [printDComment_head]; simp)
  obtain ⟨st, hcm, hpos⟩ := dtd_comment_at s off us _ hus h
  have h2 := h.app
  have h3 := h2.app
  have hkw : ∀ c, (e.print ++ rest).head? = some c → isWs c = false := by
    intro c hc
    have : (e.print ++ rest).head? = some 60 := rfl
    rw [this] at hc; cases hc; decide
  have hl : (off < 2 && isInfix licenseWord (commentVal .dtd (slice s off (off + (printDComment us).length)))) = false := by
    rw [h.slice, dtd_comment_val]
    by_cases ho : off < 2
    · simp [hlic ho]
    · simp [ho]
  have hkm := dtd_key_at s _ e rest hg h3
  unfold dtdGetNext
  simp only [hoff]
  unfold getNext
  rcases ws_opt_at h2 hcg hkw with hws | ⟨hws, hws0⟩
  · have hcnt : ¬ (countNl s (off + (printDComment us).length) (off + (printDComment us).length + cgap.length) > 1) := by
      rw [countNl_at h2]; omega
    simp only [dtdCfg, hcm, hpos, hl, hws, hcnt, hkm]
    simp [dtdEntEntry, spanI, St.group, capOf, DTDParser_reKey_g_key, DTDParser_reKey_g_val]
  · rw [hws0, Nat.add_zero] at hkm
    simp only [dtdCfg, hcm, hpos, hl, hws, hkm]
    simp [dtdEntEntry, spanI, St.group, capOf, DTDParser_reKey_g_key, DTDParser_reKey_g_val, hws0]

/-- a comment followed by white-space with more than one newline: a stand-alone comment -/
theorem dtd_free_comment (s : Array Nat) (off : Nat) (us : List DUnit) (gap rest : List Nat)
    (hus : ∀ u ∈ us, dcChar u.c = true) (hw : ∀ c ∈ gap, isWs c = true) (hnl : 2 ≤ (gap.filter (· == 10)).length)
    (hfo : ∀ c, rest.head? = some c → isWs c = false) (h : At s off (printDComment us ++ (gap ++ rest))) :
    dtdGetNext s off = commentEntry off (off + (printDComment us).length) := by
  have hoff := dtd_noheader s off _ h (by rw [printDComment_head]; simp)
  obtain ⟨st, hcm, hpos⟩ := dtd_comment_at s off us _ hus h
  have hgne : gap ≠ [] := by intro hh; rw [hh] at hnl; simp at hnl
  have hws := ws_at h.app hgne hw hfo
  have hcnt : countNl s (off + (printDComment us).length) (off + (printDComment us).length + gap.length) > 1 := by
    rw [countNl_at h.app]; omega
  unfold dtdGetNext
  simp only [hoff]
  unfold getNext
  simp only [dtdCfg, hcm, hpos, hws]
  by_cases hl : (decide (off < 2) && isInfix licenseWord (commentVal .dtd (slice s off (off + (printDComment us).length)))) = true
  · simp [hl, commentEntry]
  · simp [hl, hcnt, commentEntry]

/-- a parameter entity -/
def dtdPEEntry (off : Nat) (d : DPE) : Entry :=
  { kind := .entity, full := off, s := off, e := off + d.print.length,
    ks := (d.nameStart off : Nat), ke := (d.nameStart off + 1 + d.nt.length : Nat),
    vs := (d.urlStart off : Nat), ve := (d.urlStart off + 1 + d.url.length + 1 : Nat) }

theorem dtd_pe_entry (s : Array Nat) (off : Nat) (d : DPE) (rest : List Nat) (hg : d.Good) (h : At s off (d.print ++ rest)) :
    dtdGetNext s off = dtdPEEntry off d := by
  have h0 : At s off (kwEntity ++ (d.w1 ++ (37 :: (d.w2 ++ (d.n0 :: (d.nt ++ (d.w3 ++ (kwSystem ++ (d.w4 ++ (d.q :: (d.url ++
      (d.q :: (d.w5 ++ (62 :: (d.w6 ++ (37 :: (d.m0 :: (d.mt ++ (59 :: (d.b ++ (10 :: rest))))))))))))))))))))) := by
    simpa [At, DPE.print] using h
  have hoff := dtd_noheader s off _ h0 (by rw [kwEntity_head]; simp)
  have hcm := dtd_comment_none_ent s off _ h0
  have hws := ws_none_at h0 (by intro c hc; rw [kwEntity_head] at hc; cases hc; decide)
  have hkm := dtd_key_none_pe s off d.w1 _ hg.w1 h0
  have hpe := dtd_pe_at s off d rest hg h
  have hbase : getNext dtdCfg s off = getJunk s off dtdCfg.junkExps := by
    unfold getNext
    simp only [dtdCfg, hcm, hws, hkm]
    simp
  unfold dtdGetNext
  simp only [hoff, hbase, hpe]
  simp [getJunk, dtdPEEntry, spanI, St.group, capOf, DTDParser_rePE_g_key, DTDParser_rePE_g_val]

/-! ### blocks -/

/-- a printed block of a DTD file -/
inductive DBlock
  /-- an entity declaration, optionally with ONE attached comment (and white-space with at most one newline behind it) -/
  | entity (cm : Option (List DUnit)) (cgap : List Nat) (e : DEnt) (gap : List Nat)
  /-- a comment followed by white-space with at least two newlines -/
  | free (us : List DUnit) (gap : List Nat)
  /-- a parameter entity with its reference -/
  | pe (d : DPE) (gap : List Nat)

def cmText : Option (List DUnit) → List Nat
  | none => []
  | some us => printDComment us

def wsOpt (p : Nat) (gap : List Nat) : List Entry := if gap.isEmpty then [] else [wsEntryN p gap.length]

def DBlock.print : DBlock → List Nat
  | .entity cm cgap e gap => cmText cm ++ (cgap ++ (e.print ++ gap))
  | .free us gap => printDComment us ++ gap
  | .pe d gap => d.print ++ gap

def DBlock.entries (off : Nat) : DBlock → List Entry
  | .entity cm cgap e gap =>
    dtdEntEntry off (cmText cm).length cgap.length e cm.isSome ::
      wsOpt (off + (cmText cm).length + cgap.length + e.print.length) gap
  | .free us gap => [commentEntry off (off + (printDComment us).length), wsEntryN (off + (printDComment us).length) gap.length]
  | .pe d gap => dtdPEEntry off d :: wsOpt (off + d.print.length) gap

def DBlock.Good' : DBlock → Prop
  | .entity cm cgap e gap =>
    (∀ us, cm = some us → ∀ u ∈ us, dcChar u.c = true) ∧ (cm = none → cgap = []) ∧ (∀ c ∈ cgap, isWs c = true) ∧
    (cgap.filter (· == 10)).length ≤ 1 ∧ e.Good ∧ ∀ c ∈ gap, isWs c = true
  | .free us gap => (∀ u ∈ us, dcChar u.c = true) ∧ (∀ c ∈ gap, isWs c = true) ∧ 2 ≤ (gap.filter (· == 10)).length
  | .pe d gap => d.Good ∧ ∀ c ∈ gap, isWs c = true

def DBlock.NoLicense (off : Nat) : DBlock → Prop
  | .entity (some us) _ _ _ => off < 2 → isInfix licenseWord (dcText us) = false
  | _ => True

/-- a garbage line may stand in front of the block: its start is recognised by `reKey` or `reComment` (a parameter entity is
    recognised by neither: junk in front of it would swallow it — see the negation witness) -/
def DBlock.JOk : DBlock → Prop
  | .pe _ _ => False
  | _ => True

def dtdVal (raw : List Nat) : Option (List Nat) := if raw.contains 38 then none else some raw

def DBlock.views : DBlock → List (Option EntView)
  | .entity cm _ e _ => [some { key := e.name, raw := e.value, val := dtdVal e.value, comment := cm.map dcText }]
  | .free _ _ => []
  | .pe d _ => [some { key := d.n0 :: d.nt, raw := d.q :: (d.url ++ [d.q]), val := dtdVal (d.q :: (d.url ++ [d.q])), comment := none }]

def DFollow (rest : List Nat) : Prop := ∀ c, rest.head? = some c → isWs c = false

abbrev dtdNext (s : Array Nat) : Unit → Nat → Entry × Unit := fun _ off => (dtdGetNext s off, ())

/-- an entry followed by an optional white-space entry -/
theorem walks_ent_ws {next : Unit → Nat → Entry × Unit} (s : Array Nat) (off gp : Nat) (e : Entry) (gap rest : List Nat)
    (h1 : next () off = (e, ())) (he : e.e = gp) (hlt : off < gp) (hat : At s gp (gap ++ rest)) (hsz : off < s.size)
    (hws : gap ≠ [] → next () gp = (wsEntryN gp gap.length, ())) :
    Walks next s.size () off (e :: wsOpt gp gap) () (gp + gap.length) := by
  have w1 : Walks next s.size () off [e] () e.e := Walks.one hsz (by omega) h1
  by_cases hg : gap = []
  · subst hg
    simpa [wsOpt, he] using w1
  · have hemp := isEmpty_false_of_ne hg
    have hpos : 0 < gap.length := List.length_pos_iff.mpr hg
    have w2 : Walks next s.size () gp [wsEntryN gp gap.length] () (gp + gap.length) :=
      Walks.one (hat.pos_lt (by simp [hg])) (by simp [wsEntryN]; omega) (hws hg)
    rw [he] at w1
    simpa [wsOpt, hemp] using w1.append w2

theorem dblock_head (b : DBlock) (hg : b.Good') (l : List Nat) : (b.print ++ l).head? = some 60 := by
  cases b with
  | entity cm cgap e gap =>
    cases cm with
    | none => rw [show cgap = [] from hg.2.1 rfl]; rfl
    | some us => rfl
  | free us gap => rfl
  | pe d gap => rfl

theorem dfollow_block (b : DBlock) (hg : b.Good') (l : List Nat) : DFollow (b.print ++ l) := by
  intro c hc; rw [dblock_head b hg l] at hc; cases hc; decide

theorem cmText_length_some (us : List DUnit) : (cmText (some us)).length = (printDComment us).length := rfl

theorem dtd_walks_block (s : Array Nat) (off : Nat) (b : DBlock) (rest : List Nat) (hg : b.Good') (hl : b.NoLicense off)
    (hfo : DFollow rest) (h : At s off (b.print ++ rest)) :
    Walks (dtdNext s) s.size () off (b.entries off) () (off + b.print.length) := by
  cases b with
  | entity cm cgap e gap =>
    obtain ⟨hus, hcg0, hcg, hnl, he, hgap⟩ := hg
    have h1 : At s off (cmText cm ++ (cgap ++ (e.print ++ (gap ++ rest)))) := by simpa [At, DBlock.print] using h
    have h4 : At s (off + (cmText cm).length + cgap.length + e.print.length) (gap ++ rest) := h1.app.app.app
    have hpl := e.print_length
    have e1 : dtdGetNext s off = dtdEntEntry off (cmText cm).length cgap.length e cm.isSome := by
      cases cm with
      | none =>
        have hcg' := hcg0 rfl
        subst hcg'
        have := dtd_entity_plain s off e (gap ++ rest) he (by simpa [At, cmText] using h1)
        simpa [cmText] using this
      | some us =>
        exact dtd_entity_commented s off us cgap e (gap ++ rest) (hus us rfl) hcg hnl he hl h1
    have hw := walks_ent_ws (next := dtdNext s) s off (off + (cmText cm).length + cgap.length + e.print.length)
      (dtdEntEntry off (cmText cm).length cgap.length e cm.isSome) gap rest (by simp [dtdNext, e1]) rfl
      (by omega) h4 (h1.pos_lt (by
        intro hh; have := congrArg List.length hh; simp only [List.length_append, List.length_nil] at this; omega))
      (fun hne => by
        have := dtd_ws_at_n s _ gap rest hne hgap hfo h4
        simp [dtdNext, this])
    simp only [DBlock.entries, DBlock.print, List.length_append]
    simpa [Nat.add_assoc] using hw
  | free us gap =>
    obtain ⟨g1, g2, g3⟩ := hg
    have h' : At s off (printDComment us ++ (gap ++ rest)) := by simpa [At, DBlock.print] using h
    have hgne : gap ≠ [] := by intro hh; rw [hh] at g3; simp at g3
    have hcl := printDComment_length us
    have e1 := dtd_free_comment s off us gap rest g1 g2 g3 hfo h'
    have hw := walks_ent_ws (next := dtdNext s) s off (off + (printDComment us).length)
      (commentEntry off (off + (printDComment us).length)) gap rest (by simp [dtdNext, e1]) rfl (by omega) h'.app
      (h'.pos_lt (by simp [printDComment]))
      (fun hne => by
        have := dtd_ws_at_n s _ gap rest hne g2 hfo h'.app
        simp [dtdNext, this])
    simpa [DBlock.entries, DBlock.print, wsOpt, isEmpty_false_of_ne hgne, Nat.add_assoc] using hw
  | pe d gap =>
    obtain ⟨hd, hgap⟩ := hg
    have h1 : At s off (d.print ++ (gap ++ rest)) := by simpa [At, DBlock.print] using h
    have hpl := d.print_length
    have e1 := dtd_pe_entry s off d (gap ++ rest) hd h1
    have hw := walks_ent_ws (next := dtdNext s) s off (off + d.print.length) (dtdPEEntry off d) gap rest
      (by simp [dtdNext, e1]) rfl (by omega) h1.app (h1.pos_lt (by
        intro hh; have := congrArg List.length hh; simp only [List.length_append, List.length_nil] at this; omega))
      (fun hne => by
        have := dtd_ws_at_n s _ gap rest hne hgap hfo h1.app
        simp [dtdNext, this])
    simp only [DBlock.entries, DBlock.print, List.length_append]
    simpa [Nat.add_assoc] using hw

/-! ### views -/

theorem wsOpt_views (f : Fmt) (s : Array Nat) (p : Nat) (gap : List Nat) :
    entitiesOf f s (wsOpt p gap) = [] ∧ junkOf s (wsOpt p gap) = [] := by
  unfold wsOpt
  split
  · exact ⟨rfl, rfl⟩
  · exact ⟨by rw [entitiesOf_cons_other _ _ _ _ (by simp [wsEntryN])]; rfl,
      by rw [junkOf_cons_other _ _ _ (by simp [wsEntryN])]; rfl⟩

theorem dtd_views_block (s : Array Nat) (off : Nat) (b : DBlock) (rest : List Nat) (hg : b.Good')
    (h : At s off (b.print ++ rest)) :
    entitiesOf .dtd s (b.entries off) = b.views ∧ junkOf s (b.entries off) = [] := by
  cases b with
  | entity cm cgap e gap =>
    obtain ⟨hus, hcg0, hcg, hnl, he, hgap⟩ := hg
    have h1 : At s off (cmText cm ++ (cgap ++ (e.print ++ (gap ++ rest)))) := by simpa [At, DBlock.print] using h
    have h3 := h1.app.app
    have h0 : At s (off + (cmText cm).length + cgap.length)
        (kwEntity ++ (e.w1 ++ (e.name ++ (e.w2 ++ (e.q :: (e.value ++ (e.q :: (e.w3 ++ (62 :: (gap ++ rest)))))))))) := by
      simpa [At, DEnt.print, DEnt.name] using h3
    have hn : At s (off + (cmText cm).length + cgap.length + 8 + e.w1.length)
        (e.name ++ (e.w2 ++ (e.q :: (e.value ++ (e.q :: (e.w3 ++ (62 :: (gap ++ rest)))))))) := h0.app.app
    have hv : At s (off + (cmText cm).length + cgap.length + 8 + e.w1.length + 1 + e.nt.length + e.w2.length + 1)
        (e.value ++ (e.q :: (e.w3 ++ (62 :: (gap ++ rest))))) :=
      hn.app.app.tail.cast (by simp [DEnt.name]; omega)
    have hsz := hv.size_ge (by simp)
    simp only [List.length_append] at hsz
    have e1 : slice s (off + (cmText cm).length + cgap.length + 8 + e.w1.length)
        (off + (cmText cm).length + cgap.length + 8 + e.w1.length + 1 + e.nt.length) = e.name := by
      rw [show off + (cmText cm).length + cgap.length + 8 + e.w1.length + 1 + e.nt.length =
        off + (cmText cm).length + cgap.length + 8 + e.w1.length + e.name.length by simp [DEnt.name]; omega]
      exact hn.slice
    have e2 := hv.slice
    have hcs : slice s off (off + (cmText cm).length) = cmText cm := h1.slice
    have p1 := pySlice_nat s (off + (cmText cm).length + cgap.length + 8 + e.w1.length)
      (off + (cmText cm).length + cgap.length + 8 + e.w1.length + 1 + e.nt.length) (by omega) (by omega)
    have p2 := pySlice_nat s (off + (cmText cm).length + cgap.length + 8 + e.w1.length + 1 + e.nt.length + e.w2.length + 1)
      (off + (cmText cm).length + cgap.length + 8 + e.w1.length + 1 + e.nt.length + e.w2.length + 1 + e.value.length)
      (by omega) (by omega)
    have hview : entView .dtd s (dtdEntEntry off (cmText cm).length cgap.length e cm.isSome) =
        some { key := e.name, raw := e.value, val := dtdVal e.value, comment := cm.map dcText } := by
      simp only [entView, dtdEntEntry, p1, p2, e1, e2]
      cases cm with
      | none => simp [dtdVal]
      | some us =>
        have : commentVal .dtd (slice s off (off + (printDComment us).length)) = dcText us := by
          have := hcs; simp only [cmText] at this; rw [this, dtd_comment_val]
        simp [dtdVal, commentStyleOf, cmText, this]
    obtain ⟨w1, w2⟩ := wsOpt_views .dtd s (off + (cmText cm).length + cgap.length + e.print.length) gap
    constructor
    · simp only [DBlock.entries, DBlock.views]
      rw [entitiesOf_cons_entity _ _ _ _ (by simp [dtdEntEntry]), hview, w1]
    · simp only [DBlock.entries]
      rw [junkOf_cons_other _ _ _ (by simp [dtdEntEntry]), w2]
  | free us gap =>
    constructor
    · simp only [DBlock.entries, DBlock.views]
      rw [entitiesOf_cons_other _ _ _ _ (by simp [commentEntry]), entitiesOf_cons_other _ _ _ _ (by simp [wsEntryN])]; rfl
    · simp only [DBlock.entries]
      rw [junkOf_cons_other _ _ _ (by simp [commentEntry]), junkOf_cons_other _ _ _ (by simp [wsEntryN])]; rfl
  | pe d gap =>
    obtain ⟨hd, hgap⟩ := hg
    have h1 : At s off (d.print ++ (gap ++ rest)) := by simpa [At, DBlock.print] using h
    have hpe : d.print ++ (gap ++ rest) = d.pre1 ++ ((d.n0 :: d.nt) ++ (d.mid ++ ((d.q :: (d.url ++ [d.q])) ++ (d.post ++ (gap ++ rest))))) := by
      simp [DPE.print, DPE.pre1, DPE.mid, DPE.post]
    rw [hpe] at h1
    have hn : At s (d.nameStart off) ((d.n0 :: d.nt) ++ (d.mid ++ ((d.q :: (d.url ++ [d.q])) ++ (d.post ++ (gap ++ rest))))) :=
      h1.app.cast (by simp [DPE.pre1, DPE.nameStart, kwEntity]; omega)
    have hu : At s (d.urlStart off) ((d.q :: (d.url ++ [d.q])) ++ (d.post ++ (gap ++ rest))) :=
      hn.app.app.cast (by simp [DPE.mid, DPE.urlStart, kwSystem]; omega)
    have hsz := hu.size_ge (by simp)
    simp only [List.length_append, List.length_cons, List.length_nil] at hsz
    have e1 : slice s (d.nameStart off) (d.nameStart off + 1 + d.nt.length) = d.n0 :: d.nt := by
      rw [show d.nameStart off + 1 + d.nt.length = d.nameStart off + (d.n0 :: d.nt).length by simp; omega]
      exact hn.slice
    have e2 : slice s (d.urlStart off) (d.urlStart off + 1 + d.url.length + 1) = d.q :: (d.url ++ [d.q]) := by
      rw [show d.urlStart off + 1 + d.url.length + 1 = d.urlStart off + (d.q :: (d.url ++ [d.q])).length by simp; omega]
      exact hu.slice
    have hns : d.nameStart off + 1 + d.nt.length ≤ d.urlStart off := by simp [DPE.urlStart]; omega
    have p1 := pySlice_nat s (d.nameStart off) (d.nameStart off + 1 + d.nt.length) (by omega) (by omega)
    have p2 := pySlice_nat s (d.urlStart off) (d.urlStart off + 1 + d.url.length + 1) (by omega) (by omega)
    have hview : entView .dtd s (dtdPEEntry off d) =
        some { key := d.n0 :: d.nt, raw := d.q :: (d.url ++ [d.q]), val := dtdVal (d.q :: (d.url ++ [d.q])), comment := none } := by
      simp only [entView, dtdPEEntry, p1, p2, e1, e2]
      simp [dtdVal]
    obtain ⟨w1, w2⟩ := wsOpt_views .dtd s (off + d.print.length) gap
    constructor
    · simp only [DBlock.entries, DBlock.views]
      rw [entitiesOf_cons_entity _ _ _ _ (by simp [dtdPEEntry]), hview, w1]
    · simp only [DBlock.entries]
      rw [junkOf_cons_other _ _ _ (by simp [dtdPEEntry]), w2]

/-! ### garbage -/

/-- inert garbage and the white-space after it: non-empty, no `<` (neither `reKey` nor `reComment` nor `rePE` can start
    inside), not starting with white-space or a byte-order mark; non-empty white-space follows -/
structure DGarbage (g gap : List Nat) : Prop where
  ne : g ≠ []
  chars : ∀ c ∈ g, c ≠ 60
  head : ∀ c, g.head? = some c → isWs c = false ∧ c ≠ 65279
  gap_ne : gap ≠ []
  gap : ∀ c ∈ gap, isWs c = true

theorem dtd_pe_none_head (s : Array Nat) (p : Nat) (l : List Nat) (h : At s p l) (hl : l.head? ≠ some 60) :
    matchAt s DTDParser_rePE p = none := by
  rw [dtd_rePE_shape]
  simp only [matchAt, kwEntity, seqLits, m_seq]
  exact lit_at_fail h hl [] _

theorem dtd_start_match (s : Array Nat) (e : Nat) (b : DBlock) (rest : List Nat) (hg : b.Good') (hj : b.JOk)
    (h : At s e (b.print ++ rest)) : ∃ r ∈ dtdCfg.junkExps, (matchAt s r e).isSome := by
  cases b with
  | entity cm cgap en gap =>
    obtain ⟨hus, hcg0, hcg, hnl, he, hgap⟩ := hg
    have h1 : At s e (cmText cm ++ (cgap ++ (en.print ++ (gap ++ rest)))) := by simpa [At, DBlock.print] using h
    cases cm with
    | none =>
      have hcg' := hcg0 rfl
      subst hcg'
      have h3 : At s e (en.print ++ (gap ++ rest)) := by simpa [At, cmText] using h1
      exact ⟨DTDParser_reKey, by simp [dtdCfg], by rw [dtd_key_at s e en _ he h3]; rfl⟩
    | some us =>
      obtain ⟨st, hst, _⟩ := dtd_comment_at s e us _ (hus us rfl) h1
      exact ⟨DTDParser_reComment, by simp [dtdCfg], by rw [hst]; rfl⟩
  | free us gap =>
    have h' : At s e (printDComment us ++ (gap ++ rest)) := by simpa [At, DBlock.print] using h
    obtain ⟨st, hst, _⟩ := dtd_comment_at s e us _ hg.1 h'
    exact ⟨DTDParser_reComment, by simp [dtdCfg], by rw [hst]; rfl⟩
  | pe d gap => exact absurd hj (by simp [DBlock.JOk])

theorem dtd_junk_at (s : Array Nat) (p : Nat) (g gap rest : List Nat) (hg : DGarbage g gap)
    (hnext : rest = [] ∨ ∃ r ∈ dtdCfg.junkExps, (matchAt s r (p + g.length + gap.length)).isSome)
    (h : At s p (g ++ (gap ++ rest))) : dtdGetNext s p = junkEntry p (p + g.length + gap.length) := by
  have hgl : 0 < g.length := List.length_pos_iff.mpr hg.ne
  have hgapl : 0 < gap.length := List.length_pos_iff.mpr hg.gap_ne
  have hsz := h.size_ge (by simp [hg.ne])
  simp only [List.length_append] at hsz
  have hhead : ∀ q, p ≤ q → q < p + g.length + gap.length → ∃ l, At s q l ∧ l.head? ≠ some 60 := by
    intro q h1 h2
    by_cases hq : q < p + g.length
    · have hat := h.drop_at (q - p) (by omega)
      rw [show p + (q - p) = q by omega] at hat
      cases hd : g.drop (q - p) with
      | nil => have := congrArg List.length hd; simp at this; omega
      | cons a t =>
        have hm : a ∈ g := List.mem_of_mem_drop (by rw [hd]; simp)
        exact ⟨_, hat, by rw [hd]; simp [hg.chars a hm]⟩
    · have hat := h.app.drop_at (q - (p + g.length)) (by omega)
      rw [show p + g.length + (q - (p + g.length)) = q by omega] at hat
      cases hd : gap.drop (q - (p + g.length)) with
      | nil => have := congrArg List.length hd; simp at this; omega
      | cons a t =>
        have hm : a ∈ gap := List.mem_of_mem_drop (by rw [hd]; simp)
        have hw := hg.gap a hm
        exact ⟨_, hat, by rw [hd]; simp; intro ha; subst ha; exact absurd hw (by decide)⟩
  obtain ⟨l0, hat0, hh0⟩ := hhead p (Nat.le_refl _) (by omega)
  obtain ⟨c0, hc0, hws0, hbom0⟩ : ∃ c, (g ++ (gap ++ rest)).head? = some c ∧ isWs c = false ∧ c ≠ 65279 := by
    cases hgg : g with
    | nil => exact absurd hgg hg.ne
    | cons a t => exact ⟨a, rfl, hg.head a (by rw [hgg]; rfl)⟩
  have hoff := dtd_noheader s p _ h (by rw [hc0]; simp [hbom0])
  have hcm := dtd_comment_none_head s p l0 hat0 hh0
  have hws := ws_none_at h (by intro c hc; rw [hc0] at hc; cases hc; exact hws0)
  have hkm := dtd_key_none_head s p l0 hat0 hh0
  have hpe := dtd_pe_none_head s p l0 hat0 hh0
  have hj := getJunk_at s p (p + g.length + gap.length) dtdCfg.junkExps (by omega)
    (by
      intro r hr q h1 h2
      obtain ⟨l, hat, hh⟩ := hhead q (by omega) h2
      simp only [dtdCfg, List.mem_cons, List.not_mem_nil, or_false] at hr
      rcases hr with rfl | rfl
      · exact dtd_key_none_head s q l hat hh
      · exact dtd_comment_none_head s q l hat hh)
    (by
      rcases hnext with rfl | hm
      · right
        have he : p + g.length + gap.length = s.size := by
          have := h.le (by simp [hg.ne]); simp at this; omega
        have hend : At s (p + g.length + gap.length) [] := by simpa using h.app.app
        refine ⟨he, ?_⟩
        intro r hr
        simp only [dtdCfg, List.mem_cons, List.not_mem_nil, or_false] at hr
        rcases hr with rfl | rfl
        · exact dtd_key_none_head s _ [] hend (by simp)
        · exact dtd_comment_none_head s _ [] hend (by simp)
      · exact Or.inl hm)
    (by omega)
  have hbase : getNext dtdCfg s p = junkEntry p (p + g.length + gap.length) := by
    unfold getNext
    simp only [dtdCfg, hcm, hws, hkm] at hj ⊢
    simpa using hj
  unfold dtdGetNext
  simp only [hoff, hbase, hpe]
  simp [junkEntry]

/-! ### the format package -/

def dtdSpec : GSpec Unit DBlock where
  f := .dtd
  next := fun s _ off => (dtdGetNext s off, ())
  c0 := ()
  pr := DBlock.print
  en := fun off _ b => b.entries off
  tr := fun c _ => c
  vw := DBlock.views
  Good' := fun _ b => b.Good'
  Lic := fun off b => b.NoLicense off
  Garb := fun _ g gap => DGarbage g gap
  JOk := DBlock.JOk
  Follow := DFollow
  Inv := fun _ _ => True

theorem DBlock.print_len2 (b : DBlock) : 2 ≤ b.print.length := by
  cases b with
  | entity cm cgap e gap => have := e.print_length; simp only [DBlock.print, List.length_append]; omega
  | free us gap => have := printDComment_length us; simp only [DBlock.print, List.length_append]; omega
  | pe d gap => have := d.print_length; simp only [DBlock.print, List.length_append]; omega

theorem DBlock.lic2 (off : Nat) (b : DBlock) (h : 2 ≤ off) : b.NoLicense off := by
  cases b with
  | entity cm cgap e gap =>
    cases cm with
    | none => trivial
    | some us => intro hlt; omega
  | free us gap => trivial
  | pe d gap => trivial

theorem dtdSpec_laws : dtdSpec.Laws where
  walk_def := fun _ => rfl
  inv0 := fun _ => trivial
  follow_nil := by intro c hc; cases hc
  block_walk := fun s b _ off rest hg hl h hfo _ => ⟨dtd_walks_block s off b rest hg hl hfo h, trivial⟩
  block_follow := fun _ b rest hg => dfollow_block b hg rest
  block_views := fun s b _ off rest hg h _ => dtd_views_block s off b rest hg h
  junk_at := by
    intro s _ p g gap rest hg h _ hnext
    refine ⟨?_, trivial⟩
    have : dtdGetNext s p = junkEntry p (p + g.length + gap.length) := by
      apply dtd_junk_at s p g gap rest hg _ h
      rcases hnext with rfl | ⟨b, rest', rfl, hb, hjo, _⟩
      · exact Or.inl rfl
      · exact Or.inr (dtd_start_match s _ b rest' hb hjo h.app.app)
    show (dtdGetNext s p, ()) = _
    rw [this]
  garb_follow := by
    intro _ g gap rest hg c hc
    cases hgg : g with
    | nil => exact absurd hgg hg.ne
    | cons a t => rw [hgg] at hc; simp at hc; subst hc; exact (hg.head a (by rw [hgg]; rfl)).1
  garb_pos := fun _ g gap hg => List.length_pos_iff.mpr hg.ne
  lic_after_garb := by
    intro _ g gap off b hg
    have h1 : 0 < g.length := List.length_pos_iff.mpr hg.ne
    have h2 : 0 < gap.length := List.length_pos_iff.mpr hg.gap_ne
    exact b.lic2 _ (by omega)

/-- a byte-order mark at the start of the text is skipped: the first entry is the one found at offset 1 -/
theorem dtd_bom (s : Array Nat) (h : s[0]? = some 65279) : dtdGetNext s 0 = dtdGetNext s 1 := by
  have hm : (matchAt s DTDParser_reHeader 0).isSome = true := by
    simp only [matchAt, DTDParser_reHeader, m_seq, m_bol]
    simp only [beq_self_eq_true, Bool.true_or, if_true]
    rw [lit_ok s 0 65279 [] h]
    rfl
  unfold dtdGetNext
  simp [hm]

theorem Walks.shift_start {σ : Type} {next : σ → Nat → Entry × σ} {size : Nat} {c c' : σ} {off' : Nat} {es : List Entry}
    (h : Walks next size c 1 es c' off') (hne : es ≠ []) (h01 : next c 0 = next c 1) : Walks next size c 0 es c' off' := by
  cases h with
  | nil => exact absurd rfl hne
  | cons a b d r => exact .cons (by omega) (by omega) (h01.trans d) r

/-- DTD: the whole-file theorem with garbage lines; `bom` = the file starts with a byte-order mark -/
theorem walk_dtd_doc (bom : Bool) (xs : List (GB DBlock)) (tail : Option (List Nat × List Nat))
    (hg : ∀ x ∈ xs, x.b.Good' ∧ ∀ g gap, x.junk = some (g, gap) → DGarbage g gap ∧ x.b.JOk)
    (htail : ∀ g gap, tail = some (g, gap) → DGarbage g gap)
    (hlic : ∀ x, xs.head? = some x → x.junk = none → x.b.NoLicense (if bom then 1 else 0))
    (hne : bom = true → xs ≠ []) :
    walk .dtd ((if bom then [65279] else []) ++ dtdSpec.gprint xs tail).toArray =
        .done (dtdSpec.gentriesAt (if bom then 1 else 0) xs tail) ∧
      entitiesOf .dtd ((if bom then [65279] else []) ++ dtdSpec.gprint xs tail).toArray
        (dtdSpec.gentriesAt (if bom then 1 else 0) xs tail) = dtdSpec.gviews xs ∧
      junkOf ((if bom then [65279] else []) ++ dtdSpec.gprint xs tail).toArray
        (dtdSpec.gentriesAt (if bom then 1 else 0) xs tail) = gbJunk xs tail := by
  have hall : ∀ o, (∀ x, xs.head? = some x → x.junk = none → x.b.NoLicense o) →
      GoodAll dtdSpec.gpr dtdSpec.gtr dtdSpec.GGood o () xs :=
    fun o hl => gGoodAll dtdSpec (fun _ b _ => b.print_len2) (fun off b h => b.lic2 off h) xs (fun x hx _ => hg x hx) o () hl
  cases bom with
  | false =>
    simp only [Bool.false_eq_true, if_false, List.nil_append] at hlic ⊢
    exact gdoc dtdSpec dtdSpec_laws xs tail (hall 0 hlic) htail
  | true =>
    simp only [if_true] at hlic ⊢
    have := gdoc_from dtdSpec dtdSpec_laws [65279] xs tail _ rfl trivial (hall 1 hlic) htail
    simp only [List.length_cons, List.length_nil, Nat.zero_add] at this
    obtain ⟨⟨c', hw⟩, hv1, hv2⟩ := this
    refine ⟨?_, hv1, hv2⟩
    have hes : dtdSpec.gentriesAt 1 xs tail ≠ [] := by
      cases hxs : xs with
      | nil => exact absurd hxs (hne rfl)
      | cons x xs' =>
        simp only [GSpec.gentriesAt, blockEntries, GSpec.gen]
        cases hj : x.junk with
        | none =>
          cases hb : x.b with
          | entity cm cgap e gap => simp [dtdSpec, DBlock.entries]
          | free us gap => simp [dtdSpec, DBlock.entries]
          | pe d gap => simp [dtdSpec, DBlock.entries]
        | some gg => simp
    have h0 : (([65279] ++ dtdSpec.gprint xs tail).toArray)[0]? = some 65279 := by simp
    have hw0 := hw.shift_start hes (by
      show (dtdGetNext _ 0, ()) = (dtdGetNext _ 1, ())
      rw [dtd_bom _ h0])
    show walkFrom (fun (_ : Unit) off => (dtdGetNext _ off, ())) _ _ () 0 = _
    exact hw0.done (Nat.le_refl _) _ (by have := hw.len_le'; omega)

end C02P

/-
C03 round 5 — a job's report does not depend on the history of the process.

`Same a b`: two `ObserverList`s with the same configuration (filters of the project observers and of the list's own
observer) — what `ContentComparer()` + `observers.append(Observer(filter=…))` fixes — whatever they have accumulated.
`Sim a a' b b'`: some event block leads from `a` to `a'` AND from `b` to `b'`, and the configurations still agree.

Every function of Compare/Session.lean and of the comparison loop of Compare/Pipeline.lean is shown to be a simulation:
run from two `Same` lists it returns the same values (verdicts, stats, missings, skips, merge outcome) through the same
events.  Hence `runJob_sim`, and for the process machine `Sess.Proc` the theorem `C03.job_result_history_free`.
-/
import CLModel.Proofs.C03Sess
namespace C03H
open ObsM Sess C03S

/-- same configuration -/
def Same (a b : ObsList) : Prop := a.filters = b.filters ∧ a.own.filter = b.own.filter

theorem Same.refl (a : ObsList) : Same a a := ⟨rfl, rfl⟩

theorem Same.symm {a b : ObsList} (h : Same a b) : Same b a := ⟨h.1.symm, h.2.symm⟩

theorem Same.trans {a b c : ObsList} (h1 : Same a b) (h2 : Same b c) : Same a c := ⟨h1.1.trans h2.1, h1.2.trans h2.2⟩

/-- one event leaves the configuration alone -/
theorem step_same {l l' : ObsList} {ev : Ev} (h : l.step ev = .ok l') : Same l l' := by
  obtain ⟨s1, s2⟩ := list_step_spec h
  refine ⟨?_, ?_⟩
  · unfold ObsList.filters
    exact All₂.map_eq (·.filter) (·.filter) (fun a b hab => ((Obs.step_core hab).2.1).symm) s2
  · cases hi : ignList l.filters ev
    · rw [hi] at s1
      simp only [Bool.false_eq_true, ↓reduceIte] at s1
      exact ((Obs.step_core s1).2.1).symm
    · rw [hi] at s1
      simp only [↓reduceIte] at s1
      rw [s1]

/-- a history leaves the configuration alone -/
theorem tr_same : ∀ (evs : List Ev) {l l' : ObsList}, Tr l l' evs → Same l l'
  | [], l, l', h => by
    simp only [Tr, ObsList.run, pure, Except.pure, Except.ok.injEq] at h
    subst h; exact Same.refl _
  | ev :: rest, l, l', h => by
    simp only [Tr, ObsList.run, bind, Except.bind] at h
    cases hs : l.step ev with
    | error e => rw [hs] at h; cases h
    | ok l1 =>
      rw [hs] at h
      exact (step_same hs).trans (tr_same rest h)

/-- the same events from both lists, and the configurations agree afterwards -/
def Sim (a a' b b' : ObsList) : Prop := Same a' b' ∧ ∃ evs, Tr a a' evs ∧ Tr b b' evs

theorem Sim.refl {a b : ObsList} (h : Same a b) : Sim a a b b := ⟨h, [], Tr.refl _, Tr.refl _⟩

theorem Sim.trans {a a' a'' b b' b'' : ObsList} (h1 : Sim a a' b b') (h2 : Sim a' a'' b' b'') : Sim a a'' b b'' := by
  obtain ⟨_, e1, t1, u1⟩ := h1
  obtain ⟨s2, e2, t2, u2⟩ := h2
  exact ⟨s2, e1 ++ e2, t1.trans t2, u1.trans u2⟩

theorem Sim.same {a a' b b' : ObsList} (h : Sim a a' b b') : Same a' b' := h.1

/-- `notify` returns what the filters say -/
theorem tell_rv {l l' : ObsList} {c : Cat} {f : File} {d : Data} {rv : Ret} (h : tell l c f d = .ok (l', rv)) :
    rv = listRet (l.filters.map (fun flt => rvOf flt c f d)) := by
  have := (list_notify_spec (tell_tr h).2).1
  rw [this]
  simp [ObsList.filters, List.map_map, Function.comp_def]

/-- the basic step: one notification through two lists of the same configuration -/
theorem tell_sim {a b a' b' : ObsList} {c : Cat} {f : File} {d : Data} {r1 r2 : Ret} (hab : Same a b)
    (h1 : tell a c f d = .ok (a', r1)) (h2 : tell b c f d = .ok (b', r2)) : r1 = r2 ∧ Sim a a' b b' := by
  refine ⟨?_, ?_, [.notify c f d], (tell_tr h1).1, (tell_tr h2).1⟩
  · rw [tell_rv h1, tell_rv h2, hab.1]
  · exact ((tr_same _ (tell_tr h1).1).symm.trans hab).trans (tr_same _ (tell_tr h2).1)

theorem push_sim {a b : ObsList} (hab : Same a b) (f : File) (st : List (StatKey × Nat)) :
    Sim a (a.updateStats f st) b (b.updateStats f st) := by
  refine ⟨?_, [.stats f st], push_tr a f st, push_tr b f st⟩
  exact ((tr_same _ (push_tr a f st)).symm.trans hab).trans (tr_same _ (push_tr b f st))

/-! ### the comparison on entity lists -/

theorem checkLoop_sim (file : File) : ∀ (cs : List (Bool × Text)) {a b a' b' : ObsList}, Same a b →
    checkLoop file cs a = .ok a' → checkLoop file cs b = .ok b' → Sim a a' b b'
  | [], a, b, a', b', hab, h1, h2 => by
    simp only [checkLoop, Except.ok.injEq] at h1 h2
    subst h1; subst h2
    exact Sim.refl hab
  | (isErr, t) :: rest, a, b, a', b', hab, h1, h2 => by
    simp only [checkLoop] at h1 h2
    cases ht1 : tell a (if isErr then Cat.error else Cat.warning) file (Data.str t) with
    | error e => rw [ht1] at h1; cases h1
    | ok r1 =>
      cases ht2 : tell b (if isErr then Cat.error else Cat.warning) file (Data.str t) with
      | error e => rw [ht2] at h2; cases h2
      | ok r2 =>
        obtain ⟨a1, rv1⟩ := r1
        obtain ⟨b1, rv2⟩ := r2
        rw [ht1] at h1
        rw [ht2] at h2
        simp only at h1 h2
        obtain ⟨_, s⟩ := tell_sim hab ht1 ht2
        exact s.trans (checkLoop_sim file rest s.same h1 h2)

theorem notifyDups_sim (file : File) (cat : Cat) : ∀ (ds : List (Cmp.Key × Nat)) {a b a' b' : ObsList}, Same a b →
    notifyDups file cat ds a = .ok a' → notifyDups file cat ds b = .ok b' → Sim a a' b b'
  | [], a, b, a', b', hab, h1, h2 => by
    simp only [notifyDups, Except.ok.injEq] at h1 h2
    subst h1; subst h2
    exact Sim.refl hab
  | (k, n) :: rest, a, b, a', b', hab, h1, h2 => by
    simp only [notifyDups] at h1 h2
    cases ht1 : tell a cat file (Data.str (Pipe.dupMsg k n)) with
    | error e => rw [ht1] at h1; cases h1
    | ok r1 =>
      cases ht2 : tell b cat file (Data.str (Pipe.dupMsg k n)) with
      | error e => rw [ht2] at h2; cases h2
      | ok r2 =>
        obtain ⟨a1, rv1⟩ := r1
        obtain ⟨b1, rv2⟩ := r2
        rw [ht1] at h1
        rw [ht2] at h2
        simp only at h1 h2
        obtain ⟨_, s⟩ := tell_sim hab ht1 ht2
        exact s.trans (notifyDups_sim file cat rest s.same h1 h2)

theorem stepEnt_sim (file : File) (j : EntJob) (p : AR.Label × Cmp.Key) {a b a' b' : ObsList} {s s1 s2 : Cmp.Stats}
    (hab : Same a b) (h1 : stepEnt file j (a, s) p = .ok (a', s1)) (h2 : stepEnt file j (b, s) p = .ok (b', s2)) :
    s1 = s2 ∧ Sim a a' b b' := by
  obtain ⟨lab, k⟩ := p
  cases lab with
  | delete =>
    simp only [stepEnt] at h1 h2
    cases hr : lookup j.ref k with
    | error e => rw [hr] at h1; cases h1
    | ok refent =>
      rw [hr] at h1 h2
      simp only at h1 h2
      by_cases hj : refent.junk = true
      · simp only [hj, ↓reduceIte] at h1 h2
        cases ht1 : tell a Cat.warning file (Data.str Gen.Tables.cmpRefJunkMsg) with
        | error e => rw [ht1] at h1; cases h1
        | ok r1 =>
          cases ht2 : tell b Cat.warning file (Data.str Gen.Tables.cmpRefJunkMsg) with
          | error e => rw [ht2] at h2; cases h2
          | ok r2 =>
            obtain ⟨a1, rv1⟩ := r1
            obtain ⟨b1, rv2⟩ := r2
            rw [ht1] at h1
            rw [ht2] at h2
            simp only [Except.ok.injEq, Prod.mk.injEq] at h1 h2
            obtain ⟨rfl, rfl⟩ := h1
            obtain ⟨rfl, rfl⟩ := h2
            exact ⟨rfl, (tell_sim hab ht1 ht2).2⟩
      · simp only [hj, Bool.false_eq_true, ↓reduceIte] at h1 h2
        cases ht1 : tell a Cat.missingEntity file (Pipe.keyData k) with
        | error e => rw [ht1] at h1; cases h1
        | ok r1 =>
          cases ht2 : tell b Cat.missingEntity file (Pipe.keyData k) with
          | error e => rw [ht2] at h2; cases h2
          | ok r2 =>
            obtain ⟨a1, rv1⟩ := r1
            obtain ⟨b1, rv2⟩ := r2
            rw [ht1] at h1
            rw [ht2] at h2
            obtain ⟨hrv, hs⟩ := tell_sim hab ht1 ht2
            subst hrv
            cases rv1 <;> simp only [Except.ok.injEq, Prod.mk.injEq] at h1 h2 <;>
              (obtain ⟨rfl, rfl⟩ := h1; obtain ⟨rfl, rfl⟩ := h2; exact ⟨rfl, hs⟩)
  | add =>
    simp only [stepEnt] at h1 h2
    cases hr : lookup j.l10n k with
    | error e => rw [hr] at h1; cases h1
    | ok l10nent =>
      rw [hr] at h1 h2
      simp only at h1 h2
      by_cases hj : l10nent.junk = true
      · simp only [hj, ↓reduceIte] at h1 h2
        cases hm : j.msgs[l10nent.msg]? with
        | none => rw [hm] at h1; cases h1
        | some msg =>
          rw [hm] at h1 h2
          simp only at h1 h2
          cases ht1 : tell a Cat.error file (Data.str msg) with
          | error e => rw [ht1] at h1; cases h1
          | ok r1 =>
            cases ht2 : tell b Cat.error file (Data.str msg) with
            | error e => rw [ht2] at h2; cases h2
            | ok r2 =>
              obtain ⟨a1, rv1⟩ := r1
              obtain ⟨b1, rv2⟩ := r2
              rw [ht1] at h1
              rw [ht2] at h2
              simp only [Except.ok.injEq, Prod.mk.injEq] at h1 h2
              obtain ⟨rfl, rfl⟩ := h1
              obtain ⟨rfl, rfl⟩ := h2
              exact ⟨rfl, (tell_sim hab ht1 ht2).2⟩
      · simp only [hj, Bool.false_eq_true, ↓reduceIte] at h1 h2
        cases ht1 : tell a Cat.obsoleteEntity file (Pipe.keyData k) with
        | error e => rw [ht1] at h1; cases h1
        | ok r1 =>
          cases ht2 : tell b Cat.obsoleteEntity file (Pipe.keyData k) with
          | error e => rw [ht2] at h2; cases h2
          | ok r2 =>
            obtain ⟨a1, rv1⟩ := r1
            obtain ⟨b1, rv2⟩ := r2
            rw [ht1] at h1
            rw [ht2] at h2
            obtain ⟨hrv, hs⟩ := tell_sim hab ht1 ht2
            subst hrv
            simp only at h1 h2
            by_cases hi : (rv1 != Ret.ignore) = true
            · simp only [hi, ↓reduceIte, Except.ok.injEq, Prod.mk.injEq] at h1 h2
              obtain ⟨rfl, rfl⟩ := h1
              obtain ⟨rfl, rfl⟩ := h2
              exact ⟨rfl, hs⟩
            · simp only [hi, Bool.false_eq_true, ↓reduceIte, Except.ok.injEq, Prod.mk.injEq] at h1 h2
              obtain ⟨rfl, rfl⟩ := h1
              obtain ⟨rfl, rfl⟩ := h2
              exact ⟨rfl, hs⟩
  | equal =>
    simp only [stepEnt] at h1 h2
    cases hr : lookup j.ref k with
    | error e => rw [hr] at h1; cases h1
    | ok refent =>
      cases hl : lookup j.l10n k with
      | error e => rw [hr, hl] at h1; cases h1
      | ok l10nent =>
        rw [hr, hl] at h1 h2
        simp only at h1 h2
        split at h1
        · cases h1
        · rename_i st' hst
          rw [hst] at h2
          simp only at h2
          cases hc1 : checkLoop file (checksOf j k) a with
          | error e => rw [hc1] at h1; cases h1
          | ok a1 =>
            cases hc2 : checkLoop file (checksOf j k) b with
            | error e => rw [hc2] at h2; cases h2
            | ok b1 =>
              rw [hc1] at h1
              rw [hc2] at h2
              simp only [Except.ok.injEq, Prod.mk.injEq] at h1 h2
              obtain ⟨rfl, rfl⟩ := h1
              obtain ⟨rfl, rfl⟩ := h2
              exact ⟨rfl, checkLoop_sim file _ hab hc1 hc2⟩

theorem foldE_sim (file : File) (j : EntJob) : ∀ (ar : List (AR.Label × Cmp.Key)) {a b : ObsList} {s : Cmp.Stats}
    {st1 st2 : ObsList × Cmp.Stats}, Same a b →
    Pipe.foldE (stepEnt file j) ar (a, s) = .ok st1 → Pipe.foldE (stepEnt file j) ar (b, s) = .ok st2 →
    st1.2 = st2.2 ∧ Sim a st1.1 b st2.1
  | [], a, b, s, st1, st2, hab, h1, h2 => by
    simp only [Pipe.foldE, Except.ok.injEq] at h1 h2
    subst h1; subst h2
    exact ⟨rfl, Sim.refl hab⟩
  | p :: rest, a, b, s, st1, st2, hab, h1, h2 => by
    simp only [Pipe.foldE] at h1 h2
    cases hs1 : stepEnt file j (a, s) p with
    | error e => rw [hs1] at h1; cases h1
    | ok r1 =>
      cases hs2 : stepEnt file j (b, s) p with
      | error e => rw [hs2] at h2; cases h2
      | ok r2 =>
        obtain ⟨a1, s1⟩ := r1
        obtain ⟨b1, s2⟩ := r2
        rw [hs1] at h1
        rw [hs2] at h2
        simp only at h1 h2
        obtain ⟨hss, hsim⟩ := stepEnt_sim file j p hab hs1 hs2
        subst hss
        obtain ⟨e, hs⟩ := foldE_sim file j rest hsim.same h1 h2
        exact ⟨e, hsim.trans hs⟩

theorem compareEnts_sim (file : File) (j : EntJob) {a b a' b' : ObsList} (hab : Same a b)
    (h1 : compareEnts file j a = .ok a') (h2 : compareEnts file j b = .ok b') : Sim a a' b b' := by
  simp only [compareEnts] at h1 h2
  cases d1 : notifyDups file .warning (Hist.findDuplicates (j.ref.map (·.key))) a with
  | error e => rw [d1] at h1; cases h1
  | ok a1 =>
    cases d2 : notifyDups file .warning (Hist.findDuplicates (j.ref.map (·.key))) b with
    | error e => rw [d2] at h2; cases h2
    | ok b1 =>
      rw [d1] at h1
      rw [d2] at h2
      simp only at h1 h2
      have s1 := notifyDups_sim file _ _ hab d1 d2
      cases e1 : notifyDups file .error (Hist.findDuplicates (j.l10n.map (·.key))) a1 with
      | error e => rw [e1] at h1; cases h1
      | ok a2 =>
        cases e2 : notifyDups file .error (Hist.findDuplicates (j.l10n.map (·.key))) b1 with
        | error e => rw [e2] at h2; cases h2
        | ok b2 =>
          rw [e1] at h1
          rw [e2] at h2
          simp only at h1 h2
          have s2 := notifyDups_sim file _ _ s1.same e1 e2
          cases f1 : Pipe.foldE (stepEnt file j) (AR.addRemove (j.ref.map (·.key)) (j.l10n.map (·.key))) (a2, {}) with
          | error e => rw [f1] at h1; cases h1
          | ok st1 =>
            cases f2 : Pipe.foldE (stepEnt file j) (AR.addRemove (j.ref.map (·.key)) (j.l10n.map (·.key))) (b2, {}) with
            | error e => rw [f2] at h2; cases h2
            | ok st2 =>
              rw [f1] at h1
              rw [f2] at h2
              simp only [Except.ok.injEq] at h1 h2
              subst h1; subst h2
              obtain ⟨hst, s3⟩ := foldE_sim file j _ s2.same f1 f2
              rw [hst]
              exact ((s1.trans s2).trans s3).trans (push_sim s3.same _ _)

/-! ### the comparison on texts (Compare/Pipeline.lean) -/

theorem pipe_checkLoop_sim (env : Pipe.Env) (refent l10nent : Pipe.PEnt) : ∀ (cs : List Pipe.CheckRes) {a b : ObsList}
    {sk : List Pipe.PEnt} {r1 r2 : ObsList × List Pipe.PEnt}, Same a b →
    Pipe.checkLoop env refent l10nent cs (a, sk) = .ok r1 → Pipe.checkLoop env refent l10nent cs (b, sk) = .ok r2 →
    r1.2 = r2.2 ∧ Sim a r1.1 b r2.1
  | [], a, b, sk, r1, r2, hab, h1, h2 => by
    simp only [Pipe.checkLoop, Except.ok.injEq] at h1 h2
    subst h1; subst h2
    exact ⟨rfl, Sim.refl hab⟩
  | c :: cs, a, b, sk, r1, r2, hab, h1, h2 => by
    simp only [Pipe.checkLoop] at h1 h2
    cases hp : Pipe.resolvePos env.l10nText env.cls l10nent c.pos with
    | none => rw [hp] at h1; cases h1
    | some lc =>
      obtain ⟨line, col⟩ := lc
      rw [hp] at h1 h2
      simp only [pipe_notify_eq] at h1 h2
      cases ht1 : tell a (Pipe.sevCat c.sev) env.file (Data.str (Pipe.checkMsg c.msg line col refent.key)) with
      | error e => rw [ht1] at h1; cases h1
      | ok q1 =>
        cases ht2 : tell b (Pipe.sevCat c.sev) env.file (Data.str (Pipe.checkMsg c.msg line col refent.key)) with
        | error e => rw [ht2] at h2; cases h2
        | ok q2 =>
          obtain ⟨a1, rv1⟩ := q1
          obtain ⟨b1, rv2⟩ := q2
          rw [ht1] at h1
          rw [ht2] at h2
          simp only at h1 h2
          obtain ⟨_, s⟩ := tell_sim hab ht1 ht2
          obtain ⟨e, s'⟩ := pipe_checkLoop_sim env refent l10nent cs s.same h1 h2
          exact ⟨e, s.trans s'⟩

theorem pipe_notifyDups_sim (env : Pipe.Env) (cat : Cat) : ∀ (ds : List (Cmp.Key × Nat)) {a b a' b' : ObsList}, Same a b →
    Pipe.notifyDups env cat ds a = .ok a' → Pipe.notifyDups env cat ds b = .ok b' → Sim a a' b b'
  | [], a, b, a', b', hab, h1, h2 => by
    simp only [Pipe.notifyDups, Except.ok.injEq] at h1 h2
    subst h1; subst h2
    exact Sim.refl hab
  | (k, n) :: rest, a, b, a', b', hab, h1, h2 => by
    simp only [Pipe.notifyDups, pipe_notify_eq] at h1 h2
    cases ht1 : tell a cat env.file (Data.str (Pipe.dupMsg k n)) with
    | error e => rw [ht1] at h1; cases h1
    | ok r1 =>
      cases ht2 : tell b cat env.file (Data.str (Pipe.dupMsg k n)) with
      | error e => rw [ht2] at h2; cases h2
      | ok r2 =>
        obtain ⟨a1, rv1⟩ := r1
        obtain ⟨b1, rv2⟩ := r2
        rw [ht1] at h1
        rw [ht2] at h2
        simp only at h1 h2
        obtain ⟨_, s⟩ := tell_sim hab ht1 ht2
        exact s.trans (pipe_notifyDups_sim env cat rest s.same h1 h2)

/-- one iteration of the loop from two states that differ in the observers only: they still differ in the observers only -/
theorem pipe_step_sim (env : Pipe.Env) (ref l10n : List Pipe.PEnt) (p : AR.Label × Cmp.Key) {st st1 st2 : Pipe.LoopSt} {b : ObsList}
    (hab : Same st.obs b) (h1 : Pipe.step env ref l10n st p = .ok st1)
    (h2 : Pipe.step env ref l10n { st with obs := b } p = .ok st2) :
    st2 = { st1 with obs := st2.obs } ∧ Sim st.obs st1.obs b st2.obs := by
  obtain ⟨lab, k⟩ := p
  cases lab with
  | delete =>
    simp only [Pipe.step, pipe_notify_eq] at h1 h2
    cases hr : Pipe.lookup ref k with
    | error e => rw [hr] at h1; cases h1
    | ok refent =>
      rw [hr] at h1 h2
      simp only at h1 h2
      by_cases hj : refent.junk = true
      · simp only [hj, ↓reduceIte] at h1 h2
        cases ht1 : tell st.obs Cat.warning env.file (Data.str Gen.Tables.cmpRefJunkMsg) with
        | error e => rw [ht1] at h1; cases h1
        | ok r1 =>
          cases ht2 : tell b Cat.warning env.file (Data.str Gen.Tables.cmpRefJunkMsg) with
          | error e => rw [ht2] at h2; cases h2
          | ok r2 =>
            obtain ⟨a1, rv1⟩ := r1
            obtain ⟨b1, rv2⟩ := r2
            rw [ht1] at h1
            rw [ht2] at h2
            simp only [Except.ok.injEq] at h1 h2
            subst h1; subst h2
            exact ⟨rfl, (tell_sim hab ht1 ht2).2⟩
      · simp only [hj, Bool.false_eq_true, ↓reduceIte] at h1 h2
        cases ht1 : tell st.obs Cat.missingEntity env.file (Pipe.keyData k) with
        | error e => rw [ht1] at h1; cases h1
        | ok r1 =>
          cases ht2 : tell b Cat.missingEntity env.file (Pipe.keyData k) with
          | error e => rw [ht2] at h2; cases h2
          | ok r2 =>
            obtain ⟨a1, rv1⟩ := r1
            obtain ⟨b1, rv2⟩ := r2
            rw [ht1] at h1
            rw [ht2] at h2
            obtain ⟨hrv, hs⟩ := tell_sim hab ht1 ht2
            subst hrv
            cases rv1 <;> simp only [Except.ok.injEq] at h1 h2 <;> (subst h1; subst h2; exact ⟨rfl, hs⟩)
  | add =>
    simp only [Pipe.step, pipe_notify_eq] at h1 h2
    cases hr : Pipe.lookup l10n k with
    | error e => rw [hr] at h1; cases h1
    | ok l10nent =>
      rw [hr] at h1 h2
      simp only at h1 h2
      by_cases hj : l10nent.junk = true
      · simp only [hj, ↓reduceIte] at h1 h2
        cases hm : Pipe.junkMessage env.l10nText env.cls l10nent with
        | error e => rw [hm] at h1; cases h1
        | ok msg =>
          rw [hm] at h1 h2
          simp only at h1 h2
          cases ht1 : tell st.obs Cat.error env.file (Data.str msg) with
          | error e => rw [ht1] at h1; cases h1
          | ok r1 =>
            cases ht2 : tell b Cat.error env.file (Data.str msg) with
            | error e => rw [ht2] at h2; cases h2
            | ok r2 =>
              obtain ⟨a1, rv1⟩ := r1
              obtain ⟨b1, rv2⟩ := r2
              rw [ht1] at h1
              rw [ht2] at h2
              simp only [Except.ok.injEq] at h1 h2
              subst h1; subst h2
              exact ⟨rfl, (tell_sim hab ht1 ht2).2⟩
      · simp only [hj, Bool.false_eq_true, ↓reduceIte] at h1 h2
        cases ht1 : tell st.obs Cat.obsoleteEntity env.file (Pipe.keyData k) with
        | error e => rw [ht1] at h1; cases h1
        | ok r1 =>
          cases ht2 : tell b Cat.obsoleteEntity env.file (Pipe.keyData k) with
          | error e => rw [ht2] at h2; cases h2
          | ok r2 =>
            obtain ⟨a1, rv1⟩ := r1
            obtain ⟨b1, rv2⟩ := r2
            rw [ht1] at h1
            rw [ht2] at h2
            obtain ⟨hrv, hs⟩ := tell_sim hab ht1 ht2
            subst hrv
            simp only at h1 h2
            by_cases hi : (rv1 != Ret.ignore) = true
            · simp only [hi, ↓reduceIte, Except.ok.injEq] at h1 h2
              subst h1; subst h2
              exact ⟨rfl, hs⟩
            · simp only [hi, Bool.false_eq_true, ↓reduceIte, Except.ok.injEq] at h1 h2
              subst h1; subst h2
              exact ⟨rfl, hs⟩
  | equal =>
    simp only [Pipe.step] at h1 h2
    cases hr : Pipe.lookup ref k with
    | error e => rw [hr] at h1; cases h1
    | ok refent =>
      cases hl : Pipe.lookup l10n k with
      | error e => rw [hr, hl] at h1; cases h1
      | ok l10nent =>
        rw [hr, hl] at h1 h2
        simp only at h1 h2
        split at h1
        · cases h1
        · rename_i stats' hst
          rw [hst] at h2
          simp only at h2
          cases hck : Pipe.runChecker env.ck refent l10nent with
          | error e => rw [hck] at h1; cases h1
          | ok results =>
            rw [hck] at h1 h2
            simp only at h1 h2
            cases hc1 : Pipe.checkLoop env refent l10nent results (st.obs, st.skips) with
            | error e => rw [hc1] at h1; cases h1
            | ok q1 =>
              cases hc2 : Pipe.checkLoop env refent l10nent results (b, st.skips) with
              | error e => rw [hc2] at h2; cases h2
              | ok q2 =>
                rw [hc1] at h1
                rw [hc2] at h2
                simp only [Except.ok.injEq] at h1 h2
                subst h1; subst h2
                obtain ⟨e, hs⟩ := pipe_checkLoop_sim env refent l10nent results hab hc1 hc2
                exact ⟨by simp [e], hs⟩

theorem pipe_foldE_sim (env : Pipe.Env) (ref l10n : List Pipe.PEnt) : ∀ (ar : List (AR.Label × Cmp.Key))
    {st st1 st2 : Pipe.LoopSt} {b : ObsList}, Same st.obs b →
    Pipe.foldE (Pipe.step env ref l10n) ar st = .ok st1 →
    Pipe.foldE (Pipe.step env ref l10n) ar { st with obs := b } = .ok st2 →
    st2 = { st1 with obs := st2.obs } ∧ Sim st.obs st1.obs b st2.obs
  | [], st, st1, st2, b, hab, h1, h2 => by
    simp only [Pipe.foldE, Except.ok.injEq] at h1 h2
    subst h1; subst h2
    exact ⟨rfl, Sim.refl hab⟩
  | p :: rest, st, st1, st2, b, hab, h1, h2 => by
    simp only [Pipe.foldE] at h1 h2
    cases hs1 : Pipe.step env ref l10n st p with
    | error e => rw [hs1] at h1; cases h1
    | ok m1 =>
      cases hs2 : Pipe.step env ref l10n { st with obs := b } p with
      | error e => rw [hs2] at h2; cases h2
      | ok m2 =>
        rw [hs1] at h1
        rw [hs2] at h2
        simp only at h1 h2
        obtain ⟨hm, hsim⟩ := pipe_step_sim env ref l10n p hab hs1 hs2
        rw [hm] at h2
        obtain ⟨e, hs⟩ := pipe_foldE_sim env ref l10n rest hsim.same h1 h2
        exact ⟨e, hsim.trans hs⟩

theorem pipe_compareParsed_sim (env : Pipe.Env) (ref l10n : List Pipe.PEnt) {a b a' b' : ObsList} {o1 o2 : Merge.Outcome}
    (hab : Same a b) (h1 : Pipe.compareParsed env ref l10n a = .ok (a', o1))
    (h2 : Pipe.compareParsed env ref l10n b = .ok (b', o2)) : o1 = o2 ∧ Sim a a' b b' := by
  simp only [Pipe.compareParsed] at h1 h2
  cases d1 : Pipe.notifyDups env .warning (Hist.findDuplicates (ref.map (·.key))) a with
  | error e => rw [d1] at h1; cases h1
  | ok a1 =>
    cases d2 : Pipe.notifyDups env .warning (Hist.findDuplicates (ref.map (·.key))) b with
    | error e => rw [d2] at h2; cases h2
    | ok b1 =>
      rw [d1] at h1
      rw [d2] at h2
      simp only at h1 h2
      have s1 := pipe_notifyDups_sim env _ _ hab d1 d2
      cases e1 : Pipe.notifyDups env .error (Hist.findDuplicates (l10n.map (·.key))) a1 with
      | error e => rw [e1] at h1; cases h1
      | ok a2 =>
        cases e2 : Pipe.notifyDups env .error (Hist.findDuplicates (l10n.map (·.key))) b1 with
        | error e => rw [e2] at h2; cases h2
        | ok b2 =>
          rw [e1] at h1
          rw [e2] at h2
          simp only at h1 h2
          have s2 := pipe_notifyDups_sim env _ _ s1.same e1 e2
          cases f1 : Pipe.foldE (Pipe.step env ref l10n) (AR.addRemove (ref.map (·.key)) (l10n.map (·.key))) { obs := a2 } with
          | error e => rw [f1] at h1; cases h1
          | ok st1 =>
            cases f2 : Pipe.foldE (Pipe.step env ref l10n) (AR.addRemove (ref.map (·.key)) (l10n.map (·.key))) { obs := b2 } with
            | error e => rw [f2] at h2; cases h2
            | ok st2 =>
              rw [f1] at h1
              rw [f2] at h2
              simp only at h1 h2
              obtain ⟨hst, s3⟩ := pipe_foldE_sim env ref l10n _ (st := { obs := a2 }) (b := b2) s2.same f1 f2
              rw [hst] at h2
              simp only at h2
              cases m1 : Pipe.doMerge env ref st1.missings st1.skips with
              | error e => rw [m1] at h1; cases h1
              | ok outcome =>
                rw [m1] at h1 h2
                simp only [Except.ok.injEq, Prod.mk.injEq] at h1 h2
                obtain ⟨rfl, rfl⟩ := h1
                obtain ⟨rfl, rfl⟩ := h2
                exact ⟨rfl, ((s1.trans s2).trans s3).trans (push_sim s3.same _ _)⟩

/-! ### jobs -/

theorem runCompare_sim (ext : Pipe.Ext) (ref l10n : File) (m : Bool) (body : CmpBody) {a b a' b' : ObsList}
    {o1 o2 : Merge.Outcome} (hab : Same a b) (h1 : runCompare ext a ref l10n m body = .ok (a', o1))
    (h2 : runCompare ext b ref l10n m body = .ok (b', o2)) : o1 = o2 ∧ Sim a a' b b' := by
  cases body with
  | noParser =>
    simp only [runCompare, Except.ok.injEq, Prod.mk.injEq] at h1 h2
    obtain ⟨rfl, rfl⟩ := h1
    obtain ⟨rfl, rfl⟩ := h2
    exact ⟨rfl, Sim.refl hab⟩
  | refReadError msg =>
    simp only [runCompare] at h1 h2
    cases ht1 : tell a Cat.error ref (Data.str msg) with
    | error e => rw [ht1] at h1; cases h1
    | ok r1 =>
      cases ht2 : tell b Cat.error ref (Data.str msg) with
      | error e => rw [ht2] at h2; cases h2
      | ok r2 =>
        obtain ⟨a1, rv1⟩ := r1
        obtain ⟨b1, rv2⟩ := r2
        rw [ht1] at h1
        rw [ht2] at h2
        simp only [Except.ok.injEq, Prod.mk.injEq] at h1 h2
        obtain ⟨rfl, rfl⟩ := h1
        obtain ⟨rfl, rfl⟩ := h2
        exact ⟨rfl, (tell_sim hab ht1 ht2).2⟩
  | l10nReadError msg =>
    simp only [runCompare] at h1 h2
    cases ht1 : tell a Cat.error l10n (Data.str msg) with
    | error e => rw [ht1] at h1; cases h1
    | ok r1 =>
      cases ht2 : tell b Cat.error l10n (Data.str msg) with
      | error e => rw [ht2] at h2; cases h2
      | ok r2 =>
        obtain ⟨a1, rv1⟩ := r1
        obtain ⟨b1, rv2⟩ := r2
        rw [ht1] at h1
        rw [ht2] at h2
        simp only [Except.ok.injEq, Prod.mk.injEq] at h1 h2
        obtain ⟨rfl, rfl⟩ := h1
        obtain ⟨rfl, rfl⟩ := h2
        exact ⟨rfl, (tell_sim hab ht1 ht2).2⟩
  | ents j =>
    simp only [runCompare] at h1 h2
    by_cases hm : m = true
    · simp only [hm, ↓reduceIte] at h1
      cases h1
    · simp only [hm, Bool.false_eq_true, ↓reduceIte] at h1 h2
      cases hc1 : compareEnts l10n j a with
      | error e => rw [hc1] at h1; cases h1
      | ok a1 =>
        cases hc2 : compareEnts l10n j b with
        | error e => rw [hc2] at h2; cases h2
        | ok b1 =>
          rw [hc1] at h1
          rw [hc2] at h2
          simp only [Except.ok.injEq, Prod.mk.injEq] at h1 h2
          obtain ⟨rfl, rfl⟩ := h1
          obtain ⟨rfl, rfl⟩ := h2
          exact ⟨rfl, compareEnts_sim l10n j hab hc1 hc2⟩
  | text fmt refText l10nText =>
    simp only [runCompare] at h1 h2
    cases hk : Pipe.plainFmt fmt with
    | false => rw [hk] at h1; cases h1
    | true =>
      rw [hk] at h1 h2
      simp only at h1 h2
      cases hp1 : Pipe.parseFile ext fmt refText 0 with
      | error e => rw [hp1] at h1; cases h1
      | ok q1 =>
        obtain ⟨r, n1⟩ := q1
        rw [hp1] at h1 h2
        simp only at h1 h2
        cases hp2 : Pipe.parseFile ext fmt l10nText n1 with
        | error e => rw [hp2] at h1; cases h1
        | ok q2 =>
          obtain ⟨lo, n2⟩ := q2
          rw [hp2] at h1 h2
          simp only at h1 h2
          exact pipe_compareParsed_sim _ r lo hab h1 h2

theorem pushMissing_sim {a b : ObsList} (hab : Same a b) (f : File) (n w : Nat) :
    Sim a (pushMissing a f n w) b (pushMissing b f n w) :=
  (push_sim hab f _).trans (push_sim (push_sim hab f _).same f _)

theorem runAdd_sim (ext : Pipe.Ext) (orig missing : File) (m : Bool) (body : AddBody) {a b a' b' : ObsList}
    {o1 o2 : Merge.Outcome} (hab : Same a b) (h1 : runAdd ext a orig missing m body = .ok (a', o1))
    (h2 : runAdd ext b orig missing m body = .ok (b', o2)) : o1 = o2 ∧ Sim a a' b b' := by
  simp only [runAdd] at h1 h2
  cases ht1 : tell a Cat.missingFile missing Data.none with
  | error e => rw [ht1] at h1; cases h1
  | ok r1 =>
    cases ht2 : tell b Cat.missingFile missing Data.none with
    | error e => rw [ht2] at h2; cases h2
    | ok r2 =>
      obtain ⟨a1, rv1⟩ := r1
      obtain ⟨b1, rv2⟩ := r2
      rw [ht1] at h1
      rw [ht2] at h2
      simp only at h1 h2
      obtain ⟨hrv, s1⟩ := tell_sim hab ht1 ht2
      subst hrv
      by_cases hi : (rv1 == Ret.ignore) = true
      · simp only [hi, ↓reduceIte, Except.ok.injEq, Prod.mk.injEq] at h1 h2
        obtain ⟨rfl, rfl⟩ := h1
        obtain ⟨rfl, rfl⟩ := h2
        exact ⟨rfl, s1⟩
      · simp only [hi, Bool.false_eq_true, ↓reduceIte] at h1 h2
        cases body with
        | noParser =>
          simp only [Except.ok.injEq, Prod.mk.injEq] at h1 h2
          obtain ⟨rfl, rfl⟩ := h1
          obtain ⟨rfl, rfl⟩ := h2
          exact ⟨rfl, s1⟩
        | readError caps msg =>
          simp only at h1 h2
          cases hu1 : tell a1 Cat.error orig (Data.str msg) with
          | error e => rw [hu1] at h1; cases h1
          | ok q1 =>
            cases hu2 : tell b1 Cat.error orig (Data.str msg) with
            | error e => rw [hu2] at h2; cases h2
            | ok q2 =>
              obtain ⟨a2, rw1⟩ := q1
              obtain ⟨b2, rw2⟩ := q2
              rw [hu1] at h1
              rw [hu2] at h2
              simp only [Except.ok.injEq, Prod.mk.injEq] at h1 h2
              obtain ⟨rfl, rfl⟩ := h1
              obtain ⟨rfl, rfl⟩ := h2
              exact ⟨rfl, s1.trans (tell_sim s1.same hu1 hu2).2⟩
        | ents caps ref =>
          simp only [Except.ok.injEq, Prod.mk.injEq] at h1 h2
          obtain ⟨rfl, rfl⟩ := h1
          obtain ⟨rfl, rfl⟩ := h2
          exact ⟨rfl, s1.trans (pushMissing_sim s1.same _ _ _)⟩
        | text fmt refText =>
          simp only at h1 h2
          cases hp : Pipe.parseFile ext fmt refText 0 with
          | error e => rw [hp] at h1; cases h1
          | ok q =>
            obtain ⟨ents, n2⟩ := q
            rw [hp] at h1 h2
            simp only [Except.ok.injEq, Prod.mk.injEq] at h1 h2
            obtain ⟨rfl, rfl⟩ := h1
            obtain ⟨rfl, rfl⟩ := h2
            exact ⟨rfl, s1.trans (pushMissing_sim s1.same _ _ _)⟩

theorem runRemove_sim (l10n : File) (m : Bool) {a b a' b' : ObsList} {o1 o2 : Merge.Outcome} (hab : Same a b)
    (h1 : runRemove a l10n m = .ok (a', o1)) (h2 : runRemove b l10n m = .ok (b', o2)) : o1 = o2 ∧ Sim a a' b b' := by
  simp only [runRemove] at h1 h2
  cases ht1 : tell a Cat.obsoleteFile l10n Data.none with
  | error e => rw [ht1] at h1; cases h1
  | ok r1 =>
    cases ht2 : tell b Cat.obsoleteFile l10n Data.none with
    | error e => rw [ht2] at h2; cases h2
    | ok r2 =>
      obtain ⟨a1, rv1⟩ := r1
      obtain ⟨b1, rv2⟩ := r2
      rw [ht1] at h1
      rw [ht2] at h2
      simp only [Except.ok.injEq, Prod.mk.injEq] at h1 h2
      obtain ⟨rfl, rfl⟩ := h1
      obtain ⟨rfl, rfl⟩ := h2
      exact ⟨rfl, (tell_sim hab ht1 ht2).2⟩

/-- ONE job from two comparers of the same configuration, whatever either has accumulated: the same merge outcome, the same
    block of notifications (category, file, data, in order) and stats pushes -/
theorem runJob_sim (ext : Pipe.Ext) (j : Job) {a b a' b' : ObsList} {o1 o2 : Merge.Outcome} (hab : Same a b)
    (h1 : runJob ext a j = .ok (a', o1)) (h2 : runJob ext b j = .ok (b', o2)) : o1 = o2 ∧ Sim a a' b b' := by
  cases j with
  | compare ref l10n m body => exact runCompare_sim ext ref l10n m body hab h1 h2
  | add orig missing m body => exact runAdd_sim ext orig missing m body hab h1 h2
  | remove ref l10n m => exact runRemove_sim l10n m hab h1 h2

/-- a job leaves the configuration of its comparer alone -/
theorem runJob_same (ext : Pipe.Ext) (j : Job) {l l' : ObsList} {o : Merge.Outcome} (h : runJob ext l j = .ok (l', o)) :
    Same l l' := by
  obtain ⟨evs, t, _⟩ := runJob_tr ext l l' j o h
  exact tr_same evs t

/-! ### the process -/

/-- comparer number `c` has the same configuration in both process states (or exists in neither) -/
def SameAt (c : Nat) (p q : Proc) : Prop :=
  match p.comparers[c]?, q.comparers[c]? with
  | some a, some b => Same a b
  | none, none => True
  | _, _ => False

theorem SameAt.refl (c : Nat) (p : Proc) : SameAt c p p := by
  unfold SameAt
  cases p.comparers[c]? with
  | none => trivial
  | some a => exact Same.refl a

theorem SameAt.trans {c : Nat} {p q r : Proc} (h1 : SameAt c p q) (h2 : SameAt c q r) : SameAt c p r := by
  unfold SameAt at *
  cases hp : p.comparers[c]? <;> cases hq : q.comparers[c]? <;> cases hr : r.comparers[c]? <;>
    simp only [hp, hq, hr] at h1 h2 ⊢ <;> first | trivial | exact h1.trans h2 | cases h1 | cases h2

/-- a call changes nothing but the observers of its own comparer, and of those not the configuration; the memo is handed on -/
theorem step_frame (ext : Pipe.Ext) {p p' : Proc} {c : Nat} {j : Job} {o : Merge.Outcome} (h : Proc.step ext p c j = .ok (p', o)) :
    p'.memo = p.memo ∧ (∀ d, SameAt d p p') ∧ (∀ d, d ≠ c → p'.comparers[d]? = p.comparers[d]?) := by
  simp only [Proc.step] at h
  cases hc : p.comparers[c]? with
  | none => rw [hc] at h; cases h
  | some l =>
    rw [hc] at h
    simp only at h
    cases hj : runJob ext l j with
    | error e => rw [hj] at h; cases h
    | ok r =>
      obtain ⟨l', o'⟩ := r
      rw [hj] at h
      simp only [Except.ok.injEq, Prod.mk.injEq] at h
      obtain ⟨rfl, rfl⟩ := h
      refine ⟨rfl, ?_, ?_⟩
      · intro d
        unfold SameAt
        by_cases hd : d = c
        · subst hd
          have hlt : d < p.comparers.length := by
            rcases Nat.lt_or_ge d p.comparers.length with h | h
            · exact h
            · rw [List.getElem?_eq_none h] at hc; cases hc
          simp only [hc, List.getElem?_set_self hlt]
          exact runJob_same ext j hj
        · simp only [List.getElem?_set_ne (Ne.symm hd)]
          cases p.comparers[d]? with
          | none => trivial
          | some a => exact Same.refl a
      · intro d hd
        simp only [List.getElem?_set_ne (Ne.symm hd)]

/-- ANY history of calls — of any formats, on any comparers — leaves every comparer's configuration alone and hands the
    (empty) memo on -/
theorem run_frame (ext : Pipe.Ext) : ∀ (hist : List (Nat × Job)) {p q : Proc} {outs : List Merge.Outcome},
    Proc.run ext p hist = .ok (q, outs) → q.memo = p.memo ∧ ∀ d, SameAt d p q
  | [], p, q, outs, h => by
    simp only [Proc.run, Except.ok.injEq, Prod.mk.injEq] at h
    obtain ⟨rfl, _⟩ := h
    exact ⟨rfl, fun d => SameAt.refl d p⟩
  | (c, j) :: rest, p, q, outs, h => by
    simp only [Proc.run] at h
    cases hs : Proc.step ext p c j with
    | error e => rw [hs] at h; cases h
    | ok r =>
      obtain ⟨p1, o⟩ := r
      rw [hs] at h
      simp only at h
      cases hr : Proc.run ext p1 rest with
      | error e => rw [hr] at h; cases h
      | ok r2 =>
        obtain ⟨p2, os⟩ := r2
        rw [hr] at h
        simp only [Except.ok.injEq, Prod.mk.injEq] at h
        obtain ⟨rfl, _⟩ := h
        obtain ⟨m1, f1, _⟩ := step_frame ext hs
        obtain ⟨m2, f2⟩ := run_frame ext rest hr
        exact ⟨m2.trans m1, fun d => (f1 d).trans (f2 d)⟩

/-- the same call in two process states in which its comparer has the same configuration -/
theorem step_sim (ext : Pipe.Ext) {p q p' q' : Proc} {c : Nat} {j : Job} {o o' : Merge.Outcome} (hpq : SameAt c p q)
    (h0 : Proc.step ext p c j = .ok (p', o)) (h1 : Proc.step ext q c j = .ok (q', o')) :
    o' = o ∧ ∃ l0 l0' l1 l1', p.comparers[c]? = some l0 ∧ p'.comparers[c]? = some l0' ∧ q.comparers[c]? = some l1 ∧
      q'.comparers[c]? = some l1' ∧ runJob ext l0 j = .ok (l0', o) ∧ runJob ext l1 j = .ok (l1', o') ∧ Sim l0 l0' l1 l1' := by
  simp only [Proc.step] at h0 h1
  cases hc0 : p.comparers[c]? with
  | none => rw [hc0] at h0; cases h0
  | some l0 =>
    cases hc1 : q.comparers[c]? with
    | none => rw [hc1] at h1; cases h1
    | some l1 =>
      rw [hc0] at h0
      rw [hc1] at h1
      simp only at h0 h1
      cases hj0 : runJob ext l0 j with
      | error e => rw [hj0] at h0; cases h0
      | ok r0 =>
        cases hj1 : runJob ext l1 j with
        | error e => rw [hj1] at h1; cases h1
        | ok r1 =>
          obtain ⟨l0', o0⟩ := r0
          obtain ⟨l1', o1⟩ := r1
          rw [hj0] at h0
          rw [hj1] at h1
          simp only [Except.ok.injEq, Prod.mk.injEq] at h0 h1
          obtain ⟨rfl, rfl⟩ := h0
          obtain ⟨rfl, rfl⟩ := h1
          have hab : Same l0 l1 := by
            unfold SameAt at hpq
            simpa [hc0, hc1] using hpq
          obtain ⟨ho, hs⟩ := runJob_sim ext j hab hj0 hj1
          have hlt0 : c < p.comparers.length := by
            rcases Nat.lt_or_ge c p.comparers.length with h | h
            · exact h
            · rw [List.getElem?_eq_none h] at hc0; cases hc0
          have hlt1 : c < q.comparers.length := by
            rcases Nat.lt_or_ge c q.comparers.length with h | h
            · exact h
            · rw [List.getElem?_eq_none h] at hc1; cases hc1
          exact ⟨ho.symm, l0, l0', l1, l1', rfl, by simp [List.getElem?_set_self hlt0], rfl,
            by simp [List.getElem?_set_self hlt1], hj0, hj1, hs⟩

/-- what the same block of events adds to the counters is the same, whatever was there -/
theorem sim_counts {a a' b b' : ObsList} (hab : Same a b) (h : Sim a a' b b') (hown : a.own.filter = none) :
    (∀ L key, getCount a'.own.summary L key + getCount b.own.summary L key =
        getCount b'.own.summary L key + getCount a.own.summary L key) := by
  obtain ⟨_, evs, t1, t2⟩ := h
  have hownb : b.own.filter = none := by rw [← hab.2]; exact hown
  intro L key
  rw [(tr_own t1 hown).1 L key, (tr_own t2 hownb).1 L key, hab.1]
  omega

theorem All₂.get {α β : Type} {R : α → β → Prop} : ∀ {l : List α} {l' : List β}, All₂ R l l' → ∀ (i : Nat) (x : α) (y : β),
    l[i]? = some x → l'[i]? = some y → R x y
  | _, _, .nil, i, x, y, hx, _ => by simp at hx
  | _, _, .cons hd tl, 0, x, y, hx, hy => by
    simp only [List.getElem?_cons_zero, Option.some.injEq] at hx hy
    subst hx; subst hy; exact hd
  | _, _, .cons hd tl, i + 1, x, y, hx, hy => by
    simp only [List.getElem?_cons_succ] at hx hy
    exact All₂.get tl i x y hx hy

/-- the same for every project observer, position by position -/
theorem sim_observer_counts {a a' b b' : ObsList} (hab : Same a b) (h : Sim a a' b b') (hown : a.own.filter = none)
    (i : Nat) (oa oa' ob ob' : Obs) (h1 : a.observers[i]? = some oa) (h2 : a'.observers[i]? = some oa')
    (h3 : b.observers[i]? = some ob) (h4 : b'.observers[i]? = some ob') :
    ∀ L key, getCount oa'.summary L key + getCount ob.summary L key = getCount ob'.summary L key + getCount oa.summary L key := by
  obtain ⟨_, evs, t1, t2⟩ := h
  have hownb : b.own.filter = none := by rw [← hab.2]; exact hown
  have ra := (All₂.get (tr_observers t1 hown) i oa oa' h1 h2).1
  have rb := (All₂.get (tr_observers t2 hownb) i ob ob' h3 h4).1
  have hf : oa.filter = ob.filter := by
    have := congrArg (fun l => l[i]?) hab.1
    simp only [ObsList.filters, List.getElem?_map, h1, h3, Option.map_some, Option.some.injEq] at this
    exact this
  intro L key
  rw [ra L key, rb L key, hf]
  omega

end C03H

/- Back-references in the engine lemma: a token list with back-references runs exactly like the same list with the
   literal texts in their place, as long as the referenced groups have been captured (`Known`). -/
import CLModel.Proofs.C12RNest
namespace C12B
open Rx PM C11R

/-! ### back-references behave like the literal text of their group -/

/-- the groups in `K` have been captured: index ↦ text, found in the subject where the capture says -/
def Known (s : Array Nat) (caps : List (Nat × Nat × Nat)) (K : List (Nat × Text)) : Prop :=
  ∀ e ∈ K, ∃ a, capOf caps e.1 = some (a, a + e.2.length) ∧ TextAt s a e.2

theorem m_backref (s : Array Nat) {i a : Nat} {t : Text} {pos : Nat} {caps : List (Nat × Nat × Nat)} (k : K)
    (hc : capOf caps i = some (a, a + t.length)) (ht : TextAt s a t) :
    (TextAt s pos t → m s (.backref i) ⟨pos, caps⟩ k = k ⟨pos + t.length, caps⟩) ∧
    (¬ TextAt s pos t → m s (.backref i) ⟨pos, caps⟩ k = none) := by
  simp only [m, hc, Nat.add_sub_cancel_left]
  refine ⟨fun hp => ?_, fun hp => ?_⟩
  · have hall : (List.range t.length).all (fun j => s[a + j]? == s[pos + j]? && decide (pos + j < s.size)) = true := by
      apply List.all_eq_true.mpr
      intro j hj
      have hj' : j < t.length := by simpa using hj
      have h1 := ht j hj'
      have h2 := hp j hj'
      have hlt : pos + j < s.size := by
        rw [List.getElem?_eq_getElem hj'] at h2
        exact getElem?_some_lt h2
      simp only [h1, h2, beq_self_eq_true, hlt, decide_true, Bool.and_self]
    simp only [hall, if_true]
  · have hall : (List.range t.length).all (fun j => s[a + j]? == s[pos + j]? && decide (pos + j < s.size)) = false := by
      apply Bool.eq_false_iff.mpr
      intro hc'
      apply hp
      intro j hj
      have := List.all_eq_true.mp hc' j (by simpa using hj)
      simp only [Bool.and_eq_true, beq_iff_eq, decide_eq_true_eq] at this
      rw [← this.1]; exact ht j hj
    simp only [hall, Bool.false_eq_true, if_false]

/-- ... that is, like the literal items of that text -/
theorem m_backref_lits (s : Array Nat) {i a : Nat} {t : Text} {pos : Nat} {caps : List (Nat × Nat × Nat)}
    (rest : List Re) (k : K) (hc : capOf caps i = some (a, a + t.length)) (ht : TextAt s a t) :
    m s (seqOf (Re.backref i :: rest)) ⟨pos, caps⟩ k = m s (seqOf (t.map Re.lit ++ rest)) ⟨pos, caps⟩ k := by
  rw [m_seqOf_cons]
  by_cases hp : TextAt s pos t
  · rw [(m_backref s _ hc ht).1 hp, m_lits_ok s t rest ⟨pos, caps⟩ k hp]
  · rw [(m_backref s _ hc ht).2 hp, m_lits_fail s t rest ⟨pos, caps⟩ k hp]

/-! ### token lists with back-references -/

inductive BTok where
  | base (t : Tok)
  | bref (i : Nat) (t : Text)

/-- the same list with every back-reference replaced by the literal text it stands for -/
def BTok.plain : BTok → Tok
  | .base t => t
  | .bref _ t => .lit t

def BTok.items : BTok → List Re
  | .base t => t.items
  | .bref i _ => [Re.backref i]

def itemsB (ts : List BTok) : List Re := ts.flatMap BTok.items

theorem itemsB_cons (t : BTok) (r : List BTok) : itemsB (t :: r) = t.items ++ itemsB r := by simp [itemsB]

/-- every back-reference refers to a group captured by an earlier literal-like group token (or already known) -/
def BrefOK : List (Nat × Text) → List BTok → Prop
  | _, [] => True
  | K, .base (.gl i _ t _) :: r => BrefOK ((i, t) :: K) r
  | K, .base _ :: r => BrefOK K r
  | K, .bref i t :: r => (i, t) ∈ K ∧ BrefOK K r

theorem firstSome_congr (k1 k2 : Nat → Option St) : ∀ (l : List Nat), (∀ j ∈ l, k1 j = k2 j) → firstSome k1 l = firstSome k2 l
  | [], _ => rfl
  | x :: xs, h => by
    simp only [firstSome, h x (by simp), firstSome_congr k1 k2 xs (fun j hj => h j (by simp [hj]))]

theorem known_push {s : Array Nat} {caps : List (Nat × Nat × Nat)} {K : List (Nat × Text)} (h : Known s caps K)
    {j a b : Nat} (hj : ∀ e ∈ K, e.1 ≠ j) : Known s ((j, a, b) :: caps) K := by
  intro e he
  obtain ⟨a', h1, h2⟩ := h e he
  exact ⟨a', by rw [capOf_cons_ne (Ne.symm (hj e he))]; exact h1, h2⟩

theorem known_append {s : Array Nat} {caps new : List (Nat × Nat × Nat)} {K : List (Nat × Text)} (h : Known s caps K)
    (hn : ∀ e ∈ K, ∀ x ∈ new, x.1 ≠ e.1) : Known s (new ++ caps) K := by
  intro e he
  obtain ⟨a', h1, h2⟩ := h e he
  exact ⟨a', by rw [capOf_append_of_not_mem (fun x hx => hn e he x hx)]; exact h1, h2⟩

theorem pos_after_text {s : Array Nat} {p : Nat} {t : Text} (h : TextAt s p t) (hp : p ≤ s.size) : p + t.length ≤ s.size := by
  by_cases h0 : t.length = 0
  · omega
  · have := getElem?_some_lt (textAt_get h (q := t.length - 1) (by omega))
    omega

theorem plain_map_cons (t : BTok) (r : List BTok) : (t :: r).map BTok.plain = t.plain :: r.map BTok.plain := rfl

/-- **simulation**: with the earlier groups captured as `K` says, the engine runs through a token list with
    back-references exactly as through the same list with the literal texts in their place -/
theorem sim (s : Array Nat) : ∀ (ts : List BTok) (Kn : List (Nat × Text)) (st : St) (tl : List Re) (k : K),
    Sep (ts.map BTok.plain) → Known s st.caps Kn → BrefOK Kn ts → st.pos ≤ s.size →
    (∀ e ∈ Kn, e.1 ∉ toksAll (ts.map BTok.plain)) → (∀ i, (toksAll (ts.map BTok.plain)).count i ≤ 1) →
    m s (seqOf (itemsB ts ++ tl)) st k = m s (seqOf (toksItems (ts.map BTok.plain) ++ tl)) st k
  | [], _, _, _, _, _, _, _, _, _, _ => rfl
  | .bref i t :: r, Kn, ⟨pos, caps⟩, tl, k, hsep, hkn, hbr, hpos, hfr, hcnt => by
    have hpos : pos ≤ s.size := hpos
    obtain ⟨hmem, hbr'⟩ := hbr
    obtain ⟨a, hc, hta⟩ := hkn (i, t) hmem
    rw [itemsB_cons, plain_map_cons, toksItems_cons]
    simp only [BTok.items, BTok.plain, Tok.items, List.cons_append, List.nil_append]
    rw [m_backref_lits s _ k hc hta, List.append_assoc]
    rw [plain_map_cons, toksAll_cons] at hfr hcnt
    by_cases hp : TextAt s pos t
    · rw [m_lits_ok s t _ ⟨pos, caps⟩ k hp, m_lits_ok s t _ ⟨pos, caps⟩ k hp]
      exact sim s r Kn _ tl k hsep hkn hbr' (pos_after_text hp hpos)
        (fun e he hc' => hfr e he (List.mem_append.mpr (Or.inr hc')))
        (fun j => by have := hcnt j; rw [List.count_append] at this; omega)
    · rw [m_lits_fail s t _ ⟨pos, caps⟩ k hp, m_lits_fail s t _ ⟨pos, caps⟩ k hp]
  | .base tok :: r, Kn, ⟨pos, caps⟩, tl, k, hsep, hkn, hbr, hpos, hfr, hcnt => by
    have hpos : pos ≤ s.size := hpos
    rw [itemsB_cons, plain_map_cons, toksItems_cons]
    simp only [BTok.items, BTok.plain]
    rw [List.append_assoc, List.append_assoc]
    rw [plain_map_cons, toksAll_cons] at hfr hcnt
    simp only [BTok.plain] at hfr hcnt hsep
    have hfr' : ∀ e ∈ Kn, e.1 ∉ toksAll (r.map BTok.plain) := fun e he hc' => hfr e he (List.mem_append.mpr (Or.inr hc'))
    have hcnt' : ∀ j, (toksAll (r.map BTok.plain)).count j ≤ 1 := fun j => by
      have := hcnt j; rw [List.count_append] at this; omega
    have hown : ∀ j ∈ tok.all, j ∉ toksAll (r.map BTok.plain) := by
      intro j hj hjr
      have := hcnt j
      rw [List.count_append] at this
      have a1 := List.count_pos_iff.mpr hj
      have a2 := List.count_pos_iff.mpr hjr
      omega
    have hKtok : ∀ e ∈ Kn, e.1 ∉ tok.all := fun e he hc' => hfr e he (List.mem_append.mpr (Or.inl hc'))
    cases tok with
    | lit t =>
      simp only [Tok.items]
      by_cases hp : TextAt s pos t
      · rw [m_lits_ok s t _ ⟨pos, caps⟩ k hp, m_lits_ok s t _ ⟨pos, caps⟩ k hp]
        exact sim s r Kn _ tl k hsep hkn hbr (pos_after_text hp hpos) hfr' hcnt'
      · rw [m_lits_fail s t _ ⟨pos, caps⟩ k hp, m_lits_fail s t _ ⟨pos, caps⟩ k hp]
    | gl i body t F =>
      obtain ⟨hrun, hidx, hsep'⟩ := hsep
      simp only [Tok.items, List.cons_append, List.nil_append]
      rw [m_seqOf_cons, m_seqOf_cons]
      simp only [m]
      by_cases hp : TextAt s pos t
      · rw [(hrun s ⟨pos, caps⟩ _).1 hp, (hrun s ⟨pos, caps⟩ _).1 hp]
        refine sim s r ((i, t) :: Kn) _ tl k hsep' ?_ hbr (pos_after_text hp hpos) ?_ hcnt'
        · intro e he
          rcases List.mem_cons.mp he with rfl | he
          · exact ⟨pos, capOf_cons_self, hp⟩
          · have hne : e.1 ∉ (Tok.gl i body t F).all := hKtok e he
            simp only [Tok.all, Tok.idx, Tok.inner, List.cons_append, List.nil_append, List.mem_cons, not_or] at hne
            apply known_push _ (fun e' he' => ?_) e he
            · exact known_append hkn (fun e' he' x hx hc' => by
                have := hKtok e' he'
                simp only [Tok.all, Tok.idx, Tok.inner, List.cons_append, List.nil_append, List.mem_cons, not_or] at this
                exact this.2 (hc' ▸ hidx pos x hx))
            · have := hKtok e' he'
              simp only [Tok.all, Tok.idx, Tok.inner, List.cons_append, List.nil_append, List.mem_cons, not_or] at this
              exact this.1
        · intro e he
          rcases List.mem_cons.mp he with rfl | he
          · exact hown i (by simp [Tok.all, Tok.idx])
          · exact hfr' e he
      · rw [(hrun s ⟨pos, caps⟩ _).2 hp, (hrun s ⟨pos, caps⟩ _).2 hp]
    | star i v =>
      simp only [Tok.items, List.cons_append, List.nil_append, Gen.Pat.matcher_frag_star]
      rw [m_seqOf_cons, m_seqOf_cons, m_star_group s i _ _ (oneChar_notLit s 47) pos hpos,
        m_star_group s i _ _ (oneChar_notLit s 47) pos hpos]
      apply firstSome_congr
      intro j hj
      obtain ⟨_, hj2⟩ := mem_downFrom.mp hj
      have hle := runP_le s (fun d => d != 47) (s.size + 2 - pos) pos
      have hi : ∀ e ∈ Kn, e.1 ≠ i := fun e he hc' => hKtok e he (by simp [Tok.all, Tok.idx, hc'])
      exact sim s r Kn _ tl k hsep.2.2 (known_push hkn hi) hbr (by simp only; omega) hfr' hcnt'
    | sstar i w =>
      simp only [Tok.items, List.cons_append, List.nil_append, List.map_cons, List.map_nil, seqOf,
        Gen.Pat.matcher_frag_starstar]
      rw [m_seqOf_cons, m_seqOf_cons, m_sstar_item s i pos hpos, m_sstar_item s i pos hpos]
      have hi : ∀ e ∈ Kn, e.1 ≠ i := fun e he hc' => hKtok e he (by simp [Tok.all, Tok.idx, hc'])
      have hrest : m s (seqOf (itemsB r ++ tl)) ⟨pos, caps⟩ k = m s (seqOf (toksItems (r.map BTok.plain) ++ tl)) ⟨pos, caps⟩ k :=
        sim s r Kn _ tl k hsep.2.2 hkn hbr hpos hfr' hcnt'
      have hf : ∀ l : List Nat,
          firstSome (fun j => if s[j]? == some 47 then m s (seqOf (itemsB r ++ tl)) ⟨j + 1, (i, pos, j + 1) :: caps⟩ k else none) l =
          firstSome (fun j => if s[j]? == some 47 then
            m s (seqOf (toksItems (r.map BTok.plain) ++ tl)) ⟨j + 1, (i, pos, j + 1) :: caps⟩ k else none) l := by
        intro l
        apply firstSome_congr
        intro j _
        by_cases h47 : s[j]? = some 47
        · have hlt := getElem?_some_lt h47
          simp only [h47, beq_self_eq_true, if_true]
          exact sim s r Kn _ tl k hsep.2.2 (known_push hkn hi) hbr (by simp only; omega) hfr' hcnt'
        · have : (s[j]? == some 47) = false := by simpa using h47
          simp only [this, Bool.false_eq_true, if_false]
      simp only [hf, hrest]
    | send i w =>
      simp only [Tok.items, List.cons_append, List.nil_append, List.map_nil, seqOf, Gen.Pat.matcher_frag_starstar]
      rw [m_seqOf_cons, m_seqOf_cons, m_send_item s i pos hpos, m_send_item s i pos hpos]
      have hi : ∀ e ∈ Kn, e.1 ≠ i := fun e he hc' => hKtok e he (by simp [Tok.all, Tok.idx, hc'])
      have hrest : m s (seqOf (itemsB r ++ tl)) ⟨pos, caps⟩ k = m s (seqOf (toksItems (r.map BTok.plain) ++ tl)) ⟨pos, caps⟩ k :=
        sim s r Kn _ tl k hsep.2.2 hkn hbr hpos hfr' hcnt'
      have hf : ∀ l : List Nat, (∀ j ∈ l, j ≤ s.size) →
          firstSome (fun j => m s (seqOf (itemsB r ++ tl)) ⟨j, (i, pos, j) :: caps⟩ k) l =
          firstSome (fun j => m s (seqOf (toksItems (r.map BTok.plain) ++ tl)) ⟨j, (i, pos, j) :: caps⟩ k) l := by
        intro l hl
        apply firstSome_congr
        intro j hj
        exact sim s r Kn _ tl k hsep.2.2 (known_push hkn hi) hbr (hl j hj) hfr' hcnt'
      have hle := runP_le s (fun d => d != 10) (s.size + 1 - pos) (pos + 1)
      cases hc : s[pos]? with
      | none => simp only [hrest]
      | some c =>
        have hlt := getElem?_some_lt hc
        simp only []
        rw [hf _ (fun j hj => by have := (mem_downFrom.mp hj).2; omega), hrest]
end C12B

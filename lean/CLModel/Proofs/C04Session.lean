/- C04, round 5: ONE comparer, a sequence of jobs.  What a job stages is a function of the job and the project filters;
   the stage is the fold of these outcomes; a memory of parser lookups is invisible iff its key determines the lookup. -/
import CLModel.Compare.MergeSession
import CLModel.Proofs.C04Quiet
namespace C04S
open MergeS MergeB Merge ObsM Gen.Tables

abbrev Text := List Nat
abbrev Bytes := List Nat

/-- the project filters of the comparer's observers — never changed by a notification or `updateStats` -/
def filtersOf (s : St) : List (Option Filter) := s.obs.observers.map (·.filter)

/-! ### the verdict function of the model file is C04Q's -/

theorem verdictOf_eq (filters : List (Option Filter)) (file : File) (key : Data) :
    verdictOf filters file key = C04Q.verdict filters file key := by
  have hf : (fun f : Option Filter => askFilter f file key) = fun f => rvOf f .missingEntity file key := by
    funext f; cases f <;> simp [askFilter, rvOf, Cat.isFile]
  simp only [verdictOf, C04Q.verdict, listRet]
  rw [hf]

theorem mergedEnts_eq (filters : List (Option Filter)) (file : File) :
    ∀ ents : List (Data × Text), mergedEnts filters file ents = (C04Q.missSpec filters file ents).1
  | [] => rfl
  | (key, refAll) :: rest => by
    have ih := mergedEnts_eq filters file rest
    simp only [mergedEnts] at ih
    simp only [mergedEnts, List.filter_cons, C04Q.missSpec, verdictOf_eq] at ih ⊢
    cases hv : C04Q.verdict filters file key <;> simp [ih]

/-! ### filters are immutable -/

theorem addStats_filter (loc : Option Text) : ∀ (st : List (StatKey × Nat)) (o : Obs), (o.addStats loc st).filter = o.filter
  | [], _ => rfl
  | (c, v) :: rest, o => by
    simp only [Obs.addStats]
    rw [addStats_filter loc rest]
    split <;> rfl

theorem updateStats_filter (o : Obs) (f : File) (st : List (StatKey × Nat)) : (o.updateStats f st).filter = o.filter := by
  unfold Obs.updateStats
  split
  · split
    · rfl
    · exact addStats_filter _ _ _
  · exact addStats_filter _ _ _

theorem list_updateStats_filters (l : ObsList) (f : File) (st : List (StatKey × Nat)) :
    (l.updateStats f st).observers.map (·.filter) = l.observers.map (·.filter) := by
  simp [ObsList.updateStats, List.map_map, Function.comp_def, updateStats_filter]

theorem notify_filters {l l' : ObsList} {cat f d rv} (h : l.notify cat f d = .ok (l', rv)) :
    l'.observers.map (·.filter) = l.observers.map (·.filter) :=
  C04Q.filters_of_all2 (list_notify_spec h).2.1

theorem missingLoop_filters (file : File) : ∀ (ents : List (Data × Text)) (l l' : ObsList) (ms : List Text) (m r : Nat),
    missingLoop l file ents = .ok (l', ms, m, r) → l'.observers.map (·.filter) = l.observers.map (·.filter)
  | [], l, l', ms, m, r, h => by
    simp only [missingLoop, pure, Except.pure, Except.ok.injEq, Prod.mk.injEq] at h
    rw [← h.1]
  | (key, refAll) :: rest, l, l', ms, m, r, h => by
    simp only [missingLoop, bind, Except.bind] at h
    cases hn : l.notify .missingEntity file key with
    | error e => rw [hn] at h; cases h
    | ok p =>
      obtain ⟨l1, rv⟩ := p
      rw [hn] at h
      simp only at h
      cases hr : missingLoop l1 file rest with
      | error e => rw [hr] at h; cases h
      | ok q =>
        obtain ⟨l2, ms', m', r'⟩ := q
        rw [hr] at h
        simp only at h
        have h2 := missingLoop_filters file rest l1 l2 ms' m' r' hr
        have h1 := notify_filters hn
        have hl : l' = l2 := by
          cases rv <;> simp [pure, Except.pure] at h <;> exact h.1.symm
        rw [hl, h2, h1]

/-! ### `callMerge` -/

theorem callMerge_out (s : St) (path : Option Text) (caps : Nat) (l10n ref : Bytes) (skips : List Skip) (ms : List Text) :
    (callMerge s path caps l10n ref skips ms).2 = mergeBytes path.isSome caps l10n ref skips ms := by
  unfold callMerge
  cases path with
  | none => rfl
  | some p =>
    simp only
    split
    · rfl
    · split <;> simp_all

theorem callMerge_obs (s : St) (path : Option Text) (caps : Nat) (l10n ref : Bytes) (skips : List Skip) (ms : List Text) :
    (callMerge s path caps l10n ref skips ms).1.obs = s.obs := by
  unfold callMerge
  cases path with
  | none => rfl
  | some p =>
    simp only
    split
    · rfl
    · split <;> rfl

theorem mergeBytes_none (l10n ref : Bytes) (skips : List Skip) (ms : List Text) :
    mergeBytes true CAN_NONE l10n ref skips ms = .noFile := by
  simp [mergeBytes, merge, CAN_NONE]

theorem mergeBytes_nofile (caps : Nat) (l10n ref : Bytes) (skips : List Skip) (ms : List Text) :
    mergeBytes false caps l10n ref skips ms = .noFile := by
  simp [mergeBytes, merge]

theorem callMerge_files (s : St) (path : Option Text) (caps : Nat) (l10n ref : Bytes) (skips : List Skip) (ms : List Text) :
    (callMerge s path caps l10n ref skips ms).1.files =
      stageOf s.files [(path, (callMerge s path caps l10n ref skips ms).2)] := by
  cases path with
  | none => simp [callMerge, stageOf]
  | some p =>
    by_cases hc : caps = CAN_NONE
    · subst hc
      simp [callMerge, mergeBytes_none, stageOf]
    · have hc' : (caps == CAN_NONE) = false := by simpa using hc
      simp only [callMerge, hc', Option.isSome_some, Bool.false_eq_true, ↓reduceIte]
      cases hm : mergeBytes true caps l10n ref skips ms <;> simp [stageOf]

/-! ### one step -/

theorem addMerge_out (pc : Option Nat) (s : St) (j : Job) :
    (addMerge pc s j).2 = if addStages pc then mergeBytes j.mergePath.isSome CAN_COPY [] j.ref [] [triggerCopy] else .noFile := by
  unfold addMerge
  split
  · exact callMerge_out _ _ _ _ _ _ _
  · rfl

theorem addMerge_obs (pc : Option Nat) (s : St) (j : Job) : (addMerge pc s j).1.obs = s.obs := by
  unfold addMerge
  split
  · exact callMerge_obs _ _ _ _ _ _ _
  · rfl

theorem addMerge_files (pc : Option Nat) (s : St) (j : Job) :
    (addMerge pc s j).1.files = stageOf s.files [(j.mergePath, (addMerge pc s j).2)] := by
  unfold addMerge
  split
  · exact callMerge_files _ _ _ _ _ _ _
  · cases j.mergePath <;> simp [stageOf]

theorem compareMergeCall_out (s : St) (j : Job) (caps : Nat) (ms : List Text) :
    (compareMergeCall s j caps ms).2 =
      match j.mergePath with
      | none => .noFile
      | some _ => mergeBytes true caps j.l10n j.ref j.skips ms := by
  unfold compareMergeCall
  cases hmp : j.mergePath with
  | none => rfl
  | some p => simp only [callMerge_out]; rfl

theorem compareMergeCall_obs (s : St) (j : Job) (caps : Nat) (ms : List Text) :
    (compareMergeCall s j caps ms).1.obs = s.obs := by
  unfold compareMergeCall
  cases hmp : j.mergePath with
  | none => rfl
  | some p => simp only [callMerge_obs]

theorem compareMergeCall_files (s : St) (j : Job) (caps : Nat) (ms : List Text) :
    (compareMergeCall s j caps ms).1.files = stageOf s.files [(j.mergePath, (compareMergeCall s j caps ms).2)] := by
  unfold compareMergeCall
  cases hmp : j.mergePath with
  | none => simp [stageOf]
  | some p =>
    have := callMerge_files s (some p) caps j.l10n j.ref j.skips ms
    simpa using this

theorem compareFinish_out (r : St × FileOut) (j : Job) (m rep : Nat) : (compareFinish r j m rep).2 = r.2 := by
  unfold compareFinish
  split <;> rfl

theorem compareFinish_files (r : St × FileOut) (j : Job) (m rep : Nat) : (compareFinish r j m rep).1.files = r.1.files := by
  unfold compareFinish
  split <;> rfl

theorem compareFinish_filters (r : St × FileOut) (j : Job) (m rep : Nat) :
    filtersOf (compareFinish r j m rep).1 = filtersOf r.1 := by
  unfold compareFinish filtersOf
  split
  · rfl
  · exact list_updateStats_filters _ _ _

/-- what a step returns for its job does not depend on the comparer's state: it is `jobOut` of the job and the filters -/
theorem stepWith_out {pc : Option Nat} {s s' : St} {j : Job} {out : FileOut} (h : stepWith pc s j = .ok (s', out)) :
    out = jobOutWith pc (filtersOf s) j := by
  unfold stepWith at h
  unfold jobOutWith
  cases hk : j.kind with
  | remove =>
    simp only [hk, bind, Except.bind] at h ⊢
    cases hn : s.obs.notify .obsoleteFile (fileOf j) .none with
    | error e => rw [hn] at h; cases h
    | ok p =>
      rw [hn] at h
      simp only [pure, Except.pure, Except.ok.injEq] at h
      have h2 := congrArg Prod.snd h
      simp only [callMerge_out] at h2
      exact h2.symm
  | add =>
    simp only [hk, bind, Except.bind] at h ⊢
    cases hn : (addMerge pc s j).1.obs.notify .missingFile (fileOf j) .none with
    | error e => rw [hn] at h; cases h
    | ok p =>
      rw [hn] at h
      simp only [pure, Except.pure] at h
      have : out = (addMerge pc s j).2 := by
        split at h
        · simp only [Except.ok.injEq, Prod.mk.injEq] at h; exact h.2.symm
        · split at h <;> (simp only [Except.ok.injEq, Prod.mk.injEq] at h; exact h.2.symm)
      rw [this, addMerge_out]
  | compare =>
    simp only [hk] at h ⊢
    cases pc with
    | none =>
      simp only [pure, Except.pure, Except.ok.injEq] at h
      have h2 := congrArg Prod.snd h
      simp only [callMerge_out] at h2
      exact h2.symm
    | some caps =>
      simp only [bind, Except.bind] at h
      cases hl : missingLoop s.obs (fileOf j) j.ents with
      | error e => rw [hl] at h; cases h
      | ok q =>
        obtain ⟨o1, ms, m, r⟩ := q
        rw [hl] at h
        simp only [pure, Except.pure, Except.ok.injEq] at h
        have hspec := C04Q.missingLoop_spec (fileOf j) j.ents s.obs o1 ms m r hl
        have hms : ms = mergedEnts (filtersOf s) (fileOf j) j.ents := by
          rw [mergedEnts_eq]; unfold filtersOf; rw [← hspec]
        have h2 := congrArg Prod.snd h
        simp only [compareFinish_out, compareMergeCall_out] at h2
        rw [← h2, hms]
        cases j.mergePath <;> rfl

theorem step_out_stateless {s s' : St} {j : Job} {out : FileOut} (h : step s j = .ok (s', out)) :
    out = jobOut (filtersOf s) j := stepWith_out h

/-- a step never changes the project filters -/
theorem stepWith_filters {pc : Option Nat} {s s' : St} {j : Job} {out : FileOut} (h : stepWith pc s j = .ok (s', out)) :
    filtersOf s' = filtersOf s := by
  unfold stepWith at h
  cases hk : j.kind with
  | remove =>
    simp only [hk, bind, Except.bind] at h
    cases hn : s.obs.notify .obsoleteFile (fileOf j) .none with
    | error e => rw [hn] at h; cases h
    | ok p =>
      rw [hn] at h
      simp only [pure, Except.pure, Except.ok.injEq] at h
      have h1 := congrArg Prod.fst h
      simp only at h1
      rw [← h1]
      unfold filtersOf
      rw [callMerge_obs]
      exact notify_filters hn
  | add =>
    simp only [hk, bind, Except.bind] at h
    cases hn : (addMerge pc s j).1.obs.notify .missingFile (fileOf j) .none with
    | error e => rw [hn] at h; cases h
    | ok p =>
      rw [hn] at h
      simp only [pure, Except.pure] at h
      have hf := notify_filters hn
      rw [addMerge_obs] at hf
      split at h
      · simp only [Except.ok.injEq, Prod.mk.injEq] at h; rw [← h.1]; exact hf
      · split at h
        · simp only [Except.ok.injEq, Prod.mk.injEq] at h; rw [← h.1]; exact hf
        · simp only [Except.ok.injEq, Prod.mk.injEq] at h; rw [← h.1]
          unfold filtersOf
          simp only [list_updateStats_filters]
          exact hf
  | compare =>
    simp only [hk] at h
    cases pc with
    | none =>
      simp only [pure, Except.pure, Except.ok.injEq] at h
      have h1 := congrArg Prod.fst h
      simp only at h1
      rw [← h1]; unfold filtersOf; rw [callMerge_obs]
    | some caps =>
      simp only [bind, Except.bind] at h
      cases hl : missingLoop s.obs (fileOf j) j.ents with
      | error e => rw [hl] at h; cases h
      | ok q =>
        obtain ⟨o1, ms, m, r⟩ := q
        rw [hl] at h
        simp only [pure, Except.pure, Except.ok.injEq] at h
        have h1 := congrArg Prod.fst h
        simp only at h1
        rw [← h1, compareFinish_filters]
        unfold filtersOf
        rw [compareMergeCall_obs]
        exact missingLoop_filters (fileOf j) j.ents s.obs o1 ms m r hl

/-- what a step does to the stage: its own outcome at its own merge path, nothing else -/
theorem stepWith_files {pc : Option Nat} {s s' : St} {j : Job} {out : FileOut} (h : stepWith pc s j = .ok (s', out)) :
    s'.files = stageOf s.files [(j.mergePath, out)] := by
  unfold stepWith at h
  cases hk : j.kind with
  | remove =>
    simp only [hk, bind, Except.bind] at h
    cases hn : s.obs.notify .obsoleteFile (fileOf j) .none with
    | error e => rw [hn] at h; cases h
    | ok p =>
      rw [hn] at h
      simp only [pure, Except.pure, Except.ok.injEq] at h
      have h1 := congrArg Prod.fst h
      have h2 := congrArg Prod.snd h
      simp only at h1 h2
      rw [← h1, ← h2, callMerge_files]
  | add =>
    simp only [hk, bind, Except.bind] at h
    cases hn : (addMerge pc s j).1.obs.notify .missingFile (fileOf j) .none with
    | error e => rw [hn] at h; cases h
    | ok p =>
      rw [hn] at h
      simp only [pure, Except.pure] at h
      have hfiles := addMerge_files pc s j
      split at h
      · simp only [Except.ok.injEq, Prod.mk.injEq] at h; rw [← h.1, ← h.2]; exact hfiles
      · split at h <;> (simp only [Except.ok.injEq, Prod.mk.injEq] at h; rw [← h.1, ← h.2]; exact hfiles)
  | compare =>
    simp only [hk] at h
    cases pc with
    | none =>
      simp only [pure, Except.pure, Except.ok.injEq] at h
      have h1 := congrArg Prod.fst h
      have h2 := congrArg Prod.snd h
      simp only at h1 h2
      rw [← h1, ← h2, callMerge_files]
    | some caps =>
      simp only [bind, Except.bind] at h
      cases hl : missingLoop s.obs (fileOf j) j.ents with
      | error e => rw [hl] at h; cases h
      | ok q =>
        obtain ⟨o1, ms, m, r⟩ := q
        rw [hl] at h
        simp only [pure, Except.pure, Except.ok.injEq] at h
        have h1 := congrArg Prod.fst h
        have h2 := congrArg Prod.snd h
        simp only at h1 h2
        rw [← h1, ← h2, compareFinish_files, compareFinish_out, compareMergeCall_files]

/-! ### sessions -/

theorem stageOf_append (fs : List (Text × Bytes)) (a b : List (Option Text × FileOut)) :
    stageOf fs (a ++ b) = stageOf (stageOf fs a) b := by
  induction a generalizing fs with
  | nil => rfl
  | cons x rest ih =>
    obtain ⟨p, o⟩ := x
    cases p with
    | none => simp only [List.cons_append, stageOf]; exact ih fs
    | some p =>
      cases o <;> simp only [List.cons_append, stageOf] <;> exact ih _

/-- SESSION = POINTWISE: the outcome of every job of a session on ONE comparer is the stateless `jobOut` of that job,
    and the stage is the fold of these outcomes over the initial stage -/
theorem run_spec : ∀ (jobs : List Job) (s s' : St) (outs : List FileOut), run s jobs = .ok (s', outs) →
    outs = jobs.map (jobOut (filtersOf s)) ∧ filtersOf s' = filtersOf s ∧
      s'.files = stageOf s.files (jobs.map (fun j => (j.mergePath, jobOut (filtersOf s) j)))
  | [], s, s', outs, h => by
    simp only [run, pure, Except.pure, Except.ok.injEq, Prod.mk.injEq] at h
    rw [← h.1, ← h.2]
    exact ⟨rfl, rfl, rfl⟩
  | j :: rest, s, s', outs, h => by
    simp only [run, bind, Except.bind] at h
    cases hs : step s j with
    | error e => rw [hs] at h; cases h
    | ok p =>
      obtain ⟨s1, o⟩ := p
      rw [hs] at h
      simp only at h
      cases hr : run s1 rest with
      | error e => rw [hr] at h; cases h
      | ok q =>
        obtain ⟨s2, os⟩ := q
        rw [hr] at h
        simp only [pure, Except.pure, Except.ok.injEq, Prod.mk.injEq] at h
        obtain ⟨ih1, ih2, ih3⟩ := run_spec rest s1 s2 os hr
        have ho := step_out_stateless hs
        have hf : filtersOf s1 = filtersOf s := stepWith_filters hs
        have hfiles := stepWith_files hs
        rw [hf] at ih1 ih2 ih3
        rw [← h.1, ← h.2]
        refine ⟨by rw [ih1, ho]; rfl, ih2, ?_⟩
        rw [ih3, hfiles, ho]
        exact (stageOf_append s.files [(j.mergePath, jobOut (filtersOf s) j)] _).symm

/-! ### reading the stage -/

theorem getFile_setFile (fs : List (Text × Bytes)) (p q : Text) (b : Bytes) :
    getFile (setFile fs p b) q = if q = p then some b else getFile fs q := by
  induction fs with
  | nil =>
    by_cases h : q = p
    · subst h; simp [setFile, getFile]
    · have : (p == q) = false := by simpa using fun e => h e.symm
      simp [setFile, getFile, h, this]
  | cons x rest ih =>
    obtain ⟨r, c⟩ := x
    by_cases hrp : r = p
    · subst hrp
      by_cases h : q = r
      · subst h; simp [setFile, getFile]
      · have : (r == q) = false := by simpa using fun e => h e.symm
        simp [setFile, getFile, h, this]
    · have hrp' : (r == p) = false := by simpa using hrp
      simp only [setFile, hrp', Bool.false_eq_true, ↓reduceIte]
      by_cases hrq : r = q
      · subst hrq
        have : ¬ r = p := hrp
        simp [getFile, this]
      · have hrq' : (r == q) = false := by simpa using hrq
        have ih' := ih
        simp only [getFile] at ih' ⊢
        simp only [List.find?_cons, hrq']
        exact ih'

/-- the bytes the LAST entry for path `p` with a `bytes` outcome carries -/
def lastBytes : List (Option Text × FileOut) → Text → Option Bytes
  | [], _ => none
  | (some q, .bytes b) :: rest, p =>
    match lastBytes rest p with
    | some b' => some b'
    | none => if q = p then some b else none
  | _ :: rest, p => lastBytes rest p

theorem getFile_stageOf (p : Text) : ∀ (l : List (Option Text × FileOut)) (fs : List (Text × Bytes)),
    getFile (stageOf fs l) p = match lastBytes l p with | some b => some b | none => getFile fs p
  | [], fs => rfl
  | (none, o) :: rest, fs => by
    simp only [stageOf, lastBytes]; exact getFile_stageOf p rest fs
  | (some q, .bytes b) :: rest, fs => by
    simp only [stageOf, lastBytes]
    rw [getFile_stageOf p rest]
    cases lastBytes rest p with
    | some b' => rfl
    | none =>
      simp only [getFile_setFile]
      by_cases h : p = q
      · subst h; simp
      · have : ¬ q = p := fun e => h e.symm
        simp [h, this]
  | (some q, .noFile) :: rest, fs => by simp only [stageOf, lastBytes]; exact getFile_stageOf p rest fs
  | (some q, .typeError) :: rest, fs => by simp only [stageOf, lastBytes]; exact getFile_stageOf p rest fs
  | (some q, .encodeError) :: rest, fs => by simp only [stageOf, lastBytes]; exact getFile_stageOf p rest fs

theorem lastBytes_mem {l : List (Option Text × FileOut)} {p : Text} {b : Bytes} (h : lastBytes l p = some b) :
    (some p, FileOut.bytes b) ∈ l := by
  induction l with
  | nil => simp [lastBytes] at h
  | cons x rest ih =>
    obtain ⟨q, o⟩ := x
    cases q with
    | none => simp only [lastBytes] at h; exact List.mem_cons_of_mem _ (ih h)
    | some q =>
      cases o with
      | bytes c =>
        simp only [lastBytes] at h
        cases hr : lastBytes rest p with
        | some b' =>
          rw [hr] at h
          simp only [Option.some.injEq] at h
          subst h
          exact List.mem_cons_of_mem _ (ih hr)
        | none =>
          rw [hr] at h
          simp only at h
          split at h
          · rename_i hq
            simp only [Option.some.injEq] at h
            subst hq; subst h
            exact List.mem_cons_self
          · cases h
      | noFile => simp only [lastBytes] at h; exact List.mem_cons_of_mem _ (ih h)
      | typeError => simp only [lastBytes] at h; exact List.mem_cons_of_mem _ (ih h)
      | encodeError => simp only [lastBytes] at h; exact List.mem_cons_of_mem _ (ih h)

/-- the staged bytes of an outcome, if it stages any -/
def bytesOf : FileOut → Option Bytes
  | .bytes b => some b
  | _ => none

/-- with pairwise distinct merge paths: the entry for `p` decides -/
theorem lastBytes_of_mem {l : List (Option Text × FileOut)} (hd : (l.filterMap (·.1)).Nodup) {p : Text} {o : FileOut}
    (hm : (some p, o) ∈ l) : lastBytes l p = bytesOf o := by
  induction l with
  | nil => cases hm
  | cons x rest ih =>
    obtain ⟨q, o'⟩ := x
    cases q with
    | none =>
      simp only [List.filterMap_cons] at hd
      have hm' : (some p, o) ∈ rest := by
        cases hm with
        | tail _ h => exact h
      cases o' <;> simp only [lastBytes] <;> exact ih hd hm'
    | some q =>
      simp only [List.filterMap_cons, List.nodup_cons] at hd
      obtain ⟨hq, hd'⟩ := hd
      have hnotin : ∀ o'', (some q, o'') ∉ rest := by
        intro o'' hin
        apply hq
        exact List.mem_filterMap.mpr ⟨(some q, o''), hin, rfl⟩
      cases hm with
      | head =>
        -- this entry is the one for `p`; nothing later mentions `p`
        have hnone : lastBytes rest p = none := by
          cases hl : lastBytes rest p with
          | none => rfl
          | some b' => exact absurd (lastBytes_mem hl) (hnotin _)
        cases o <;> simp [lastBytes, hnone, bytesOf]
      | tail _ h =>
        have hqp : q ≠ p := by
          intro e; subst e; exact hnotin _ h
        have ih' := ih hd' h
        cases o' with
        | bytes c =>
          simp only [lastBytes, ih']
          cases o <;> simp [hqp, bytesOf]
        | noFile => simp only [lastBytes]; exact ih'
        | typeError => simp only [lastBytes]; exact ih'
        | encodeError => simp only [lastBytes]; exact ih'

theorem lastBytes_none_of_not_mem {l : List (Option Text × FileOut)} {p : Text} (h : ∀ o, (some p, o) ∉ l) :
    lastBytes l p = none := by
  cases hl : lastBytes l p with
  | none => rfl
  | some b => exact absurd (lastBytes_mem hl) (h _)

/-- with pairwise distinct merge paths, the stage does not depend on the ORDER of the entries -/
theorem getFile_stageOf_perm {l1 l2 : List (Option Text × FileOut)} (hp : l1.Perm l2)
    (hd : (l1.filterMap (·.1)).Nodup) (fs : List (Text × Bytes)) (p : Text) :
    getFile (stageOf fs l1) p = getFile (stageOf fs l2) p := by
  have hd2 : (l2.filterMap (·.1)).Nodup := (hp.filterMap _).nodup_iff.mp hd
  rw [getFile_stageOf, getFile_stageOf]
  by_cases hex : ∃ o, (some p, o) ∈ l1
  · obtain ⟨o, ho⟩ := hex
    rw [lastBytes_of_mem hd ho, lastBytes_of_mem hd2 (hp.mem_iff.mp ho)]
  · have h1 : ∀ o, (some p, o) ∉ l1 := fun o ho => hex ⟨o, ho⟩
    have h2 : ∀ o, (some p, o) ∉ l2 := fun o ho => hex ⟨o, hp.mem_iff.mpr ho⟩
    rw [lastBytes_none_of_not_mem h1, lastBytes_none_of_not_mem h2]

/-! ### totality: a session over files without a legacy module never makes the observers raise -/

/-- every details tree of the comparer's observers is well formed -/
def ObsInv (l : ObsList) : Prop := TreeM.Inv l.own.details ∧ ∀ o ∈ l.observers, TreeM.Inv o.details

theorem addStats_details (loc : Option Text) : ∀ (st : List (StatKey × Nat)) (o : Obs), (o.addStats loc st).details = o.details
  | [], _ => rfl
  | (c, v) :: rest, o => by
    simp only [Obs.addStats]
    rw [addStats_details loc rest]
    split <;> rfl

theorem updateStats_details (o : Obs) (f : File) (st : List (StatKey × Nat)) : (o.updateStats f st).details = o.details := by
  unfold Obs.updateStats
  split
  · split
    · rfl
    · exact addStats_details _ _ _
  · exact addStats_details _ _ _

theorem obsInv_updateStats {l : ObsList} (h : ObsInv l) (f : File) (st : List (StatKey × Nat)) : ObsInv (l.updateStats f st) := by
  refine ⟨by simp only [ObsList.updateStats, updateStats_details]; exact h.1, ?_⟩
  intro o ho
  simp only [ObsList.updateStats, List.mem_map] at ho
  obtain ⟨o0, ho0, rfl⟩ := ho
  rw [updateStats_details]; exact h.2 o0 ho0

theorem notify_total {l : ObsList} (h : ObsInv l) (cat : Cat) {f : File} (hm : Modelled f) (d : Data) :
    ∃ l' rv, l.notify cat f d = .ok (l', rv) ∧ ObsInv l' := by
  obtain ⟨l1, hr⟩ := list_run_ok [Ev.notify cat f d] l h.1 h.2 (by intro ev hev; simp at hev; subst hev; exact hm)
  simp only [ObsList.run, bind, Except.bind] at hr
  cases hs : l.step (.notify cat f d) with
  | error e => rw [hs] at hr; cases hr
  | ok l2 =>
    have hstep := hs
    simp only [ObsList.step, bind, Except.bind] at hs
    cases hn : l.notify cat f d with
    | error e => rw [hn] at hs; cases hs
    | ok p =>
      obtain ⟨l', rv⟩ := p
      rw [hn] at hs
      simp only [pure, Except.pure, Except.ok.injEq] at hs
      subst hs
      refine ⟨l', rv, rfl, ?_⟩
      obtain ⟨s1, s2⟩ := list_step_spec hstep
      refine ⟨?_, ?_⟩
      · cases hi : ignList l.filters (.notify cat f d)
        · rw [hi] at s1
          simp only [Bool.false_eq_true, ↓reduceIte] at s1
          exact (step_details h.1 s1).1
        · rw [hi] at s1
          simp only [↓reduceIte] at s1
          rw [s1]; exact h.1
      · intro o1 ho1
        obtain ⟨o, ho, hso⟩ := All₂.mem_right s2 o1 ho1
        exact (step_details (h.2 o ho) hso).1

theorem missingLoop_total {file : File} (hm : Modelled file) : ∀ (ents : List (Data × Text)) (l : ObsList), ObsInv l →
    ∃ l' ms m r, missingLoop l file ents = .ok (l', ms, m, r) ∧ ObsInv l'
  | [], l, h => ⟨l, [], 0, 0, rfl, h⟩
  | (key, refAll) :: rest, l, h => by
    obtain ⟨l1, rv, hn, h1⟩ := notify_total h .missingEntity hm key
    obtain ⟨l2, ms, m, r, hl, h2⟩ := missingLoop_total hm rest l1 h1
    simp only [missingLoop, bind, Except.bind, hn, hl]
    cases rv <;> simp [pure, Except.pure] <;> exact h2

theorem fileOf_modelled (j : Job) : Modelled (fileOf j) := by
  intro m hmod; simp [fileOf] at hmod

theorem compareFinish_inv {r : St × FileOut} (h : ObsInv r.1.obs) (j : Job) (m rep : Nat) :
    ObsInv (compareFinish r j m rep).1.obs := by
  unfold compareFinish
  split
  · exact h
  · exact obsInv_updateStats h _ _

theorem stepWith_total (pc : Option Nat) {s : St} (h : ObsInv s.obs) (j : Job) :
    ∃ s' out, stepWith pc s j = .ok (s', out) ∧ ObsInv s'.obs := by
  unfold stepWith
  cases hk : j.kind with
  | remove =>
    obtain ⟨l1, rv, hn, h1⟩ := notify_total h .obsoleteFile (fileOf_modelled j) .none
    simp only [bind, Except.bind, hn, pure, Except.pure]
    refine ⟨(callMerge { s with obs := l1 } j.mergePath CAN_COPY j.l10n j.ref [] []).1,
      (callMerge { s with obs := l1 } j.mergePath CAN_COPY j.l10n j.ref [] []).2, rfl, ?_⟩
    rw [callMerge_obs]; exact h1
  | add =>
    have h0 : ObsInv (addMerge pc s j).1.obs := by rw [addMerge_obs]; exact h
    obtain ⟨l1, rv, hn, h1⟩ := notify_total h0 .missingFile (fileOf_modelled j) .none
    simp only [bind, Except.bind, hn, pure, Except.pure]
    split
    · exact ⟨_, _, rfl, h1⟩
    · split
      · exact ⟨_, _, rfl, h1⟩
      · exact ⟨_, _, rfl, obsInv_updateStats h1 _ _⟩
  | compare =>
    cases pc with
    | none =>
      simp only [pure, Except.pure]
      refine ⟨(callMerge s j.mergePath CAN_COPY j.l10n j.ref [] []).1,
        (callMerge s j.mergePath CAN_COPY j.l10n j.ref [] []).2, rfl, ?_⟩
      rw [callMerge_obs]; exact h
    | some caps =>
      obtain ⟨l1, ms, m, r, hl, h1⟩ := missingLoop_total (fileOf_modelled j) j.ents s.obs h
      simp only [bind, Except.bind, hl, pure, Except.pure]
      refine ⟨(compareFinish (compareMergeCall { s with obs := l1 } j caps ms) j m r).1,
        (compareFinish (compareMergeCall { s with obs := l1 } j caps ms) j m r).2, rfl, compareFinish_inv ?_ j m r⟩
      rw [compareMergeCall_obs]; exact h1

theorem run_total : ∀ (jobs : List Job) (s : St), ObsInv s.obs → ∃ s' outs, run s jobs = .ok (s', outs)
  | [], s, _ => ⟨s, [], rfl⟩
  | j :: rest, s, h => by
    obtain ⟨s1, o, hs, h1⟩ := stepWith_total (capsOfName j.name) h j
    obtain ⟨s2, os, hr⟩ := run_total rest s1 h1
    have hs' : MergeS.step s j = .ok (s1, o) := hs
    exact ⟨s2, o :: os, by simp [run, hs', hr, bind, Except.bind, pure, Except.pure]⟩

theorem init_inv (q : Nat) (filters : List (Option Filter)) : ObsInv (St.init q filters).obs := by
  refine ⟨by simp [St.init, ObsList.init, Obs.init]; exact inv_empty, ?_⟩
  intro o ho
  simp only [St.init, ObsList.init, List.mem_map] at ho
  obtain ⟨f, _, rfl⟩ := ho
  simp [Obs.init]; exact inv_empty

theorem init_filters (q : Nat) (filters : List (Option Filter)) : filtersOf (St.init q filters) = filters := by
  simp [filtersOf, St.init, ObsList.init, Obs.init, List.map_map, Function.comp_def]

/-! ### a memory of parser lookups -/

/-- the key determines what `getParser` answers -/
def KeySufficient {K : Type} (key : Text → K) : Prop := ∀ a b, key a = key b → capsOfName a = capsOfName b

/-- every remembered answer is the answer for every name with that key -/
def CacheOK {K : Type} (key : Text → K) (cache : List (K × Option Nat)) : Prop :=
  ∀ e ∈ cache, ∀ n, key n = e.1 → capsOfName n = e.2

theorem lookupCaps_sound {K : Type} [BEq K] [LawfulBEq K] {key : Text → K} (hk : KeySufficient key)
    {cache : List (K × Option Nat)} (hc : CacheOK key cache) (name : Text) :
    (lookupCaps key cache name).2 = capsOfName name ∧ CacheOK key (lookupCaps key cache name).1 := by
  unfold lookupCaps
  cases hf : cache.find? (·.1 == key name) with
  | some e =>
    have hmem := List.mem_of_find?_eq_some hf
    have hkey : e.1 = key name := by simpa using List.find?_some hf
    exact ⟨(hc e hmem name hkey.symm).symm, hc⟩
  | none =>
    refine ⟨rfl, ?_⟩
    intro e he n hn
    simp only [List.mem_append, List.mem_singleton] at he
    cases he with
    | inl h => exact hc e h n hn
    | inr h => subst h; exact hk _ _ hn

theorem stepWith_remove (pc pc' : Option Nat) (s : St) (j : Job) (hk : j.kind = .remove) :
    stepWith pc s j = stepWith pc' s j := by
  unfold stepWith; simp only [hk]

theorem cstep_eq_step {K : Type} [BEq K] [LawfulBEq K] {key : Text → K} (hk : KeySufficient key) {cs cs' : CSt K}
    (hc : CacheOK key cs.cache) {j : Job} {out : FileOut} (h : cstep key cs j = .ok (cs', out)) :
    step cs.st j = .ok (cs'.st, out) ∧ CacheOK key cs'.cache := by
  unfold cstep at h
  have hlook := lookupCaps_sound hk hc j.name
  cases hkind : j.kind with
  | remove =>
    simp only [hkind, bind, Except.bind] at h
    cases hs : stepWith none cs.st j with
    | error e => rw [hs] at h; cases h
    | ok p =>
      rw [hs] at h
      simp only [pure, Except.pure, Except.ok.injEq, Prod.mk.injEq] at h
      refine ⟨?_, by rw [← h.1]; exact hc⟩
      unfold MergeS.step
      rw [stepWith_remove _ none _ _ hkind, hs, ← h.1, ← h.2]
  | add =>
    simp only [hkind, bind, Except.bind] at h
    rw [hlook.1] at h
    cases hs : stepWith (capsOfName j.name) cs.st j with
    | error e => rw [hs] at h; cases h
    | ok p =>
      rw [hs] at h
      simp only [pure, Except.pure, Except.ok.injEq, Prod.mk.injEq] at h
      refine ⟨?_, by rw [← h.1]; exact hlook.2⟩
      unfold MergeS.step
      rw [hs, ← h.1, ← h.2]
  | compare =>
    simp only [hkind, bind, Except.bind] at h
    rw [hlook.1] at h
    cases hs : stepWith (capsOfName j.name) cs.st j with
    | error e => rw [hs] at h; cases h
    | ok p =>
      rw [hs] at h
      simp only [pure, Except.pure, Except.ok.injEq, Prod.mk.injEq] at h
      refine ⟨?_, by rw [← h.1]; exact hlook.2⟩
      unfold MergeS.step
      rw [hs, ← h.1, ← h.2]

theorem crun_eq_run {K : Type} [BEq K] [LawfulBEq K] {key : Text → K} (hk : KeySufficient key) :
    ∀ (jobs : List Job) (cs cs' : CSt K) (outs : List FileOut), CacheOK key cs.cache →
      crun key cs jobs = .ok (cs', outs) → run cs.st jobs = .ok (cs'.st, outs)
  | [], cs, cs', outs, _, h => by
    simp only [crun, pure, Except.pure, Except.ok.injEq, Prod.mk.injEq] at h
    rw [← h.1, ← h.2]; rfl
  | j :: rest, cs, cs', outs, hc, h => by
    simp only [crun, bind, Except.bind] at h
    cases hs : cstep key cs j with
    | error e => rw [hs] at h; cases h
    | ok p =>
      obtain ⟨c1, o⟩ := p
      rw [hs] at h
      simp only at h
      cases hr : crun key c1 rest with
      | error e => rw [hr] at h; cases h
      | ok q =>
        obtain ⟨c2, os⟩ := q
        rw [hr] at h
        simp only [pure, Except.pure, Except.ok.injEq, Prod.mk.injEq] at h
        obtain ⟨hstep, hc1⟩ := cstep_eq_step hk hc hs
        have ih := crun_eq_run hk rest c1 c2 os hc1 hr
        simp only [run, bind, Except.bind, hstep, ih, pure, Except.pure]
        rw [← h.1, ← h.2]

theorem cstep_filters {K : Type} [BEq K] {key : Text → K} {cs cs' : CSt K} {j : Job} {out : FileOut}
    (h : cstep key cs j = .ok (cs', out)) : filtersOf cs'.st = filtersOf cs.st := by
  unfold cstep at h
  cases hkind : j.kind <;> simp only [hkind, bind, Except.bind] at h
  all_goals
    split at h
    · cases h
    · rename_i p hs
      simp only [pure, Except.pure, Except.ok.injEq, Prod.mk.injEq] at h
      rw [← h.1]
      exact stepWith_filters (out := p.2) hs

/-- the outcomes of a session on a comparer that remembers parser lookups under `key`: the stateless per-job function fed
    with what the memory answers -/
theorem crun_spec {K : Type} [BEq K] {key : Text → K} : ∀ (jobs : List Job) (cs cs' : CSt K) (outs : List FileOut),
    crun key cs jobs = .ok (cs', outs) → outs = cachedOuts key (filtersOf cs.st) cs.cache jobs
  | [], cs, cs', outs, h => by
    simp only [crun, pure, Except.pure, Except.ok.injEq, Prod.mk.injEq] at h
    rw [← h.2]; rfl
  | j :: rest, cs, cs', outs, h => by
    simp only [crun, bind, Except.bind] at h
    cases hs : cstep key cs j with
    | error e => rw [hs] at h; cases h
    | ok p =>
      obtain ⟨c1, o⟩ := p
      rw [hs] at h
      simp only at h
      cases hr : crun key c1 rest with
      | error e => rw [hr] at h; cases h
      | ok q =>
        obtain ⟨c2, os⟩ := q
        rw [hr] at h
        simp only [pure, Except.pure, Except.ok.injEq, Prod.mk.injEq] at h
        have ih := crun_spec rest c1 c2 os hr
        rw [cstep_filters hs] at ih
        rw [← h.2, ih]
        unfold cstep at hs
        cases hkind : j.kind with
        | remove =>
          simp only [hkind, bind, Except.bind] at hs
          cases hst : stepWith none cs.st j with
          | error e => rw [hst] at hs; cases hs
          | ok r =>
            rw [hst] at hs
            simp only [pure, Except.pure, Except.ok.injEq, Prod.mk.injEq] at hs
            have ho := stepWith_out (out := r.2) hst
            simp only [cachedOuts, hkind]
            rw [← hs.1, ← hs.2, ho]
        | add =>
          simp only [hkind, bind, Except.bind] at hs
          cases hst : stepWith (lookupCaps key cs.cache j.name).2 cs.st j with
          | error e => rw [hst] at hs; cases hs
          | ok r =>
            rw [hst] at hs
            simp only [pure, Except.pure, Except.ok.injEq, Prod.mk.injEq] at hs
            have ho := stepWith_out (out := r.2) hst
            simp only [cachedOuts, hkind]
            rw [← hs.1, ← hs.2, ho]
        | compare =>
          simp only [hkind, bind, Except.bind] at hs
          cases hst : stepWith (lookupCaps key cs.cache j.name).2 cs.st j with
          | error e => rw [hst] at hs; cases hs
          | ok r =>
            rw [hst] at hs
            simp only [pure, Except.pure, Except.ok.injEq, Prod.mk.injEq] at hs
            have ho := stepWith_out (out := r.2) hst
            simp only [cachedOuts, hkind]
            rw [← hs.1, ← hs.2, ho]

end C04S

/-
C18 (round 5): evaluated reports of two small `.ini` pairs, for the non-vacuity witness of `compare_after_rewrite`
(`AR.addRemove` sorts with `List.mergeSort`, which the kernel does not unfold: the two reports are computed by `simp`
as in `C18.collision_fresh`).
-/
import CLModel.History.World
import CLModel.Proofs.C18World
namespace C18W
open Hist HistM HistW P

/-- "a=1\nb=2\n" -/
def refAB : Array Nat := #[97, 61, 49, 10, 98, 61, 50, 10]
/-- "a=1\n" -/
def refA1 : Array Nat := #[97, 61, 49, 10]

theorem arAB_A : AR.addRemove [[97], [98]] [[97]] = [(.equal, [97]), (.delete, [98])] := by
  simp [AR.addRemove, AR.leftMap, AR.rightStep, AR.dset, AR.dget, List.zipIdx, AR.leKey, List.mergeSort,
    List.MergeSort.Internal.splitInTwo]

theorem arA_A : AR.addRemove [[97]] [[97]] = [(.equal, [97])] := by
  simp [AR.addRemove, AR.leftMap, AR.rightStep, AR.dset, AR.dget, List.zipIdx, AR.leKey]

def kA : KEnt (List Nat) := { key := [97], junk := false, val := [49], s := 0, e := 3, words := 1, moch := [] }
def kB : KEnt (List Nat) := { key := [98], junk := false, val := [50], s := 4, e := 7, words := 1, moch := [] }

set_option maxRecDepth 100000 in
theorem parseAB : (kents .ini refAB (doParse G.init .ini refAB).2.2).map (KEnt.mapKey Key.render) = [kA, kB] := by
  decide

set_option maxRecDepth 100000 in
theorem parseA1_afterAB :
    (kents .ini refA1 (doParse (doParse G.init .ini refAB).1 .ini refA1).2.2).map (KEnt.mapKey Key.render) = [kA] := by
  decide

set_option maxRecDepth 100000 in
theorem parseA1 : (kents .ini refA1 (doParse G.init .ini refA1).2.2).map (KEnt.mapKey Key.render) = [kA] := by
  decide

set_option maxRecDepth 100000 in
theorem parseA1_afterA1 :
    (kents .ini refA1 (doParse (doParse G.init .ini refA1).1 .ini refA1).2.2).map (KEnt.mapKey Key.render) = [kA] := by
  decide

/-- reference `a=1\nb=2\n`, localization `a=1\n` in a fresh interpreter: `b` is missing -/
theorem cmp_AB_A :
    (Hist.step G.init (.compare .ini refAB refA1)).2
      = .report (.ok ([.missing [98]], { missing := 1, missing_w := 1, unchanged := 1, unchanged_w := 1 })) := by
  simp only [Hist.step]
  congr 1
  unfold reportStr
  rw [parseAB, parseA1_afterAB]
  have h1 : [kA, kB].map (·.key) = [[97], [98]] := rfl
  have h2 : [kA].map (·.key) = [[97]] := rfl
  have d1 : findDuplicates [[97], [98]] = ([] : List (List Nat × Nat)) := by decide
  have d2 : findDuplicates [[97]] = ([] : List (List Nat × Nat)) := by decide
  simp only [compareG, h1, h2, arAB_A, d1, d2]
  rfl

/-- reference `a=1\n`, localization `a=1\n`: nothing is missing -/
theorem cmp_A_A :
    (Hist.step G.init (.compare .ini refA1 refA1)).2 = .report (.ok ([], { unchanged := 1, unchanged_w := 1 })) := by
  simp only [Hist.step]
  congr 1
  unfold reportStr
  rw [parseA1, parseA1_afterA1]
  have h2 : [kA].map (·.key) = [[97]] := rfl
  have d2 : findDuplicates [[97]] = ([] : List (List Nat × Nat)) := by decide
  simp only [compareG, h2, arA_A, d2]
  rfl

set_option maxRecDepth 100000 in
theorem keysA_A : (refK .ini refA1).map (·.key) ++ (l10nK .ini refA1 refA1).map (·.key) = [.real [97], .real [97]] := by
  decide

set_option maxRecDepth 100000 in
theorem keysAB_A : (refK .ini refAB).map (·.key) ++ (l10nK .ini refAB refA1).map (·.key)
    = [.real [97], .real [98], .real [97]] := by
  decide

theorem noJunkLikeA_A : NoJunkLikeKeys .ini refA1 refA1 := by
  intro t ht hs
  rw [keysA_A] at ht
  have hh := junkShaped_head t hs
  simp at ht
  subst ht
  simp at hh

theorem noJunkLikeAB_A : NoJunkLikeKeys .ini refAB refA1 := by
  intro t ht hs
  rw [keysAB_A] at ht
  have hh := junkShaped_head t hs
  simp at ht
  rcases ht with rfl | rfl | rfl <;> simp at hh

end C18W

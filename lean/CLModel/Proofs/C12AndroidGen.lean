/- A general Android round-trip lemma: `re.sub` with a callback as left-to-right rewriting by a local rule, the three
   substitutions of the Android conversions analysed subtag by subtag. -/
import CLModel.Paths.Matcher
import CLModel.Proofs.C12Scan
import CLModel.Proofs.C12MozLex
namespace C12A
open Rx PM C12S

/-- rewriting a text left to right with a local rule: at a position where `loc` fires (`n` characters become `rep`)
    the replacement is emitted and the scan goes on after the `n` characters, otherwise the character is kept -/
def rewriteF (loc : Text → Option (Nat × Text)) : Nat → Text → Text
  | 0, l => l
  | _ + 1, [] => []
  | f + 1, c :: cs =>
    match loc (c :: cs) with
    | some (n, rep) => rep ++ rewriteF loc f ((c :: cs).drop n)
    | none => c :: rewriteF loc f cs

/-- the local rule describes the regex at every position of the subject -/
def LocalOK (s : Array Nat) (r : Re) (f : St → Except PyErr Text) (loc : Text → Option (Nat × Text)) : Prop :=
  ∀ p, p ≤ s.size →
    match loc (s.toList.drop p) with
    | some (n, rep) => 0 < n ∧ ∃ st, matchAt s r p = some st ∧ st.pos = p + n ∧ f st = .ok rep
    | none => matchAt s r p = none

theorem slice_eq' (s : Array Nat) (a b : Nat) : slice s a b = (s.toList.drop a).take (b - a) := C12M.slice_eq s a b

theorem rewriteF_fuel (loc : Text → Option (Nat × Text)) (hpos : ∀ l n rep, loc l = some (n, rep) → 0 < n) :
    ∀ (k f f' : Nat) (l : Text), l.length ≤ k → l.length ≤ f → l.length ≤ f' → rewriteF loc f l = rewriteF loc f' l
  | _, 0, 0, _, _, _, _ => rfl
  | _, 0, f' + 1, l, _, h, _ => by
    have : l = [] := by cases l <;> simp_all
    subst this; rfl
  | _, f + 1, 0, l, _, _, h => by
    have : l = [] := by cases l <;> simp_all
    subst this; rfl
  | _, f + 1, f' + 1, [], _, _, _ => rfl
  | 0, f + 1, f' + 1, c :: cs, hk, _, _ => by simp at hk
  | k + 1, f + 1, f' + 1, c :: cs, hk, h, h' => by
    simp only [rewriteF]
    cases hl : loc (c :: cs) with
    | none =>
      simp only
      rw [rewriteF_fuel loc hpos k f f' cs (by simpa using hk) (by simpa using h) (by simpa using h')]
    | some nr =>
      obtain ⟨n, rep⟩ := nr
      have hn := hpos _ _ _ hl
      simp only
      have hd : ((c :: cs).drop n).length ≤ cs.length := by
        simp only [List.length_drop, List.length_cons]; omega
      simp only [List.length_cons] at hk h h'
      rw [rewriteF_fuel loc hpos k f f' _ (by omega) (by omega) (by omega)]

theorem go_scan (s : Array Nat) (r : Re) (f : St → Except PyErr Text) (loc : Text → Option (Nat × Text))
    (hloc : LocalOK s r f loc) (hpos : ∀ l n rep, loc l = some (n, rep) → 0 < n) : ∀ (fu p last : Nat), p ≤ s.size → last ≤ p → s.size + 1 - p ≤ fu →
    subWithE.go s f (scanPos s r fu p) last = .ok (slice s last p ++ rewriteF loc (s.size - p + 1) (s.toList.drop p))
  | 0, p, last, hp, _, hf => by omega
  | fu + 1, p, last, hp, hl, hf => by
    have h := hloc p hp
    simp only [scanPos, show ¬ p > s.size by omega, if_false]
    by_cases hend : p = s.size
    · subst hend
      have hd : s.toList.drop s.size = [] := List.drop_eq_nil_of_le (by simp)
      rw [hd] at h ⊢
      cases hl0 : loc [] with
      | some nr =>
        obtain ⟨n, rep⟩ := nr
        rw [hl0] at h
        obtain ⟨hn, st, hm, hpos, _⟩ := h
        have := (matchAt_span hm (Nat.le_refl _)).2
        omega
      | none =>
        rw [hl0] at h
        simp only [h]
        rw [scanPos_beyond _ _ _ _ (by omega)]
        simp [subWithE.go, pure, Except.pure, rewriteF]
    · have hlt : p < s.size := by omega
      have hc : s[p]? = some s[p] := by simp [hlt]
      have hd : s.toList.drop p = s[p] :: s.toList.drop (p + 1) := by
        have hlt' : p < s.toList.length := by simpa using hlt
        rw [List.drop_eq_getElem_cons hlt']
        simp
      have e : s.size - p + 1 = (s.size - (p + 1) + 1) + 1 := by omega
      cases hl0 : loc (s.toList.drop p) with
      | none =>
        rw [hl0] at h
        simp only [h]
        rw [go_scan s r f loc hloc hpos fu (p + 1) last (by omega) (by omega) (by omega)]
        rw [e, hd]
        rw [hd] at hl0
        simp only [rewriteF, hl0]
        rw [C12M.slice_succ s hl hc]
        simp
      | some nr =>
        obtain ⟨n, rep⟩ := nr
        rw [hl0] at h
        obtain ⟨hn, st, hm, hstpos, hfst⟩ := h
        have hb := (matchAt_span hm hp).2
        simp only [hm, subWithE.go, hfst, bind, Except.bind, hstpos]
        rw [go_scan s r f loc hloc hpos fu (p + n) (p + n) (by omega) (Nat.le_refl _) (by omega)]
        have hs0 : slice s (p + n) (p + n) = [] := by rw [slice_eq']; simp
        rw [e, hd]
        rw [hd] at hl0
        simp only [rewriteF, hl0, hs0, List.nil_append, pure, Except.pure]
        have hdd : (s[p] :: s.toList.drop (p + 1)).drop n = s.toList.drop (p + n) := by
          rw [← hd, List.drop_drop]
        rw [hdd]
        -- the fuel of `rewriteF` does not matter once it covers the text
        rw [rewriteF_fuel loc hpos (s.size - (p + n)) (s.size - (p + 1) + 1) (s.size - (p + n) + 1) _ (by simp) (by simp; omega)
          (by simp)]
        rw [List.append_assoc]

/-- **`re.sub` with a callback is the left-to-right rewriting by the local rule** (for a pattern whose matches are never
    empty and a rule that describes it at every position) -/
theorem subWithE_rewrite (s : Array Nat) (r : Re) (f : St → Except PyErr Text) (loc : Text → Option (Nat × Text))
    (hne : NonEmpty s r) (hloc : LocalOK s r f loc) (hpos : ∀ l n rep, loc l = some (n, rep) → 0 < n) :
    subWithE s r f = .ok (rewriteF loc (s.size + 1) s.toList) := by
  unfold subWithE
  rw [finditer_scan s r hne]
  have := go_scan s r f loc hloc hpos (s.size + 1) 0 0 (Nat.zero_le _) (Nat.le_refl _) (by omega)
  rw [this]
  have hs0 : slice s 0 0 = [] := by rw [slice_eq']; simp
  simp [hs0]


/-- `(?=\Z|-)` right here -/
def endOrDash (r : Text) : Bool := r == [] || r.head? == some 45

/-- the local rule of `re.sub(r"(he|id|yi)(?=\Z|-)", ...)` -/
def locFwd : Text → Option (Nat × Text)
  | a :: b :: r =>
    if endOrDash r then
      match Gen.Tables.androidLegacyMap.lookup [a, b] with
      | some t => some (2, t)
      | none => none
    else none
  | _ => none

theorem fwd_hit (s : Array Nat) (p : Nat) (l : Text) (g : ∀ i, s[p + i]? = l[i]?) (hsz : s.size = p + l.length) :
    matchAt s Gen.Pat.paths_matcher_AndroidLocale__get_android_locale_0 p =
      (locFwd l).map (fun _ => (⟨p + 2, [(1, p, p + 2)]⟩ : St)) := by
  have g0 := g 0
  have g1 := g 1
  have g2 := g 2
  simp only [Nat.add_zero] at g0
  match l, g0, g1, g2, hsz with
  | [], g0, _, _, _ =>
    simp at g0
    simp [matchAt, Gen.Pat.paths_matcher_AndroidLocale__get_android_locale_0, m, locFwd, g0]
  | [c0], g0, g1, _, _ =>
    simp at g0 g1
    simp [matchAt, Gen.Pat.paths_matcher_AndroidLocale__get_android_locale_0, m, locFwd, g0, g1]
  | c0 :: c1 :: r, g0, g1, g2, hsz =>
    simp only [List.getElem?_cons_zero, List.getElem?_cons_succ] at g0 g1 g2
    have hend : (p + 2 == s.size) = (r == []) := by
      cases r <;> simp [hsz] <;> omega
    have h45 : (s[p + 2]? == some 45) = (r.head? == some 45) := by
      rw [g2]; cases r <;> simp
    have fin : ∀ (st1 st2 : St) (res : St),
        (match (if r = [] then some st1 else none).or (if r.head? = some 45 then some st2 else none) with
          | some _ => some res
          | none => none) = if r = [] ∨ r.head? = some 45 then some res else none := by
      intro st1 st2 res
      by_cases hr : r = [] <;> by_cases h5 : r.head? = some 45 <;> simp [hr, h5]
    by_cases hA : c0 = 104 ∧ c1 = 101
    · obtain ⟨rfl, rfl⟩ := hA
      simp [matchAt, Gen.Pat.paths_matcher_AndroidLocale__get_android_locale_0, m, locFwd, g0, g1, hend, h45, endOrDash,
        Gen.Tables.androidLegacyMap, List.lookup]
      by_cases hr : r = [] <;> by_cases h5 : r.head? = some 45 <;> simp [hr, h5]
    · by_cases hB : c0 = 105 ∧ c1 = 100
      · obtain ⟨rfl, rfl⟩ := hB
        simp [matchAt, Gen.Pat.paths_matcher_AndroidLocale__get_android_locale_0, m, locFwd, g0, g1, hend, h45, endOrDash,
          Gen.Tables.androidLegacyMap, List.lookup]
        by_cases hr : r = [] <;> by_cases h5 : r.head? = some 45 <;> simp [hr, h5]
      · by_cases hC : c0 = 121 ∧ c1 = 105
        · obtain ⟨rfl, rfl⟩ := hC
          simp [matchAt, Gen.Pat.paths_matcher_AndroidLocale__get_android_locale_0, m, locFwd, g0, g1, hend, h45, endOrDash,
            Gen.Tables.androidLegacyMap, List.lookup]
          by_cases hr : r = [] <;> by_cases h5 : r.head? = some 45 <;> simp [hr, h5]
        · -- no pair: neither the regex nor the table has it
          have hnone : Gen.Tables.androidLegacyMap.lookup [c0, c1] = none := by
            simp only [Gen.Tables.androidLegacyMap, List.lookup]
            have e1 : ([c0, c1] == [104, 101]) = false := by simpa using hA
            have e2 : ([c0, c1] == [105, 100]) = false := by simpa using hB
            have e3 : ([c0, c1] == [121, 105]) = false := by simpa using hC
            simp [e1, e2, e3]
          simp only [locFwd, hnone]
          have hloc : (match (none : Option Text) with
              | some t => some (2, t)
              | none => (none : Option (Nat × Text))) = none := rfl
          simp only [hloc, ite_self, Option.map_none]
          by_cases h0 : c0 = 104
          · subst h0
            have h1 : ¬ c1 = 101 := fun e => hA ⟨rfl, e⟩
            have h1' : ¬ 101 = c1 := fun e => h1 e.symm
            simp [matchAt, Gen.Pat.paths_matcher_AndroidLocale__get_android_locale_0, m, g0, g1, h1, h1']
          · by_cases h0b : c0 = 105
            · subst h0b
              have h1 : ¬ c1 = 100 := fun e => hB ⟨rfl, e⟩
              have h1' : ¬ 100 = c1 := fun e => h1 e.symm
              simp [matchAt, Gen.Pat.paths_matcher_AndroidLocale__get_android_locale_0, m, g0, g1, h1, h1']
            · by_cases h0c : c0 = 121
              · subst h0c
                have h1 : ¬ c1 = 105 := fun e => hC ⟨rfl, e⟩
                have h1' : ¬ 105 = c1 := fun e => h1 e.symm
                simp [matchAt, Gen.Pat.paths_matcher_AndroidLocale__get_android_locale_0, m, g0, g1, h1, h1']
              · have a1 : ¬ 104 = c0 := fun e => h0 e.symm
                have a2 : ¬ 105 = c0 := fun e => h0b e.symm
                have a3 : ¬ 121 = c0 := fun e => h0c e.symm
                simp [matchAt, Gen.Pat.paths_matcher_AndroidLocale__get_android_locale_0, m, g0, h0, h0b, h0c, a1, a2, a3]
/-- the local rule of `re.sub(r"(iw|in|ji)(?=\Z|-)", ...)` -/
def locBack : Text → Option (Nat × Text)
  | a :: b :: r =>
    if endOrDash r then
      match Gen.Tables.androidStandardMap.lookup [a, b] with
      | some t => some (2, t)
      | none => none
    else none
  | _ => none

theorem back_hit (s : Array Nat) (p : Nat) (l : Text) (g : ∀ i, s[p + i]? = l[i]?) (hsz : s.size = p + l.length) :
    matchAt s Gen.Pat.paths_matcher_Matcher_match_0 p =
      (locBack l).map (fun _ => (⟨p + 2, [(1, p, p + 2)]⟩ : St)) := by
  have g0 := g 0
  have g1 := g 1
  have g2 := g 2
  simp only [Nat.add_zero] at g0
  match l, g0, g1, g2, hsz with
  | [], g0, _, _, _ =>
    simp at g0
    simp [matchAt, Gen.Pat.paths_matcher_Matcher_match_0, m, locBack, g0]
  | [c0], g0, g1, _, _ =>
    simp at g0 g1
    simp [matchAt, Gen.Pat.paths_matcher_Matcher_match_0, m, locBack, g0, g1]
  | c0 :: c1 :: r, g0, g1, g2, hsz =>
    simp only [List.getElem?_cons_zero, List.getElem?_cons_succ] at g0 g1 g2
    have hend : (p + 2 == s.size) = (r == []) := by
      cases r <;> simp [hsz] <;> omega
    have h45 : (s[p + 2]? == some 45) = (r.head? == some 45) := by
      rw [g2]; cases r <;> simp
    have fin : ∀ (st1 st2 : St) (res : St),
        (match (if r = [] then some st1 else none).or (if r.head? = some 45 then some st2 else none) with
          | some _ => some res
          | none => none) = if r = [] ∨ r.head? = some 45 then some res else none := by
      intro st1 st2 res
      by_cases hr : r = [] <;> by_cases h5 : r.head? = some 45 <;> simp [hr, h5]
    by_cases hA : c0 = 105 ∧ c1 = 119
    · obtain ⟨rfl, rfl⟩ := hA
      simp [matchAt, Gen.Pat.paths_matcher_Matcher_match_0, m, locBack, g0, g1, hend, h45, endOrDash,
        Gen.Tables.androidStandardMap, List.lookup]
      by_cases hr : r = [] <;> by_cases h5 : r.head? = some 45 <;> simp [hr, h5]
    · by_cases hB : c0 = 105 ∧ c1 = 110
      · obtain ⟨rfl, rfl⟩ := hB
        simp [matchAt, Gen.Pat.paths_matcher_Matcher_match_0, m, locBack, g0, g1, hend, h45, endOrDash,
          Gen.Tables.androidStandardMap, List.lookup]
        by_cases hr : r = [] <;> by_cases h5 : r.head? = some 45 <;> simp [hr, h5]
      · by_cases hC : c0 = 106 ∧ c1 = 105
        · obtain ⟨rfl, rfl⟩ := hC
          simp [matchAt, Gen.Pat.paths_matcher_Matcher_match_0, m, locBack, g0, g1, hend, h45, endOrDash,
            Gen.Tables.androidStandardMap, List.lookup]
          by_cases hr : r = [] <;> by_cases h5 : r.head? = some 45 <;> simp [hr, h5]
        · -- no pair: neither the regex nor the table has it
          have hnone : Gen.Tables.androidStandardMap.lookup [c0, c1] = none := by
            simp only [Gen.Tables.androidStandardMap, List.lookup]
            have e1 : ([c0, c1] == [105, 119]) = false := by simpa using hA
            have e2 : ([c0, c1] == [105, 110]) = false := by simpa using hB
            have e3 : ([c0, c1] == [106, 105]) = false := by simpa using hC
            simp [e1, e2, e3]
          simp only [locBack, hnone]
          have hloc : (match (none : Option Text) with
              | some t => some (2, t)
              | none => (none : Option (Nat × Text))) = none := rfl
          simp only [hloc, ite_self, Option.map_none]
          by_cases h0 : c0 = 105
          · subst h0
            have h1 : ¬ c1 = 119 := fun e => hA ⟨rfl, e⟩
            have h1' : ¬ 119 = c1 := fun e => h1 e.symm
            have h2 : ¬ c1 = 110 := fun e => hB ⟨rfl, e⟩
            have h2' : ¬ 110 = c1 := fun e => h2 e.symm
            simp [matchAt, Gen.Pat.paths_matcher_Matcher_match_0, m, g0, g1, h1, h1', h2, h2']
          · by_cases h0c : c0 = 106
            · subst h0c
              have h1 : ¬ c1 = 105 := fun e => hC ⟨rfl, e⟩
              have h1' : ¬ 105 = c1 := fun e => h1 e.symm
              simp [matchAt, Gen.Pat.paths_matcher_Matcher_match_0, m, g0, g1, h1, h1']
            · have a1 : ¬ 105 = c0 := fun e => h0 e.symm
              have a3 : ¬ 106 = c0 := fun e => h0c e.symm
              simp [matchAt, Gen.Pat.paths_matcher_Matcher_match_0, m, g0, h0, h0c, a1, a3]


def isUp (c : Nat) : Bool := 65 ≤ c && c ≤ 90

/-- the local rule of `re.sub(r"-r([A-Z]{2})", r"-\1", ...)` -/
def locR : Text → Option (Nat × Text)
  | 45 :: 114 :: a :: b :: _ => if isUp a && isUp b then some (4, [45, a, b]) else none
  | _ => none

theorem r_hit (s : Array Nat) (p : Nat) (l : Text) (g : ∀ i, s[p + i]? = l[i]?) (hsz : s.size = p + l.length) :
    matchAt s Gen.Pat.paths_matcher_Matcher_match_1 p =
      (locR l).map (fun _ => (⟨p + 4, [(1, p + 2, p + 4)]⟩ : St)) := by
  have g0 := g 0
  have g1 := g 1
  have g2 := g 2
  have g3 := g 3
  simp only [Nat.add_zero] at g0
  have hcls : ∀ c : Nat, ([ClsItem.range 65 90].any (fun x => x.has c) != false) = isUp c := by
    intro c; simp [ClsItem.has, isUp]
  match l, g0, g1, g2, g3, hsz with
  | [], g0, _, _, _, _ =>
    simp at g0
    simp [matchAt, Gen.Pat.paths_matcher_Matcher_match_1, m, locR, g0]
  | [c0], g0, g1, _, _, _ =>
    simp at g0 g1
    by_cases h0 : c0 = 45
    · subst h0; simp [matchAt, Gen.Pat.paths_matcher_Matcher_match_1, m, locR, g0, g1]
    · have : ¬ 45 = c0 := fun e => h0 e.symm
      have hl : locR [c0] = none := by unfold locR; split <;> simp_all
      simp [matchAt, Gen.Pat.paths_matcher_Matcher_match_1, m, hl, g0, h0, this]
  | c0 :: c1 :: r, g0, g1, g2, g3, hsz =>
    simp only [List.getElem?_cons_zero, List.getElem?_cons_succ] at g0 g1 g2 g3
    by_cases h0 : c0 = 45
    · subst h0
      by_cases h1 : c1 = 114
      · subst h1
        -- the repeat `{2}`: enough fuel for two iterations
        have hf : s.size + 2 - (p + 1 + 1) = r.length + 2 := by simp [hsz] <;> omega
        match r, g2, g3, hf with
        | [], g2, _, hf =>
          simp at g2
          simp [matchAt, Gen.Pat.paths_matcher_Matcher_match_1, m, locR, g0, g1, hf, loop, g2]
        | [a], g2, g3, hf =>
          simp at g2 g3
          simp [matchAt, Gen.Pat.paths_matcher_Matcher_match_1, m, locR, g0, g1, hf, loop, g2, g3, hcls]
        | a :: b :: r', g2, g3, hf =>
          simp only [List.getElem?_cons_zero, List.getElem?_cons_succ] at g2 g3
          simp [matchAt, Gen.Pat.paths_matcher_Matcher_match_1, m, locR, g0, g1, hf, loop, g2, g3, hcls]
          have ha : ClsItem.has a (ClsItem.range 65 90) = isUp a := by simp [ClsItem.has, isUp]
          have hb : ClsItem.has b (ClsItem.range 65 90) = isUp b := by simp [ClsItem.has, isUp]
          rw [ha, hb]
          cases isUp a <;> cases isUp b <;> simp
      · have : ¬ 114 = c1 := fun e => h1 e.symm
        have hl : locR (45 :: c1 :: r) = none := by unfold locR; split <;> simp_all
        simp [matchAt, Gen.Pat.paths_matcher_Matcher_match_1, m, hl, g0, g1, h1, this]
    · have : ¬ 45 = c0 := fun e => h0 e.symm
      have hl : locR (c0 :: c1 :: r) = none := by unfold locR; split <;> simp_all
      simp [matchAt, Gen.Pat.paths_matcher_Matcher_match_1, m, hl, g0, h0, this]



/-- join subtags with a separator character -/
def joinWith (c : Nat) : List Text → Text
  | [] => []
  | [a] => a
  | a :: b :: r => a ++ c :: joinWith c (b :: r)

/-- a two-letter code at the END of a subtag is replaced through the table -/
def legT (tbl : List (Text × Text)) : Text → Text
  | [] => []
  | [x] => [x]
  | [x, y] => match tbl.lookup [x, y] with
    | some t => t
    | none => [x, y]
  | x :: y :: z :: r => x :: legT tbl (y :: z :: r)

def locT (tbl : List (Text × Text)) : Text → Option (Nat × Text)
  | a :: b :: r =>
    if endOrDash r then
      match tbl.lookup [a, b] with
      | some t => some (2, t)
      | none => none
    else none
  | _ => none

theorem locFwd_eq : locFwd = locT Gen.Tables.androidLegacyMap := by
  funext l; unfold locFwd locT; rfl

theorem locBack_eq : locBack = locT Gen.Tables.androidStandardMap := by
  funext l; unfold locBack locT; rfl

/-- the keys of the table have two characters, none of them "-" -/
def KeysOK (tbl : List (Text × Text)) : Prop := ∀ a b, (a = 45 ∨ b = 45) → tbl.lookup [a, b] = none

theorem keysOK_legacy : KeysOK Gen.Tables.androidLegacyMap := by
  intro a b h
  rcases h with rfl | rfl <;> simp [Gen.Tables.androidLegacyMap, List.lookup]

theorem keysOK_standard : KeysOK Gen.Tables.androidStandardMap := by
  intro a b h
  rcases h with rfl | rfl <;> simp [Gen.Tables.androidStandardMap, List.lookup]

theorem locT_pos (tbl : List (Text × Text)) : ∀ l n rep, locT tbl l = some (n, rep) → 0 < n := by
  intro l n rep h
  unfold locT at h
  split at h
  · split at h
    · split at h
      · simp only [Option.some.injEq, Prod.mk.injEq] at h; omega
      · cases h
    · cases h
  · cases h

/-- rewriting runs through a dash-free subtag: only its last two characters can be replaced -/
theorem rewrite_subtag (tbl : List (Text × Text)) (hk : KeysOK tbl) : ∀ (t rest : Text) (f : Nat), 45 ∉ t →
    (rest = [] ∨ rest.head? = some 45) → (t ++ rest).length ≤ f →
    rewriteF (locT tbl) f (t ++ rest) = legT tbl t ++ rewriteF (locT tbl) (f - t.length) rest
  | [], rest, f, _, _, _ => by simp [legT]
  | [x], rest, f, hx, hrest, hf => by
    have hx45 : x ≠ 45 := fun e => hx (by simp [e])
    obtain ⟨f', rfl⟩ : ∃ f', f = f' + 1 := ⟨f - 1, by simp at hf; omega⟩
    have hloc : locT tbl (x :: rest) = none := by
      rcases hrest with rfl | hr
      · rfl
      · cases rest with
        | nil => rfl
        | cons y r =>
          simp at hr; subst hr
          unfold locT
          simp only [hk x 45 (Or.inr rfl)]
          split <;> rfl
    simp only [List.singleton_append, rewriteF, hloc, legT, List.length_singleton, Nat.add_sub_cancel]
  | [x, y], rest, f, hx, hrest, hf => by
    obtain ⟨f', rfl⟩ : ∃ f', f = f' + 2 := ⟨f - 2, by simp at hf; omega⟩
    have hend : endOrDash rest = true := by
      rcases hrest with rfl | hr
      · rfl
      · simp [endOrDash, hr]
    have hy45 : y ≠ 45 := fun e => hx (by simp [e])
    cases hl : tbl.lookup [x, y] with
    | some t =>
      have hloc : locT tbl (x :: y :: rest) = some (2, t) := by simp [locT, hend, hl]
      simp only [List.cons_append, List.nil_append, rewriteF, hloc, legT, hl, List.drop_succ_cons, List.drop_zero,
        List.length_cons, List.length_nil]
      congr 1
      exact rewriteF_fuel _ (locT_pos tbl) rest.length _ _ _ (Nat.le_refl _) (by simp at hf; omega) (by simp at hf; omega)
    | none =>
      have hloc : locT tbl (x :: y :: rest) = none := by simp [locT, hend, hl]
      have hloc2 : locT tbl (y :: rest) = none := by
        rcases hrest with rfl | hr
        · rfl
        · cases rest with
          | nil => rfl
          | cons z r =>
            simp at hr; subst hr
            unfold locT
            simp only [hk y 45 (Or.inr rfl)]
            split <;> rfl
      simp only [List.cons_append, List.nil_append, rewriteF, hloc, hloc2, legT, hl, List.length_cons, List.length_nil]
      simp
  | x :: y :: z :: r, rest, f, hx, hrest, hf => by
    obtain ⟨f', rfl⟩ : ∃ f', f = f' + 1 := ⟨f - 1, by simp at hf; omega⟩
    have hz : z ≠ 45 := fun e => hx (by simp [e])
    have hloc : locT tbl (x :: y :: z :: (r ++ rest)) = none := by
      have : endOrDash (z :: (r ++ rest)) = false := by simp [endOrDash, hz]
      simp [locT, this]
    have ih := rewrite_subtag tbl hk (y :: z :: r) rest f' (fun e => hx (List.mem_cons_of_mem _ e)) hrest
      (by simp at hf ⊢; omega)
    simp only [List.cons_append] at ih ⊢
    simp only [rewriteF, hloc, legT]
    rw [ih]
    simp

theorem rewriteF_nil (loc : Text → Option (Nat × Text)) (f : Nat) : rewriteF loc f [] = [] := by cases f <;> rfl

theorem joinWith_cons2 (c : Nat) (a b : Text) (r : List Text) : joinWith c (a :: b :: r) = a ++ c :: joinWith c (b :: r) := rfl

/-- **the legacy substitutions work subtag by subtag** -/
theorem rewrite_join (tbl : List (Text × Text)) (hk : KeysOK tbl) : ∀ (ts : List Text) (f : Nat), (∀ t ∈ ts, 45 ∉ t) →
    (joinWith 45 ts).length ≤ f → rewriteF (locT tbl) f (joinWith 45 ts) = joinWith 45 (ts.map (legT tbl))
  | [], f, _, _ => by simp [joinWith, rewriteF_nil]
  | [a], f, h, hf => by
    have := rewrite_subtag tbl hk a [] f (h a (by simp)) (Or.inl rfl) (by simpa [joinWith] using hf)
    simpa [joinWith, rewriteF_nil] using this
  | a :: b :: r, f, h, hf => by
    rw [joinWith_cons2] at hf ⊢
    rw [rewrite_subtag tbl hk a _ f (h a (by simp)) (Or.inr rfl) hf]
    simp only [List.map_cons]
    rw [joinWith_cons2]
    congr 1
    obtain ⟨f', hf'⟩ : ∃ f', f - a.length = f' + 1 := ⟨f - a.length - 1, by simp at hf; omega⟩
    rw [hf']
    have hloc : locT tbl (45 :: joinWith 45 (b :: r)) = none := by
      unfold locT
      cases hj : joinWith 45 (b :: r) with
      | nil => rfl
      | cons y r' =>
        simp only [hk 45 y (Or.inl rfl)]
        split <;> rfl
    simp only [rewriteF, hloc]
    congr 1
    have := rewrite_join tbl hk (b :: r) f' (fun t ht => h t (by simp [ht])) (by simp at hf; omega)
    simpa using this

/-! ### the substitution `-rXX` -> `-XX` -/

theorem locR_pos : ∀ l n rep, locR l = some (n, rep) → 0 < n := by
  intro l n rep h
  unfold locR at h
  split at h
  · split at h
    · simp only [Option.some.injEq, Prod.mk.injEq] at h; omega
    · cases h
  · cases h

theorem locR_none_of_head {c : Nat} (r : Text) (h : c ≠ 45) : locR (c :: r) = none := by
  unfold locR
  split
  · rename_i heq; simp only [List.cons.injEq] at heq; exact absurd heq.1.symm (fun e => h e.symm)
  · rfl

theorem rewriteR_subtag : ∀ (t rest : Text) (f : Nat), 45 ∉ t → (t ++ rest).length ≤ f →
    rewriteF locR f (t ++ rest) = t ++ rewriteF locR (f - t.length) rest
  | [], rest, f, _, _ => by simp
  | x :: t, rest, f, hx, hf => by
    obtain ⟨f', rfl⟩ : ∃ f', f = f' + 1 := ⟨f - 1, by simp at hf; omega⟩
    have hx45 : x ≠ 45 := fun e => hx (by simp [e])
    simp only [List.cons_append, rewriteF, locR_none_of_head _ hx45]
    rw [rewriteR_subtag t rest f' (fun e => hx (List.mem_cons_of_mem _ e)) (by simp at hf ⊢; omega)]
    simp

/-- a subtag that does not look like `rXX` (r, then two capital letters) -/
def NotRegionQualifier (t : Text) : Prop :=
  ∀ a b q, t = 114 :: a :: b :: q → ¬ (isUp a = true ∧ isUp b = true)

/-- without a subtag of the form `rXX…` after the first one, nothing is replaced -/
theorem rewriteR_join_none : ∀ (ts : List Text) (f : Nat), (∀ t ∈ ts, 45 ∉ t) → (∀ t ∈ ts.tail, NotRegionQualifier t) →
    (joinWith 45 ts).length ≤ f → rewriteF locR f (joinWith 45 ts) = joinWith 45 ts
  | [], f, _, _, _ => by simp [joinWith, rewriteF_nil]
  | [a], f, h, _, hf => by
    have := rewriteR_subtag a [] f (h a (by simp)) (by simpa [joinWith] using hf)
    simpa [joinWith, rewriteF_nil] using this
  | a :: b :: r, f, h, hq, hf => by
    rw [joinWith_cons2] at hf ⊢
    rw [rewriteR_subtag a _ f (h a (by simp)) hf]
    congr 1
    obtain ⟨f', hf'⟩ : ∃ f', f - a.length = f' + 1 := ⟨f - a.length - 1, by simp at hf; omega⟩
    rw [hf']
    have hb45 : 45 ∉ b := h b (by simp)
    have hqb : NotRegionQualifier b := hq b (by simp)
    -- what follows the "-" starts with the subtag b
    have hstart : ∃ tl, joinWith 45 (b :: r) = b ++ tl ∧ (tl = [] ∨ tl.head? = some 45) := by
      cases r with
      | nil => exact ⟨[], by simp [joinWith], Or.inl rfl⟩
      | cons c r' => exact ⟨45 :: joinWith 45 (c :: r'), rfl, Or.inr rfl⟩
    obtain ⟨tl, hj, htl⟩ := hstart
    have hloc : locR (45 :: joinWith 45 (b :: r)) = none := by
      rw [hj]
      unfold locR
      split
      · rename_i _ x y w heq
        simp only [List.cons.injEq, true_and] at heq
        -- b ++ tl = 114 :: x :: y :: _ with x, y capitals: then b starts with r, x, y (they are not "-")
        split
        · rename_i hup
          simp only [Bool.and_eq_true] at hup
          exfalso
          have hx45 : x ≠ 45 := by intro e; rw [e] at hup; simp [isUp] at hup
          have hy45 : y ≠ 45 := by intro e; rw [e] at hup; simp [isUp] at hup
          match b, hb45, hqb, heq with
          | [], _, _, heq =>
            simp only [List.nil_append] at heq
            rcases htl with ht | ht
            · rw [ht] at heq; cases heq
            · rw [heq] at ht; simp at ht
          | [b0], hb45, _, heq =>
            simp only [List.cons_append, List.nil_append, List.cons.injEq] at heq
            rcases htl with ht | ht
            · rw [ht] at heq; cases heq.2
            · rw [heq.2] at ht; simp at ht; exact hx45 ht
          | [b0, b1], hb45, _, heq =>
            simp only [List.cons_append, List.nil_append, List.cons.injEq] at heq
            rcases htl with ht | ht
            · rw [ht] at heq; cases heq.2.2
            · rw [heq.2.2] at ht; simp at ht; exact hy45 ht
          | b0 :: b1 :: b2 :: q, _, hqb, heq =>
            simp only [List.cons_append, List.cons.injEq] at heq
            obtain ⟨e0, e1, e2, _⟩ := heq
            subst e0; subst e1; subst e2
            exact hqb _ _ _ rfl hup
        · rfl
      · rfl
    simp only [rewriteF, hloc]
    congr 1
    have := rewriteR_join_none (b :: r) f' (fun t ht => h t (by simp [ht])) (fun t ht => hq t (by
      simp only [List.tail_cons] at ht ⊢
      exact List.mem_of_mem_tail ht)) (by simp at hf; omega)
    simpa using this

/-- `ll-rXX…` becomes `ll-XX…` -/
theorem rewriteR_region (p0 q : Text) (a b : Nat) (f : Nat) (h0 : 45 ∉ p0) (hq : 45 ∉ q) (ha : isUp a = true)
    (hb : isUp b = true) (hf : (p0 ++ 45 :: 114 :: a :: b :: q).length ≤ f) :
    rewriteF locR f (p0 ++ 45 :: 114 :: a :: b :: q) = p0 ++ 45 :: a :: b :: q := by
  rw [rewriteR_subtag p0 _ f h0 hf]
  congr 1
  obtain ⟨f', hf'⟩ : ∃ f', f - p0.length = f' + 1 := ⟨f - p0.length - 1, by simp at hf; omega⟩
  rw [hf']
  have hloc : locR (45 :: 114 :: a :: b :: q) = some (4, [45, a, b]) := by simp [locR, ha, hb]
  simp only [rewriteF, hloc, List.drop_succ_cons, List.drop_zero, List.cons_append, List.nil_append]
  congr 3
  have := rewriteR_subtag q [] f' hq (by simp at hf ⊢; omega)
  simpa [rewriteF_nil] using this



def isLow (c : Nat) : Bool := 97 ≤ c && c ≤ 122

def lowAt (l : Text) (i : Nat) : Bool := match l[i]? with | some c => isLow c | none => false
def upAt (l : Text) (i : Nat) : Bool := match l[i]? with | some c => isUp c | none => false
def dashAt (l : Text) (i : Nat) : Bool := l[i]? == some 45

/-- `re.match(r"[a-z]{2,3}-[A-Z]{2}", text)` succeeds -/
def regionShape (l : Text) : Bool :=
  lowAt l 0 && lowAt l 1 &&
    ((dashAt l 2 && upAt l 3 && upAt l 4) || (lowAt l 2 && dashAt l 3 && upAt l 4 && upAt l 5))

theorem region_hit (l : Text) :
    (matchAt l.toArray Gen.Pat.paths_matcher_AndroidLocale__get_android_locale_1 0).isSome = regionShape l := by
  have hlow : ∀ c : Nat, ([ClsItem.range 97 122].any (fun x => x.has c) != false) = isLow c := by
    intro c; simp [ClsItem.has, isLow]
  have hup : ∀ c : Nat, ([ClsItem.range 65 90].any (fun x => x.has c) != false) = isUp c := by
    intro c; simp [ClsItem.has, isUp]
  match l with
  | [] => simp [matchAt, Gen.Pat.paths_matcher_AndroidLocale__get_android_locale_1, m, loop, regionShape, lowAt]
  | [a] =>
    simp [matchAt, Gen.Pat.paths_matcher_AndroidLocale__get_android_locale_1, m, loop, regionShape, lowAt]
  | a :: b :: c :: d :: e :: f :: r =>
    have ha : ClsItem.has a (ClsItem.range 97 122) = isLow a := by simp [ClsItem.has, isLow]
    have hb : ClsItem.has b (ClsItem.range 97 122) = isLow b := by simp [ClsItem.has, isLow]
    have hc : ClsItem.has c (ClsItem.range 97 122) = isLow c := by simp [ClsItem.has, isLow]
    have hd : ClsItem.has d (ClsItem.range 65 90) = isUp d := by simp [ClsItem.has, isUp]
    have he : ClsItem.has e (ClsItem.range 65 90) = isUp e := by simp [ClsItem.has, isUp]
    have hf : ClsItem.has f (ClsItem.range 65 90) = isUp f := by simp [ClsItem.has, isUp]
    simp [matchAt, Gen.Pat.paths_matcher_AndroidLocale__get_android_locale_1, m, loop, regionShape, lowAt, upAt, dashAt,
      ha, hb, hc, hd, he, hf]
    cases h1 : isLow a
    · simp
    cases h2 : isLow b
    · simp
    by_cases h3 : c = 45 <;> by_cases h4 : d = 45 <;> cases h5 : isLow c <;> cases h6 : isUp d <;> cases h7 : isUp e <;>
      cases h8 : isUp f <;> simp_all
  | [a, b] =>
    have ha : ClsItem.has a (ClsItem.range 97 122) = isLow a := by simp [ClsItem.has, isLow]
    have hb : ClsItem.has b (ClsItem.range 97 122) = isLow b := by simp [ClsItem.has, isLow]
    simp [matchAt, Gen.Pat.paths_matcher_AndroidLocale__get_android_locale_1, m, loop, regionShape, lowAt, upAt, dashAt,
      ha, hb]
    try (
      cases h1 : isLow a
      · simp
      cases h2 : isLow b
      · simp
      simp_all)
  | [a, b, c] =>
    have ha : ClsItem.has a (ClsItem.range 97 122) = isLow a := by simp [ClsItem.has, isLow]
    have hb : ClsItem.has b (ClsItem.range 97 122) = isLow b := by simp [ClsItem.has, isLow]
    have hc : ClsItem.has c (ClsItem.range 97 122) = isLow c := by simp [ClsItem.has, isLow]
    have hcu : ClsItem.has c (ClsItem.range 65 90) = isUp c := by simp [ClsItem.has, isUp]
    simp [matchAt, Gen.Pat.paths_matcher_AndroidLocale__get_android_locale_1, m, loop, regionShape, lowAt, upAt, dashAt,
      ha, hb, hc, hcu]
    try (
      cases h1 : isLow a
      · simp
      cases h2 : isLow b
      · simp
      by_cases h3 : c = 45 <;> cases h5 : isLow c <;> simp_all)
  | [a, b, c, d] =>
    have ha : ClsItem.has a (ClsItem.range 97 122) = isLow a := by simp [ClsItem.has, isLow]
    have hb : ClsItem.has b (ClsItem.range 97 122) = isLow b := by simp [ClsItem.has, isLow]
    have hc : ClsItem.has c (ClsItem.range 97 122) = isLow c := by simp [ClsItem.has, isLow]
    have hcu : ClsItem.has c (ClsItem.range 65 90) = isUp c := by simp [ClsItem.has, isUp]
    have hd : ClsItem.has d (ClsItem.range 65 90) = isUp d := by simp [ClsItem.has, isUp]
    have hdl : ClsItem.has d (ClsItem.range 97 122) = isLow d := by simp [ClsItem.has, isLow]
    simp [matchAt, Gen.Pat.paths_matcher_AndroidLocale__get_android_locale_1, m, loop, regionShape, lowAt, upAt, dashAt,
      ha, hb, hc, hcu, hd, hdl]
    try (
      cases h1 : isLow a
      · simp
      cases h2 : isLow b
      · simp
      by_cases h3 : c = 45 <;> cases h5 : isLow c <;> by_cases h4 : d = 45 <;> cases h6 : isUp d <;> simp_all)
  | [a, b, c, d, e] =>
    have ha : ClsItem.has a (ClsItem.range 97 122) = isLow a := by simp [ClsItem.has, isLow]
    have hb : ClsItem.has b (ClsItem.range 97 122) = isLow b := by simp [ClsItem.has, isLow]
    have hc : ClsItem.has c (ClsItem.range 97 122) = isLow c := by simp [ClsItem.has, isLow]
    have hcu : ClsItem.has c (ClsItem.range 65 90) = isUp c := by simp [ClsItem.has, isUp]
    have hd : ClsItem.has d (ClsItem.range 65 90) = isUp d := by simp [ClsItem.has, isUp]
    have hdl : ClsItem.has d (ClsItem.range 97 122) = isLow d := by simp [ClsItem.has, isLow]
    have he : ClsItem.has e (ClsItem.range 65 90) = isUp e := by simp [ClsItem.has, isUp]
    simp [matchAt, Gen.Pat.paths_matcher_AndroidLocale__get_android_locale_1, m, loop, regionShape, lowAt, upAt, dashAt,
      ha, hb, hc, hcu, hd, hdl, he]
    try (
      cases h1 : isLow a
      · simp
      cases h2 : isLow b
      · simp
      by_cases h3 : c = 45 <;> cases h5 : isLow c <;> by_cases h4 : d = 45 <;> cases h6 : isUp d <;> cases h7 : isUp e <;> simp_all)



/-- a two-letter table: lower-case keys and lower-case two-letter values -/
def TblOK (tbl : List (Text × Text)) : Prop :=
  ∀ a b v, tbl.lookup [a, b] = some v → isLow a = true ∧ isLow b = true ∧ ∃ x y, v = [x, y] ∧ isLow x = true ∧ isLow y = true

theorem lookup3 {k1 k2 k3 v1 v2 v3 k v : Text} (h : List.lookup k [(k1, v1), (k2, v2), (k3, v3)] = some v) :
    (k = k1 ∧ v = v1) ∨ (k = k2 ∧ v = v2) ∨ (k = k3 ∧ v = v3) := by
  simp only [List.lookup] at h
  split at h
  · rename_i he; exact Or.inl ⟨by simpa using he, by simpa using h.symm⟩
  · split at h
    · rename_i he; exact Or.inr (Or.inl ⟨by simpa using he, by simpa using h.symm⟩)
    · split at h
      · rename_i he; exact Or.inr (Or.inr ⟨by simpa using he, by simpa using h.symm⟩)
      · cases h

theorem tblOK_legacy : TblOK Gen.Tables.androidLegacyMap := by
  intro a b v h
  rcases lookup3 h with ⟨hk, rfl⟩ | ⟨hk, rfl⟩ | ⟨hk, rfl⟩ <;>
    (simp only [List.cons.injEq, and_true] at hk; obtain ⟨rfl, rfl⟩ := hk; exact ⟨by decide, by decide, _, _, rfl, by decide, by decide⟩)

theorem tblOK_standard : TblOK Gen.Tables.androidStandardMap := by
  intro a b v h
  rcases lookup3 h with ⟨hk, rfl⟩ | ⟨hk, rfl⟩ | ⟨hk, rfl⟩ <;>
    (simp only [List.cons.injEq, and_true] at hk; obtain ⟨rfl, rfl⟩ := hk; exact ⟨by decide, by decide, _, _, rfl, by decide, by decide⟩)

theorem legT_length (tbl : List (Text × Text)) (hv : TblOK tbl) : ∀ t : Text, (legT tbl t).length = t.length
  | [] => rfl
  | [x] => rfl
  | [x, y] => by
    simp only [legT]
    cases hl : tbl.lookup [x, y] with
    | none => rfl
    | some v =>
      obtain ⟨_, _, a, b, rfl, _, _⟩ := hv x y v hl
      rfl
  | x :: y :: z :: r => by simp [legT, legT_length tbl hv (y :: z :: r)]

/-- what the substitution writes is lower-case letters in place of lower-case letters: every other character and its
    class stay -/
theorem legT_class (tbl : List (Text × Text)) (hv : TblOK tbl) (P : Nat → Bool) (hP : ∀ c, isLow c = true → P c = true) :
    ∀ t : Text, (∀ c ∈ t, P c = true) → ∀ c ∈ legT tbl t, P c = true
  | [], _, c, hc => by simp [legT] at hc
  | [x], h, c, hc => by simp only [legT] at hc; exact h c hc
  | [x, y], h, c, hc => by
    simp only [legT] at hc
    cases hl : tbl.lookup [x, y] with
    | none => rw [hl] at hc; exact h c hc
    | some v =>
      rw [hl] at hc
      obtain ⟨_, _, a, b, rfl, ha, hb⟩ := hv x y v hl
      simp only [List.mem_cons, List.not_mem_nil, or_false] at hc
      rcases hc with rfl | rfl
      · exact hP _ ha
      · exact hP _ hb
  | x :: y :: z :: r, h, c, hc => by
    simp only [legT, List.mem_cons] at hc
    rcases hc with rfl | hc
    · exact h _ (by simp)
    · exact legT_class tbl hv P hP (y :: z :: r) (fun c hc => h c (List.mem_cons_of_mem _ hc)) c hc

theorem legT_no (tbl : List (Text × Text)) (hv : TblOK tbl) (d : Nat) (hd : isLow d = false) {t : Text} (h : d ∉ t) :
    d ∉ legT tbl t := by
  intro hm
  have := legT_class tbl hv (fun c => c != d) (by
    intro c hc
    simp only [bne_iff_ne, ne_eq]
    intro e; subst e; rw [hc] at hd; cases hd) t (by
    intro c hc
    simp only [bne_iff_ne, ne_eq]
    intro e; subst e; exact h hc) d hm
  simp at this

/-- the character classes the region test looks at -/
def kind (c : Nat) : Bool × Bool × Bool := (isLow c, isUp c, c == 45)

theorem legT_kind (tbl : List (Text × Text)) (hv : TblOK tbl) : ∀ t : Text, (legT tbl t).map kind = t.map kind
  | [] => rfl
  | [x] => rfl
  | [x, y] => by
    simp only [legT]
    cases hl : tbl.lookup [x, y] with
    | none => rfl
    | some v =>
      obtain ⟨hx, hy, a, b, rfl, ha, hb⟩ := hv x y v hl
      have low_kind : ∀ c, isLow c = true → kind c = (true, false, false) := by
        intro c hc
        simp only [isLow, Bool.and_eq_true, decide_eq_true_eq] at hc
        simp only [kind, isLow, isUp, Prod.mk.injEq, Bool.and_eq_true, decide_eq_true_eq, Bool.and_eq_false_imp,
          beq_eq_false_iff_ne, ne_eq]
        refine ⟨⟨hc.1, hc.2⟩, ?_, ?_⟩
        · intro _; simp; omega
        · omega
      simp [low_kind _ hx, low_kind _ hy, low_kind _ ha, low_kind _ hb]
  | x :: y :: z :: r => by simp [legT, legT_kind tbl hv (y :: z :: r)]

theorem at_of_kinds {l l' : Text} (h : l.map kind = l'.map kind) (i : Nat) :
    lowAt l i = lowAt l' i ∧ upAt l i = upAt l' i ∧ dashAt l i = dashAt l' i := by
  have hi : (l[i]?).map kind = (l'[i]?).map kind := by
    rw [← List.getElem?_map, ← List.getElem?_map, h]
  unfold lowAt upAt dashAt
  cases h1 : l[i]? with
  | none =>
    cases h2 : l'[i]? with
    | none => simp
    | some d => simp [h1, h2] at hi
  | some c =>
    cases h2 : l'[i]? with
    | none => simp [h1, h2] at hi
    | some d =>
      simp only [h1, h2, Option.map_some, Option.some.injEq, kind, Prod.mk.injEq] at hi
      obtain ⟨e1, e2, e3⟩ := hi
      refine ⟨e1, e2, ?_⟩
      simpa using e3

theorem regionShape_of_kinds {l l' : Text} (h : l.map kind = l'.map kind) : regionShape l = regionShape l' := by
  unfold regionShape
  simp only [(at_of_kinds h 0).1, (at_of_kinds h 1).1, (at_of_kinds h 2).1, (at_of_kinds h 2).2.2, (at_of_kinds h 3).2.1,
    (at_of_kinds h 3).2.2, (at_of_kinds h 4).2.1, (at_of_kinds h 5).2.1]

theorem join_kind (tbl : List (Text × Text)) (hv : TblOK tbl) : ∀ ts : List Text,
    (joinWith 45 (ts.map (legT tbl))).map kind = (joinWith 45 ts).map kind
  | [] => rfl
  | [a] => by simpa [joinWith] using legT_kind tbl hv a
  | a :: b :: r => by
    have ih := join_kind tbl hv (b :: r)
    simp only [List.map_cons] at ih ⊢
    rw [joinWith_cons2, joinWith_cons2]
    simp only [List.map_append, List.map_cons, legT_kind tbl hv a, ih]

/-! ### undoing the legacy substitution -/

/-- the subtag does not end with a legacy code (`iw`, `in`, `ji`): mapping it back changes nothing -/
def NoLegacyEnd (t : Text) : Prop := legT Gen.Tables.androidStandardMap t = t

theorem std_leg : ∀ t : Text, NoLegacyEnd t →
    legT Gen.Tables.androidStandardMap (legT Gen.Tables.androidLegacyMap t) = t
  | [], _ => rfl
  | [x], _ => rfl
  | [x, y], h => by
    simp only [legT] at h ⊢
    cases hl : Gen.Tables.androidLegacyMap.lookup [x, y] with
    | none =>
      unfold NoLegacyEnd at h
      simpa [legT] using h
    | some v =>
      rcases lookup3 hl with ⟨hk, rfl⟩ | ⟨hk, rfl⟩ | ⟨hk, rfl⟩ <;>
        (simp only [List.cons.injEq, and_true] at hk; obtain ⟨rfl, rfl⟩ := hk; rfl)
  | x :: y :: z :: r, h => by
    have hlen := legT_length Gen.Tables.androidLegacyMap tblOK_legacy (y :: z :: r)
    have hr : NoLegacyEnd (y :: z :: r) := by
      unfold NoLegacyEnd at h ⊢
      simp only [legT, List.cons.injEq, true_and] at h
      exact h
    have ih := std_leg (y :: z :: r) hr
    simp only [legT]
    -- the mapped tail still has at least two characters
    cases hm : legT Gen.Tables.androidLegacyMap (y :: z :: r) with
    | nil => rw [hm] at hlen; simp at hlen
    | cons y' t' =>
      cases t' with
      | nil => rw [hm] at hlen; simp at hlen
      | cons z' r' =>
        rw [hm] at ih
        simp only [legT, ih]

/-! ### small string facts -/

theorem splitOnAux_free (sep : Nat) : ∀ (a rest cur : Text), sep ∉ a →
    splitOnAux sep (a ++ rest) cur = splitOnAux sep rest (a.reverse ++ cur)
  | [], _, _, _ => rfl
  | c :: a, rest, cur, h => by
    have hc : (c == sep) = false := by
      simp only [beq_eq_false_iff_ne, ne_eq]; intro e; exact h (by simp [e])
    simp only [List.cons_append, splitOnAux, hc, Bool.false_eq_true, if_false]
    rw [splitOnAux_free sep a rest (c :: cur) (fun e => h (List.mem_cons_of_mem _ e))]
    simp

theorem splitOn_two (a b : Text) (ha : 45 ∉ a) (hb : 45 ∉ b) : splitOn 45 (a ++ 45 :: b) = [a, b] := by
  unfold splitOn
  rw [splitOnAux_free 45 a _ [] ha]
  simp only [splitOnAux, beq_self_eq_true, if_true, List.append_nil, List.reverse_reverse]
  have := splitOnAux_free 45 b [] [] hb
  simp only [List.append_nil] at this
  rw [this]
  simp [splitOnAux]

theorem replaceAll_single (x y : Nat) : ∀ (f : Nat) (l : Text), l.length ≤ f →
    replaceAll [x] [y] f l = l.map (fun c => if c = x then y else c)
  | 0, l, h => by
    have : l = [] := by cases l <;> simp_all
    subst this; rfl
  | f + 1, [], _ => rfl
  | f + 1, c :: cs, h => by
    simp only [replaceAll, List.isEmpty_cons, Bool.not_false, Bool.true_and, List.isPrefixOf, Bool.and_true,
      List.length_singleton, List.drop_succ_cons, List.drop_zero, List.map_cons]
    have ih := replaceAll_single x y f cs (by simpa using h)
    by_cases hc : c = x
    · subst hc; simp [ih]
    · have : (x == c) = false := by simp only [beq_eq_false_iff_ne, ne_eq]; exact fun e => hc e.symm
      simp [this, hc, ih]

theorem map_noop {f : Nat → Nat} : ∀ l : Text, (∀ c ∈ l, f c = c) → l.map f = l
  | [], _ => rfl
  | c :: cs, h => by
    simp only [List.map_cons, h c (by simp), map_noop cs (fun d hd => h d (by simp [hd]))]

theorem map_sep_join (x y : Nat) : ∀ ts : List Text, (∀ t ∈ ts, x ∉ t) →
    (joinWith x ts).map (fun c => if c = x then y else c) = joinWith y ts
  | [], _ => rfl
  | [a], h => by
    simp only [joinWith]
    apply map_noop
    intro c hc
    have : c ≠ x := fun e => h a (by simp) (e ▸ hc)
    simp [this]
  | a :: b :: r, h => by
    have ih := map_sep_join x y (b :: r) (fun t ht => h t (by simp [ht]))
    rw [joinWith_cons2, joinWith_cons2]
    simp only [List.map_append, List.map_cons, if_true, ih]
    congr 1
    apply map_noop
    intro c hc
    have : c ≠ x := fun e => h a (by simp) (e ▸ hc)
    simp [this]

theorem mem_join (x : Nat) : ∀ ts : List Text, (∀ t ∈ ts, x ∉ t) → (x ∈ joinWith x ts ↔ 2 ≤ ts.length)
  | [], _ => by simp [joinWith]
  | [a], h => by simpa [joinWith] using h a (by simp)
  | a :: b :: r, h => by
    rw [joinWith_cons2]
    simp

theorem not_mem_join (c x : Nat) (hcx : c ≠ x) : ∀ ts : List Text, (∀ t ∈ ts, c ∉ t) → c ∉ joinWith x ts
  | [], _ => by simp [joinWith]
  | [a], h => by simpa [joinWith] using h a (by simp)
  | a :: b :: r, h => by
    rw [joinWith_cons2]
    have ih := not_mem_join c x hcx (b :: r) (fun t ht => h t (by simp [ht]))
    simp only [List.mem_append, List.mem_cons, not_or]
    exact ⟨h a (by simp), hcx, ih⟩



theorem drop_get (s : Array Nat) (p i : Nat) : s[p + i]? = (s.toList.drop p)[i]? := by
  simp [List.getElem?_drop]

theorem slice2 (s : Array Nat) (p : Nat) (a b : Nat) (r : Text) (h : s.toList.drop p = a :: b :: r) :
    slice s p (p + 2) = [a, b] := by
  rw [slice_eq', h]; simp

/-- the callbacks of the two legacy substitutions -/
def cbTable (tbl : List (Text × Text)) (s : Array Nat) (st : St) : Except PyErr Text :=
  match groupText s st 1 with
  | some g => lookupTable tbl g
  | none => throw .keyError

theorem fwd_local (s : Array Nat) :
    LocalOK s Gen.Pat.paths_matcher_AndroidLocale__get_android_locale_0 (cbTable Gen.Tables.androidLegacyMap s) locFwd := by
  intro p hp
  have hh := fwd_hit s p (s.toList.drop p) (drop_get s p) (by simp; omega)
  cases hl : locFwd (s.toList.drop p) with
  | none => rw [hl] at hh; simpa using hh
  | some nr =>
    obtain ⟨n, rep⟩ := nr
    rw [hl] at hh
    simp only [Option.map_some] at hh
    -- the shape of the text at p
    unfold locFwd at hl
    split at hl
    · rename_i a b r heq
      split at hl
      · split at hl
        · rename_i t ht
          simp only [Option.some.injEq, Prod.mk.injEq] at hl
          obtain ⟨rfl, rfl⟩ := hl
          refine ⟨by omega, _, hh, rfl, ?_⟩
          simp only [cbTable, groupText, St.group, capOf, List.find?, beq_self_eq_true, slice2 s p a b r heq, lookupTable, ht]
          rfl
        · cases hl
      · cases hl
    · cases hl

theorem back_local (s : Array Nat) :
    LocalOK s Gen.Pat.paths_matcher_Matcher_match_0 (cbTable Gen.Tables.androidStandardMap s) locBack := by
  intro p hp
  have hh := back_hit s p (s.toList.drop p) (drop_get s p) (by simp; omega)
  cases hl : locBack (s.toList.drop p) with
  | none => rw [hl] at hh; simpa using hh
  | some nr =>
    obtain ⟨n, rep⟩ := nr
    rw [hl] at hh
    simp only [Option.map_some] at hh
    unfold locBack at hl
    split at hl
    · rename_i a b r heq
      split at hl
      · split at hl
        · rename_i t ht
          simp only [Option.some.injEq, Prod.mk.injEq] at hl
          obtain ⟨rfl, rfl⟩ := hl
          refine ⟨by omega, _, hh, rfl, ?_⟩
          simp only [cbTable, groupText, St.group, capOf, List.find?, beq_self_eq_true, slice2 s p a b r heq, lookupTable, ht]
          rfl
        · cases hl
      · cases hl
    · cases hl

/-- the callback of `re.sub(r"-r([A-Z]{2})", r"-\1", ...)` -/
def cbR (s : Array Nat) (st : St) : Except PyErr Text :=
  match groupText s st 1 with
  | some g => pure (45 :: g)
  | none => pure [45]

theorem r_local (s : Array Nat) : LocalOK s Gen.Pat.paths_matcher_Matcher_match_1 (cbR s) locR := by
  intro p hp
  have hh := r_hit s p (s.toList.drop p) (drop_get s p) (by simp; omega)
  cases hl : locR (s.toList.drop p) with
  | none => rw [hl] at hh; simpa using hh
  | some nr =>
    obtain ⟨n, rep⟩ := nr
    rw [hl] at hh
    simp only [Option.map_some] at hh
    unfold locR at hl
    split at hl
    · rename_i a b r heq
      split at hl
      · simp only [Option.some.injEq, Prod.mk.injEq] at hl
        obtain ⟨rfl, rfl⟩ := hl
        refine ⟨by omega, _, hh, rfl, ?_⟩
        have hs : slice s (p + 2) (p + 4) = [a, b] := by
          rw [slice_eq', show p + 4 - (p + 2) = 2 by omega, ← List.drop_drop, heq]
          simp
        simp only [cbR, groupText, St.group, capOf, List.find?, beq_self_eq_true, hs, pure, Except.pure]
      · cases hl
    · cases hl

theorem minLen_fwd : 1 ≤ minLen Gen.Pat.paths_matcher_AndroidLocale__get_android_locale_0 := by decide
theorem minLen_back : 1 ≤ minLen Gen.Pat.paths_matcher_Matcher_match_0 := by decide
theorem minLen_r : 1 ≤ minLen Gen.Pat.paths_matcher_Matcher_match_1 := by decide



abbrev leg := legT Gen.Tables.androidLegacyMap
abbrev std := legT Gen.Tables.androidStandardMap

/-- the three substitutions on a text made of dash-free subtags -/
theorem sub_fwd (ts : List Text) (h : ∀ t ∈ ts, 45 ∉ t) :
    subWithE (joinWith 45 ts).toArray Gen.Pat.paths_matcher_AndroidLocale__get_android_locale_0
      (cbTable Gen.Tables.androidLegacyMap (joinWith 45 ts).toArray) = .ok (joinWith 45 (ts.map leg)) := by
  rw [subWithE_rewrite _ _ _ locFwd (nonEmpty_of_minLen minLen_fwd) (fwd_local _) (by rw [locFwd_eq]; exact locT_pos _)]
  congr 1
  rw [locFwd_eq]
  exact rewrite_join _ keysOK_legacy ts _ h (by simp)

theorem sub_back (ts : List Text) (h : ∀ t ∈ ts, 45 ∉ t) :
    subWithE (joinWith 45 ts).toArray Gen.Pat.paths_matcher_Matcher_match_0
      (cbTable Gen.Tables.androidStandardMap (joinWith 45 ts).toArray) = .ok (joinWith 45 (ts.map std)) := by
  rw [subWithE_rewrite _ _ _ locBack (nonEmpty_of_minLen minLen_back) (back_local _) (by rw [locBack_eq]; exact locT_pos _)]
  congr 1
  rw [locBack_eq]
  exact rewrite_join _ keysOK_standard ts _ h (by simp)

theorem sub_r (l : Text) : subWithE l.toArray Gen.Pat.paths_matcher_Matcher_match_1 (cbR l.toArray) =
    .ok (rewriteF locR (l.length + 1) l) := by
  rw [subWithE_rewrite _ _ _ locR (nonEmpty_of_minLen minLen_r) (r_local _) locR_pos]
  simp

theorem toStandard_eq (a : Text) : toStandard a =
    (let l0 := if [98, 43].isPrefixOf a then a.drop 2 else a
     let l1 := replaceAll [43] [45] (l0.length + 1) l0
     (subWithE l1.toArray Gen.Pat.paths_matcher_Matcher_match_0 (cbTable Gen.Tables.androidStandardMap l1.toArray)).bind
       (fun l2 => subWithE l2.toArray Gen.Pat.paths_matcher_Matcher_match_1 (cbR l2.toArray))) := rfl

theorem toAndroid_eq (bcp : Text) : toAndroid bcp =
    (subWithE bcp.toArray Gen.Pat.paths_matcher_AndroidLocale__get_android_locale_0
        (cbTable Gen.Tables.androidLegacyMap bcp.toArray)).bind (fun b =>
      if (matchAt b.toArray Gen.Pat.paths_matcher_AndroidLocale__get_android_locale_1 0).isSome then
        match splitOn 45 b with
        | p0 :: p1 :: _ => pure (p0 ++ [45, 114] ++ p1)
        | _ => throw .indexError
      else if b.contains 45 then pure ([98, 43] ++ replaceAll [45] [43] (b.length + 1) b)
      else pure b) := rfl

/-- **the locales of the general round-trip lemma**: subtags joined by "-", where
    * no subtag contains "-" or "+",
    * no subtag ends with a legacy code `iw`, `in`, `ji` (excluded family: "cin", "zh-Latn-pinyin"),
    * no subtag after the first looks like an Android region qualifier `rXX` (excluded: "xx-Latn-rDE"),
    * a text that starts like `ll-XX` or `lll-XX` (what the code takes for language-REGION) has exactly two subtags
      (excluded family: "en-US-x-foo"). -/
structure AndroidOK (ts : List Text) : Prop where
  ne : ts ≠ []
  chars : ∀ t ∈ ts, 45 ∉ t ∧ 43 ∉ t
  noLegacy : ∀ t ∈ ts, NoLegacyEnd t
  noRQual : ∀ t ∈ ts.tail, NotRegionQualifier t
  region : regionShape (joinWith 45 ts) = true → ts.length = 2

theorem isLow_false_45 : isLow 45 = false := by decide
theorem isLow_false_43 : isLow 43 = false := by decide

theorem leg_no45 {t : Text} (h : 45 ∉ t) : 45 ∉ leg t := legT_no _ tblOK_legacy 45 isLow_false_45 h
theorem leg_no43 {t : Text} (h : 43 ∉ t) : 43 ∉ leg t := legT_no _ tblOK_legacy 43 isLow_false_43 h

theorem isPrefix_bplus_false {a : Text} (h : 43 ∉ a) : [98, 43].isPrefixOf a = false := by
  match a, h with
  | [], _ => rfl
  | [x], _ => simp [List.isPrefixOf]
  | x :: y :: r, h =>
    have : ¬ 43 = y := by intro e; apply h; simp [← e]
    simp [List.isPrefixOf, this]

theorem replace_noop {x y : Nat} {l : Text} (h : x ∉ l) (f : Nat) (hf : l.length ≤ f) : replaceAll [x] [y] f l = l := by
  rw [replaceAll_single x y f l hf]
  apply map_noop
  intro c hc
  have : c ≠ x := fun e => h (e ▸ hc)
  simp [this]

theorem region_two {p0 p1 : Text} (h0 : 45 ∉ p0) (h : regionShape (p0 ++ 45 :: p1) = true) :
    ∃ a b q, p1 = a :: b :: q ∧ isUp a = true ∧ isUp b = true := by
  have up2 : ∀ (l : Text) (i : Nat), upAt l i = true → ∃ c, l[i]? = some c ∧ isUp c = true := by
    intro l i hu
    unfold upAt at hu
    cases hc : l[i]? with
    | none => simp [hc] at hu
    | some c => exact ⟨c, rfl, by simpa [hc] using hu⟩
  have fin : ∀ (a' b' : Nat), p1[0]? = some a' → p1[1]? = some b' → isUp a' = true → isUp b' = true →
      ∃ a b q, p1 = a :: b :: q ∧ isUp a = true ∧ isUp b = true := by
    intro a' b' e0 e1 ua ub
    match p1, e0, e1 with
    | x :: y :: q, e0, e1 =>
      simp at e0 e1; subst e0; subst e1
      exact ⟨_, _, q, rfl, ua, ub⟩
  unfold regionShape at h
  simp only [Bool.and_eq_true, Bool.or_eq_true] at h
  obtain ⟨⟨hl0, hl1⟩, hrest⟩ := h
  match p0, h0 with
  | [], _ => simp [lowAt, isLow] at hl0
  | [x], _ => simp [lowAt, isLow] at hl1
  | [x, y], _ =>
    rcases hrest with ⟨⟨_, hu3⟩, hu4⟩ | ⟨⟨⟨hl2, _⟩, _⟩, _⟩
    · obtain ⟨a', e0, ua⟩ := up2 _ _ hu3
      obtain ⟨b', e1, ub⟩ := up2 _ _ hu4
      exact fin a' b' (by simpa using e0) (by simpa using e1) ua ub
    · simp [lowAt, isLow] at hl2
  | [x, y, z], h0 =>
    have hz : z ≠ 45 := fun e => h0 (by simp [e])
    rcases hrest with ⟨⟨hd2, _⟩, _⟩ | ⟨⟨⟨_, _⟩, hu4⟩, hu5⟩
    · simp [dashAt, hz] at hd2
    · obtain ⟨a', e0, ua⟩ := up2 _ _ hu4
      obtain ⟨b', e1, ub⟩ := up2 _ _ hu5
      exact fin a' b' (by simpa using e0) (by simpa using e1) ua ub
  | x :: y :: z :: w :: r, h0 =>
    have hz : z ≠ 45 := fun e => h0 (by simp [e])
    have hw : w ≠ 45 := fun e => h0 (by simp [e])
    rcases hrest with ⟨⟨hd2, _⟩, _⟩ | ⟨⟨⟨_, hd3⟩, _⟩, _⟩
    · simp [dashAt, hz] at hd2
    · simp [dashAt, hw] at hd3

theorem std_cons {x : Nat} {q : Text} (h : 2 ≤ q.length) : std (x :: q) = x :: std q := by
  match q, h with
  | y :: z :: r, _ => rfl

/-- **General Android round trip**: for every locale made of subtags as in `AndroidOK`, the Android form computed by
    `AndroidLocale._get_android_locale` is mapped back to the same locale by the conversion in `Matcher.match`. -/
theorem android_roundtrip_general (ts : List Text) (h : AndroidOK ts) :
    ∃ a, toAndroid (joinWith 45 ts) = .ok a ∧ toStandard a = .ok (joinWith 45 ts) := by
  have h45 : ∀ t ∈ ts, 45 ∉ t := fun t ht => (h.chars t ht).1
  have h43 : ∀ t ∈ ts, 43 ∉ t := fun t ht => (h.chars t ht).2
  have hl45 : ∀ t ∈ ts.map leg, 45 ∉ t := by
    intro t ht
    obtain ⟨u, hu, rfl⟩ := List.mem_map.mp ht
    exact leg_no45 (h45 u hu)
  have hl43 : ∀ t ∈ ts.map leg, 43 ∉ t := by
    intro t ht
    obtain ⟨u, hu, rfl⟩ := List.mem_map.mp ht
    exact leg_no43 (h43 u hu)
  have hshape : regionShape (joinWith 45 (ts.map leg)) = regionShape (joinWith 45 ts) :=
    regionShape_of_kinds (join_kind _ tblOK_legacy ts)
  have hback : (ts.map leg).map std = ts := by
    rw [List.map_map]
    have : ∀ (l : List Text), (∀ t ∈ l, NoLegacyEnd t) → l.map (std ∘ leg) = l := by
      intro l
      induction l with
      | nil => intro _; rfl
      | cons x xs ih =>
        intro hx
        simp only [List.map_cons, Function.comp, std_leg x (hx x (by simp)), ih (fun t ht => hx t (by simp [ht]))]
    exact this ts h.noLegacy
  rw [toAndroid_eq, sub_fwd ts h45]
  simp only [Except.bind, region_hit, hshape]
  cases hreg : regionShape (joinWith 45 ts) with
  | true =>
    -- language-REGION: exactly two subtags
    have hlen := h.region hreg
    obtain ⟨p0, p1, rfl⟩ : ∃ p0 p1, ts = [p0, p1] := by
      match ts, hlen with
      | [x, y], _ => exact ⟨x, y, rfl⟩
    have hp0 : 45 ∉ p0 := h45 p0 (by simp)
    have hp1 : 45 ∉ p1 := h45 p1 (by simp)
    obtain ⟨a', b', q, rfl, ha', hb'⟩ := region_two hp0 (by simpa [joinWith] using hreg)
    have hsplit : splitOn 45 (joinWith 45 ([p0, a' :: b' :: q].map leg)) = [leg p0, leg (a' :: b' :: q)] := by
      simp only [List.map_cons, List.map_nil, joinWith]
      exact splitOn_two _ _ (leg_no45 hp0) (leg_no45 hp1)
    simp only [if_true, hsplit, pure, Except.pure]
    refine ⟨_, rfl, ?_⟩
    -- back
    have ha43 : 43 ∉ leg p0 ++ [45, 114] ++ leg (a' :: b' :: q) := by
      simp only [List.mem_append, List.mem_cons, List.not_mem_nil, or_false, not_or]
      exact ⟨⟨leg_no43 (h43 p0 (by simp)), by decide, by decide⟩, leg_no43 (h43 _ (by simp))⟩
    rw [toStandard_eq]
    simp only [isPrefix_bplus_false ha43, Bool.false_eq_true, if_false]
    rw [replace_noop ha43 _ (Nat.le_succ _)]
    have hform : leg p0 ++ [45, 114] ++ leg (a' :: b' :: q) = joinWith 45 [leg p0, 114 :: leg (a' :: b' :: q)] := by
      simp [joinWith]
    rw [hform, sub_back _ (by
      intro t ht
      simp only [List.mem_cons, List.not_mem_nil, or_false] at ht
      rcases ht with rfl | rfl
      · exact leg_no45 hp0
      · simp only [List.mem_cons, not_or]
        exact ⟨by decide, leg_no45 hp1⟩)]
    simp only [Except.bind, List.map_cons, List.map_nil]
    have hlen2 : 2 ≤ (leg (a' :: b' :: q)).length := by
      rw [legT_length _ tblOK_legacy]; simp
    have e1 : std (leg p0) = p0 := std_leg p0 (h.noLegacy p0 (by simp))
    have e2 : std (leg (a' :: b' :: q)) = a' :: b' :: q := std_leg _ (h.noLegacy _ (by simp))
    rw [std_cons hlen2, e1, e2]
    rw [sub_r]
    congr 1
    have : joinWith 45 [p0, 114 :: a' :: b' :: q] = p0 ++ 45 :: 114 :: a' :: b' :: q := by simp [joinWith]
    rw [this, rewriteR_region p0 q a' b' _ hp0 (fun e => hp1 (by simp [e])) ha' hb' (Nat.le_succ _)]
    simp [joinWith]
  | false =>
    simp only [Bool.false_eq_true, if_false]
    by_cases hc : (joinWith 45 (ts.map leg)).contains 45 = true
    · -- several subtags: the `b+` form
      simp only [hc, if_true, pure, Except.pure]
      refine ⟨_, rfl, ?_⟩
      rw [replaceAll_single 45 43 _ _ (Nat.le_succ _), map_sep_join 45 43 _ hl45, toStandard_eq]
      have hpre : [98, 43].isPrefixOf ([98, 43] ++ joinWith 43 (ts.map leg)) = true := by simp [List.isPrefixOf]
      simp only [hpre, if_true]
      have hdrop : ([98, 43] ++ joinWith 43 (ts.map leg)).drop 2 = joinWith 43 (ts.map leg) := by simp
      rw [hdrop, replaceAll_single 43 45 _ _ (Nat.le_succ _), map_sep_join 43 45 _ hl43, sub_back _ hl45]
      simp only [Except.bind, hback]
      rw [sub_r]
      congr 1
      exact rewriteR_join_none ts _ h45 h.noRQual (Nat.le_succ _)
    · -- a single subtag
      have hc' : (joinWith 45 (ts.map leg)).contains 45 = false := by simpa using hc
      simp only [hc', Bool.false_eq_true, if_false, pure, Except.pure]
      refine ⟨_, rfl, ?_⟩
      have hnm : 45 ∉ joinWith 45 (ts.map leg) := by simpa using hc'
      have hlen : ¬ 2 ≤ (ts.map leg).length := fun hh => hnm ((mem_join 45 _ hl45).mpr hh)
      obtain ⟨t, rfl⟩ : ∃ t, ts = [t] := by
        match ts, h.ne, hlen with
        | [x], _, _ => exact ⟨x, rfl⟩
        | x :: y :: r, _, hlen => simp at hlen
      have ht43 : 43 ∉ joinWith 45 ([t].map leg) := by simpa [joinWith] using leg_no43 (h43 t (by simp))
      rw [toStandard_eq]
      simp only [isPrefix_bplus_false ht43, Bool.false_eq_true, if_false]
      rw [replace_noop ht43 _ (Nat.le_succ _), sub_back _ hl45]
      simp only [Except.bind, hback]
      rw [sub_r]
      congr 1
      exact rewriteR_join_none [t] _ h45 h.noRQual (Nat.le_succ _)

end C12A

/- C14 composed: last-rule-wins / error-by-default / not-covered read on the pattern TEXTS of a configuration. -/
import CLModel.Proofs.C14MTexts
import CLModel.Proofs.C14Filter
namespace C14M
open Rx PM Filt FiltM Filt.Spec

/-- key part of "the rule applies": key-less rules are for file queries, keyed rules for entity queries -/
def keyOK : Option KeyPred → Option (List Nat) → Bool
  | none, none => true
  | some k, some e => k.matches e
  | _, _ => false

/-- the rule (given by its path TEXT) applies to the query: its bound matcher returns a dictionary for the file's
    full path, and the key part fits -/
def RuleApplies (environ : Environ) (root : Option (List Nat)) (r : RuleM) (file : File) (entity : Option (List Nat)) :
    Prop :=
  patMatches environ root r.path file.locale file.fullpath = .ok true ∧ keyOK r.key entity = true

/-- the file is covered by one of the `l10n` pattern TEXTS enabled for its locale -/
def Covered (environ : Environ) (root : Option (List Nat)) (paths : List PathEntryM) (file : File) : Prop :=
  ∃ p ∈ paths, allows p.locales file.locale = true ∧
    patMatches environ root p.l10n file.locale file.fullpath = .ok true

/-- the configuration itself (its `locales` or one of its `paths`) names the locale -/
def namesLocale (locales : Option (List (List Nat))) (paths : List PathEntryM) (l : List Nat) : Bool :=
  names locales l || paths.any (fun p => names p.locales l)

theorem applies_iff {environ : Environ} {root : Option (List Nat)} {file : File} {entity : Option (List Nat)}
    {a : RuleM} {b : Rule} (h : RuleRel environ root file.locale file.fullpath a b) :
    applies b file entity = true ↔ RuleApplies environ root a file entity := by
  obtain ⟨h1, h2, _⟩ := h
  unfold applies RuleApplies
  rw [h1, h2]
  cases b.key <;> cases entity <;> simp [keyOK]

theorem covered_iff {environ : Environ} {root : Option (List Nat)} {file : File}
    {lp : List (PathEntryM × PathEntry)} (h : ∀ p ∈ lp, PathRel environ root file.locale file.fullpath p.1 p.2) :
    covered (lp.map (·.2)) file = true ↔ Covered environ root (lp.map (·.1)) file := by
  unfold covered Covered
  simp only [List.any_eq_true, List.mem_map, Bool.and_eq_true]
  constructor
  · rintro ⟨_, ⟨p, hp, rfl⟩, h1, h2⟩
    obtain ⟨ha, hb⟩ := h p hp
    exact ⟨p.1, ⟨p, hp, rfl⟩, by rw [hb]; exact h1, by rw [ha, h2]⟩
  · rintro ⟨_, ⟨p, hp, rfl⟩, h1, h2⟩
    obtain ⟨ha, hb⟩ := h p hp
    refine ⟨p.2, ⟨p, hp, rfl⟩, by rw [← hb]; exact h1, ?_⟩
    rw [ha] at h2
    exact Except.ok.inj h2

theorem names_paths_eq {environ : Environ} {root : Option (List Nat)} {loc fp : List Nat}
    {lp : List (PathEntryM × PathEntry)} (h : ∀ p ∈ lp, PathRel environ root loc fp p.1 p.2) (l : List Nat) :
    (lp.map (·.2)).any (fun p => names p.locales l) = (lp.map (·.1)).any (fun p => names p.locales l) := by
  induction lp with
  | nil => rfl
  | cons p rest ih =>
    simp only [List.map_cons, List.any_cons]
    rw [ih (fun q hq => h q (by simp [hq])), (h p (by simp)).2]

/-- `filter` of a configuration without included and excluded configurations -/
theorem leaf_filter (locales : Option (List (List Nat))) (ps : List PathEntry) (rs : List Rule) (file : File)
    (entity : Option (List Nat)) :
    filter (.mk locales ps rs [] []) file entity =
      if names locales file.locale || ps.any (fun p => names p.locales file.locale) then
        (match own ps rs file entity with
         | some a => a
         | none => .ignore)
      else .ignore := by
  rw [filter_eq_verdict, verdict, hasLocale, hasLocaleAny, Bool.or_false, inner, excluded]
  simp only [Bool.false_eq_true, if_false, innerAll, mostSevere, List.foldr_cons, List.foldr_nil]
  have : worse (own ps rs file entity) none = own ps rs file entity := by
    unfold worse; simp [sev]
  rw [this]
  cases (names locales file.locale || ps.any fun p => names p.locales file.locale) with
  | false => rfl
  | true => cases own ps rs file entity <;> rfl

/-- the verdict of a leaf configuration given by TEXTS, in terms of the abstract rules that stand for them -/
theorem leaf_filterM {locales : Option (List (List Nat))} {environ : Environ} {root : Option (List Nat)}
    {paths : List PathEntryM} {rules : List RuleM} {file : File} {c : Config} (entity : Option (List Nat))
    (hc : instantiate (.mk locales environ root paths rules [] []) file.locale file.fullpath = .ok c) :
    ∃ (lp : List (PathEntryM × PathEntry)) (lr : List (RuleM × Rule)),
      paths = lp.map (·.1) ∧ rules = lr.map (·.1) ∧
      (∀ p ∈ lp, PathRel environ root file.locale file.fullpath p.1 p.2) ∧
      (∀ p ∈ lr, RuleRel environ root file.locale file.fullpath p.1 p.2) ∧
      filterM (.mk locales environ root paths rules [] []) file entity = .ok
        (if namesLocale locales paths file.locale then
          (match own (lp.map (·.2)) (lr.map (·.2)) file entity with
           | some a => a
           | none => .ignore)
         else .ignore) := by
  obtain ⟨lp, lr, lc, le, rfl, h1, h2, h3, h4, h5, h6, _, _⟩ := instantiate_inv hc
  have hlc : lc = [] := by simpa using h3.symm
  have hle : le = [] := by simpa using h4.symm
  subst hlc hle
  refine ⟨lp, lr, h1, h2, h5, h6, ?_⟩
  rw [filterM_eq entity hc]
  simp only [List.map_nil]
  rw [leaf_filter, namesLocale, h1, names_paths_eq h5]


/-- the own verdict of ANY configuration node (with whatever included / excluded configurations), last rule wins:
    read on the texts -/
theorem own_last_rule_wins {locales : Option (List (List Nat))} {environ : Environ} {root : Option (List Nat)}
    {paths : List PathEntryM} {pre post : List RuleM} {r : RuleM} {children excludes : List ConfigM} {file : File}
    {entity : Option (List Nat)} {c : Config}
    (hc : instantiate (.mk locales environ root paths (pre ++ r :: post) children excludes) file.locale file.fullpath
      = .ok c)
    (hcov : Covered environ root paths file) (hr : RuleApplies environ root r file entity)
    (hpost : ∀ q ∈ post, ¬ RuleApplies environ root q file entity) :
    own c.paths c.rules file entity = some r.action := by
  obtain ⟨lp, lr, lc, le, rfl, h1, h2, _, _, h5, h6, _, _⟩ := instantiate_inv hc
  have hcov' : covered (lp.map (·.2)) file = true := (covered_iff h5).mpr (h1 ▸ hcov)
  obtain ⟨l1, l2, rfl, hl1, hl2⟩ := List.map_eq_append_iff.mp h2.symm
  obtain ⟨a, l3, rfl, ha, hl3⟩ := List.map_eq_cons_iff.mp hl2
  have hra := h6 a (by simp)
  have happ : applies a.2 file entity = true := (applies_iff hra).mpr (ha ▸ hr)
  have hnot : ∀ q ∈ l3.map (·.2), applies q file entity = false := by
    intro q hq
    obtain ⟨p, hp, rfl⟩ := List.mem_map.mp hq
    have hrp := h6 p (by simp [hp])
    cases hq' : applies p.2 file entity with
    | false => rfl
    | true =>
      exfalso
      exact hpost p.1 (hl3 ▸ List.mem_map.mpr ⟨p, hp, rfl⟩) ((applies_iff hrp).mp hq')
  simp only [Config.paths, Config.rules]
  rw [List.map_append, List.map_cons, own, if_pos hcov',
    filter_getLast_of_last (fun r => applies r file entity) _ _ _ happ hnot]
  simp only
  rw [← hra.2.2, ha]

theorem own_default_error {locales : Option (List (List Nat))} {environ : Environ} {root : Option (List Nat)}
    {paths : List PathEntryM} {rules : List RuleM} {children excludes : List ConfigM} {file : File}
    {entity : Option (List Nat)} {c : Config}
    (hc : instantiate (.mk locales environ root paths rules children excludes) file.locale file.fullpath = .ok c)
    (hcov : Covered environ root paths file) (hno : ∀ q ∈ rules, ¬ RuleApplies environ root q file entity) :
    own c.paths c.rules file entity = some .error := by
  obtain ⟨lp, lr, lc, le, rfl, h1, h2, _, _, h5, h6, _, _⟩ := instantiate_inv hc
  have hcov' : covered (lp.map (·.2)) file = true := (covered_iff h5).mpr (h1 ▸ hcov)
  have : (lr.map (·.2)).filter (fun r => applies r file entity) = [] := by
    rw [List.filter_eq_nil_iff]
    intro q hq
    obtain ⟨p, hp, rfl⟩ := List.mem_map.mp hq
    intro happ
    exact hno p.1 (h2 ▸ List.mem_map.mpr ⟨p, hp, rfl⟩) ((applies_iff (h6 p hp)).mp happ)
  simp only [Config.paths, Config.rules]
  rw [own, if_pos hcov', this]
  rfl

theorem own_not_covered {locales : Option (List (List Nat))} {environ : Environ} {root : Option (List Nat)}
    {paths : List PathEntryM} {rules : List RuleM} {children excludes : List ConfigM} {file : File}
    {entity : Option (List Nat)} {c : Config}
    (hc : instantiate (.mk locales environ root paths rules children excludes) file.locale file.fullpath = .ok c)
    (hcov : ¬ Covered environ root paths file) :
    own c.paths c.rules file entity = none := by
  obtain ⟨lp, lr, lc, le, rfl, h1, h2, _, _, h5, h6, _, _⟩ := instantiate_inv hc
  have hcov' : covered (lp.map (·.2)) file = false := by
    cases hcv : covered (lp.map (·.2)) file with
    | false => rfl
    | true => exact absurd (h1 ▸ (covered_iff h5).mp hcv) hcov
  simp only [Config.paths, Config.rules]
  rw [own, hcov']
  rfl

/-- the verdict of a configuration without included / excluded configurations, through its own verdict -/
theorem leaf_filterM' {locales : Option (List (List Nat))} {environ : Environ} {root : Option (List Nat)}
    {paths : List PathEntryM} {rules : List RuleM} {file : File} {c : Config} (entity : Option (List Nat))
    (hc : instantiate (.mk locales environ root paths rules [] []) file.locale file.fullpath = .ok c) :
    filterM (.mk locales environ root paths rules [] []) file entity = .ok
      (if namesLocale locales paths file.locale then
        (match own c.paths c.rules file entity with
         | some a => a
         | none => .ignore)
       else .ignore) := by
  obtain ⟨lp, lr, _, _, _, hf⟩ := leaf_filterM entity hc
  obtain ⟨lp', lr', lc, le, rfl, h1, h2, h3, h4, h5, h6, _, _⟩ := instantiate_inv hc
  rw [filterM_eq entity hc]
  have hlc : lc = [] := by simpa using h3.symm
  have hle : le = [] := by simpa using h4.symm
  subst hlc hle
  simp only [List.map_nil, Config.paths, Config.rules]
  rw [leaf_filter, namesLocale, h1, names_paths_eq h5]

theorem last_rule_wins_leaf {locales : Option (List (List Nat))} {environ : Environ} {root : Option (List Nat)}
    {paths : List PathEntryM} {pre post : List RuleM} {r : RuleM} {file : File} {entity : Option (List Nat)} {c : Config}
    (hc : instantiate (.mk locales environ root paths (pre ++ r :: post) [] []) file.locale file.fullpath = .ok c)
    (hloc : namesLocale locales paths file.locale = true) (hcov : Covered environ root paths file)
    (hr : RuleApplies environ root r file entity)
    (hpost : ∀ q ∈ post, ¬ RuleApplies environ root q file entity) :
    filterM (.mk locales environ root paths (pre ++ r :: post) [] []) file entity = .ok r.action := by
  rw [leaf_filterM' entity hc, hloc, if_pos rfl, own_last_rule_wins hc hcov hr hpost]

theorem default_error_leaf {locales : Option (List (List Nat))} {environ : Environ} {root : Option (List Nat)}
    {paths : List PathEntryM} {rules : List RuleM} {file : File} {entity : Option (List Nat)} {c : Config}
    (hc : instantiate (.mk locales environ root paths rules [] []) file.locale file.fullpath = .ok c)
    (hloc : namesLocale locales paths file.locale = true) (hcov : Covered environ root paths file)
    (hno : ∀ q ∈ rules, ¬ RuleApplies environ root q file entity) :
    filterM (.mk locales environ root paths rules [] []) file entity = .ok .error := by
  rw [leaf_filterM' entity hc, hloc, if_pos rfl, own_default_error hc hcov hno]

theorem not_covered_leaf {locales : Option (List (List Nat))} {environ : Environ} {root : Option (List Nat)}
    {paths : List PathEntryM} {rules : List RuleM} {file : File} {entity : Option (List Nat)} {c : Config}
    (hc : instantiate (.mk locales environ root paths rules [] []) file.locale file.fullpath = .ok c)
    (hcov : ¬ Covered environ root paths file) :
    filterM (.mk locales environ root paths rules [] []) file entity = .ok .ignore := by
  rw [leaf_filterM' entity hc, own_not_covered hc hcov]
  split <;> rfl

end C14M

namespace C14M
open Rx PM Filt FiltM Filt.Spec

/-- `patMatches` returned: the bound matcher exists and its `match` returned -/
theorem patMatches_ok_inv {environ : Environ} {root : Option (List Nat)} {pat L path : List Nat} {r : Bool}
    (h : patMatches environ root pat L path = .ok r) :
    ∃ b mres, boundMatcher environ root pat L = .ok b ∧ b.match path = .ok mres ∧ r = mres.isSome := by
  unfold patMatches at h
  obtain ⟨b, hb, h⟩ := bind_ok h
  unfold matchesS at h
  obtain ⟨mres, hm, h⟩ := bind_ok h
  simp only [pure, Except.pure, Except.ok.injEq] at h
  exact ⟨b, mres, hb, hm, h.symm⟩

/-- every rule path of an instantiated configuration returned on the query -/
theorem instantiate_rule_returns {locales : Option (List (List Nat))} {environ : Environ} {root : Option (List Nat)}
    {paths : List PathEntryM} {rules : List RuleM} {children excludes : List ConfigM} {loc fp : List Nat} {c : Config}
    (h : instantiate (.mk locales environ root paths rules children excludes) loc fp = .ok c) :
    ∀ r ∈ rules, ∃ x, patMatches environ root r.path loc fp = .ok x := by
  obtain ⟨lp, lr, lc, le, _, _, h2, _, _, _, h6, _, _⟩ := instantiate_inv h
  intro r hr
  rw [h2] at hr
  obtain ⟨p, hp, rfl⟩ := List.mem_map.mp hr
  exact ⟨_, (h6 p hp).1⟩

end C14M

/-! ### helpers for concrete witnesses -/

deriving instance DecidableEq for Except

namespace C14M

def isOk {ε α : Type} : Except ε α → Bool
  | .ok _ => true
  | .error _ => false

def errIs {α : Type} (r : Except PM.PyErr α) (e : PM.PyErr) : Bool :=
  match r with
  | .error e' => e' == e
  | .ok _ => false

end C14M

/- C13M helper lemmas about the `Matcher` model: a fully bound pattern matches nothing but its own expansion, and that
   expansion is its prefix when the pattern is wildcard-free (the "literal" contract of `ProjectFiles._files`). -/
import CLModel.Paths.ProjectFilesM
import CLModel.Proofs.C12PrefixFull
import CLModel.Proofs.C11Sub
namespace PM
open Rx

/-- an expansion that succeeds with `raise_missing=True` is what `raise_missing=False` returns as well -/
theorem expandChildren_true_false {rec : ExpRec} {env : Env} : ∀ {ns : List Node} {t : Text},
    expandChildren rec ns env true = .ok t → expandChildren rec ns env false = .ok t
  | [], t, h => by simpa [expandChildren] using h
  | c :: cs, t, h => by
    rcases expandChildren_cons_ok h with ⟨_, hrm, _⟩ | ⟨a, b, h1, h2, rfl⟩
    · cases hrm
    · have ih := expandChildren_true_false h2
      simp only [expandChildren, h1, ih, bind, Except.bind, pure, Except.pure]

theorem textAt_eq_of_length {path t : Text} (h : TextAt path.toArray 0 t) (hl : path.length = t.length) : path = t := by
  have hp : t <+: path := by simpa using h.prefix
  exact (hp.eq_of_length hl.symm).symm

/-- **A fully bound pattern matches its own expansion only.**  If `pattern.expand(env, raise_missing=True)` returns `t`
    (every variable is bound; a wildcard cannot be expanded in a `Matcher` environment) and `match(path)` returns a
    dictionary, then `path = t`.  For every matcher of the shape `Matcher(...)` / `with_env` build (nested values,
    repeated variables, `{android_locale}`, any root). -/
theorem bound_matches_only_expansion {m : Matcher} {path : Text} {d : GroupDict} {t : Text}
    (henv : EnvOK' m.env) (hrep : RepOK m.pattern.nodes)
    (hfull : expandPat (expandVal (fuelFor m.env)) m.pattern m.env true = .ok t)
    (h : m.match path = .ok (some d)) : path = t := by
  obtain ⟨re, names, st, hre, hst, _⟩ := match_inv h
  obtain ⟨items, hrx, hreq, hwf⟩ := regexOf_inv hre
  obtain ⟨root, citems, hroot, hch, hitems⟩ := rxPat_inv hrx
  have hU : UniqueG (groups re) := wfRe_unique hwf
  have hG : ∀ x ∈ citems, ∀ p ∈ groups x, p ∈ groups re := by
    intro x hx p hp'
    rw [hreq, groups_seqOf, hitems]
    exact List.mem_flatMap.mpr ⟨x, by simp [hx], hp'⟩
  simp only [expandPat, hroot, bind, Except.bind] at hfull
  split at hfull
  · cases hfull
  · rename_i body hbody
    simp only [pure, Except.pure, Except.ok.injEq] at hfull
    subst hfull
    have hsp : SpellsL (groups re) citems body :=
      spells_children (G := groups re) (spells_val _ _) henv hrep hch hG (fun n hn => hn) hbody hch
    have hsem := sem_seqOf _ (hreq ▸ matchAt_sem hst)
    rw [hitems] at hsem
    have hsem' : SemL path.toArray (root.map Re.lit ++ (citems ++ [Gen.Pat.matcher_frag_anchor])) ⟨0, []⟩ st := by
      simpa [List.append_assoc] using hsem
    obtain ⟨h1, h2⟩ := semL_lits root hsem'
    obtain ⟨h3, mid, hmid, _, hrest⟩ := spellsL_sound hU hsp hG (s := path.toArray) (fun e he => by cases he) h2
    have hend : mid.pos = path.length := by
      cases hrest with
      | cons ha hn =>
        cases hn
        have hanchor : Gen.Pat.matcher_frag_anchor = Re.eos := rfl
        rw [hanchor] at ha
        cases ha with
        | eos hc => simpa using hc
    have hta : TextAt path.toArray 0 (root ++ body) := TextAt.append h1 (by simpa using h3)
    apply textAt_eq_of_length hta
    simp only [List.length_append]
    simp only at hmid
    omega

/-- … and for a wildcard-free pattern (`prefix_length == len(pattern)`) that expansion is the `prefix` -/
theorem bound_literal_prefix {m : Matcher} {t : Text}
    (hlit : m.pattern.nodes.length ≤ m.pattern.prefixLen)
    (hfull : expandPat (expandVal (fuelFor m.env)) m.pattern m.env true = .ok t) : m.prefix = .ok t := by
  have htake : m.pattern.nodes.take m.pattern.prefixLen = m.pattern.nodes := List.take_of_length_le hlit
  have hroot : rootOf (expandVal (fuelFor m.env)) m.prefixPattern m.env =
      rootOf (expandVal (fuelFor m.env)) m.pattern m.env := by
    unfold rootOf
    simp only [Matcher.prefixPattern, htake]
  simp only [expandPat, bind, Except.bind] at hfull
  simp only [Matcher.prefix, expandTop, expandPat, bind, Except.bind, hroot]
  cases hr : rootOf (expandVal (fuelFor m.env)) m.pattern m.env with
  | error e => simp [hr] at hfull
  | ok root =>
    simp only [hr] at hfull ⊢
    cases hb : expandChildren (expandVal (fuelFor m.env)) m.pattern.nodes m.env true with
    | error e => simp [hb] at hfull
    | ok body =>
      simp only [hb] at hfull
      have : expandChildren (expandVal (fuelFor m.env)) m.prefixPattern.nodes m.env false = .ok body := by
        simp only [Matcher.prefixPattern, htake]
        exact expandChildren_true_false hb
      simp only [this]
      exact hfull

/-- `Matcher.match` is `matchCore` on the cached regular expression -/
theorem match_eq_core {m : Matcher} {re : Re} {names : List Text} (h : m.regexOf = .ok (re, names)) (path : Text) :
    m.match path = PFM.matchCore re names path := by
  simp only [Matcher.match, h, bind, Except.bind, PFM.matchCore]
  rfl

theorem prep_match (a : Matcher) (path : Text) : (PFM.prep a).matchP path = a.match path := by
  unfold PFM.Prep.matchP PFM.prep
  simp only
  cases h : a.regexOf with
  | error e => simp [Matcher.match, h, bind, Except.bind]
  | ok x =>
    obtain ⟨re, names⟩ := x
    simp only
    rw [match_eq_core h]

theorem prep_sub (a b : Matcher) (path : Text) : (PFM.prep a).subP (PFM.prep b) path = a.sub b path := by
  unfold PFM.Prep.subP
  rw [prep_match]
  unfold Matcher.sub
  simp only [bind, Except.bind, PFM.prep]
  cases a.match path with
  | error e => rfl
  | ok od =>
    cases od with
    | none => rfl
    | some d =>
      simp only
      cases expandTop b.pattern (subEnv d b.env) <;> rfl

/-- inside the supported class `match` cannot raise: the regular expression exists and has no `android_locale` group -/
theorem usable_match_ok {a : Matcher} (h : PFM.usable a = true) (path : Text) :
    a.match path = .ok none ∨ ∃ d, a.match path = .ok (some d) := by
  unfold PFM.usable PFM.Prep.usable PFM.prep at h
  simp only [Bool.and_eq_true] at h
  obtain ⟨_, h2⟩ := h
  cases hre : a.regexOf with
  | error e => simp [hre] at h2
  | ok x =>
    obtain ⟨re, names⟩ := x
    simp only [hre, Bool.not_eq_true'] at h2
    rw [match_eq_core hre]
    unfold PFM.matchCore
    simp only
    cases Rx.matchAt path.toArray re 0 with
    | none => left; rfl
    | some st =>
      right
      simp only
      have hno : (groupDict path.toArray st names).any (·.1 == androidName) = false := by
        rw [Bool.eq_false_iff]
        intro hc
        simp only [groupDict, List.any_map, List.any_eq_true, Function.comp_apply, beq_iff_eq] at hc
        obtain ⟨nm, hnm, he⟩ := hc
        have : names.contains androidName = true := by rw [← he]; simpa using hnm
        rw [this] at h2
        cases h2
      simp only [hno, Bool.false_and, Bool.false_eq_true, if_false]
      exact ⟨_, rfl⟩

theorem usable_prefix_ok {a : Matcher} (h : PFM.usable a = true) : ∃ pre, a.prefix = .ok pre := by
  unfold PFM.usable PFM.Prep.usable PFM.prep at h
  simp only [Bool.and_eq_true] at h
  obtain ⟨h1, _⟩ := h
  cases hp : a.prefix with
  | error e => simp [hp] at h1
  | ok pre => exact ⟨pre, rfl⟩

end PM

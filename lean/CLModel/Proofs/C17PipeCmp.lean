/-
C17 helper lemmas, part 10 (round 4): provenance of every notification of the composed comparison
`Pipe.compareParsed` (`ContentComparer.compare`, C05 model): whatever the observers answer, each event handed to them is
a key (missing / obsolete), a duplicate message, the reference-junk warning, the `error_message()` of a Junk of the
localized file, or a checker result of a pair (reference entry, localized entry) with the position
`Pos.resolveCheckPos` computed on the localized entry.  Safety form: assumes the run returned, says what it emitted.
-/
import CLModel.Proofs.C17PipeLint
import CLModel.Proofs.C05Report
namespace C17P
open Pos Pipe
open ObsM (Ev ObsList Obs)

/-- where a notification of one comparison comes from -/
inductive Expl (env : Env) (ref l10n : List PEnt) : Ev → Prop
  | key (cat : ObsM.Cat) (k : Cmp.Key) (hc : cat = .missingEntity ∨ cat = .obsoleteEntity) :
      Expl env ref l10n (.notify cat env.file (keyData k))
  | dup (cat : ObsM.Cat) (k : Cmp.Key) (n : Nat) (hc : cat = .warning ∨ cat = .error) :
      Expl env ref l10n (.notify cat env.file (.str (dupMsg k n)))
  | refJunk : Expl env ref l10n (.notify .warning env.file (.str Gen.Tables.cmpRefJunkMsg))
  | junk (j : PEnt) (hj : j ∈ l10n) (hjj : j.junk = true) (t : Text) (ht : junkMessage env.l10nText env.cls j = .ok t) :
      Expl env ref l10n (.notify .error env.file (.str t))
  | check (r : PEnt) (hr : r ∈ ref) (l : PEnt) (hl : l ∈ l10n) (rs : List CheckRes)
      (hrs : runChecker env.ck r l = .ok rs) (c : CheckRes) (hc : c ∈ rs) (lc : Int × Int)
      (hlc : resolvePos env.l10nText env.cls l c.pos = some lc) :
      Expl env ref l10n (.notify (sevCat c.sev) env.file (.str (checkMsg c.msg lc.1 lc.2 r.key)))

/-- the observers are what a history of explained events produces -/
def Inv (obs0 : ObsList) (env : Env) (ref l10n : List PEnt) (obs : ObsList) : Prop :=
  ∃ h, Reach obs0 env.file h obs ∧ ∀ ev ∈ h, Expl env ref l10n ev

theorem notify_inv {obs0 : ObsList} (hf : Fresh obs0) {env : Env} (hm : ObsM.Modelled env.file) {ref l10n : List PEnt}
    {obs obs' : ObsList} {rv : ObsM.Ret} (cat : ObsM.Cat) (d : ObsM.Data)
    (hi : Inv obs0 env ref l10n obs) (he : Expl env ref l10n (.notify cat env.file d))
    (hn : notify env obs cat d = .ok (obs', rv)) : Inv obs0 env ref l10n obs' := by
  obtain ⟨h, hr, hall⟩ := hi
  obtain ⟨l', rv', hn', hr'⟩ := notify_spec env hf hm hr cat d
  rw [hn] at hn'
  cases hn'
  refine ⟨_, hr', ?_⟩
  intro ev hev
  simp only [List.mem_append, List.mem_singleton] at hev
  rcases hev with hev | rfl
  · exact hall ev hev
  · exact he

theorem foldE_ok_inv {α σ : Type} {f : σ → α → Except PyErr σ} (I : σ → Prop) :
    ∀ (l : List α) (st st' : σ), I st → (∀ s x s', x ∈ l → I s → f s x = .ok s' → I s') →
      foldE f l st = .ok st' → I st'
  | [], st, st', h0, _, h => by simp only [foldE, Except.ok.injEq] at h; subst h; exact h0
  | x :: xs, st, st', h0, hs, h => by
    simp only [foldE] at h
    split at h
    · cases h
    · rename_i st1 h1
      exact foldE_ok_inv I xs st1 st' (hs st x st1 (by simp) h0 h1) (fun s y s' hy => hs s y s' (by simp [hy])) h

theorem checkLoop_inv {obs0 : ObsList} (hf : Fresh obs0) {env : Env} (hm : ObsM.Modelled env.file) {ref l10n : List PEnt}
    (r l : PEnt) (hr : r ∈ ref) (hl : l ∈ l10n) (rs : List CheckRes)
    (hrs : runChecker env.ck r l = .ok rs) :
    ∀ (results : List CheckRes), (∀ c ∈ results, c ∈ rs) → ∀ (obs obs' : ObsList) (skips skips' : List PEnt),
      Inv obs0 env ref l10n obs → checkLoop env r l results (obs, skips) = .ok (obs', skips') →
      Inv obs0 env ref l10n obs' := by
  intro results
  induction results with
  | nil =>
    intro _ obs obs' skips skips' hi h
    simp only [checkLoop, Except.ok.injEq, Prod.mk.injEq] at h
    rw [← h.1]; exact hi
  | cons c cs ih =>
    intro hsub obs obs' skips skips' hi h
    simp only [checkLoop] at h
    split at h
    · cases h
    · rename_i line col hres
      split at h
      · cases h
      · rename_i obs1 rv hn
        have hi1 := notify_inv hf hm (sevCat c.sev) _ hi
          (Expl.check r hr l hl rs hrs c (hsub c (by simp)) (line, col) hres) hn
        exact ih (fun c' hc' => hsub c' (by simp [hc'])) obs1 obs' _ skips' hi1 h

theorem notifyDups_inv {obs0 : ObsList} (hf : Fresh obs0) {env : Env} (hm : ObsM.Modelled env.file) {ref l10n : List PEnt}
    (cat : ObsM.Cat) (hc : cat = .warning ∨ cat = .error) :
    ∀ (dups : List (Cmp.Key × Nat)) (obs obs' : ObsList), Inv obs0 env ref l10n obs →
      notifyDups env cat dups obs = .ok obs' → Inv obs0 env ref l10n obs' := by
  intro dups
  induction dups with
  | nil => intro obs obs' hi h; simp only [notifyDups, Except.ok.injEq] at h; subst h; exact hi
  | cons p ps ih =>
    intro obs obs' hi h
    obtain ⟨k, n⟩ := p
    simp only [notifyDups] at h
    split at h
    · cases h
    · rename_i obs1 rv hn
      exact ih obs1 obs' (notify_inv hf hm cat _ hi (Expl.dup cat k n hc) hn) h

/-- one iteration of `for action, entity_id in ar` keeps the observers explained -/
theorem step_inv {obs0 : ObsList} (hf : Fresh obs0) {env : Env} (hm : ObsM.Modelled env.file) (ref l10n : List PEnt)
    (st st' : LoopSt) (p : AR.Label × Cmp.Key) (hi : Inv obs0 env ref l10n st.obs)
    (h : step env ref l10n st p = .ok st') : Inv obs0 env ref l10n st'.obs := by
  obtain ⟨lab, k⟩ := p
  cases lab with
  | delete =>
    simp only [step] at h
    split at h
    · cases h
    · rename_i refent hl
      split at h
      · split at h
        · cases h
        · rename_i obs rv hn
          cases h
          exact notify_inv hf hm .warning _ hi Expl.refJunk hn
      · split at h
        · cases h
        · rename_i obs rv hn
          have := notify_inv hf hm .missingEntity _ hi (Expl.key .missingEntity k (Or.inl rfl)) hn
          split at h <;> (cases h; exact this)
  | add =>
    simp only [step] at h
    split at h
    · cases h
    · rename_i l10nent hl
      split at h
      · rename_i hj
        split at h
        · cases h
        · rename_i msg hmsg
          split at h
          · cases h
          · rename_i obs rv hn
            cases h
            exact notify_inv hf hm .error _ hi (Expl.junk l10nent (lookup_ok hl).1 hj msg hmsg) hn
      · split at h
        · cases h
        · rename_i obs rv hn
          have := notify_inv hf hm .obsoleteEntity _ hi (Expl.key .obsoleteEntity k (Or.inr rfl)) hn
          split at h <;> (cases h; exact this)
  | equal =>
    simp only [step] at h
    split at h
    · cases h
    · cases h
    · rename_i refent l10nent hlr hll
      split at h
      · cases h
      · rename_i stats _
        split at h
        · cases h
        · rename_i results hrun
          split at h
          · cases h
          · rename_i obs skips hcl
            cases h
            exact checkLoop_inv hf hm refent l10nent (lookup_ok hlr).1 (lookup_ok hll).1 results hrun results
              (fun c hc => hc) st.obs obs st.skips skips hi hcl

/-- the whole comparison: the final observers are the result of explained events followed by the stats update -/
theorem compareParsed_inv {obs0 : ObsList} (hf : Fresh obs0) (env : Env) (hm : ObsM.Modelled env.file)
    (ref l10n : List PEnt) (obs' : ObsList) (outcome : Merge.Outcome)
    (h : compareParsed env ref l10n obs0 = .ok (obs', outcome)) :
    ∃ evs stats, Reach obs0 env.file (evs ++ [.stats env.file stats]) obs' ∧ ∀ ev ∈ evs, Expl env ref l10n ev := by
  unfold compareParsed at h
  simp only at h
  split at h
  · cases h
  · rename_i obs1 h1
    split at h
    · cases h
    · rename_i obs2 h2
      split at h
      · cases h
      · rename_i st h3
        split at h
        · cases h
        · rename_i oc _
          cases h
          have hi0 : Inv obs0 env ref l10n obs0 := ⟨[], Reach.nil _ _, by simp⟩
          have hi1 := notifyDups_inv hf hm .warning (Or.inl rfl) _ obs0 obs1 hi0 h1
          have hi2 := notifyDups_inv hf hm .error (Or.inr rfl) _ obs1 obs2 hi1 h2
          have hi3 : Inv obs0 env ref l10n st.obs :=
            foldE_ok_inv (fun s : LoopSt => Inv obs0 env ref l10n s.obs) _ { obs := obs2 } st hi2
              (fun s x s' _ hs hstep => step_inv hf hm ref l10n s s' x hs hstep) h3
          obtain ⟨evs, hreach, hall⟩ := hi3
          exact ⟨evs, statsList st.stats, updateStats_reach hreach _, hall⟩

/-! ### from the events to the items of `toJSON()["details"]` -/

/-- why an error / warning text of the report says what it says -/
inductive DetailWhy (s : Array Nat) (l10n : List PEnt) (t : Text) : Prop
  /-- `"<key> occurs <n> times"` (no position) -/
  | dup (k : Cmp.Key) (n : Nat) (h : t = dupMsg k n)
  /-- `"Parser error in en-US"` (no position) -/
  | refJunk (h : t = Gen.Tables.cmpRefJunkMsg)
  /-- `Junk.error_message()` of a Junk of the localized file: its text, the pair of its start, the pair of its end -/
  | junk (j : PEnt) (hj : j ∈ l10n) (hjj : j.junk = true) (h : t = junkText s j.entry.s j.entry.e)
  /-- `"<msg> at line <l>, column <c> for <key>"` with `(l, c)` explained by `Target` on a localized entry -/
  | check (l : PEnt) (hl : l ∈ l10n) (msg : Text) (key : Cmp.Key) (lc : Int × Int) (ht : Target s l.entry lc)
      (h : t = checkMsg msg lc.1 lc.2 key)

theorem junkMessage_text (s : Array Nat) (j : PEnt) (hv : j.val = P.slice s j.entry.s j.entry.e) (t : Text)
    (h : junkMessage s .plain j = .ok t) : t = junkText s j.entry.s j.entry.e := by
  unfold junkMessage junkMessagePositions at h
  simp only at h
  have h0 : position s j.entry 0 = some (castLC (cursor s j.entry.s)) := by
    unfold position; simpa using linecol_nat s j.entry.s
  have h1 : position s j.entry (-1) = some (castLC (cursor s j.entry.e)) := by
    unfold position; simpa using linecol_nat s j.entry.e
  rw [h0, h1] at h
  simp only [castLC, Except.ok.injEq] at h
  rw [← h, hv]
  rfl

/-- **every error / warning item of the report is explained** (ini, inc, po, properties; any file the observers can
    address, any list of fresh observers with filters, with or without merge staging; whatever the external functions
    `ext` are) -/
theorem compareFiles_details_explained (ext : Ext) (fmt : P.Fmt) (hf : fmt ≠ .dtd)
    (file : ObsM.File) (hm : ObsM.Modelled file) (q : Nat) (flts : List (Option ObsM.Filter))
    (refText l10nText : Array Nat) (mergeOn : Bool) (r : Report)
    (h : compareFiles ext fmt file (ObsList.init q (flts.map (Obs.init q))) refText l10nText mergeOn = .ok r) :
    ∃ l10n n0 n1, parseFile ext fmt l10nText n0 = .ok (l10n, n1) ∧ (∀ pe ∈ l10n, EntFacts fmt l10nText pe) ∧
      ∀ leaf ∈ r.details, ∀ d ∈ leaf.2, (d.1 = .error ∨ d.1 = .warning) →
        ∃ t, d.2 = .data (.str t) ∧ DetailWhy l10nText l10n t := by
  unfold compareFiles at h
  split at h
  · cases h
  · rename_i ref n1 hp1
    split at h
    · cases h
    · rename_i l10n n2 hp2
      split at h
      · cases h
      · rename_i obs outcome hcmp
        cases h
        have hfacts := parseFile_facts ext fmt hf l10nText n1 l10n n2 hp2
        refine ⟨l10n, n1, n2, hp2, hfacts, ?_⟩
        have hcl : (envOf ext fmt file mergeOn ref l10nText).cls = .plain := clsOf_plain hf
        obtain ⟨evs, stats, hreach, hall⟩ := compareParsed_inv (fresh_init q flts)
          (envOf ext fmt file mergeOn ref l10nText) hm ref l10n obs outcome hcmp
        intro leaf hleaf d hd hcat
        obtain ⟨cat, f, data, rv, hev, rfl⟩ :=
          report_details_from_history q flts file hm _ obs hreach outcome leaf hleaf d hd
        simp only [List.mem_append, List.mem_singleton] at hev
        rcases hev with hev | hev
        · have hex := hall _ hev
          have hnf : ∀ c : ObsM.Cat, (c = .error ∨ c = .warning) → c.isFile = false := by
            intro c hc; rcases hc with rfl | rfl <;> rfl
          cases hex with
          | key cat' k hc =>
            rcases hc with rfl | rfl <;> simp [ObsM.detailOf, ObsM.Cat.isFile] at hcat
          | dup cat' k n hc =>
            have hnf' := hnf _ hc.symm
            exact ⟨_, by simp [ObsM.detailOf, hnf'], .dup k n rfl⟩
          | refJunk => exact ⟨_, by simp [ObsM.detailOf, ObsM.Cat.isFile], .refJunk rfl⟩
          | junk j hj hjj t ht =>
            rw [hcl] at ht
            exact ⟨t, by simp [ObsM.detailOf, ObsM.Cat.isFile],
              .junk j hj hjj (junkMessage_text l10nText j ((hfacts j hj).junk_val hjj) t ht)⟩
          | check rr hr l hl rs hrs c hc lc hlc =>
            have hnf' : (sevCat c.sev).isFile = false := by cases c.sev <;> rfl
            rw [hcl] at hlc
            exact ⟨_, by simp [ObsM.detailOf, hnf'],
              .check l hl c.msg rr.key lc
                (resolve_target fmt hf (envOf ext fmt file mergeOn ref l10nText).ck rfl l10nText rr l (hfacts l hl) rs hrs c hc
                  lc hlc).1 rfl⟩
        · cases hev

end C17P

/-
C18 (round 4) helper lemmas: the linter (`HistM.lintG`) and the arguments of `merge` (`HistM.mergeInputs`) commute
with every renaming of keys that is injective on the keys involved, mention no junk key, and therefore do not
depend on the state they are started in.
-/
import CLModel.History.Machine
import CLModel.Proofs.C18State
namespace C18M
open Hist HistM AR P

set_option linter.unusedSectionVars false

section nat
variable {κ κ' : Type} [BEq κ] [LawfulBEq κ] [BEq κ'] [LawfulBEq κ']

theorem count_nat {f : κ → κ'} {ks : List κ} (hf : InjOn f ks) (l : List κ) (x : κ)
    (hl : ∀ y ∈ l, y ∈ ks) (hx : x ∈ ks) : (l.map f).count (f x) = l.count x := by
  induction l with
  | nil => rfl
  | cons y t ih =>
    simp only [List.map_cons, List.count_cons]
    rw [ih (fun z hz => hl z (List.mem_cons_of_mem _ hz)), beq_nat hf (hl y List.mem_cons_self) hx]

theorem keys_map (f : κ → κ') (es : List (KEnt κ)) :
    (es.map (KEnt.mapKey f)).map (·.key) = (es.map (·.key)).map f := by
  simp [List.map_map, KEnt.mapKey, Function.comp_def]

theorem keys_mem {ks : List κ} (es : List (KEnt κ)) (h : ∀ e ∈ es, e.key ∈ ks) : ∀ x ∈ es.map (·.key), x ∈ ks := by
  intro x hx
  rw [List.mem_map] at hx
  obtain ⟨e, he, rfl⟩ := hx
  exact h e he

theorem keyedContains_nat {f : κ → κ'} {ks : List κ} (hf : InjOn f ks) (l : List κ) (x : κ)
    (hl : ∀ y ∈ l, y ∈ ks) (hx : x ∈ ks) : keyedContains (l.map f) (f x) = keyedContains l x := by
  rw [keyedContains_eq, keyedContains_eq, contains_nat hf l x hl hx]

/-! ### lint -/

theorem lintEnt_nat {f : κ → κ'} {ks : List κ} (hf : InjOn f ks) (lc : Nat → Nat × Nat) (ref cur : List (KEnt κ))
    (href : ∀ e ∈ ref, e.key ∈ ks) (hcur : ∀ e ∈ cur, e.key ∈ ks) (e : KEnt κ) (he : e.key ∈ ks) :
    lintEnt lc (ref.map (KEnt.mapKey f)) (cur.map (KEnt.mapKey f)) (KEnt.mapKey f e)
      = (lintEnt lc ref cur e).map (List.map (LMsg.mapKey f)) := by
  unfold lintEnt
  have e1 : (KEnt.mapKey f e).junk = e.junk := rfl
  have e2 : (KEnt.mapKey f e).val = e.val := rfl
  have e3 : (KEnt.mapKey f e).s = e.s := rfl
  have e4 : (KEnt.mapKey f e).e = e.e := rfl
  have e5 : (KEnt.mapKey f e).moch = e.moch := rfl
  have e6 : (KEnt.mapKey f e).key = f e.key := rfl
  rw [e1, e2, e3, e4, e5, e6, keys_map, keys_map, count_nat hf _ e.key (keys_mem cur hcur) he,
    keyedContains_nat hf _ e.key (keys_mem ref href) he, lookup_nat hf ref e.key href he]
  by_cases hj : e.junk = true
  · simp [hj, Except.map, LMsg.mapKey]
  · simp only [hj, Bool.false_eq_true, if_false]
    by_cases hc : keyedContains (ref.map (·.key)) e.key = true
    · simp only [hc, if_true]
      cases hl : lookup ref e.key with
      | none => rfl
      | some r =>
        obtain ⟨hk, hm⟩ := lookup_key ref e.key r hl
        simp only [Option.map_some]
        have e7 : (KEnt.mapKey f r).key = f r.key := rfl
        have e8 : (KEnt.mapKey f r).val = r.val := rfl
        rw [e7, e8, beq_nat hf he (href r hm)]
        by_cases hq : (e.key == r.key && e.val == r.val) = true
        · simp only [hq, if_true, Except.map]
          congr 1
          by_cases hd : (cur.map (·.key)).count e.key > 1 <;>
            simp [hd, List.map_map, LMsg.mapKey, Function.comp_def]
        · simp only [hq, Bool.false_eq_true, if_false, Except.map]
          congr 1
          by_cases hd : (cur.map (·.key)).count e.key > 1 <;>
            simp [hd, List.map_map, LMsg.mapKey, Function.comp_def]
    · simp only [hc, Bool.false_eq_true, if_false, Except.map]
      congr 1
      by_cases hd : (cur.map (·.key)).count e.key > 1 <;>
        simp [hd, List.map_map, LMsg.mapKey, Function.comp_def]

theorem lintAll_nat {f : κ → κ'} {ks : List κ} (hf : InjOn f ks) (lc : Nat → Nat × Nat) (ref cur : List (KEnt κ))
    (href : ∀ e ∈ ref, e.key ∈ ks) (hcur : ∀ e ∈ cur, e.key ∈ ks) :
    ∀ (es : List (KEnt κ)), (∀ e ∈ es, e.key ∈ ks) →
      lintAll lc (ref.map (KEnt.mapKey f)) (cur.map (KEnt.mapKey f)) (es.map (KEnt.mapKey f))
        = (lintAll lc ref cur es).map (List.map (LMsg.mapKey f)) := by
  intro es
  induction es with
  | nil => intro _; rfl
  | cons e t ih =>
    intro h
    simp only [List.map_cons, lintAll]
    rw [lintEnt_nat hf lc ref cur href hcur e (h e List.mem_cons_self),
      ih (fun x hx => h x (List.mem_cons_of_mem _ hx))]
    cases lintEnt lc ref cur e with
    | error x => rfl
    | ok a =>
      cases lintAll lc ref cur t with
      | error x => rfl
      | ok b => simp [Except.map]

/-- `lint_file` commutes with every renaming of keys that is injective on the keys of the two files -/
theorem lintG_nat {f : κ → κ'} {ks : List κ} (hf : InjOn f ks) (lc : Nat → Nat × Nat) (ref cur : List (KEnt κ))
    (href : ∀ e ∈ ref, e.key ∈ ks) (hcur : ∀ e ∈ cur, e.key ∈ ks) :
    lintG lc (ref.map (KEnt.mapKey f)) (cur.map (KEnt.mapKey f))
      = (lintG lc ref cur).map (List.map (LMsg.mapKey f)) :=
  lintAll_nat hf lc ref cur href hcur cur hcur

/-! ### merge -/

def maccMap (f : κ → κ') (a : MAcc κ) : MAcc κ' := (a.1.map f, a.2)

theorem mergeStep_nat {f : κ → κ'} {ks : List κ} (hf : InjOn f ks) (ref l10n : List (KEnt κ))
    (href : ∀ e ∈ ref, e.key ∈ ks) (hl10n : ∀ e ∈ l10n, e.key ∈ ks) (acc : MAcc κ) (lab : Label) (k : κ)
    (hk : k ∈ ks) :
    mergeStep (ref.map (KEnt.mapKey f)) (l10n.map (KEnt.mapKey f)) (maccMap f acc) (lab, f k)
      = (mergeStep ref l10n acc (lab, k)).map (maccMap f) := by
  unfold mergeStep
  simp only [lookup_nat hf ref k href hk, lookup_nat hf l10n k hl10n hk]
  cases lab
  · rfl
  · cases lookup ref k with
    | none => rfl
    | some r =>
      simp only [Option.map_some]
      have e1 : (KEnt.mapKey f r).junk = r.junk := rfl
      rw [e1]
      split <;> simp [maccMap, Except.map]
  · cases lookup l10n k with
    | none => rfl
    | some l =>
      simp only [Option.map_some]
      have e1 : (KEnt.mapKey f l).junk = l.junk := rfl
      have e3 : (KEnt.mapKey f l).s = l.s := rfl
      have e4 : (KEnt.mapKey f l).e = l.e := rfl
      rw [e1, e3, e4]
      split <;> simp [maccMap, Except.map]

theorem mergeFold_nat {f : κ → κ'} {ks : List κ} (hf : InjOn f ks) (ref l10n : List (KEnt κ))
    (href : ∀ e ∈ ref, e.key ∈ ks) (hl10n : ∀ e ∈ l10n, e.key ∈ ks) :
    ∀ (xs : List (Label × κ)) (acc : MAcc κ), (∀ p ∈ xs, p.2 ∈ ks) →
      (xs.map (fun p => (p.1, f p.2))).foldlM
          (mergeStep (ref.map (KEnt.mapKey f)) (l10n.map (KEnt.mapKey f))) (maccMap f acc)
        = (xs.foldlM (mergeStep ref l10n) acc).map (maccMap f) := by
  intro xs
  induction xs with
  | nil => intro acc _; rfl
  | cons x t ih =>
    intro acc hx
    simp only [List.map_cons, List.foldlM_cons]
    rw [mergeStep_nat hf ref l10n href hl10n acc x.1 x.2 (hx x List.mem_cons_self)]
    cases hs : mergeStep ref l10n acc (x.1, x.2) with
    | error e => rfl
    | ok a =>
      have := ih a (fun p hp => hx p (List.mem_cons_of_mem _ hp))
      simpa [Except.map, bind, Except.bind] using this

theorem mergeStep_keys {ks : List κ} (ref l10n : List (KEnt κ)) (acc acc' : MAcc κ) (act : Label × κ)
    (hk : act.2 ∈ ks) (hacc : ∀ x ∈ acc.1, x ∈ ks) (h : mergeStep ref l10n acc act = .ok acc') :
    ∀ x ∈ acc'.1, x ∈ ks := by
  unfold mergeStep at h
  split at h
  · split at h
    · simp at h
    · split at h <;> (injection h with h; subst h)
      · exact hacc
      · intro x hx
        simp only [List.mem_append, List.mem_singleton] at hx
        rcases hx with hx | hx
        · exact hacc x hx
        · subst hx; exact hk
  · split at h
    · simp at h
    · split at h <;> (injection h with h; subst h) <;> exact hacc
  · injection h with h; subst h; exact hacc

theorem mergeFold_keys {ks : List κ} (ref l10n : List (KEnt κ)) :
    ∀ (xs : List (Label × κ)) (acc acc' : MAcc κ), (∀ p ∈ xs, p.2 ∈ ks) → (∀ x ∈ acc.1, x ∈ ks) →
      xs.foldlM (mergeStep ref l10n) acc = .ok acc' → ∀ x ∈ acc'.1, x ∈ ks := by
  intro xs
  induction xs with
  | nil => intro acc acc' _ ha h; simp [List.foldlM, pure, Except.pure] at h; subst h; exact ha
  | cons x t ih =>
    intro acc acc' hx ha h
    simp only [List.foldlM_cons, bind, Except.bind] at h
    cases hs : mergeStep ref l10n acc x with
    | error e => rw [hs] at h; simp at h
    | ok a =>
      rw [hs] at h
      exact ih a acc' (fun p hp => hx p (List.mem_cons_of_mem _ hp))
        (mergeStep_keys ref l10n acc a x (hx x List.mem_cons_self) ha hs) h

theorem allOf_nat {f : κ → κ'} {ks : List κ} (hf : InjOn f ks) (ref : List (KEnt κ)) (alls : List (List Nat))
    (href : ∀ e ∈ ref, e.key ∈ ks) (k : κ) (hk : k ∈ ks) :
    allOf (ref.map (KEnt.mapKey f)) alls (f k) = allOf ref alls k := by
  unfold allOf
  rw [keys_map, keyedIndex_nat hf _ k (keys_mem ref href) hk]

theorem allsOf_nat {f : κ → κ'} {ks : List κ} (hf : InjOn f ks) (ref : List (KEnt κ)) (alls : List (List Nat))
    (href : ∀ e ∈ ref, e.key ∈ ks) : ∀ (xs : List κ), (∀ x ∈ xs, x ∈ ks) →
      allsOf (ref.map (KEnt.mapKey f)) alls (xs.map f) = allsOf ref alls xs := by
  intro xs
  induction xs with
  | nil => intro _; rfl
  | cons x t ih =>
    intro h
    simp only [List.map_cons, allsOf]
    rw [allOf_nat hf ref alls href x (h x List.mem_cons_self), ih (fun y hy => h y (List.mem_cons_of_mem _ hy))]

/-- the arguments of `merge` (texts and spans, no keys) are invariant under every renaming of keys that is injective
    on the keys of the two files -/
theorem mergeInputs_nat {f : κ → κ'} {ks : List κ} (hf : InjOn f ks) (ref l10n : List (KEnt κ))
    (alls : List (List Nat)) (href : ∀ e ∈ ref, e.key ∈ ks) (hl10n : ∀ e ∈ l10n, e.key ∈ ks) :
    mergeInputs (ref.map (KEnt.mapKey f)) (l10n.map (KEnt.mapKey f)) alls = mergeInputs ref l10n alls := by
  unfold mergeInputs
  obtain ⟨eAR, hARk⟩ := addRemove_nat hf _ _ (keys_mem ref href) (keys_mem l10n hl10n)
  rw [keys_map, keys_map, eAR]
  have h0 := mergeFold_nat hf ref l10n href hl10n (addRemove (ref.map (·.key)) (l10n.map (·.key))) ([], []) hARk
  have e0 : maccMap f (([], []) : MAcc κ) = ([], []) := rfl
  rw [e0] at h0
  rw [h0]
  cases hfold : (addRemove (ref.map (·.key)) (l10n.map (·.key))).foldlM (mergeStep ref l10n) ([], []) with
  | error x => rfl
  | ok acc =>
    have hk := mergeFold_keys ref l10n _ ([], []) acc hARk (by simp) hfold
    simp only [Except.map, maccMap]
    rw [allsOf_nat hf ref alls href acc.1 hk]

end nat

/-! ### the linter mentions no junk key -/

def LMsg.keys {κ : Type} : LMsg κ → List κ
  | .junk .. => [] | .dup k _ => [k] | .changed k _ => [k] | .moch k _ => [k]

def RealL (msgs : List (LMsg Key)) : Prop := ∀ m ∈ msgs, ∀ k ∈ LMsg.keys m, k.isJunk = false

theorem RealL.append {a b : List (LMsg Key)} (ha : RealL a) (hb : RealL b) : RealL (a ++ b) := by
  intro m hm
  rw [List.mem_append] at hm
  rcases hm with hm | hm
  · exact ha m hm
  · exact hb m hm

theorem lintEnt_real (lc : Nat → Nat × Nat) (ref cur : List (KEnt Key)) (e : KEnt Key) (hw : e.junk = e.key.isJunk)
    (msgs : List (LMsg Key)) (h : lintEnt lc ref cur e = .ok msgs) : RealL msgs := by
  unfold lintEnt at h
  by_cases hj : e.junk = true
  · simp only [hj, if_true] at h
    injection h with h; subst h
    intro m hm; simp at hm; subst hm; simp [LMsg.keys]
  · have hreal : e.key.isJunk = false := by rw [← hw]; simpa using hj
    have hdup : RealL (if (cur.map (·.key)).count e.key > 1 then [LMsg.dup e.key (lc e.s)] else []) := by
      intro m hm
      split at hm
      · simp at hm; subst hm; intro k hk; simp [LMsg.keys] at hk; subst hk; exact hreal
      · simp at hm
    have hch : RealL (e.moch.map (fun q => LMsg.moch e.key (lc q))) := by
      intro m hm
      rw [List.mem_map] at hm
      obtain ⟨q, _, rfl⟩ := hm
      intro k hk; simp [LMsg.keys] at hk; subst hk; exact hreal
    have hcg : RealL [LMsg.changed e.key (lc e.s)] := by
      intro m hm; simp at hm; subst hm; intro k hk; simp [LMsg.keys] at hk; subst hk; exact hreal
    simp only [hj, Bool.false_eq_true, if_false] at h
    split at h
    · split at h
      · simp at h
      · split at h <;> (injection h with h; subst h)
        · exact hdup.append hch
        · exact (hdup.append hcg).append hch
    · injection h with h; subst h
      exact hdup.append hch

theorem lintAll_real (lc : Nat → Nat × Nat) (ref cur : List (KEnt Key)) :
    ∀ (es : List (KEnt Key)), KWf es → ∀ msgs, lintAll lc ref cur es = .ok msgs → RealL msgs := by
  intro es
  induction es with
  | nil => intro _ msgs h; simp [lintAll] at h; subst h; intro m hm; simp at hm
  | cons e t ih =>
    intro hw msgs h
    simp only [lintAll] at h
    cases h1 : lintEnt lc ref cur e with
    | error x => rw [h1] at h; simp at h
    | ok a =>
      rw [h1] at h
      cases h2 : lintAll lc ref cur t with
      | error x => rw [h2] at h; simp at h
      | ok b =>
        rw [h2] at h
        injection h with h; subst h
        exact (lintEnt_real lc ref cur e (hw e List.mem_cons_self) a h1).append
          (ih (fun x hx => hw x (List.mem_cons_of_mem _ hx)) b h2)

/-- on messages without junk keys the renaming of junk keys does nothing -/
theorem lmapKey_real (d : Nat) (msgs : List (LMsg Key)) (h : RealL msgs) :
    msgs.map (LMsg.mapKey (fun k => (k.shift d).render)) = msgs.map (LMsg.mapKey Key.render) := by
  apply List.map_congr_left
  intro m hm
  have hk := h m hm
  have real : ∀ k : Key, k.isJunk = false → (k.shift d).render = k.render := by
    intro k hk; cases k <;> simp [Key.isJunk] at hk ⊢ <;> rfl
  cases m <;> simp [LMsg.mapKey, LMsg.keys] at hk ⊢
  all_goals exact real _ hk

/-! ### lint and merge started in any state -/

theorem phi_injOn_of (ks : List Key) (h : ∀ t, Key.real t ∈ ks → ¬ JunkShaped t) (d : Nat) :
    InjOn (fun k : Key => (k.shift d).render) ks := by
  intro a ha b hb hab
  cases a with
  | real s =>
    cases b with
    | real t => simpa [Key.shift, Key.render] using hab
    | junk i x y =>
      exfalso
      exact h s ha ⟨i + d, x, y, by simpa [Key.shift, Key.render] using hab⟩
  | junk i x y =>
    cases b with
    | real t =>
      exfalso
      exact h t hb ⟨i + d, x, y, by simpa [Key.shift, Key.render] using hab.symm⟩
    | junk j x' y' =>
      simp only [Key.shift, Key.render] at hab
      obtain ⟨h1, h2, h3⟩ := junkKey_inj hab
      have : i = j := by omega
      subst this; subst h2; subst h3; rfl

theorem kents_doParse (g : G) (f : Fmt) (t : Array Nat) :
    kents f t (doParse g f t).2.2 = (refK f t).map (KEnt.mapKey (Key.shift g.junkid)) := by
  rw [doParse_ents, kents_shift]; rfl

theorem kents_doParse2 (g : G) (f : Fmt) (ref t : Array Nat) :
    kents f t (doParse (doParse g f ref).1 f t).2.2
      = (l10nK f ref t).map (KEnt.mapKey (Key.shift g.junkid)) := by
  rw [doParse_ents, kents_shift, doParse_junkid]
  unfold l10nK
  rw [List.map_map]
  apply List.map_congr_left
  intro x _
  simp only [Function.comp, KEnt.mapKey_mapKey, Key.shift_shift]

theorem mapKey_comp (d : Nat) (K : List (KEnt Key)) :
    (K.map (KEnt.mapKey (Key.shift d))).map (KEnt.mapKey Key.render)
      = K.map (KEnt.mapKey (fun k : Key => (k.shift d).render)) := by
  rw [List.map_map]; rfl

/-- the linter's results for a file with a reference, started in ANY state, are the rendering of the structured
    results of a fresh interpreter -/
theorem lint_ref_indep (g : G) (f : Fmt) (ref cur : Array Nat) (h : NoJunkLikeKeys f ref cur) :
    lintStr f (some ref) cur (some (doParse g f ref).2.2) (doParse (doParse g f ref).1 f cur).2.2
      = (lintG (linecolOf (lineEnds cur)) (refK f ref) (l10nK f ref cur)).map (List.map (LMsg.mapKey Key.render)) := by
  unfold lintStr
  simp only
  rw [kents_doParse, kents_doParse2, mapKey_comp, mapKey_comp]
  obtain ⟨_, _, _⟩ := refK_facts f ref
  obtain ⟨wl, _, _⟩ := l10nK_facts f ref cur
  rw [lintG_nat (phi_injOn f ref cur h g.junkid) (linecolOf (lineEnds cur)) (refK f ref) (l10nK f ref cur)
    (fun e he => List.mem_append_left _ (List.mem_map_of_mem he))
    (fun e he => List.mem_append_right _ (List.mem_map_of_mem he))]
  cases hc : lintG (linecolOf (lineEnds cur)) (refK f ref) (l10nK f ref cur) with
  | error e => rfl
  | ok msgs =>
    have hreal := lintAll_real _ _ _ _ wl msgs hc
    simp only [Except.map]
    rw [lmapKey_real _ _ hreal]

/-- … and for a file without reference -/
theorem lint_noref_indep (g : G) (f : Fmt) (cur : Array Nat) (h : NoJunkLike1 f cur) :
    lintStr f none cur none (doParse g f cur).2.2
      = (lintG (linecolOf (lineEnds cur)) [] (refK f cur)).map (List.map (LMsg.mapKey Key.render)) := by
  unfold lintStr
  simp only
  rw [kents_doParse, mapKey_comp]
  obtain ⟨wr, _, _⟩ := refK_facts f cur
  have hn := lintG_nat (phi_injOn_of ((refK f cur).map (fun x : KEnt Key => x.key)) h g.junkid) (linecolOf (lineEnds cur)) []
    (refK f cur) (by simp) (fun e he => List.mem_map_of_mem he)
  simp only [List.map_nil] at hn
  rw [hn]
  cases hc : lintG (linecolOf (lineEnds cur)) [] (refK f cur) with
  | error e => rfl
  | ok msgs =>
    have hreal := lintAll_real _ _ _ _ wr msgs hc
    simp only [Except.map]
    rw [lmapKey_real _ _ hreal]

theorem allsK_shift (c : Array Nat) (d a : Nat) (ents : List Ent) :
    allsK c (ents.map (Ent.shift d a)) = allsK c ents := by
  unfold allsK
  rw [List.filter_map, List.map_map]
  apply List.map_congr_left
  intro e _
  rfl

/-- the arguments handed to `merge`, started in ANY state, are those of a fresh interpreter -/
theorem merge_indep (g : G) (f : Fmt) (ref l10n : Array Nat) (h : NoJunkLikeKeys f ref l10n) :
    mergeStr f ref l10n (doParse g f ref).2.2 (doParse (doParse g f ref).1 f l10n).2.2
      = mergeInputs (refK f ref) (l10nK f ref l10n) (allsK ref (ents0 f ref)) := by
  unfold mergeStr
  rw [kents_doParse, kents_doParse2, mapKey_comp, mapKey_comp, doParse_ents, allsK_shift]
  exact mergeInputs_nat (phi_injOn f ref l10n h g.junkid) (refK f ref) (l10nK f ref l10n) _
    (fun e he => List.mem_append_left _ (List.mem_map_of_mem he))
    (fun e he => List.mem_append_right _ (List.mem_map_of_mem he))

end C18M

import CLModel.Proofs.C09WalkOl
namespace C09P
open AndroidP

theorem printableList_append (a b : List DNode) : printableList (a ++ b) = (printableList a && printableList b) := by
  induction a with
  | nil => simp [printableList]
  | cons x xs ih => simp [printableList, ih, Bool.and_assoc]

theorem toxml?_of_printable {n : DNode} (h : n.printable = true) : n.toxml? = some n.toxml := by
  simp [DNode.toxml?, h]

theorem commentLoop_total (a v : List Nat) (l : List DNode) (hp : printableList l = true) :
    (commentLoop a v l).isSome = true := by
  fun_induction commentLoop a v l
  all_goals (try simp)
  · rename_i d c rest hs hx
    simp [printableList] at hp
    rw [toxml?_of_printable hp.2.1] at hx; cases hx
  · rename_i d c rest hs xml hx ih
    simp [printableList] at hp
    simpa [List.append_assoc] using ih hp.2.2
  · rename_i c rest hx
    simp [printableList] at hp
    rw [toxml?_of_printable hp.1] at hx; cases hx
  · rename_i c rest xml hx ih
    simp [printableList] at hp
    exact ih hp.2

theorem handleComment_total (c : List Nat) (r : List DNode) (hp : printableList (.comment c :: r) = true) :
    ∃ cc rem, handleComment c r = some (cc, rem) := by
  simp [printableList] at hp
  unfold handleComment
  rw [toxml?_of_printable hp.1]
  have := commentLoop_total (DNode.comment c).toxml (normalize c) r hp.2
  simp only
  cases h : commentLoop (DNode.comment c).toxml (normalize c) r with
  | none => simp [h] at this
  | some p => obtain ⟨a, v, rem⟩ := p; exact ⟨⟨a, v⟩, rem, by simp⟩

theorem stepElem_total (ol : Bool) (cc ws : Option Lit) (n : DNode) (r : List DNode) (hp : n.printable = true) :
    ∃ s, stepElem ol cc ws n r = some s := by
  unfold stepElem
  by_cases he : n.isElement = true
  · cases n <;> simp [DNode.isElement] at he
    simp [DNode.isElement, handleElement_eq, hp]
  · simp [he]

theorem stepWhiteBody_total (ol : Bool) (cc : Option Lit) (n : DNode) (d : List Nat) (r : List DNode)
    (hp : printableList (n :: r) = true) : ∃ s, stepWhiteBody ol cc n d r = some s := by
  simp [printableList] at hp
  unfold stepWhiteBody
  rw [toxml?_of_printable hp.1]
  cases cc with
  | none => simp
  | some c =>
    simp only
    split
    · simp
    · cases r with
      | nil => simp
      | cons n2 r2 =>
        simp [printableList] at hp
        exact stepElem_total ol _ _ n2 r2 hp.2.1

theorem stepWhite_total (ol : Bool) (cc : Option Lit) (n : DNode) (r : List DNode)
    (hp : printableList (n :: r) = true) : ∃ s, stepWhite ol cc n r = some s := by
  have hp1 : n.printable = true := by simp [printableList] at hp; exact hp.1
  cases n
  case text d => exact stepWhiteBody_total ol cc _ d r hp
  case cdata d => exact stepWhiteBody_total ol cc _ d r hp
  all_goals (simp only [stepWhite]; exact stepElem_total ol cc none _ r hp1)

theorem walkStep_total (ol : Bool) (n : DNode) (r : List DNode) (hp : printableList (n :: r) = true) :
    ∃ s, walkStep ol n r = some s := by
  cases n
  case comment c =>
    obtain ⟨cc, rem, hh⟩ := handleComment_total c r hp
    obtain ⟨_, ⟨⟨pre, ks, h1, _⟩, _, _⟩⟩ := handleComment_spec hh
    simp only [walkStep, hh]
    cases rem with
    | nil => simp
    | cons n1 r1 =>
      simp only
      apply stepWhite_total
      simp [printableList] at hp
      have := hp.2
      rw [h1, printableList_append] at this
      simp at this
      exact this.2
  all_goals (simp only [walkStep]; exact stepWhite_total ol none _ r hp)

theorem walkLoop_total (ol : Bool) : ∀ f cs, cs.length < f → printableList cs = true →
    ∃ es, walkLoop ol f cs = some es := by
  intro f
  induction f with
  | zero => intro cs h; omega
  | succ f ih =>
    intro cs hlen hp
    cases cs with
    | nil => exact ⟨[], by simp [walkLoop]⟩
    | cons n r =>
      simp at hlen
      obtain ⟨s, hs⟩ := walkStep_total ol n r hp
      have hl := walkStep_rest_length hs
      obtain ⟨pre, h1, _⟩ := (walkStep_facts hs).ex
      have hp2 : printableList s.rest = true := by
        rw [h1, printableList_append] at hp
        simp at hp; exact hp.2
      obtain ⟨es, he⟩ := ih s.rest (by omega) hp2
      exact ⟨s.out ++ es, by rw [walkLoop_succ ol n r (by omega), hs]; simp [he]⟩

end C09P

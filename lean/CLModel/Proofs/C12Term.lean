/- `_no_cycle`: expansion terminates (never exhausts the nesting bound) for every environment,
   including self and mutual references, unless env["locale"] itself contains {android_locale}. -/
import CLModel.Paths.Matcher
namespace PM
open Rx

def NoAndroid (p : Pattern) : Prop := ∀ n ∈ p.nodes, ∀ r, n ≠ Node.android r

/-- the value of "locale" does not itself contain `{android_locale}` (excluded point: finding C12-android-locale-cycle-recursion) -/
def AndroidSafe (env : Env) : Prop := ∀ p, env.lookup localeName = some (.pat p) → NoAndroid p

theorem lookup_derase_self {β} (k : Text) : ∀ (l : List (Text × β)), (derase l k).lookup k = none
  | [] => by simp [derase]
  | (a, b) :: l => by
    have ih := lookup_derase_self k l
    simp only [derase, List.filter_cons] at ih ⊢
    cases ha : (a == k) with
    | true => simpa [ha] using ih
    | false =>
      have hk : (k == a) = false := by
        cases hh : (k == a) with
        | false => rfl
        | true =>
          have : k = a := by simpa using hh
          subst this; simp at ha
      simp only [ha, Bool.not_false, if_true, List.lookup_cons, hk]
      exact ih

theorem lookup_derase {β} (k k' : Text) : ∀ (l : List (Text × β)) {v : β},
    (derase l k).lookup k' = some v → l.lookup k' = some v
  | [], _, h => by simp [derase] at h
  | (a, b) :: l, v, h => by
    cases ha : (a == k) with
    | true =>
      have e2 : a = k := by simpa using ha
      subst e2
      have hf : derase ((a, b) :: l) a = derase l a := by simp [derase]
      rw [hf] at h
      simp only [List.lookup_cons]
      cases hk : (k' == a) with
      | true =>
        have e1 : k' = a := by simpa using hk
        subst e1
        rw [lookup_derase_self] at h
        cases h
      | false => exact lookup_derase a k' l h
    | false =>
      have hf : derase ((a, b) :: l) k = (a, b) :: derase l k := by simp [derase, ha]
      rw [hf] at h
      simp only [List.lookup_cons] at h ⊢
      cases hk : (k' == a) with
      | true => simpa [hk] using h
      | false =>
        simp only [hk] at h ⊢
        exact lookup_derase k k' l h

theorem AndroidSafe.derase {env : Env} (h : AndroidSafe env) (k : Text) : AndroidSafe (derase env k) :=
  fun p hp => h p (lookup_derase k localeName env hp)

theorem derase_length_le {β} (l : List (Text × β)) (k : Text) : (derase l k).length ≤ l.length :=
  List.length_filter_le _ _

theorem derase_length_lt {β} : ∀ {l : List (Text × β)} {k : Text} {v : β}, l.lookup k = some v →
    (derase l k).length < l.length
  | [], _, _, h => by simp at h
  | (a, b) :: l, k, v, h => by
    simp only [List.lookup_cons] at h
    simp only [derase, List.filter_cons]
    cases hk : (k == a) with
    | true =>
      have : (a == k) = true := by
        have : k = a := by simpa using hk
        subst this; simp
      simp only [this, Bool.not_true, Bool.false_eq_true, if_false, List.length_cons]
      have := List.length_filter_le (fun p : Text × β => !(p.1 == k)) l
      omega
    | false =>
      simp only [hk] at h
      have ih := derase_length_lt h
      simp only [derase] at ih
      split
      · simp only [List.length_cons]; omega
      · simp only [List.length_cons]; omega

/-! ### nothing but the recursion hook produces `RecursionError` -/

theorem subWithE_go_error {s : Array Nat} {f : St → Except PyErr Text} {e : PyErr} :
    ∀ (ms : List (Nat × St)) (last : Nat), subWithE.go s f ms last = .error e → ∃ st, f st = .error e
  | [], last, h => by simp [subWithE.go, pure, Except.pure] at h
  | (q, st) :: rest, last, h => by
    simp only [subWithE.go, bind, Except.bind] at h
    split at h
    · rename_i e' he
      simp only [Except.error.injEq] at h
      subst h
      exact ⟨st, he⟩
    · split at h
      · rename_i e' he
        simp only [Except.error.injEq] at h
        subst h
        exact subWithE_go_error rest _ he
      · simp [pure, Except.pure] at h

theorem lookupTable_norec (t : List (Text × Text)) (k : Text) : lookupTable t k ≠ .error .recursion := by
  unfold lookupTable
  split
  · intro h; cases h
  · intro h; cases h

theorem toAndroid_norec (b : Text) : toAndroid b ≠ .error .recursion := by
  intro h
  simp only [toAndroid, bind, Except.bind] at h
  split at h
  · rename_i e he
    simp only [Except.error.injEq] at h
    subst h
    obtain ⟨st, hst⟩ := subWithE_go_error _ _ he
    split at hst
    · exact lookupTable_norec _ _ hst
    · cases hst
  · split at h
    · split at h
      · cases h
      · cases h
    · split at h <;> cases h

def NodeNoRec (rec : ExpRec) (n : Node) (env : Env) : Prop := ∀ rm, expandNode rec n env rm ≠ .error .recursion

theorem expandChildren_norec {rec : ExpRec} {env : Env} {rm : Bool} :
    ∀ {ns : List Node}, (∀ n ∈ ns, NodeNoRec rec n env) → expandChildren rec ns env rm ≠ .error .recursion
  | [], _ => by simp [expandChildren, pure, Except.pure]
  | c :: cs, h => by
    have hc := h c (by simp) true
    have hcs := expandChildren_norec (rec := rec) (env := env) (rm := rm) (ns := cs) (fun n hn => h n (by simp [hn]))
    simp only [expandChildren]
    cases hn : expandNode rec c env true with
    | error e =>
      cases e with
      | recursion => exact absurd hn hc
      | missingEnv => simp only; split <;> (intro hx; cases hx)
      | notStr =>
        simp only
        split
        · intro hx; cases hx
        · rename_i e he
          intro hx
          simp only [throw, throwThe, MonadExceptOf.throw, Except.error.injEq] at hx
          subst hx
          exact hcs he
      | _ => intro hx; cases hx
    | ok s =>
      simp only [bind, Except.bind]
      split
      · rename_i e he
        intro hx
        simp only [Except.error.injEq] at hx
        subst hx
        exact hcs he
      · intro hx; cases hx

theorem rootOf_norec {rec : ExpRec} {p : Pattern} {env : Env} (h : ∀ n ∈ p.nodes, NodeNoRec rec n env) :
    rootOf rec p env ≠ .error .recursion := by
  unfold rootOf
  split
  · intro hx; cases hx
  · split
    · intro hx; cases hx
    · rename_i n0 tl hnodes
      have hc := h n0 (by simp [hnodes]) false
      cases hn : expandNode rec n0 env false with
      | error e =>
        cases e with
        | recursion => exact absurd hn hc
        | _ => intro hx; cases hx
      | ok s => intro hx; cases hx

theorem expandPat_norec {rec : ExpRec} {p : Pattern} {env : Env} {rm : Bool}
    (h : ∀ n ∈ p.nodes, NodeNoRec rec n env) : expandPat rec p env rm ≠ .error .recursion := by
  simp only [expandPat, bind, Except.bind]
  split
  · rename_i e he
    intro hx
    simp only [Except.error.injEq] at hx
    subst hx
    exact rootOf_norec h he
  · split
    · rename_i e he
      intro hx
      simp only [Except.error.injEq] at hx
      subst hx
      exact expandChildren_norec h he
    · intro hx; cases hx

theorem getAndroidLocale_norec {rec : ExpRec} {env : Env}
    (h : ∀ v, env.lookup localeName = some v → rec v (derase env androidName) false ≠ .error .recursion) :
    getAndroidLocale rec env ≠ .error .recursion := by
  unfold getAndroidLocale
  split
  · intro hx; cases hx
  · rename_i v hv
    simp only [bind, Except.bind]
    split
    · rename_i e he
      intro hx
      simp only [Except.error.injEq] at hx
      subst hx
      exact h v hv he
    · split
      · rename_i e he
        intro hx
        simp only [Except.error.injEq] at hx
        subst hx
        exact toAndroid_norec _ he
      · intro hx; cases hx

theorem expandNode_norec {rec : ExpRec} {env : Env} (n : Node)
    (hvar : ∀ name v, env.lookup name = some v → ∀ rm, rec v (derase env name) rm ≠ .error .recursion)
    (hand : (∃ r, n = Node.android r) → ∀ v, env.lookup localeName = some v →
      rec v (derase env androidName) false ≠ .error .recursion) : NodeNoRec rec n env := by
  intro rm
  cases n with
  | lit s => intro hx; cases hx
  | var name rep =>
    simp only [expandNode]
    split
    · intro hx; cases hx
    · rename_i v hv
      exact hvar name v hv rm
  | android rep =>
    simp only [expandNode, bind, Except.bind]
    split
    · rename_i e he
      intro hx
      simp only [Except.error.injEq] at hx
      subst hx
      exact getAndroidLocale_norec (hand ⟨rep, rfl⟩) he
    · split <;> (intro hx; cases hx)
  | star k =>
    simp only [expandNode]
    split <;> (intro hx; cases hx)
  | starstar k sfx =>
    simp only [expandNode]
    split <;> (intro hx; cases hx)

theorem expandVal_norec : ∀ f,
    (∀ v env rm, AndroidSafe env → 2 * env.length + 2 ≤ f → expandVal f v env rm ≠ .error .recursion) ∧
    (∀ p env rm, AndroidSafe env → NoAndroid p → 2 * env.length + 1 ≤ f →
      expandVal f (.pat p) env rm ≠ .error .recursion)
  | 0 => ⟨fun _ _ _ _ h => by omega, fun _ _ _ _ _ h => by omega⟩
  | f + 1 => by
    obtain ⟨ih1, ih2⟩ := expandVal_norec f
    have hvar : ∀ (env : Env), AndroidSafe env → 2 * env.length ≤ f →
        ∀ name v, env.lookup name = some v → ∀ rm, expandVal f v (derase env name) rm ≠ .error .recursion := by
      intro env hs hle name v hl rm
      have := derase_length_lt hl
      exact ih1 v _ rm (hs.derase name) (by omega)
    refine ⟨?_, ?_⟩
    · intro v env rm hs hle
      cases v with
      | str s => simp only [expandVal]; intro hx; cases hx
      | pat p =>
        simp only [expandVal]
        apply expandPat_norec
        intro n _
        apply expandNode_norec n (hvar env hs (by omega))
        intro _ v hv
        cases v with
        | str s => simp only [expandVal]; intro hx; cases hx
        | pat pl =>
          have := derase_length_le env androidName
          exact ih2 pl _ false (hs.derase _) (hs pl hv) (by omega)
    · intro p env rm hs hna hle
      simp only [expandVal]
      apply expandPat_norec
      intro n hn
      apply expandNode_norec n (hvar env hs (by omega))
      intro ⟨r, hr⟩
      exact absurd hr (hna n hn r)

theorem expandTop_norec (p : Pattern) (env : Env) (hs : AndroidSafe env) :
    expandTop p env ≠ .error .recursion := by
  unfold expandTop
  apply expandPat_norec
  intro n _
  have h1 := (expandVal_norec (fuelFor env)).1
  apply expandNode_norec n
  · intro name v hl rm
    have := derase_length_lt hl
    exact h1 v _ rm (hs.derase name) (by simp only [fuelFor]; omega)
  · intro _ v _
    have := derase_length_le env androidName
    exact h1 v _ false (hs.derase _) (by simp only [fuelFor]; omega)

/-! ### the same for the construction of the regular expression -/

theorem rxChildren_norec {rec : RxRec} {env : Env} :
    ∀ {ns : List Node}, (∀ n ∈ ns, rxNode rec n env ≠ .error .recursion) → rxChildren rec ns env ≠ .error .recursion
  | [], _ => by simp [rxChildren, pure, Except.pure]
  | c :: cs, h => by
    simp only [rxChildren, bind, Except.bind]
    split
    · rename_i e he
      intro hx
      simp only [Except.error.injEq] at hx
      subst hx
      exact h c (by simp) he
    · split
      · rename_i e he
        intro hx
        simp only [Except.error.injEq] at hx
        subst hx
        exact rxChildren_norec (fun n hn => h n (by simp [hn])) he
      · intro hx; cases hx

theorem rxNode_norec {rec : RxRec} {env : Env} (hs : AndroidSafe env) (n : Node)
    (hvar : ∀ name v, env.lookup name = some v → rec v (derase env name) ≠ .error .recursion) :
    rxNode rec n env ≠ .error .recursion := by
  cases n with
  | lit s => intro hx; cases hx
  | var name rep =>
    simp only [rxNode]
    split
    · intro hx; cases hx
    · split
      · rename_i v hv
        simp only [bind, Except.bind]
        split
        · rename_i e he
          intro hx
          simp only [Except.error.injEq] at hx
          subst hx
          exact hvar name v hv he
        · intro hx; cases hx
      · intro hx; cases hx
  | android rep =>
    simp only [rxNode]
    split
    · intro hx; cases hx
    · simp only [bind, Except.bind]
      split
      · rename_i e he
        intro hx
        simp only [Except.error.injEq] at hx
        subst hx
        refine getAndroidLocale_norec ?_ he
        intro v _
        have := derase_length_le env androidName
        exact (expandVal_norec (fuelFor env)).1 v _ false (hs.derase _) (by simp only [fuelFor]; omega)
      · split <;> (intro hx; cases hx)
  | star k => intro hx; cases hx
  | starstar k sfx => intro hx; cases hx

theorem rxVal_norec : ∀ f v env, AndroidSafe env → env.length + 1 ≤ f → rxVal f v env ≠ .error .recursion
  | 0, _, _, _, h => by omega
  | f + 1, .str s, _, _, _ => by simp only [rxVal]; intro hx; cases hx
  | f + 1, .pat p, env, hs, hle => by
    simp only [rxVal, rxPat, bind, Except.bind]
    split
    · rename_i e he
      intro hx
      simp only [Except.error.injEq] at hx
      subst hx
      have : rootOf (expandVal (fuelFor env)) p env ≠ .error .recursion := by
        apply rootOf_norec
        intro n _
        have h1 := (expandVal_norec (fuelFor env)).1
        apply expandNode_norec n
        · intro name v hl rm
          have := derase_length_lt hl
          exact h1 v _ rm (hs.derase name) (by simp only [fuelFor]; omega)
        · intro _ v _
          have := derase_length_le env androidName
          exact h1 v _ false (hs.derase _) (by simp only [fuelFor]; omega)
      exact this he
    · split
      · rename_i e he
        intro hx
        simp only [Except.error.injEq] at hx
        subst hx
        refine rxChildren_norec ?_ he
        intro n _
        apply rxNode_norec hs n
        intro name v hl
        have := derase_length_lt hl
        exact rxVal_norec f v _ (hs.derase name) (by omega)
      · intro hx; cases hx

end PM

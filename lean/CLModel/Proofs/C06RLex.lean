/- C06 (rendered values), part 3: a value assembled from well-formed, separated render tokens lexes
   back to exactly those tokens (`atoks_render`), for token lists of ANY length.
   * `decimal n` is a digit string without leading zero whose `int()` is `n`;
   * `WfTok` / `Separated` / `WfRender`: the token grammar and the one side condition (what follows a lone `%`);
   * `tok_match`: the `printf` regex matches exactly the token that stands at the offset;
   * `lex_from`: `finditer` walks the token list. -/
import CLModel.Checks.Properties
import CLModel.Proofs.C06Render
import CLModel.Proofs.C06RxPrintf
import CLModel.Proofs.C06RPrintf
namespace C06R
open Rx PropCk

/-! ### `"%d" % n` -/

/-- value of a digit string read after the value `a` -/
def valOf (t : Text) (a : Nat) : Nat := t.foldl (fun a c => a * 10 + (c - 48)) a

theorem valOf_append (t u : Text) (a : Nat) : valOf (t ++ u) a = valOf u (valOf t a) := by
  simp [valOf, List.foldl_append]

theorem intOf_fold_val (t : Text) (ht : ∀ c ∈ t, IsDig c) : ∀ a,
    t.foldl (fun acc c => match acc with
      | some n => if 48 ≤ c ∧ c ≤ 57 then some (n * 10 + (c - 48)) else none
      | none => none) (some a) = some (valOf t a) := by
  induction t with
  | nil => intro a; rfl
  | cons c t ih =>
    intro a
    have hc : 48 ≤ c ∧ c ≤ 57 := ht c (by simp)
    simp only [List.foldl_cons, hc, and_self, if_true]
    rw [ih (fun d hd => ht d (by simp [hd]))]
    rfl

/-- `int()` of a non-empty ASCII digit string -/
theorem intOf_val {t : Text} (hne : t ≠ []) (ht : ∀ c ∈ t, IsDig c) : intOf t = some (valOf t 0) := by
  unfold intOf
  cases t with
  | nil => exact absurd rfl hne
  | cons c t =>
    simp only [List.isEmpty_cons, Bool.false_eq_true, if_false]
    exact intOf_fold_val _ ht 0

/-- the digits produced by the `"%d"` loop -/
theorem decimalAux_spec : ∀ (f n : Nat) (acc : Text), n < f →
    ∃ D, decimalAux f n acc = D ++ acc ∧ (∀ c ∈ D, IsDig c) ∧
      (∃ d D', D = d :: D' ∧ (n ≥ 1 → 49 ≤ d)) ∧ ∀ a, valOf D a = a * 10 ^ D.length + n := by
  intro f
  induction f with
  | zero => intro n acc h; omega
  | succ f ih =>
    intro n acc hn
    rw [decimalAux]
    by_cases h10 : n < 10
    · simp only [h10, if_true]
      refine ⟨[48 + n], rfl, ?_, ⟨48 + n, [], rfl, by omega⟩, ?_⟩
      · intro c hc
        simp only [List.mem_singleton] at hc
        subst hc; unfold IsDig; omega
      · intro a
        simp [valOf]
    · simp only [h10, if_false]
      obtain ⟨D, hD, hdig, ⟨d, D', hhead, hd⟩, hval⟩ := ih (n / 10) ((48 + n % 10) :: acc) (by omega)
      refine ⟨D ++ [48 + n % 10], by rw [hD]; simp, ?_, ⟨d, D' ++ [48 + n % 10], by rw [hhead]; simp, ?_⟩, ?_⟩
      · intro c hc
        rcases List.mem_append.mp hc with hc | hc
        · exact hdig c hc
        · simp only [List.mem_singleton] at hc
          subst hc; unfold IsDig; omega
      · intro _; exact hd (by omega)
      · intro a
        rw [valOf_append, hval a]
        simp only [valOf, List.foldl_cons, List.foldl_nil, List.length_append, List.length_cons,
          List.length_nil, Nat.zero_add, Nat.pow_succ]
        rw [← Nat.mul_assoc]
        generalize a * 10 ^ D.length = X
        omega

/-- `decimal n` (n ≥ 1): a digit `1-9`, then digits; `int()` gives `n` back -/
theorem decimal_pos {n : Nat} (hn : n ≥ 1) :
    ∃ d ds, decimal n = d :: ds ∧ (49 ≤ d ∧ d ≤ 57) ∧ (∀ c ∈ ds, IsDig c) ∧ intOf (decimal n) = some n := by
  obtain ⟨D, hD, hdig, ⟨d, D', hhead, hd⟩, hval⟩ := decimalAux_spec (n + 1) n [] (by omega)
  have hdec : decimal n = D := by simpa [decimal] using hD
  subst hhead
  have hd' := hdig d (by simp)
  refine ⟨d, D', hdec, ⟨hd hn, hd'.2⟩, fun c hc => hdig c (by simp [hc]), ?_⟩
  rw [hdec, intOf_val (by simp) hdig, hval 0]
  simp

/-- `decimal n` (any n): a non-empty digit string; `int()` gives `n` back -/
theorem decimal_any (n : Nat) :
    decimal n ≠ [] ∧ (∀ c ∈ decimal n, IsDig c) ∧ intOf (decimal n) = some n := by
  obtain ⟨D, hD, hdig, ⟨d, D', hhead, _⟩, hval⟩ := decimalAux_spec (n + 1) n [] (by omega)
  have hdec : decimal n = D := by simpa [decimal] using hD
  refine ⟨by rw [hdec, hhead]; simp, by rw [hdec]; exact hdig, ?_⟩
  rw [hdec, intOf_val (by rw [hhead]; simp) hdig, hval 0]
  simp

/-! ### the token grammar -/

/-- `(\*|[0-9]+)?(\.(\*|[0-9]+)?)?` -/
def WfFmt (fmt : Text) : Prop := ∃ W P, fmt = W ++ P ∧ WShape W ∧ PShape P

/-- a well-formed render token: text without `%`; `%%`; a lone `%`; `%[n$][width][.prec]c` with
    `n ≥ 1` (written by `"%d" % n`, so without leading zero) and `c` one of `duxXosScpfg` -/
def WfTok : RTok → Prop
  | .text t => 37 ∉ t
  | .pct => True
  | .lone => True
  | .arg num fmt c => (∀ n, num = some n → n ≥ 1) ∧ WfFmt fmt ∧ IsSpec c

/-- what may follow a lone `%`: the end of the value, or a character that neither is `%` nor starts
    an argument (digit, `*`, `.`, conversion character) -/
def LoneOk (rest : Text) : Prop :=
  ∀ c, rest.head? = some c → c ≠ 37 ∧ ¬ IsDig c ∧ c ≠ 42 ∧ c ≠ 46 ∧ ¬ IsSpec c

/-- the one side condition on the token *sequence*: every lone `%` is followed by `LoneOk` text.
    (Nothing is needed after `%%` or after an argument: both end with a character that closes the match.) -/
def Separated : List RTok → Prop
  | [] => True
  | .lone :: rest => LoneOk (render rest) ∧ Separated rest
  | _ :: rest => Separated rest

def WfRender (ts : List RTok) : Prop := (∀ t ∈ ts, WfTok t) ∧ Separated ts

/-- the abstract token a (non-text) render token stands for -/
def atokExp : RTok → ATok
  | .text _ => .lone
  | .pct => .pct
  | .lone => .lone
  | .arg num _ c => .arg num [c]

theorem render_cons (t : RTok) (ts : List RTok) : render (t :: ts) = renderTok t ++ render ts := by
  simp [render]

theorem expectedFrom_text (p : Nat) (t : Text) (ts : List RTok) :
    expectedFrom p (.text t :: ts) = expectedFrom (p + t.length) ts := rfl

theorem expectedFrom_tok (p : Nat) (tok : RTok) (ts : List RTok) (hne : ∀ t, tok ≠ .text t) :
    expectedFrom p (tok :: ts) = (p, atokExp tok) :: expectedFrom (p + (renderTok tok).length) ts := by
  cases tok with
  | text t => exact absurd rfl (hne t)
  | pct => rfl
  | lone => rfl
  | arg num fmt c => rfl

/-! ### one token -/

theorem slice_of_at {s : Array Nat} {p : Nat} {t : Text} (h : At s p t) : slice s (p, p + t.length) = t :=
  slice_at h

theorem capOf_prec (p : Nat) (P : Text) (X : List (Nat × Nat × Nat)) (i : Nat) (hi : i ≠ 4) :
    capOf (precCaps p P ++ X) i = capOf X i := by
  unfold precCaps
  split
  · rfl
  · simp only [List.cons_append, List.nil_append, capOf_cons]
    simp [show ¬ 4 = i from fun h => hi h.symm]

theorem capOf_width (p : Nat) (W : Text) (X : List (Nat × Nat × Nat)) (i : Nat) (hi : i ≠ 3) :
    capOf (widthCaps p W ++ X) i = capOf X i := by
  unfold widthCaps
  split
  · rfl
  · simp only [List.cons_append, List.nil_append, capOf_cons]
    simp [show ¬ 3 = i from fun h => hi h.symm]

theorem body_ne_pct {X : Text} {c : Nat} (hc : c ≠ 37) : X ++ [c] ≠ [37] := by
  intro h
  cases X with
  | nil => simp at h; exact hc h
  | cons x X =>
    have := congrArg List.length h
    simp at this

/-- the abstraction of an argument match: `good` is the token without its `%`, `spec` the type -/
theorem atokOf_arg {s : Array Nat} {q e : Nat} {body : Text} {c : Nat} {rest : List (Nat × Nat × Nat)}
    (hbody : At s (q + 1) (body ++ [c])) (he : e = q + 1 + body.length + 1) (hc : c ≠ 37)
    (num : Option Nat)
    (hnum : match num with
      | none => capOf rest 2 = none
      | some n => ∃ a b, capOf rest 2 = some (a, b) ∧ intOf (slice s (a, b)) = some n ∧ n ≥ 1) :
    atokOf s (q, ⟨e, (1, q + 1, e) :: (5, e - 1, e) :: rest⟩) = some (.arg num [c]) := by
  have hgood : slice s (q + 1, e) = body ++ [c] := by
    have := slice_of_at hbody
    rw [show q + 1 + (body ++ [c]).length = e by simp; omega] at this
    exact this
  have hcat : s[e - 1]? = some c := by
    have := (at_cons.mp (at_append.mp hbody).2).1
    rw [show q + 1 + body.length = e - 1 by omega] at this
    exact this
  have hspec : slice s (e - 1, e) = [c] := by
    have := slice_single hcat
    rw [show e - 1 + 1 = e by omega] at this
    exact this
  have hne : ¬ ((some (body ++ [c]) == some [37]) = true) := by
    simpa using body_ne_pct hc
  unfold atokOf
  simp only [groupText, St.group, Gen.Pat.PropertiesChecker_printf_g_good,
    Gen.Pat.PropertiesChecker_printf_g_number, Gen.Pat.PropertiesChecker_printf_g_spec, capOf_cons,
    if_true, show ¬ (1 = 5) by omega, show ¬ (1 = 2) by omega, show ¬ (5 = 2) by omega, if_false,
    Option.map_some, Option.isNone_some, Bool.false_eq_true, hgood, hne, hspec]
  cases num with
  | none =>
    simp only at hnum
    simp [hnum]
  | some n =>
    obtain ⟨a, b, h2, hint, hn1⟩ := hnum
    simp [h2, hint, hn1]

/-- **the `printf` regex matches exactly the token standing at the offset** (non-text tokens) -/
theorem tok_match {s : Array Nat} {p : Nat} (tok : RTok) (R : Text) (hne : ∀ t, tok ≠ .text t)
    (hwf : WfTok tok) (hsep : tok = .lone → LoneOk R) (h : Tail s p (renderTok tok ++ R)) :
    ∃ st, matchAt s Gen.Pat.PropertiesChecker_printf p = some st ∧
      st.pos = p + (renderTok tok).length ∧ atokOf s (p, st) = some (atokExp tok) := by
  obtain ⟨hat, htl⟩ := tail_append h
  cases tok with
  | text t => exact absurd rfl (hne t)
  | pct =>
    refine ⟨_, printf_pct hat, rfl, ?_⟩
    have h1 : s[p + 1]? = some 37 := (at_cons.mp (at_cons.mp hat).2).1
    have hsl : slice s (p + 1, p + 2) = [37] := slice_single h1
    simp [atokOf, atokExp, groupText, St.group, Gen.Pat.PropertiesChecker_printf_g_good, capOf_cons, hsl]
  | lone =>
    have h0 : s[p]? = some 37 := (at_cons.mp hat).1
    have hnext : ∀ c, s[p + 1]? = some c → c ≠ 37 ∧ ¬ IsDig c ∧ c ≠ 42 ∧ c ≠ 46 ∧ ¬ IsSpec c := by
      intro c hc
      have := tail_head htl
      simp only [renderTok, List.length_cons, List.length_nil, Nat.zero_add] at this
      rw [this] at hc
      exact hsep rfl c hc
    refine ⟨_, printf_lone h0 hnext, rfl, ?_⟩
    simp [atokOf, atokExp, groupText, St.group, Gen.Pat.PropertiesChecker_printf_g_good, capOf]
  | arg num fmt c =>
    obtain ⟨hnum, ⟨W, P, rfl, hW, hP⟩, hs⟩ := hwf
    obtain ⟨_, h37, _, _, _⟩ := spec_facts hs
    cases num with
    | none =>
      have hat' : At s p (37 :: (W ++ (P ++ [c]))) := by
        simpa [renderTok, List.append_assoc] using hat
      refine ⟨_, printf_unordered hW hP hs hat', by simp [renderTok]; omega, ?_⟩
      have hbody : At s (p + 1) ((W ++ P) ++ [c]) := by
        simpa [List.append_assoc] using (at_cons.mp hat').2
      exact atokOf_arg hbody (by simp; omega) h37 none
        (by rw [capOf_prec _ _ _ _ (by omega), capOf_width _ _ _ _ (by omega)]; rfl)
    | some n =>
      obtain ⟨d, ds, hdec, hd, hds, hint⟩ := decimal_pos (hnum n rfl)
      have hat' : At s p (37 :: ((d :: ds ++ [36]) ++ (W ++ (P ++ [c])))) := by
        simpa [renderTok, hdec, List.append_assoc] using hat
      refine ⟨_, printf_ordered hd hds hW hP hs hat', by simp [renderTok, hdec]; omega, ?_⟩
      have hbody : At s (p + 1) (((d :: ds ++ [36]) ++ (W ++ P)) ++ [c]) := by
        simpa [List.append_assoc] using (at_cons.mp hat').2
      have hdn : At s (p + 1) (d :: ds) := by
        have := (at_append.mp (at_append.mp hbody).1).1
        rw [List.cons_append] at this
        exact (at_append.mp (by simpa using this)).1
      have hsl : slice s (p + 1, p + 1 + ds.length + 1) = d :: ds := by
        have := slice_of_at hdn
        rw [show p + 1 + (d :: ds).length = p + 1 + ds.length + 1 by simp; omega] at this
        exact this
      exact atokOf_arg hbody (by simp; omega) h37 (some n)
        ⟨p + 1, p + 1 + ds.length + 1,
          by rw [capOf_prec _ _ _ _ (by omega), capOf_width _ _ _ _ (by omega)]; simp [capOf_cons],
          by rw [hsl, ← hdec]; exact hint, hnum n rfl⟩

/-! ### the walk of `finditer` along the token list -/

/-- number of tokens that produce a match -/
def nonText : List RTok → Nat
  | [] => 0
  | .text _ :: r => nonText r
  | _ :: r => nonText r + 1

theorem renderTok_len_pos (tok : RTok) (hne : ∀ t, tok ≠ .text t) : (renderTok tok).length ≥ 1 := by
  cases tok with
  | text t => exact absurd rfl (hne t)
  | pct => simp [renderTok]
  | lone => simp [renderTok]
  | arg num fmt c => cases num <;> simp [renderTok]

theorem nonText_le (ts : List RTok) : nonText ts ≤ (render ts).length := by
  induction ts with
  | nil => simp [nonText]
  | cons tok rest ih =>
    rw [render_cons, List.length_append]
    cases tok with
    | text t => simp only [nonText]; omega
    | pct => have := renderTok_len_pos .pct (by intro t h; cases h); simp only [nonText]; omega
    | lone => have := renderTok_len_pos .lone (by intro t h; cases h); simp only [nonText]; omega
    | arg num fmt c =>
      have := renderTok_len_pos (.arg num fmt c) (by intro t h; cases h); simp only [nonText]; omega

theorem lex_from (s : Array Nat) : ∀ (ts : List RTok) (p fuel : Nat), (∀ t ∈ ts, WfTok t) → Separated ts →
    Tail s p (render ts) → nonText ts < fuel →
    mapOpt (fun m => (atokOf s m).map (fun t => (m.1, t)))
      (finditerAux s Gen.Pat.PropertiesChecker_printf fuel p false) = some (expectedFrom p ts) := by
  intro ts
  induction ts with
  | nil =>
    intro p fuel _ _ htl hf
    obtain ⟨f, rfl⟩ : ∃ f, fuel = f + 1 := ⟨fuel - 1, by omega⟩
    have hp : p = s.size := by have := htl.2; simpa [render] using this
    subst hp
    rw [fi_end f (printf_nomatch (by simp))]
    rfl
  | cons tok rest ih =>
    intro p fuel hwf hsep htl hf
    obtain ⟨f, rfl⟩ : ∃ f, fuel = f + 1 := ⟨fuel - 1, by omega⟩
    rw [render_cons] at htl
    have hwfr : ∀ t ∈ rest, WfTok t := fun t ht => hwf t (by simp [ht])
    by_cases htext : ∃ t, tok = .text t
    · obtain ⟨t, rfl⟩ := htext
      obtain ⟨hat, htl'⟩ := tail_append htl
      simp only [renderTok] at hat htl'
      have hno : 37 ∉ t := hwf (.text t) (by simp)
      have hle : p + t.length ≤ s.size := by have := htl'.2; omega
      rw [fi_skip f t.length p hle (fun j hj => printf_nomatch (by
        rw [at_get hat hj]
        intro h
        have : t[j] = 37 := by simpa using h
        exact hno (this ▸ List.getElem_mem hj))), expectedFrom_text]
      exact ih (p + t.length) (f + 1) hwfr hsep htl' (by simpa [nonText] using hf)
    · have hne : ∀ t, tok ≠ .text t := fun t h => htext ⟨t, h⟩
      have hsep' : (tok = .lone → LoneOk (render rest)) ∧ Separated rest := by
        cases tok with
        | lone => exact ⟨fun _ => hsep.1, hsep.2⟩
        | text t => exact absurd rfl (hne t)
        | pct => exact ⟨fun h => (by cases h), hsep⟩
        | arg num fmt c => exact ⟨fun h => (by cases h), hsep⟩
      obtain ⟨st, hm, hpos, hatok⟩ := tok_match tok (render rest) hne (hwf tok (by simp)) hsep'.1 htl
      have hlen : (renderTok tok).length ≥ 1 := renderTok_len_pos tok hne
      have hf' : nonText rest < f := by
        cases tok with
        | text t => exact absurd rfl (hne t)
        | pct => simp only [nonText] at hf; omega
        | lone => simp only [nonText] at hf; omega
        | arg num fmt c => simp only [nonText] at hf; omega
      have hple : p ≤ s.size := by have := htl.2; omega
      rw [fi_hit f hple hm, expectedFrom_tok p tok rest hne]
      have hb : (st.pos == p) = false := by simp; omega
      rw [hb, hpos]
      have ih' := ih (p + (renderTok tok).length) f hwfr hsep'.2 (tail_append htl).2 hf'
      simp only [mapOpt, hatok, Option.map_some, ih']

/-- **a value assembled from well-formed, separated tokens lexes back to exactly those tokens**
    (with their offsets) -/
theorem atoks_render (ts : List RTok) (h : WfRender ts) : atoks (render ts) = some (expectedFrom 0 ts) := by
  unfold atoks finditer
  have hsum := nonText_le ts
  exact lex_from (render ts).toArray ts 0 _ h.1 h.2 (tail_toArray _) (by simp; omega)

end C06R

/- Literal-like regex items (literal characters and groups of such: what a fully bound, wildcard-free
   variable value compiles to, nested variables included) run like a literal text: `GlRun`. -/
import CLModel.Proofs.C12REngine
namespace C11R
open Rx PM

theorem litlike_glok {body : List Re} {t : Text} (h : LitLike body t) : ∃ F, GlRun body t F ∧ GlIdx body F := by
  induction h with
  | nil =>
    refine ⟨fun _ => [], ?_, fun p e he => by cases he⟩
    intro s st k
    refine ⟨fun _ => by simp [seqOf, m], fun hn => ?_⟩
    exfalso; apply hn; intro j hj; simp at hj
  | @lit c rest t _ ih =>
    obtain ⟨F, hr, hi⟩ := ih
    refine ⟨fun p => F (p + 1), ?_, ?_⟩
    · intro s st k
      refine ⟨fun ht => ?_, fun hn => ?_⟩
      · obtain ⟨hc, htl⟩ := ht.tail
        rw [m_seqOf_cons]
        simp only [m, hc, beq_self_eq_true, if_true]
        rw [(hr s ⟨st.pos + 1, st.caps⟩ k).1 htl]
        simp only [List.length_cons]
        congr 2; omega
      · rw [m_seqOf_cons]
        simp only [m]
        split
        · rename_i hc
          have hc' : s[st.pos]? = some c := by simpa using hc
          exact (hr s ⟨st.pos + 1, st.caps⟩ k).2 (fun htl => hn (TextAt.cons hc' htl))
        · rfl
    · intro p e he
      have := hi (p + 1) e he
      simpa [gidx, groups] using this
  | @group i body tb rest t _ _ ihb ihr =>
    obtain ⟨Fb, hb, hib⟩ := ihb
    obtain ⟨Fr, hr, hir⟩ := ihr
    refine ⟨fun p => Fr (p + tb.length) ++ ((i, p, p + tb.length) :: Fb p), ?_, ?_⟩
    · intro s st k
      refine ⟨fun ht => ?_, fun hn => ?_⟩
      · obtain ⟨h1, h2⟩ := ht.split
        rw [m_seqOf_cons]
        simp only [m]
        rw [(hb s st _).1 h1]
        simp only
        rw [(hr s ⟨st.pos + tb.length, (i, st.pos, st.pos + tb.length) :: (Fb st.pos ++ st.caps)⟩ k).1 h2]
        simp only [List.length_append, List.append_assoc, List.cons_append]
        congr 2; omega
      · rw [m_seqOf_cons]
        simp only [m]
        by_cases h1 : TextAt s st.pos tb
        · rw [(hb s st _).1 h1]
          exact (hr s _ k).2 (fun h2 => hn (TextAt.append h1 h2))
        · exact (hb s st _).2 h1
    · intro p e he
      simp only [List.flatMap_cons, gidx_group, gidx_seqOf]
      rcases List.mem_append.mp he with he | he
      · exact List.mem_append.mpr (Or.inr (hir _ e he))
      · rcases List.mem_cons.mp he with rfl | he
        · simp
        · exact List.mem_append.mpr (Or.inl (List.mem_cons_of_mem _ (hib _ e he)))

end C11R
